(* C02 lemmas: the pushdown reader models of Model/PDA.v against the textbook semantics
   of Spec/PDA.v.  The model's stack has Python's orientation (top last); [abs] reverses it. *)
From Coq Require Import List Arith Bool Lia.
From AV Require Import Base.Util Spec.Lang Spec.FA Spec.PDA Model.PDA.
Import ListNotations.

(* ---------- generic list facts ---------- *)
Section ListFacts.
Context {A : Type}.

Lemma rev_inj (a b : list A) : rev a = rev b -> a = b.
Proof. intro H. rewrite <- (rev_involutive a), <- (rev_involutive b), H. reflexivity. Qed.

Lemma rev_removelast (s : list A) : rev (removelast s) = tl (rev s).
Proof.
  induction s as [|x s _] using rev_ind; [reflexivity|].
  rewrite removelast_last, rev_app_distr. reflexivity.
Qed.

Lemma existsb_false_In (f : A -> bool) l x : existsb f l = false -> In x l -> f x = false.
Proof.
  intros H Hx. destruct (f x) eqn:E; [|reflexivity].
  assert (existsb f l = true) by (apply existsb_exists; exists x; split; assumption). congruence.
Qed.

Lemma length1 (l : list A) : length l = 1 -> exists x, l = [x].
Proof. destruct l as [|x [|y r]]; simpl; intro H; try discriminate. exists x. reflexivity. Qed.
End ListFacts.

Lemma oassoc_In {B} a (row : list (option nat * B)) v : oassoc a row = Some v -> In (a, v) row.
Proof.
  induction row as [|[k' v'] r IH]; simpl; [discriminate|].
  destruct (eqb_opt Nat.eqb a k') eqn:E.
  - apply (eqb_opt_ok _ eqb_nat_ok) in E. subst. intro H. inversion H. left. reflexivity.
  - intro H. right. apply IH. exact H.
Qed.

Lemma oassoc_NoDup {B} a v (row : list (option nat * B)) :
  okeys_nodupb (map fst row) = true -> In (a, v) row -> oassoc a row = Some v.
Proof.
  induction row as [|[k' v'] r IH]; simpl; [tauto|].
  rewrite andb_true_iff, negb_true_iff. intros [Hn Hr] [H|H].
  - inversion H; subst. rewrite (eqb_ok_refl _ (eqb_opt_ok _ eqb_nat_ok)). reflexivity.
  - destruct (eqb_opt Nat.eqb a k') eqn:E.
    + apply (eqb_opt_ok _ eqb_nat_ok) in E. subst. exfalso.
      assert (Hf : eqb_opt Nat.eqb k' (fst (k', v)) = false).
      { apply (existsb_false_In _ _ _ Hn). apply in_map_iff. exists (k', v). split; [reflexivity|exact H]. }
      simpl in Hf. rewrite (eqb_ok_refl _ (eqb_opt_ok _ eqb_nat_ok)) in Hf. discriminate.
    + apply IH; assumption.
Qed.

Lemma assoc_key_Some {B} k (l : list (nat * B)) : In k (map fst l) -> exists v, assoc k l = Some v.
Proof.
  intro H. destruct (assoc k l) as [v|] eqn:E; [exists v; reflexivity|].
  apply assoc_None in E. contradiction.
Qed.

(* ---------- the stack: Python orientation vs top-first ---------- *)
Lemma stack_top_rev s : stack_top s = hd_error (rev s).
Proof.
  induction s as [|x s _] using rev_ind; [reflexivity|].
  unfold stack_top. destruct (s ++ [x]) as [|y t] eqn:E.
  - apply app_eq_nil in E. destruct E; discriminate.
  - rewrite <- E, last_last, rev_app_distr. reflexivity.
Qed.

Lemma replace_stack_top_rev s push : rev (replace_stack_top s push) = push ++ tl (rev s).
Proof.
  destruct push as [|a p]; simpl.
  - apply rev_removelast.
  - unfold stack_replace. rewrite rev_app_distr, rev_involutive, rev_removelast. reflexivity.
Qed.

(* first pushed symbol becomes the top; everything below the old top is untouched *)
Lemma replace_top_first s a push :
  stack_top (replace_stack_top s (a :: push)) = Some a /\
  removelast (replace_stack_top s (a :: push)) = removelast s ++ rev push.
Proof.
  split.
  - rewrite stack_top_rev, replace_stack_top_rev. reflexivity.
  - simpl. unfold stack_replace. simpl. rewrite app_assoc. apply removelast_last.
Qed.

(* ---------- configurations ---------- *)
Definition abs (c : cfg) : sconf := let '(q, w, s) := c in (q, w, rev s).
Definition conc (c : sconf) : cfg := let '(q, w, s) := c in (q, w, rev s).

Lemma abs_conc c : abs (conc c) = c.
Proof. destruct c as [[q w] s]. simpl. rewrite rev_involutive. reflexivity. Qed.
Lemma conc_abs c : conc (abs c) = c.
Proof. destruct c as [[q w] s]. simpl. rewrite rev_involutive. reflexivity. Qed.
Lemma abs_inj c d : abs c = abs d -> c = d.
Proof. intro H. rewrite <- (conc_abs c), <- (conc_abs d), H. reflexivity. Qed.

Lemma abs_start m w : abs (start_cfg m w) = pda_start m w.
Proof. reflexivity. Qed.

Lemma eqb_cfg_ok : eqb_ok eqb_cfg.
Proof.
  intros [[q w] s] [[q' w'] s']. unfold eqb_cfg. rewrite !andb_true_iff, Nat.eqb_eq.
  rewrite (eqb_list_ok _ eqb_nat_ok w w'), (eqb_list_ok _ eqb_nat_ok s s'). split.
  - intros [[-> ->] ->]. reflexivity.
  - intro E. inversion E. auto.
Qed.

Lemma existsb_eqb_cfg x l : existsb (eqb_cfg x) l = true <-> In x l.
Proof.
  rewrite existsb_exists. split.
  - intros [y [Hy E]]. apply eqb_cfg_ok in E. subst. exact Hy.
  - intro H. exists x. split; [exact H|apply eqb_cfg_ok; reflexivity].
Qed.

Lemma dedup_In x l : In x (dedup l) <-> In x l.
Proof.
  induction l as [|y r IH]; simpl; [tauto|].
  destruct (existsb (eqb_cfg y) r) eqn:E.
  - rewrite IH. split; [auto|]. intros [H|H]; [|exact H]. subst. apply existsb_eqb_cfg. exact E.
  - simpl. rewrite IH. tauto.
Qed.

Lemma dedup_NoDup l : NoDup (dedup l).
Proof.
  induction l as [|y r IH]; simpl; [constructor|].
  destruct (existsb (eqb_cfg y) r) eqn:E; [exact IH|].
  constructor; [|exact IH]. rewrite dedup_In. intro H. apply existsb_eqb_cfg in H. congruence.
Qed.

(* ---------- acceptance test ---------- *)
Lemma has_accepted_spec m c : has_accepted m c = true <-> pda_accepting m (abs c).
Proof.
  destruct c as [[q w] s]. simpl. destruct w as [|a w].
  - unfold final_or_empty.
    assert (Hs : (match s with [] => true | _ => false end) = true <-> rev s = []).
    { destruct s as [|x s]; simpl; [tauto|]. split; [discriminate|].
      intro H. apply app_eq_nil in H. destruct H; discriminate. }
    destruct (p_mode m).
    + rewrite memb_In. tauto.
    + rewrite Hs. tauto.
    + rewrite orb_true_iff, memb_In, Hs. tauto.
  - split; [discriminate|]. intros [H _]. discriminate.
Qed.

Lemma has_accepted_false m c : has_accepted m c = false <-> ~ pda_accepting m (abs c).
Proof.
  rewrite <- has_accepted_spec. destruct (has_accepted m c); split; intro H; try reflexivity;
    try discriminate; try (intro; discriminate). exfalso. apply H. reflexivity.
Qed.

(* ---------- one step: _get_next_configurations = the textbook move relation ---------- *)
Lemma pda_move_inv m q w s c' : pda_move m (q, w, s) c' ->
  exists Z s0 q' push, s = Z :: s0 /\
    ((exists a r, w = a :: r /\ In (q', push) (p_entry m q (Some a) Z) /\ c' = (q', r, push ++ s0)) \/
     (In (q', push) (p_entry m q None Z) /\ c' = (q', w, push ++ s0))).
Proof.
  intro H. inversion H; subst.
  - eexists _, _, _, _. split; [reflexivity|]. left. eexists _, _. split; [reflexivity|]. split; [eassumption|reflexivity].
  - eexists _, _, _, _. split; [reflexivity|]. right. split; [eassumption|reflexivity].
Qed.

Lemma npda_next_move m c c' : In c' (npda_next m c) <-> pda_move m (abs c) (abs c').
Proof.
  destruct c as [[q w] s]. unfold npda_next. rewrite in_map_iff. split.
  - intros [[[a q'] push] [E Hin]]. subst c'. simpl.
    rewrite replace_stack_top_rev. unfold npda_get_transitions in Hin.
    rewrite stack_top_rev in Hin. destruct (rev s) as [|Z s0] eqn:Es; simpl in Hin.
    { destruct w; simpl in Hin; contradiction. }
    apply in_app_or in Hin. destruct Hin as [Hin|Hin].
    + destruct w as [|x r]; [contradiction|]. apply in_map_iff in Hin.
      destruct Hin as [[t p] [E Hin]]. simpl in E. inversion E; subst. simpl.
      apply mv_sym. exact Hin.
    + apply in_map_iff in Hin. destruct Hin as [[t p] [E Hin]]. simpl in E. inversion E; subst. simpl.
      apply mv_eps. exact Hin.
  - destruct c' as [[q2 w2] s2]. simpl. intro H. apply pda_move_inv in H.
    destruct H as [Z [s0 [q' [push [Es [[a [r [Ew [Hin E]]]]|[Hin E]]]]]]];
      injection E as E1 E2 E3; subst q2 w2.
    + subst w. exists (Some a, q', push). split.
      * simpl. f_equal. apply rev_inj. rewrite replace_stack_top_rev, Es. simpl. symmetry. exact E3.
      * apply in_or_app. left. unfold npda_get_transitions. rewrite stack_top_rev, Es. simpl.
        apply in_map_iff. exists (q', push). split; [reflexivity|exact Hin].
    + exists (None, q', push). split.
      * simpl. f_equal. apply rev_inj. rewrite replace_stack_top_rev, Es. simpl. symmetry. exact E3.
      * apply in_or_app. right. unfold npda_get_transitions. rewrite stack_top_rev, Es. simpl.
        apply in_map_iff. exists (q', push). split; [reflexivity|exact Hin].
Qed.

(* the `if remaining_input ... elif _has_lambda_transition` guard changes nothing *)
Lemma has_lambda_false_entry m q Z : has_lambda m q (Some Z) = false -> p_entry m q None Z = [].
Proof.
  unfold has_lambda, p_entry. destruct (assoc q (p_trans m)) as [row|]; [|reflexivity].
  destruct (oassoc None row) as [tops|]; [|reflexivity].
  intro H. apply memb_false in H. apply assoc_None in H. rewrite H. reflexivity.
Qed.

Lemma npda_expand_next m c : npda_expand m c = npda_next m c.
Proof.
  destruct c as [[q w] s]. destruct w as [|a w]; [|reflexivity].
  unfold npda_expand. destruct (has_lambda m q (stack_top s)) eqn:E; [reflexivity|].
  unfold npda_next, npda_get_transitions. destruct (stack_top s) as [Z|]; [|reflexivity].
  rewrite (has_lambda_false_entry _ _ _ E). reflexivity.
Qed.

(* ---------- k-step relation ---------- *)
Lemma pda_moves_split m a b x z :
  pda_moves m (a + b) x z -> exists y, pda_moves m a x y /\ pda_moves m b y z.
Proof.
  revert z. induction b as [|b IH]; intros z H.
  - rewrite Nat.add_0_r in H. exists z. split; [exact H|constructor].
  - rewrite Nat.add_succ_r in H. inversion H as [|k c c1 c2 H1 H2]; subst.
    destruct (IH _ H1) as [y [Ha Hb]]. exists y. split; [exact Ha|].
    econstructor; eassumption.
Qed.

Lemma pda_moves_0 m x y : pda_moves m 0 x y -> x = y.
Proof. intro H. inversion H. reflexivity. Qed.

Lemma pda_moves_first m k x z :
  pda_moves m (S k) x z -> exists y, pda_move m x y /\ pda_moves m k y z.
Proof.
  intro H. change (S k) with (1 + k) in H. apply pda_moves_split in H.
  destruct H as [y [H1 H2]]. exists y. split; [|exact H2].
  inversion H1 as [|k' c c1 c2 H0 Hm]; subst. apply pda_moves_0 in H0. subst. exact Hm.
Qed.

(* ---------- NPDA: levels ---------- *)
Section NPDA.
Variable m : pda.
Variable w : word.

(* configuration c (Python orientation) is reachable from the start in exactly k moves *)
Definition at_level (k : nat) (c : cfg) : Prop := pda_moves m k (pda_start m w) (abs c).

Lemma level_0 c : In c [start_cfg m w] <-> at_level 0 c.
Proof.
  unfold at_level. split.
  - intros [H|[]]. subst. rewrite abs_start. constructor.
  - intro H. apply pda_moves_0 in H. left. apply abs_inj. rewrite abs_start. exact H.
Qed.

Lemma level_step k cur :
  (forall c, In c cur <-> at_level k c) ->
  forall c', In c' (dedup (flat_map (npda_expand m) cur)) <-> at_level (S k) c'.
Proof.
  intros Hcur c'. rewrite dedup_In, in_flat_map. unfold at_level. split.
  - intros [c [Hc Hn]]. rewrite npda_expand_next in Hn. apply npda_next_move in Hn.
    apply Hcur in Hc. econstructor; eassumption.
  - intro H. inversion H as [|k' c0 c1 c2 H1 H2]; subst.
    exists (conc c1). split.
    + apply Hcur. unfold at_level. rewrite abs_conc. exact H1.
    + rewrite npda_expand_next. apply npda_next_move. rewrite abs_conc. exact H2.
Qed.

Lemma nil_or_not (cur : list cfg) : cur = [] \/ cur <> [].
Proof. destruct cur; [left; reflexivity|right; discriminate]. Qed.

Lemma npda_levels_nil fuel : npda_levels m fuel [] = ([], Err Reject).
Proof. destruct fuel; reflexivity. Qed.
Lemma npda_levels_0 cur : cur <> [] -> npda_levels m 0 cur = ([], Err Fuel).
Proof. destruct cur; [congruence|reflexivity]. Qed.
Lemma npda_levels_S f cur : cur <> [] ->
  npda_levels m (S f) cur =
    if existsb (has_accepted m) cur then ([], Ok tt)
    else let nxt := dedup (flat_map (npda_expand m) cur) in
         let (ys, r) := npda_levels m f nxt in (nxt :: ys, r).
Proof. destruct cur; [congruence|reflexivity]. Qed.

Lemma npda_levels_exact fuel : forall k cur ys r,
  (forall c, In c cur <-> at_level k c) ->
  npda_levels m fuel cur = (ys, r) ->
  forall j, j < length ys ->
    NoDup (nth j ys []) /\ forall c, In c (nth j ys []) <-> at_level (S k + j) c.
Proof.
  induction fuel as [|f IH]; intros k cur ys r Hcur E j Hj.
  - destruct (nil_or_not cur) as [->|Hne].
    + rewrite npda_levels_nil in E. inversion E; subst. simpl in Hj. lia.
    + rewrite (npda_levels_0 _ Hne) in E. inversion E; subst. simpl in Hj. lia.
  - destruct (nil_or_not cur) as [->|Hne].
    { rewrite npda_levels_nil in E. inversion E; subst. simpl in Hj. lia. }
    rewrite (npda_levels_S _ _ Hne) in E.
    destruct (existsb (has_accepted m) cur).
    { inversion E; subst. simpl in Hj. lia. }
    cbv zeta in E.
    destruct (npda_levels m f (dedup (flat_map (npda_expand m) cur))) as [ys' r'] eqn:E'.
    inversion E; subst. destruct j as [|j].
    + simpl. split; [apply dedup_NoDup|]. intro c. rewrite Nat.add_0_r. apply level_step. exact Hcur.
    + simpl in Hj. simpl nth.
      replace (S k + S j) with (S (S k) + j) by lia.
      apply (IH (S k) (dedup (flat_map (npda_expand m) cur)) ys' r); [apply level_step; exact Hcur|exact E'|lia].
Qed.

Lemma empty_level_rejects k :
  (forall c, In c [] <-> at_level k c) ->
  (forall j c, j < k -> at_level j c -> has_accepted m c = false) ->
  ~ pda_accepts m w.
Proof.
  intros Hcur Hlow [c [[n Hn] Hacc]].
  destruct (Nat.lt_ge_cases n k) as [Hlt|Hge].
  - assert (Hf : has_accepted m (conc c) = false).
    { apply (Hlow n); [exact Hlt|]. unfold at_level. rewrite abs_conc. exact Hn. }
    apply has_accepted_false in Hf. rewrite abs_conc in Hf. contradiction.
  - replace n with (k + (n - k)) in Hn by lia. apply pda_moves_split in Hn.
    destruct Hn as [y [Hy _]]. assert (Hin : In (conc y) []).
    { apply Hcur. unfold at_level. rewrite abs_conc. exact Hy. }
    destruct Hin.
Qed.

(* what the generator's end says *)
Lemma npda_levels_verdict fuel : forall k cur ys r,
  (forall c, In c cur <-> at_level k c) ->
  (forall j c, j < k -> at_level j c -> has_accepted m c = false) ->
  npda_levels m fuel cur = (ys, r) ->
  (r = Ok tt -> pda_accepts m w) /\ (r = Err Reject -> ~ pda_accepts m w).
Proof.
  induction fuel as [|f IH]; intros k cur ys r Hcur Hlow E.
  - destruct (nil_or_not cur) as [->|Hne].
    + rewrite npda_levels_nil in E. inversion E; subst. split; [discriminate|].
      intros _. exact (empty_level_rejects k Hcur Hlow).
    + rewrite (npda_levels_0 _ Hne) in E. inversion E; subst. split; discriminate.
  - destruct (nil_or_not cur) as [->|Hne].
    + rewrite npda_levels_nil in E. inversion E; subst. split; [discriminate|].
      intros _. exact (empty_level_rejects k Hcur Hlow).
    + rewrite (npda_levels_S _ _ Hne) in E.
      destruct (existsb (has_accepted m) cur) eqn:Eacc.
      * inversion E; subst. split; [|discriminate]. intros _.
        apply existsb_exists in Eacc. destruct Eacc as [c [Hc Ha]].
        exists (abs c). split; [exists k; apply Hcur; exact Hc|apply has_accepted_spec; exact Ha].
      * cbv zeta in E.
        destruct (npda_levels m f (dedup (flat_map (npda_expand m) cur))) as [ys' r'] eqn:E'.
        inversion E; subst.
        apply (IH (S k) (dedup (flat_map (npda_expand m) cur)) ys' r); [apply level_step; exact Hcur| |exact E'].
        intros j c Hj Hc. destruct (Nat.eq_dec j k) as [->|Hne'].
        -- apply (existsb_false_In _ _ _ Eacc). apply Hcur. exact Hc.
        -- apply (Hlow j); [lia|exact Hc].
Qed.

(* enough fuel: an accepting configuration d levels further down is found *)
Lemma npda_levels_complete fuel : forall k cur ys r,
  (forall c, In c cur <-> at_level k c) ->
  npda_levels m fuel cur = (ys, r) ->
  (exists d c, d < fuel /\ at_level (k + d) c /\ has_accepted m c = true) ->
  r = Ok tt.
Proof.
  induction fuel as [|f IH]; intros k cur ys r Hcur E [d [c [Hd [Hc Ha]]]]; [lia|].
  destruct (nil_or_not cur) as [->|Hne].
  - exfalso. unfold at_level in Hc. apply pda_moves_split in Hc. destruct Hc as [y [Hy _]].
    assert (Hin : In (conc y) []) by (apply Hcur; unfold at_level; rewrite abs_conc; exact Hy).
    destruct Hin.
  - rewrite (npda_levels_S _ _ Hne) in E.
    destruct (existsb (has_accepted m) cur) eqn:Eacc.
    + inversion E. reflexivity.
    + cbv zeta in E.
      destruct (npda_levels m f (dedup (flat_map (npda_expand m) cur))) as [ys' r'] eqn:E'.
      inversion E; subst. destruct d as [|d].
      * exfalso. rewrite Nat.add_0_r in Hc. apply Hcur in Hc.
        rewrite (existsb_false_In _ _ _ Eacc Hc) in Ha. discriminate.
      * apply (IH (S k) (dedup (flat_map (npda_expand m) cur)) ys' r); [apply level_step; exact Hcur|exact E'|].
        exists d, c. split; [lia|]. split; [|exact Ha].
        replace (S k + d) with (k + S d) by lia. exact Hc.
Qed.

Lemma verdict_of_true r : verdict_of r = Ok true <-> r = Ok tt.
Proof. destruct r as [[]|e]; simpl; [tauto|]. destruct e; split; discriminate. Qed.
Lemma verdict_of_false r : verdict_of r = Ok false <-> r = Err Reject.
Proof. destruct r as [[]|e]; simpl; [split; discriminate|]. destruct e; split; try discriminate; reflexivity. Qed.

(* every yielded set, the stopping one included, is exactly one level of the textbook
   reachability relation, without repetitions; the first one is the start configuration *)
Lemma npda_stepwise_levels fuel ys r :
  npda_stepwise m fuel w = (ys, r) ->
  nth 0 ys [] = [start_cfg m w] /\
  forall k, k < length ys ->
    NoDup (nth k ys []) /\ forall c, In c (nth k ys []) <-> at_level k c.
Proof.
  unfold npda_stepwise. destruct (npda_levels m fuel [start_cfg m w]) as [ys' r'] eqn:E.
  intro H. inversion H; subst. split; [reflexivity|]. intros k Hk. destruct k as [|k].
  - simpl. split; [constructor; [intros []|constructor]|]. apply level_0.
  - simpl in Hk. simpl nth.
    apply (npda_levels_exact fuel 0 _ ys' r level_0 E k). lia.
Qed.

Lemma npda_verdict_sound fuel :
  (npda_accepts m fuel w = Ok true -> pda_accepts m w) /\
  (npda_accepts m fuel w = Ok false -> ~ pda_accepts m w).
Proof.
  unfold npda_accepts, npda_stepwise.
  destruct (npda_levels m fuel [start_cfg m w]) as [ys r] eqn:E. simpl.
  rewrite verdict_of_true, verdict_of_false.
  apply (npda_levels_verdict fuel 0 _ ys r level_0); [|exact E]. intros j c Hj. lia.
Qed.

Lemma npda_accepts_complete :
  pda_accepts m w -> exists fuel0, forall fuel, fuel0 <= fuel -> npda_accepts m fuel w = Ok true.
Proof.
  intros [c [[n Hn] Hacc]]. exists (S n). intros fuel Hf.
  unfold npda_accepts, npda_stepwise.
  destruct (npda_levels m fuel [start_cfg m w]) as [ys r] eqn:E. simpl.
  apply verdict_of_true. apply (npda_levels_complete fuel 0 _ ys r level_0 E).
  exists n, (conc c). split; [lia|]. split.
  - unfold at_level. rewrite abs_conc. exact Hn.
  - apply has_accepted_spec. rewrite abs_conc. exact Hacc.
Qed.
End NPDA.

(* ---------- DPDA constructor: the nondeterminism scan ---------- *)
Section DetCheck.
Variable m : pda.

(* scan passes => no (state, top) has both a symbol move and an empty-string move listed *)
Lemma det_check_table : dpda_det_check m = true ->
  forall q a Z, p_entry m q (Some a) Z <> [] -> p_entry m q None Z <> [] -> False.
Proof.
  intros Hd q a Z. unfold p_entry.
  destruct (assoc q (p_trans m)) as [row|] eqn:Eq; [|congruence].
  destruct (oassoc (Some a) row) as [sib|] eqn:Es; [|congruence].
  destruct (assoc Z sib) as [e1|] eqn:E1; [|congruence].
  destruct (oassoc None row) as [eps|] eqn:Ee; [|congruence].
  destruct (assoc Z eps) as [e2|] eqn:E2; [|congruence].
  intros _ _.
  unfold dpda_det_check in Hd. rewrite forallb_forall in Hd.
  specialize (Hd _ (assoc_In _ _ _ Eq)). simpl in Hd. rewrite forallb_forall in Hd.
  specialize (Hd _ (oassoc_In _ _ _ Ee)). simpl in Hd. rewrite forallb_forall in Hd.
  specialize (Hd Z (assoc_Some_key _ _ _ E2)).
  unfold det_isolated_ok in Hd. rewrite Ee in Hd. rewrite forallb_forall in Hd.
  specialize (Hd _ (oassoc_In _ _ _ Es)). simpl in Hd.
  unfold det_sibling_ok in Hd. rewrite forallb_forall in Hd.
  specialize (Hd Z (assoc_Some_key _ _ _ E1)).
  assert (Hm : memb Z (map fst eps) = true) by (apply memb_In; eapply assoc_Some_key; eassumption).
  rewrite Hm in Hd. discriminate.
Qed.

Hypothesis Hkeys : keys_ok m = true.

Lemma keys_lookup q row a tops Z e :
  In (q, row) (p_trans m) -> In (a, tops) row -> In (Z, e) tops -> p_entry m q a Z = e.
Proof.
  intros H1 H2 H3. unfold keys_ok in Hkeys. apply andb_true_iff in Hkeys. destruct Hkeys as [K1 K2].
  apply nodupb_NoDup in K1. rewrite forallb_forall in K2. specialize (K2 _ H1). simpl in K2.
  unfold row_keys_ok in K2. apply andb_true_iff in K2. destruct K2 as [K2 K3].
  rewrite forallb_forall in K3. specialize (K3 _ H2). simpl in K3. unfold tops_keys_ok in K3.
  apply nodupb_NoDup in K3.
  unfold p_entry. rewrite (assoc_NoDup _ _ _ K1 H1), (oassoc_NoDup _ _ _ K2 H2), (assoc_NoDup _ _ _ K3 H3).
  reflexivity.
Qed.

Hypothesis Hshape : dpda_shape m = true.

Lemma shape_entry q a Z : p_entry m q a Z = [] \/ exists mv, p_entry m q a Z = [mv].
Proof.
  unfold p_entry. destruct (assoc q (p_trans m)) as [row|] eqn:Eq; [|left; reflexivity].
  destruct (oassoc a row) as [tops|] eqn:Ea; [|left; reflexivity].
  destruct (assoc Z tops) as [e|] eqn:Ez; [|left; reflexivity].
  right. apply length1. unfold dpda_shape in Hshape. rewrite forallb_forall in Hshape.
  specialize (Hshape _ (assoc_In _ _ _ Eq)). simpl in Hshape. rewrite forallb_forall in Hshape.
  specialize (Hshape _ (oassoc_In _ _ _ Ea)). simpl in Hshape. rewrite forallb_forall in Hshape.
  specialize (Hshape _ (assoc_In _ _ _ Ez)). simpl in Hshape. apply Nat.eqb_eq. exact Hshape.
Qed.

Lemma shape_unique q a Z x y : In x (p_entry m q a Z) -> In y (p_entry m q a Z) -> x = y.
Proof.
  destruct (shape_entry q a Z) as [E|[mv E]]; rewrite E; simpl; [tauto|].
  intros [<-|[]] [<-|[]]. reflexivity.
Qed.

(* the constructor's scan accepts exactly the tables in which no configuration has two
   applicable moves *)
Lemma det_check_iff : dpda_det_check m = true <-> deterministic m.
Proof.
  split.
  - intros Hd [[p w] s] [[[[q1 a1] Z1] t1] p1] [[[[q2 a2] Z2] t2] p2]. simpl.
    intros R1 R2 [-> [Hz1 Ha1]] [<- [Hz2 Ha2]].
    assert (Z1 = Z2) by congruence. subst Z2.
    destruct a1 as [x1|], a2 as [x2|].
    + assert (x1 = x2) by congruence. subst x2.
      assert (E : (t1, p1) = (t2, p2)) by (eapply shape_unique; eassumption).
      inversion E. reflexivity.
    + exfalso. apply (det_check_table Hd q1 x1 Z1); intro E.
      * rewrite E in R1. destruct R1.
      * rewrite E in R2. destruct R2.
    + exfalso. apply (det_check_table Hd q1 x2 Z1); intro E.
      * rewrite E in R2. destruct R2.
      * rewrite E in R1. destruct R1.
    + assert (E : (t1, p1) = (t2, p2)) by (eapply shape_unique; eassumption).
      inversion E. reflexivity.
  - intro Hdet. unfold dpda_det_check. apply forallb_forall. intros [q row] Hq. simpl.
    apply forallb_forall. intros [a tops] Ha. simpl.
    apply forallb_forall. intros Z0 _.
    unfold det_isolated_ok. destruct a as [x|]; [reflexivity|].
    destruct (oassoc None row) as [eps|] eqn:Ee; [|reflexivity].
    apply forallb_forall. intros [b sib] Hb. simpl. destruct b as [x|]; [|reflexivity].
    unfold det_sibling_ok. apply forallb_forall. intros Z' Hz'.
    destruct (memb Z' (map fst eps)) eqn:Hm; [|reflexivity]. exfalso.
    apply memb_In in Hm. apply in_map_iff in Hm. destruct Hm as [[Z2 e2] [Ez2 He2]]. simpl in Ez2. subst Z2.
    apply in_map_iff in Hz'. destruct Hz' as [[Z1 e1] [Ez1 He1]]. simpl in Ez1. subst Z1.
    pose proof (keys_lookup q row (Some x) sib Z' e1 Hq Hb He1) as L1.
    pose proof (keys_lookup q row None eps Z' e2 Hq (oassoc_In _ _ _ Ee) He2) as L2.
    destruct (shape_entry q (Some x) Z') as [E|[[t1 p1] E1]].
    { (* the listed entry is the looked-up one, of length one *)
      unfold dpda_shape in Hshape. rewrite forallb_forall in Hshape.
      specialize (Hshape _ Hq). simpl in Hshape. rewrite forallb_forall in Hshape.
      specialize (Hshape _ Hb). simpl in Hshape. rewrite forallb_forall in Hshape.
      specialize (Hshape _ He1). simpl in Hshape. apply Nat.eqb_eq in Hshape.
      rewrite <- L1, E in Hshape. discriminate. }
    destruct (shape_entry q None Z') as [E|[[t2 p2] E2]].
    { unfold dpda_shape in Hshape. rewrite forallb_forall in Hshape.
      specialize (Hshape _ Hq). simpl in Hshape. rewrite forallb_forall in Hshape.
      specialize (Hshape _ (oassoc_In _ _ _ Ee)). simpl in Hshape. rewrite forallb_forall in Hshape.
      specialize (Hshape _ He2). simpl in Hshape. apply Nat.eqb_eq in Hshape.
      rewrite <- L2, E in Hshape. discriminate. }
    assert (Habs : (q, Some x, Z', t1, p1) = (q, None, Z', t2, p2)).
    { apply (Hdet (q, [x], [Z'])); simpl.
      - rewrite E1. left. reflexivity.
      - rewrite E2. left. reflexivity.
      - auto.
      - auto. }
    discriminate.
Qed.
End DetCheck.

(* ---------- DPDA run ---------- *)
Lemma dpda_get_transition_entry m q a Z :
  dpda_get_transition m q a (Some Z) =
    match p_entry m q a Z with mv :: _ => Some (a, fst mv, snd mv) | [] => None end.
Proof.
  unfold dpda_get_transition, p_entry.
  destruct (assoc q (p_trans m)) as [row|]; [|reflexivity].
  destruct (oassoc a row) as [tops|]; [|reflexivity].
  destruct (assoc Z tops) as [[|mv e]|]; reflexivity.
Qed.

Section DPDA.
Variable m : pda.
Hypothesis Hshape : dpda_shape m = true.
Hypothesis Hdet : dpda_det_check m = true.

(* on a deterministic table the DPDA successor is the one and only NPDA successor *)
Lemma dpda_npda_next c :
  npda_next m c = match dpda_next m c with Ok c' => [c'] | Err _ => [] end.
Proof.
  destruct c as [[q w] s]. unfold npda_next, dpda_next.
  destruct (stack_top s) as [Z|].
  2:{ simpl. destruct w; reflexivity. }
  rewrite !dpda_get_transition_entry. unfold npda_get_transitions.
  destruct w as [|a r].
  - destruct (shape_entry m Hshape q None Z) as [E|[mv E]]; rewrite E; reflexivity.
  - rewrite dpda_get_transition_entry.
    destruct (shape_entry m Hshape q (Some a) Z) as [E1|[mv1 E1]];
    destruct (shape_entry m Hshape q None Z) as [E2|[mv2 E2]]; rewrite ?E1, ?E2; try reflexivity.
    exfalso. apply (det_check_table m Hdet q a Z); rewrite ?E1, ?E2; discriminate.
Qed.

Lemma dpda_next_move c c' : dpda_next m c = Ok c' -> pda_move m (abs c) (abs c').
Proof.
  intro H. apply npda_next_move. rewrite dpda_npda_next, H. left. reflexivity.
Qed.

Lemma dpda_next_only c c' b : dpda_next m c = Ok c' -> pda_move m (abs c) b -> b = abs c'.
Proof.
  intros H Hm. rewrite <- (abs_conc b) in Hm. apply npda_next_move in Hm.
  rewrite dpda_npda_next, H in Hm. destruct Hm as [Hm|[]]. rewrite Hm. symmetry. apply abs_conc.
Qed.

Lemma dpda_next_stuck c e b : dpda_next m c = Err e -> ~ pda_move m (abs c) b.
Proof.
  intros H Hm. rewrite <- (abs_conc b) in Hm. apply npda_next_move in Hm.
  rewrite dpda_npda_next, H in Hm. destruct Hm.
Qed.

Lemma loop_cond_false_stuck c b : dpda_loop_cond m c = false -> ~ pda_move m (abs c) b.
Proof.
  intros H Hm. rewrite <- (abs_conc b) in Hm. apply npda_next_move in Hm.
  rewrite <- npda_expand_next in Hm. destruct c as [[q w] s]. simpl in H.
  destruct w as [|a r]; [|discriminate]. unfold npda_expand in Hm. rewrite H in Hm. destruct Hm.
Qed.

(* a non-accepting configuration without successor: nothing accepting is reachable *)
Lemma stuck_rejects c :
  has_accepted m c = false -> (forall b, ~ pda_move m (abs c) b) ->
  forall b, pda_reach m (abs c) b -> ~ pda_accepting m b.
Proof.
  intros Ha Hs b [n Hn]. destruct n as [|n].
  - apply pda_moves_0 in Hn. subst b. apply has_accepted_false. exact Ha.
  - apply pda_moves_first in Hn. destruct Hn as [y [Hy _]]. exfalso. exact (Hs y Hy).
Qed.

Lemma dpda_loop_nocond fuel c : dpda_loop_cond m c = false -> dpda_loop m fuel c = ([], dpda_check m c).
Proof. intro H. destruct fuel; simpl; rewrite H; reflexivity. Qed.

Lemma dpda_loop_S f c : dpda_loop_cond m c = true ->
  dpda_loop m (S f) c =
    match dpda_next m c with
    | Err e => ([], Err e)
    | Ok c' => if has_accepted m c' then ([c'], Ok tt)
               else let (ys, r) := dpda_loop m f c' in (c' :: ys, r)
    end.
Proof. intro H. simpl. rewrite H. reflexivity. Qed.

Lemma dpda_loop_0 c : dpda_loop_cond m c = true -> dpda_loop m 0 c = ([], Err Fuel).
Proof. intro H. simpl. rewrite H. reflexivity. Qed.

Lemma dpda_loop_reject fuel : forall c ys,
  has_accepted m c = false -> dpda_loop m fuel c = (ys, Err Reject) ->
  forall b, pda_reach m (abs c) b -> ~ pda_accepting m b.
Proof.
  induction fuel as [|f IH]; intros c ys Ha E.
  - destruct (dpda_loop_cond m c) eqn:Ec.
    + rewrite (dpda_loop_0 _ Ec) in E. inversion E.
    + apply stuck_rejects; [exact Ha|]. intro b. apply loop_cond_false_stuck. exact Ec.
  - destruct (dpda_loop_cond m c) eqn:Ec.
    2:{ apply stuck_rejects; [exact Ha|]. intro b. apply loop_cond_false_stuck. exact Ec. }
    rewrite (dpda_loop_S _ _ Ec) in E. destruct (dpda_next m c) as [c'|e] eqn:En.
    + destruct (has_accepted m c') eqn:Ha'; [inversion E|].
      destruct (dpda_loop m f c') as [ys' r'] eqn:E'. inversion E; subst.
      intros b [n Hn]. destruct n as [|n].
      * apply pda_moves_0 in Hn. subst b. apply has_accepted_false. exact Ha.
      * apply pda_moves_first in Hn. destruct Hn as [y [Hy Hrest]].
        apply (dpda_next_only _ _ _ En) in Hy. subst y.
        apply (IH c' ys' Ha' E'). exists n. exact Hrest.
    + apply stuck_rejects; [exact Ha|]. intro b. eapply dpda_next_stuck. exact En.
Qed.

Lemma dpda_loop_accept fuel : forall c ys,
  dpda_loop m fuel c = (ys, Ok tt) ->
  exists c', pda_reach m (abs c) (abs c') /\ has_accepted m c' = true.
Proof.
  induction fuel as [|f IH]; intros c ys E.
  - destruct (dpda_loop_cond m c) eqn:Ec.
    + rewrite (dpda_loop_0 _ Ec) in E. inversion E.
    + rewrite (dpda_loop_nocond _ _ Ec) in E. unfold dpda_check in E.
      destruct (has_accepted m c) eqn:Ha; inversion E.
      exists c. split; [exists 0; constructor|exact Ha].
  - destruct (dpda_loop_cond m c) eqn:Ec.
    2:{ rewrite (dpda_loop_nocond _ _ Ec) in E. unfold dpda_check in E.
        destruct (has_accepted m c) eqn:Ha; inversion E.
        exists c. split; [exists 0; constructor|exact Ha]. }
    rewrite (dpda_loop_S _ _ Ec) in E. destruct (dpda_next m c) as [c'|e] eqn:En; [|inversion E].
    apply dpda_next_move in En.
    destruct (has_accepted m c') eqn:Ha'.
    + exists c'. split; [|exact Ha']. exists 1. econstructor; [constructor|exact En].
    + destruct (dpda_loop m f c') as [ys' r'] eqn:E'. inversion E; subst.
      destruct (IH c' ys' E') as [c2 [[n Hn] H2]]. exists c2. split; [|exact H2].
      exists (1 + n). clear - En Hn. revert Hn. generalize (abs c2). induction n as [|n IHn]; intros z Hn.
      * apply pda_moves_0 in Hn. subst z. econstructor; [constructor|exact En].
      * inversion Hn as [|k x c1 y H1 H2]; subst. simpl. econstructor; [|exact H2]. apply IHn. exact H1.
Qed.

(* the deterministic reader's verdict is the textbook verdict whenever it returns one *)
Lemma dpda_verdict_sound fuel w :
  (dpda_accepts m fuel w = Ok true -> pda_accepts m w) /\
  (dpda_accepts m fuel w = Ok false -> ~ pda_accepts m w).
Proof.
  unfold dpda_accepts, dpda_stepwise. destruct (has_accepted m (start_cfg m w)) eqn:H0.
  - simpl. split; [|discriminate]. intros _. exists (pda_start m w). split; [exists 0; constructor|].
    rewrite <- abs_start. apply has_accepted_spec. exact H0.
  - destruct (dpda_loop m fuel (start_cfg m w)) as [ys r] eqn:E. simpl.
    rewrite verdict_of_true, verdict_of_false. split; intro Hr; subst r.
    + destruct (dpda_loop_accept _ _ _ E) as [c' [Hreach Ha]].
      exists (abs c'). split; [rewrite <- abs_start; exact Hreach|apply has_accepted_spec; exact Ha].
    + intros [c [Hreach Hacc]]. rewrite <- abs_start in Hreach.
      exact (dpda_loop_reject _ _ _ H0 E c Hreach Hacc).
Qed.

(* same table, same verdict: for all fuels on which both readers return one *)
Lemma dpda_agrees_npda f1 f2 w b1 b2 :
  dpda_accepts m f1 w = Ok b1 -> npda_accepts m f2 w = Ok b2 -> b1 = b2.
Proof.
  intros H1 H2. destruct (dpda_verdict_sound f1 w) as [D1 D2].
  destruct (npda_verdict_sound m w f2) as [N1 N2].
  destruct b1, b2; try reflexivity; exfalso.
  - exact (N2 H2 (D1 H1)).
  - exact (D2 H1 (N1 H2)).
Qed.
Lemma pda_moves_cons k x y z : pda_move m x y -> pda_moves m k y z -> pda_moves m (S k) x z.
Proof.
  intros Hxy. revert z. induction k as [|k IHk]; intros z Hn.
  - apply pda_moves_0 in Hn. subst z. econstructor; [constructor|exact Hxy].
  - inversion Hn as [|k' x' c1 y' H1 H2]; subst. econstructor; [|exact H2]. apply IHk. exact H1.
Qed.

(* the (j+1)-th configuration yielded by the loop is THE configuration reached in j+1 moves *)
Lemma dpda_loop_trace fuel : forall c ys r d,
  dpda_loop m fuel c = (ys, r) ->
  forall j, j < length ys ->
    pda_moves m (S j) (abs c) (abs (nth j ys d)) /\
    forall b, pda_moves m (S j) (abs c) b -> b = abs (nth j ys d).
Proof.
  induction fuel as [|f IH]; intros c ys r d E j Hj.
  - destruct (dpda_loop_cond m c) eqn:Ec.
    + rewrite (dpda_loop_0 _ Ec) in E. inversion E; subst. simpl in Hj. lia.
    + rewrite (dpda_loop_nocond _ _ Ec) in E. inversion E; subst. simpl in Hj. lia.
  - destruct (dpda_loop_cond m c) eqn:Ec.
    2:{ rewrite (dpda_loop_nocond _ _ Ec) in E. inversion E; subst. simpl in Hj. lia. }
    rewrite (dpda_loop_S _ _ Ec) in E. destruct (dpda_next m c) as [c'|e] eqn:En.
    2:{ inversion E; subst. simpl in Hj. lia. }
    assert (H0 : pda_moves m 1 (abs c) (abs c') /\ forall b, pda_moves m 1 (abs c) b -> b = abs c').
    { split.
      - econstructor; [constructor|apply dpda_next_move; exact En].
      - intros b Hb. apply pda_moves_first in Hb. destruct Hb as [y [Hy Hb]].
        apply pda_moves_0 in Hb. subst y. eapply dpda_next_only; eassumption. }
    destruct (has_accepted m c').
    + inversion E; subst. destruct j as [|j]; [exact H0|simpl in Hj; lia].
    + destruct (dpda_loop m f c') as [ys' r'] eqn:E'. inversion E; subst.
      destruct j as [|j]; [exact H0|]. simpl in Hj. simpl nth.
      destruct (IH c' ys' r d E' j) as [I1 I2]; [lia|]. split.
      * eapply pda_moves_cons; [apply dpda_next_move; exact En|exact I1].
      * intros b Hb. apply pda_moves_first in Hb. destruct Hb as [y [Hy Hb]].
        apply (dpda_next_only _ _ _ En) in Hy. subst y. apply I2. exact Hb.
Qed.

Lemma dpda_stepwise_trace fuel w ys r d :
  dpda_stepwise m fuel w = (ys, r) ->
  forall k, k < length ys ->
    at_level m w k (nth k ys d) /\ forall c, at_level m w k c -> c = nth k ys d.
Proof.
  unfold dpda_stepwise, at_level. intros E k Hk.
  assert (H0 : pda_moves m 0 (pda_start m w) (abs (start_cfg m w)) /\
               forall c, pda_moves m 0 (pda_start m w) (abs c) -> c = start_cfg m w).
  { split; [rewrite abs_start; constructor|]. intros c Hc. apply pda_moves_0 in Hc.
    apply abs_inj. rewrite abs_start. symmetry. exact Hc. }
  destruct (has_accepted m (start_cfg m w)).
  - inversion E; subst. destruct k as [|k]; [exact H0|simpl in Hk; lia].
  - destruct (dpda_loop m fuel (start_cfg m w)) as [ys' r'] eqn:E'. inversion E; subst.
    destruct k as [|k]; [exact H0|]. simpl in Hk. simpl nth.
    destruct (dpda_loop_trace fuel _ ys' r d E' k) as [I1 I2]; [lia|].
    rewrite abs_start in I1, I2. split; [exact I1|].
    intros c Hc. apply abs_inj. apply I2. exact Hc.
Qed.

(* the run never ends with anything but return / RejectionException (or the model's fuel) *)
Lemma has_lambda_entry q Z : has_lambda m q (Some Z) = true -> p_entry m q None Z <> [].
Proof.
  unfold has_lambda. intro H.
  destruct (shape_entry m Hshape q None Z) as [E|[mv E]]; [|rewrite E; discriminate].
  exfalso. revert H E. unfold p_entry.
  destruct (assoc q (p_trans m)) as [row|] eqn:Eq; [|discriminate].
  destruct (oassoc None row) as [tops|] eqn:Ea; [|discriminate].
  intro H. apply memb_In in H. destruct (assoc_key_Some _ _ H) as [e Ez]. rewrite Ez. intro E. subst e.
  unfold dpda_shape in Hshape. rewrite forallb_forall in Hshape.
  specialize (Hshape _ (assoc_In _ _ _ Eq)). simpl in Hshape. rewrite forallb_forall in Hshape.
  specialize (Hshape _ (oassoc_In _ _ _ Ea)). simpl in Hshape. rewrite forallb_forall in Hshape.
  specialize (Hshape _ (assoc_In _ _ _ Ez)). simpl in Hshape. discriminate.
Qed.

Lemma has_lambda_None q : has_lambda m q None = false.
Proof.
  unfold has_lambda. destruct (assoc q (p_trans m)) as [row|]; [|reflexivity].
  destruct (oassoc None row); reflexivity.
Qed.

Lemma dpda_next_err c e : dpda_loop_cond m c = true -> dpda_next m c = Err e -> e = Reject.
Proof.
  destruct c as [[q w] s]. unfold dpda_loop_cond, dpda_next. destruct w as [|a r].
  - intro H. destruct (stack_top s) as [Z|]; [|rewrite has_lambda_None in H; discriminate].
    rewrite dpda_get_transition_entry. pose proof (has_lambda_entry q Z H) as Hne.
    destruct (p_entry m q None Z) as [|mv rest]; [congruence|]. discriminate.
  - intros _. destruct (match dpda_get_transition m q (Some a) (stack_top s) with
                        | Some t => Some t | None => dpda_get_transition m q None (stack_top s) end)
      as [[[x q'] nt]|]; [discriminate|]. intro H. inversion H. reflexivity.
Qed.

Lemma dpda_loop_outcome fuel : forall c ys r,
  dpda_loop m fuel c = (ys, r) -> r = Ok tt \/ r = Err Reject \/ r = Err Fuel.
Proof.
  induction fuel as [|f IH]; intros c ys r E.
  - destruct (dpda_loop_cond m c) eqn:Ec.
    + rewrite (dpda_loop_0 _ Ec) in E. inversion E. auto.
    + rewrite (dpda_loop_nocond _ _ Ec) in E. unfold dpda_check in E.
      destruct (has_accepted m c); inversion E; auto.
  - destruct (dpda_loop_cond m c) eqn:Ec.
    2:{ rewrite (dpda_loop_nocond _ _ Ec) in E. unfold dpda_check in E.
        destruct (has_accepted m c); inversion E; auto. }
    rewrite (dpda_loop_S _ _ Ec) in E. destruct (dpda_next m c) as [c'|e] eqn:En.
    + destruct (has_accepted m c'); [inversion E; auto|].
      destruct (dpda_loop m f c') as [ys' r'] eqn:E'. inversion E; subst. eapply IH. exact E'.
    + inversion E; subst. rewrite (dpda_next_err _ _ Ec En). auto.
Qed.

Lemma dpda_accepts_outcome fuel w :
  dpda_accepts m fuel w = Ok true \/ dpda_accepts m fuel w = Ok false \/ dpda_accepts m fuel w = Err Fuel.
Proof.
  unfold dpda_accepts, dpda_stepwise. destruct (has_accepted m (start_cfg m w)); [left; reflexivity|].
  destruct (dpda_loop m fuel (start_cfg m w)) as [ys r] eqn:E. simpl.
  destruct (dpda_loop_outcome _ _ _ _ E) as [Ho|[Ho|Ho]]; rewrite Ho; simpl; auto.
Qed.
End DPDA.

(* ---------- the constructor as a whole ---------- *)
Lemma first_err_cases e l :
  (forall r, In r l -> r = Ok tt \/ r = Err e) ->
  (first_err l = Ok tt /\ forall r, In r l -> r = Ok tt) \/ (first_err l = Err e /\ In (Err e) l).
Proof.
  induction l as [|x l IH]; intro H.
  - left. split; [reflexivity|intros r []].
  - destruct (H x (or_introl eq_refl)) as [->| ->].
    + simpl. destruct IH as [[E A]|[E I]].
      * intros r Hr. apply H. right. exact Hr.
      * left. split; [exact E|]. intros r [<-|Hr]; [reflexivity|apply A; exact Hr].
      * right. split; [exact E|right; exact I].
    + right. split; [reflexivity|left; reflexivity].
Qed.

Lemma guard_true b e : guard b e = Ok tt <-> b = true.
Proof. destruct b; simpl; split; intro H; try reflexivity; discriminate. Qed.

Section Validate.
Variable m : pda.
Hypothesis Hvalid : valid_pda m = true.

Lemma valid_pda_parts :
  keys_ok m = true /\
  (forall q row, In (q, row) (p_trans m) -> prow_syms_ok m row = true) /\
  memb (p_init m) (p_states m) = true /\ memb (p_init_stack m) (p_stack_syms m) = true /\
  subsetb (p_finals m) (p_states m) = true.
Proof.
  unfold valid_pda in Hvalid. rewrite !andb_true_iff in Hvalid.
  destruct Hvalid as [[[[H1 H2] H3] H4] H5]. repeat split; try assumption.
  intros q row Hin. rewrite forallb_forall in H2. exact (H2 _ Hin).
Qed.

Lemma validate_row_elems q row r :
  In (q, row) (p_trans m) -> In r (dpda_validate_row m row) ->
  r = Ok tt \/ exists a tops, In (a, tops) row /\ tops <> [] /\ r = guard (det_isolated_ok row a) (Invalid 20).
Proof.
  intros Hq Hr. destruct valid_pda_parts as [_ [Hs _]]. specialize (Hs _ _ Hq).
  unfold prow_syms_ok in Hs. rewrite forallb_forall in Hs.
  unfold dpda_validate_row in Hr. apply in_flat_map in Hr. destruct Hr as [[a tops] [Ha Hr]].
  specialize (Hs _ Ha). simpl in Hs. apply andb_true_iff in Hs. destruct Hs as [S1 S2].
  simpl in Hr. destruct Hr as [Hr|Hr].
  - left. subst r. rewrite S1. reflexivity.
  - apply in_flat_map in Hr. destruct Hr as [Z [HZ Hr]]. simpl in Hr. destruct Hr as [Hr|[Hr|[]]].
    + right. exists a, tops. split; [exact Ha|]. split; [|symmetry; exact Hr].
      intro E. subst tops. destruct HZ.
    + left. subst r. rewrite forallb_forall in S2. apply in_map_iff in HZ.
      destruct HZ as [[Z' e] [EZ HZ]]. simpl in EZ. subst Z'. specialize (S2 _ HZ). simpl in S2.
      rewrite S2. reflexivity.
Qed.

Lemma det_check_guards :
  dpda_det_check m = true <->
  forall q row a tops, In (q, row) (p_trans m) -> In (a, tops) row -> tops <> [] ->
                       det_isolated_ok row a = true.
Proof.
  unfold dpda_det_check. split.
  - intros H q row a tops Hq Ha Hne. rewrite forallb_forall in H. specialize (H _ Hq). simpl in H.
    rewrite forallb_forall in H. specialize (H _ Ha). simpl in H. rewrite forallb_forall in H.
    destruct tops as [|[Z e] t]; [congruence|]. apply (H Z). left. reflexivity.
  - intro H. apply forallb_forall. intros [q row] Hq. apply forallb_forall. intros [a tops] Ha.
    apply forallb_forall. intros Z HZ. simpl. apply (H q row a tops Hq Ha).
    intro E. subst tops. destruct HZ.
Qed.

(* with every key a declared symbol and the initial/final data valid, the only exception the
   DPDA constructor can raise is NondeterminismError, and it does so iff the scan fails *)
Lemma dpda_validate_det :
  dpda_validate m = if dpda_det_check m then Ok tt else Err (Invalid 20).
Proof.
  destruct valid_pda_parts as [_ [_ [V1 [V2 V3]]]].
  unfold dpda_validate. rewrite V1, V2, V3. simpl guard.
  set (rows := flat_map (fun qr => dpda_validate_row m (snd qr)) (p_trans m)).
  assert (Hel : forall r, In r (rows ++ [Ok tt; Ok tt; Ok tt]) -> r = Ok tt \/ r = Err (Invalid 20)).
  { intros r Hr. apply in_app_or in Hr. destruct Hr as [Hr|Hr].
    - unfold rows in Hr. apply in_flat_map in Hr. destruct Hr as [[q row] [Hq Hr]]. simpl in Hr.
      destruct (validate_row_elems _ _ _ Hq Hr) as [E|[a [tops [_ [_ E]]]]]; [left; exact E|].
      subst r. destruct (det_isolated_ok row a); simpl; auto.
    - simpl in Hr. destruct Hr as [<-|[<-|[<-|[]]]]; auto. }
  destruct (first_err_cases _ _ Hel) as [[E A]|[E I]]; rewrite E.
  - assert (Hd : dpda_det_check m = true); [|rewrite Hd; reflexivity].
    apply det_check_guards. intros q row a tops Hq Ha Hne.
    apply (guard_true _ (Invalid 20)). apply A. apply in_or_app. left.
    unfold rows. apply in_flat_map. exists (q, row). split; [exact Hq|]. simpl.
    unfold dpda_validate_row. apply in_flat_map. exists (a, tops). split; [exact Ha|]. simpl. right.
    destruct tops as [|[Z e] t]; [congruence|]. simpl. left. reflexivity.
  - assert (Hd : dpda_det_check m = false); [|rewrite Hd; reflexivity].
    apply in_app_or in I. destruct I as [I|I].
    2:{ simpl in I. destruct I as [I|[I|[I|[]]]]; discriminate. }
    unfold rows in I. apply in_flat_map in I. destruct I as [[q row] [Hq I]]. simpl in I.
    destruct (validate_row_elems _ _ _ Hq I) as [E'|[a [tops [Ha [Hne E']]]]]; [discriminate|].
    destruct (dpda_det_check m) eqn:Hd; [|reflexivity]. exfalso.
    rewrite (proj1 det_check_guards Hd q row a tops Hq Ha Hne) in E'. discriminate.
Qed.
End Validate.

(* ---------- the unrepaired DPDA reader (no acceptance test on the start configuration),
   kept only to exhibit the defect the repair removes ---------- *)
Definition dpda_accepts_unrepaired (m : pda) (fuel : nat) (w : word) : res bool :=
  verdict_of (snd (dpda_loop m fuel (start_cfg m w))).
