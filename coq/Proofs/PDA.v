(* C02 lemmas: the pushdown reader models of Model/PDA.v against the textbook semantics
   of Spec/PDA.v.  The model's stack has Python's orientation (top last); [abs] reverses it. *)
From Coq Require Import List Arith Bool Lia.
From AV Require Import Base.Util Spec.Lang Spec.FA Spec.PDA Model.PDA.
Import ListNotations.

(* ---------- generic list facts ---------- *)
Section ListFacts.
Context {A : Type}.

Lemma rev_inj (a b : list A) : rev a = rev b -> a = b.
Proof. intro H. rewrite <- (rev_involutive a), <- (rev_involutive b), H. reflexivity. Qed.

Lemma rev_removelast (s : list A) : rev (removelast s) = tl (rev s).
Proof.
  induction s as [|x s _] using rev_ind; [reflexivity|].
  rewrite removelast_last, rev_app_distr. reflexivity.
Qed.

Lemma existsb_false_In (f : A -> bool) l x : existsb f l = false -> In x l -> f x = false.
Proof.
  intros H Hx. destruct (f x) eqn:E; [|reflexivity].
  assert (existsb f l = true) by (apply existsb_exists; exists x; split; assumption). congruence.
Qed.

Lemma length1 (l : list A) : length l = 1 -> exists x, l = [x].
Proof. destruct l as [|x [|y r]]; simpl; intro H; try discriminate. exists x. reflexivity. Qed.
End ListFacts.

Lemma oassoc_In {B} a (row : list (option nat * B)) v : oassoc a row = Some v -> In (a, v) row.
Proof.
  induction row as [|[k' v'] r IH]; simpl; [discriminate|].
  destruct (eqb_opt Nat.eqb a k') eqn:E.
  - apply (eqb_opt_ok _ eqb_nat_ok) in E. subst. intro H. inversion H. left. reflexivity.
  - intro H. right. apply IH. exact H.
Qed.

Lemma oassoc_NoDup {B} a v (row : list (option nat * B)) :
  okeys_nodupb (map fst row) = true -> In (a, v) row -> oassoc a row = Some v.
Proof.
  induction row as [|[k' v'] r IH]; simpl; [tauto|].
  rewrite andb_true_iff, negb_true_iff. intros [Hn Hr] [H|H].
  - inversion H; subst. rewrite (eqb_ok_refl _ (eqb_opt_ok _ eqb_nat_ok)). reflexivity.
  - destruct (eqb_opt Nat.eqb a k') eqn:E.
    + apply (eqb_opt_ok _ eqb_nat_ok) in E. subst. exfalso.
      assert (Hf : eqb_opt Nat.eqb k' (fst (k', v)) = false).
      { apply (existsb_false_In _ _ _ Hn). apply in_map_iff. exists (k', v). split; [reflexivity|exact H]. }
      simpl in Hf. rewrite (eqb_ok_refl _ (eqb_opt_ok _ eqb_nat_ok)) in Hf. discriminate.
    + apply IH; assumption.
Qed.

Lemma assoc_key_Some {B} k (l : list (nat * B)) : In k (map fst l) -> exists v, assoc k l = Some v.
Proof.
  intro H. destruct (assoc k l) as [v|] eqn:E; [exists v; reflexivity|].
  apply assoc_None in E. contradiction.
Qed.

(* ---------- the stack: Python orientation vs top-first ---------- *)
Lemma stack_top_rev s : stack_top s = hd_error (rev s).
Proof.
  induction s as [|x s _] using rev_ind; [reflexivity|].
  unfold stack_top. destruct (s ++ [x]) as [|y t] eqn:E.
  - apply app_eq_nil in E. destruct E; discriminate.
  - rewrite <- E, last_last, rev_app_distr. reflexivity.
Qed.

Lemma replace_stack_top_rev s push : rev (replace_stack_top s push) = push ++ tl (rev s).
Proof.
  destruct push as [|a p]; simpl.
  - apply rev_removelast.
  - unfold stack_replace. rewrite rev_app_distr, rev_involutive, rev_removelast. reflexivity.
Qed.

(* first pushed symbol becomes the top; everything below the old top is untouched *)
Lemma replace_top_first s a push :
  stack_top (replace_stack_top s (a :: push)) = Some a /\
  removelast (replace_stack_top s (a :: push)) = removelast s ++ rev push.
Proof.
  split.
  - rewrite stack_top_rev, replace_stack_top_rev. reflexivity.
  - simpl. unfold stack_replace. simpl. rewrite app_assoc. apply removelast_last.
Qed.

(* ---------- configurations ---------- *)
Definition abs (c : cfg) : sconf := let '(q, w, s) := c in (q, w, rev s).
Definition conc (c : sconf) : cfg := let '(q, w, s) := c in (q, w, rev s).

Lemma abs_conc c : abs (conc c) = c.
Proof. destruct c as [[q w] s]. simpl. rewrite rev_involutive. reflexivity. Qed.
Lemma conc_abs c : conc (abs c) = c.
Proof. destruct c as [[q w] s]. simpl. rewrite rev_involutive. reflexivity. Qed.
Lemma abs_inj c d : abs c = abs d -> c = d.
Proof. intro H. rewrite <- (conc_abs c), <- (conc_abs d), H. reflexivity. Qed.

Lemma abs_start m w : abs (start_cfg m w) = pda_start m w.
Proof. reflexivity. Qed.

Lemma eqb_cfg_ok : eqb_ok eqb_cfg.
Proof.
  intros [[q w] s] [[q' w'] s']. unfold eqb_cfg. rewrite !andb_true_iff, Nat.eqb_eq.
  rewrite (eqb_list_ok _ eqb_nat_ok w w'), (eqb_list_ok _ eqb_nat_ok s s'). split.
  - intros [[-> ->] ->]. reflexivity.
  - intro E. inversion E. auto.
Qed.

Lemma existsb_eqb_cfg x l : existsb (eqb_cfg x) l = true <-> In x l.
Proof.
  rewrite existsb_exists. split.
  - intros [y [Hy E]]. apply eqb_cfg_ok in E. subst. exact Hy.
  - intro H. exists x. split; [exact H|apply eqb_cfg_ok; reflexivity].
Qed.

Lemma dedup_In x l : In x (dedup l) <-> In x l.
Proof.
  induction l as [|y r IH]; simpl; [tauto|].
  destruct (existsb (eqb_cfg y) r) eqn:E.
  - rewrite IH. split; [auto|]. intros [H|H]; [|exact H]. subst. apply existsb_eqb_cfg. exact E.
  - simpl. rewrite IH. tauto.
Qed.

Lemma dedup_NoDup l : NoDup (dedup l).
Proof.
  induction l as [|y r IH]; simpl; [constructor|].
  destruct (existsb (eqb_cfg y) r) eqn:E; [exact IH|].
  constructor; [|exact IH]. rewrite dedup_In. intro H. apply existsb_eqb_cfg in H. congruence.
Qed.

(* ---------- acceptance test ---------- *)
Lemma has_accepted_spec m c : has_accepted m c = true <-> pda_accepting m (abs c).
Proof.
  destruct c as [[q w] s]. simpl. destruct w as [|a w].
  - unfold final_or_empty.
    assert (Hs : (match s with [] => true | _ => false end) = true <-> rev s = []).
    { destruct s as [|x s]; simpl; [tauto|]. split; [discriminate|].
      intro H. apply app_eq_nil in H. destruct H; discriminate. }
    destruct (p_mode m).
    + rewrite memb_In. tauto.
    + rewrite Hs. tauto.
    + rewrite orb_true_iff, memb_In, Hs. tauto.
  - split; [discriminate|]. intros [H _]. discriminate.
Qed.

Lemma has_accepted_false m c : has_accepted m c = false <-> ~ pda_accepting m (abs c).
Proof.
  rewrite <- has_accepted_spec. destruct (has_accepted m c); split; intro H; try reflexivity;
    try discriminate; try (intro; discriminate). exfalso. apply H. reflexivity.
Qed.

(* ---------- one step: _get_next_configurations = the textbook move relation ---------- *)
Lemma pda_move_inv m q w s c' : pda_move m (q, w, s) c' ->
  exists Z s0 q' push, s = Z :: s0 /\
    ((exists a r, w = a :: r /\ In (q', push) (p_entry m q (Some a) Z) /\ c' = (q', r, push ++ s0)) \/
     (In (q', push) (p_entry m q None Z) /\ c' = (q', w, push ++ s0))).
Proof.
  intro H. inversion H; subst.
  - eexists _, _, _, _. split; [reflexivity|]. left. eexists _, _. split; [reflexivity|]. split; [eassumption|reflexivity].
  - eexists _, _, _, _. split; [reflexivity|]. right. split; [eassumption|reflexivity].
Qed.

Lemma npda_next_move m c c' : In c' (npda_next m c) <-> pda_move m (abs c) (abs c').
Proof.
  destruct c as [[q w] s]. unfold npda_next. rewrite in_map_iff. split.
  - intros [[[a q'] push] [E Hin]]. subst c'. simpl.
    rewrite replace_stack_top_rev. unfold npda_get_transitions in Hin.
    rewrite stack_top_rev in Hin. destruct (rev s) as [|Z s0] eqn:Es; simpl in Hin.
    { destruct w; simpl in Hin; contradiction. }
    apply in_app_or in Hin. destruct Hin as [Hin|Hin].
    + destruct w as [|x r]; [contradiction|]. apply in_map_iff in Hin.
      destruct Hin as [[t p] [E Hin]]. simpl in E. inversion E; subst. simpl.
      apply mv_sym. exact Hin.
    + apply in_map_iff in Hin. destruct Hin as [[t p] [E Hin]]. simpl in E. inversion E; subst. simpl.
      apply mv_eps. exact Hin.
  - destruct c' as [[q2 w2] s2]. simpl. intro H. apply pda_move_inv in H.
    destruct H as [Z [s0 [q' [push [Es [[a [r [Ew [Hin E]]]]|[Hin E]]]]]]];
      injection E as E1 E2 E3; subst q2 w2.
    + subst w. exists (Some a, q', push). split.
      * simpl. f_equal. apply rev_inj. rewrite replace_stack_top_rev, Es. simpl. symmetry. exact E3.
      * apply in_or_app. left. unfold npda_get_transitions. rewrite stack_top_rev, Es. simpl.
        apply in_map_iff. exists (q', push). split; [reflexivity|exact Hin].
    + exists (None, q', push). split.
      * simpl. f_equal. apply rev_inj. rewrite replace_stack_top_rev, Es. simpl. symmetry. exact E3.
      * apply in_or_app. right. unfold npda_get_transitions. rewrite stack_top_rev, Es. simpl.
        apply in_map_iff. exists (q', push). split; [reflexivity|exact Hin].
Qed.

(* the `if remaining_input ... elif _has_lambda_transition` guard changes nothing *)
Lemma has_lambda_false_entry m q Z : has_lambda m q (Some Z) = false -> p_entry m q None Z = [].
Proof.
  unfold has_lambda, p_entry. destruct (assoc q (p_trans m)) as [row|]; [|reflexivity].
  destruct (oassoc None row) as [tops|]; [|reflexivity].
  intro H. apply memb_false in H. apply assoc_None in H. rewrite H. reflexivity.
Qed.

Lemma npda_expand_next m c : npda_expand m c = npda_next m c.
Proof.
  destruct c as [[q w] s]. destruct w as [|a w]; [|reflexivity].
  unfold npda_expand. destruct (has_lambda m q (stack_top s)) eqn:E; [reflexivity|].
  unfold npda_next, npda_get_transitions. destruct (stack_top s) as [Z|]; [|reflexivity].
  rewrite (has_lambda_false_entry _ _ _ E). reflexivity.
Qed.

(* ---------- k-step relation ---------- *)
Lemma pda_moves_split m a b x z :
  pda_moves m (a + b) x z -> exists y, pda_moves m a x y /\ pda_moves m b y z.
Proof.
  revert z. induction b as [|b IH]; intros z H.
  - rewrite Nat.add_0_r in H. exists z. split; [exact H|constructor].
  - rewrite Nat.add_succ_r in H. inversion H as [|k c c1 c2 H1 H2]; subst.
    destruct (IH _ H1) as [y [Ha Hb]]. exists y. split; [exact Ha|].
    econstructor; eassumption.
Qed.

Lemma pda_moves_0 m x y : pda_moves m 0 x y -> x = y.
Proof. intro H. inversion H. reflexivity. Qed.

Lemma pda_moves_first m k x z :
  pda_moves m (S k) x z -> exists y, pda_move m x y /\ pda_moves m k y z.
Proof.
  intro H. change (S k) with (1 + k) in H. apply pda_moves_split in H.
  destruct H as [y [H1 H2]]. exists y. split; [|exact H2].
  inversion H1 as [|k' c c1 c2 H0 Hm]; subst. apply pda_moves_0 in H0. subst. exact Hm.
Qed.

(* ---------- NPDA: levels ---------- *)
Section NPDA.
Variable m : pda.
Variable w : word.

(* configuration c (Python orientation) is reachable from the start in exactly k moves *)
Definition at_level (k : nat) (c : cfg) : Prop := pda_moves m k (pda_start m w) (abs c).

Lemma level_0 c : In c [start_cfg m w] <-> at_level 0 c.
Proof.
  unfold at_level. split.
  - intros [H|[]]. subst. rewrite abs_start. constructor.
  - intro H. apply pda_moves_0 in H. left. apply abs_inj. rewrite abs_start. exact H.
Qed.

Lemma level_step k cur :
  (forall c, In c cur <-> at_level k c) ->
  forall c', In c' (dedup (flat_map (npda_expand m) cur)) <-> at_level (S k) c'.
Proof.
  intros Hcur c'. rewrite dedup_In, in_flat_map. unfold at_level. split.
  - intros [c [Hc Hn]]. rewrite npda_expand_next in Hn. apply npda_next_move in Hn.
    apply Hcur in Hc. econstructor; eassumption.
  - intro H. inversion H as [|k' c0 c1 c2 H1 H2]; subst.
    exists (conc c1). split.
    + apply Hcur. unfold at_level. rewrite abs_conc. exact H1.
    + rewrite npda_expand_next. apply npda_next_move. rewrite abs_conc. exact H2.
Qed.

Lemma nil_or_not (cur : list cfg) : cur = [] \/ cur <> [].
Proof. destruct cur; [left; reflexivity|right; discriminate]. Qed.

Lemma npda_levels_nil fuel : npda_levels m fuel [] = ([], Err Reject).
Proof. destruct fuel; reflexivity. Qed.
Lemma npda_levels_0 cur : cur <> [] -> npda_levels m 0 cur = ([], Err Fuel).
Proof. destruct cur; [congruence|reflexivity]. Qed.
Lemma npda_levels_S f cur : cur <> [] ->
  npda_levels m (S f) cur =
    if existsb (has_accepted m) cur then ([], Ok tt)
    else let nxt := dedup (flat_map (npda_expand m) cur) in
         let (ys, r) := npda_levels m f nxt in (nxt :: ys, r).
Proof. destruct cur; [congruence|reflexivity]. Qed.

Lemma npda_levels_exact fuel : forall k cur ys r,
  (forall c, In c cur <-> at_level k c) ->
  npda_levels m fuel cur = (ys, r) ->
  forall j, j < length ys ->
    NoDup (nth j ys []) /\ forall c, In c (nth j ys []) <-> at_level (S k + j) c.
Proof.
  induction fuel as [|f IH]; intros k cur ys r Hcur E j Hj.
  - destruct (nil_or_not cur) as [->|Hne].
    + rewrite npda_levels_nil in E. inversion E; subst. simpl in Hj. lia.
    + rewrite (npda_levels_0 _ Hne) in E. inversion E; subst. simpl in Hj. lia.
  - destruct (nil_or_not cur) as [->|Hne].
    { rewrite npda_levels_nil in E. inversion E; subst. simpl in Hj. lia. }
    rewrite (npda_levels_S _ _ Hne) in E.
    destruct (existsb (has_accepted m) cur).
    { inversion E; subst. simpl in Hj. lia. }
    cbv zeta in E.
    destruct (npda_levels m f (dedup (flat_map (npda_expand m) cur))) as [ys' r'] eqn:E'.
    inversion E; subst. destruct j as [|j].
    + simpl. split; [apply dedup_NoDup|]. intro c. rewrite Nat.add_0_r. apply level_step. exact Hcur.
    + simpl in Hj. simpl nth.
      replace (S k + S j) with (S (S k) + j) by lia.
      apply (IH (S k) (dedup (flat_map (npda_expand m) cur)) ys' r); [apply level_step; exact Hcur|exact E'|lia].
Qed.

Lemma empty_level_rejects k :
  (forall c, In c [] <-> at_level k c) ->
  (forall j c, j < k -> at_level j c -> has_accepted m c = false) ->
  ~ pda_accepts m w.
Proof.
  intros Hcur Hlow [c [[n Hn] Hacc]].
  destruct (Nat.lt_ge_cases n k) as [Hlt|Hge].
  - assert (Hf : has_accepted m (conc c) = false).
    { apply (Hlow n); [exact Hlt|]. unfold at_level. rewrite abs_conc. exact Hn. }
    apply has_accepted_false in Hf. rewrite abs_conc in Hf. contradiction.
  - replace n with (k + (n - k)) in Hn by lia. apply pda_moves_split in Hn.
    destruct Hn as [y [Hy _]]. assert (Hin : In (conc y) []).
    { apply Hcur. unfold at_level. rewrite abs_conc. exact Hy. }
    destruct Hin.
Qed.

(* what the generator's end says *)
Lemma npda_levels_verdict fuel : forall k cur ys r,
  (forall c, In c cur <-> at_level k c) ->
  (forall j c, j < k -> at_level j c -> has_accepted m c = false) ->
  npda_levels m fuel cur = (ys, r) ->
  (r = Ok tt -> pda_accepts m w) /\ (r = Err Reject -> ~ pda_accepts m w).
Proof.
  induction fuel as [|f IH]; intros k cur ys r Hcur Hlow E.
  - destruct (nil_or_not cur) as [->|Hne].
    + rewrite npda_levels_nil in E. inversion E; subst. split; [discriminate|].
      intros _. exact (empty_level_rejects k Hcur Hlow).
    + rewrite (npda_levels_0 _ Hne) in E. inversion E; subst. split; discriminate.
  - destruct (nil_or_not cur) as [->|Hne].
    + rewrite npda_levels_nil in E. inversion E; subst. split; [discriminate|].
      intros _. exact (empty_level_rejects k Hcur Hlow).
    + rewrite (npda_levels_S _ _ Hne) in E.
      destruct (existsb (has_accepted m) cur) eqn:Eacc.
      * inversion E; subst. split; [|discriminate]. intros _.
        apply existsb_exists in Eacc. destruct Eacc as [c [Hc Ha]].
        exists (abs c). split; [exists k; apply Hcur; exact Hc|apply has_accepted_spec; exact Ha].
      * cbv zeta in E.
        destruct (npda_levels m f (dedup (flat_map (npda_expand m) cur))) as [ys' r'] eqn:E'.
        inversion E; subst.
        apply (IH (S k) (dedup (flat_map (npda_expand m) cur)) ys' r); [apply level_step; exact Hcur| |exact E'].
        intros j c Hj Hc. destruct (Nat.eq_dec j k) as [->|Hne'].
        -- apply (existsb_false_In _ _ _ Eacc). apply Hcur. exact Hc.
        -- apply (Hlow j); [lia|exact Hc].
Qed.

(* enough fuel: an accepting configuration d levels further down is found *)
Lemma npda_levels_complete fuel : forall k cur ys r,
  (forall c, In c cur <-> at_level k c) ->
  npda_levels m fuel cur = (ys, r) ->
  (exists d c, d < fuel /\ at_level (k + d) c /\ has_accepted m c = true) ->
  r = Ok tt.
Proof.
  induction fuel as [|f IH]; intros k cur ys r Hcur E [d [c [Hd [Hc Ha]]]]; [lia|].
  destruct (nil_or_not cur) as [->|Hne].
  - exfalso. unfold at_level in Hc. apply pda_moves_split in Hc. destruct Hc as [y [Hy _]].
    assert (Hin : In (conc y) []) by (apply Hcur; unfold at_level; rewrite abs_conc; exact Hy).
    destruct Hin.
  - rewrite (npda_levels_S _ _ Hne) in E.
    destruct (existsb (has_accepted m) cur) eqn:Eacc.
    + inversion E. reflexivity.
    + cbv zeta in E.
      destruct (npda_levels m f (dedup (flat_map (npda_expand m) cur))) as [ys' r'] eqn:E'.
      inversion E; subst. destruct d as [|d].
      * exfalso. rewrite Nat.add_0_r in Hc. apply Hcur in Hc.
        rewrite (existsb_false_In _ _ _ Eacc Hc) in Ha. discriminate.
      * apply (IH (S k) (dedup (flat_map (npda_expand m) cur)) ys' r); [apply level_step; exact Hcur|exact E'|].
        exists d, c. split; [lia|]. split; [|exact Ha].
        replace (S k + d) with (k + S d) by lia. exact Hc.
Qed.

Lemma verdict_of_true r : verdict_of r = Ok true <-> r = Ok tt.
Proof. destruct r as [[]|e]; simpl; [tauto|]. destruct e; split; discriminate. Qed.
Lemma verdict_of_false r : verdict_of r = Ok false <-> r = Err Reject.
Proof. destruct r as [[]|e]; simpl; [split; discriminate|]. destruct e; split; try discriminate; reflexivity. Qed.

(* every yielded set, the stopping one included, is exactly one level of the textbook
   reachability relation, without repetitions; the first one is the start configuration *)
Lemma npda_stepwise_levels fuel ys r :
  npda_stepwise m fuel w = (ys, r) ->
  nth 0 ys [] = [start_cfg m w] /\
  forall k, k < length ys ->
    NoDup (nth k ys []) /\ forall c, In c (nth k ys []) <-> at_level k c.
Proof.
  unfold npda_stepwise. destruct (npda_levels m fuel [start_cfg m w]) as [ys' r'] eqn:E.
  intro H. inversion H; subst. split; [reflexivity|]. intros k Hk. destruct k as [|k].
  - simpl. split; [constructor; [intros []|constructor]|]. apply level_0.
  - simpl in Hk. simpl nth.
    apply (npda_levels_exact fuel 0 _ ys' r level_0 E k). lia.
Qed.

Lemma npda_verdict_sound fuel :
  (npda_accepts m fuel w = Ok true -> pda_accepts m w) /\
  (npda_accepts m fuel w = Ok false -> ~ pda_accepts m w).
Proof.
  unfold npda_accepts, npda_stepwise.
  destruct (npda_levels m fuel [start_cfg m w]) as [ys r] eqn:E. simpl.
  rewrite verdict_of_true, verdict_of_false.
  apply (npda_levels_verdict fuel 0 _ ys r level_0); [|exact E]. intros j c Hj. lia.
Qed.

Lemma npda_accepts_complete :
  pda_accepts m w -> exists fuel0, forall fuel, fuel0 <= fuel -> npda_accepts m fuel w = Ok true.
Proof.
  intros [c [[n Hn] Hacc]]. exists (S n). intros fuel Hf.
  unfold npda_accepts, npda_stepwise.
  destruct (npda_levels m fuel [start_cfg m w]) as [ys r] eqn:E. simpl.
  apply verdict_of_true. apply (npda_levels_complete fuel 0 _ ys r level_0 E).
  exists n, (conc c). split; [lia|]. split.
  - unfold at_level. rewrite abs_conc. exact Hn.
  - apply has_accepted_spec. rewrite abs_conc. exact Hacc.
Qed.
End NPDA.
