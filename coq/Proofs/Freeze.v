(* Lemmas about Model/Freeze.v (C18). *)
From Coq Require Import List Arith Bool Lia.
From AV Require Import Base.Util Model.Freeze.
Import ListNotations.

(* ---- induction principle for the nested rose tree ---- *)
Section PyvalInd.
  Variable P : pyval -> Prop.
  Hypothesis Hstr : forall n, P (VStr n).
  Hypothesis Hint : forall n, P (VInt n).
  Hypothesis Hbool : forall b, P (VBool b).
  Hypothesis Hnone : P VNone.
  Hypothesis Hother : forall n, P (VOther n).
  Hypothesis Hdict : forall kvs, Forall (fun kv => P (fst kv) /\ P (snd kv)) kvs -> P (VDict kvs).
  Hypothesis Hset : forall l, Forall P l -> P (VSet l).
  Hypothesis Hlist : forall l, Forall P l -> P (VList l).
  Hypothesis Hfdict : forall kvs, Forall (fun kv => P (fst kv) /\ P (snd kv)) kvs -> P (VFrozenDict kvs).
  Hypothesis Hfset : forall l, Forall P l -> P (VFrozenSet l).
  Hypothesis Htuple : forall l, Forall P l -> P (VTuple l).

  Fixpoint pyval_rect' (v : pyval) : P v :=
    let fix all (l : list pyval) : Forall P l :=
      match l with
      | [] => Forall_nil P
      | x :: r => Forall_cons x (pyval_rect' x) (all r)
      end in
    let fix allkv (l : list (pyval * pyval)) : Forall (fun kv => P (fst kv) /\ P (snd kv)) l :=
      match l with
      | [] => Forall_nil _
      | kv :: r =>
        Forall_cons kv
          (match kv as p return P (fst p) /\ P (snd p) with
           | (k, x) => conj (pyval_rect' k) (pyval_rect' x)
           end) (allkv r)
      end in
    match v with
    | VStr n => Hstr n
    | VInt n => Hint n
    | VBool b => Hbool b
    | VNone => Hnone
    | VOther n => Hother n
    | VDict kvs => Hdict kvs (allkv kvs)
    | VSet l => Hset l (all l)
    | VList l => Hlist l (all l)
    | VFrozenDict kvs => Hfdict kvs (allkv kvs)
    | VFrozenSet l => Hfset l (all l)
    | VTuple l => Htuple l (all l)
    end.
End PyvalInd.

Ltac pyval_induction v :=
  induction v using pyval_rect'.

(* ---- helpers on lists ---- *)
Section ListHelpers.
  Lemma map_id_Forall {A} (f : A -> A) (l : list A) :
    Forall (fun x => f x = x) l -> map f l = l.
  Proof. induction 1 as [|x l Hx _ IH]; simpl; [reflexivity|]. rewrite Hx, IH. reflexivity. Qed.

  Lemma map_ext_Forall {A B} (f g : A -> B) (l : list A) :
    Forall (fun x => f x = g x) l -> map f l = map g l.
  Proof. induction 1 as [|x l Hx _ IH]; simpl; [reflexivity|]. rewrite Hx, IH. reflexivity. Qed.

  Lemma forallb_Forall {A} (p : A -> bool) (l : list A) :
    forallb p l = true <-> Forall (fun x => p x = true) l.
  Proof.
    induction l as [|x l IH]; simpl.
    - split; [constructor|reflexivity].
    - rewrite andb_true_iff, IH. split.
      + intros [H1 H2]. constructor; assumption.
      + intro H. inversion H; subst. split; assumption.
  Qed.

  Lemma Forall_and_impl {A} (P Q R : A -> Prop) (l : list A) :
    Forall P l -> Forall Q l -> (forall x, P x -> Q x -> R x) -> Forall R l.
  Proof.
    intros HP. induction HP as [|x l Hx _ IH]; intros HQ Himp; [constructor|].
    inversion HQ; subst. constructor; [apply Himp; assumption|apply IH; assumption].
  Qed.
End ListHelpers.

(* ---- a value without mutable containers is left alone, and is its own content ---- *)
Lemma immutable_freeze_id : forall v, immutable v = true -> freeze v = v.
Proof.
  intro v. pyval_induction v; simpl; intro Hi; try reflexivity; try discriminate.
  - (* VFrozenDict *)
    f_equal. apply map_id_Forall. apply forallb_Forall in Hi.
    eapply Forall_and_impl; [exact H|exact Hi|].
    intros [k x] [_ IHx] Hkx. simpl in *. apply andb_true_iff in Hkx. destruct Hkx as [_ Hx].
    rewrite (IHx Hx). reflexivity.
  - (* VTuple *)
    f_equal. apply map_id_Forall. apply forallb_Forall in Hi.
    eapply Forall_and_impl; [exact H|exact Hi|]. intros x IHx Hx. exact (IHx Hx).
Qed.

Lemma immutable_erase_id : forall v, immutable v = true -> erase v = v.
Proof.
  intro v. pyval_induction v; simpl; intro Hi; try reflexivity; try discriminate.
  - f_equal. apply map_id_Forall. apply forallb_Forall in Hi.
    eapply Forall_and_impl; [exact H|exact Hi|].
    intros [k x] [IHk IHx] Hkx. simpl in *. apply andb_true_iff in Hkx. destruct Hkx as [Hk Hx].
    rewrite (IHk Hk), (IHx Hx). reflexivity.
  - f_equal. apply map_id_Forall. apply forallb_Forall in Hi.
    eapply Forall_and_impl; [exact H|exact Hi|]. intros x IHx Hx. exact (IHx Hx).
  - f_equal. apply map_id_Forall. apply forallb_Forall in Hi.
    eapply Forall_and_impl; [exact H|exact Hi|]. intros x IHx Hx. exact (IHx Hx).
Qed.

Lemma immutable_wf : forall v, immutable v = true -> wf v = true.
Proof.
  intro v. pyval_induction v; simpl; intro Hi; try reflexivity; try discriminate.
  - apply forallb_Forall. apply forallb_Forall in Hi.
    eapply Forall_and_impl; [exact H|exact Hi|].
    intros [k x] [_ IHx] Hkx. simpl in *. apply andb_true_iff in Hkx. destruct Hkx as [Hk Hx].
    rewrite Hk, (IHx Hx). reflexivity.
  - exact Hi.
  - apply forallb_Forall. apply forallb_Forall in Hi.
    eapply Forall_and_impl; [exact H|exact Hi|]. intros x IHx Hx. exact (IHx Hx).
Qed.

(* ---- deep immutability of the frozen value ---- *)
Section DeepImmutable.
  Let dict_case (kvs : list (pyval * pyval)) :
    Forall (fun kv => (wf (fst kv) = true -> immutable (freeze (fst kv)) = true) /\
                      (wf (snd kv) = true -> immutable (freeze (snd kv)) = true)) kvs ->
    forallb (fun kv => immutable (fst kv) && wf (snd kv)) kvs = true ->
    forallb (fun kv => immutable (fst kv) && immutable (snd kv))
            (map (fun kv => (fst kv, freeze (snd kv))) kvs) = true.
  Proof.
    intros HIH Hw. apply forallb_Forall. apply Forall_map. apply forallb_Forall in Hw.
    eapply Forall_and_impl; [exact HIH|exact Hw|].
    intros [k x] [_ IHx] Hkx. simpl in *. apply andb_true_iff in Hkx. destruct Hkx as [Hk Hx].
    rewrite Hk, (IHx Hx). reflexivity.
  Qed.

  Lemma freeze_deep_immutable : forall v, wf v = true -> immutable (freeze v) = true.
  Proof.
    intro v. pyval_induction v; simpl; intro Hw; try reflexivity.
    - apply dict_case; assumption.
    - (* VSet: members are hashable, hence already immutable and untouched *)
      apply forallb_Forall. apply Forall_map. apply forallb_Forall in Hw.
      eapply Forall_impl; [|exact Hw]. intros x Hx. simpl.
      rewrite (immutable_freeze_id x Hx). exact Hx.
    - apply forallb_Forall. apply Forall_map. apply forallb_Forall in Hw.
      eapply Forall_and_impl; [exact H|exact Hw|]. intros x IHx Hx. exact (IHx Hx).
    - apply dict_case; assumption.
    - exact Hw.
    - apply forallb_Forall. apply Forall_map. apply forallb_Forall in Hw.
      eapply Forall_and_impl; [exact H|exact Hw|]. intros x IHx Hx. exact (IHx Hx).
  Qed.
End DeepImmutable.

(* ---- same content ---- *)
Lemma freeze_content : forall v, erase (freeze v) = erase v.
Proof.
  intro v. pyval_induction v; simpl; try reflexivity.
  - f_equal. rewrite map_map. apply map_ext_Forall.
    eapply Forall_impl; [|exact H]. intros [k x] [_ IHx]. simpl in *. rewrite IHx. reflexivity.
  - f_equal. rewrite map_map. apply map_ext_Forall. exact H.
  - f_equal. rewrite map_map. apply map_ext_Forall. exact H.
  - f_equal. rewrite map_map. apply map_ext_Forall.
    eapply Forall_impl; [|exact H]. intros [k x] [_ IHx]. simpl in *. rewrite IHx. reflexivity.
  - f_equal. rewrite map_map. apply map_ext_Forall. exact H.
Qed.

(* on well-formed values freeze IS the conversion to immutable kinds *)
Lemma freeze_is_erase : forall v, wf v = true -> freeze v = erase v.
Proof.
  intro v. pyval_induction v; simpl; intro Hw; try reflexivity.
  - f_equal. apply map_ext_Forall. apply forallb_Forall in Hw.
    eapply Forall_and_impl; [exact H|exact Hw|].
    intros [k x] [_ IHx] Hkx. simpl in *. apply andb_true_iff in Hkx. destruct Hkx as [Hk Hx].
    rewrite (immutable_erase_id k Hk), (IHx Hx). reflexivity.
  - f_equal. apply map_ext_Forall. apply forallb_Forall in Hw.
    eapply Forall_impl; [|exact Hw]. intros x Hx. simpl in Hx.
    rewrite (immutable_freeze_id x Hx), (immutable_erase_id x Hx). reflexivity.
  - f_equal. apply map_ext_Forall. apply forallb_Forall in Hw.
    eapply Forall_and_impl; [exact H|exact Hw|]. intros x IHx Hx. exact (IHx Hx).
  - f_equal. apply map_ext_Forall. apply forallb_Forall in Hw.
    eapply Forall_and_impl; [exact H|exact Hw|].
    intros [k x] [_ IHx] Hkx. simpl in *. apply andb_true_iff in Hkx. destruct Hkx as [Hk Hx].
    rewrite (immutable_erase_id k Hk), (IHx Hx). reflexivity.
  - f_equal. symmetry. apply map_id_Forall. apply forallb_Forall in Hw.
    eapply Forall_impl; [|exact Hw]. intros x Hx. exact (immutable_erase_id x Hx).
  - f_equal. apply map_ext_Forall. apply forallb_Forall in Hw.
    eapply Forall_and_impl; [exact H|exact Hw|]. intros x IHx Hx. exact (IHx Hx).
Qed.

(* ---- idempotence ---- *)
Lemma freeze_idempotent : forall v, freeze (freeze v) = freeze v.
Proof.
  intro v. pyval_induction v; simpl; try reflexivity.
  - f_equal. rewrite map_map. apply map_ext_Forall.
    eapply Forall_impl; [|exact H]. intros [k x] [_ IHx]. simpl in *. rewrite IHx. reflexivity.
  - f_equal. rewrite map_map. apply map_ext_Forall. exact H.
  - f_equal. rewrite map_map. apply map_ext_Forall.
    eapply Forall_impl; [|exact H]. intros [k x] [_ IHx]. simpl in *. rewrite IHx. reflexivity.
  - f_equal. rewrite map_map. apply map_ext_Forall. exact H.
Qed.

(* ---- objects ---- *)
Lemma construct_cls mm c kw : o_cls (construct mm c kw) = c.
Proof. reflexivity. Qed.

Lemma construct_names mm c kw : map fst (input_parameters (construct mm c kw)) = map fst kw.
Proof. unfold construct, input_parameters. simpl. rewrite map_map. reflexivity. Qed.

Lemma construct_default_immutable c kw :
  forallb (fun kv => wf (snd kv)) kw = true ->
  forallb (fun kv => immutable (snd kv)) (input_parameters (construct false c kw)) = true.
Proof.
  intro Hw. unfold construct, input_parameters. simpl. apply forallb_Forall. apply Forall_map.
  apply forallb_Forall in Hw. eapply Forall_impl; [|exact Hw]. intros [n v] Hv. simpl in *.
  apply freeze_deep_immutable. exact Hv.
Qed.

Lemma copy_same_mode mm c kw :
  copy mm (construct mm c kw) = construct mm c kw.
Proof.
  unfold copy, construct, input_parameters. simpl. f_equal. rewrite map_map.
  apply map_ext. intros [n v]. simpl. destruct mm; [reflexivity|]. rewrite freeze_idempotent. reflexivity.
Qed.

Definition attrs_content (l : list (nat * pyval)) : list (nat * pyval) :=
  map (fun kv => (fst kv, erase (snd kv))) l.

Lemma copy_any_mode_content mm mm' c kw :
  o_cls (copy mm' (construct mm c kw)) = c /\
  attrs_content (input_parameters (copy mm' (construct mm c kw))) = attrs_content kw.
Proof.
  split; [reflexivity|]. unfold attrs_content, copy, construct, input_parameters. simpl.
  rewrite !map_map. apply map_ext. intros [n v]. simpl.
  destruct mm, mm'; rewrite ?freeze_content; reflexivity.
Qed.

Lemma run_calls_unchanged m cs : run_calls m cs = m.
Proof. unfold run_calls. induction cs as [|c cs IH]; simpl; [reflexivity|]. destruct c; simpl; exact IH. Qed.
