(* The fragment builder: every operation keeps the invariant and has the textbook language. *)
From Coq Require Import List Arith Bool Lia.
From AV Require Import Base.Util Spec.Lang Spec.FA Spec.Regex Model.RegexBuild Proofs.RegexFrag Proofs.RegexProd.
Import ListNotations.

Lemma wf_weaken c0 c0' F c1 c1' : c0' <= c0 -> c1 <= c1' -> wf c0 F c1 -> wf c0' F c1'.
Proof.
  intros H0 H1 [Hr Hn Hs Hd Hi Hf Hno]. constructor; try assumption.
  intros q Hq. specialize (Hr q Hq). lia.
Qed.

Lemma wf_lt c0 F c1 : wf c0 F c1 -> c0 < c1.
Proof. intros Hw. pose proof (wf_range _ _ _ Hw _ (wf_init _ _ _ Hw)). lia. Qed.

Lemma NoDup_app_intro {A} (l m : list A) :
  NoDup l -> NoDup m -> (forall x, In x l -> In x m -> False) -> NoDup (l ++ m).
Proof.
  intros Hl Hm Hd. induction Hl as [|x l Hx Hl IH]; simpl; [exact Hm|].
  constructor.
  - intro H. apply in_app_or in H. destruct H as [H|H]; [exact (Hx H)|].
    apply (Hd x); [left; reflexivity|exact H].
  - apply IH. intros y H1 H2. apply (Hd y); [right; exact H1|exact H2].
Qed.

(* a state without outgoing edge *)
Lemma fpath_noout E p w q : (forall l q', ~ In (p, l, q') E) -> fpath E p w q -> p = q /\ w = [].
Proof.
  intros Hno H. destruct H as [q|p l q r w He Hp]; [split; reflexivity|].
  exfalso. exact (Hno _ _ He).
Qed.

(* ---------------------------------------------------------------- literals *)
Lemma lit_eps_wf c : wf c (fst (lit_eps c)) (snd (lit_eps c)).
Proof.
  simpl. constructor; simpl.
  - intros q [<-|[]]. lia.
  - constructor; [intros []|constructor].
  - intros p l q [].
  - intros p l q [].
  - left. reflexivity.
  - intros q H. exact H.
  - intros p l [].
Qed.

Lemma lit_eps_lang c : L_frag (fst (lit_eps c)) =L l_eps.
Proof.
  intro w. unfold L_frag, l_eps. simpl. split.
  - intros [q [Hp _]]. apply fpath_noout in Hp; [tauto|]. intros l q' [].
  - intros ->. exists c. split; [constructor|left; reflexivity].
Qed.

Lemma lit_sym_wf a c : wf c (fst (lit_sym a c)) (snd (lit_sym a c)).
Proof.
  simpl. constructor; simpl.
  - intros q [<-|[<-|[]]]; lia.
  - constructor; [intros [H|[]]; lia|constructor; [intros []|constructor]].
  - intros p l q [H|[]]. inversion H. left. reflexivity.
  - intros p l q [H|[]]. inversion H. right. left. reflexivity.
  - left. reflexivity.
  - intros q [<-|[]]. right. left. reflexivity.
  - intros p l [H|[]]. inversion H. lia.
Qed.

Lemma lit_sym_lang a c : L_frag (fst (lit_sym a c)) =L l_sym a.
Proof.
  intro w. unfold L_frag, l_sym. simpl. split.
  - intros [q [Hp [<-|[]]]]. inversion Hp as [|p l q' r w' He Hp']; subst; [lia|].
    destruct He as [He|[]]. inversion He; subst. apply fpath_noout in Hp'.
    + destruct Hp' as [_ ->]. reflexivity.
    + intros l q'' [H|[]]. inversion H. lia.
  - intros ->. exists (S c). split; [|left; reflexivity].
    apply (fpath_one _ c (Some a) (S c)). left. reflexivity.
Qed.

Lemma wildcard_wf sigma c : wf c (fst (wildcard sigma c)) (snd (wildcard sigma c)).
Proof.
  simpl. constructor; simpl.
  - intros q [<-|[<-|[]]]; lia.
  - constructor; [intros [H|[]]; lia|constructor; [intros []|constructor]].
  - intros p l q H. apply in_map_iff in H. destruct H as [a [H _]]. inversion H. left. reflexivity.
  - intros p l q H. apply in_map_iff in H. destruct H as [a [H _]]. inversion H. right. left. reflexivity.
  - left. reflexivity.
  - intros q [<-|[]]. right. left. reflexivity.
  - intros p l H. apply in_map_iff in H. destruct H as [a [H _]]. inversion H. lia.
Qed.

Lemma wildcard_lang sigma c : L_frag (fst (wildcard sigma c)) =L l_any sigma.
Proof.
  intro w. unfold L_frag, l_any. simpl. split.
  - intros [q [Hp [<-|[]]]]. inversion Hp as [|p l q' r w' He Hp']; subst; [lia|].
    apply in_map_iff in He. destruct He as [a [He Ha]]. inversion He; subst.
    apply fpath_noout in Hp'.
    + destruct Hp' as [_ ->]. exists a. split; [exact Ha|reflexivity].
    + intros l q'' H. apply in_map_iff in H. destruct H as [b [H _]]. inversion H. lia.
  - intros [a [Ha ->]]. exists (S c). split; [|left; reflexivity].
    apply (fpath_one _ c (Some a) (S c)). apply in_map_iff. exists a. split; [reflexivity|exact Ha].
Qed.

(* ---------------------------------------------------------------- union *)
Section Union.
  Variables (c0 c1 c2 : nat) (A B : frag).
  Hypothesis HA : wf c0 A c1.
  Hypothesis HB : wf c1 B c2.
  Let F := fst (f_union A B c2).

  Lemma union_edge p l q :
    In (p, l, q) (f_edges F) <->
    In (p, l, q) (f_edges A) \/ In (p, l, q) (f_edges B) \/
    (p = c2 /\ l = None /\ (q = f_init A \/ q = f_init B)).
  Proof.
    unfold F. simpl. rewrite !in_app_iff. simpl. split.
    - intros [H|[H|[H|[H|[]]]]]; auto; inversion H; subst; right; right; auto.
    - intros [H|[H|[-> [-> [->| ->]]]]]; auto.
  Qed.

  Lemma union_stay_A p w r :
    fpath (f_edges F) p w r -> In p (f_states A) -> fpath (f_edges A) p w r /\ In r (f_states A).
  Proof.
    apply (fpath_stay (f_edges A) (f_edges F) (fun q => In q (f_states A))).
    intros p' l q Hp He. apply union_edge in He. destruct He as [He|[He|[-> _]]].
    - split; [exact He|exact (wf_dst _ _ _ HA _ _ _ He)].
    - pose proof (wf_range _ _ _ HA _ Hp). pose proof (wf_range _ _ _ HB _ (wf_src _ _ _ HB _ _ _ He)). lia.
    - pose proof (wf_range _ _ _ HA _ Hp). pose proof (wf_lt _ _ _ HB). lia.
  Qed.

  Lemma union_stay_B p w r :
    fpath (f_edges F) p w r -> In p (f_states B) -> fpath (f_edges B) p w r /\ In r (f_states B).
  Proof.
    apply (fpath_stay (f_edges B) (f_edges F) (fun q => In q (f_states B))).
    intros p' l q Hp He. apply union_edge in He. destruct He as [He|[He|[-> _]]].
    - pose proof (wf_range _ _ _ HB _ Hp). pose proof (wf_range _ _ _ HA _ (wf_src _ _ _ HA _ _ _ He)). lia.
    - split; [exact He|exact (wf_dst _ _ _ HB _ _ _ He)].
    - pose proof (wf_range _ _ _ HB _ Hp). lia.
  Qed.

  Lemma union_lang : L_frag F =L l_union (L_frag A) (L_frag B).
  Proof.
    intro w. unfold l_union, L_frag at 1. split.
    - intros [q [Hp Hf]]. change (f_init F) with c2 in Hp.
      change (f_finals F) with (f_finals A ++ f_finals B) in Hf.
      assert (Hq : c0 <= q < c2).
      { apply in_app_or in Hf. destruct Hf as [Hf|Hf].
        - pose proof (wf_range _ _ _ HA _ (wf_finals _ _ _ HA _ Hf)). pose proof (wf_lt _ _ _ HB). lia.
        - pose proof (wf_range _ _ _ HB _ (wf_finals _ _ _ HB _ Hf)). pose proof (wf_lt _ _ _ HA). lia. }
      inversion Hp as [|p l q1 r w' He Hp']; subst; [lia|].
      apply union_edge in He. destruct He as [He|[He|[_ [-> Hq1]]]].
      + pose proof (wf_range _ _ _ HA _ (wf_src _ _ _ HA _ _ _ He)). pose proof (wf_lt _ _ _ HB). lia.
      + pose proof (wf_range _ _ _ HB _ (wf_src _ _ _ HB _ _ _ He)). lia.
      + simpl. destruct Hq1 as [-> | ->].
        * destruct (union_stay_A _ _ _ Hp' (wf_init _ _ _ HA)) as [H1 H2]. left. exists q.
          split; [exact H1|]. apply in_app_or in Hf. destruct Hf as [Hf|Hf]; [exact Hf|].
          pose proof (wf_range _ _ _ HA _ H2). pose proof (wf_range _ _ _ HB _ (wf_finals _ _ _ HB _ Hf)). lia.
        * destruct (union_stay_B _ _ _ Hp' (wf_init _ _ _ HB)) as [H1 H2]. right. exists q.
          split; [exact H1|]. apply in_app_or in Hf. destruct Hf as [Hf|Hf]; [|exact Hf].
          pose proof (wf_range _ _ _ HB _ H2). pose proof (wf_range _ _ _ HA _ (wf_finals _ _ _ HA _ Hf)). lia.
    - intros [[q [Hp Hf]]|[q [Hp Hf]]]; exists q.
      + split; [|unfold F; simpl; apply in_or_app; left; exact Hf].
        apply (fpath_eps _ _ (f_init A)); [apply union_edge; right; right; auto|].
        eapply fpath_mono; [|exact Hp]. intros [[p l] r] H. apply union_edge. left. exact H.
      + split; [|unfold F; simpl; apply in_or_app; right; exact Hf].
        apply (fpath_eps _ _ (f_init B)); [apply union_edge; right; right; auto|].
        eapply fpath_mono; [|exact Hp]. intros [[p l] r] H. apply union_edge. right. left. exact H.
  Qed.

  Lemma union_wf : wf c0 F (snd (f_union A B c2)).
  Proof.
    pose proof (wf_lt _ _ _ HA) as LA. pose proof (wf_lt _ _ _ HB) as LB.
    assert (InS : forall q, In q (f_states F) <-> In q (f_states A) \/ In q (f_states B) \/ q = c2).
    { intro q. unfold F. simpl. rewrite !in_app_iff. simpl. split.
      - intros [H|[H|[H|[]]]]; auto.
      - intros [H|[H| ->]]; auto. }
    constructor.
    - intros q Hq. apply InS in Hq. simpl. destruct Hq as [H|[H| ->]].
      + pose proof (wf_range _ _ _ HA _ H). lia.
      + pose proof (wf_range _ _ _ HB _ H). lia.
      + lia.
    - unfold F. simpl. apply NoDup_app_intro.
      + exact (wf_nodup _ _ _ HA).
      + apply NoDup_app_intro.
        * exact (wf_nodup _ _ _ HB).
        * constructor; [intros []|constructor].
        * intros q H1 [<-|[]]. pose proof (wf_range _ _ _ HB _ H1). lia.
      + intros q H1 H2. apply in_app_or in H2. pose proof (wf_range _ _ _ HA _ H1).
        destruct H2 as [H2|[<-|[]]]; [pose proof (wf_range _ _ _ HB _ H2)|]; lia.
    - intros p l q He. apply InS. apply union_edge in He. destruct He as [He|[He|[-> _]]].
      + left. exact (wf_src _ _ _ HA _ _ _ He).
      + right. left. exact (wf_src _ _ _ HB _ _ _ He).
      + right. right. reflexivity.
    - intros p l q He. apply InS. apply union_edge in He. destruct He as [He|[He|[_ [_ [-> | ->]]]]].
      + left. exact (wf_dst _ _ _ HA _ _ _ He).
      + right. left. exact (wf_dst _ _ _ HB _ _ _ He).
      + left. exact (wf_init _ _ _ HA).
      + right. left. exact (wf_init _ _ _ HB).
    - apply InS. right. right. reflexivity.
    - intros q Hq. apply InS. unfold F in Hq. simpl in Hq. apply in_app_or in Hq. destruct Hq as [Hq|Hq].
      + left. exact (wf_finals _ _ _ HA _ Hq).
      + right. left. exact (wf_finals _ _ _ HB _ Hq).
    - intros p l He. change (f_init F) with c2 in He. apply union_edge in He.
      destruct He as [He|[He|[_ [_ [H|H]]]]].
      + pose proof (wf_range _ _ _ HA _ (wf_dst _ _ _ HA _ _ _ He)). lia.
      + pose proof (wf_range _ _ _ HB _ (wf_dst _ _ _ HB _ _ _ He)). lia.
      + pose proof (wf_range _ _ _ HA _ (wf_init _ _ _ HA)). lia.
      + pose proof (wf_range _ _ _ HB _ (wf_init _ _ _ HB)). lia.
  Qed.
End Union.

(* ---------------------------------------------------------------- concatenation *)
Lemma link_In fs t p l q : In (p, l, q) (link fs t) <-> In p fs /\ l = None /\ q = t.
Proof.
  unfold link. rewrite in_map_iff. split.
  - intros [x [H Hx]]. inversion H; subst. auto.
  - intros [Hp [-> ->]]. exists p. auto.
Qed.

Section Concat.
  Variables (c0 c1 c2 : nat) (A B : frag).
  Hypothesis HA : wf c0 A c1.
  Hypothesis HB : wf c1 B c2.
  Let F := f_concat A B.

  Lemma concat_edge p l q :
    In (p, l, q) (f_edges F) <->
    In (p, l, q) (f_edges A) \/ In (p, l, q) (f_edges B) \/
    (In p (f_finals A) /\ l = None /\ q = f_init B).
  Proof. unfold F. simpl. rewrite !in_app_iff, link_In. tauto. Qed.

  Lemma concat_stay_B p w r :
    fpath (f_edges F) p w r -> In p (f_states B) -> fpath (f_edges B) p w r /\ In r (f_states B).
  Proof.
    apply (fpath_stay (f_edges B) (f_edges F) (fun q => In q (f_states B))).
    intros p' l q Hp He. apply concat_edge in He. pose proof (wf_range _ _ _ HB _ Hp) as Rp.
    destruct He as [He|[He|[Hf _]]].
    - pose proof (wf_range _ _ _ HA _ (wf_src _ _ _ HA _ _ _ He)). lia.
    - split; [exact He|exact (wf_dst _ _ _ HB _ _ _ He)].
    - pose proof (wf_range _ _ _ HA _ (wf_finals _ _ _ HA _ Hf)). lia.
  Qed.

  Lemma concat_lang : L_frag F =L l_cat (L_frag A) (L_frag B).
  Proof.
    intro w. unfold l_cat, L_frag at 1. split.
    - intros [q [Hp Hf]]. change (f_init F) with (f_init A) in Hp.
      change (f_finals F) with (f_finals B) in Hf.
      destruct (fpath_split (f_edges A) (f_edges F) (fun x => In x (f_states A))
                  (fun p l q' => In p (f_finals A) /\ l = None /\ q' = f_init B)) with
          (p := f_init A) (w := w) (r := q) as [[_ Hq]|Hex].
      + intros p l q' Hs He. apply concat_edge in He. destruct He as [He|[He|He]].
        * left. split; [exact He|exact (wf_dst _ _ _ HA _ _ _ He)].
        * pose proof (wf_range _ _ _ HA _ Hs). pose proof (wf_range _ _ _ HB _ (wf_src _ _ _ HB _ _ _ He)). lia.
        * right. exact He.
      + exact Hp.
      + exact (wf_init _ _ _ HA).
      + pose proof (wf_range _ _ _ HA _ Hq). pose proof (wf_range _ _ _ HB _ (wf_finals _ _ _ HB _ Hf)). lia.
      + destruct Hex as [u [p' [l [q' [v [Ew [H1 [_ [[Hfa [-> ->]] [_ H2]]]]]]]]]].
        simpl in Ew. destruct (concat_stay_B _ _ _ H2 (wf_init _ _ _ HB)) as [H3 _].
        exists u, v. split; [exact Ew|]. split; [exists p'; auto|exists q; auto].
    - intros [u [v [-> [[p [Hu Hp]] [q [Hv Hq]]]]]]. exists q. split; [|exact Hq].
      change (f_init F) with (f_init A). apply fpath_app with (q := p).
      + eapply fpath_mono; [|exact Hu]. intros [[x l] y] H. apply concat_edge. left. exact H.
      + apply (fpath_eps _ _ (f_init B)); [apply concat_edge; right; right; auto|].
        eapply fpath_mono; [|exact Hv]. intros [[x l] y] H. apply concat_edge. right. left. exact H.
  Qed.

  Lemma concat_wf : wf c0 F c2.
  Proof.
    pose proof (wf_lt _ _ _ HA) as LA. pose proof (wf_lt _ _ _ HB) as LB.
    constructor.
    - intros q Hq. unfold F in Hq. simpl in Hq. apply in_app_or in Hq. destruct Hq as [H|H].
      + pose proof (wf_range _ _ _ HA _ H). lia.
      + pose proof (wf_range _ _ _ HB _ H). lia.
    - unfold F. simpl. apply NoDup_app_intro; [exact (wf_nodup _ _ _ HA)|exact (wf_nodup _ _ _ HB)|].
      intros q H1 H2. pose proof (wf_range _ _ _ HA _ H1). pose proof (wf_range _ _ _ HB _ H2). lia.
    - intros p l q He. unfold F. simpl. apply in_or_app. apply concat_edge in He.
      destruct He as [He|[He|[Hf _]]].
      + left. exact (wf_src _ _ _ HA _ _ _ He).
      + right. exact (wf_src _ _ _ HB _ _ _ He).
      + left. exact (wf_finals _ _ _ HA _ Hf).
    - intros p l q He. unfold F. simpl. apply in_or_app. apply concat_edge in He.
      destruct He as [He|[He|[_ [_ ->]]]].
      + left. exact (wf_dst _ _ _ HA _ _ _ He).
      + right. exact (wf_dst _ _ _ HB _ _ _ He).
      + right. exact (wf_init _ _ _ HB).
    - unfold F. simpl. apply in_or_app. left. exact (wf_init _ _ _ HA).
    - intros q Hq. unfold F. simpl. apply in_or_app. right. exact (wf_finals _ _ _ HB _ Hq).
    - intros p l He. change (f_init F) with (f_init A) in He. apply concat_edge in He.
      destruct He as [He|[He|[_ [_ H]]]].
      + exact (wf_noin _ _ _ HA _ _ He).
      + pose proof (wf_range _ _ _ HB _ (wf_dst _ _ _ HB _ _ _ He)).
        pose proof (wf_range _ _ _ HA _ (wf_init _ _ _ HA)). lia.
      + pose proof (wf_range _ _ _ HB _ (wf_init _ _ _ HB)).
        pose proof (wf_range _ _ _ HA _ (wf_init _ _ _ HA)). lia.
  Qed.
End Concat.

(* ---------------------------------------------------------------- repeat *)
Lemma NoDup_map_add d l : NoDup l -> NoDup (map (fun q => q + d) l).
Proof.
  intro H. induction H as [|x l Hx Hl IH]; simpl; constructor; [|exact IH].
  intro Hi. apply in_map_iff in Hi. destruct Hi as [y [Hy Hin]]. assert (y = x) by lia. subst. exact (Hx Hin).
Qed.

Lemma NoDup_flat_map_seq (f : nat -> list nat) s len :
  (forall j, NoDup (f j)) ->
  (forall j j' x, j <> j' -> In x (f j) -> In x (f j') -> False) ->
  NoDup (flat_map f (seq s len)).
Proof.
  intros Hn Hd. revert s. induction len as [|len IH]; intro s; simpl; [constructor|].
  apply NoDup_app_intro; [apply Hn|apply IH|].
  intros x H1 H2. apply in_flat_map in H2. destruct H2 as [j [Hj H2]]. apply in_seq in Hj.
  apply (Hd s j x); [lia|exact H1|exact H2].
Qed.

Section Repeat.
  Variables (c0 c : nat) (A : frag) (lo : nat) (hi : option nat).
  Hypothesis HA : wf c0 A c.
  Let n := reps lo hi.
  Let m := Nat.max n 1.
  Let k := S c - c0.
  Let F := fst (f_repeat c0 c A lo hi).
  Let E' := f_edges F.
  Let EA := f_edges A.
  Let iA := f_init A.
  Let LA := L_frag A.

  Lemma hi_cases : hi = None \/ exists h, hi = Some h.
  Proof. destruct hi as [h|]; [right; exists h; reflexivity|left; reflexivity]. Qed.
  Lemma lo_cases : lo = 0 \/ exists l0, lo = S l0.
  Proof. destruct lo as [|l0]; [left; reflexivity|right; exists l0; reflexivity]. Qed.

  Lemma rep_m_pos : 1 <= m. Proof. unfold m. lia. Qed.
  Lemma rep_k : c0 + k = S c. Proof. unfold k. pose proof (wf_lt _ _ _ HA). lia. Qed.
  Lemma rep_stA a : In a (f_states A) -> c0 <= a < c0 + k - 1.
  Proof. intro H. pose proof (wf_range _ _ _ HA _ H). pose proof rep_k. lia. Qed.

  Lemma copy_uniq a j a' j' :
    a + j * k = a' + j' * k -> c0 <= a < c0 + k -> c0 <= a' < c0 + k -> j = j' /\ a = a'.
  Proof.
    intros He Ha Ha'. destruct (lt_eq_lt_dec j j') as [[Hlt|Heq]|Hgt].
    - pose proof (Nat.mul_le_mono_r (S j) j' k Hlt) as H. simpl in H. lia.
    - subst. lia.
    - pose proof (Nat.mul_le_mono_r (S j') j k Hgt) as H. simpl in H. lia.
  Qed.

  Definition in_copy (j x : nat) : Prop := exists a, In a (f_states A) /\ x = a + j * k.

  Lemma c_not_in_copy j : ~ in_copy j c.
  Proof.
    intros [a [Ha He]]. pose proof (rep_stA _ Ha). pose proof rep_k.
    destruct j as [|j]; [simpl in He; lia|].
    pose proof (Nat.mul_le_mono_r 1 (S j) k ltac:(lia)) as Hmul. lia.
  Qed.

  Lemma rep_edge p l q :
    In (p, l, q) E' <->
    (exists j p0 q0, j < m /\ p = p0 + j * k /\ q = q0 + j * k /\ In (p0, l, q0) EA) \/
    (exists j f, S j < m /\ In f (f_finals A) /\ p = f + j * k /\ l = None /\ q = iA + S j * k) \/
    (p = c /\ l = None /\ q = iA) \/
    (hi = None /\ exists f, In f (f_finals A) /\ p = f + (m - 1) * k /\ l = None /\ q = iA + (m - 1) * k).
  Proof.
    unfold E', F, f_repeat. cbn [fst f_edges]. fold n. fold m. fold k.
    rewrite !in_app_iff, !in_flat_map. split.
    - intros [[j [Hj He]]|[[j [Hj He]]|[He|He]]].
      + apply in_seq in Hj. cbn [shiftf f_edges] in He. apply shift_edge_in in He.
        destruct He as [p0 [q0 [-> [-> He]]]]. left. exists j, p0, q0. repeat split; [lia|exact He].
      + apply in_seq in Hj. apply link_In in He. cbn [shiftf f_finals f_init] in He.
        destruct He as [Hp [-> ->]]. apply in_map_iff in Hp. destruct Hp as [f [<- Hf]].
        right. left. exists j, f. repeat split; [lia|exact Hf].
      + destruct He as [He|[]]. inversion He; subst. right. right. left. auto.
      + right. right. right. destruct hi as [h|]; [destruct He|]. split; [reflexivity|].
        apply link_In in He. cbn [shiftf f_finals f_init] in He. destruct He as [Hp [-> ->]].
        apply in_map_iff in Hp. destruct Hp as [f [<- Hf]]. exists f. auto.
    - intros [[j [p0 [q0 [Hj [-> [-> He]]]]]]|[[j [f [Hj [Hf [-> [-> ->]]]]]]|[[-> [-> ->]]|[Hhi [f [Hf [-> [-> ->]]]]]]]].
      + left. exists j. split; [apply in_seq; lia|]. cbn [shiftf f_edges]. apply shift_edge_in.
        exists p0, q0. auto.
      + right. left. exists j. split; [apply in_seq; lia|]. apply link_In. cbn [shiftf f_finals f_init].
        split; [|auto]. apply in_map_iff. exists f. auto.
      + right. right. left. left. reflexivity.
      + right. right. right. rewrite Hhi. apply link_In. cbn [shiftf f_finals f_init].
        split; [|auto]. apply in_map_iff. exists f. auto.
  Qed.

  Lemma rep_final x :
    In x (f_finals F) <->
    (exists t f, t < m /\ copy_final lo n t = true /\ In f (f_finals A) /\ x = f + t * k) \/
    (lo = 0 /\ x = iA).
  Proof.
    unfold F, f_repeat. cbn [fst f_finals]. fold n. fold m. fold k.
    rewrite in_app_iff, in_flat_map. split.
    - intros [[t [Ht Hx]]|Hx].
      + apply in_seq in Ht. destruct (copy_final lo n t) eqn:Ec; [|destruct Hx].
        cbn [shiftf f_finals] in Hx. apply in_map_iff in Hx. destruct Hx as [f [<- Hf]].
        left. exists t, f. repeat split; [lia|exact Ec|exact Hf].
      + destruct (Nat.eqb lo 0) eqn:El; [|destruct Hx]. apply Nat.eqb_eq in El.
        destruct Hx as [<-|[]]. right. auto.
    - intros [[t [f [Ht [Ec [Hf ->]]]]]|[-> ->]].
      + left. exists t. split; [apply in_seq; lia|]. rewrite Ec. cbn [shiftf f_finals].
        apply in_map_iff. exists f. auto.
      + right. simpl. left. reflexivity.
  Qed.

  Lemma rep_state x :
    In x (f_states F) <-> (exists j, j < m /\ in_copy j x) \/ x = c.
  Proof.
    unfold F, f_repeat. cbn [fst f_states]. fold n. fold m. fold k.
    rewrite in_app_iff, in_flat_map. simpl. split.
    - intros [[j [Hj Hx]]|[<-|[]]]; [|right; reflexivity].
      apply in_seq in Hj. apply in_map_iff in Hx. destruct Hx as [a [<- Ha]].
      left. exists j. split; [lia|]. exists a. auto.
    - intros [[j [Hj [a [Ha ->]]]]| ->]; [|right; left; reflexivity].
      left. exists j. split; [apply in_seq; lia|]. apply in_map_iff. exists a. auto.
  Qed.

  (* the shifted copy j *)
  Let Es (j : nat) := map (shift_edge (j * k)) EA.

  Lemma Es_incl j : j < m -> incl (Es j) E'.
  Proof.
    intros Hj [[p l] q] He. apply shift_edge_in in He. destruct He as [p0 [q0 [-> [-> He]]]].
    apply rep_edge. left. exists j, p0, q0. auto.
  Qed.

  Lemma copy_path j a w a' : j < m -> fpath EA a w a' -> fpath E' (a + j * k) w (a' + j * k).
  Proof.
    intros Hj H. apply (fpath_mono (Es j)); [apply Es_incl; exact Hj|].
    apply fpath_shift. exists a'. auto.
  Qed.

  (* classification of the edges of E' leaving copy j *)
  Lemma rep_edge_from_copy j p l q :
    in_copy j p -> In (p, l, q) E' ->
    (In (p, l, q) (Es j) /\ in_copy j q) \/
    (S j < m /\ l = None /\ q = iA + S j * k /\ exists f, In f (f_finals A) /\ p = f + j * k) \/
    (hi = None /\ j = m - 1 /\ l = None /\ q = iA + j * k /\ exists f, In f (f_finals A) /\ p = f + j * k).
  Proof.
    intros [a [Ha ->]] He. pose proof (rep_stA _ Ha) as Ra.
    apply rep_edge in He.
    destruct He as [[j' [p0 [q0 [Hj [Ep [-> He]]]]]]|[[j' [f [Hj [Hf [Ep [-> ->]]]]]]|[[Ep _]|[Hhi [f [Hf [Ep [-> ->]]]]]]]].
    - pose proof (rep_stA _ (wf_src _ _ _ HA _ _ _ He)) as R0.
      destruct (copy_uniq _ _ _ _ Ep ltac:(lia) ltac:(lia)) as [<- <-].
      left. split.
      + apply shift_edge_in. exists a, q0. auto.
      + exists q0. split; [exact (wf_dst _ _ _ HA _ _ _ He)|reflexivity].
    - pose proof (rep_stA _ (wf_finals _ _ _ HA _ Hf)) as R0.
      destruct (copy_uniq _ _ _ _ Ep ltac:(lia) ltac:(lia)) as [<- <-].
      right. left. repeat split; try assumption. exists a. auto.
    - exfalso. apply (c_not_in_copy j). exists a. auto.
    - pose proof (rep_stA _ (wf_finals _ _ _ HA _ Hf)) as R0.
      destruct (copy_uniq _ _ _ _ Ep ltac:(lia) ltac:(lia)) as [-> <-].
      right. right. repeat split; try assumption. exists a. auto.
  Qed.

  Lemma shifted_path j w x :
    fpath (Es j) (iA + j * k) w x -> exists a', x = a' + j * k /\ fpath EA iA w a'.
  Proof. intro H. apply fpath_shift in H. exact H. Qed.

  Lemma path_to_final u f : In f (f_finals A) -> fpath EA iA u f -> LA u.
  Proof. intros Hf H. exists f. auto. Qed.

  (* layer 1: a copy that does not loop *)
  Lemma rep_layer1 j w x :
    (hi = None -> j <> m - 1) -> fpath E' (iA + j * k) w x ->
    (exists a', x = a' + j * k /\ In a' (f_states A) /\ fpath EA iA w a') \/
    (S j < m /\ exists u v, w = u ++ v /\ LA u /\ fpath E' (iA + S j * k) v x).
  Proof.
    intros Hnl Hp.
    destruct (fpath_split (Es j) E' (in_copy j)
                (fun p l q' => S j < m /\ l = None /\ q' = iA + S j * k /\
                               exists f, In f (f_finals A) /\ p = f + j * k))
      with (p := iA + j * k) (w := w) (r := x) as [[H1 H2]|Hex].
    - intros p l q Hs He. destruct (rep_edge_from_copy _ _ _ _ Hs He) as [H|[H|[Hhi [Ej _]]]].
      + left. exact H.
      + right. exact H.
      + exfalso. exact (Hnl Hhi Ej).
    - exact Hp.
    - exists iA. split; [exact (wf_init _ _ _ HA)|reflexivity].
    - left. destruct (shifted_path _ _ _ H1) as [a' [-> Hpa]]. exists a'. split; [reflexivity|].
      split; [|exact Hpa]. destruct H2 as [a2 [Ha2 Ee]]. assert (Ea2 : a2 = a') by lia. subst a2. exact Ha2.
    - right. destruct Hex as [u [p' [l [q' [v [Ew [H1 [_ [[Hj [-> [-> [f [Hf ->]]]]] [_ H2]]]]]]]]]].
      split; [exact Hj|]. exists u, v. split; [exact Ew|]. split; [|exact H2].
      destruct (shifted_path _ _ _ H1) as [a' [Ea Hpa]]. assert (Eaf : a' = f) by lia. subst a'.
      exact (path_to_final _ _ Hf Hpa).
  Qed.

  (* layer 1': the last copy when it loops *)
  Lemma rep_layer1_loop p w r :
    hi = None -> fpath E' p w r -> in_copy (m - 1) p ->
    in_copy (m - 1) r /\
    (fpath (Es (m - 1)) p w r \/
     exists u v1 v2 f b, w = u ++ v1 ++ v2 /\ In f (f_finals A) /\
       fpath (Es (m - 1)) p u (f + (m - 1) * k) /\ l_pow LA b v1 /\
       fpath (Es (m - 1)) (iA + (m - 1) * k) v2 r).
  Proof.
    intros Hhi H. induction H as [q|p l q r w He Hp IH]; intro Hs.
    - split; [exact Hs|]. left. constructor.
    - pose proof rep_m_pos as Hm.
      destruct (rep_edge_from_copy _ _ _ _ Hs He) as [[He' Hq]|[[Hj _]|[_ [_ [-> [-> [f [Hf ->]]]]]]]].
      + destruct (IH Hq) as [Hr [Hd|[u [v1 [v2 [f [b [-> [Hf [H1 [H2 H3]]]]]]]]]]].
        * split; [exact Hr|]. left. eapply fp_step; eassumption.
        * split; [exact Hr|]. right. exists (olist l ++ u), v1, v2, f, b.
          split; [rewrite <- app_assoc; reflexivity|]. split; [exact Hf|].
          split; [eapply fp_step; eassumption|]. split; assumption.
      + lia.
      + assert (Hi : in_copy (m - 1) (iA + (m - 1) * k)).
        { exists iA. split; [exact (wf_init _ _ _ HA)|reflexivity]. }
        destruct (IH Hi) as [Hr [Hd|[u [v1 [v2 [f' [b [-> [Hf' [H1 [H2 H3]]]]]]]]]]].
        * split; [exact Hr|]. right. exists [], [], w, f, 0. simpl.
          split; [reflexivity|]. split; [exact Hf|]. split; [constructor|]. split; [reflexivity|exact Hd].
        * split; [exact Hr|]. right. exists [], (u ++ v1), v2, f, (S b). simpl.
          split; [rewrite app_assoc; reflexivity|]. split; [exact Hf|]. split; [constructor|].
          split; [|exact H3]. exists u, v1. split; [reflexivity|]. split; [|exact H2].
          destruct (shifted_path _ _ _ H1) as [a' [Ea Hpa]]. assert (Eaf : a' = f') by lia. subst a'.
          exact (path_to_final _ _ Hf' Hpa).
  Qed.

  (* soundness of the chain *)
  Lemma rep_chain_sound gap : forall j w x, j + gap = m - 1 -> fpath E' (iA + j * k) w x ->
    exists t a' b v1 v2, x = a' + t * k /\ In a' (f_states A) /\ j <= t < m /\ w = v1 ++ v2 /\
      l_pow LA (t - j + b) v1 /\ fpath EA iA v2 a' /\ (0 < b -> hi = None /\ t = m - 1).
  Proof.
    pose proof rep_m_pos as Hm.
    induction gap as [|gap IH]; intros j w x Hj Hp.
    - (* last copy *)
      destruct hi_cases as [Ehi|[h Ehi]]; cycle 1.
      + assert (Hnl : hi = None -> j <> m - 1) by (rewrite Ehi; discriminate).
        destruct (rep_layer1 j w x Hnl Hp) as [[a' [-> [Ha' Hpa]]]|[Hlt _]]; [|lia].
        exists j, a', 0, [], w. rewrite Nat.sub_diag. simpl.
        repeat split; try assumption; try lia.
      + assert (Ej : j = m - 1) by lia. subst j.
        assert (Hi : in_copy (m - 1) (iA + (m - 1) * k)).
        { exists iA. split; [exact (wf_init _ _ _ HA)|reflexivity]. }
        destruct (rep_layer1_loop _ _ _ Ehi Hp Hi) as [Hr [Hd|[u [v1 [v2 [f [b [-> [Hf [H1 [H2 H3]]]]]]]]]]].
        * destruct (shifted_path _ _ _ Hd) as [a' [-> Hpa]]. destruct Hr as [a2 [Ha2 Ee]].
          assert (Ea2 : a2 = a') by lia. subst a2.
          exists (m - 1), a', 0, [], w. rewrite Nat.sub_diag. simpl.
          repeat split; try assumption; try lia.
        * destruct (shifted_path _ _ _ H3) as [a' [-> Hpa]]. destruct Hr as [a2 [Ha2 Ee]].
          assert (Ea2 : a2 = a') by lia. subst a2.
          destruct (shifted_path _ _ _ H1) as [a3 [Ea3 Hpa3]]. assert (Ea3' : a3 = f) by lia. subst a3.
          exists (m - 1), a', (S b), (u ++ v1), v2. rewrite Nat.sub_diag.
          split; [reflexivity|]. split; [exact Ha2|]. split; [lia|].
          split; [rewrite app_assoc; reflexivity|]. split.
          { simpl. exists u, v1. split; [reflexivity|]. split; [exact (path_to_final _ _ Hf Hpa3)|exact H2]. }
          split; [exact Hpa|]. intros _. split; [exact Ehi|reflexivity].
    - destruct (rep_layer1 j w x ltac:(intros _; lia) Hp) as [[a' [-> [Ha' Hpa]]]|[Hlt [u [v [-> [Hu Hv]]]]]].
      + exists j, a', 0, [], w. rewrite Nat.sub_diag. simpl.
        repeat split; try assumption; try lia.
      + destruct (IH (S j) v x ltac:(lia) Hv) as [t [a' [b [v1 [v2 [-> [Ha' [Ht [-> [H1 [H2 H3]]]]]]]]]]].
        exists t, a', b, (u ++ v1), v2. split; [reflexivity|]. split; [exact Ha'|]. split; [lia|].
        split; [rewrite app_assoc; reflexivity|]. split; [|split; assumption].
        replace (t - j + b) with (S (t - S j + b)) by lia. exists u, v1. auto.
  Qed.

  (* completeness of the chain *)
  Lemma rep_chain_fwd nn : forall j u, j + nn < m -> l_pow LA nn u ->
    fpath E' (iA + j * k) u (iA + (j + nn) * k).
  Proof.
    induction nn as [|nn IH]; intros j u Hj Hu.
    - simpl in Hu. unfold l_eps in Hu. subst. rewrite Nat.add_0_r. constructor.
    - destruct Hu as [u1 [u2 [-> [[f [Hp Hf]] H2]]]].
      apply fpath_app with (q := f + j * k); [apply copy_path; [lia|exact Hp]|].
      apply (fpath_eps _ _ (iA + S j * k)).
      + apply rep_edge. right. left. exists j, f. repeat split; [lia|exact Hf].
      + replace (j + S nn) with (S j + nn) by lia. apply IH; [lia|exact H2].
  Qed.

  Lemma rep_chain_loop b : forall u, hi = None -> l_pow LA b u ->
    fpath E' (iA + (m - 1) * k) u (iA + (m - 1) * k).
  Proof.
    pose proof rep_m_pos as Hm.
    induction b as [|b IH]; intros u Hhi Hu.
    - simpl in Hu. unfold l_eps in Hu. subst. constructor.
    - destruct Hu as [u1 [u2 [-> [[f [Hp Hf]] H2]]]].
      apply fpath_app with (q := f + (m - 1) * k); [apply copy_path; [lia|exact Hp]|].
      apply (fpath_eps _ _ (iA + (m - 1) * k)).
      + apply rep_edge. right. right. right. split; [exact Hhi|]. exists f. auto.
      + apply IH; assumption.
  Qed.

  Lemma rep_start w x : fpath E' iA w x -> fpath E' c w x.
  Proof. intro H. apply (fpath_eps _ _ iA); [|exact H]. apply rep_edge. right. right. left. auto. Qed.

  Lemma iA_copy0 : iA + 0 * k = iA. Proof. simpl. lia. Qed.

  Theorem repeat_lang : L_frag F =L l_rep LA lo hi.
  Proof.
    pose proof rep_m_pos as Hm. pose proof rep_k as Hk.
    intro w. unfold l_rep, L_frag at 1. change (f_init F) with c. fold E'. split.
    - intros [x [Hp Hf]].
      assert (Hxc : x <> c).
      { intros ->. apply rep_final in Hf. destruct Hf as [[t [f [_ [_ [Hf Ex]]]]]|[_ Ex]].
        - apply (c_not_in_copy t). exists f. split; [exact (wf_finals _ _ _ HA _ Hf)|exact Ex].
        - pose proof (wf_range _ _ _ HA _ (wf_init _ _ _ HA)). fold iA in H. lia. }
      inversion Hp as [|p l q r w' He Hp']; subst; [congruence|].
      assert (Hq : l = None /\ q = iA).
      { apply rep_edge in He.
        destruct He as [[j [p0 [q0 [_ [Ep [_ He]]]]]]|[[j [f [_ [Hf' [Ep _]]]]]|[[_ [-> ->]]|[_ [f [Hf' [Ep _]]]]]]].
        - exfalso. apply (c_not_in_copy j). exists p0. split; [exact (wf_src _ _ _ HA _ _ _ He)|exact Ep].
        - exfalso. apply (c_not_in_copy j). exists f. split; [exact (wf_finals _ _ _ HA _ Hf')|exact Ep].
        - auto.
        - exfalso. apply (c_not_in_copy (m - 1)). exists f. split; [exact (wf_finals _ _ _ HA _ Hf')|exact Ep]. }
      destruct Hq as [-> ->]. simpl. rewrite <- iA_copy0 in Hp'.
      destruct (rep_chain_sound (m - 1) 0 w' x ltac:(lia) Hp')
        as [t [a' [b [v1 [v2 [-> [Ha' [Ht [-> [H1 [H2 H3]]]]]]]]]]].
      rewrite Nat.sub_0_r in H1. pose proof (rep_stA _ Ha') as Ra.
      apply rep_final in Hf. destruct Hf as [[t' [f [Ht' [Ec [Hf Ex]]]]]|[Elo Ex]].
      + pose proof (rep_stA _ (wf_finals _ _ _ HA _ Hf)) as Rf.
        destruct (copy_uniq _ _ _ _ Ex ltac:(lia) ltac:(lia)) as [<- <-].
        exists (t + b + 1). unfold copy_final in Ec. apply andb_true_iff in Ec.
        destruct Ec as [E1 E2]. apply Nat.leb_le in E1. apply Nat.leb_le in E2.
        split; [lia|]. split.
        * destruct hi_cases as [Ehi|[h Ehi]]; [rewrite Ehi; exact I|].
          unfold n, reps in E2. rewrite Ehi in E2 |- *. unfold le_opt.
          destruct b as [|b]; [lia|]. destruct (H3 ltac:(lia)) as [Hx _]. congruence.
        * apply l_pow_add. exists v1, v2. split; [reflexivity|]. split; [exact H1|].
          apply l_pow_one. exact (path_to_final _ _ Hf H2).
      + rewrite <- iA_copy0 in Ex. pose proof (rep_stA _ (wf_init _ _ _ HA)) as Ri. fold iA in Ri.
        destruct (copy_uniq _ _ _ _ Ex ltac:(lia) ltac:(lia)) as [-> ->].
        apply fpath_noin in H2; [|intros p' l'; exact (wf_noin _ _ _ HA p' l')].
        destruct H2 as [_ ->]. rewrite app_nil_r. simpl in H1. exists b.
        split; [lia|]. split; [|exact H1].
        destruct hi_cases as [Ehi|[h Ehi]]; [rewrite Ehi; exact I|]. rewrite Ehi. unfold le_opt.
        destruct b as [|b]; [lia|]. destruct (H3 ltac:(lia)) as [Hx _]. congruence.
    - intros [kk [Hlo [Hhi Hw]]]. destruct hi_cases as [Ehi|[h Ehi]]; cycle 1.
      + rewrite Ehi in Hhi. unfold le_opt in Hhi. destruct kk as [|t].
        * simpl in Hw. unfold l_eps in Hw. subst w. exists iA. split; [apply rep_start; constructor|].
          apply rep_final. right. split; [lia|reflexivity].
        * replace (S t) with (t + 1) in Hw by lia. apply (proj1 (l_pow_add LA t 1 w)) in Hw.
          destruct Hw as [u [v [-> [Hu Hv]]]]. apply (proj1 (l_pow_one LA v)) in Hv. destruct Hv as [f [Hp Hf]].
          assert (Htm : t < m) by (unfold m, n, reps; rewrite Ehi; lia).
          exists (f + t * k). split.
          -- apply rep_start. apply fpath_app with (q := iA + t * k).
             ++ rewrite <- iA_copy0 at 1. apply (rep_chain_fwd t 0 u); [lia|exact Hu].
             ++ apply copy_path; assumption.
          -- apply rep_final. left. exists t, f. split; [exact Htm|]. split; [|auto].
             unfold copy_final, n, reps. rewrite Ehi. apply andb_true_iff. split; apply Nat.leb_le; lia.
      + destruct lo_cases as [Elo|[l0 Elo]].
        * assert (Em : m = 1) by (unfold m, n, reps; rewrite Ehi, Elo; reflexivity).
          exists iA. split; [|apply rep_final; right; auto].
          apply rep_start. pose proof (rep_chain_loop kk w Ehi Hw) as H.
          rewrite Em in H. simpl in H. rewrite Nat.add_0_r in H. exact H.
        * assert (Em : m = S l0) by (unfold m, n, reps; rewrite Ehi, Elo; lia).
          replace kk with (l0 + ((kk - S l0) + 1)) in Hw by lia.
          apply l_pow_add in Hw. destruct Hw as [u1 [u23 [-> [H1 H23]]]].
          apply l_pow_add in H23. destruct H23 as [u2 [u3 [-> [H2 H3]]]].
          apply (proj1 (l_pow_one LA u3)) in H3. destruct H3 as [f [Hp Hf]].
          exists (f + l0 * k). split.
          -- apply rep_start. apply fpath_app with (q := iA + l0 * k).
             ++ rewrite <- iA_copy0 at 1. apply (rep_chain_fwd l0 0 u1); [lia|exact H1].
             ++ apply fpath_app with (q := iA + l0 * k).
                ** pose proof (rep_chain_loop _ u2 Ehi H2) as H. rewrite Em in H.
                   replace (S l0 - 1) with l0 in H by lia. exact H.
                ** apply copy_path; [lia|exact Hp].
          -- apply rep_final. left. exists l0, f. split; [lia|]. split; [|auto].
             unfold copy_final, n, reps. rewrite Ehi. apply andb_true_iff. split; apply Nat.leb_le; lia.
  Qed.
  Lemma rep_copy_range j a : j < m -> In a (f_states A) -> c0 <= a + j * k < c0 + m * k.
  Proof.
    intros Hj Ha. pose proof (rep_stA _ Ha) as Ra.
    pose proof (Nat.mul_le_mono_r (S j) m k Hj) as Hmul. simpl in Hmul. lia.
  Qed.

  Theorem repeat_wf : wf c0 F (snd (f_repeat c0 c A lo hi)).
  Proof.
    pose proof rep_m_pos as Hm. pose proof rep_k as Hk.
    assert (Hcm : c < c0 + m * k).
    { pose proof (Nat.mul_le_mono_r 1 m k Hm) as Hmul. lia. }
    unfold f_repeat. cbn [snd]. fold n. fold m. fold k.
    constructor.
    - intros q Hq. apply rep_state in Hq. destruct Hq as [[j [Hj [a [Ha ->]]]]| ->].
      + apply rep_copy_range; assumption.
      + pose proof (wf_lt _ _ _ HA). lia.
    - unfold F, f_repeat. cbn [fst f_states]. fold n. fold m. fold k.
      apply NoDup_app_intro.
      + apply NoDup_flat_map_seq.
        * intro j. cbn [shiftf f_states]. apply NoDup_map_add. exact (wf_nodup _ _ _ HA).
        * intros j j' x Hne H1 H2. cbn [shiftf f_states] in H1, H2.
          apply in_map_iff in H1. destruct H1 as [a [<- Ha]].
          apply in_map_iff in H2. destruct H2 as [a' [Ee Ha']].
          pose proof (rep_stA _ Ha). pose proof (rep_stA _ Ha').
          destruct (copy_uniq _ _ _ _ Ee ltac:(lia) ltac:(lia)) as [Ej _]. congruence.
      + constructor; [intros []|constructor].
      + intros x H1 [<-|[]]. apply in_flat_map in H1. destruct H1 as [j [_ H1]].
        cbn [shiftf f_states] in H1. apply in_map_iff in H1. destruct H1 as [a [Ee Ha]].
        apply (c_not_in_copy j). exists a. auto.
    - intros p l q He. apply rep_state. apply rep_edge in He.
      destruct He as [[j [p0 [q0 [Hj [-> [_ He]]]]]]|[[j [f [Hj [Hf [-> _]]]]]|[[-> _]|[_ [f [Hf [-> _]]]]]]].
      + left. exists j. split; [exact Hj|]. exists p0. split; [exact (wf_src _ _ _ HA _ _ _ He)|reflexivity].
      + left. exists j. split; [lia|]. exists f. split; [exact (wf_finals _ _ _ HA _ Hf)|reflexivity].
      + right. reflexivity.
      + left. exists (m - 1). split; [lia|]. exists f. split; [exact (wf_finals _ _ _ HA _ Hf)|reflexivity].
    - intros p l q He. apply rep_state. apply rep_edge in He.
      destruct He as [[j [p0 [q0 [Hj [_ [-> He]]]]]]|[[j [f [Hj [Hf [_ [_ ->]]]]]]|[[_ [_ ->]]|[_ [f [Hf [_ [_ ->]]]]]]]].
      + left. exists j. split; [exact Hj|]. exists q0. split; [exact (wf_dst _ _ _ HA _ _ _ He)|reflexivity].
      + left. exists (S j). split; [exact Hj|]. exists iA. split; [exact (wf_init _ _ _ HA)|reflexivity].
      + left. exists 0. split; [lia|]. exists iA. split; [exact (wf_init _ _ _ HA)|]. simpl. lia.
      + left. exists (m - 1). split; [lia|]. exists iA. split; [exact (wf_init _ _ _ HA)|reflexivity].
    - apply rep_state. right. reflexivity.
    - intros q Hq. apply rep_state. apply rep_final in Hq.
      destruct Hq as [[t [f [Ht [_ [Hf ->]]]]]|[_ ->]].
      + left. exists t. split; [exact Ht|]. exists f. split; [exact (wf_finals _ _ _ HA _ Hf)|reflexivity].
      + left. exists 0. split; [lia|]. exists iA. split; [exact (wf_init _ _ _ HA)|]. simpl. lia.
    - intros p l He. change (f_init F) with c in He. apply rep_edge in He.
      destruct He as [[j [p0 [q0 [Hj [_ [Eq He]]]]]]|[[j [f [Hj [Hf [_ [_ Eq]]]]]]|[[_ [_ Eq]]|[_ [f [Hf [_ [_ Eq]]]]]]]].
      + apply (c_not_in_copy j). exists q0. split; [exact (wf_dst _ _ _ HA _ _ _ He)|exact Eq].
      + apply (c_not_in_copy (S j)). exists iA. split; [exact (wf_init _ _ _ HA)|exact Eq].
      + pose proof (wf_range _ _ _ HA _ (wf_init _ _ _ HA)) as Hr. fold iA in Hr. lia.
      + apply (c_not_in_copy (m - 1)). exists iA. split; [exact (wf_init _ _ _ HA)|exact Eq].
  Qed.
End Repeat.

(* ---------------------------------------------------------------- the builder *)
Lemma l_rep_ext A B lo hi : A =L B -> l_rep A lo hi =L l_rep B lo hi.
Proof.
  intros H w. unfold l_rep. split; intros [k [H1 [H2 H3]]]; exists k; (split; [exact H1|]); (split; [exact H2|]);
    apply (l_pow_ext _ _ H k); exact H3.
Qed.

Lemma l_rep_star A : l_rep A 0 None =L l_star A.
Proof.
  intro w. rewrite l_star_pow. unfold l_rep. split.
  - intros [k [_ [_ H]]]. exists k. exact H.
  - intros [k H]. exists k. split; [lia|]. split; [exact I|exact H].
Qed.

Lemma l_rep_plus A : l_rep A 1 None =L l_cat A (l_star A).
Proof.
  intro w. unfold l_rep. split.
  - intros [k [Hk [_ H]]]. destruct k as [|k]; [lia|]. destruct H as [u [v [-> [Hu Hv]]]].
    exists u, v. split; [reflexivity|]. split; [exact Hu|]. apply l_star_pow. exists k. exact Hv.
  - intros [u [v [-> [Hu Hv]]]]. apply l_star_pow in Hv. destruct Hv as [k Hv]. exists (S k).
    split; [lia|]. split; [exact I|]. exists u, v. auto.
Qed.

Lemma l_rep_opt A : l_rep A 0 (Some 1) =L l_opt A.
Proof.
  intro w. unfold l_rep, l_opt. split.
  - intros [k [_ [Hk H]]]. simpl in Hk. destruct k as [|[|k]]; [left; exact H|right|lia].
    apply (proj1 (l_pow_one A w)). exact H.
  - intros [-> |H].
    + exists 0. split; [lia|]. split; [simpl; lia|reflexivity].
    + exists 1. split; [lia|]. split; [simpl; lia|]. apply l_pow_one. exact H.
Qed.

Lemma lang_eq_union A A' B B' : A =L A' -> B =L B' -> l_union A B =L l_union A' B'.
Proof. intros H1 H2 w. unfold l_union. rewrite (H1 w), (H2 w). tauto. Qed.
Lemma lang_eq_inter A A' B B' : A =L A' -> B =L B' -> l_inter A B =L l_inter A' B'.
Proof. intros H1 H2 w. unfold l_inter. rewrite (H1 w), (H2 w). tauto. Qed.
Lemma lang_eq_cat A A' B B' : A =L A' -> B =L B' -> l_cat A B =L l_cat A' B'.
Proof.
  intros H1 H2 w. unfold l_cat. split; intros [u [v [E [Hu Hv]]]]; exists u, v; (split; [exact E|]); split;
    try (apply H1; exact Hu); try (apply H2; exact Hv).
Qed.
Lemma lang_eq_shuffle A A' B B' : A =L A' -> B =L B' -> l_shuffle A B =L l_shuffle A' B'.
Proof.
  intros H1 H2 w. unfold l_shuffle. split; intros [u [v [Hu [Hv Hs]]]]; exists u, v; (split; [|split; [|exact Hs]]);
    try (apply H1; exact Hu); try (apply H2; exact Hv).
Qed.
Lemma lang_eq_star A A' : A =L A' -> l_star A =L l_star A'.
Proof.
  intros H w. rewrite !l_star_pow. split; intros [k Hk]; exists k; apply (l_pow_ext _ _ H k); exact Hk.
Qed.
Lemma lang_eq_opt A A' : A =L A' -> l_opt A =L l_opt A'.
Proof. intros H w. unfold l_opt. rewrite (H w). tauto. Qed.

Theorem build_wf sigma r : forall c, wf c (fst (build sigma r c)) (snd (build sigma r c)).
Proof.
  induction r as [|a| |r1 IH1 r2 IH2|r1 IH1 r2 IH2|r1 IH1 r2 IH2|r1 IH1 r2 IH2|r1 IH1|r1 IH1|r1 IH1|r1 IH1 lo hi];
    intro c; cbn [build].
  - apply lit_eps_wf.
  - apply lit_sym_wf.
  - apply wildcard_wf.
  - specialize (IH1 c). destruct (build sigma r1 c) as [A c1]. specialize (IH2 c1).
    destruct (build sigma r2 c1) as [B c2]. exact (union_wf _ _ _ _ _ IH1 IH2).
  - specialize (IH1 c). destruct (build sigma r1 c) as [A c1]. specialize (IH2 c1).
    destruct (build sigma r2 c1) as [B c2]. cbn [fst snd] in IH1, IH2.
    pose proof (wf_lt _ _ _ IH1). pose proof (wf_lt _ _ _ IH2).
    apply (wf_weaken c2 c _ (snd (f_inter A B c2)) _); [lia|lia|]. exact (inter_wf _ _ _ _ _ _ c2 IH1 IH2).
  - specialize (IH1 c). destruct (build sigma r1 c) as [A c1]. specialize (IH2 c1).
    destruct (build sigma r2 c1) as [B c2]. cbn [fst snd] in IH1, IH2.
    pose proof (wf_lt _ _ _ IH1). pose proof (wf_lt _ _ _ IH2).
    apply (wf_weaken c2 c _ (snd (f_shuffle A B c2)) _); [lia|lia|]. exact (shuffle_wf _ _ _ _ _ _ c2 IH1 IH2).
  - specialize (IH1 c). destruct (build sigma r1 c) as [A c1]. specialize (IH2 c1).
    destruct (build sigma r2 c1) as [B c2]. exact (concat_wf _ _ _ _ _ IH1 IH2).
  - specialize (IH1 c). destruct (build sigma r1 c) as [A c1]. exact (repeat_wf _ _ _ 0 None IH1).
  - specialize (IH1 c). destruct (build sigma r1 c) as [A c1]. exact (repeat_wf _ _ _ 1 None IH1).
  - specialize (IH1 c). destruct (build sigma r1 c) as [A c1]. exact (repeat_wf _ _ _ 0 (Some 1) IH1).
  - specialize (IH1 c). destruct (build sigma r1 c) as [A c1]. exact (repeat_wf _ _ _ lo hi IH1).
Qed.

Theorem build_frag_lang sigma r : forall c, L_frag (fst (build sigma r c)) =L den sigma r.
Proof.
  induction r as [|a| |r1 IH1 r2 IH2|r1 IH1 r2 IH2|r1 IH1 r2 IH2|r1 IH1 r2 IH2|r1 IH1|r1 IH1|r1 IH1|r1 IH1 lo hi];
    intro c; cbn [build den].
  - apply lit_eps_lang.
  - apply lit_sym_lang.
  - apply wildcard_lang.
  - pose proof (build_wf sigma r1 c) as W1. specialize (IH1 c). destruct (build sigma r1 c) as [A c1].
    pose proof (build_wf sigma r2 c1) as W2. specialize (IH2 c1). destruct (build sigma r2 c1) as [B c2].
    eapply lang_eq_trans; [exact (union_lang _ _ _ _ _ W1 W2)|apply lang_eq_union; assumption].
  - pose proof (build_wf sigma r1 c) as W1. specialize (IH1 c). destruct (build sigma r1 c) as [A c1].
    pose proof (build_wf sigma r2 c1) as W2. specialize (IH2 c1). destruct (build sigma r2 c1) as [B c2].
    eapply lang_eq_trans; [exact (inter_lang _ _ _ _ _ _ c2 W1 W2)|apply lang_eq_inter; assumption].
  - pose proof (build_wf sigma r1 c) as W1. specialize (IH1 c). destruct (build sigma r1 c) as [A c1].
    pose proof (build_wf sigma r2 c1) as W2. specialize (IH2 c1). destruct (build sigma r2 c1) as [B c2].
    eapply lang_eq_trans; [exact (shuffle_lang _ _ _ _ _ _ c2 W1 W2)|apply lang_eq_shuffle; assumption].
  - pose proof (build_wf sigma r1 c) as W1. specialize (IH1 c). destruct (build sigma r1 c) as [A c1].
    pose proof (build_wf sigma r2 c1) as W2. specialize (IH2 c1). destruct (build sigma r2 c1) as [B c2].
    eapply lang_eq_trans; [exact (concat_lang _ _ _ _ _ W1 W2)|apply lang_eq_cat; assumption].
  - pose proof (build_wf sigma r1 c) as W1. specialize (IH1 c). destruct (build sigma r1 c) as [A c1].
    eapply lang_eq_trans; [exact (repeat_lang _ _ _ 0 None W1)|].
    eapply lang_eq_trans; [apply l_rep_star|apply lang_eq_star; exact IH1].
  - pose proof (build_wf sigma r1 c) as W1. specialize (IH1 c). destruct (build sigma r1 c) as [A c1].
    eapply lang_eq_trans; [exact (repeat_lang _ _ _ 1 None W1)|].
    eapply lang_eq_trans; [apply l_rep_plus|apply lang_eq_cat; [exact IH1|apply lang_eq_star; exact IH1]].
  - pose proof (build_wf sigma r1 c) as W1. specialize (IH1 c). destruct (build sigma r1 c) as [A c1].
    eapply lang_eq_trans; [exact (repeat_lang _ _ _ 0 (Some 1) W1)|].
    eapply lang_eq_trans; [apply l_rep_opt|apply lang_eq_opt; exact IH1].
  - pose proof (build_wf sigma r1 c) as W1. specialize (IH1 c). destruct (build sigma r1 c) as [A c1].
    eapply lang_eq_trans; [exact (repeat_lang _ _ _ lo hi W1)|apply l_rep_ext; exact IH1].
Qed.

(* the NFA object built by NFA.from_regex *)
Theorem build_lang sigma r : L_nfa (nfa_of sigma (fst (build sigma r 0))) =L den sigma r.
Proof.
  eapply lang_eq_trans; [exact (nfa_of_lang sigma _ _ _ (build_wf sigma r 0))|apply build_frag_lang].
Qed.
