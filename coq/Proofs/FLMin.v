(* C15 / from_finite_language: the result of the mirror model is minimal of its kind.  At the end of the
   construction the path is the root alone: every other state is registered, registered states are pairwise
   distinguishable, every state is reached from the root, every state other than the root accepts some word
   (Proofs/FLInv.v, FLAdd.v).  The root is told apart from any other state q by a longest word w of the language: w is
   accepted from the root; were it accepted from q, reached by x <> "", then x ++ w would be a longer word of the
   language.  The complete form adds the trap, which rejects everything and is reached after a longest word. *)
From Coq Require Import List Arith Bool Lia Sorted.
From AV Require Import Base.Util Spec.Lang Spec.FA Spec.Minimal Spec.DictOrder Spec.Preds
                       Model.Decide Model.Product Model.DFAOps Model.Construct Model.Validate Model.FiniteLang
                       Proofs.Preds Proofs.FARun Proofs.DFAOps2 Proofs.Construct Proofs.Validate Proofs.CtorMinimal
                       Proofs.FLDict Proofs.FLInv Proofs.FLAdd Proofs.FLLang.
Import ListNotations.

(* ---------- the loop again, with both halves of the invariant ---------- *)
Lemma add_ok_M s done u a r : Inv s done u -> InvM s u ->
  (forall y w, y <> [] -> pre y (a :: r) -> In w done -> ~ pre (u ++ y) w) ->
  Inv (add_to_trie s (u ++ a :: r)) ((u ++ a :: r) :: done) (u ++ a :: r) /\ InvM (add_to_trie s (u ++ a :: r)) (u ++ a :: r).
Proof.
  intros HI HM Hf. destruct (u_row s done u a r HI Hf) as [row [Hrow Ha]].
  rewrite (add_closed s done u a r HI Hf row Hrow Ha). split.
  - exact (add_inv s done u a r HI Hf row Hrow Ha).
  - exact (add_inv_M s done u a r HI Hf row Hrow Ha HM).
Qed.

Lemma no_registered s : fl_sigs s = [] -> forall q, ~ registered s q.
Proof. intros E q [sg Hin]. rewrite E in Hin. exact Hin. Qed.

Lemma init'_invM : InvM fl_init' [].
Proof.
  constructor; simpl.
  - intros q Hq Hn. apply key_singleton in Hq. subst. exfalso. apply Hn. apply pre_refl.
  - intros sg q q' [].
  - intros q q' Hq. exfalso. exact (no_registered fl_init' eq_refl q Hq).
  - intros q Hq. apply key_singleton in Hq. subst. exists []. reflexivity.
Qed.

Lemma first_nil_invM : InvM (add_to_trie fl_init []) [].
Proof.
  unfold add_to_trie. simpl. constructor; simpl.
  - intros q Hq Hn. apply key_singleton in Hq. subst. exfalso. apply Hn. apply pre_refl.
  - intros sg q q' [].
  - intros q q' [sg []].
  - intros q Hq. apply key_singleton in Hq. subst. exists []. reflexivity.
Qed.

Lemma first_invM w0 : InvM (add_to_trie fl_init w0) w0.
Proof.
  destruct w0 as [|a r]; [exact first_nil_invM|].
  change (add_to_trie fl_init (a :: r)) with (add_to_trie fl_init' ([] ++ a :: r)).
  apply (add_ok_M fl_init' [] [] a r init'_inv init'_invM). intros y w _ _ [].
Qed.

Lemma fl_loop_ok_M : forall rest s prev done,
  Inv s done prev -> InvM s prev -> (forall w, In w done -> lex_le w prev) -> StronglySorted lex_lt (prev :: rest) ->
  exists s' done', fl_loop s prev rest = Ok s' /\ Inv s' done' [] /\ InvM s' [] /\
                   (forall w, In w done' <-> In w done \/ In w rest).
Proof.
  induction rest as [|cur rest IH]; intros s prev done HI HM Hle Hs; simpl.
  - destruct (compress_ok_M s done prev [] HI HM) as [s' [E [HI' HM']]]. rewrite lcp_nil_r in HI', HM'. simpl in HI', HM'.
    exists s', done. split; [exact E|]. split; [exact HI'|]. split; [exact HM'|]. intro w. tauto.
  - destruct (compress_ok_M s done prev cur HI HM) as [s1 [E1 [HI1 HM1]]]. rewrite E1. simpl.
    inversion Hs as [|? ? Hs' Hf]; subst. rewrite Forall_forall in Hf.
    assert (Hlt : lex_lt prev cur) by (apply Hf; left; reflexivity).
    destruct (lcp_spec prev cur) as (c & p & q & Ep & Eq & Hl & Hd).
    assert (Hfn : firstn (lcp_len prev cur) prev = c).
    { rewrite <- Hl, Ep. rewrite firstn_app, Nat.sub_diag, firstn_all. simpl. apply app_nil_r. }
    rewrite Hfn in HI1, HM1.
    destruct q as [|a r].
    { exfalso. rewrite app_nil_r in Eq. subst cur prev. destruct p as [|b p].
      - rewrite app_nil_r in Hlt. exact (lex_lt_irrefl _ Hlt).
      - exact (lex_lt_asym _ _ Hlt (lex_lt_prefix c b p)). }
    assert (Hfresh : forall y w, y <> [] -> pre y (a :: r) -> In w done -> ~ pre (c ++ y) w).
    { intros y w Hy [t Ht] Hw Hp. destruct y as [|a' y]; [contradiction|]. simpl in Ht. inversion Ht; subst a'.
      apply (fresh_prefix prev cur w c p a r Ep Eq).
      - destruct p; [exact I|exact Hd].
      - exact Hlt.
      - apply Hle. exact Hw.
      - eapply pre_trans; [|exact Hp]. exists y. symmetry. apply snoc_app. }
    destruct (add_ok_M s1 done c a r HI1 HM1 Hfresh) as [HI2 HM2]. rewrite <- Eq in HI2, HM2.
    destruct (IH (add_to_trie s1 cur) cur (cur :: done) HI2 HM2) as [s' [done' [E' [HI' [HM' Hd']]]]].
    + intros w [<-|Hw]; [right; reflexivity|]. left. eapply lex_le_lt_trans; [apply Hle; exact Hw|exact Hlt].
    + exact Hs'.
    + exists s', done'. split; [exact E'|]. split; [exact HI'|]. split; [exact HM'|]. intro w. rewrite Hd'. simpl. tauto.
Qed.

Lemma fl_build_ok_M lang : NoDup lang -> lang <> [] ->
  exists s done, fl_build lang = Ok s /\ Inv s done [] /\ InvM s [] /\ (forall w, In w done <-> In w lang).
Proof.
  intros Hnd Hne. unfold fl_build. pose proof (sort_words_sorted lang Hnd) as Hs.
  pose proof (sort_words_In) as Hin.
  destruct (sort_words lang) as [|w0 rest] eqn:E.
  - exfalso. destruct lang as [|w l]; [contradiction|]. specialize (Hin w (w :: l)). rewrite E in Hin.
    apply Hin. left. reflexivity.
  - destruct (fl_loop_ok_M rest (add_to_trie fl_init w0) w0 [w0] (first_inv w0) (first_invM w0)) as [s [done [E1 [HI [HM Hd]]]]].
    + intros w [<-|[]]. right. reflexivity.
    + exact Hs.
    + exists s, done. split; [exact E1|]. split; [exact HI|]. split; [exact HM|].
      intro w. rewrite Hd. rewrite <- (Hin w lang), E. simpl. tauto.
Qed.

(* ---------- at the end: all states pairwise distinguishable, accessible, live ---------- *)
Lemma longest_word (l : list word) : l <> [] -> exists w, In w l /\ forall w', In w' l -> length w' <= length w.
Proof.
  induction l as [|x l IH]; [congruence|]. intros _. destruct l as [|y l].
  - exists x. split; [left; reflexivity|]. intros w' [<-|[]]. lia.
  - destruct (IH ltac:(discriminate)) as [w [Hw Hmax]]. destruct (le_lt_dec (length x) (length w)) as [Hle|Hgt].
    + exists w. split; [right; exact Hw|]. intros w' [<-|Hw']; [exact Hle|apply Hmax; exact Hw'].
    + exists x. split; [left; reflexivity|]. intros w' [<-|Hw']; [lia|]. specialize (Hmax w' Hw'). lia.
Qed.

Lemma wacc_app s y x q v : wrun (fl_trans s) (Some y) x = Some q -> wacc s y (x ++ v) = wacc s q v.
Proof. intro H. unfold wacc. rewrite wrun_app, H. reflexivity. Qed.

Lemma wacc_true_run s y w : wacc s y w = true -> exists q, wrun (fl_trans s) (Some y) w = Some q.
Proof. unfold wacc. destruct (wrun (fl_trans s) (Some y) w) as [q|]; [eauto|discriminate]. Qed.

Section Final.
  Variables (s : flst) (done : list word).
  Hypothesis HI : Inv s done [].
  Hypothesis HM : InvM s [].
  Hypothesis Hne : done <> [].

  Lemma final_live q : key q (fl_trans s) -> exists v, wacc s q v = true.
  Proof.
    intro Hk. destruct (weq_dec q []) as [->|Hq]; [|apply (i_live _ _ _ HI q Hk Hq)].
    destruct done as [|w l]; [contradiction|]. exists w. apply (i_lang _ _ _ HI [] (pre_nil _)). left. reflexivity.
  Qed.

  Lemma root_vs q : key q (fl_trans s) -> q <> [] -> exists w, wacc s [] w <> wacc s q w.
  Proof.
    intros Hk Hq. destruct (longest_word done Hne) as [w [Hw Hmax]]. exists w.
    assert (Hr : wacc s [] w = true) by (apply (i_lang _ _ _ HI [] (pre_nil _)); exact Hw).
    rewrite Hr. destruct (wacc s q w) eqn:Eq; [|discriminate]. exfalso.
    destruct (m_acc _ _ HM q Hk) as [x Hx]. destruct x as [|b x]; [simpl in Hx; congruence|].
    rewrite <- (wacc_app s [] (b :: x) q w Hx) in Eq. apply (i_lang _ _ _ HI [] (pre_nil _)) in Eq.
    specialize (Hmax _ Eq). simpl in Hmax. rewrite app_length in Hmax. lia.
  Qed.

  Lemma final_dist q q' : key q (fl_trans s) -> key q' (fl_trans s) -> q <> q' -> exists w, wacc s q w <> wacc s q' w.
  Proof.
    intros Hk Hk' Hne'. destruct (weq_dec q []) as [->|Hq]; [apply root_vs; [exact Hk'|congruence]|].
    destruct (weq_dec q' []) as [->|Hq'].
    - destruct (root_vs q Hk Hq) as [w Hw]. exists w. congruence.
    - apply (m_dist _ _ HM).
      + apply (m_reg _ _ HM q Hk). intro Hp. apply pre_nil_inv in Hp. contradiction.
      + apply (m_reg _ _ HM q' Hk'). intro Hp. apply pre_nil_inv in Hp. contradiction.
      + exact Hne'.
  Qed.

  (* the state reached by a longest word has no outgoing edge *)
  Lemma longest_end : exists w q, wrun (fl_trans s) (Some []) w = Some q /\ forall a, wdelta (fl_trans s) q a = None.
  Proof.
    destruct (longest_word done Hne) as [w [Hw Hmax]].
    assert (Hr : wacc s [] w = true) by (apply (i_lang _ _ _ HI [] (pre_nil _)); exact Hw).
    destruct (wacc_true_run s [] w Hr) as [q Eq].
    exists w, q. split; [exact Eq|]. intro a. destruct (wdelta (fl_trans s) q a) as [t|] eqn:Ed; [|reflexivity]. exfalso.
    assert (Htn : t <> []) by (intro E; subst t; exact (no_edge_to_root _ _ _ _ _ HI Ed)).
    destruct (i_live _ _ _ HI t (i_closed _ _ _ HI _ _ _ Ed) Htn) as [v Hv].
    assert (Hacc : wacc s [] (w ++ a :: v) = true).
    { rewrite (wacc_app s [] w q (a :: v) Eq), wacc_cons, Ed. exact Hv. }
    apply (i_lang _ _ _ HI [] (pre_nil _)) in Hacc. simpl in Hacc. specialize (Hmax _ Hacc). rewrite app_length in Hmax. simpl in Hmax. lia.
  Qed.
End Final.

(* ---------- the numbered DFA, partial and complete ---------- *)
Section NumberedMinimal.
  Variables (syms : list nat) (s : flst) (done : list word).
  Hypothesis HI : Inv s done [].
  Hypothesis HM : InvM s [].
  Hypothesis Hne : done <> [].
  Hypothesis Hnd : NoDup syms.
  Hypothesis Hover : forall w, In w done -> word_over syms w.

  Let keys := fl_names s.
  Let g := wnum keys.
  Let m := fl_number syms s.

  Lemma m_valid : valid_dfa m = true.
  Proof. exact (num_valid syms s done HI Hnd Hover). Qed.

  Lemma state_key i : In i (d_states m) -> exists q, key q (fl_trans s) /\ g q = i.
  Proof.
    intro Hi. unfold m, fl_number in Hi. simpl in Hi. fold keys in Hi.
    rewrite <- (wnum_seq keys (i_nodup _ _ _ HI)) in Hi. apply in_map_iff in Hi. destruct Hi as [q [E Hq]].
    exists q. split; [apply key_In; exact Hq|exact E].
  Qed.

  Lemma m_acc_from q w : key q (fl_trans s) -> dfa_acc_from m (Some (g q)) w = wacc s q w.
  Proof. intro Hk. exact (num_acc_from syms s done HI w q Hk). Qed.

  Lemma m_reach q : key q (fl_trans s) -> exists x, dfa_run m (Some (d_init m)) x = Some (g q).
  Proof.
    intro Hk. destruct (m_acc _ _ HM q Hk) as [x Hx]. exists x. change (d_init m) with (g []).
    pose proof (num_run syms s done HI x [] (root_key s done HI)) as Hr. fold keys in Hr. fold g in Hr. fold m in Hr.
    rewrite Hr. transitivity (option_map g (Some q)); [f_equal; exact Hx|reflexivity].
  Qed.

  Lemma m_dist_states r1 r2 : In r1 (d_states m) -> In r2 (d_states m) -> r1 <> r2 ->
    exists w, dfa_acc_from m (Some r1) w <> dfa_acc_from m (Some r2) w.
  Proof.
    intros H1 H2 Hn. destruct (state_key r1 H1) as [q1 [K1 <-]]. destruct (state_key r2 H2) as [q2 [K2 <-]].
    destruct (final_dist s done HI HM Hne q1 q2 K1 K2) as [w Hw]; [congruence|].
    exists w. rewrite !m_acc_from by assumption. exact Hw.
  Qed.

  Lemma m_live r : In r (d_states m) -> exists w, dfa_acc_from m (Some r) w = true.
  Proof.
    intro H. destruct (state_key r H) as [q [K <-]]. destruct (final_live s done HI Hne q K) as [v Hv].
    exists v. rewrite m_acc_from by assumption. exact Hv.
  Qed.

  Theorem partial_is_minimal : is_minimal m = true.
  Proof.
    apply is_minimal_intro.
    - exact m_valid.
    - intros r Hr. destruct (state_key r Hr) as [q [K <-]]. apply m_reach. exact K.
    - exact m_dist_states.
    - intros _. exact m_live.
  Qed.

  (* the complete form *)
  Let mc := fl_complete m.
  Let trap := fresh_state m.

  Lemma mc_run x : forall q t, In q (d_states m) -> dfa_run m (Some q) x = Some t -> dfa_run mc (Some q) x = Some t.
  Proof.
    induction x as [|a x IH]; intros q t Hq H; simpl in *; [exact H|].
    destruct (d_delta m q a) as [t'|] eqn:Ed; [|rewrite dfa_run_None in H; discriminate].
    unfold mc. rewrite fl_complete_completed. rewrite (completed_delta m m_valid q a Hq), Ed.
    destruct (delta_in_states m m_valid _ _ _ Ed) as [Ht Ha]. apply memb_In in Ha. rewrite Ha.
    apply (IH t' t Ht H).
  Qed.

  Lemma init_state : In (d_init m) (d_states m).
  Proof. destruct (valid_dfa_parts m m_valid) as (_ & _ & _ & _ & _ & H & _). exact H. Qed.

  Lemma trap_reached : syms <> [] -> exists x, dfa_run mc (Some (d_init mc)) x = Some trap.
  Proof.
    intro Hs. assert (Ha0 : exists a0, In a0 syms) by (clear -Hs; destruct syms as [|a0 l]; [contradiction|exists a0; left; reflexivity]).
    destruct Ha0 as [a0 Ha0].
    destruct (longest_end s done HI Hne) as [w [q [Hw Hend]]].
    assert (Hk : key q (fl_trans s)) by (apply (run_key s done HI w [] q (root_key s done HI) Hw)).
    exists (w ++ [a0]). rewrite dfa_run_app. change (d_init mc) with (d_init m).
    assert (Hrun : dfa_run m (Some (d_init m)) w = Some (g q)).
    { change (d_init m) with (g []). pose proof (num_run syms s done HI w [] (root_key s done HI)) as Hr.
      fold keys in Hr. fold g in Hr. fold m in Hr. rewrite Hr. transitivity (option_map g (Some q)); [f_equal; exact Hw|reflexivity]. }
    rewrite (mc_run w _ _ init_state Hrun). simpl.
    assert (Hgq : In (g q) (d_states m)).
    { unfold m, fl_number. simpl. apply in_seq. split; [lia|]. simpl. apply wnum_lt. apply key_In. exact Hk. }
    unfold mc. rewrite fl_complete_completed, (completed_delta m m_valid _ a0 Hgq).
    assert (Hmem : memb a0 (d_syms m) = true) by (apply memb_In; exact Ha0).
    rewrite Hmem. pose proof (num_delta syms s q a0 Hk) as Hd. fold keys in Hd. fold g in Hd. fold m in Hd.
    rewrite Hd, Hend. reflexivity.
  Qed.

  Theorem complete_is_minimal : syms <> [] -> is_minimal mc = true.
  Proof.
    intro Hs. assert (Hvc : valid_dfa mc = true) by (unfold mc; rewrite fl_complete_completed; apply completed_valid; exact m_valid).
    assert (Hst : forall r, In r (d_states mc) -> In r (d_states m) \/ r = trap).
    { intros r Hr. unfold mc, fl_complete in Hr. simpl in Hr. apply in_app_or in Hr. destruct Hr as [Hr|[Hr|[]]]; [left; exact Hr|right; symmetry; exact Hr]. }
    assert (Hold : forall r w, In r (d_states m) -> dfa_acc_from mc (Some r) w = dfa_acc_from m (Some r) w).
    { intros r w Hr. unfold mc. rewrite fl_complete_completed. apply (completed_acc_from m m_valid w r Hr). }
    assert (Htrap : forall w, dfa_acc_from mc (Some trap) w = false).
    { intro w. unfold mc. rewrite fl_complete_completed. apply (trap_rejects m m_valid w). }
    apply is_minimal_intro.
    - exact Hvc.
    - intros r Hr. destruct (Hst r Hr) as [Ho| ->].
      + destruct (state_key r Ho) as [q [K <-]]. destruct (m_reach q K) as [x Hx]. exists x.
        change (d_init mc) with (d_init m). apply (mc_run x _ _ init_state Hx).
      + apply trap_reached. exact Hs.
    - intros r1 r2 H1 H2 Hn. destruct (Hst r1 H1) as [O1| ->]; destruct (Hst r2 H2) as [O2| ->].
      + destruct (m_dist_states r1 r2 O1 O2 Hn) as [w Hw]. exists w. rewrite !Hold by assumption. exact Hw.
      + destruct (m_live r1 O1) as [w Hw]. exists w. rewrite (Hold r1 w O1), Hw, Htrap. discriminate.
      + destruct (m_live r2 O2) as [w Hw]. exists w. rewrite (Hold r2 w O2), Hw, Htrap. discriminate.
      + contradiction.
    - intro Hp. discriminate.
  Qed.
End NumberedMinimal.

(* ---------- the theorem ---------- *)
Theorem fl_dfa_minimal syms lang as_partial :
  NoDup syms -> NoDup lang -> (forall w, In w lang -> word_over syms w) ->
  (as_partial = false -> lang <> [] -> syms <> []) ->
  exists m, fl_dfa syms lang as_partial = Ok m /\ valid_dfa m = true /\ is_minimal m = true.
Proof.
  intros Hs Hl Ho Hside. destruct lang as [|w0 l] eqn:El.
  - exists (empty_m syms). split; [reflexivity|]. split; [apply empty_valid; exact Hs|apply empty_is_minimal; exact Hs].
  - rewrite <- El in *. assert (Hne : lang <> []) by (rewrite El; discriminate).
    destruct (fl_build_ok_M lang Hl Hne) as [s [done [Eb [HI [HM Hd]]]]].
    assert (Hov : forall w, In w done -> word_over syms w) by (intros w Hw; apply Ho; apply Hd; exact Hw).
    assert (Hdne : done <> []).
    { intro E. subst done. apply (Hd w0). rewrite El. left. reflexivity. }
    pose proof (num_valid syms s done HI Hs Hov) as Hv.
    assert (Efl : fl_dfa syms lang as_partial =
                  bind (fl_build lang) (fun s => bind (validated (fl_number syms s)) (fun m =>
                    if as_partial then Ok m else validated (fl_complete m)))) by (rewrite El; reflexivity).
    rewrite Efl, Eb. simpl. rewrite (validated_ok _ Hv). simpl. destruct as_partial.
    + exists (fl_number syms s). split; [reflexivity|]. split; [exact Hv|].
      exact (partial_is_minimal syms s done HI HM Hdne Hs Hov).
    + destruct (fl_complete_spec _ Hv) as (Hv' & _).
      exists (fl_complete (fl_number syms s)). split; [apply validated_ok; exact Hv'|]. split; [exact Hv'|].
      exact (complete_is_minimal syms s done HI HM Hdne Hs Hov (Hside eq_refl Hne)).
Qed.
