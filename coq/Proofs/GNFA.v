(* Lemmas for C12: Kleene's state elimination on GNFAs with expression-AST labels. *)
From Coq Require Import List Arith Bool Lia.
From AV Require Import Base.Util Spec.Lang Spec.FA Spec.Regex0 Model.GNFA Proofs.FARun.
Import ListNotations.

(* ---------- languages ---------- *)
Section LangFacts.
  Variable A : lang.

  Lemma star_one u : A u -> l_star A u.
  Proof. intro H. rewrite <- (app_nil_r u). apply star_app; [exact H|apply star_nil]. Qed.

  Lemma star_cat u v : l_star A u -> l_star A v -> l_star A (u ++ v).
  Proof.
    intros Hu Hv. induction Hu as [|x y Hx Hy IH]; simpl; [exact Hv|].
    rewrite <- app_assoc. apply star_app; assumption.
  Qed.

  Lemma star_snoc u v : l_star A u -> A v -> l_star A (u ++ v).
  Proof. intros Hu Hv. apply star_cat; [exact Hu|apply star_one; exact Hv]. Qed.
End LangFacts.

Lemma star_empty_nil w : l_star l_empty w -> w = [].
Proof. intro H. destruct H as [|u v Hu _]; [reflexivity|destruct Hu]. Qed.

(* ---------- paths over a label function ---------- *)
Section Paths.
  Variable lab : nat -> nat -> option rex.

  Lemma lpath_app p u q v r : lpath lab p u q -> lpath lab q v r -> lpath lab p (u ++ v) r.
  Proof.
    intros H1 H2. induction H1 as [p|p q r' s x y Hl Hx Hp IH]; simpl; [exact H2|].
    rewrite <- app_assoc. eapply lp_step; [exact Hl|exact Hx|apply IH; exact H2].
  Qed.

  Lemma lpath_one p q s u : lab p q = Some s -> rden s u -> lpath lab p u q.
  Proof.
    intros Hl Hu. rewrite <- (app_nil_r u). eapply lp_step; [exact Hl|exact Hu|apply lp_nil].
  Qed.
End Paths.

Lemma lpath_inv lab p w r : lpath lab p w r ->
  (p = r /\ w = []) \/ (exists m s u v, lab p m = Some s /\ rden s u /\ lpath lab m v r /\ w = u ++ v).
Proof.
  intro H. destruct H as [p|p m r s u v Hl Hu Hv]; [left; split; reflexivity|].
  right. exists m, s, u, v. repeat split; assumption.
Qed.

Lemma lpath_ext lab lab' : (forall p q, lab p q = lab' p q) ->
  forall p w r, lpath lab p w r -> lpath lab' p w r.
Proof.
  intros He p w r H. induction H as [p|p q r s u v Hl Hu Hp IH]; [apply lp_nil|].
  eapply lp_step; [rewrite <- He; exact Hl|exact Hu|exact IH].
Qed.

(* ---------- ripping a state, on label functions ---------- *)
Definition rip_fn (lab : nat -> nat -> option rex) (q i j : nat) : option rex :=
  if Nat.eqb i q || Nat.eqb j q then None else rip_lab lab q i j.

Section Rip.
  Variable lab : nat -> nat -> option rex.
  Variable q : nat.

  Definition loopL : lang := match lab q q with Some r2 => rden r2 | None => l_empty end.

  (* the old edge survives *)
  Lemma rip_keeps i j s u : i <> q -> j <> q -> lab i j = Some s -> rden s u ->
    exists s', rip_fn lab q i j = Some s' /\ rden s' u.
  Proof.
    intros Hi Hj Hl Hu. unfold rip_fn.
    apply Nat.eqb_neq in Hi. apply Nat.eqb_neq in Hj. rewrite Hi, Hj. simpl.
    unfold rip_lab. rewrite Hl.
    destruct (lab i q) as [r1|]; [|exists s; split; [reflexivity|exact Hu]].
    destruct (lab q j) as [r3|]; [|exists s; split; [reflexivity|exact Hu]].
    eexists. split; [reflexivity|]. simpl. left. exact Hu.
  Qed.

  (* the detour through q is added *)
  Lemma rip_adds i j r1 r3 u1 ul u3 : i <> q -> j <> q ->
    lab i q = Some r1 -> lab q j = Some r3 -> rden r1 u1 -> l_star loopL ul -> rden r3 u3 ->
    exists s', rip_fn lab q i j = Some s' /\ rden s' (u1 ++ ul ++ u3).
  Proof.
    intros Hi Hj H1 H3 Hu1 Hul Hu3. unfold rip_fn.
    apply Nat.eqb_neq in Hi. apply Nat.eqb_neq in Hj. rewrite Hi, Hj. simpl.
    unfold rip_lab. rewrite H1, H3. unfold loopL in Hul.
    assert (Hmid : rden (match lab q q with
                         | Some r2 => RCat r1 (RCat (RStar r2) r3)
                         | None => RCat r1 r3 end) (u1 ++ ul ++ u3)).
    { destruct (lab q q) as [r2|]; simpl.
      - exists u1, (ul ++ u3). repeat split; [exact Hu1|]. exists ul, u3. repeat split; assumption.
      - apply star_empty_nil in Hul. subst ul. simpl. exists u1, u3. repeat split; assumption. }
    destruct (lab i j) as [r4|]; eexists; (split; [reflexivity|]); simpl; [right|]; exact Hmid.
  Qed.

  (* what a new edge can read *)
  Lemma rip_inv i j s' u : rip_fn lab q i j = Some s' -> rden s' u ->
    i <> q /\ j <> q /\
    ((exists s, lab i j = Some s /\ rden s u) \/
     (exists r1 r3 u1 ul u3, lab i q = Some r1 /\ lab q j = Some r3 /\ u = u1 ++ ul ++ u3 /\
        rden r1 u1 /\ l_star loopL ul /\ rden r3 u3)).
  Proof.
    unfold rip_fn. destruct (Nat.eqb i q) eqn:Ei; [discriminate|].
    destruct (Nat.eqb j q) eqn:Ej; [discriminate|]. simpl.
    apply Nat.eqb_neq in Ei. apply Nat.eqb_neq in Ej.
    intros Hs Hu. split; [exact Ei|]. split; [exact Ej|].
    unfold rip_lab in Hs.
    destruct (lab i q) as [r1|] eqn:E1; [|left; exists s'; split; assumption].
    destruct (lab q j) as [r3|] eqn:E3; [|left; exists s'; split; assumption].
    assert (Hmid : forall x, rden (match lab q q with
                         | Some r2 => RCat r1 (RCat (RStar r2) r3)
                         | None => RCat r1 r3 end) x ->
              exists u1 ul u3, x = u1 ++ ul ++ u3 /\ rden r1 u1 /\ l_star loopL ul /\ rden r3 u3).
    { intros x Hx. unfold loopL. destruct (lab q q) as [r2|]; simpl in Hx.
      - destruct Hx as (u1 & y & -> & Hu1 & (ul & u3 & -> & Hul & Hu3)).
        exists u1, ul, u3. repeat split; assumption.
      - destruct Hx as (u1 & u3 & -> & Hu1 & Hu3). exists u1, [], u3.
        repeat split; [exact Hu1|apply star_nil|exact Hu3]. }
    inversion Hs as [Hs']. clear Hs. subst s'.
    destruct (lab i j) as [r4|] eqn:E4; simpl in Hu.
    - destruct Hu as [Hu|Hu].
      + left. exists r4. split; [reflexivity|exact Hu].
      + right. destruct (Hmid _ Hu) as (u1 & ul & u3 & Hx & H1 & H2 & H3).
        exists r1, r3, u1, ul, u3. repeat split; assumption.
    - right. destruct (Hmid _ Hu) as (u1 & ul & u3 & Hx & H1 & H2 & H3).
      exists r1, r3, u1, ul, u3. repeat split; assumption.
  Qed.

  Lemma loops_path ul : l_star loopL ul -> lpath lab q ul q.
  Proof.
    intro H. induction H as [|u v Hu Hv IH]; [apply lp_nil|].
    unfold loopL in Hu. destruct (lab q q) as [r2|] eqn:E; [|destruct Hu].
    eapply lp_step; [exact E|exact Hu|exact IH].
  Qed.

  (* new paths are old paths *)
  Lemma rip_path_sound p w r : lpath (rip_fn lab q) p w r -> lpath lab p w r.
  Proof.
    intro H. induction H as [p|p m r s' u v Hl Hu Hp IH]; [apply lp_nil|].
    destruct (rip_inv _ _ _ _ Hl Hu) as (_ & _ & [(s & Hs & Hsu)|(r1 & r3 & u1 & ul & u3 & H1 & H3 & -> & Hu1 & Hul & Hu3)]).
    - eapply lp_step; [exact Hs|exact Hsu|exact IH].
    - rewrite <- !app_assoc. eapply lp_step; [exact H1|exact Hu1|].
      apply lpath_app with (q := q); [apply loops_path; exact Hul|].
      eapply lp_step; [exact H3|exact Hu3|exact IH].
  Qed.

  (* old paths between states other than q are new paths: the classical argument, with the
     statement strengthened to cover the moment the old path sits in q *)
  Lemma rip_path_complete_gen p w r : lpath lab p w r -> r <> q ->
    (p <> q -> lpath (rip_fn lab q) p w r) /\
    (p = q -> forall i r1 u0, i <> q -> lab i q = Some r1 ->
       l_cat (rden r1) (l_star loopL) u0 -> lpath (rip_fn lab q) i (u0 ++ w) r).
  Proof.
    intros H Hr. induction H as [p|p m r s u v Hl Hu Hp IH].
    - split; [intros _; apply lp_nil|]. intro E. contradiction.
    - specialize (IH Hr). destruct IH as [IH1 IH2]. split.
      + intro Hpq. destruct (Nat.eq_dec m q) as [Em|Em].
        * subst m. apply (IH2 eq_refl p s u Hpq Hl).
          exists u, []. rewrite app_nil_r. repeat split; [exact Hu|apply star_nil].
        * destruct (rip_keeps p m s u Hpq Em Hl Hu) as (s' & Hs' & Hu').
          eapply lp_step; [exact Hs'|exact Hu'|apply IH1; exact Em].
      + intros Ep i r1 u0 Hi Hi1 (a & b & -> & Ha & Hb). subst p.
        destruct (Nat.eq_dec m q) as [Em|Em].
        * subst m. rewrite app_assoc. apply (IH2 eq_refl i r1 _ Hi Hi1).
          exists a, (b ++ u). rewrite app_assoc. repeat split; [exact Ha|].
          apply star_snoc; [exact Hb|]. unfold loopL. rewrite Hl. exact Hu.
        * destruct (rip_adds i m r1 s a b u Hi Em Hi1 Hl Ha Hb Hu) as (s' & Hs' & Hu').
          rewrite app_assoc. rewrite <- (app_assoc a b u).
          eapply lp_step; [exact Hs'|exact Hu'|apply IH1; exact Em].
  Qed.

  Theorem rip_fn_paths p w r : p <> q -> r <> q ->
    (lpath (rip_fn lab q) p w r <-> lpath lab p w r).
  Proof.
    intros Hp Hr. split; [apply rip_path_sound|].
    intro H. apply (proj1 (rip_path_complete_gen p w r H Hr) Hp).
  Qed.
End Rip.

(* ---------- tables ---------- *)
Lemma assoc2_app p q l1 l2 :
  assoc2 p q (l1 ++ l2) = match assoc2 p q l1 with Some r => Some r | None => assoc2 p q l2 end.
Proof.
  induction l1 as [|[[p' q'] r] t IH]; simpl; [reflexivity|].
  destruct (Nat.eqb p p' && Nat.eqb q q'); [reflexivity|exact IH].
Qed.

Lemma assoc2_row f p q p' l :
  assoc2 p q (flat_map (fun q' => match f p' q' with Some r => [((p', q'), r)] | None => [] end) l)
  = if Nat.eqb p p' && memb q l then f p q else None.
Proof.
  induction l as [|x l IH]; simpl; [rewrite andb_false_r; reflexivity|].
  rewrite assoc2_app, IH. unfold memb in *. simpl.
  destruct (Nat.eqb p p') eqn:Ep; simpl.
  - apply Nat.eqb_eq in Ep. subst p'. destruct (Nat.eqb q x) eqn:Eq; simpl.
    + apply Nat.eqb_eq in Eq. subst x. destruct (f p q) as [r|] eqn:Ef; simpl.
      * rewrite !Nat.eqb_refl. reflexivity.
      * destruct (existsb (Nat.eqb q) l); reflexivity.
    + destruct (f p x) as [r|]; simpl; [|reflexivity].
      rewrite Nat.eqb_refl, Eq. reflexivity.
  - destruct (f p' x) as [r|]; simpl; [|reflexivity]. rewrite Ep. reflexivity.
Qed.

Lemma assoc2_tabulate_gen f p q cols rows :
  assoc2 p q (flat_map (fun p' => flat_map (fun q' => match f p' q' with Some r => [((p', q'), r)] | None => [] end) cols) rows)
  = if memb p rows && memb q cols then f p q else None.
Proof.
  induction rows as [|x rows IH]; simpl; [reflexivity|].
  rewrite assoc2_app, assoc2_row, IH. unfold memb. simpl.
  destruct (Nat.eqb p x); simpl; [|reflexivity].
  destruct (existsb (Nat.eqb q) cols); simpl; [|rewrite andb_false_r; reflexivity].
  destruct (f p q); [reflexivity|]. destruct (existsb (Nat.eqb p) rows); reflexivity.
Qed.

Lemma label_tabulate sts i f F p q :
  label (mkgnfa sts i f (tabulate sts F)) p q = if memb p sts && memb q sts then F p q else None.
Proof.
  unfold label, tabulate. simpl. rewrite assoc2_tabulate_gen.
  destruct (memb p sts && memb q sts); reflexivity.
Qed.

Lemma label_states g p q s : label g p q = Some s -> In p (g_states g) /\ In q (g_states g).
Proof.
  unfold label. destruct (memb p (g_states g)) eqn:E1; [|discriminate].
  destruct (memb q (g_states g)) eqn:E2; [|discriminate]. intros _.
  split; apply memb_In; assumption.
Qed.

Lemma label_outside_l g p q : ~ In p (g_states g) -> label g p q = None.
Proof.
  intro H. destruct (label g p q) eqn:E; [|reflexivity]. apply label_states in E. tauto.
Qed.

Lemma label_outside_r g p q : ~ In q (g_states g) -> label g p q = None.
Proof.
  intro H. destruct (label g p q) eqn:E; [|reflexivity]. apply label_states in E. tauto.
Qed.

Lemma remove_nat_In q l x : In x (remove_nat q l) <-> In x l /\ x <> q.
Proof.
  unfold remove_nat. rewrite filter_In, negb_true_iff, Nat.eqb_neq. tauto.
Qed.

Lemma beq_iff (a b : bool) : (a = true <-> b = true) -> a = b.
Proof. destruct a, b; intros [H1 H2]; try reflexivity; [symmetry; apply H1|apply H2]; reflexivity. Qed.

Lemma memb_remove q l x : memb x (remove_nat q l) = memb x l && negb (Nat.eqb x q).
Proof.
  apply beq_iff. rewrite memb_In, remove_nat_In, andb_true_iff, memb_In, negb_true_iff, Nat.eqb_neq. tauto.
Qed.

(* ---------- ripping a state of a GNFA ---------- *)
Lemma label_rip g q i j : label (rip g q) i j = rip_fn (label g) q i j.
Proof.
  unfold rip. rewrite label_tabulate, !memb_remove. unfold rip_fn.
  destruct (Nat.eqb i q) eqn:Ei; simpl; [rewrite andb_false_r; reflexivity|].
  destruct (Nat.eqb j q) eqn:Ej; simpl; [rewrite !andb_false_r; reflexivity|].
  rewrite !andb_true_r.
  destruct (memb i (g_states g)) eqn:Mi; simpl.
  - destruct (memb j (g_states g)) eqn:Mj; [reflexivity|].
    apply memb_false in Mj. unfold rip_lab.
    rewrite (label_outside_r g q j Mj), (label_outside_r g i j Mj).
    destruct (label g i q); reflexivity.
  - apply memb_false in Mi. unfold rip_lab.
    rewrite (label_outside_l g i q Mi), (label_outside_l g i j Mi). reflexivity.
Qed.

Theorem rip_lang g q : q <> g_init g -> q <> g_final g -> L_gnfa (rip g q) =L L_gnfa g.
Proof.
  intros Hi Hf w. unfold L_gnfa. simpl.
  rewrite <- (rip_fn_paths (label g) q (g_init g) w (g_final g)) by congruence.
  split; apply lpath_ext; intros p r; [apply label_rip|symmetry; apply label_rip].
Qed.

Definition gnfa_ok (g : gnfa) : Prop :=
  In (g_init g) (g_states g) /\ In (g_final g) (g_states g) /\ g_init g <> g_final g /\
  (forall p, label g p (g_init g) = None) /\ (forall p, label g (g_final g) p = None).

Lemma is_none_true {A} (o : option A) : is_none o = true <-> o = None.
Proof. destruct o; simpl; split; congruence. Qed.

Lemma valid_gnfa_ok g : valid_gnfa g = true <-> gnfa_ok g.
Proof.
  unfold valid_gnfa, gnfa_ok. rewrite !andb_true_iff, !memb_In, negb_true_iff, Nat.eqb_neq, forallb_forall.
  split.
  - intros [[[H1 H2] H3] H4]. repeat split; try assumption.
    + intro p. destruct (in_dec Nat.eq_dec p (g_states g)) as [Hp|Hp]; [|apply label_outside_l; exact Hp].
      specialize (H4 p Hp). apply andb_true_iff in H4. apply is_none_true. apply H4.
    + intro p. destruct (in_dec Nat.eq_dec p (g_states g)) as [Hp|Hp]; [|apply label_outside_r; exact Hp].
      specialize (H4 p Hp). apply andb_true_iff in H4. apply is_none_true. apply H4.
  - intros (H1 & H2 & H3 & H4 & H5). repeat split; try assumption.
    intros p _. rewrite H4, H5. reflexivity.
Qed.

Lemma rip_ok g q : gnfa_ok g -> q <> g_init g -> q <> g_final g -> gnfa_ok (rip g q).
Proof.
  intros (H1 & H2 & H3 & H4 & H5) Hi Hf. unfold gnfa_ok.
  assert (Es : g_states (rip g q) = remove_nat q (g_states g)) by reflexivity.
  assert (Ei : g_init (rip g q) = g_init g) by reflexivity.
  assert (Ef : g_final (rip g q) = g_final g) by reflexivity.
  rewrite Es, Ei, Ef, !remove_nat_In. repeat split; try assumption; try congruence.
  - intro p. rewrite label_rip. unfold rip_fn.
    destruct (Nat.eqb p q || Nat.eqb (g_init g) q); [reflexivity|].
    unfold rip_lab. rewrite (H4 q), (H4 p). destruct (label g p q); reflexivity.
  - intro p. rewrite label_rip. unfold rip_fn.
    destruct (Nat.eqb (g_final g) q || Nat.eqb p q); [reflexivity|].
    unfold rip_lab. rewrite (H5 q), (H5 p). reflexivity.
Qed.

(* nothing but the initial and the final state left: the language is the one remaining label *)
Lemma two_state_lang g : gnfa_ok g ->
  (forall p, In p (g_states g) -> p = g_init g \/ p = g_final g) ->
  L_gnfa g =L rden (match label g (g_init g) (g_final g) with Some r => r | None => REmpty end).
Proof.
  intros (H1 & H2 & H3 & H4 & H5) Hst w. unfold L_gnfa. split.
  - intro H. inversion H as [p Hp Hw Hq|p m r s u v Hl Hu Hv Hp Hw Hr]; subst; [contradiction|].
    destruct (label_states _ _ _ _ Hl) as [_ Hm]. destruct (Hst m Hm) as [Em|Em]; subst m.
    + rewrite H4 in Hl. discriminate.
    + rewrite Hl. inversion Hv as [p Hp Hw Hq|p m r s' u' v' Hl' Hu' Hv' Hp Hw Hr]; subst.
      * rewrite app_nil_r. exact Hu.
      * rewrite H5 in Hl'. discriminate.
  - destruct (label g (g_init g) (g_final g)) as [r|] eqn:E; [|intros []].
    intro Hw. eapply lpath_one; [exact E|exact Hw].
Qed.

Lemma elim_g_init g order : g_init (elim_g g order) = g_init g /\ g_final (elim_g g order) = g_final g.
Proof. revert g. induction order as [|q r IH]; intro g; simpl; [split; reflexivity|]. apply (IH (rip g q)). Qed.

Theorem elim_lang order : forall g, gnfa_ok g ->
  ~ In (g_init g) order -> ~ In (g_final g) order ->
  (forall p, In p (g_states g) -> p = g_init g \/ p = g_final g \/ In p order) ->
  rden (elim g order) =L L_gnfa g.
Proof.
  induction order as [|q r IH]; intros g Hok Hi Hf Hcov.
  - unfold elim. simpl. apply lang_eq_sym. apply two_state_lang; [exact Hok|].
    intros p Hp. destruct (Hcov p Hp) as [H|[H|[]]]; auto.
  - assert (Hqi : q <> g_init g) by (intro E; apply Hi; left; exact E).
    assert (Hqf : q <> g_final g) by (intro E; apply Hf; left; exact E).
    change (elim g (q :: r)) with (elim (rip g q) r).
    eapply lang_eq_trans; [|apply (rip_lang g q Hqi Hqf)].
    apply IH.
    + apply rip_ok; assumption.
    + simpl. intro H. apply Hi. right. exact H.
    + simpl. intro H. apply Hf. right. exact H.
    + intros p Hp. simpl in Hp. apply remove_nat_In in Hp. destruct Hp as [Hp Hne].
      destruct (Hcov p Hp) as [H|[H|[H|H]]]; auto. congruence.
Qed.

(* ---------- the GNFA of a finite automaton ---------- *)
Lemma fresh_gt l x : In x l -> x < fresh l.
Proof.
  unfold fresh. induction l as [|y l IH]; simpl; [intros []|].
  intros [E|H]; [subst; lia|]. specialize (IH H). lia.
Qed.

Lemma unions_spec l u :
  (exists s, unions l = Some s /\ rden s u) <-> (exists r, In r l /\ rden r u).
Proof.
  destruct l as [|r t]; simpl.
  - split; [intros (s & E & _); discriminate|intros (r & [] & _)].
  - assert (H : forall t r, rden (fold_left RUnion t r) u <-> rden r u \/ exists x, In x t /\ rden x u).
    { clear. induction t as [|y t IH]; intro r; simpl.
      - split; [auto|intros [H|(x & [] & _)]; exact H].
      - rewrite IH. simpl. unfold l_union. split.
        + intros [[H|H]|(x & Hx & Hu)]; eauto.
        + intros [H|(x & [E|Hx] & Hu)]; subst; eauto. }
    split.
    + intros (s & E & Hs). inversion E; subst s. apply H in Hs.
      destruct Hs as [Hs|(x & Hx & Hu)]; eauto.
    + intros (x & [E|Hx] & Hu); eexists; (split; [reflexivity|]); apply H; subst; eauto.
Qed.

Section FAGnfa.
  Variables (sts : list nat) (q0 : nat) (finals : list nat) (lab : nat -> nat -> option rex).
  Let G := fa_gnfa sts q0 finals lab.
  Let i := fresh sts.
  Let f := S i.

  Lemma fa_i_notin : ~ In i sts.
  Proof. intro H. apply fresh_gt in H. unfold i in H. lia. Qed.
  Lemma fa_f_notin : ~ In f sts.
  Proof. intro H. apply fresh_gt in H. unfold f, i in H. lia. Qed.

  Lemma fa_label p q :
    label G p q =
    if memb p (i :: f :: sts) && memb q (i :: f :: sts) then
      if Nat.eqb p i then (if Nat.eqb q q0 then Some REps else None)
      else if Nat.eqb p f then None
      else if Nat.eqb q i then None
      else if Nat.eqb q f then (if memb p finals then Some REps else None)
      else lab p q
    else None.
  Proof. unfold G, fa_gnfa. fold i. fold f. rewrite label_tabulate. reflexivity. Qed.

  Lemma memb_all p : In p sts -> memb p (i :: f :: sts) = true.
  Proof. intro H. apply memb_In. right. right. exact H. Qed.

  Lemma inner_ne p : In p sts -> Nat.eqb p i = false /\ Nat.eqb p f = false.
  Proof.
    intro H. split; apply Nat.eqb_neq; intro E; subst p; [apply fa_i_notin|apply fa_f_notin]; exact H.
  Qed.

  Lemma fa_label_inner p q : In p sts -> In q sts -> label G p q = lab p q.
  Proof.
    intros Hp Hq. rewrite fa_label, (memb_all p Hp), (memb_all q Hq). simpl.
    destruct (inner_ne p Hp) as [-> ->]. destruct (inner_ne q Hq) as [-> ->]. reflexivity.
  Qed.

  Lemma fa_label_to_final p : In p sts -> label G p f = if memb p finals then Some REps else None.
  Proof.
    intro Hp. rewrite fa_label, (memb_all p Hp). destruct (inner_ne p Hp) as [-> ->].
    assert (memb f (i :: f :: sts) = true) as -> by (apply memb_In; right; left; reflexivity).
    assert (Nat.eqb f i = false) as -> by (apply Nat.eqb_neq; unfold f; lia).
    rewrite Nat.eqb_refl. reflexivity.
  Qed.

  Lemma fa_label_from_init q s : label G i q = Some s -> q = q0 /\ s = REps.
  Proof.
    rewrite fa_label. destruct (memb i (i :: f :: sts) && memb q (i :: f :: sts)); [|discriminate].
    rewrite Nat.eqb_refl. destruct (Nat.eqb q q0) eqn:E; [|discriminate].
    apply Nat.eqb_eq in E. intro H. inversion H. auto.
  Qed.

  Lemma fa_label_init_q0 : In q0 sts -> label G i q0 = Some REps.
  Proof.
    intro H. rewrite fa_label, (memb_all q0 H).
    assert (memb i (i :: f :: sts) = true) as -> by (apply memb_In; left; reflexivity).
    simpl. rewrite !Nat.eqb_refl. reflexivity.
  Qed.

  Hypothesis Hq0 : In q0 sts.

  Lemma fa_label_into_init p : label G p i = None.
  Proof.
    rewrite fa_label. destruct (memb p (i :: f :: sts) && memb i (i :: f :: sts)); [|reflexivity].
    destruct (Nat.eqb p i) eqn:E1.
    - destruct (Nat.eqb i q0) eqn:E2; [|reflexivity]. apply Nat.eqb_eq in E2.
      exfalso. apply fa_i_notin. rewrite E2. exact Hq0.
    - rewrite Nat.eqb_refl. destruct (Nat.eqb p f); reflexivity.
  Qed.

  Lemma fa_label_from_final p : label G f p = None.
  Proof.
    rewrite fa_label. destruct (memb f (i :: f :: sts) && memb p (i :: f :: sts)); [|reflexivity].
    assert (Nat.eqb f i = false) as -> by (apply Nat.eqb_neq; unfold f; lia).
    rewrite Nat.eqb_refl. reflexivity.
  Qed.

  Lemma fa_gnfa_ok : gnfa_ok G.
  Proof.
    unfold gnfa_ok. change (g_init G) with i. change (g_final G) with f.
    change (g_states G) with (i :: f :: sts). repeat split.
    - left. reflexivity.
    - right. left. reflexivity.
    - unfold f. lia.
    - apply fa_label_into_init.
    - apply fa_label_from_final.
  Qed.

  (* the language is read from the old initial state *)
  Lemma fa_lang_from_q0 w : L_gnfa G w <-> lpath (label G) q0 w f.
  Proof.
    unfold L_gnfa. change (g_init G) with i. change (g_final G) with f. split.
    - intro H. destruct (lpath_inv _ _ _ _ H) as [[E _]|(m & s & u & v & Hl & Hu & Hv & ->)].
      + exfalso. unfold f in E. lia.
      + destruct (fa_label_from_init _ _ Hl) as [-> ->]. simpl in Hu. unfold l_eps in Hu. subst u. exact Hv.
    - intro H. apply (lp_step (label G) i q0 f REps [] w); [apply fa_label_init_q0; exact Hq0|reflexivity|exact H].
  Qed.

  Lemma fa_path_final p : In p sts -> In p finals -> lpath (label G) p [] f.
  Proof.
    intros Hp Hf. apply (lpath_one (label G) p f REps []); [|reflexivity].
    rewrite (fa_label_to_final p Hp). apply memb_In in Hf. rewrite Hf. reflexivity.
  Qed.

  Lemma fa_path_step p m s u v : In p sts -> In m sts -> lab p m = Some s -> rden s u ->
    lpath (label G) m v f -> lpath (label G) p (u ++ v) f.
  Proof.
    intros Hp Hm Hl Hu Hv. eapply lp_step; [|exact Hu|exact Hv]. rewrite fa_label_inner; assumption.
  Qed.

  (* induction principle for paths from an inner state to the final state *)
  Lemma fa_path_ind (P : nat -> word -> Prop) :
    (forall p, In p sts -> In p finals -> P p []) ->
    (forall p m s u v, In p sts -> In m sts -> lab p m = Some s -> rden s u ->
        lpath (label G) m v f -> P m v -> P p (u ++ v)) ->
    forall p w, In p sts -> lpath (label G) p w f -> P p w.
  Proof.
    intros Hfin Hstep p w Hp H. remember f as r eqn:Er. revert Hp.
    induction H as [p|p m r s u v Hl Hu Hv IH]; intro Hp.
    - subst p. exfalso. apply fa_f_notin. exact Hp.
    - subst r. destruct (label_states _ _ _ _ Hl) as [_ Hm]. change (g_states G) with (i :: f :: sts) in Hm.
      destruct Hm as [Em|[Em|Hm]].
      + subst m. rewrite fa_label_into_init in Hl. discriminate.
      + subst m. rewrite (fa_label_to_final p Hp) in Hl.
        destruct (memb p finals) eqn:Ef; [|discriminate]. inversion Hl; subst s.
        simpl in Hu. unfold l_eps in Hu. subst u.
        destruct (lpath_inv _ _ _ _ Hv) as [[_ ->]|(m' & s' & u' & v' & Hl' & _)].
        * simpl. apply Hfin; [exact Hp|apply memb_In; exact Ef].
        * rewrite fa_label_from_final in Hl'. discriminate.
      + rewrite (fa_label_inner p m Hp Hm) in Hl.
        apply (Hstep p m s u v Hp Hm Hl Hu Hv). apply IH; [reflexivity|exact Hstep|exact Hm].
  Qed.
End FAGnfa.

(* ---------- GNFA.from_dfa ---------- *)
Section OfDFA.
  Variable d : dfa.
  Hypothesis Hv : valid_dfa d = true.

  Lemma dfa_lab_spec p m u :
    (exists s, dfa_lab d p m = Some s /\ rden s u) <-> (exists a, u = [a] /\ d_delta d p a = Some m).
  Proof.
    unfold dfa_lab, d_delta. destruct (d_row d p) as [row|].
    - rewrite unions_spec. split.
      + intros (r & Hr & Hu). apply in_flat_map in Hr. destruct Hr as (e & He & Hr).
        destruct (eqb_opt Nat.eqb (assoc (fst e) row) (Some m)) eqn:E; [|destruct Hr].
        destruct Hr as [Hr|[]]. subst r. simpl in Hu.
        apply (eqb_opt_ok _ eqb_nat_ok) in E. exists (fst e). split; assumption.
      + intros (a & -> & Ha). exists (RSym a). split; [|reflexivity].
        apply in_flat_map. exists (a, m). split; [apply assoc_In; exact Ha|]. simpl. rewrite Ha.
        simpl. rewrite Nat.eqb_refl. left. reflexivity.
    - split; [intros (s & E & _); discriminate|intros (a & _ & E); discriminate].
  Qed.

  Lemma dfa_inner_lang : forall w p, In p (d_states d) ->
    (lpath (label (gnfa_of_dfa d)) p w (S (fresh (d_states d))) <-> dfa_acc_from d (Some p) w = true).
  Proof.
    destruct (valid_dfa_parts d Hv) as (_ & _ & _ & _ & _ & Hinit & Hfin).
    intros w p Hp. split.
    - revert p w Hp. apply (fa_path_ind (d_states d) (d_init d) (d_finals d) (dfa_lab d) Hinit
        (fun p w => dfa_acc_from d (Some p) w = true)).
      + intros p Hp Hf. unfold dfa_acc_from. simpl. apply memb_In. exact Hf.
      + intros p m s u v Hp Hm Hl Hu _ IH.
        destruct (proj1 (dfa_lab_spec p m u) (ex_intro _ s (conj Hl Hu))) as (a & -> & Ha).
        unfold dfa_acc_from in *. simpl. rewrite Ha. exact IH.
    - revert p Hp. induction w as [|a v IH]; intros p Hp H.
      + apply fa_path_final; [exact Hp|]. unfold dfa_acc_from in H. simpl in H. apply memb_In. exact H.
      + unfold dfa_acc_from in H. simpl in H. destruct (d_delta d p a) as [m|] eqn:Ea.
        * destruct (delta_in_states d Hv _ _ _ Ea) as [Hm _].
          destruct (proj2 (dfa_lab_spec p m [a]) (ex_intro _ a (conj eq_refl Ea))) as (s & Hl & Hu).
          change (a :: v) with ([a] ++ v).
          apply (fa_path_step _ _ _ _ p m s [a] v Hp Hm Hl Hu). apply IH; [exact Hm|exact H].
        * rewrite dfa_run_None in H. discriminate.
  Qed.

  Theorem gnfa_of_dfa_lang : L_gnfa (gnfa_of_dfa d) =L L_dfa d.
  Proof.
    destruct (valid_dfa_parts d Hv) as (_ & _ & _ & _ & _ & Hinit & _).
    intro w. unfold gnfa_of_dfa. rewrite (fa_lang_from_q0 _ _ _ _ Hinit).
    apply (dfa_inner_lang w (d_init d) Hinit).
  Qed.

  Lemma gnfa_of_dfa_ok : gnfa_ok (gnfa_of_dfa d).
  Proof.
    destruct (valid_dfa_parts d Hv) as (_ & _ & _ & _ & _ & Hinit & _).
    apply fa_gnfa_ok. exact Hinit.
  Qed.
End OfDFA.

(* ---------- GNFA.from_nfa ---------- *)
Definition oword (o : option nat) : word := match o with None => [] | Some a => [a] end.

Section OfNFA.
  Variable n : nfa.
  Hypothesis Hv : valid_nfa n = true.

  Lemma rden_osym o u : rden (osym_rex o) u <-> u = oword o.
  Proof. destruct o; simpl; unfold l_eps; tauto. Qed.

  Lemma nfa_lab_spec p m u :
    (exists s, nfa_lab n p m = Some s /\ rden s u) <-> (exists o, n_edge n p o m /\ u = oword o).
  Proof.
    unfold nfa_lab, n_edge. destruct (assoc p (n_trans n)) as [row|] eqn:Er.
    - rewrite unions_spec. split.
      + intros (r & Hr & Hu). apply in_flat_map in Hr. destruct Hr as (e & He & Hr).
        destruct (memb m (n_targets n p (fst e))) eqn:E; [|destruct Hr].
        destruct Hr as [Hr|[]]. subst r. apply rden_osym in Hu.
        exists (fst e). split; [apply memb_In; exact E|exact Hu].
      + intros (o & Ho & ->). exists (osym_rex o). split; [|apply rden_osym; reflexivity].
        apply in_flat_map.
        assert (Hk : exists l, In (o, l) row).
        { unfold n_targets in Ho. rewrite Er in Ho. destruct (oassoc o row) as [l|] eqn:E; [|destruct Ho].
          exists l. apply oassoc_In. exact E. }
        destruct Hk as [l Hl]. exists (o, l). split; [exact Hl|]. simpl.
        apply memb_In in Ho. rewrite Ho. left. reflexivity.
    - split; [intros (s & E & _); discriminate|].
      intros (o & Ho & _). unfold n_targets in Ho. rewrite Er in Ho. destruct Ho.
  Qed.

  Lemma nfa_inner_lang : forall w p, In p (n_states n) ->
    (lpath (label (gnfa_of_nfa n)) p w (S (fresh (n_states n))) <->
     exists t, nfa_path n p w t /\ In t (n_finals n)).
  Proof.
    destruct (valid_nfa_parts n Hv) as (_ & _ & Hinit & Hfin).
    intros w p Hp. split.
    - revert p w Hp. apply (fa_path_ind (n_states n) (n_init n) (n_finals n) (nfa_lab n) Hinit
        (fun p w => exists t, nfa_path n p w t /\ In t (n_finals n))).
      + intros p Hp Hf. exists p. split; [apply np_refl|exact Hf].
      + intros p m s u v Hp Hm Hl Hu _ (t & Ht & Hf).
        destruct (proj1 (nfa_lab_spec p m u) (ex_intro _ s (conj Hl Hu))) as (o & Ho & ->).
        exists t. split; [|exact Hf]. destruct o as [a|]; simpl.
        * eapply np_sym; [exact Ho|exact Ht].
        * eapply np_eps; [exact Ho|exact Ht].
    - intros (t & Ht & Hf). revert Hp.
      induction Ht as [q|p q r w He Hp' IH|p a q r w He Hp' IH]; intro Hp.
      + apply fa_path_final; [exact Hp|exact Hf].
      + assert (Hq : In q (n_states n)) by (apply (targets_in_states n Hv p None q); exact He).
        destruct (proj2 (nfa_lab_spec p q []) (ex_intro _ None (conj He eq_refl))) as (s & Hl & Hu).
        change w with ([] ++ w). apply (fa_path_step _ _ _ _ p q s [] w Hp Hq Hl Hu). apply IH; assumption.
      + assert (Hq : In q (n_states n)) by (apply (targets_in_states n Hv p (Some a) q); exact He).
        destruct (proj2 (nfa_lab_spec p q [a]) (ex_intro _ (Some a) (conj He eq_refl))) as (s & Hl & Hu).
        change (a :: w) with ([a] ++ w). apply (fa_path_step _ _ _ _ p q s [a] w Hp Hq Hl Hu). apply IH; assumption.
  Qed.

  Theorem gnfa_of_nfa_lang : L_gnfa (gnfa_of_nfa n) =L L_nfa n.
  Proof.
    destruct (valid_nfa_parts n Hv) as (_ & _ & Hinit & _).
    intro w. unfold gnfa_of_nfa. rewrite (fa_lang_from_q0 _ _ _ _ Hinit).
    apply (nfa_inner_lang w (n_init n) Hinit).
  Qed.

  Lemma gnfa_of_nfa_ok : gnfa_ok (gnfa_of_nfa n).
  Proof.
    destruct (valid_nfa_parts n Hv) as (_ & _ & Hinit & _).
    apply fa_gnfa_ok. exact Hinit.
  Qed.
End OfNFA.

(* ---------- end to end: source automaton -> expression ---------- *)
Lemma fa_elim_lang sts q0 finals lab order : In q0 sts ->
  (forall p, In p order <-> In p sts) ->
  rden (elim (fa_gnfa sts q0 finals lab) order) =L L_gnfa (fa_gnfa sts q0 finals lab).
Proof.
  intros Hq0 Hord. apply elim_lang.
  - apply fa_gnfa_ok. exact Hq0.
  - simpl. intro H. apply Hord in H. revert H. apply fa_i_notin.
  - simpl. intro H. apply Hord in H. revert H. apply fa_f_notin.
  - simpl. intros p [E|[E|H]]; auto. right. right. apply Hord. exact H.
Qed.

Theorem dfa_regex_lang d order : valid_dfa d = true -> (forall p, In p order <-> In p (d_states d)) ->
  rden (dfa_regex d order) =L L_dfa d.
Proof.
  intros Hv Hord. destruct (valid_dfa_parts d Hv) as (_ & _ & _ & _ & _ & Hinit & _).
  eapply lang_eq_trans; [apply fa_elim_lang; assumption|apply gnfa_of_dfa_lang; exact Hv].
Qed.

Theorem nfa_regex_lang n order : valid_nfa n = true -> (forall p, In p order <-> In p (n_states n)) ->
  rden (nfa_regex n order) =L L_nfa n.
Proof.
  intros Hv Hord. destruct (valid_nfa_parts n Hv) as (_ & _ & Hinit & _).
  eapply lang_eq_trans; [apply fa_elim_lang; assumption|apply gnfa_of_nfa_lang; exact Hv].
Qed.

(* ---------- the derivative matcher decides the denotation ---------- *)
Lemma nullable_spec r : nullable r = true <-> rden r [].
Proof.
  induction r as [| |a|r IHr s IHs|r IHr s IHs|r IHr]; simpl.
  - split; [discriminate|intros []].
  - unfold l_eps. tauto.
  - split; [discriminate|intro H; discriminate].
  - rewrite orb_true_iff, IHr, IHs. unfold l_union. tauto.
  - rewrite andb_true_iff, IHr, IHs. split.
    + intros [H1 H2]. exists [], []. repeat split; assumption.
    + intros (u & v & E & Hu & Hv). symmetry in E. apply app_eq_nil in E. destruct E; subst. tauto.
  - split; [intros _; apply star_nil|reflexivity].
Qed.

Lemma s_union_den r s w : rden (s_union r s) w <-> rden r w \/ rden s w.
Proof.
  destruct r; destruct s; simpl; unfold l_union, l_empty; tauto.
Qed.

Lemma s_cat_den r s w : rden (s_cat r s) w <-> l_cat (rden r) (rden s) w.
Proof.
  assert (Hl : forall A : lang, l_cat l_eps A w <-> A w).
  { intro A. split; [intros (u & v & -> & -> & H); exact H|intro H; exists [], w; repeat split; exact H]. }
  assert (Hr : forall A : lang, l_cat A l_eps w <-> A w).
  { intro A. split; [intros (u & v & -> & H & ->); rewrite app_nil_r; exact H|].
    intro H. exists w, []. rewrite app_nil_r. repeat split; exact H. }
  assert (He1 : forall A : lang, l_cat l_empty A w <-> False).
  { intro A. split; [intros (u & v & _ & [] & _)|intros []]. }
  assert (He2 : forall A : lang, l_cat A l_empty w <-> False).
  { intro A. split; [intros (u & v & _ & _ & [])|intros []]. }
  destruct r; destruct s; simpl;
    repeat match goal with
    | |- context [l_cat l_empty ?A w] => rewrite (He1 A)
    | |- context [l_cat ?A l_empty w] => rewrite (He2 A)
    end;
    try rewrite Hl; try rewrite Hr; unfold l_empty, l_eps; try tauto; try reflexivity.
Qed.

Lemma star_cons_inv (A : lang) a w : l_star A (a :: w) ->
  exists u v, w = u ++ v /\ A (a :: u) /\ l_star A v.
Proof.
  intro H. remember (a :: w) as x eqn:Ex. revert a w Ex.
  induction H as [|u v Hu Hv IH]; intros a w Ex; [discriminate|].
  destruct u as [|b u]; simpl in Ex.
  - apply IH. exact Ex.
  - inversion Ex; subst. exists u, v. repeat split; assumption.
Qed.

Lemma deriv_spec a r : forall w, rden (deriv a r) w <-> rden r (a :: w).
Proof.
  induction r as [| |b|r IHr s IHs|r IHr s IHs|r IHr]; intro w; simpl.
  - tauto.
  - unfold l_empty, l_eps. split; [intros []|discriminate].
  - destruct (Nat.eqb a b) eqn:E; simpl.
    + apply Nat.eqb_eq in E. subst b. unfold l_eps. split; [intros ->; reflexivity|intro H; inversion H; reflexivity].
    + apply Nat.eqb_neq in E. unfold l_empty. split; [intros []|intro H; inversion H; congruence].
  - rewrite s_union_den, IHr, IHs. unfold l_union. tauto.
  - assert (Hc : l_cat (rden (deriv a r)) (rden s) w <-> exists u v, w = u ++ v /\ rden r (a :: u) /\ rden s v).
    { split; intros (u & v & E & Hu & Hs); exists u, v; (split; [exact E|]); (split; [apply IHr; exact Hu|exact Hs]). }
    destruct (nullable r) eqn:En.
    + rewrite s_union_den, s_cat_den, Hc, IHs. apply nullable_spec in En. split.
      * intros [(u & v & -> & Hu & Hs)|Hs].
        -- exists (a :: u), v. repeat split; assumption.
        -- exists [], (a :: w). repeat split; assumption.
      * intros (u & v & E & Hu & Hs). destruct u as [|b u]; simpl in E.
        -- subst v. right. exact Hs.
        -- inversion E; subst. left. exists u, v. repeat split; assumption.
    + rewrite s_cat_den, Hc. split.
      * intros (u & v & -> & Hu & Hs). exists (a :: u), v. repeat split; assumption.
      * intros (u & v & E & Hu & Hs). destruct u as [|b u]; simpl in E.
        -- exfalso. apply nullable_spec in Hu. congruence.
        -- inversion E; subst. exists u, v. repeat split; assumption.
  - rewrite s_cat_den. split.
    + intros (u & v & -> & Hu & Hs). apply IHr in Hu. change (a :: u ++ v) with ((a :: u) ++ v).
      apply star_app; assumption.
    + intro H. destruct (star_cons_inv _ _ _ H) as (u & v & -> & Hu & Hs).
      exists u, v. repeat split; [apply IHr; exact Hu|exact Hs].
Qed.

Theorem rmatch_spec : forall w r, rmatch r w = true <-> rden r w.
Proof.
  unfold rmatch. induction w as [|a w IH]; intro r; simpl.
  - apply nullable_spec.
  - rewrite IH. apply deriv_spec.
Qed.

Lemma words_len_spec syms k w : In w (words_len syms k) <-> Forall (fun a => In a syms) w /\ length w = k.
Proof.
  revert w. induction k as [|k IH]; intro w; simpl.
  - split.
    + intros [<-|[]]. split; [constructor|reflexivity].
    + intros [_ H]. destruct w; [left; reflexivity|discriminate].
  - rewrite in_flat_map. split.
    + intros (a & Ha & Hw). apply in_map_iff in Hw. destruct Hw as (v & <- & Hv). apply IH in Hv.
      destruct Hv as [Hv1 Hv2]. split; [constructor; assumption|simpl; congruence].
    + intros [Hf Hl]. destruct w as [|a v]; [discriminate|]. inversion Hf; subst.
      exists a. split; [assumption|]. apply in_map. apply IH. split; [assumption|]. simpl in Hl. congruence.
Qed.

Lemma words_upto_spec syms k w : In w (words_upto syms k) <-> Forall (fun a => In a syms) w /\ length w <= k.
Proof.
  induction k as [|k IH].
  - change (words_upto syms 0) with (words_len syms 0). rewrite words_len_spec. intuition lia.
  - change (words_upto syms (S k)) with (words_upto syms k ++ words_len syms (S k)).
    rewrite in_app_iff, IH, words_len_spec. split.
    + intros [[H1 H2]|[H1 H2]]; (split; [exact H1|lia]).
    + intros [H1 H2]. destruct (Nat.eq_dec (length w) (S k)) as [E|E]; [right|left]; (split; [exact H1|lia]).
Qed.

(* the bounded cross check of the driver is exact on its scope *)
Theorem rex_diff_upto_spec r acc syms k :
  (rex_diff_upto r acc syms k = None <->
   forall w, Forall (fun a => In a syms) w -> length w <= k -> (rden r w <-> acc w = true)) /\
  (forall w, rex_diff_upto r acc syms k = Some w -> ~ (rden r w <-> acc w = true)).
Proof.
  unfold rex_diff_upto. split.
  - split.
    + intros H w Hw Hk. pose proof (find_none _ _ H w) as Hn.
      rewrite <- rmatch_spec. specialize (Hn (proj2 (words_upto_spec syms k w) (conj Hw Hk))).
      simpl in Hn. destruct (rmatch r w), (acc w); simpl in Hn; try discriminate; tauto.
    + intro H. destruct (find _ _) as [w|] eqn:E; [|reflexivity]. exfalso.
      apply find_some in E. destruct E as [Hin Hx]. apply words_upto_spec in Hin. destruct Hin as [Hw Hk].
      specialize (H w Hw Hk). rewrite <- rmatch_spec in H.
      destruct (rmatch r w), (acc w); simpl in Hx; try discriminate; destruct H as [H1 H2]; auto; discriminate (H2 eq_refl) || discriminate (H1 eq_refl).
  - intros w E. apply find_some in E. destruct E as [_ Hx]. rewrite <- rmatch_spec.
    destruct (rmatch r w), (acc w); simpl in Hx; try discriminate; intros [H1 H2]; auto; discriminate (H2 eq_refl) || discriminate (H1 eq_refl).
Qed.
