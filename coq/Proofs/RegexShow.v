(* Character-level printing of regular expressions: a decimal printer of repetition bounds,
   a printer of tokens, and the round trip  parse (show r) = r  on CHARACTER strings (the
   token-level round trip is parse_print / redundant_parens_any). *)
From Coq Require Import List Arith Bool Lia.
From AV Require Import Base.Util Spec.Regex Model.RegexLex Model.RegexParse
                       Proofs.RegexParse Proofs.RegexGrammar.
Import ListNotations.

(* ================================================================== *)
(* decimal digits (codes 16..25 = '0'..'9'), most significant first    *)
(* ================================================================== *)

Fixpoint show_aux (fuel n : nat) (acc : list nat) : list nat :=
  match fuel with
  | 0 => acc
  | S f => let acc' := (16 + Nat.modulo n 10) :: acc in
           if Nat.eqb (Nat.div n 10) 0 then acc' else show_aux f (Nat.div n 10) acc'
  end.

Definition show_nat (n : nat) : list nat := show_aux (S n) n [].

Definition dstep (acc c : nat) : nat := acc * 10 + (c - 16).

Lemma ten_nz : 10 <> 0. Proof. discriminate. Qed.

Lemma show_aux_value : forall fuel n acc, n < fuel ->
  fold_left dstep (show_aux fuel n acc) 0 = fold_left dstep acc n.
Proof.
  induction fuel as [|f IH]; intros n acc H; [lia|]. cbn [show_aux].
  pose proof (Nat.div_mod n 10 ten_nz) as Hdm.
  destruct (Nat.eqb (n / 10) 0) eqn:E.
  - apply Nat.eqb_eq in E. cbn [fold_left]. f_equal. unfold dstep. lia.
  - apply Nat.eqb_neq in E. rewrite IH.
    + cbn [fold_left]. f_equal. unfold dstep. lia.
    + assert (n / 10 < n); [|lia]. apply Nat.div_lt; lia.
Qed.

Lemma digit_code : forall n, is_digit (16 + n mod 10) = true.
Proof.
  intro n. pose proof (Nat.mod_upper_bound n 10 ten_nz) as H. unfold is_digit.
  apply andb_true_iff. split; apply Nat.leb_le; lia.
Qed.

Lemma show_aux_digits : forall fuel n acc,
  forallb is_digit acc = true -> forallb is_digit (show_aux fuel n acc) = true.
Proof.
  induction fuel as [|f IH]; intros n acc H; [exact H|]. cbn [show_aux].
  assert (H' : forallb is_digit ((16 + n mod 10) :: acc) = true).
  { cbn [forallb]. rewrite digit_code, H. reflexivity. }
  destruct (Nat.eqb (n / 10) 0); [exact H'|apply IH; exact H'].
Qed.

Lemma show_aux_nonempty : forall fuel n acc, acc <> [] -> show_aux fuel n acc <> [].
Proof.
  induction fuel as [|f IH]; intros n acc H; [exact H|]. cbn [show_aux].
  destruct (Nat.eqb (n / 10) 0); [discriminate|apply IH; discriminate].
Qed.

Lemma show_nat_digits : forall n, forallb is_digit (show_nat n) = true.
Proof. intro n. apply show_aux_digits. reflexivity. Qed.

Lemma show_nat_nonempty : forall n, show_nat n <> [].
Proof.
  intro n. unfold show_nat. cbn [show_aux].
  destruct (Nat.eqb (n / 10) 0); [discriminate|apply show_aux_nonempty; discriminate].
Qed.

Lemma show_nat_value : forall n, digits_value (show_nat n) = n.
Proof. intro n. unfold digits_value, show_nat. apply (show_aux_value (S n) n []). lia. Qed.

Lemma digit_not_space : forall c, is_digit c = true -> is_space c = false.
Proof.
  intros c H. unfold is_digit in H. apply andb_true_iff in H. destruct H as [H1 H2].
  apply Nat.leb_le in H1. unfold is_space, is_blank.
  apply orb_false_iff. split; [apply Nat.ltb_ge; lia|apply Nat.eqb_neq; lia].
Qed.

Lemma lstrip_digits : forall s, forallb is_digit s = true -> lstrip s = s.
Proof.
  intros [|c s] H; [reflexivity|]. simpl in H. apply andb_true_iff in H. destruct H as [Hc _].
  simpl. rewrite (digit_not_space c Hc). reflexivity.
Qed.

Lemma forallb_rev : forall (f : nat -> bool) s, forallb f s = true -> forallb f (rev s) = true.
Proof.
  intros f s H. apply forallb_forall. intros x Hx. apply in_rev in Hx.
  rewrite forallb_forall in H. apply H. exact Hx.
Qed.

Lemma strip_digits : forall s, forallb is_digit s = true -> strip s = s.
Proof.
  intros s H. unfold strip. rewrite (lstrip_digits s H).
  rewrite (lstrip_digits (rev s) (forallb_rev _ _ H)). apply rev_involutive.
Qed.

(* int(str(n)) = n *)
Theorem parse_int_show : forall n, parse_int (show_nat n) = Ok n.
Proof.
  intro n. unfold parse_int. rewrite (strip_digits _ (show_nat_digits n)).
  destruct (show_nat n) as [|c s] eqn:E; [exfalso; exact (show_nat_nonempty n E)|].
  rewrite <- E. rewrite show_nat_digits, show_nat_value. reflexivity.
Qed.

Lemma parse_bound_show : forall n, parse_bound (show_nat n) = Ok (Some n).
Proof.
  intro n. unfold parse_bound. rewrite (strip_digits _ (show_nat_digits n)).
  destruct (show_nat n) as [|c s] eqn:E; [exfalso; exact (show_nat_nonempty n E)|].
  rewrite <- E. rewrite parse_int_show. reflexivity.
Qed.

(* ================================================================== *)
(* the quantifier text "{lo,hi}" / "{lo,}"                             *)
(* ================================================================== *)

Definition show_bound (hi : option nat) : list nat :=
  match hi with Some h => show_nat h | None => [] end.

Definition show_quant (lo : nat) (hi : option nat) : list nat :=
  11 :: show_nat lo ++ 13 :: show_bound hi ++ [12].

Lemma mk_quant_show : forall lo hi, le_opt lo hi ->
  mk_quant (show_nat lo) (show_bound hi) = Ok (TQuant lo hi).
Proof.
  intros lo hi H. unfold mk_quant. rewrite parse_bound_show. simpl bind.
  destruct hi as [h|]; simpl show_bound.
  - rewrite parse_bound_show. simpl. simpl in H.
    destruct (Nat.ltb h lo) eqn:E; [apply Nat.ltb_lt in E; lia|reflexivity].
  - reflexivity.
Qed.

Lemma digits_above : forall s c, forallb is_digit s = true -> In c s -> 16 <= c.
Proof.
  intros s c H Hc. rewrite forallb_forall in H. specialize (H c Hc). unfold is_digit in H.
  apply andb_true_iff in H. destruct H as [H _]. apply Nat.leb_le in H. exact H.
Qed.

Theorem clean_show_quant : forall lo hi, le_opt lo hi -> clean (show_quant lo hi) [TQuant lo hi].
Proof.
  intros lo hi H. unfold show_quant. apply clean_quant.
  - intros c Hc. pose proof (digits_above _ c (show_nat_digits lo) Hc). lia.
  - intros c Hc. destruct hi as [h|]; [|contradiction].
    pose proof (digits_above _ c (show_nat_digits h) Hc). lia.
  - apply mk_quant_show. exact H.
Qed.

Lemma clean_lex : forall u ts, clean u ts -> lex u = Ok ts.
Proof.
  intros u ts H. specialize (H []). rewrite app_nil_r in H. rewrite H. simpl.
  rewrite app_nil_r. reflexivity.
Qed.

Theorem lex_show_quant : forall lo hi, le_opt lo hi -> lex (show_quant lo hi) = Ok [TQuant lo hi].
Proof. intros lo hi H. apply clean_lex. apply clean_show_quant. exact H. Qed.
Print Assumptions lex_show_quant.

(* ================================================================== *)
(* tokens                                                              *)
(* ================================================================== *)

Definition show_tok (t : token) : list nat :=
  match t with
  | TSym a => [a] | TAny => [10]
  | TUnion => [4] | TInter => [5] | TShuffle => [6]
  | TStar => [7] | TPlus => [8] | TOpt => [9]
  | TQuant lo hi => show_quant lo hi
  | TLParen => [2] | TRParen => [3]
  | TConcat | TEmpty => []
  end.

(* a symbol is any non-reserved character that is not whitespace (codes 13, 16, 17, ...);
   a quantifier needs lo <= hi (otherwise the lexer raises InvalidRegexError); the inserted
   tokens have no text *)
Definition sym_printable (a : nat) : Prop := 13 <= a /\ a <> 14 /\ a <> 15.

Definition printable (t : token) : Prop :=
  match t with
  | TSym a => sym_printable a
  | TQuant lo hi => le_opt lo hi
  | TConcat | TEmpty => False
  | _ => True
  end.

Lemma clean_show_sym : forall a, sym_printable a -> clean [a] [TSym a].
Proof.
  intros a [H1 [H2 H3]]. apply clean_sym.
  - do 13 (destruct a as [|a]; [lia|]). reflexivity.
  - lia.
  - unfold is_blank. apply Nat.ltb_ge. lia.
  - unfold is_ws. apply orb_false_iff. split; apply Nat.eqb_neq; assumption.
Qed.

Lemma clean_show_tok : forall t, printable t -> clean (show_tok t) [t].
Proof.
  intros t H. destruct t; simpl in H; try contradiction; simpl show_tok;
    try (apply clean_single; reflexivity).
  - apply clean_show_sym. exact H.
  - apply clean_show_quant. exact H.
Qed.

Definition show_toks (ts : list token) : list nat := flat_map show_tok ts.

Lemma clean_show_toks : forall ts, Forall printable ts -> clean (show_toks ts) ts.
Proof.
  induction ts as [|t ts IH]; intro H; [apply clean_nil|].
  inversion H as [|? ? Ht Hts]; subst. simpl show_toks.
  apply (clean_app (show_tok t) [t] (show_toks ts) ts); [apply clean_show_tok; exact Ht|apply IH; exact Hts].
Qed.

Theorem lex_show_toks : forall ts, Forall printable ts -> lex (show_toks ts) = Ok ts.
Proof. intros ts H. apply clean_lex. apply clean_show_toks. exact H. Qed.
Print Assumptions lex_show_toks.

(* the same text with any blanks (bl i in front of token i, bl (length ts) at the end) *)
Fixpoint show_sp (bl : nat -> list nat) (i : nat) (ts : list token) : list nat :=
  match ts with
  | [] => bl i
  | t :: r => bl i ++ show_tok t ++ show_sp bl (S i) r
  end.

Lemma clean_show_sp : forall bl, (forall i, forallb is_blank (bl i) = true) ->
  forall ts i, Forall printable ts -> clean (show_sp bl i ts) ts.
Proof.
  intros bl Hbl. induction ts as [|t ts IH]; intros i H.
  - simpl. apply clean_blanks. apply Hbl.
  - inversion H as [|? ? Ht Hts]; subst. simpl show_sp.
    apply (clean_app (bl i) [] _ (t :: ts)); [apply clean_blanks; apply Hbl|].
    apply (clean_app (show_tok t) [t] _ ts); [apply clean_show_tok; exact Ht|apply IH; exact Hts].
Qed.

Theorem lex_show_sp : forall bl ts, (forall i, forallb is_blank (bl i) = true) ->
  Forall printable ts -> lex (show_sp bl 0 ts) = Ok ts.
Proof. intros bl ts Hbl H. apply clean_lex. apply clean_show_sp; assumption. Qed.

(* ================================================================== *)
(* expressions                                                         *)
(* ================================================================== *)

Fixpoint re_printable (r : re) : Prop :=
  match r with
  | REps | RAny => True
  | RSym a => sym_printable a
  | RUnion x y | RInter x y | RShuffle x y | RCat x y => re_printable x /\ re_printable y
  | RStar x | RPlus x | ROpt x => re_printable x
  | RRep x lo hi => re_printable x /\ le_opt lo hi
  end.

Lemma printable_wrap : forall b ts, Forall printable ts -> Forall printable (wrap b ts).
Proof.
  intros [|] ts H; simpl; [|exact H].
  constructor; [exact I|]. apply Forall_app. split; [exact H|]. constructor; [exact I|constructor].
Qed.

Lemma printable_one : forall t, printable t -> Forall printable [t].
Proof. intros t H. constructor; [exact H|constructor]. Qed.

Lemma ptoks_printable : forall p, re_printable (erase p) -> forall l, Forall printable (ptoks p l).
Proof.
  induction p as [|a| |x IHx y IHy|x IHx y IHy|x IHx y IHy|x IHx y IHy|x IH|x IH|x IH|x IH lo hi|x IH];
    simpl erase; simpl re_printable; intros H l; simpl ptoks.
  - constructor; [exact I|]. apply printable_one. exact I.
  - apply printable_one. exact H.
  - apply printable_one. exact I.
  - destruct H as [Hx Hy]. apply printable_wrap. apply Forall_app. split; [apply IHx; exact Hx|].
    constructor; [exact I|apply IHy; exact Hy].
  - destruct H as [Hx Hy]. apply printable_wrap. apply Forall_app. split; [apply IHx; exact Hx|].
    constructor; [exact I|apply IHy; exact Hy].
  - destruct H as [Hx Hy]. apply printable_wrap. apply Forall_app. split; [apply IHx; exact Hx|].
    constructor; [exact I|apply IHy; exact Hy].
  - destruct H as [Hx Hy]. apply printable_wrap. apply Forall_app.
    split; [apply IHx; exact Hx|apply IHy; exact Hy].
  - apply printable_wrap. apply Forall_app. split; [apply IH; exact H|apply printable_one; exact I].
  - apply printable_wrap. apply Forall_app. split; [apply IH; exact H|apply printable_one; exact I].
  - apply printable_wrap. apply Forall_app. split; [apply IH; exact H|apply printable_one; exact I].
  - destruct H as [Hx Hb]. apply printable_wrap. apply Forall_app.
    split; [apply IH; exact Hx|apply printable_one; exact Hb].
  - constructor; [exact I|]. apply Forall_app. split; [apply IH; exact H|apply printable_one; exact I].
Qed.

Lemma parse_of_lex : forall cs ts r,
  lex cs = Ok ts -> ts <> [] -> parse_tokens ts = Ok r -> parse cs = Ok r.
Proof.
  intros cs ts r Hl Hne Hp. unfold parse. destruct cs as [|c cs].
  - unfold lex in Hl. simpl in Hl. injection Hl as <-. contradiction.
  - rewrite Hl. simpl. destruct ts as [|t ts]; [contradiction|exact Hp].
Qed.

Definition show (r : re) : list nat := show_toks (toks r 1).
Definition pshow (p : pre) : list nat := show_toks (ptoks p 1).

(* the character-level round trip, with redundant parentheses around any sub-expressions and
   blanks at any token boundaries *)
Theorem parse_show_general : forall p bl,
  re_printable (erase p) -> (forall i, forallb is_blank (bl i) = true) ->
  parse (show_sp bl 0 (ptoks p 1)) = Ok (erase p).
Proof.
  intros p bl Hp Hbl. apply (parse_of_lex _ (ptoks p 1)).
  - apply lex_show_sp; [exact Hbl|]. apply ptoks_printable. exact Hp.
  - exact (gram_nonempty 1 _ _ (gram_ptoks p 1)).
  - apply redundant_parens_any.
Qed.
Print Assumptions parse_show_general.

Theorem parse_pshow : forall p, re_printable (erase p) -> parse (pshow p) = Ok (erase p).
Proof.
  intros p Hp. apply (parse_of_lex _ (ptoks p 1)).
  - apply lex_show_toks. apply ptoks_printable. exact Hp.
  - exact (gram_nonempty 1 _ _ (gram_ptoks p 1)).
  - apply redundant_parens_any.
Qed.

Theorem parse_show : forall r, re_printable r -> parse (show r) = Ok r.
Proof.
  intros r H. unfold show. rewrite <- (ptoks_embed r 1).
  rewrite <- (erase_embed r) at 2. apply parse_pshow. rewrite erase_embed. exact H.
Qed.
Print Assumptions parse_show.

(* ---- non-vacuity ---- *)
Example show_nat_ex : show_nat 0 = [16] /\ show_nat 7 = [23] /\ show_nat 120 = [17; 18; 16].
Proof. vm_compute. repeat split. Qed.

Example show_ex :
  show (RCat (RSym 26) (RRep (RUnion (RSym 27) REps) 2 (Some 13)))
  = [26; 2; 27; 4; 2; 3; 3; 11; 18; 13; 17; 19; 12].
Proof. vm_compute. reflexivity. Qed.
