(* Aho-Corasick, the trie phase (ins_all of Model/AhoCorasick.v, lines 1961-1970 of dfa.py):
   inserting the patterns one after the other never fails and produces a node table in which
   every node is the node of exactly one string (ghost list Sg: Sg[k] = the string of node k),
   the strings are exactly the prefixes of the patterns, keys are duplicate-free, every fail
   link is still None and out is non-empty exactly at the nodes of the patterns. *)
From Coq Require Import List Arith Bool Lia.
From AV Require Import Base.Util Spec.Lang Spec.FA Spec.Preds Model.Construct Model.KMP Model.AhoCorasick
                       Proofs.Preds Proofs.Border Proofs.KMP Proofs.AhoCorasick.
Import ListNotations.

Definition TI (N : list tnode) (Sg : list word) : Prop :=
  length Sg = length N /\ nth_error Sg 0 = Some [] /\
  (forall k x a k', nth_error N k = Some x -> In (a, k') (t_succ x) ->
     exists s, nth_error Sg k = Some s /\ nth_error Sg k' = Some (s ++ [a])) /\
  (forall k x, nth_error N k = Some x -> NoDup (map fst (t_succ x))) /\
  (forall k' s a, nth_error Sg k' = Some (s ++ [a]) ->
     exists k x, nth_error Sg k = Some s /\ nth_error N k = Some x /\ In (a, k') (t_succ x)) /\
  NoDup Sg /\
  (forall k x, nth_error N k = Some x -> t_fail x = None).

Lemma assoc_None_keys {B} k (l : list (nat * B)) : assoc k l = None -> ~ In k (map fst l).
Proof.
  induction l as [|[k' v] r IH]; simpl; [tauto|]. destruct (Nat.eqb k k') eqn:E; [discriminate|].
  apply Nat.eqb_neq in E. intros H [H1|H1]; [simpl in H1; congruence|exact (IH H H1)].
Qed.

Lemma nth_error_inj_NoDup {A} (l : list A) i j x : NoDup l -> nth_error l i = Some x -> nth_error l j = Some x -> i = j.
Proof.
  intros Hnd Hi Hj. apply (proj1 (NoDup_nth_error l) Hnd); [apply nth_error_Some; congruence|congruence].
Qed.

Section TrieFacts.
  Variable N : list tnode.
  Variable Sg : list word.
  Hypothesis HT : TI N Sg.

  Lemma nodeof_S s : forall k, nodeof N s = Some k <-> nth_error Sg k = Some s.
  Proof.
    destruct HT as [HL [H0 [HE [HK [HC [HU HF]]]]]].
    induction s as [|a s IH] using rev_ind; intro k.
    - unfold nodeof. simpl. split.
      + intro E. inversion E; subst. exact H0.
      + intro E. f_equal. eapply nth_error_inj_NoDup; eassumption.
    - rewrite nodeof_snoc. split.
      + destruct (nodeof N s) as [j|] eqn:Ej; [|discriminate]. unfold edge.
        destruct (nth_error N j) as [x|] eqn:Ex; [|discriminate]. intro Ea. apply assoc_In in Ea.
        destruct (HE j x a k Ex Ea) as [s0 [E1 E2]]. pose proof (proj1 (IH j) eq_refl) as Ej'.
        rewrite Ej' in E1. inversion E1; subst s0. exact E2.
      + intro E. destruct (HC k s a E) as [j [x [E1 [Ex Hin]]]]. apply IH in E1. rewrite E1.
        unfold edge. rewrite Ex. apply assoc_NoDup; [eapply HK; exact Ex|exact Hin].
  Qed.

  Lemma TI_HV s k : nodeof N s = Some k -> k < length N.
  Proof. intro H. apply nodeof_S in H. destruct HT as [HL _]. rewrite <- HL. apply nth_error_Some. congruence. Qed.

  Lemma TI_HI s s' k : nodeof N s = Some k -> nodeof N s' = Some k -> s = s'.
  Proof. intros H1 H2. apply nodeof_S in H1. apply nodeof_S in H2. congruence. Qed.

  Lemma TI_inT s : In s Sg -> inT N s.
  Proof.
    intro H. apply In_nth_error in H. destruct H as [k Hk]. apply nodeof_S in Hk. unfold inT. congruence.
  Qed.
End TrieFacts.

(* changing only the out field of a node *)
Lemma TI_set_out N Sg k x o : TI N Sg -> nth_error N k = Some x -> TI (upd N k (mknode (t_succ x) o (t_fail x))) Sg.
Proof.
  intros [HL [H0 [HE [HK [HC [HU HF]]]]]] Ex.
  assert (Hk : k < length N) by (apply nth_error_Some; congruence).
  assert (Hget : forall j y, nth_error (upd N k (mknode (t_succ x) o (t_fail x))) j = Some y ->
            exists y0, nth_error N j = Some y0 /\ t_succ y = t_succ y0 /\ t_fail y = t_fail y0).
  { intros j y Hy. destruct (Nat.eq_dec j k) as [->|Hne].
    - rewrite nth_error_upd_same in Hy by exact Hk. inversion Hy; subst y. exists x. repeat split; assumption.
    - rewrite nth_error_upd_other in Hy by exact Hne. exists y. repeat split; assumption. }
  split; [rewrite upd_length; exact HL|]. split; [exact H0|]. split; [|split; [|split; [|split]]].
  - intros j y a k' Hy Hin. destruct (Hget j y Hy) as [y0 [E0 [Es _]]]. rewrite Es in Hin. eapply HE; eassumption.
  - intros j y Hy. destruct (Hget j y Hy) as [y0 [E0 [Es _]]]. rewrite Es. eapply HK; eassumption.
  - intros k' s a E. destruct (HC k' s a E) as [j [y [E1 [Ey Hin]]]].
    destruct (Nat.eq_dec j k) as [->|Hne].
    + rewrite Ex in Ey. inversion Ey; subst y. eexists k, _. split; [exact E1|]. split; [apply nth_error_upd_same; exact Hk|exact Hin].
    + exists j, y. split; [exact E1|]. split; [rewrite nth_error_upd_other by exact Hne; exact Ey|exact Hin].
  - exact HU.
  - intros j y Hy. destruct (Hget j y Hy) as [y0 [E0 [_ Ef]]]. rewrite Ef. eapply HF; exact E0.
Qed.

(* one pattern, symbol by symbol *)
Lemma ins_word_ok : forall w N Sg cur s, TI N Sg -> nth_error Sg cur = Some s ->
  exists N' ext cur', ins_word N cur w = Ok (N', cur') /\ TI N' (Sg ++ ext) /\
    nth_error (Sg ++ ext) cur' = Some (s ++ w) /\
    (forall k x, nth_error N k = Some x -> exists x', nth_error N' k = Some x' /\ t_out x' = t_out x) /\
    (forall k x', length N <= k -> nth_error N' k = Some x' -> t_out x' = []) /\
    (forall t, In t ext -> exists j, j <= length w /\ t = s ++ firstn j w).
Proof.
  induction w as [|a w IH]; intros N Sg cur s HT Hs.
  - exists N, [], cur. rewrite !app_nil_r. split; [reflexivity|]. split; [exact HT|]. split; [exact Hs|].
    split; [intros k x Ex; exists x; split; [exact Ex|reflexivity]|].
    split; [|intros t []].
    intros k x' Hk Ex. exfalso. assert (k < length N) by (apply nth_error_Some; congruence). lia.
  - pose proof HT as [HL [H0 [HE [HK [HC [HU HF]]]]]].
    assert (Hcur : cur < length N) by (rewrite <- HL; apply nth_error_Some; congruence).
    destruct (nth_error N cur) as [nd|] eqn:End; [|apply nth_error_None in End; lia].
    cbn [ins_word]. rewrite (idx_Ok N cur nd End). cbn [bind].
    destruct (assoc a (t_succ nd)) as [nxt|] eqn:Ea.
    + (* the key is present *)
      pose proof (assoc_In _ _ _ Ea) as Hin. destruct (HE cur nd a nxt End Hin) as [s0 [E1 E2]].
      rewrite Hs in E1. inversion E1; subst s0.
      destruct (IH N Sg nxt (s ++ [a]) HT E2) as [N' [ext [cur' [Ei [HT' [Ec [Ho [Hn Hext]]]]]]]].
      exists N', ext, cur'. split; [exact Ei|]. split; [exact HT'|].
      split; [rewrite Ec, <- app_assoc; reflexivity|]. split; [exact Ho|]. split; [exact Hn|].
      intros t Ht. destruct (Hext t Ht) as [j [Hj ->]]. exists (S j). split; [simpl; lia|].
      simpl. rewrite <- app_assoc. reflexivity.
    + (* a new node *)
      set (new := length N).
      set (nd' := mknode (t_succ nd ++ [(a, new)]) (t_out nd) (t_fail nd)).
      set (N1 := upd N cur nd' ++ [empty_node]).
      set (S1 := Sg ++ [s ++ [a]]).
      assert (Hlen1 : length (upd N cur nd') = length N) by apply upd_length.
      assert (HgetN : forall k x, nth_error N1 k = Some x ->
                (k = cur /\ x = nd') \/ (k <> cur /\ k < length N /\ nth_error N k = Some x) \/ (k = new /\ x = empty_node)).
      { intros k x Hx. unfold N1 in Hx. destruct (Nat.lt_ge_cases k (length N)) as [Hlt|Hge].
        - rewrite nth_error_app1 in Hx by lia. destruct (Nat.eq_dec k cur) as [->|Hne].
          + rewrite nth_error_upd_same in Hx by exact Hcur. inversion Hx. left. split; reflexivity.
          + rewrite nth_error_upd_other in Hx by exact Hne. right. left. repeat split; assumption.
        - rewrite nth_error_app2 in Hx by lia. rewrite Hlen1 in Hx.
          destruct (k - length N) as [|m] eqn:Em; [|destruct m; discriminate].
          simpl in Hx. inversion Hx. right. right. split; [unfold new; lia|reflexivity]. }
      assert (HSg1old : forall k, k < length Sg -> nth_error S1 k = nth_error Sg k).
      { intros k Hk. unfold S1. apply nth_error_app1. exact Hk. }
      assert (HSg1new : nth_error S1 new = Some (s ++ [a])).
      { unfold S1, new. rewrite nth_error_app2 by lia. rewrite HL, Nat.sub_diag. reflexivity. }
      assert (Hfresh : ~ In (s ++ [a]) Sg).
      { intro Hin. apply In_nth_error in Hin. destruct Hin as [j Ej].
        destruct (HC j s a Ej) as [k [x [E1 [Ex Hinx]]]].
        assert (k = cur) by (eapply nth_error_inj_NoDup; eassumption). subst k.
        rewrite End in Ex. inversion Ex; subst x.
        rewrite (assoc_NoDup a j _ (HK cur nd End) Hinx) in Ea. discriminate. }
      assert (HT1 : TI N1 S1).
      { split; [unfold N1, S1; rewrite !app_length, Hlen1, HL; reflexivity|].
        split; [rewrite HSg1old by (rewrite HL; lia); exact H0|]. split; [|split; [|split; [|split]]].
        - intros k x a2 k2 Hx Hin2. destruct (HgetN k x Hx) as [[-> ->]|[[Hne [Hlt Hx0]]|[-> ->]]].
          + unfold nd' in Hin2. cbn [t_succ] in Hin2. apply in_app_or in Hin2. destruct Hin2 as [Hin2|[Ee|[]]].
            * destruct (HE cur nd a2 k2 End Hin2) as [s0 [E1 E2]]. exists s0.
              rewrite !HSg1old; [split; assumption| |]; apply nth_error_Some; congruence.
            * inversion Ee; subst a2 k2. exists s. split; [rewrite HSg1old by (rewrite HL; lia); exact Hs|exact HSg1new].
          + destruct (HE k x a2 k2 Hx0 Hin2) as [s0 [E1 E2]]. exists s0.
            rewrite !HSg1old; [split; assumption| |]; apply nth_error_Some; congruence.
          + destruct Hin2.
        - intros k x Hx. destruct (HgetN k x Hx) as [[-> ->]|[[Hne [Hlt Hx0]]|[-> ->]]].
          + unfold nd'. cbn [t_succ]. rewrite map_app. simpl. apply NoDup_app_intro; [eapply HK; exact End|repeat constructor; intros []|].
            intros y Hy [<-|[]]. exact (assoc_None_keys a _ Ea Hy).
          + eapply HK; exact Hx0.
          + constructor.
        - intros k' s2 a2 E. destruct (Nat.lt_ge_cases k' (length Sg)) as [Hlt|Hge].
          + rewrite HSg1old in E by exact Hlt. destruct (HC k' s2 a2 E) as [k [x [E1 [Ex Hinx]]]].
            assert (Hk : k < length Sg) by (apply nth_error_Some; congruence).
            destruct (Nat.eq_dec k cur) as [->|Hne].
            * rewrite End in Ex. inversion Ex; subst x. exists cur, nd'. split; [rewrite HSg1old by exact Hk; exact E1|].
              split; [unfold N1; rewrite nth_error_app1 by lia; apply nth_error_upd_same; exact Hcur|].
              unfold nd'. cbn [t_succ]. apply in_or_app. left. exact Hinx.
            * exists k, x. split; [rewrite HSg1old by exact Hk; exact E1|].
              split; [unfold N1; rewrite nth_error_app1 by lia; rewrite nth_error_upd_other by exact Hne; exact Ex|exact Hinx].
          + unfold S1 in E. rewrite nth_error_app2 in E by exact Hge.
            destruct (k' - length Sg) as [|m] eqn:Em; [|destruct m; discriminate]. simpl in E. inversion E as [Ee].
            apply app_inj_tail in Ee. destruct Ee as [<- <-].
            exists cur, nd'. split; [rewrite HSg1old by (rewrite HL; lia); exact Hs|].
            split; [unfold N1; rewrite nth_error_app1 by lia; apply nth_error_upd_same; exact Hcur|].
            unfold nd'. cbn [t_succ]. apply in_or_app. right. left. f_equal. unfold new. lia.
        - unfold S1. apply NoDup_app_intro; [exact HU|repeat constructor; intros []|].
          intros y Hy [<-|[]]. exact (Hfresh Hy).
        - intros k x Hx. destruct (HgetN k x Hx) as [[-> ->]|[[Hne [Hlt Hx0]]|[-> ->]]].
          + unfold nd'. cbn [t_fail]. eapply HF; exact End.
          + eapply HF; exact Hx0.
          + reflexivity. }
      destruct (IH N1 S1 new (s ++ [a]) HT1 HSg1new) as [N' [ext [cur' [Ei [HT' [Ec [Ho [Hn Hext]]]]]]]].
      exists N', ([s ++ [a]] ++ ext), cur'. fold new. fold nd'. fold N1. split; [exact Ei|].
      unfold S1 in *. rewrite <- (app_assoc Sg [s ++ [a]] ext) in HT', Ec. split; [exact HT'|].
      split; [replace (s ++ a :: w) with ((s ++ [a]) ++ w) by (rewrite <- app_assoc; reflexivity); exact Ec|].
      split; [|split].
      * intros k x Ex. assert (Hk : k < length N) by (apply nth_error_Some; congruence).
        destruct (Nat.eq_dec k cur) as [->|Hne].
        -- rewrite End in Ex. inversion Ex; subst x.
           destruct (Ho cur nd') as [x' [E1 E2]]; [unfold N1; rewrite nth_error_app1 by lia; apply nth_error_upd_same; exact Hcur|].
           exists x'. split; [exact E1|exact E2].
        -- apply Ho. unfold N1. rewrite nth_error_app1 by lia. rewrite nth_error_upd_other by exact Hne. exact Ex.
      * intros k x' Hk Ex'. destruct (Nat.eq_dec k new) as [->|Hne].
        -- destruct (Ho new empty_node) as [x2 [E1 E2]].
           { unfold N1, new. rewrite nth_error_app2 by lia. rewrite Hlen1, Nat.sub_diag. reflexivity. }
           rewrite Ex' in E1. inversion E1; subst x2. exact E2.
        -- apply (Hn k x'); [|exact Ex']. unfold N1. rewrite app_length, Hlen1. simpl. unfold new in Hne. lia.
      * intros t [<-|Ht].
        -- exists 1. split; [simpl; lia|]. reflexivity.
        -- destruct (Hext t Ht) as [j [Hj ->]]. exists (S j). split; [simpl; lia|].
           simpl. rewrite <- app_assoc. reflexivity.
Qed.

(* ---------- whole patterns ---------- *)
Definition PI (N : list tnode) (Sg : list word) (Pd : list word) : Prop :=
  TI N Sg /\ (forall p, In p Pd -> In p Sg) /\
  (forall k x s, nth_error N k = Some x -> nth_error Sg k = Some s -> (t_out x <> [] <-> In s Pd)) /\
  (forall s, In s Sg -> s = [] \/ exists p, In p Pd /\ has_prefix s p).

Lemma ins_pat_ok N Sg Pd p : PI N Sg Pd -> exists N' Sg', ins_pat N p = Ok N' /\ PI N' Sg' (p :: Pd).
Proof.
  intros [HT [Hin [HO Hpre]]]. pose proof HT as [HL [H0 _]].
  destruct (ins_word_ok p N Sg 0 [] HT H0) as [N1 [ext [cur [Ei [HT1 [Ec [Ho [Hn Hext]]]]]]]].
  simpl in Ec. unfold ins_pat. rewrite Ei. cbn [bind].
  pose proof HT1 as [HL1 [_ [_ [_ [_ [HU1 _]]]]]].
  assert (Hcur : cur < length N1) by (rewrite <- HL1; apply nth_error_Some; congruence).
  destruct (nth_error N1 cur) as [nd|] eqn:End; [|apply nth_error_None in End; lia].
  rewrite (idx_Ok N1 cur nd End). cbn [bind].
  eexists. exists (Sg ++ ext). split; [reflexivity|]. split; [apply TI_set_out; assumption|]. split; [|split].
  - intros q [<-|Hq]; [eapply nth_error_In; exact Ec|]. apply in_or_app. left. apply Hin. exact Hq.
  - intros k x s Ex Es. destruct (Nat.eq_dec k cur) as [->|Hne].
    + rewrite nth_error_upd_same in Ex by exact Hcur. inversion Ex; subst x. cbn [t_out].
      rewrite Ec in Es. inversion Es; subst s. split; [intros _; left; reflexivity|intros _; discriminate].
    + rewrite nth_error_upd_other in Ex by exact Hne.
      assert (Hsp : s <> p).
      { intros ->. apply Hne. eapply nth_error_inj_NoDup; eassumption. }
      destruct (Nat.lt_ge_cases k (length N)) as [Hlt|Hge].
      * destruct (nth_error N k) as [x0|] eqn:Ex0; [|apply nth_error_None in Ex0; lia].
        destruct (Ho k x0 Ex0) as [x' [E1 E2]]. rewrite Ex in E1. inversion E1; subst x'. rewrite E2.
        rewrite nth_error_app1 in Es by lia. rewrite (HO k x0 s Ex0 Es). split; [intro H; right; exact H|].
        intros [E|H]; [congruence|exact H].
      * rewrite (Hn k x Hge Ex). split; [congruence|]. intros [E|H]; [congruence|]. exfalso.
        apply Hin in H. apply In_nth_error in H. destruct H as [j Ej].
        assert (Hj : j < length Sg) by (apply nth_error_Some; congruence).
        assert (j = k); [|lia]. apply (nth_error_inj_NoDup (Sg ++ ext) j k s HU1); [rewrite nth_error_app1 by exact Hj; exact Ej|exact Es].
  - intros s Hs. apply in_app_or in Hs. destruct Hs as [Hs|Hs].
    + destruct (Hpre s Hs) as [->|[q [Hq Hp]]]; [left; reflexivity|right]. exists q. split; [right; exact Hq|exact Hp].
    + destruct (Hext s Hs) as [j [Hj ->]]. right. exists p. split; [left; reflexivity|]. simpl.
      exists (skipn j p). symmetry. apply firstn_skipn.
Qed.

Lemma ins_all_ok : forall pats N Sg Pd, PI N Sg Pd ->
  exists N' Sg', ins_all N pats = Ok N' /\ PI N' Sg' (rev pats ++ Pd).
Proof.
  induction pats as [|p pats IH]; intros N Sg Pd HP.
  - exists N, Sg. split; [reflexivity|exact HP].
  - cbn [ins_all]. destruct (ins_pat_ok N Sg Pd p HP) as [N1 [Sg1 [E1 HP1]]]. rewrite E1. cbn [bind].
    destruct (IH N1 Sg1 (p :: Pd) HP1) as [N' [Sg' [E' HP']]]. exists N', Sg'. split; [exact E'|].
    simpl. rewrite <- app_assoc. exact HP'.
Qed.

Lemma PI_init : PI [empty_node] [[]] [].
Proof.
  split; [|split; [|split]].
  - split; [reflexivity|]. split; [reflexivity|]. split; [|split; [|split; [|split]]].
    + intros k x a k' Ex Hin. destruct k as [|k]; [|destruct k; discriminate]. inversion Ex; subst x. destruct Hin.
    + intros k x Ex. destruct k as [|k]; [|destruct k; discriminate]. inversion Ex; subst x. constructor.
    + intros k' s a E. destruct k' as [|k']; [|destruct k'; discriminate]. inversion E as [Ee]. destruct s; discriminate.
    + repeat constructor. intros [].
    + intros k x Ex. destruct k as [|k]; [|destruct k; discriminate]. inversion Ex; subst x. reflexivity.
  - intros p [].
  - intros k x s Ex Es. destruct k as [|k]; [|destruct k; discriminate]. inversion Ex; subst x. simpl. split; [congruence|intros []].
  - intros s [<-|[]]. left. reflexivity.
Qed.

(* the freshly built trie *)
Theorem trie_ok pats : exists N0 root, ins_all [empty_node] pats = Ok N0 /\ nth_error N0 0 = Some root /\
  (forall s k, nodeof N0 s = Some k -> k < length N0) /\
  (forall s s' k, nodeof N0 s = Some k -> nodeof N0 s' = Some k -> s = s') /\
  (forall k x, nth_error N0 k = Some x -> NoDup (map fst (t_succ x))) /\
  (forall p, In p pats -> inT N0 p) /\
  (forall s k x, nodeof N0 s = Some k -> nth_error N0 k = Some x -> t_fail x = None /\ (t_out x <> [] <-> In s pats)) /\
  (forall k, k < length N0 -> exists s, nodeof N0 s = Some k /\ (s = [] \/ exists p, In p pats /\ has_prefix s p)).
Proof.
  destruct (ins_all_ok pats [empty_node] [[]] [] PI_init) as [N0 [Sg [E [HT [Hin [HO Hpre]]]]]]. rewrite app_nil_r in *.
  pose proof HT as [HL [H0 [_ [HK [_ [_ HF]]]]]].
  assert (Hr : exists root, nth_error N0 0 = Some root).
  { destruct (nth_error N0 0) as [r|] eqn:Er; [exists r; reflexivity|]. apply nth_error_None in Er.
    assert (0 < length Sg) by (apply nth_error_Some; congruence). lia. }
  destruct Hr as [root Er]. exists N0, root. split; [exact E|]. split; [exact Er|].
  split; [intros s k; apply (TI_HV N0 Sg HT)|]. split; [intros s s' k; apply (TI_HI N0 Sg HT)|].
  split; [exact HK|]. split; [|split].
  - intros p Hp. apply (TI_inT N0 Sg HT). apply Hin. apply in_rev in Hp. exact Hp.
  - intros s k x Hk Ex. split; [eapply HF; exact Ex|]. apply (nodeof_S N0 Sg HT) in Hk.
    rewrite (HO k x s Ex Hk). rewrite <- in_rev. tauto.
  - intros k Hk. rewrite <- HL in Hk. destruct (nth_error Sg k) as [s|] eqn:Es; [|apply nth_error_None in Es; lia].
    exists s. split; [apply (nodeof_S N0 Sg HT); exact Es|].
    destruct (Hpre s (nth_error_In _ _ Es)) as [->|[p [Hp Hs]]]; [left; reflexivity|right].
    exists p. split; [apply in_rev; exact Hp|exact Hs].
Qed.
