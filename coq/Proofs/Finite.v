(* C06: isfinite.  The language of a DFA is finite iff peeling the accessible-and-coaccessible
   subgraph (removing, round after round, the states with no successor left) empties it. *)
From Coq Require Import List Arith Bool Lia.
From AV Require Import Base.Util Base.Closure Spec.Lang Spec.FA Model.Decide Model.Product
     Proofs.FARun Proofs.Decide Proofs.Product Proofs.DFAOps2.
Import ListNotations.

(* ---------- peeling a finite graph ---------- *)
Lemma filter_length_le' {A} (f : A -> bool) l : length (filter f l) <= length l.
Proof. induction l as [|x r IH]; simpl; [lia|]. destruct (f x); simpl; lia. Qed.

Lemma filter_same_length {A} (f : A -> bool) l : length (filter f l) = length l -> filter f l = l.
Proof.
  induction l as [|x r IH]; simpl; [reflexivity|]. destruct (f x); simpl; intro H.
  - f_equal. apply IH. lia.
  - pose proof (filter_length_le' f r). lia.
Qed.

Section Peel.
  Variable succs : nat -> list nat.

  Definition hassucc (S : list nat) (q : nat) : bool := existsb (fun t => memb t S) (succs q).
  Definition prune (S : list nat) : list nat := filter (hassucc S) S.

  Lemma peel_S n S : peel (Datatypes.S n) succs S = peel n succs (prune S).
  Proof. reflexivity. Qed.

  Lemma hassucc_spec S q : hassucc S q = true <-> exists t, In t (succs q) /\ In t S.
  Proof.
    unfold hassucc. rewrite existsb_exists. split; intros [t [H1 H2]]; exists t; (split; [exact H1|]); apply memb_In; exact H2.
  Qed.

  Lemma prune_In S q : In q (prune S) <-> In q S /\ exists t, In t (succs q) /\ In t S.
  Proof. unfold prune. rewrite filter_In, hassucc_spec. tauto. Qed.

  (* chain S n x: a walk with n edges that starts at x and stays inside S *)
  Inductive chain (S : list nat) : nat -> nat -> Prop :=
  | chain0 x : In x S -> chain S 0 x
  | chainS x y n : In x S -> In y (succs x) -> chain S n y -> chain S (Datatypes.S n) x.

  Lemma chain_head S n x : chain S n x -> In x S.
  Proof. intro H. inversion H; assumption. Qed.

  Lemma chain_prune S n : forall x, chain S (Datatypes.S n) x -> chain (prune S) n x.
  Proof.
    induction n as [|n IH]; intros x H; inversion H as [|x' y n' Hx Hy Hc]; subst.
    - apply chain0. apply prune_In. split; [exact Hx|]. exists y. split; [exact Hy|eapply chain_head; exact Hc].
    - eapply chainS; [|exact Hy|apply IH; exact Hc].
      apply prune_In. split; [exact Hx|]. exists y. split; [exact Hy|eapply chain_head; exact Hc].
  Qed.

  Lemma prune_chain S n x : chain (prune S) n x -> chain S (Datatypes.S n) x.
  Proof.
    intro H. induction H as [x Hx|x y n Hx Hy Hc IH].
    - apply prune_In in Hx. destruct Hx as [Hx [t [Ht1 Ht2]]].
      eapply chainS; [exact Hx|exact Ht1|apply chain0; exact Ht2].
    - apply prune_In in Hx. destruct Hx as [Hx _]. eapply chainS; [exact Hx|exact Hy|exact IH].
  Qed.

  Lemma peel_chain n : forall S x, In x (peel n succs S) <-> chain S n x.
  Proof.
    induction n as [|n IH]; intros S x.
    - simpl. split; [apply chain0|apply chain_head].
    - rewrite peel_S, IH. split; [apply prune_chain|apply chain_prune].
  Qed.

  Lemma chain_le S n x : chain S n x -> forall k, k <= n -> chain S k x.
  Proof.
    intro H. induction H as [x Hx|x y n Hx Hy Hc IH]; intros k Hk.
    - assert (k = 0) by lia. subst. apply chain0. exact Hx.
    - destruct k as [|k]; [apply chain0; exact Hx|]. eapply chainS; [exact Hx|exact Hy|apply IH; lia].
  Qed.

  Lemma peel_nil k : peel k succs [] = [].
  Proof. induction k as [|k IH]; [reflexivity|]. rewrite peel_S. exact IH. Qed.

  Lemma peel_fix S : prune S = S -> forall k, peel k succs S = S.
  Proof. intros H k. induction k as [|k IH]; [reflexivity|]. rewrite peel_S, H. exact IH. Qed.

  (* a set that survives as many rounds as it has elements survives every number of rounds *)
  Lemma peel_stable n : forall S, length S <= n -> peel n succs S <> [] -> forall k, peel k succs S <> [].
  Proof.
    induction n as [|n IH]; intros S Hlen Hne k.
    - destruct S; [exfalso; apply Hne; reflexivity|simpl in Hlen; lia].
    - rewrite peel_S in Hne.
      assert (HS : S <> []). { intro E. subst S. apply Hne. apply peel_nil. }
      pose proof (filter_length_le' (hassucc S) S) as Hle. fold (prune S) in Hle.
      destruct (Nat.eq_dec (length (prune S)) (length S)) as [Heq|Hneq].
      + apply filter_same_length in Heq. fold (prune S) in Heq. rewrite (peel_fix S Heq). exact HS.
      + destruct k as [|k]; [exact HS|]. rewrite peel_S. apply IH; [lia|exact Hne].
  Qed.
End Peel.

(* ---------- the DFA instance ---------- *)
Section Finite.
  Variable m : dfa.
  Hypothesis Hv : valid_dfa m = true.
  Variable U : list nat.
  Hypothesis HU : forall q, In q U <-> accessible m q /\ coacc m q.

  Notation chainU := (chain (row_targets m) U).

  Lemma coacc_run q w y : dfa_run m (Some q) w = Some y -> coacc m y -> coacc m q.
  Proof.
    intros Hr [z Hz]. exists (w ++ z). rewrite dfa_run_app, Hr. exact Hz.
  Qed.

  Lemma accessible_run q w y : accessible m q -> dfa_run m (Some q) w = Some y -> accessible m y.
  Proof. intros [u Hu] Hr. exists (u ++ w). rewrite dfa_run_app, Hu. exact Hr. Qed.

  Lemma chain_word n x : chainU n x ->
    exists w y, length w = n /\ dfa_run m (Some x) w = Some y /\ In y U.
  Proof.
    intro H. induction H as [x Hx|x y n Hx Hy Hc [w [z [Hl [Hr Hz]]]]].
    - exists [], x. repeat split. exact Hx.
    - apply (row_succ m Hv) in Hy. destruct Hy as [a Ha]. exists (a :: w), z. split; [simpl; lia|].
      split; [simpl; rewrite Ha; exact Hr|exact Hz].
  Qed.

  Lemma word_chain w : forall x y, In x U -> dfa_run m (Some x) w = Some y -> In y U -> chainU (length w) x.
  Proof.
    induction w as [|a w IH]; intros x y Hx Hr Hy; simpl.
    - apply chain0. exact Hx.
    - simpl in Hr. destruct (d_delta m x a) as [t|] eqn:E; [|rewrite dfa_run_None in Hr; discriminate].
      eapply chainS; [exact Hx|apply (row_succ m Hv); exists a; exact E|].
      apply (IH t y); [|exact Hr|exact Hy]. apply HU. apply HU in Hx. apply HU in Hy. split.
      + eapply accessible_step; [apply Hx|exact E].
      + eapply coacc_run; [exact Hr|apply Hy].
  Qed.

  Lemma accepted_chain w : L_dfa m w -> chainU (length w) (d_init m).
  Proof.
    unfold L_dfa, dfa_acc, dfa_acc_from. intro H.
    destruct (dfa_run m (Some (d_init m)) w) as [y|] eqn:Er; [|discriminate]. simpl in H.
    assert (Hy : In y U).
    { apply HU. split; [exists w; exact Er|exists []; exact H]. }
    apply (word_chain w _ y); [|exact Er|exact Hy].
    apply HU. split; [exists []; reflexivity|]. eapply coacc_run; [exact Er|apply HU; exact Hy].
  Qed.

  Lemma chain_accepted n x : chainU n x -> exists w, L_dfa m w /\ n <= length w.
  Proof.
    intro H. pose proof (chain_head _ _ _ _ H) as Hx. apply HU in Hx. destruct Hx as [[u Hu] _].
    destruct (chain_word n x H) as [w [y [Hl [Hr Hy]]]]. apply HU in Hy. destruct Hy as [_ [z Hz]].
    exists (u ++ w ++ z). split.
    - unfold L_dfa, dfa_acc, dfa_acc_from. rewrite !dfa_run_app, Hu, Hr. exact Hz.
    - rewrite !app_length. lia.
  Qed.

  Lemma peel_unbounded : peel (length U) (row_targets m) U <> [] ->
    forall n, exists w, L_dfa m w /\ n < length w.
  Proof.
    intros Hne n.
    pose proof (peel_stable (row_targets m) (length U) U (le_n _) Hne (S n)) as Hk.
    destruct (peel (S n) (row_targets m) U) as [|x r] eqn:Ek; [exfalso; apply Hk; reflexivity|].
    assert (Hc : chainU (S n) x) by (apply peel_chain; rewrite Ek; left; reflexivity).
    destruct (chain_accepted _ _ Hc) as [w [Hw Hl]]. exists w. split; [exact Hw|lia].
  Qed.

  Lemma peel_bounded : peel (length U) (row_targets m) U = [] ->
    forall w, L_dfa m w -> length w < length U.
  Proof.
    intros Hp w Hw. apply accepted_chain in Hw.
    destruct (le_lt_dec (length U) (length w)) as [Hle|Hlt]; [|exact Hlt]. exfalso.
    assert (Hc : chainU (length U) (d_init m)) by (apply (chain_le _ _ _ _ Hw); lia).
    apply peel_chain in Hc. rewrite Hp in Hc. destruct Hc.
  Qed.

  Lemma peel_finite :
    peel (length U) (row_targets m) U = [] <-> exists n, forall w, L_dfa m w -> length w <= n.
  Proof.
    split.
    - intro Hp. exists (length U). intros w Hw. pose proof (peel_bounded Hp w Hw). lia.
    - intros [n Hn]. destruct (peel (length U) (row_targets m) U) as [|x0 r0] eqn:Ep; [reflexivity|]. exfalso.
      assert (Hne : peel (length U) (row_targets m) U <> []) by (rewrite Ep; discriminate).
      destruct (peel_unbounded Hne n) as [w [Hw Hl]]. specialize (Hn w Hw). lia.
  Qed.
End Finite.

Theorem isfinite_spec m : valid_dfa m = true ->
  exists b, isfinite_m m = Ok b /\ (b = true <-> exists n, forall w, L_dfa m w -> length w <= n).
Proof.
  intro Hv. destruct (reach_states_ok m Hv) as [acc [Ea [_ Hacc]]].
  destruct (coreach_states_ok m Hv) as [co [Ec [_ Hco]]].
  unfold isfinite_m, useful_states. rewrite Ea, Ec. simpl.
  set (U := filter (fun q => memb q co) acc).
  assert (HU : forall q, In q U <-> accessible m q /\ coacc m q).
  { intro q. unfold U. rewrite filter_In, memb_In, Hacc, Hco. split; [tauto|].
    intros [H1 H2]. split; [exact H1|]. split; [apply (accessible_state m Hv); exact H1|exact H2]. }
  pose proof (peel_finite m Hv U HU) as Hp.
  destruct (peel (length U) (row_targets m) U) as [|x r].
  - exists true. split; [reflexivity|]. split; [intros _; apply Hp; reflexivity|reflexivity].
  - exists false. split; [reflexivity|]. split; [discriminate|]. intro H. apply Hp in H. discriminate.
Qed.

(* constructive readings of the two answers *)
Theorem isfinite_true_bound m : valid_dfa m = true -> isfinite_m m = Ok true ->
  forall w, L_dfa m w -> length w < length (d_states m).
Proof.
  intros Hv. destruct (reach_states_ok m Hv) as [acc [Ea [Hnd Hacc]]].
  destruct (coreach_states_ok m Hv) as [co [Ec [_ Hco]]].
  unfold isfinite_m, useful_states. rewrite Ea, Ec. simpl.
  set (U := filter (fun q => memb q co) acc).
  assert (HU : forall q, In q U <-> accessible m q /\ coacc m q).
  { intro q. unfold U. rewrite filter_In, memb_In, Hacc, Hco. split; [tauto|].
    intros [H1 H2]. split; [exact H1|]. split; [apply (accessible_state m Hv); exact H1|exact H2]. }
  assert (HlenU : length U <= length (d_states m)).
  { apply NoDup_incl_length; [apply NoDup_filter; exact Hnd|].
    intros q Hq. apply HU in Hq. apply (accessible_state m Hv). tauto. }
  destruct (peel (length U) (row_targets m) U) as [|x r] eqn:Ep; [|discriminate].
  intros _ w Hw. pose proof (peel_bounded m Hv U HU Ep w Hw). lia.
Qed.

Theorem isfinite_false_witness m : valid_dfa m = true -> isfinite_m m = Ok false ->
  forall n, exists w, L_dfa m w /\ n < length w.
Proof.
  intros Hv. destruct (reach_states_ok m Hv) as [acc [Ea [_ Hacc]]].
  destruct (coreach_states_ok m Hv) as [co [Ec [_ Hco]]].
  unfold isfinite_m, useful_states. rewrite Ea, Ec. simpl.
  set (U := filter (fun q => memb q co) acc).
  assert (HU : forall q, In q U <-> accessible m q /\ coacc m q).
  { intro q. unfold U. rewrite filter_In, memb_In, Hacc, Hco. split; [tauto|].
    intros [H1 H2]. split; [exact H1|]. split; [apply (accessible_state m Hv); exact H1|exact H2]. }
  destruct (peel (length U) (row_targets m) U) as [|x r] eqn:Ep; [discriminate|].
  intros _. apply (peel_unbounded m Hv U HU). rewrite Ep. discriminate.
Qed.
