(* The product constructions of the regex builder: intersection (reachable product with
   synchronised symbol moves) and shuffle (full product, interleaved moves).
   Both name the pair (qa, qb) by its position; the proofs go through an abstract path
   relation over pairs. *)
From Coq Require Import List Arith Bool Lia.
From AV Require Import Base.Util Base.Closure Spec.Lang Spec.FA Spec.Regex Model.RegexBuild Proofs.RegexFrag.
Import ListNotations.

(* ---- arithmetic of positions ---- *)
Lemma mul_add_lt a b n m : a < n -> b < m -> a * m + b < n * m.
Proof.
  intros Ha Hb. assert (H : S a * m <= n * m) by (apply Nat.mul_le_mono_r; lia).
  simpl in H. lia.
Qed.

Lemma mul_add_inj a b a' b' m :
  b < m -> b' < m -> a * m + b = a' * m + b' -> a = a' /\ b = b'.
Proof.
  intros Hb Hb' E. destruct (lt_eq_lt_dec a a') as [[H|H]|H].
  - exfalso. assert (H1 : S a * m <= a' * m) by (apply Nat.mul_le_mono_r; lia).
    simpl in H1. lia.
  - subst a'. split; [reflexivity|lia].
  - exfalso. assert (H1 : S a' * m <= a * m) by (apply Nat.mul_le_mono_r; lia).
    simpl in H1. lia.
Qed.

Lemma index_of_lt x l : In x l -> index_of x l < length l.
Proof.
  induction l as [|y r IH]; simpl; [tauto|]. intro H.
  destruct (Nat.eqb x y) eqn:E; [lia|].
  apply Nat.eqb_neq in E. destruct H as [H|H]; [congruence|]. specialize (IH H). lia.
Qed.

Lemma index_of_inj x y l : In x l -> In y l -> index_of x l = index_of y l -> x = y.
Proof.
  induction l as [|z r IH]; simpl; [tauto|]. intros Hx Hy.
  destruct (Nat.eqb x z) eqn:E1; destruct (Nat.eqb y z) eqn:E2; intro E.
  - apply Nat.eqb_eq in E1. apply Nat.eqb_eq in E2. congruence.
  - discriminate.
  - discriminate.
  - apply Nat.eqb_neq in E1. apply Nat.eqb_neq in E2.
    destruct Hx as [Hx|Hx]; [congruence|]. destruct Hy as [Hy|Hy]; [congruence|].
    apply IH; [exact Hx|exact Hy|lia].
Qed.

(* ---- list facts ---- *)
Lemma NoDup_map_inj_on {X Y} (f : X -> Y) l :
  (forall x y, In x l -> In y l -> f x = f y -> x = y) -> NoDup l -> NoDup (map f l).
Proof.
  intros Hinj Hnd. induction Hnd as [|x l Hx Hnd IH]; simpl; [constructor|].
  constructor.
  - intro H. apply in_map_iff in H. destruct H as [y [E Hy]].
    assert (Eyx : y = x) by (apply Hinj; [right; exact Hy|left; reflexivity|exact E]).
    subst. contradiction.
  - apply IH. intros a b Ha Hb. apply Hinj; right; assumption.
Qed.

Lemma NoDup_app_disj {X} (l m : list X) :
  NoDup l -> NoDup m -> (forall y, In y l -> ~ In y m) -> NoDup (l ++ m).
Proof.
  intros Hl Hm Hd. induction Hl as [|a l Ha Hl IH]; simpl; [exact Hm|].
  constructor.
  - intro H. apply in_app_or in H. destruct H as [H|H]; [contradiction|].
    apply (Hd a); [left; reflexivity|exact H].
  - apply IH. intros y Hy. apply Hd. right. exact Hy.
Qed.

Lemma NoDup_list_prod' {X Y} (l : list X) (m : list Y) :
  NoDup l -> NoDup m -> NoDup (list_prod l m).
Proof.
  intros Hl Hm. induction Hl as [|a l Ha Hl IH]; simpl; [constructor|].
  apply NoDup_app_disj.
  - apply NoDup_map_inj_on; [|exact Hm]. intros x y _ _ E. inversion E. reflexivity.
  - exact IH.
  - intros [x y] H1 H2. apply in_map_iff in H1. destruct H1 as [y' [E _]].
    inversion E; subst. apply in_prod_iff in H2. destruct H2 as [H2 _]. contradiction.
Qed.

Lemma fpath_cons_split E p a w r :
  fpath E p (a :: w) r ->
  exists p1 p2, fpath E p [] p1 /\ In (p1, Some a, p2) E /\ fpath E p2 w r.
Proof.
  intro H. remember (a :: w) as aw eqn:Eaw.
  induction H as [q|p l q r w' He Hp IH]; [discriminate|].
  destruct l as [s|]; simpl in Eaw.
  - inversion Eaw; subst. exists p, q. split; [constructor|]. split; assumption.
  - destruct (IH Eaw) as [p1 [p2 [H1 [H2 H3]]]]. exists p1, p2.
    split; [eapply fpath_eps; eassumption|]. split; assumption.
Qed.

Lemma sym_labels_In a p q E : In (p, Some a, q) E -> In a (sym_labels E).
Proof.
  intro H. unfold sym_labels. apply in_flat_map. exists (p, Some a, q).
  split; [exact H|]. left. reflexivity.
Qed.

(* ---- product automata over named pairs ---- *)
Definition memp (A B : frag) (p : nat * nat) : Prop :=
  In (fst p) (f_states A) /\ In (snd p) (f_states B).

Definition psucc : Type := nat * nat -> list (option nat * (nat * nat)).

Record prod_ok (A B : frag) (ps : list (nat * nat)) (sc : psucc) (fin : list (nat * nat))
  : Prop := mkprod_ok {
  po_mem : forall p, In p ps -> memp A B p;
  po_closed : forall p l p', In p ps -> In (l, p') (sc p) -> In p' ps;
  po_nodup : NoDup ps;
  po_init : In (f_init A, f_init B) ps;
  po_noinit : forall p l, In p ps -> ~ In (l, (f_init A, f_init B)) (sc p);
  po_fin : forall p, In p fin -> In p ps }.

Definition pedges (A B : frag) (c : nat) (ps : list (nat * nat)) (sc : psucc) : list edge :=
  flat_map (fun p => map (fun lt => (pair_name A B c p, fst lt, pair_name A B c (snd lt))) (sc p)) ps.

Definition pfrag (A B : frag) (c : nat) ps (sc : psucc) fin : frag :=
  mkfrag (map (pair_name A B c) ps) (pedges A B c ps sc)
         (pair_name A B c (f_init A, f_init B)) (map (pair_name A B c) fin).

Inductive ppath (sc : psucc) : nat * nat -> word -> nat * nat -> Prop :=
| pp_refl p : ppath sc p [] p
| pp_step p l q r w : In (l, q) (sc p) -> ppath sc q w r -> ppath sc p (olist l ++ w) r.

Lemma pp_eps sc p q r w : In (None, q) (sc p) -> ppath sc q w r -> ppath sc p w r.
Proof. intros H1 H2. exact (pp_step sc p None q r w H1 H2). Qed.

Lemma pp_sym sc p a q r w : In (Some a, q) (sc p) -> ppath sc q w r -> ppath sc p (a :: w) r.
Proof. intros H1 H2. exact (pp_step sc p (Some a) q r w H1 H2). Qed.

Lemma ppath_app sc p u q v r : ppath sc p u q -> ppath sc q v r -> ppath sc p (u ++ v) r.
Proof.
  intros H1 H2. induction H1 as [q|p l q r' w He Hp IH]; simpl; [exact H2|].
  rewrite <- app_assoc. eapply pp_step; [exact He|]. apply IH. exact H2.
Qed.

Section Prod.
  Variables (A B : frag) (c : nat).
  Local Notation nm := (pair_name A B c).

  Lemma nm_inj p q : memp A B p -> memp A B q -> nm p = nm q -> p = q.
  Proof.
    intros [Hp1 Hp2] [Hq1 Hq2] E. unfold pair_name in E.
    destruct p as [pa pb]. destruct q as [qa qb]. simpl in *.
    assert (E' : index_of pa (f_states A) * length (f_states B) + index_of pb (f_states B) =
                 index_of qa (f_states A) * length (f_states B) + index_of qb (f_states B))
      by lia.
    apply mul_add_inj in E'; [|apply index_of_lt; assumption|apply index_of_lt; assumption].
    destruct E' as [E1 E2].
    apply index_of_inj in E1; [|assumption|assumption].
    apply index_of_inj in E2; [|assumption|assumption].
    subst. reflexivity.
  Qed.

  Lemma nm_range p :
    memp A B p -> c <= nm p < c + length (f_states A) * length (f_states B).
  Proof.
    intros [H1 H2]. unfold pair_name.
    pose proof (mul_add_lt _ _ _ _ (index_of_lt _ _ H1) (index_of_lt _ _ H2)). lia.
  Qed.

  Variable ps : list (nat * nat).
  Variable sc : psucc.
  Variable fin : list (nat * nat).
  Hypothesis Hok : prod_ok A B ps sc fin.

  Lemma pedges_In x l y :
    In (x, l, y) (pedges A B c ps sc) <->
    exists p p', x = nm p /\ y = nm p' /\ In p ps /\ In (l, p') (sc p).
  Proof.
    unfold pedges. rewrite in_flat_map. split.
    - intros [p [Hp H]]. apply in_map_iff in H. destruct H as [[l0 p'] [E H]].
      simpl in E. inversion E; subst. exists p, p'. auto.
    - intros [p [p' [-> [-> [Hp H]]]]]. exists p. split; [exact Hp|].
      apply in_map_iff. exists (l, p'). split; [reflexivity|exact H].
  Qed.

  Lemma ppath_in p w q : ppath sc p w q -> In p ps -> In q ps.
  Proof.
    intro H. induction H as [p|p l q r w Hs Hp IH]; intro Hi; [exact Hi|].
    apply IH. exact (po_closed _ _ _ _ _ Hok _ _ _ Hi Hs).
  Qed.

  Lemma ppath_fpath p w q :
    ppath sc p w q -> In p ps -> fpath (pedges A B c ps sc) (nm p) w (nm q).
  Proof.
    intro H. induction H as [p|p l q r w Hs Hp IH]; intro Hi; [constructor|].
    eapply fp_step.
    - apply pedges_In. exists p, q. auto.
    - apply IH. exact (po_closed _ _ _ _ _ Hok _ _ _ Hi Hs).
  Qed.

  Lemma fpath_ppath x w y :
    fpath (pedges A B c ps sc) x w y -> forall p, x = nm p -> In p ps ->
    exists q, y = nm q /\ In q ps /\ ppath sc p w q.
  Proof.
    intro H. induction H as [q|x l y r w He Hp IH]; intros p Ex Hi.
    - exists p. split; [exact Ex|]. split; [exact Hi|constructor].
    - apply pedges_In in He. destruct He as [p0 [p' [E1 [E2 [Hp0 Hs]]]]].
      assert (Ep : p0 = p).
      { apply nm_inj; [exact (po_mem _ _ _ _ _ Hok _ Hp0)|exact (po_mem _ _ _ _ _ Hok _ Hi)|].
        rewrite <- E1. exact Ex. }
      subst p0.
      destruct (IH p' E2 (po_closed _ _ _ _ _ Hok _ _ _ Hi Hs)) as [q [Eq [Hq Hpp]]].
      exists q. split; [exact Eq|]. split; [exact Hq|]. eapply pp_step; eassumption.
  Qed.

  Lemma pfrag_lang w :
    L_frag (pfrag A B c ps sc fin) w <-> exists q, ppath sc (f_init A, f_init B) w q /\ In q fin.
  Proof.
    unfold L_frag, pfrag. simpl. split.
    - intros [y [Hp Hf]]. apply in_map_iff in Hf. destruct Hf as [q [Eq Hq]].
      destruct (fpath_ppath _ _ _ Hp _ eq_refl (po_init _ _ _ _ _ Hok)) as [q' [Eq' [Hq' Hpp]]].
      assert (E : q' = q).
      { apply nm_inj; [exact (po_mem _ _ _ _ _ Hok _ Hq')| |congruence].
        apply (po_mem _ _ _ _ _ Hok). apply (po_fin _ _ _ _ _ Hok). exact Hq. }
      subst q'. exists q. split; assumption.
    - intros [q [Hpp Hq]]. exists (nm q). split.
      + apply ppath_fpath; [exact Hpp|exact (po_init _ _ _ _ _ Hok)].
      + apply in_map. exact Hq.
  Qed.

  Lemma pfrag_wf :
    wf c (pfrag A B c ps sc fin) (c + length (f_states A) * length (f_states B)).
  Proof.
    destruct Hok as [Hmem Hcl Hnd Hinit Hnoin Hfin].
    constructor; unfold pfrag; simpl.
    - intros q Hq. apply in_map_iff in Hq. destruct Hq as [p [<- Hp]].
      apply nm_range. apply Hmem. exact Hp.
    - apply NoDup_map_inj_on; [|exact Hnd]. intros x y Hx Hy. apply nm_inj; apply Hmem; assumption.
    - intros p l q He. apply pedges_In in He. destruct He as [p0 [p' [-> [-> [Hp0 Hs]]]]].
      apply in_map. exact Hp0.
    - intros p l q He. apply pedges_In in He. destruct He as [p0 [p' [-> [-> [Hp0 Hs]]]]].
      apply in_map. eapply Hcl; eassumption.
    - apply in_map. exact Hinit.
    - intros q Hq. apply in_map_iff in Hq. destruct Hq as [p [<- Hp]].
      apply in_map. apply Hfin. exact Hp.
    - intros p l He. apply pedges_In in He. destruct He as [p0 [p' [E1 [E2 [Hp0 Hs]]]]].
      assert (Ep : p' = (f_init A, f_init B)).
      { apply nm_inj; [apply Hmem; eapply Hcl; eassumption|apply Hmem; exact Hinit|].
        symmetry. exact E2. }
      subst p'. exact (Hnoin _ _ Hp0 Hs).
  Qed.
End Prod.

(* ---- intersection ---- *)
Lemma pair_eqb_ok : eqb_ok pair_eqb.
Proof. apply eqb_pair_ok; apply eqb_nat_ok. Qed.

Section Inter.
  Variables (A B : frag) (a0 a1 b0 b1 : nat).
  Hypothesis HA : wf a0 A a1.
  Hypothesis HB : wf b0 B b1.
  Local Notation syms := (set_of (sym_labels (f_edges A) ++ sym_labels (f_edges B))).
  Local Notation isucc := (inter_succ A B syms).
  Local Notation csucc := (fun p => map snd (inter_succ A B syms p)).

  Lemma inter_succ_In l qa qb qa' qb' :
    In (l, (qa', qb')) (isucc (qa, qb)) <->
    (l = None /\ qb' = qb /\ In (qa, None, qa') (f_edges A)) \/
    (l = None /\ qa' = qa /\ In (qb, None, qb') (f_edges B)) \/
    (exists s, l = Some s /\ In (qa, Some s, qa') (f_edges A) /\ In (qb, Some s, qb') (f_edges B)).
  Proof.
    unfold inter_succ. cbn [fst snd]. rewrite !in_app_iff. split.
    - intros [H|[H|H]].
      + apply in_map_iff in H. destruct H as [t [E Ht]]. inversion E; subst.
        apply targets_In in Ht. left. auto.
      + apply in_map_iff in H. destruct H as [t [E Ht]]. inversion E; subst.
        apply targets_In in Ht. right. left. auto.
      + apply in_flat_map in H. destruct H as [s [Hs H]].
        apply in_map_iff in H. destruct H as [[ta tb] [E Ht]]. inversion E; subst.
        apply in_prod_iff in Ht. destruct Ht as [H1 H2].
        apply targets_In in H1. apply targets_In in H2. right. right. exists s. auto.
    - intros [[-> [-> H]]|[[-> [-> H]]|[s [-> [H1 H2]]]]].
      + left. apply in_map_iff. exists qa'. split; [reflexivity|apply targets_In; exact H].
      + right. left. apply in_map_iff. exists qb'. split; [reflexivity|apply targets_In; exact H].
      + right. right. apply in_flat_map. exists s. split.
        * apply set_of_In. apply in_or_app. left. eapply sym_labels_In. exact H1.
        * apply in_map_iff. exists (qa', qb'). split; [reflexivity|].
          apply in_prod_iff. split; apply targets_In; assumption.
  Qed.

  Lemma isucc_mem p l p' : memp A B p -> In (l, p') (isucc p) -> memp A B p'.
  Proof.
    destruct p as [qa qb]. destruct p' as [qa' qb']. intros [H1 H2] Hs. simpl in H1, H2.
    apply inter_succ_In in Hs. unfold memp. simpl.
    destruct Hs as [[_ [-> H]]|[[_ [-> H]]|[s [_ [H3 H4]]]]].
    - split; [exact (wf_dst _ _ _ HA _ _ _ H)|exact H2].
    - split; [exact H1|exact (wf_dst _ _ _ HB _ _ _ H)].
    - split; [exact (wf_dst _ _ _ HA _ _ _ H3)|exact (wf_dst _ _ _ HB _ _ _ H4)].
  Qed.

  Lemma isucc_noinit p l : ~ In (l, (f_init A, f_init B)) (isucc p).
  Proof.
    destruct p as [qa qb]. intro Hs. apply inter_succ_In in Hs.
    destruct Hs as [[_ [_ H]]|[[_ [_ H]]|[s [_ [H _]]]]].
    - exact (wf_noin _ _ _ HA _ _ H).
    - exact (wf_noin _ _ _ HB _ _ H).
    - exact (wf_noin _ _ _ HA _ _ H).
  Qed.

  Lemma inter_reach_some : inter_reach A B syms <> None.
  Proof.
    unfold inter_reach.
    apply (closure_fuel _ _ pair_eqb_ok _ (list_prod (f_states A) (f_states B))).
    - intros [qa qb] y Hx Hy. apply in_map_iff in Hy. destruct Hy as [[l p'] [E Hs]].
      simpl in E. subst p'. apply in_prod_iff in Hx.
      destruct y as [qa' qb']. apply in_prod_iff.
      exact (isucc_mem (qa, qb) l (qa', qb') Hx Hs).
    - intros p [<-|[]]. apply in_prod_iff. split; [exact (wf_init _ _ _ HA)|exact (wf_init _ _ _ HB)].
    - rewrite prod_length. lia.
  Qed.

  Variable ps : list (nat * nat).
  Hypothesis Hps : inter_reach A B syms = Some ps.

  Definition ifin : list (nat * nat) :=
    filter (fun p => memb (fst p) (f_finals A) && memb (snd p) (f_finals B)) ps.

  Lemma inter_ok : prod_ok A B ps isucc ifin.
  Proof.
    unfold inter_reach in Hps.
    assert (Hmem : forall p, In p ps -> memp A B p).
    { intros p Hp. apply (closure_sound _ _ pair_eqb_ok _ _ _ _ Hps) in Hp.
      induction Hp as [x Hx|x y Hr IH Hy].
      - destruct Hx as [<-|[]]. split; [exact (wf_init _ _ _ HA)|exact (wf_init _ _ _ HB)].
      - apply in_map_iff in Hy. destruct Hy as [[l p'] [E Hs]]. simpl in E. subst p'.
        exact (isucc_mem _ _ _ IH Hs). }
    constructor.
    - exact Hmem.
    - intros p l p' Hp Hs. apply (closure_complete _ _ pair_eqb_ok _ _ _ _ Hps).
      eapply reach_step.
      + apply (closure_sound _ _ pair_eqb_ok _ _ _ _ Hps). exact Hp.
      + apply in_map_iff. exists (l, p'). split; [reflexivity|exact Hs].
    - exact (closure_NoDup _ _ pair_eqb_ok _ _ _ _ Hps).
    - apply (closure_complete _ _ pair_eqb_ok _ _ _ _ Hps). apply reach_init. left. reflexivity.
    - intros p l _. apply isucc_noinit.
    - intros p Hp. unfold ifin in Hp. apply filter_In in Hp. tauto.
  Qed.

  Lemma f_inter_eq c :
    f_inter A B c = (pfrag A B c ps isucc ifin, c + length (f_states A) * length (f_states B)).
  Proof. unfold f_inter. rewrite Hps. reflexivity. Qed.

  Lemma inter_ppath_sound p w p' :
    ppath isucc p w p' ->
    fpath (f_edges A) (fst p) w (fst p') /\ fpath (f_edges B) (snd p) w (snd p').
  Proof.
    intro H. induction H as [p|p l q r w Hs Hp [IH1 IH2]]; [split; constructor|].
    destruct p as [qa qb]. destruct q as [qa' qb']. apply inter_succ_In in Hs.
    destruct Hs as [[-> [-> H]]|[[-> [-> H]]|[s [-> [H1 H2]]]]]; simpl in *.
    - split; [eapply fpath_eps; eassumption|exact IH2].
    - split; [exact IH1|eapply fpath_eps; eassumption].
    - split; eapply fpath_sym; eassumption.
  Qed.

  Lemma inter_lift_A qa qa' qb :
    fpath (f_edges A) qa [] qa' -> ppath isucc (qa, qb) [] (qa', qb).
  Proof.
    intro H. remember [] as e eqn:Ee.
    induction H as [q|p l q r w He Hp IH]; [constructor|].
    destruct l as [s|]; simpl in *; [discriminate|].
    apply (pp_eps isucc (p, qb) (q, qb)); [|exact (IH Ee)].
    apply inter_succ_In. left. auto.
  Qed.

  Lemma inter_lift_B qa qb qb' :
    fpath (f_edges B) qb [] qb' -> ppath isucc (qa, qb) [] (qa, qb').
  Proof.
    intro H. remember [] as e eqn:Ee.
    induction H as [q|p l q r w He Hp IH]; [constructor|].
    destruct l as [s|]; simpl in *; [discriminate|].
    apply (pp_eps isucc (qa, p) (qa, q)); [|exact (IH Ee)].
    apply inter_succ_In. right. left. auto.
  Qed.

  Lemma inter_ppath_complete qa w qa' :
    fpath (f_edges A) qa w qa' -> forall qb qb', fpath (f_edges B) qb w qb' ->
    ppath isucc (qa, qb) w (qa', qb').
  Proof.
    intro H. induction H as [q|p l q r w He Hp IH]; intros qb qb' HpB.
    - apply inter_lift_B. exact HpB.
    - destruct l as [s|]; simpl in *.
      + apply fpath_cons_split in HpB. destruct HpB as [y1 [y2 [H1 [H2 H3]]]].
        change (s :: w) with ([] ++ s :: w).
        eapply ppath_app; [apply inter_lift_B; exact H1|].
        eapply pp_sym; [|apply IH; exact H3].
        apply inter_succ_In. right. right. exists s. auto.
      + eapply pp_eps; [|apply IH; exact HpB].
        apply inter_succ_In. left. auto.
  Qed.

  Lemma inter_lang_ps c :
    L_frag (pfrag A B c ps isucc ifin) =L l_inter (L_frag A) (L_frag B).
  Proof.
    intro w. rewrite (pfrag_lang A B c ps isucc ifin inter_ok w).
    unfold l_inter, L_frag. split.
    - intros [[qa' qb'] [Hpp Hf]]. unfold ifin in Hf. apply filter_In in Hf.
      destruct Hf as [_ Hf]. simpl in Hf. apply andb_true_iff in Hf. destruct Hf as [Hf1 Hf2].
      apply memb_In in Hf1. apply memb_In in Hf2.
      apply inter_ppath_sound in Hpp. simpl in Hpp. destruct Hpp as [H1 H2].
      split; [exists qa'|exists qb']; split; assumption.
    - intros [[qa' [H1 Hf1]] [qb' [H2 Hf2]]]. exists (qa', qb').
      assert (Hpp : ppath isucc (f_init A, f_init B) w (qa', qb'))
        by (apply inter_ppath_complete; assumption).
      split; [exact Hpp|]. unfold ifin. apply filter_In. split.
      + eapply (ppath_in A B ps isucc ifin inter_ok); [exact Hpp|].
        exact (po_init _ _ _ _ _ inter_ok).
      + simpl. apply andb_true_iff. split; apply memb_In; assumption.
  Qed.
End Inter.

Theorem inter_lang : forall a0 a1 b0 b1 A B c, wf a0 A a1 -> wf b0 B b1 ->
  L_frag (fst (f_inter A B c)) =L l_inter (L_frag A) (L_frag B).
Proof.
  intros a0 a1 b0 b1 A B c HA HB.
  destruct (inter_reach A B (set_of (sym_labels (f_edges A) ++ sym_labels (f_edges B))))
    as [ps|] eqn:Hps.
  - rewrite (f_inter_eq A B ps Hps c). simpl.
    exact (inter_lang_ps A B a0 a1 b0 b1 HA HB ps Hps c).
  - exfalso. exact (inter_reach_some A B a0 a1 b0 b1 HA HB Hps).
Qed.

Theorem inter_wf : forall a0 a1 b0 b1 A B c, wf a0 A a1 -> wf b0 B b1 ->
  wf c (fst (f_inter A B c)) (snd (f_inter A B c)).
Proof.
  intros a0 a1 b0 b1 A B c HA HB.
  destruct (inter_reach A B (set_of (sym_labels (f_edges A) ++ sym_labels (f_edges B))))
    as [ps|] eqn:Hps.
  - rewrite (f_inter_eq A B ps Hps c). simpl.
    apply pfrag_wf.
    exact (inter_ok A B a0 a1 b0 b1 HA HB ps Hps).
  - exfalso. exact (inter_reach_some A B a0 a1 b0 b1 HA HB Hps).
Qed.

(* ---- shuffle ---- *)
Section Shuffle.
  Variables (A B : frag) (a0 a1 b0 b1 : nat).
  Hypothesis HA : wf a0 A a1.
  Hypothesis HB : wf b0 B b1.
  Local Notation ssucc := (shuffle_succ A B).
  Local Notation sps := (list_prod (f_states A) (f_states B)).
  Local Notation sfin := (list_prod (f_finals A) (f_finals B)).

  Lemma shuffle_succ_In l qa qb qa' qb' :
    In (l, (qa', qb')) (ssucc (qa, qb)) <->
    (qb' = qb /\ In (qa, l, qa') (f_edges A)) \/ (qa' = qa /\ In (qb, l, qb') (f_edges B)).
  Proof.
    unfold shuffle_succ. cbn [fst snd]. rewrite in_app_iff, !in_map_iff. split.
    - intros [[e [E He]]|[e [E He]]]; apply out_edges_In in He; destruct He as [He Hs];
        destruct e as [[p l0] q]; unfold e_src, e_lab, e_dst in *; simpl in *;
        inversion E; subst; [left|right]; auto.
    - intros [[-> H]|[-> H]].
      + left. exists (qa, l, qa'). split; [reflexivity|].
        apply out_edges_In. split; [exact H|reflexivity].
      + right. exists (qb, l, qb'). split; [reflexivity|].
        apply out_edges_In. split; [exact H|reflexivity].
  Qed.

  Lemma shuffle_ok : prod_ok A B sps ssucc sfin.
  Proof.
    constructor.
    - intros [qa qb] Hp. apply in_prod_iff in Hp. exact Hp.
    - intros [qa qb] l [qa' qb'] Hp Hs. apply in_prod_iff in Hp. destruct Hp as [H1 H2].
      apply in_prod_iff. apply shuffle_succ_In in Hs. destruct Hs as [[-> H]|[-> H]].
      + split; [exact (wf_dst _ _ _ HA _ _ _ H)|exact H2].
      + split; [exact H1|exact (wf_dst _ _ _ HB _ _ _ H)].
    - apply NoDup_list_prod'; [exact (wf_nodup _ _ _ HA)|exact (wf_nodup _ _ _ HB)].
    - apply in_prod_iff. split; [exact (wf_init _ _ _ HA)|exact (wf_init _ _ _ HB)].
    - intros [qa qb] l _ Hs. apply shuffle_succ_In in Hs. destruct Hs as [[_ H]|[_ H]].
      + exact (wf_noin _ _ _ HA _ _ H).
      + exact (wf_noin _ _ _ HB _ _ H).
    - intros [qa qb] Hp. apply in_prod_iff in Hp. destruct Hp as [H1 H2].
      apply in_prod_iff. split; [exact (wf_finals _ _ _ HA _ H1)|exact (wf_finals _ _ _ HB _ H2)].
  Qed.

  Lemma f_shuffle_eq c :
    f_shuffle A B c = (pfrag A B c sps ssucc sfin, c + length (f_states A) * length (f_states B)).
  Proof. reflexivity. Qed.

  Lemma shuffle_ppath_sound p w p' :
    ppath ssucc p w p' ->
    exists u v, fpath (f_edges A) (fst p) u (fst p') /\ fpath (f_edges B) (snd p) v (snd p') /\
                shuffle u v w.
  Proof.
    intro H. induction H as [p|p l q r w Hs Hp IH].
    - exists [], []. split; [constructor|]. split; constructor.
    - destruct IH as [u [v [H1 [H2 H3]]]].
      destruct p as [qa qb]. destruct q as [qa' qb']. apply shuffle_succ_In in Hs.
      destruct Hs as [[-> H]|[-> H]]; simpl in *.
      + exists (olist l ++ u), v. split; [eapply fp_step; eassumption|]. split; [exact H2|].
        destruct l as [s|]; simpl; [apply sh_l|]; exact H3.
      + exists u, (olist l ++ v). split; [exact H1|]. split; [eapply fp_step; eassumption|].
        destruct l as [s|]; simpl; [apply sh_r|]; exact H3.
  Qed.

  Lemma shuffle_lift_A qa u qa' qb :
    fpath (f_edges A) qa u qa' -> ppath ssucc (qa, qb) u (qa', qb).
  Proof.
    intro H. induction H as [q|p l q r w He Hp IH]; [constructor|].
    eapply pp_step; [|exact IH]. apply shuffle_succ_In. left. auto.
  Qed.

  Lemma shuffle_lift_B qa qb v qb' :
    fpath (f_edges B) qb v qb' -> ppath ssucc (qa, qb) v (qa, qb').
  Proof.
    intro H. induction H as [q|p l q r w He Hp IH]; [constructor|].
    eapply pp_step; [|exact IH]. apply shuffle_succ_In. right. auto.
  Qed.

  Lemma shuffle_ppath_complete u v w :
    shuffle u v w -> forall qa qb qa' qb',
    fpath (f_edges A) qa u qa' -> fpath (f_edges B) qb v qb' ->
    ppath ssucc (qa, qb) w (qa', qb').
  Proof.
    intro H. induction H as [|s u v w Hs IH|s u v w Hs IH]; intros qa qb qa' qb' HpA HpB.
    - apply (ppath_app ssucc (qa, qb) [] (qa', qb) [] (qa', qb')).
      + apply shuffle_lift_A. exact HpA.
      + apply shuffle_lift_B. exact HpB.
    - apply fpath_cons_split in HpA. destruct HpA as [x1 [x2 [H1 [H2 H3]]]].
      change (s :: w) with ([] ++ s :: w).
      eapply ppath_app; [apply shuffle_lift_A; exact H1|].
      eapply pp_sym; [|apply IH; [exact H3|exact HpB]].
      apply shuffle_succ_In. left. auto.
    - apply fpath_cons_split in HpB. destruct HpB as [y1 [y2 [H1 [H2 H3]]]].
      change (s :: w) with ([] ++ s :: w).
      eapply ppath_app; [apply shuffle_lift_B; exact H1|].
      eapply pp_sym; [|apply IH; [exact HpA|exact H3]].
      apply shuffle_succ_In. right. auto.
  Qed.

  Lemma shuffle_lang_ps c :
    L_frag (pfrag A B c sps ssucc sfin) =L l_shuffle (L_frag A) (L_frag B).
  Proof.
    intro w. rewrite (pfrag_lang A B c sps ssucc sfin shuffle_ok w).
    unfold l_shuffle, L_frag. split.
    - intros [[qa' qb'] [Hpp Hf]]. apply in_prod_iff in Hf. destruct Hf as [Hf1 Hf2].
      apply shuffle_ppath_sound in Hpp. simpl in Hpp. destruct Hpp as [u [v [H1 [H2 H3]]]].
      exists u, v. split; [exists qa'; split; assumption|].
      split; [exists qb'; split; assumption|exact H3].
    - intros [u [v [[qa' [H1 Hf1]] [[qb' [H2 Hf2]] H3]]]]. exists (qa', qb'). split.
      + eapply shuffle_ppath_complete; eassumption.
      + apply in_prod_iff. split; assumption.
  Qed.
End Shuffle.

Theorem shuffle_lang : forall a0 a1 b0 b1 A B c, wf a0 A a1 -> wf b0 B b1 ->
  L_frag (fst (f_shuffle A B c)) =L l_shuffle (L_frag A) (L_frag B).
Proof.
  intros a0 a1 b0 b1 A B c HA HB. rewrite f_shuffle_eq. simpl.
  exact (shuffle_lang_ps A B a0 a1 b0 b1 HA HB c).
Qed.

Theorem shuffle_wf : forall a0 a1 b0 b1 A B c, wf a0 A a1 -> wf b0 B b1 ->
  wf c (fst (f_shuffle A B c)) (snd (f_shuffle A B c)).
Proof.
  intros a0 a1 b0 b1 A B c HA HB. rewrite f_shuffle_eq. simpl.
  apply pfrag_wf. exact (shuffle_ok A B a0 a1 b0 b1 HA HB).
Qed.

Print Assumptions inter_lang.
Print Assumptions inter_wf.
Print Assumptions shuffle_lang.
Print Assumptions shuffle_wf.
