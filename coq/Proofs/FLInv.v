(* C15 / from_finite_language: the invariant of the incremental construction (Model/FiniteLang.v) and its
   preservation by compress and add_to_trie.

   Inv s done u: `done` = the words inserted so far, `u` = the current path word (the prefixes of u are the
   states that are not yet compressed; during compress(word, next) u shrinks from word to their common prefix).
   - every prefix x of u is a state and accepts exactly { v | x ++ v in done }        (i_path, i_lang)
   - the path is a chain, and the only edge into a path state comes from its path parent (i_link, i_in)
   - every registered state (value of signatures_dict) is off the path and its stored signature is its
     current one                                                                        (i_sigs)
   - back_map of a path state is the singleton of its path parent                      (i_back)
   - every name in the tables is a prefix of an inserted word (i_names): the states of the next word
     beyond the common prefix are fresh
   - every state other than the root accepts some word (i_live; the root does as soon as a word is inserted, by i_lang): so the branching state has no edge yet on the next symbol. *)
From Coq Require Import List Arith Bool Lia.
From AV Require Import Base.Util Spec.Lang Spec.FA Spec.DictOrder Spec.Preds Model.FiniteLang Proofs.Preds Proofs.FLDict.
Import ListNotations.

(* ---------- semantics of the word-named table ---------- *)
Definition wdelta (tr : list (word * wrow)) (q : word) (a : nat) : option word :=
  match wassoc q tr with Some row => assoc a row | None => None end.

Definition wstep (tr : list (word * wrow)) (q : option word) (a : nat) : option word :=
  match q with Some x => wdelta tr x a | None => None end.

Fixpoint wrun (tr : list (word * wrow)) (q : option word) (w : word) : option word :=
  match w with [] => q | a :: r => wrun tr (wstep tr q a) r end.

Definition wfinal (fin : list word) (q : option word) : bool :=
  match q with Some x => wmem x fin | None => false end.

Definition wacc (s : flst) (q : word) (w : word) : bool := wfinal (fl_fin s) (wrun (fl_trans s) (Some q) w).

Lemma wrun_None tr w : wrun tr None w = None.
Proof. induction w as [|a w IH]; simpl; [reflexivity|exact IH]. Qed.

Lemma wrun_app tr q u v : wrun tr q (u ++ v) = wrun tr (wrun tr q u) v.
Proof. revert q. induction u as [|a u IH]; intro q; simpl; [reflexivity|apply IH]. Qed.

Lemma wdelta_key tr q a r : wdelta tr q a = Some r -> wassoc q tr <> None.
Proof. unfold wdelta. destruct (wassoc q tr); [discriminate|discriminate]. Qed.

Definition key (q : word) (tr : list (word * wrow)) : Prop := wassoc q tr <> None.
Definition bkey (q : word) (bk : list (word * list word)) : Prop := wassoc q bk <> None.

Record Inv (s : flst) (done : list word) (u : word) : Prop := mkInv {
  i_nodup : NoDup (map fst (fl_trans s));
  i_rows : forall q row, wassoc q (fl_trans s) = Some row -> NoDup (map fst row);
  i_path : forall x, pre x u -> key x (fl_trans s);
  i_link : forall x a, pre (x ++ [a]) u -> wdelta (fl_trans s) x a = Some (x ++ [a]);
  i_in : forall q a r, wdelta (fl_trans s) q a = Some r -> pre r u -> r = q ++ [a];
  i_lang : forall x, pre x u -> forall v, wacc s x v = true <-> In (x ++ v) done;
  i_sigs : forall sg q, In (sg, q) (fl_sigs s) ->
             ~ pre q u /\ compute_signature s q = Ok sg /\ bkey q (fl_back s);
  i_back : forall x a, pre (x ++ [a]) u -> wassoc (x ++ [a]) (fl_back s) = Some [x];
  i_closed : forall q a r, wdelta (fl_trans s) q a = Some r -> key r (fl_trans s);
  i_fin : forall q, In q (fl_fin s) -> key q (fl_trans s);
  i_findup : NoDup (fl_fin s);
  i_names : forall q, bkey q (fl_back s) -> q = [] \/ exists w, In w done /\ pre q w;
  i_keys : forall q, key q (fl_trans s) -> bkey q (fl_back s);
  i_syms : forall q a r, wdelta (fl_trans s) q a = Some r -> exists w, In w done /\ In a w;
  i_live : forall q, key q (fl_trans s) -> q <> [] -> exists v, wacc s q v = true }.

Lemma wacc_cons s y b v :
  wacc s y (b :: v) = match wdelta (fl_trans s) y b with Some t => wacc s t v | None => false end.
Proof.
  unfold wacc. simpl. destruct (wdelta (fl_trans s) y b); [reflexivity|]. rewrite wrun_None. reflexivity.
Qed.

(* the path states are reached from the root by their own name *)
Lemma path_run s done u : Inv s done u -> forall x, pre x u -> wrun (fl_trans s) (Some []) x = Some x.
Proof.
  intros HI x. induction x as [|b x IH] using rev_ind; intro Hp; [reflexivity|].
  rewrite wrun_app, (IH (pre_snoc_l _ _ _ Hp)). simpl. apply (i_link _ _ _ HI). exact Hp.
Qed.

Lemma no_edge_to_root s done u q a : Inv s done u -> wdelta (fl_trans s) q a <> Some [].
Proof.
  intros HI Hd. pose proof (i_in _ _ _ HI _ _ _ Hd (pre_nil u)) as E. destruct q; discriminate.
Qed.

(* ---------- the second half of the invariant (minimality): the states off the path are exactly the registered
   ones, no two registered states have the same signature, registered states are pairwise distinguishable, and
   every state is reached from the root ---------- *)
Definition registered (s : flst) (q : word) : Prop := exists sg, In (sg, q) (fl_sigs s).

Record InvM (s : flst) (u : word) : Prop := mkInvM {
  m_reg : forall q, key q (fl_trans s) -> ~ pre q u -> registered s q;
  m_uniq : forall sg q q', In (sg, q) (fl_sigs s) -> In (sg, q') (fl_sigs s) -> q = q';
  m_dist : forall q q', registered s q -> registered s q' -> q <> q' -> exists w, wacc s q w <> wacc s q' w;
  m_acc : forall q, key q (fl_trans s) -> exists x, wrun (fl_trans s) (Some []) x = Some q }.

(* ---------- compress: one round ---------- *)
Section CompressOne.
  Variables (s : flst) (done : list word) (x : word) (a : nat).
  Let p := x ++ [a].
  Hypothesis HI : Inv s done p.

  Lemma x_pre_p : pre x p.
  Proof. apply pre_app. Qed.

  Lemma p_not_pre_x : ~ pre p x.
  Proof. apply pre_not_longer. unfold p. rewrite app_length. simpl. lia. Qed.

  Lemma x_neq_p : x <> p.
  Proof. intro E. apply p_not_pre_x. rewrite <- E. apply pre_refl. Qed.

  (* not found: the state is registered, nothing else changes *)
  Lemma compress_register sg : compute_signature s p = Ok sg ->
    Inv (mkfl (fl_trans s) (fl_back s) (fl_fin s) (fl_sigs s ++ [(sg, p)])) done x.
  Proof.
    intro Hsg. destruct HI. constructor; simpl; try assumption.
    - intros y Hy. apply i_path0. eapply pre_trans; [exact Hy|apply x_pre_p].
    - intros y b Hy. apply i_link0. eapply pre_trans; [exact Hy|apply x_pre_p].
    - intros q b r Hd Hr. apply (i_in0 q b r Hd). eapply pre_trans; [exact Hr|apply x_pre_p].
    - intros y Hy. apply i_lang0. eapply pre_trans; [exact Hy|apply x_pre_p].
    - intros sg' q Hin. apply in_app_or in Hin. destruct Hin as [Hin|[Hin|[]]].
      + destruct (i_sigs0 _ _ Hin) as (H1 & H2 & H3). split; [|split; assumption].
        intro Hq. apply H1. eapply pre_trans; [exact Hq|apply x_pre_p].
      + inversion Hin; subst. split; [apply p_not_pre_x|]. split; [exact Hsg|].
        unfold bkey. unfold p. rewrite (i_back0 x a (pre_refl _)). discriminate.
    - intros y b Hy. apply i_back0. eapply pre_trans; [exact Hy|apply x_pre_p].
  Qed.

  (* a registered state with another signature is told apart from p: by finality, or by a symbol on which the
     rows differ (both targets registered and different, or one target missing and the other one live) *)
  Lemma dist_by_sig sg sg' q' : InvM s p -> compute_signature s p = Ok sg -> In (sg', q') (fl_sigs s) -> sg' <> sg ->
    exists w, wacc s p w <> wacc s q' w.
  Proof.
    intros HM Hsg Hin Hne. destruct (i_sigs _ _ _ HI _ _ Hin) as (Hq1 & Hq2 & _).
    unfold compute_signature in Hsg, Hq2.
    destruct (wassoc p (fl_trans s)) as [rp|] eqn:Ep; [|discriminate].
    destruct (wassoc q' (fl_trans s)) as [rq|] eqn:Eq; [|discriminate].
    inversion Hsg; subst sg. inversion Hq2; subst sg'. clear Hsg Hq2.
    destruct (Bool.eqb (wmem p (fl_fin s)) (wmem q' (fl_fin s))) eqn:Ef.
    - apply Bool.eqb_prop in Ef.
      assert (Hrows : sort_row rp <> sort_row rq) by (intro E; apply Hne; rewrite Ef, E; reflexivity).
      destruct (rows_differ rp rq (i_rows _ _ _ HI _ _ Ep) (i_rows _ _ _ HI _ _ Eq) Hrows) as [b Hb].
      assert (Hdp : wdelta (fl_trans s) p b = assoc b rp) by (unfold wdelta; rewrite Ep; reflexivity).
      assert (Hdq : wdelta (fl_trans s) q' b = assoc b rq) by (unfold wdelta; rewrite Eq; reflexivity).
      assert (Hregp : forall t, wdelta (fl_trans s) p b = Some t -> registered s t /\ t <> []).
      { intros t Hd. split.
        - apply (m_reg _ _ HM); [apply (i_closed _ _ _ HI _ _ _ Hd)|]. intro Hp.
          pose proof (i_in _ _ _ HI _ _ _ Hd Hp) as E. subst t. apply pre_length in Hp. rewrite app_length in Hp. simpl in Hp. lia.
        - intro E. subst t. exact (no_edge_to_root _ _ _ _ _ HI Hd). }
      assert (Hregq : forall t, wdelta (fl_trans s) q' b = Some t -> registered s t /\ t <> []).
      { intros t Hd. split.
        - apply (m_reg _ _ HM); [apply (i_closed _ _ _ HI _ _ _ Hd)|]. intro Hp.
          pose proof (i_in _ _ _ HI _ _ _ Hd Hp) as E. subst t. apply Hq1. eapply pre_snoc_l. exact Hp.
        - intro E. subst t. exact (no_edge_to_root _ _ _ _ _ HI Hd). }
      rewrite <- Hdp, <- Hdq in Hb.
      destruct (wdelta (fl_trans s) p b) as [t|] eqn:Edp; destruct (wdelta (fl_trans s) q' b) as [t'|] eqn:Edq.
      + destruct (Hregp t eq_refl) as [Hrt _]. destruct (Hregq t' eq_refl) as [Hrt' _].
        destruct (m_dist _ _ HM t t' Hrt Hrt') as [v Hv]; [congruence|].
        exists (b :: v). rewrite !wacc_cons, Edp, Edq. exact Hv.
      + destruct (Hregp t eq_refl) as [_ Hn]. destruct (i_live _ _ _ HI t (i_closed _ _ _ HI _ _ _ Edp) Hn) as [v Hv].
        exists (b :: v). rewrite !wacc_cons, Edp, Edq, Hv. discriminate.
      + destruct (Hregq t' eq_refl) as [_ Hn]. destruct (i_live _ _ _ HI t' (i_closed _ _ _ HI _ _ _ Edq) Hn) as [v Hv].
        exists (b :: v). rewrite !wacc_cons, Edp, Edq, Hv. discriminate.
      + contradiction.
    - exists []. unfold wacc. simpl. intro E. rewrite E in Ef. rewrite Bool.eqb_reflx in Ef. discriminate.
  Qed.

  Lemma compress_register_M sg : InvM s p -> compute_signature s p = Ok sg -> sassoc sg (fl_sigs s) = None ->
    InvM (mkfl (fl_trans s) (fl_back s) (fl_fin s) (fl_sigs s ++ [(sg, p)])) x.
  Proof.
    intros HM Hsg Hnone. pose proof (sassoc_None _ _ Hnone) as Hfresh.
    set (s1 := mkfl (fl_trans s) (fl_back s) (fl_fin s) (fl_sigs s ++ [(sg, p)])).
    assert (Hreg : forall y, registered s1 y <-> registered s y \/ y = p).
    { intro y. unfold registered. simpl. split.
      - intros [sg' Hin]. apply in_app_or in Hin. destruct Hin as [Hin|[Hin|[]]]; [left; eauto|right; congruence].
      - intros [[sg' Hin]| ->]; [exists sg'; apply in_or_app; left; exact Hin|exists sg; apply in_or_app; right; left; reflexivity]. }
    assert (Hpn : ~ registered s p).
    { intros [sg' Hin]. destruct (i_sigs _ _ _ HI _ _ Hin) as (H1 & _). apply H1. apply pre_refl. }
    assert (Hd : forall y, registered s y -> exists w, wacc s p w <> wacc s y w).
    { intros y [sg' Hin]. apply (dist_by_sig sg sg' y HM Hsg Hin). intros ->. exact (Hfresh y Hin). }
    constructor; simpl.
    - intros y Hk Hn. apply Hreg. destruct (weq_dec y p) as [->|Hyp]; [right; reflexivity|left].
      apply (m_reg _ _ HM y Hk). intro Hp. destruct (pre_snoc_cases _ _ _ Hp) as [H|H]; [contradiction|]. exact (Hyp H).
    - intros sg0 y y' H1 H2. apply in_app_or in H1. apply in_app_or in H2.
      destruct H1 as [H1|[H1|[]]]; destruct H2 as [H2|[H2|[]]].
      + exact (m_uniq _ _ HM _ _ _ H1 H2).
      + inversion H2; subst. exfalso. exact (Hfresh _ H1).
      + inversion H1; subst. exfalso. exact (Hfresh _ H2).
      + congruence.
    - intros y y' Hy Hy' Hne. apply Hreg in Hy. apply Hreg in Hy'.
      change (exists w, wacc s y w <> wacc s y' w).
      destruct Hy as [Hy| ->]; destruct Hy' as [Hy'| ->].
      + exact (m_dist _ _ HM y y' Hy Hy' Hne).
      + destruct (Hd y Hy) as [w Hw]. exists w. congruence.
      + exact (Hd y' Hy').
      + contradiction.
    - exact (m_acc _ _ HM).
  Qed.

  (* found an identical registered state q *)
  Variables (sg : sigT) (q : word).
  Hypothesis Hsg : compute_signature s p = Ok sg.
  Hypothesis Hq : In (sg, q) (fl_sigs s).

  Let sub (r : word) : word := if word_eqb r p then q else r.

  Lemma q_facts : ~ pre q p /\ q <> p /\ q <> x /\ key q (fl_trans s) /\ bkey q (fl_back s) /\
                  wmem q (fl_fin s) = wmem p (fl_fin s) /\
                  (forall b, wdelta (fl_trans s) q b = wdelta (fl_trans s) p b).
  Proof.
    destruct (i_sigs _ _ _ HI _ _ Hq) as (H1 & H2 & H3).
    split; [exact H1|]. split; [intro E; apply H1; rewrite E; apply pre_refl|].
    split; [intro E; apply H1; rewrite E; apply x_pre_p|].
    unfold compute_signature in H2, Hsg.
    destruct (wassoc q (fl_trans s)) as [rq|] eqn:Eq; [|discriminate].
    destruct (wassoc p (fl_trans s)) as [rp|] eqn:Ep; [|discriminate].
    assert (Es : (wmem q (fl_fin s), sort_row rq) = (wmem p (fl_fin s), sort_row rp)) by congruence.
    injection Es as Hf Hr.
    split; [unfold key; rewrite Eq; discriminate|]. split; [exact H3|]. split; [exact Hf|].
    intro b. unfold wdelta. rewrite Eq, Ep.
    rewrite <- (assoc_sort_row b rq (i_rows _ _ _ HI _ _ Eq)), <- (assoc_sort_row b rp (i_rows _ _ _ HI _ _ Ep)).
    congruence.
  Qed.

  Variables (rowx : wrow) (lq : list word).
  Hypothesis Hrowx : wassoc x (fl_trans s) = Some rowx.
  Hypothesis Hlq : wassoc q (fl_back s) = Some lq.

  Let tr' := wset x (redirect p q rowx) (wdel p (fl_trans s)).
  Let bk' := wset q (wadd x lq) (fl_back s).
  Let s' := mkfl tr' bk' (wdiscard p (fl_fin s)) (fl_sigs s).

  Lemma tr'_lookup y : wassoc y tr' =
    if word_eqb y x then Some (redirect p q rowx) else if word_eqb y p then None else wassoc y (fl_trans s).
  Proof. unfold tr'. rewrite wassoc_wset, wassoc_wdel. reflexivity. Qed.

  Lemma tr'_redirect y : y <> p -> wassoc y tr' = option_map (redirect p q) (wassoc y (fl_trans s)).
  Proof.
    intro Hy. rewrite tr'_lookup. weq y x; [subst; rewrite Hrowx; reflexivity|].
    weq y p; [contradiction|]. destruct (wassoc y (fl_trans s)) as [row|] eqn:Er; [|reflexivity]. simpl.
    f_equal. symmetry. apply redirect_id; [|apply (i_rows _ _ _ HI _ _ Er)].
    intros b Hb. assert (Hd : wdelta (fl_trans s) y b = Some p) by (unfold wdelta; rewrite Er; exact Hb).
    pose proof (i_in _ _ _ HI _ _ _ Hd (pre_refl _)) as E1. unfold p in E1. apply app_inj_tail in E1. destruct E1; congruence.
  Qed.

  Lemma tr'_key y : key y tr' <-> y <> p /\ key y (fl_trans s).
  Proof.
    unfold key. rewrite tr'_lookup. weq y x.
    - subst. split; [intros _; split; [apply x_neq_p|rewrite Hrowx; discriminate]|discriminate].
    - weq y p; [tauto|]. tauto.
  Qed.

  Lemma delta'_sub y b : y <> p -> wdelta tr' y b = option_map sub (wdelta (fl_trans s) y b).
  Proof.
    intro Hy. unfold wdelta. rewrite (tr'_redirect y Hy). destruct (wassoc y (fl_trans s)); [|reflexivity].
    simpl. apply assoc_redirect.
  Qed.

  Lemma delta'_sub_all y b : wdelta tr' (sub y) b = option_map sub (wdelta (fl_trans s) y b).
  Proof.
    destruct q_facts as (_ & Hqp & _ & _ & _ & _ & Hd). unfold sub at 1. weq y p.
    - subst y. rewrite (delta'_sub q b Hqp). rewrite Hd. reflexivity.
    - apply delta'_sub. assumption.
  Qed.

  Lemma run'_sub v : forall oy, wrun tr' (option_map sub oy) v = option_map sub (wrun (fl_trans s) oy v).
  Proof.
    induction v as [|b v IH]; intro oy; simpl; [reflexivity|].
    destruct oy as [y|]; simpl.
    - rewrite delta'_sub_all. apply IH.
    - apply (IH None).
  Qed.

  Lemma final'_sub oy : wfinal (wdiscard p (fl_fin s)) (option_map sub oy) = wfinal (fl_fin s) oy.
  Proof.
    destruct q_facts as (_ & Hqp & _ & _ & _ & Hf & _).
    destruct oy as [y|]; simpl; [|reflexivity]. rewrite wmem_wdiscard. unfold sub. weq y p.
    - subst y. weq q p; [contradiction|]. simpl. exact Hf.
    - weq y p; [contradiction|]. reflexivity.
  Qed.

  Lemma acc'_sub y v : wacc s' (sub y) v = wacc s y v.
  Proof. unfold wacc. simpl. change (Some (sub y)) with (option_map sub (Some y)). rewrite run'_sub. apply final'_sub. Qed.

  Lemma sub_id y : y <> p -> sub y = y.
  Proof. intro H. unfold sub. weq y p; [contradiction|reflexivity]. Qed.

  Lemma compress_merge : Inv s' done x.
  Proof.
    destruct q_facts as (Hq1 & Hqp & Hqx & Hqk & Hqb & Hqf & Hqd).
    assert (Hpre : forall y, pre y x -> pre y p) by (intros y Hy; eapply pre_trans; [exact Hy|apply x_pre_p]).
    assert (Hne : forall y, pre y x -> y <> p) by (intros y Hy E; subst; exact (p_not_pre_x Hy)).
    constructor; simpl.
    - unfold tr'. apply wset_NoDup. apply wdel_NoDup. apply (i_nodup _ _ _ HI).
    - intros y row Hy. rewrite tr'_lookup in Hy. weq y x.
      + inversion Hy. rewrite redirect_keys. apply (i_rows _ _ _ HI _ _ Hrowx).
      + weq y p; [discriminate|]. apply (i_rows _ _ _ HI _ _ Hy).
    - intros y Hy. apply tr'_key. split; [apply Hne; exact Hy|apply (i_path _ _ _ HI); apply Hpre; exact Hy].
    - intros y b Hy. rewrite delta'_sub by (apply Hne; eapply pre_snoc_l; exact Hy).
      rewrite (i_link _ _ _ HI y b (Hpre _ Hy)). simpl. rewrite sub_id; [reflexivity|apply Hne; exact Hy].
    - intros y b r Hd Hr. assert (Hy : y <> p).
      { intro E. subst y. apply wdelta_key in Hd. apply tr'_key in Hd. tauto. }
      rewrite (delta'_sub y b Hy) in Hd. destruct (wdelta (fl_trans s) y b) as [r0|] eqn:E0; [|discriminate].
      simpl in Hd. inversion Hd; subst r. unfold sub in *. weq r0 p.
      + exfalso. apply Hq1. apply Hpre. exact Hr.
      + apply (i_in _ _ _ HI _ _ _ E0). apply Hpre. exact Hr.
    - intros y Hy v. rewrite <- (i_lang _ _ _ HI y (Hpre _ Hy) v). rewrite <- (acc'_sub y v). rewrite (sub_id y (Hne _ Hy)). reflexivity.
    - intros sg' q' Hin. destruct (i_sigs _ _ _ HI _ _ Hin) as (H1 & H2 & H3).
      split; [intro H; apply H1; apply Hpre; exact H|]. split.
      + unfold compute_signature in *. simpl. rewrite tr'_lookup.
        weq q' x; [exfalso; apply H1; subst; apply x_pre_p|].
        weq q' p; [exfalso; apply H1; subst; apply pre_refl|].
        rewrite wmem_wdiscard. weq q' p; [contradiction|]. exact H2.
      + unfold bkey, bk'. rewrite wassoc_wset. destruct (word_eqb q' q); [discriminate|exact H3].
    - intros y b Hy. unfold bk'. rewrite wassoc_wset. weq (y ++ [b]) q.
      + exfalso. apply Hq1. rewrite <- E. apply Hpre. exact Hy.
      + apply (i_back _ _ _ HI). apply Hpre. exact Hy.
    - intros y b r Hd. assert (Hy : y <> p).
      { intro E. subst y. apply wdelta_key in Hd. apply tr'_key in Hd. tauto. }
      rewrite (delta'_sub y b Hy) in Hd. destruct (wdelta (fl_trans s) y b) as [r0|] eqn:E0; [|discriminate].
      simpl in Hd. inversion Hd; subst r. apply tr'_key. unfold sub. weq r0 p.
      + split; assumption.
      + split; [assumption|apply (i_closed _ _ _ HI _ _ _ E0)].
    - intros y Hy. apply wdiscard_In in Hy. apply tr'_key. split; [tauto|apply (i_fin _ _ _ HI); tauto].
    - apply wdiscard_NoDup. apply (i_findup _ _ _ HI).
    - intros y Hy. apply (i_names _ _ _ HI). unfold bkey, bk' in Hy. rewrite wassoc_wset in Hy.
      weq y q; [subst; exact Hqb|exact Hy].
    - intros y Hy. apply tr'_key in Hy. unfold bkey, bk'. rewrite wassoc_wset.
      destruct (word_eqb y q); [discriminate|apply (i_keys _ _ _ HI); tauto].
    - intros y b r Hd. assert (Hy : y <> p).
      { intro E. subst y. apply wdelta_key in Hd. apply tr'_key in Hd. tauto. }
      rewrite (delta'_sub y b Hy) in Hd. destruct (wdelta (fl_trans s) y b) as [r0|] eqn:E0; [|discriminate].
      apply (i_syms _ _ _ HI _ _ _ E0).
    - intros y Hy Hyn. apply tr'_key in Hy. destruct Hy as [Hy Hk]. destruct (i_live _ _ _ HI y Hk Hyn) as [v Hv].
      exists v. rewrite <- Hv. rewrite <- (acc'_sub y v). rewrite (sub_id y Hy). reflexivity.
  Qed.

  Lemma compress_merge_M : InvM s p -> InvM s' x.
  Proof.
    intro HM. destruct q_facts as (Hq1 & Hqp & Hqx & Hqk & Hqb & Hqf & Hqd).
    assert (Hregp : forall y, registered s y -> y <> p).
    { intros y [sg' Hin] ->. destruct (i_sigs _ _ _ HI _ _ Hin) as (H1 & _). apply H1. apply pre_refl. }
    constructor; simpl.
    - intros y Hk Hn. apply tr'_key in Hk. destruct Hk as [Hyp Hk].
      change (registered s y). apply (m_reg _ _ HM y Hk). intro Hp.
      destruct (pre_snoc_cases _ _ _ Hp) as [H|H]; [contradiction|]. exact (Hyp H).
    - exact (m_uniq _ _ HM).
    - intros y y' Hy Hy' Hne. change (registered s y) in Hy. change (registered s y') in Hy'.
      destruct (m_dist _ _ HM y y' Hy Hy' Hne) as [w Hw]. exists w.
      rewrite <- (sub_id y (Hregp y Hy)), <- (sub_id y' (Hregp y' Hy')), !acc'_sub. exact Hw.
    - intros y Hk. apply tr'_key in Hk. destruct Hk as [Hyp Hk]. destruct (m_acc _ _ HM y Hk) as [w Hw].
      exists w. pose proof (run'_sub w (Some [])) as Hr. simpl in Hr. rewrite Hw in Hr. simpl in Hr.
      rewrite (sub_id y Hyp) in Hr. rewrite sub_id in Hr; [exact Hr|]. intro E. unfold p in E. destruct x; discriminate.
  Qed.
End CompressOne.

(* which of the two branches compress_one takes, with the resulting tables *)
Lemma compress_one_cases s done x a : Inv s done (x ++ [a]) ->
  let p := x ++ [a] in
  (exists sg, compute_signature s p = Ok sg /\ sassoc sg (fl_sigs s) = None /\
     compress_one s p = Ok (mkfl (fl_trans s) (fl_back s) (fl_fin s) (fl_sigs s ++ [(sg, p)]))) \/
  (exists sg q rowx lq, compute_signature s p = Ok sg /\ In (sg, q) (fl_sigs s) /\
     wassoc x (fl_trans s) = Some rowx /\ wassoc q (fl_back s) = Some lq /\
     compress_one s p = Ok (mkfl (wset x (redirect p q rowx) (wdel p (fl_trans s))) (wset q (wadd x lq) (fl_back s))
                                 (wdiscard p (fl_fin s)) (fl_sigs s))).
Proof.
  intros HI p.
  pose proof (i_path _ _ _ HI p (pre_refl _)) as Hkp.
  destruct (wassoc p (fl_trans s)) as [rowp|] eqn:Ep; [|exfalso; apply Hkp; exact Ep].
  unfold compress_one.
  assert (Hsg : compute_signature s p = Ok (wmem p (fl_fin s), sort_row rowp))
    by (unfold compute_signature; rewrite Ep; reflexivity).
  rewrite Hsg. simpl. destruct (sassoc _ (fl_sigs s)) as [q|] eqn:Es.
  - right. pose proof (sassoc_In _ _ _ Es) as Hin.
    destruct (q_facts s done x a HI _ q Hsg Hin) as (Hq1 & Hqp & Hqx & Hqk & Hqb & _).
    assert (Eb : wassoc p (fl_back s) = Some [x]) by (apply (i_back _ _ _ HI x a (pre_refl _))).
    rewrite Ep, Eb. simpl.
    rewrite wassoc_wdel. weq x p; [exfalso; exact (x_neq_p x a E)|].
    pose proof (i_path _ _ _ HI x (pre_app x [a])) as Hkx.
    destruct (wassoc x (fl_trans s)) as [rowx|] eqn:Ex; [|exfalso; apply Hkx; exact Ex].
    destruct (wassoc q (fl_back s)) as [lq|] eqn:Eq; [|exfalso; apply Hqb; exact Eq].
    simpl. exists (wmem p (fl_fin s), sort_row rowp), q, rowx, lq. repeat split; try assumption; reflexivity.
  - left. exists (wmem p (fl_fin s), sort_row rowp). repeat split; try assumption; reflexivity.
Qed.

Lemma compress_one_ok s done x a : Inv s done (x ++ [a]) ->
  exists s', compress_one s (x ++ [a]) = Ok s' /\ Inv s' done x.
Proof.
  intro HI. destruct (compress_one_cases s done x a HI) as [(sg & Hsg & Hn & E)|(sg & q & rowx & lq & Hsg & Hin & Ex & Eq & E)].
  - eexists. split; [exact E|]. apply (compress_register s done x a HI). exact Hsg.
  - eexists. split; [exact E|]. exact (compress_merge s done x a HI _ q Hsg Hin rowx lq Ex).
Qed.

Lemma compress_one_ok_M s done x a : Inv s done (x ++ [a]) -> InvM s (x ++ [a]) ->
  exists s', compress_one s (x ++ [a]) = Ok s' /\ Inv s' done x /\ InvM s' x.
Proof.
  intros HI HM. destruct (compress_one_cases s done x a HI) as [(sg & Hsg & Hn & E)|(sg & q & rowx & lq & Hsg & Hin & Ex & Eq & E)].
  - eexists. split; [exact E|]. split; [apply (compress_register s done x a HI); exact Hsg|].
    exact (compress_register_M s done x a HI sg HM Hsg Hn).
  - eexists. split; [exact E|]. split; [exact (compress_merge s done x a HI _ q Hsg Hin rowx lq Ex)|].
    exact (compress_merge_M s done x a HI _ q Hsg Hin rowx lq Ex HM).
Qed.

Lemma firstn_S_snoc (w : word) j : j < length w -> firstn (S j) w = firstn j w ++ [nth j w 0].
Proof.
  revert j. induction w as [|b w IH]; intros j Hj; simpl in Hj; [lia|].
  destruct j as [|j]; [reflexivity|]. simpl. f_equal. apply IH. lia.
Qed.

Lemma compress_steps_ok done w : forall k i s, Inv s done (firstn i w) -> i <= length w -> k <= i ->
  exists s', compress_steps s w i k = Ok s' /\ Inv s' done (firstn (i - k) w).
Proof.
  induction k as [|k IH]; intros i s HI Hi Hk; simpl.
  - exists s. split; [reflexivity|]. rewrite Nat.sub_0_r. exact HI.
  - destruct i as [|j]; [lia|]. rewrite (firstn_S_snoc w j) in * by lia.
    destruct (compress_one_ok s done _ _ HI) as [s1 [E1 HI1]]. rewrite E1. simpl.
    destruct (IH j s1 HI1) as [s2 [E2 HI2]]; [lia|lia|]. exists s2. split; [exact E2|exact HI2].
Qed.

Lemma lcp_le u v : lcp_len u v <= length u.
Proof. destruct (lcp_spec u v) as (c & p & q & -> & _ & <- & _). rewrite app_length. lia. Qed.

Lemma compress_ok s done w next : Inv s done w ->
  exists s', compress s w next = Ok s' /\ Inv s' done (firstn (lcp_len w next) w).
Proof.
  intro HI. unfold compress. pose proof (lcp_le w next) as Hl.
  destruct (compress_steps_ok done w (length w - lcp_len w next) (length w) s) as [s' [E HI']].
  - rewrite firstn_all. exact HI.
  - lia.
  - lia.
  - exists s'. split; [exact E|]. replace (length w - (length w - lcp_len w next)) with (lcp_len w next) in HI' by lia.
    exact HI'.
Qed.

Lemma compress_steps_ok_M done w : forall k i s, Inv s done (firstn i w) -> InvM s (firstn i w) -> i <= length w -> k <= i ->
  exists s', compress_steps s w i k = Ok s' /\ Inv s' done (firstn (i - k) w) /\ InvM s' (firstn (i - k) w).
Proof.
  induction k as [|k IH]; intros i s HI HM Hi Hk; simpl.
  - exists s. split; [reflexivity|]. rewrite Nat.sub_0_r. split; assumption.
  - destruct i as [|j]; [lia|]. rewrite (firstn_S_snoc w j) in * by lia.
    destruct (compress_one_ok_M s done _ _ HI HM) as [s1 [E1 [HI1 HM1]]]. rewrite E1. simpl.
    destruct (IH j s1 HI1 HM1) as [s2 [E2 H2]]; [lia|lia|]. exists s2. split; [exact E2|exact H2].
Qed.

Lemma compress_ok_M s done w next : Inv s done w -> InvM s w ->
  exists s', compress s w next = Ok s' /\ Inv s' done (firstn (lcp_len w next) w) /\ InvM s' (firstn (lcp_len w next) w).
Proof.
  intros HI HM. unfold compress. pose proof (lcp_le w next) as Hl.
  destruct (compress_steps_ok_M done w (length w - lcp_len w next) (length w) s) as [s' [E H']].
  - rewrite firstn_all. exact HI.
  - rewrite firstn_all. exact HM.
  - lia.
  - lia.
  - exists s'. split; [exact E|]. replace (length w - (length w - lcp_len w next)) with (lcp_len w next) in H' by lia.
    exact H'.
Qed.
