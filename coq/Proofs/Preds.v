(* The boolean predicates of Spec/Preds.v decide the declarative ones. *)
From Coq Require Import List Arith Bool Lia.
From AV Require Import Base.Util Spec.Lang Spec.Preds.
Import ListNotations.

Lemma overb_spec syms w : overb syms w = true <-> Forall (fun a => In a syms) w.
Proof.
  unfold overb. rewrite forallb_forall, Forall_forall. split; intros H x Hx.
  - apply memb_In. apply H. exact Hx.
  - apply memb_In. apply H. exact Hx.
Qed.

Lemma overb_app syms u v : overb syms (u ++ v) = overb syms u && overb syms v.
Proof. unfold overb. apply forallb_app. Qed.

Lemma prefixb_spec p w : prefixb p w = true <-> has_prefix p w.
Proof.
  revert w. induction p as [|a p IH]; intro w; simpl.
  - split; [intros _; exists w; reflexivity|reflexivity].
  - destruct w as [|b w].
    + split; [discriminate|]. intros [v Hv]. discriminate.
    + rewrite andb_true_iff, Nat.eqb_eq, IH. split.
      * intros [-> [v ->]]. exists v. reflexivity.
      * intros [v Hv]. simpl in Hv. inversion Hv; subst. split; [reflexivity|]. exists v. reflexivity.
Qed.

Lemma suffixb_spec p w : suffixb p w = true <-> has_suffix p w.
Proof.
  unfold suffixb. rewrite prefixb_spec. split.
  - intros [v Hv]. exists (rev v). rewrite <- (rev_involutive w), Hv, rev_app_distr, rev_involutive. reflexivity.
  - intros [u ->]. exists (rev u). apply rev_app_distr.
Qed.

Lemma substringb_spec p w : substringb p w = true <-> contains_substring p w.
Proof.
  induction w as [|b w IH]; simpl.
  - rewrite orb_false_r, prefixb_spec. split.
    + intros [v Hv]. exists [], v. exact Hv.
    + intros [u [v Hv]]. destruct u as [|x u]; [exists v; exact Hv|discriminate].
  - rewrite orb_true_iff, prefixb_spec, IH. split.
    + intros [[v Hv]|[u [v Hv]]].
      * exists [], v. exact Hv.
      * exists (b :: u), v. rewrite Hv. reflexivity.
    + intros [u [v Hv]]. destruct u as [|x u].
      * left. exists v. exact Hv.
      * right. simpl in Hv. inversion Hv; subst. exists u, v. reflexivity.
Qed.

Lemma subseq_tail a p w : subseq (a :: p) w -> subseq p w.
Proof.
  intro H. remember (a :: p) as ap eqn:E. revert a p E.
  induction H as [w|p' b w H IH|b p' w H IH]; intros a p E.
  - discriminate.
  - apply subseq_skip. eapply IH. exact E.
  - inversion E; subst. apply subseq_skip. exact H.
Qed.

Lemma subseqb_spec p w : subseqb p w = true <-> subseq p w.
Proof.
  revert p. induction w as [|b w IH]; intro p; simpl.
  - destruct p as [|a p].
    + split; [intros _; constructor|reflexivity].
    + split; [discriminate|]. intro H. inversion H.
  - destruct p as [|a p].
    + split; [intros _; constructor|reflexivity].
    + destruct (Nat.eqb a b) eqn:E.
      * apply Nat.eqb_eq in E. subst. rewrite IH. split.
        -- intro H. apply subseq_take. exact H.
        -- intro H. inversion H; subst; [|assumption]. eapply subseq_tail. eassumption.
      * apply Nat.eqb_neq in E. rewrite IH. split.
        -- intro H. apply subseq_skip. exact H.
        -- intro H. inversion H; subst; [assumption|congruence].
Qed.

Lemma rangeb_spec cs lo hi w : rangeb cs lo hi w = true <-> length_in_range cs lo hi w.
Proof.
  unfold rangeb, length_in_range. rewrite andb_true_iff, Nat.leb_le.
  destruct hi as [h|]; [rewrite Nat.leb_le|]; tauto.
Qed.

Lemma modb_spec cs k rems w : modb cs k rems w = true <-> count_mod_in cs k rems w.
Proof. unfold modb, count_mod_in. apply memb_In. Qed.

Lemma nth_error_split_iff (w : word) i s :
  nth_error w i = Some s <-> exists u v, w = u ++ s :: v /\ length u = i.
Proof.
  split.
  - intro H. apply nth_error_split in H. exact H.
  - intros [u [v [-> Hl]]]. subst i. rewrite nth_error_app2 by lia. rewrite Nat.sub_diag. reflexivity.
Qed.

Lemma nth_startb_spec s n w : nth_startb s n w = true <-> nth_from_start_is s n w.
Proof.
  unfold nth_startb, nth_from_start_is. destruct n as [|i].
  - split; [discriminate|]. intros [u [v [_ H]]]. discriminate.
  - destruct (nth_error w i) as [c|] eqn:E.
    + rewrite Nat.eqb_eq. split.
      * intros ->. apply nth_error_split_iff in E. destruct E as [u [v [-> Hl]]].
        exists u, v. split; [reflexivity|lia].
      * intros [u [v [Hw Hl]]].
        assert (E' : nth_error w i = Some s) by (apply nth_error_split_iff; exists u, v; split; [exact Hw|lia]).
        congruence.
    + split; [discriminate|]. intros [u [v [Hw Hl]]].
      assert (E' : nth_error w i = Some s) by (apply nth_error_split_iff; exists u, v; split; [exact Hw|lia]).
      congruence.
Qed.

Lemma nth_endb_spec s n w : nth_endb s n w = true <-> nth_from_end_is s n w.
Proof.
  unfold nth_endb. rewrite nth_startb_spec. unfold nth_from_start_is, nth_from_end_is. split.
  - intros [u [v [Hw Hl]]]. exists (rev v), (rev u). split.
    + rewrite <- (rev_involutive w), Hw, rev_app_distr. simpl. rewrite <- app_assoc. reflexivity.
    + rewrite rev_length. exact Hl.
  - intros [u [v [-> Hl]]]. exists (rev v), (rev u). split.
    + rewrite rev_app_distr. simpl. rewrite <- app_assoc. reflexivity.
    + rewrite rev_length. exact Hl.
Qed.

Lemma memberb_spec lang w : memberb lang w = true <-> member_of lang w.
Proof.
  unfold memberb, member_of. rewrite existsb_exists. split.
  - intros [x [Hx E]]. apply (eqb_list_ok _ eqb_nat_ok) in E. subst. exact Hx.
  - intro H. exists w. split; [exact H|]. apply (eqb_list_ok _ eqb_nat_ok). reflexivity.
Qed.

Lemma anysubb_spec pats w : anysubb pats w = true <-> contains_any pats w.
Proof.
  unfold anysubb, contains_any. rewrite existsb_exists. split.
  - intros [p [Hp E]]. exists p. split; [exact Hp|]. apply substringb_spec. exact E.
  - intros [p [Hp E]]. exists p. split; [exact Hp|]. apply substringb_spec. exact E.
Qed.

Lemma anysufb_spec pats w : anysufb pats w = true <-> ends_with_any pats w.
Proof.
  unfold anysufb, ends_with_any. rewrite existsb_exists. split.
  - intros [p [Hp E]]. exists p. split; [exact Hp|]. apply suffixb_spec. exact E.
  - intros [p [Hp E]]. exists p. split; [exact Hp|]. apply suffixb_spec. exact E.
Qed.

(* counted: basic equations *)
Lemma counted_nil cs : counted cs [] = 0.
Proof. reflexivity. Qed.
Lemma counted_cons cs a w : counted cs (a :: w) = (if memb a cs then 1 else 0) + counted cs w.
Proof. unfold counted. simpl. destruct (memb a cs); reflexivity. Qed.

Lemma flagb_spec c b (P : Prop) : (b = true <-> P) -> (flagb c b = true <-> flagP c P).
Proof.
  intro H. destruct c; simpl; [exact H|]. rewrite negb_true_iff. split.
  - intros E HP. apply H in HP. congruence.
  - intro N. destruct b; [exfalso; apply N, H; reflexivity|reflexivity].
Qed.

Lemma promised_spec syms c (P : word -> Prop) (pb : word -> bool) (acc : word -> bool) :
  (forall w, pb w = true <-> P w) ->
  (forall w, acc w = overb syms w && flagb c (pb w)) ->
  forall w, acc w = true <-> promised syms c P w.
Proof.
  intros Hp Ha w. rewrite Ha, andb_true_iff, overb_spec, (flagb_spec c (pb w) (P w) (Hp w)).
  unfold promised, word_over. tauto.
Qed.
