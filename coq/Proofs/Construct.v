(* Correctness of the constructor models of Model/Construct.v:
   each builds a valid DFA accepting exactly the words over its alphabet that satisfy the
   predicate of Spec/Preds.v. *)
From Coq Require Import List Arith Bool Lia.
From AV Require Import Base.Util Spec.Lang Spec.FA Spec.Preds Model.Construct Proofs.FARun Proofs.Preds Proofs.Border.
Import ListNotations.

Lemma promised_lang m syms c (P : word -> Prop) (pb : word -> bool) :
  (forall w, pb w = true <-> P w) ->
  (forall w, dfa_acc m w = overb syms w && flagb c (pb w)) ->
  L_dfa m =L promised syms c P.
Proof. intros Hp Ha w. unfold L_dfa. exact (promised_spec syms c P pb (dfa_acc m) Hp Ha w). Qed.

(* ---------- abstract run of a transition function ---------- *)
Definition astep (f : nat -> nat -> option nat) (c : option nat) (a : nat) : option nat :=
  match c with Some q => f q a | None => None end.
Definition arun (f : nat -> nat -> option nat) (c : option nat) (w : word) : option nat :=
  fold_left (astep f) w c.

Lemma arun_None f w : arun f None w = None.
Proof. induction w as [|a w IH]; simpl; [reflexivity|exact IH]. Qed.

Lemma arun_app f c u v : arun f c (u ++ v) = arun f (arun f c u) v.
Proof. unfold arun. apply fold_left_app. Qed.

Lemma arun_cons f c a w : arun f c (a :: w) = arun f (astep f c a) w.
Proof. reflexivity. Qed.

Definition afin (fin : nat -> bool) (c : option nat) : bool :=
  match c with Some q => fin q | None => false end.

(* ---------- table_dfa ---------- *)
Lemma assoc_orow syms g a : assoc a (orow syms g) = if memb a syms then g a else None.
Proof.
  induction syms as [|b r IH]; [reflexivity|].
  change (orow (b :: r) g) with ((match g b with Some t => [(b, t)] | None => [] end) ++ orow r g).
  change (memb a (b :: r)) with (Nat.eqb a b || memb a r).
  destruct (Nat.eqb a b) eqn:E.
  - apply Nat.eqb_eq in E. subst b. simpl orb. destruct (g a) as [t|] eqn:G.
    + simpl. rewrite Nat.eqb_refl. reflexivity.
    + simpl. rewrite IH. destruct (memb a r); try reflexivity; exact G.
  - simpl orb. destruct (g b) as [t|]; simpl; [rewrite E|]; exact IH.
Qed.

Lemma orow_keys syms g a t : In (a, t) (orow syms g) -> In a syms /\ g a = Some t.
Proof.
  unfold orow. rewrite in_flat_map. intros [b [Hb H]].
  destruct (g b) as [t'|] eqn:G; [|destruct H].
  destruct H as [H|[]]. inversion H; subst. split; assumption.
Qed.

Lemma orow_NoDup syms g : NoDup syms -> NoDup (map fst (orow syms g)).
Proof.
  induction syms as [|b r IH]; simpl; intro H; [constructor|].
  inversion H; subst. destruct (g b) as [t|]; simpl; [|apply IH; assumption].
  constructor; [|apply IH; assumption].
  intro Hin. apply in_map_iff in Hin. destruct Hin as [[a t'] [E Hin]]. simpl in E. subst a.
  apply orow_keys in Hin. tauto.
Qed.

Lemma assoc_seq_map {B} (h : nat -> B) s len q :
  assoc q (map (fun q => (q, h q)) (seq s len)) = if Nat.leb s q && Nat.ltb q (s + len) then Some (h q) else None.
Proof.
  revert s. induction len as [|len IH]; intro s.
  - simpl. replace (Nat.leb s q && Nat.ltb q (s + 0)) with false; [reflexivity|].
    symmetry. apply andb_false_iff. destruct (Nat.leb s q) eqn:E1; [right|left; reflexivity].
    apply Nat.leb_le in E1. apply Nat.ltb_ge. lia.
  - change (seq s (S len)) with (s :: seq (S s) len). cbn [map assoc].
    destruct (Nat.eqb q s) eqn:E.
    + apply Nat.eqb_eq in E. subst.
      replace (Nat.leb s s && Nat.ltb s (s + S len)) with true; [reflexivity|].
      symmetry. apply andb_true_iff. split; [apply Nat.leb_le|apply Nat.ltb_lt]; lia.
    + rewrite IH. apply Nat.eqb_neq in E.
      replace (Nat.leb (S s) q && Nat.ltb q (S s + len)) with (Nat.leb s q && Nat.ltb q (s + S len)); [reflexivity|].
      apply eq_true_iff_eq. rewrite !andb_true_iff, !Nat.leb_le, !Nat.ltb_lt. lia.
Qed.

Lemma memb_seq q n : memb q (seq 0 n) = Nat.ltb q n.
Proof.
  destruct (Nat.ltb q n) eqn:E.
  - apply memb_In. apply in_seq. apply Nat.ltb_lt in E. lia.
  - apply memb_false. rewrite in_seq. apply Nat.ltb_ge in E. lia.
Qed.

Lemma memb_filter fin l q : memb q (filter fin l) = memb q l && fin q.
Proof.
  destruct (memb q l && fin q) eqn:E.
  - apply andb_true_iff in E. destruct E as [E1 E2]. apply memb_In. apply filter_In.
    split; [apply memb_In; exact E1|exact E2].
  - apply memb_false. intro H. apply filter_In in H. destruct H as [H1 H2].
    apply memb_In in H1. rewrite H1, H2 in E. discriminate.
Qed.

Section Table.
  Variable syms : list nat.
  Variable n : nat.
  Variable f : nat -> nat -> option nat.
  Variable fin : nat -> bool.
  Variable partial : bool.
  Hypothesis Hnd : NoDup syms.
  Hypothesis Hn : 0 < n.
  Hypothesis Hclosed : forall q a t, q < n -> In a syms -> f q a = Some t -> t < n.

  Let M := table_dfa syms n f fin partial.

  Lemma table_delta q a : d_delta M q a = if Nat.ltb q n then (if memb a syms then f q a else None) else None.
  Proof.
    unfold d_delta, d_row, M, table_dfa. simpl. rewrite assoc_seq_map. simpl.
    destruct (Nat.ltb q n); [|reflexivity]. apply assoc_orow.
  Qed.

  Lemma table_run w : forall q, q < n ->
    dfa_run M (Some q) w = if overb syms w then arun f (Some q) w else None.
  Proof.
    induction w as [|a w IH]; intros q Hq; [reflexivity|].
    simpl dfa_run. rewrite table_delta.
    assert (Hlt : Nat.ltb q n = true) by (apply Nat.ltb_lt; exact Hq). rewrite Hlt.
    simpl overb. rewrite arun_cons. simpl astep.
    destruct (memb a syms) eqn:Ea; simpl.
    - destruct (f q a) as [t|] eqn:Ef.
      + apply IH. eapply Hclosed; [exact Hq|apply memb_In; exact Ea|exact Ef].
      + rewrite dfa_run_None, arun_None. destruct (overb syms w); reflexivity.
    - apply dfa_run_None.
  Qed.

  Lemma arun_lt w : forall q t, overb syms w = true -> q < n -> arun f (Some q) w = Some t -> t < n.
  Proof.
    induction w as [|a w IH]; intros q t Ho Hq H.
    - simpl in H. inversion H; subst. exact Hq.
    - simpl in Ho. apply andb_true_iff in Ho. destruct Ho as [Ha Ho].
      rewrite arun_cons in H. simpl in H. destruct (f q a) as [t'|] eqn:Ef.
      + eapply IH; [exact Ho| |exact H]. eapply Hclosed; [exact Hq|apply memb_In; exact Ha|exact Ef].
      + rewrite arun_None in H. discriminate.
  Qed.

  Theorem table_acc w : dfa_acc M w = overb syms w && afin fin (arun f (Some 0) w).
  Proof.
    unfold dfa_acc, dfa_acc_from. change (d_init M) with 0. rewrite (table_run w 0 Hn).
    destruct (overb syms w) eqn:Ho; [|reflexivity]. simpl.
    destruct (arun f (Some 0) w) as [t|] eqn:E; [|reflexivity]. simpl.
    unfold M, table_dfa. simpl. rewrite memb_filter, memb_seq.
    assert (Ht : Nat.ltb t n = true) by (apply Nat.ltb_lt; eapply arun_lt; eassumption).
    rewrite Ht. reflexivity.
  Qed.

  Hypothesis Htotal : partial = false -> forall q a, q < n -> In a syms -> f q a <> None.

  Theorem table_valid : valid_dfa M = true.
  Proof.
    unfold valid_dfa, M, table_dfa. simpl.
    assert (Hkeys : map fst (map (fun q => (q, orow syms (f q))) (seq 0 n)) = seq 0 n).
    { rewrite map_map. simpl. apply map_id. }
    rewrite Hkeys.
    assert (H1 : nodupb (seq 0 n) = true) by (apply nodupb_NoDup, seq_NoDup).
    assert (H2 : nodupb syms = true) by (apply nodupb_NoDup; exact Hnd).
    rewrite H1, H2. simpl.
    assert (H3 : forallb (fun q => memb q (seq 0 n)) (seq 0 n) = true).
    { apply forallb_forall. intros q Hq. apply memb_In. exact Hq. }
    rewrite H3. simpl.
    assert (H5 : memb 0 (seq 0 n) = true) by (rewrite memb_seq; apply Nat.ltb_lt; exact Hn).
    assert (H6 : subsetb (filter fin (seq 0 n)) (seq 0 n) = true).
    { apply subsetb_incl. intros q Hq. apply filter_In in Hq. tauto. }
    rewrite H5, H6, !andb_true_r.
    apply forallb_forall. intros [q row] Hin. apply in_map_iff in Hin.
    destruct Hin as [q' [E Hq']]. inversion E; subst q' row. clear E.
    apply in_seq in Hq'. assert (Hq : q < n) by lia.
    unfold row_ok. simpl.
    assert (R1 : nodupb (map fst (orow syms (f q))) = true) by (apply nodupb_NoDup, orow_NoDup; exact Hnd).
    rewrite R1. simpl.
    assert (R2 : forallb (fun p => memb (fst p) syms && memb (snd p) (seq 0 n)) (orow syms (f q)) = true).
    { apply forallb_forall. intros [a t] Hat. simpl. apply orow_keys in Hat. destruct Hat as [Ha Ht].
      apply andb_true_iff. split; [apply memb_In; exact Ha|].
      rewrite memb_seq. apply Nat.ltb_lt. eapply Hclosed; eassumption. }
    rewrite R2. simpl.
    destruct partial eqn:Ep; [reflexivity|]. simpl.
    apply forallb_forall. intros a Ha. apply memb_In.
    destruct (f q a) as [t|] eqn:Ef.
    - apply in_map_iff. exists (a, t). split; [reflexivity|].
      apply assoc_In. rewrite assoc_orow.
      assert (Hm : memb a syms = true) by (apply memb_In; exact Ha). rewrite Hm. exact Ef.
    - exfalso. exact (Htotal eq_refl q a Hq Ha Ef).
  Qed.
End Table.

(* flag handling: contains = false complements the final predicate *)
Lemma afin_flag c (g : nat -> bool) r :
  afin (fun q => flagb c (g q)) (Some r) = flagb c (g r).
Proof. reflexivity. Qed.

(* ---------- universal_language / empty_language ---------- *)
Lemma arun_const0 w : arun (fun _ _ => Some 0) (Some 0) w = Some 0.
Proof. induction w as [|a w IH]; [reflexivity|]. rewrite arun_cons. exact IH. Qed.

Theorem universal_acc syms w : dfa_acc (universal_m syms) w = overb syms w.
Proof.
  unfold universal_m. rewrite table_acc; [|lia|intros q a t _ _ E; inversion E; lia].
  rewrite arun_const0. simpl. apply andb_true_r.
Qed.

Theorem empty_acc syms w : dfa_acc (empty_m syms) w = false.
Proof.
  unfold empty_m. rewrite table_acc; [|lia|intros q a t _ _ E; inversion E; lia].
  rewrite arun_const0. simpl. apply andb_false_r.
Qed.

Theorem universal_valid syms : NoDup syms -> valid_dfa (universal_m syms) = true.
Proof.
  intro Hnd. apply table_valid; [exact Hnd|lia|intros q a t _ _ E; inversion E; lia|discriminate].
Qed.

Theorem empty_valid syms : NoDup syms -> valid_dfa (empty_m syms) = true.
Proof.
  intro Hnd. apply table_valid; [exact Hnd|lia|intros q a t _ _ E; inversion E; lia|discriminate].
Qed.

(* ---------- list helpers ---------- *)
Lemma skipn_nth_error {A} (p : list A) q x : nth_error p q = Some x -> skipn q p = x :: skipn (S q) p.
Proof.
  revert q. induction p as [|y p IH]; intros q H.
  - destruct q; discriminate.
  - destruct q as [|q]; simpl in H.
    + inversion H; subst. reflexivity.
    + simpl. rewrite (IH q H). reflexivity.
Qed.

Lemma skipn_all_nil {A} (p : list A) q : length p <= q -> skipn q p = [].
Proof. intro H. apply skipn_all2. exact H. Qed.

Lemma nth_error_None_len {A} (p : list A) q : nth_error p q = None <-> length p <= q.
Proof. apply nth_error_None. Qed.

Lemma prefixb_nil_r s : prefixb s [] = match s with [] => true | _ :: _ => false end.
Proof. destruct s; reflexivity. Qed.

Lemma subseqb_nil_r s : subseqb s [] = match s with [] => true | _ :: _ => false end.
Proof. destruct s; reflexivity. Qed.

Lemma skipn_eqb_len (p : word) q : q <= length p ->
  match skipn q p with [] => true | _ :: _ => false end = Nat.eqb q (length p).
Proof.
  intro H. destruct (nth_error p q) as [x|] eqn:E.
  - rewrite (skipn_nth_error p q x E).
    assert (q < length p) by (apply nth_error_Some; congruence).
    symmetry. apply Nat.eqb_neq. lia.
  - apply nth_error_None in E. rewrite skipn_all_nil by exact E.
    symmetry. apply Nat.eqb_eq. lia.
Qed.

(* ---------- from_prefix ---------- *)
Section Prefix.
  Variable p : word.
  Variable e : bool.
  Let l := length p.
  Let f := prefix_f p e.

  Lemma prefix_abs_l w : arun f (Some l) w = Some l.
  Proof.
    induction w as [|a w IH]; [reflexivity|]. rewrite arun_cons. simpl. unfold f, prefix_f.
    assert (E : nth_error p l = None) by (apply nth_error_None; unfold l; lia).
    rewrite E. fold l. rewrite Nat.eqb_refl. exact IH.
  Qed.

  Lemma prefix_abs_err w : arun f (Some (S l)) w = Some (S l).
  Proof.
    induction w as [|a w IH]; [reflexivity|]. rewrite arun_cons. simpl. unfold f, prefix_f.
    assert (E : nth_error p (S l) = None) by (apply nth_error_None; unfold l; lia).
    rewrite E. fold l.
    assert (E2 : Nat.eqb (S l) l = false) by (apply Nat.eqb_neq; lia). rewrite E2. exact IH.
  Qed.

  Variable c : bool.
  Hypothesis Hec : e = false -> c = true.

  Lemma prefix_arun w : forall q, q <= l ->
    afin (fun r => flagb c (Nat.eqb r l)) (arun f (Some q) w) = flagb c (prefixb (skipn q p) w).
  Proof.
    induction w as [|a w IH]; intros q Hq.
    - simpl. rewrite prefixb_nil_r, skipn_eqb_len by exact Hq. reflexivity.
    - rewrite arun_cons. change (astep f (Some q) a) with (f q a).
      assert (Hf : f q a = match nth_error p q with
                           | Some x => if Nat.eqb x a then Some (S q) else if e then Some (S l) else None
                           | None => if Nat.eqb q l then Some l else Some (S l)
                           end) by reflexivity.
      rewrite Hf. clear Hf.
      destruct (nth_error p q) as [x|] eqn:E.
      + rewrite (skipn_nth_error p q x E). cbn [prefixb].
        assert (Hlt : q < l) by (apply nth_error_Some; congruence).
        destruct (Nat.eqb x a) eqn:Exa; simpl andb.
        * apply IH. lia.
        * destruct (Bool.bool_dec e true) as [Ee|Ee].
          -- rewrite Ee. rewrite prefix_abs_err. cbn [afin].
             assert (E2 : Nat.eqb (S l) l = false) by (apply Nat.eqb_neq; lia). rewrite E2. reflexivity.
          -- apply not_true_is_false in Ee. rewrite Ee. rewrite arun_None. simpl. rewrite (Hec Ee). reflexivity.
      + apply nth_error_None in E. assert (q = l) by (unfold l in *; lia). subst q.
        rewrite Nat.eqb_refl. rewrite prefix_abs_l. cbn [afin]. rewrite Nat.eqb_refl.
        rewrite skipn_all_nil by (unfold l; lia). reflexivity.
  Qed.

End Prefix.

Lemma prefix_closed (p : word) (e : bool) q a t :
  q < (if e then S (S (length p)) else S (length p)) -> prefix_f p e q a = Some t ->
  t < (if e then S (S (length p)) else S (length p)).
Proof.
  intros Hq. unfold prefix_f.
  destruct (nth_error p q) as [x|] eqn:E.
  - assert (Hlt : q < length p) by (apply nth_error_Some; congruence).
    destruct (Nat.eqb x a).
    + intro H; inversion H; subst. destruct e; lia.
    + destruct e; [|discriminate]. intro H; inversion H; subst. lia.
  - apply nth_error_None in E.
    destruct (Nat.eqb q (length p)) eqn:Eq; intro H; inversion H; subst.
    + destruct e; lia.
    + apply Nat.eqb_neq in Eq. destruct e; lia.
Qed.

Lemma prefix_flag_compat c ap : prefix_needs_err c ap = false -> c = true.
Proof. unfold prefix_needs_err. destruct c, ap; simpl; intro H; try discriminate; reflexivity. Qed.

Theorem from_prefix_acc syms p c ap w :
  dfa_acc (from_prefix_m syms p c ap) w = overb syms w && flagb c (prefixb p w).
Proof.
  unfold from_prefix_m. rewrite table_acc.
  - f_equal. rewrite (prefix_arun p (prefix_needs_err c ap) c (prefix_flag_compat c ap) w 0) by lia.
    reflexivity.
  - destruct (prefix_needs_err c ap); lia.
  - intros q a t Hq _ H. eapply prefix_closed; [exact Hq|exact H].
Qed.

Lemma overb_nth syms (p : word) q x : overb syms p = true -> nth_error p q = Some x -> In x syms.
Proof.
  intros Ho H. apply overb_spec in Ho. rewrite Forall_forall in Ho. apply Ho. eapply nth_error_In. exact H.
Qed.

Theorem from_prefix_valid syms p c ap : NoDup syms -> overb syms p = true ->
  valid_dfa (from_prefix_m syms p c ap) = true.
Proof.
  intros Hnd Hp. unfold from_prefix_m. apply table_valid.
  - exact Hnd.
  - destruct (prefix_needs_err c ap); lia.
  - intros q a t Hq _ H. eapply prefix_closed; [exact Hq|exact H].
  - intros Hpart q a Hq Ha. unfold prefix_f.
    destruct (nth_error p q) as [x|] eqn:E.
    + destruct (Nat.eqb x a) eqn:Exa; [discriminate|].
      destruct (prefix_needs_err c ap) eqn:Ee; [discriminate|]. exfalso.
      simpl in Hpart.
      assert (Hl : 0 < length p) by (assert (q < length p) by (apply nth_error_Some; congruence); lia).
      assert (Hl' : Nat.ltb 0 (length p) = true) by (apply Nat.ltb_lt; exact Hl).
      rewrite Hl' in Hpart. simpl in Hpart. apply negb_false_iff in Hpart. apply Nat.eqb_eq in Hpart.
      pose proof (overb_nth syms p q x Hp E) as Hx.
      destruct syms as [|s0 [|s1 r]]; simpl in Hpart; try discriminate.
      destruct Ha as [Ha|[]]. destruct Hx as [Hx|[]]. subst. rewrite Nat.eqb_refl in Exa. discriminate.
    + destruct (Nat.eqb q (length p)); discriminate.
Qed.

(* ---------- from_subsequence ---------- *)
Section Subseq.
  Variable p : word.
  Let l := length p.
  Let f := subseq_f p.
  Variable c : bool.

  Lemma subseq_abs w : arun f (Some l) w = Some l.
  Proof.
    induction w as [|a w IH]; [reflexivity|]. rewrite arun_cons. simpl. unfold f, subseq_f.
    assert (E : nth_error p l = None) by (apply nth_error_None; unfold l; lia).
    rewrite E. exact IH.
  Qed.

  Lemma subseq_arun w : forall q, q <= l ->
    afin (fun r => flagb c (Nat.eqb r l)) (arun f (Some q) w) = flagb c (subseqb (skipn q p) w).
  Proof.
    induction w as [|a w IH]; intros q Hq.
    - cbn [arun fold_left afin subseqb]. rewrite skipn_eqb_len by exact Hq. reflexivity.
    - rewrite arun_cons. change (astep f (Some q) a) with (f q a).
      assert (Hf : f q a = match nth_error p q with
                           | Some x => if Nat.eqb x a then Some (S q) else Some q
                           | None => Some q
                           end) by reflexivity.
      rewrite Hf. clear Hf.
      destruct (nth_error p q) as [x|] eqn:E.
      + rewrite (skipn_nth_error p q x E). cbn [subseqb].
        assert (Hlt : q < l) by (apply nth_error_Some; congruence).
        destruct (Nat.eqb x a) eqn:Exa.
        * apply IH. lia.
        * rewrite (IH q Hq). rewrite (skipn_nth_error p q x E). reflexivity.
      + apply nth_error_None in E. assert (q = l) by (unfold l in *; lia). subst q.
        rewrite subseq_abs. cbn [afin]. rewrite Nat.eqb_refl.
        rewrite skipn_all_nil by (unfold l; lia). reflexivity.
  Qed.

  Lemma subseq_closed q a t : q < S l -> f q a = Some t -> t < S l.
  Proof.
    intro Hq. unfold f, subseq_f. destruct (nth_error p q) as [x|] eqn:E.
    - assert (Hlt : q < l) by (apply nth_error_Some; congruence).
      destruct (Nat.eqb x a); intro H; inversion H; subst; lia.
    - intro H; inversion H; subst. exact Hq.
  Qed.
End Subseq.

Theorem from_subsequence_acc syms p c w :
  dfa_acc (from_subsequence_m syms p c) w = overb syms w && flagb c (subseqb p w).
Proof.
  unfold from_subsequence_m. rewrite table_acc.
  - f_equal. rewrite (subseq_arun p c w 0) by lia. reflexivity.
  - lia.
  - intros q a t Hq _ H. eapply subseq_closed; eassumption.
Qed.

Theorem from_subsequence_valid syms p c : NoDup syms -> valid_dfa (from_subsequence_m syms p c) = true.
Proof.
  intro Hnd. unfold from_subsequence_m. apply table_valid.
  - exact Hnd.
  - lia.
  - intros q a t Hq _ H. eapply subseq_closed; eassumption.
  - intros _ q a _ _. unfold subseq_f. destruct (nth_error p q); [destruct (Nat.eqb n a)|]; discriminate.
Qed.

(* ---------- of_length ---------- *)
Definition counted_set (syms : list nat) (cnt : option (list nat)) : list nat :=
  match cnt with Some c => c | None => syms end.

Lemma of_length_arun_open cs lo w : forall q, q <= lo ->
  arun (fun q a => if Nat.ltb q lo then (if memb a cs then Some (S q) else Some q) else Some q) (Some q) w
  = Some (Nat.min (q + counted cs w) lo).
Proof.
  induction w as [|a w IH]; intros q Hq.
  - simpl. f_equal. rewrite counted_nil. lia.
  - rewrite arun_cons. cbn [astep]. rewrite counted_cons.
    destruct (Nat.ltb q lo) eqn:E.
    + apply Nat.ltb_lt in E. destruct (memb a cs).
      * rewrite IH by lia. f_equal. lia.
      * rewrite IH by lia. f_equal.
    + apply Nat.ltb_ge in E. rewrite IH by lia. f_equal. destruct (memb a cs); lia.
Qed.

Lemma of_length_arun_closed cs h w : forall q, q <= S h ->
  arun (fun q a => if Nat.leb q h then (if memb a cs then Some (S q) else Some q) else Some q) (Some q) w
  = Some (Nat.min (q + counted cs w) (S h)).
Proof.
  induction w as [|a w IH]; intros q Hq.
  - simpl. f_equal. rewrite counted_nil. lia.
  - rewrite arun_cons. cbn [astep]. rewrite counted_cons.
    destruct (Nat.leb q h) eqn:E.
    + apply Nat.leb_le in E. destruct (memb a cs).
      * rewrite IH by lia. f_equal. lia.
      * rewrite IH by lia. f_equal.
    + apply Nat.leb_gt in E. rewrite IH by lia. f_equal. destruct (memb a cs); lia.
Qed.

Theorem of_length_acc syms lo hi cnt w :
  dfa_acc (of_length_m syms lo hi cnt) w = overb syms w && rangeb (counted_set syms cnt) lo hi w.
Proof.
  unfold of_length_m. fold (counted_set syms cnt). set (cs := counted_set syms cnt).
  destruct hi as [h|].
  - rewrite table_acc.
    + f_equal. rewrite of_length_arun_closed by lia. cbn [afin]. unfold rangeb. simpl Nat.add.
      apply eq_true_iff_eq. rewrite !andb_true_iff, !Nat.leb_le. lia.
    + lia.
    + intros q a t Hq _. destruct (Nat.leb q h) eqn:E.
      * apply Nat.leb_le in E. destruct (memb a cs); intro H; inversion H; subst; lia.
      * intro H; inversion H; subst. exact Hq.
  - rewrite table_acc.
    + f_equal. rewrite of_length_arun_open by lia. cbn [afin]. unfold rangeb. simpl Nat.add.
      rewrite andb_true_r. apply eq_true_iff_eq. rewrite Nat.eqb_eq, Nat.leb_le. lia.
    + lia.
    + intros q a t Hq _. destruct (Nat.ltb q lo) eqn:E.
      * apply Nat.ltb_lt in E. destruct (memb a cs); intro H; inversion H; subst; lia.
      * intro H; inversion H; subst. exact Hq.
Qed.

Theorem of_length_valid syms lo hi cnt : NoDup syms -> valid_dfa (of_length_m syms lo hi cnt) = true.
Proof.
  intro Hnd. unfold of_length_m. set (cs := match cnt with Some c => c | None => syms end).
  destruct hi as [h|]; apply table_valid; try exact Hnd; try lia.
  - intros q a t Hq _. destruct (Nat.leb q h) eqn:E.
    + apply Nat.leb_le in E. destruct (memb a cs); intro H; inversion H; subst; lia.
    + intro H; inversion H; subst. exact Hq.
  - intros _ q a _ _. destruct (Nat.leb q h); [destruct (memb a cs)|]; discriminate.
  - intros q a t Hq _. destruct (Nat.ltb q lo) eqn:E.
    + apply Nat.ltb_lt in E. destruct (memb a cs); intro H; inversion H; subst; lia.
    + intro H; inversion H; subst. exact Hq.
  - intros _ q a _ _. destruct (Nat.ltb q lo); [destruct (memb a cs)|]; discriminate.
Qed.

(* ---------- count_mod ---------- *)
Lemma count_mod_arun cs k w : 0 < k -> forall q, q < k ->
  arun (fun q a => if memb a cs then Some (S q mod k) else Some q) (Some q) w
  = Some ((q + counted cs w) mod k).
Proof.
  intro Hk. induction w as [|a w IH]; intros q Hq.
  - simpl. f_equal. rewrite counted_nil, Nat.add_0_r. symmetry. apply Nat.mod_small. exact Hq.
  - rewrite arun_cons. cbn [astep]. rewrite counted_cons. destruct (memb a cs).
    + rewrite IH by (apply Nat.mod_upper_bound; lia). f_equal.
      rewrite Nat.add_mod_idemp_l by lia. f_equal. lia.
    + rewrite IH by exact Hq. f_equal.
Qed.

Definition rem_set (rems : option (list nat)) : list nat := match rems with Some r => r | None => [0] end.

Theorem count_mod_ok syms k rems cnt : 0 < k -> forallb (fun r => Nat.ltb r k) (rem_set rems) = true ->
  exists m, count_mod_m syms k rems cnt = Ok m.
Proof.
  intros Hk Hr. unfold count_mod_m. fold (rem_set rems). destruct k as [|k']; [lia|].
  rewrite Hr. eexists. reflexivity.
Qed.

Theorem count_mod_refuses syms rems cnt : count_mod_m syms 0 rems cnt = Err ValueErr.
Proof. reflexivity. Qed.

Lemma count_mod_m_eq syms k rems cnt m : count_mod_m syms k rems cnt = Ok m ->
  0 < k /\
  m = table_dfa syms k (fun q a => if memb a (counted_set syms cnt) then Some (S q mod k) else Some q)
                (fun q => memb q (rem_set rems)) false.
Proof.
  unfold count_mod_m. fold (rem_set rems). fold (counted_set syms cnt).
  destruct k as [|k']; [discriminate|].
  destruct (forallb _ (rem_set rems)); [|discriminate].
  intro H. split; [lia|]. congruence.
Qed.

Theorem count_mod_acc syms k rems cnt m w : count_mod_m syms k rems cnt = Ok m ->
  dfa_acc m w = overb syms w && modb (counted_set syms cnt) k (rem_set rems) w.
Proof.
  intro H. apply count_mod_m_eq in H. destruct H as [Hk ->].
  rewrite table_acc.
  - f_equal. rewrite count_mod_arun by lia. reflexivity.
  - lia.
  - intros q a t Hq _. destruct (memb a (counted_set syms cnt)); intro H; inversion H; subst.
    + apply Nat.mod_upper_bound. lia.
    + exact Hq.
Qed.

Theorem count_mod_valid syms k rems cnt m : NoDup syms -> count_mod_m syms k rems cnt = Ok m ->
  valid_dfa m = true.
Proof.
  intros Hnd H. apply count_mod_m_eq in H. destruct H as [Hk ->]. apply table_valid.
  - exact Hnd.
  - lia.
  - intros q a t Hq _. destruct (memb a _); intro H; inversion H; subst.
    + apply Nat.mod_upper_bound. lia.
    + exact Hq.
  - intros _ q a _ _. destruct (memb a _); discriminate.
Qed.

(* ---------- nth_from_start / nth_from_end: the guard ---------- *)
Lemma nth_guard_cases syms s n k m : nth_guard syms s n k = Ok m ->
  0 < n /\ In s syms /\
  ((length syms = 1 /\ m = of_length_m syms n None None) \/ (length syms <> 1 /\ m = k tt)).
Proof.
  unfold nth_guard. destruct n as [|n']; [discriminate|].
  destruct (memb s syms) eqn:Es; simpl; [|discriminate].
  apply memb_In in Es. destruct (Nat.eqb (length syms) 1) eqn:El; intro H.
  - apply Nat.eqb_eq in El. split; [lia|]. split; [exact Es|]. left. split; [exact El|congruence].
  - apply Nat.eqb_neq in El. split; [lia|]. split; [exact Es|]. right. split; [exact El|congruence].
Qed.

Theorem nth_guard_refuses syms s n k :
  (n = 0 -> nth_guard syms s n k = Err ValueErr) /\
  (0 < n -> ~ In s syms -> nth_guard syms s n k = Err (Invalid 2)).
Proof.
  split.
  - intros ->. reflexivity.
  - intros Hn Hs. unfold nth_guard. destruct n as [|n']; [lia|].
    apply memb_false in Hs. rewrite Hs. reflexivity.
Qed.

Theorem nth_guard_ok syms s n k : 0 < n -> In s syms -> exists m, nth_guard syms s n k = Ok m.
Proof.
  intros Hn Hs. unfold nth_guard. destruct n as [|n']; [lia|].
  apply memb_In in Hs. rewrite Hs. simpl. destruct (Nat.eqb (length syms) 1); eexists; reflexivity.
Qed.

(* over a one-symbol alphabet both predicates say "at least n symbols" *)
Lemma over1_counted s w : overb [s] w = true -> counted [s] w = length w.
Proof.
  induction w as [|a w IH]; [reflexivity|].
  change (overb [s] (a :: w)) with (memb a [s] && overb [s] w).
  intro H. apply andb_true_iff in H. destruct H as [Ha Hw].
  rewrite counted_cons, Ha, (IH Hw). reflexivity.
Qed.

Lemma over1_nth_startb s n w : overb [s] w = true -> 0 < n -> nth_startb s n w = Nat.leb n (length w).
Proof.
  intros Ho Hn. destruct n as [|i]; [lia|]. unfold nth_startb.
  destruct (nth_error w i) as [c|] eqn:E.
  - assert (Hi : i < length w) by (apply nth_error_Some; congruence).
    assert (Hc : In c [s]) by (eapply overb_nth; eassumption).
    destruct Hc as [Hc|[]]. subst c. rewrite Nat.eqb_refl. symmetry. apply Nat.leb_le. lia.
  - apply nth_error_None in E. symmetry. apply Nat.leb_gt. lia.
Qed.

Lemma overb_rev syms w : overb syms (rev w) = overb syms w.
Proof.
  induction w as [|a w IH]; [reflexivity|]. simpl. rewrite overb_app, IH. simpl.
  rewrite andb_true_r. apply andb_comm.
Qed.

Lemma single_alphabet (syms : list nat) s : length syms = 1 -> In s syms -> syms = [s].
Proof.
  intros Hl Hs. destruct syms as [|x [|y r]]; simpl in Hl; try discriminate.
  destruct Hs as [->|[]]. reflexivity.
Qed.

(* ---------- nth_from_start ---------- *)
Section NthStart.
  Variables s n : nat.
  Let f := nth_start_f s n.

  Lemma nth_start_abs w : forall q, n <= q -> arun f (Some q) w = Some q.
  Proof.
    induction w as [|a w IH]; intros q Hq; [reflexivity|]. rewrite arun_cons.
    change (astep f (Some q) a) with (nth_start_f s n q a). unfold nth_start_f.
    assert (E1 : Nat.ltb (S q) n = false) by (apply Nat.ltb_ge; lia).
    assert (E2 : Nat.eqb (S q) n = false) by (apply Nat.eqb_neq; lia).
    rewrite E1, E2. apply IH. exact Hq.
  Qed.

  Lemma nth_start_arun w : forall q, q < n ->
    afin (fun r => Nat.eqb r (S n)) (arun f (Some q) w) = nth_startb s (n - q) w.
  Proof.
    induction w as [|a w IH]; intros q Hq.
    - cbn [arun fold_left afin]. destruct (n - q) as [|i] eqn:E; [lia|].
      simpl. destruct i; simpl; apply Nat.eqb_neq; lia.
    - rewrite arun_cons. change (astep f (Some q) a) with (nth_start_f s n q a). unfold nth_start_f.
      destruct (Nat.ltb (S q) n) eqn:E1.
      + apply Nat.ltb_lt in E1. rewrite IH by exact E1.
        replace (n - q) with (S (n - S q)) by lia.
        destruct (n - S q) as [|j] eqn:Ej; [lia|]. reflexivity.
      + apply Nat.ltb_ge in E1. assert (E2 : Nat.eqb (S q) n = true) by (apply Nat.eqb_eq; lia).
        rewrite E2. replace (n - q) with 1 by lia. cbn [nth_startb nth_error].
        destruct (Nat.eqb a s).
        * rewrite nth_start_abs by lia. cbn [afin]. apply Nat.eqb_refl.
        * rewrite nth_start_abs by lia. cbn [afin]. apply Nat.eqb_neq. lia.
  Qed.

  Lemma nth_start_closed q a t : q < S (S n) -> f q a = Some t -> t < S (S n).
  Proof.
    intro Hq. unfold f, nth_start_f.
    destruct (Nat.ltb (S q) n) eqn:E1.
    - apply Nat.ltb_lt in E1. intro H; inversion H; subst. lia.
    - destruct (Nat.eqb (S q) n) eqn:E2.
      + destruct (Nat.eqb a s); intro H; inversion H; subst; lia.
      + intro H; inversion H; subst. exact Hq.
  Qed.

  Lemma nth_start_total q a : f q a <> None.
  Proof.
    unfold f, nth_start_f. destruct (Nat.ltb (S q) n); [discriminate|].
    destruct (Nat.eqb (S q) n); [destruct (Nat.eqb a s)|]; discriminate.
  Qed.
End NthStart.

Theorem nth_from_start_acc syms s n m w : nth_from_start_m syms s n = Ok m ->
  dfa_acc m w = overb syms w && nth_startb s n w.
Proof.
  intro H. apply nth_guard_cases in H. destruct H as [Hn [Hs [[Hl ->]|[Hl ->]]]].
  - rewrite of_length_acc. simpl counted_set. rewrite (single_alphabet syms s Hl Hs).
    destruct (overb [s] w) eqn:Ho; [|reflexivity]. simpl.
    unfold rangeb. rewrite andb_true_r, over1_counted by exact Ho.
    symmetry. apply over1_nth_startb; assumption.
  - rewrite table_acc.
    + f_equal. rewrite nth_start_arun by exact Hn. rewrite Nat.sub_0_r. reflexivity.
    + lia.
    + intros q a t Hq _ H. eapply nth_start_closed; eassumption.
Qed.

Theorem nth_from_start_valid syms s n m : NoDup syms -> nth_from_start_m syms s n = Ok m ->
  valid_dfa m = true.
Proof.
  intros Hnd H. apply nth_guard_cases in H. destruct H as [Hn [Hs [[Hl ->]|[Hl ->]]]].
  - apply of_length_valid. exact Hnd.
  - apply table_valid.
    + exact Hnd.
    + lia.
    + intros q a t Hq _ H. eapply nth_start_closed; eassumption.
    + intros _ q a _ _. apply nth_start_total.
Qed.

(* ---------- from_substring / from_suffix (specification model) ---------- *)
Section Substring.
  Variable p : word.
  Let l := length p.

  (* suffix automaton: the state is lps p (text read) *)
  Lemma suffix_arun w : arun (substring_f p true) (Some 0) w = Some (lps p w).
  Proof.
    induction w as [|a w IH] using rev_ind.
    - simpl. rewrite lps_nil. reflexivity.
    - rewrite arun_app, IH. cbn [arun fold_left astep]. unfold substring_f. cbn [negb andb].
      rewrite <- lps_step. reflexivity.
  Qed.

  (* substring automaton: the same, absorbing once the pattern has occurred *)
  Lemma substring_arun w :
    arun (substring_f p false) (Some 0) w = Some (if substringb p w then l else lps p w).
  Proof.
    induction w as [|a w IH] using rev_ind.
    - cbn [arun fold_left]. rewrite lps_nil. destruct (substringb p []) eqn:E; [|reflexivity].
      apply substringb_spec in E. destruct E as [u [v E]].
      destruct u; [|discriminate]. destruct p; [reflexivity|discriminate].
    - rewrite arun_app, IH. cbn [arun fold_left astep]. unfold substring_f. cbn [negb andb].
      destruct (substringb p w) eqn:Es.
      + fold l. rewrite Nat.eqb_refl.
        assert (Hs : substringb p (w ++ [a]) = true).
        { apply substringb_spec, contains_snoc. left. apply substringb_spec. exact Es. }
        rewrite Hs. reflexivity.
      + assert (Hne : Nat.eqb (lps p w) (length p) = false).
        { apply Nat.eqb_neq. intro E. apply lps_full_iff in E. apply suffix_contains in E.
          apply substringb_spec in E. congruence. }
        rewrite Hne, <- lps_step. f_equal.
        destruct (substringb p (w ++ [a])) eqn:Es'; [|reflexivity].
        apply substringb_spec, contains_snoc in Es'. destruct Es' as [C|S].
        * apply substringb_spec in C. congruence.
        * apply lps_full_iff. exact S.
  Qed.

  Lemma substring_closed ms q a t : q < S l -> substring_f p ms q a = Some t -> t < S l.
  Proof.
    intro Hq. unfold substring_f. destruct (negb ms && Nat.eqb q (length p)); intro H; inversion H; subst.
    - exact Hq.
    - pose proof (lps_le p (firstn q p ++ [a])). unfold l. lia.
  Qed.

  Lemma suffix_final w : Nat.eqb (lps p w) l = suffixb p w.
  Proof. apply eq_true_iff_eq. rewrite Nat.eqb_eq, suffixb_spec. apply lps_full_iff. Qed.

  Lemma substring_final w : Nat.eqb (if substringb p w then l else lps p w) l = substringb p w.
  Proof.
    destruct (substringb p w) eqn:Es; [apply Nat.eqb_refl|].
    apply Nat.eqb_neq. intro E. apply lps_full_iff in E. apply suffix_contains in E.
    apply substringb_spec in E. congruence.
  Qed.
End Substring.

Lemma substringb_nil w : substringb [] w = true.
Proof. destruct w; reflexivity. Qed.
Lemma suffixb_nil w : suffixb [] w = true.
Proof. reflexivity. Qed.

Theorem from_substring_acc syms p c ms w :
  dfa_acc (from_substring_m syms p c ms) w
  = overb syms w && flagb c (if ms then suffixb p w else substringb p w).
Proof.
  unfold from_substring_m. destruct p as [|x p'].
  - assert (Ht : (if ms then suffixb [] w else substringb [] w) = true)
      by (destruct ms; [apply suffixb_nil|apply substringb_nil]).
    rewrite Ht. destruct c; simpl.
    + rewrite universal_acc, andb_true_r. reflexivity.
    + rewrite empty_acc, andb_false_r. reflexivity.
  - set (p := x :: p'). rewrite table_acc.
    + f_equal. destruct ms.
      * rewrite suffix_arun. cbn [afin]. rewrite suffix_final. reflexivity.
      * rewrite substring_arun. cbn [afin]. rewrite substring_final. reflexivity.
    + lia.
    + intros q a t Hq _ H. eapply substring_closed; eassumption.
Qed.

Theorem from_substring_valid syms p c ms : NoDup syms -> valid_dfa (from_substring_m syms p c ms) = true.
Proof.
  intro Hnd. unfold from_substring_m. destruct p as [|x p'].
  - destruct c; [apply universal_valid|apply empty_valid]; exact Hnd.
  - apply table_valid.
    + exact Hnd.
    + lia.
    + intros q a t Hq _ H. eapply substring_closed; eassumption.
    + intros _ q a _ _. unfold substring_f. destruct (negb ms && _); discriminate.
Qed.

(* ---------- nth_from_end: shift register ---------- *)
Definition bit (s a : nat) : nat := if Nat.eqb a s then 1 else 0.
(* value of a word read as bits, head = least significant *)
Fixpoint bits (s : nat) (r : word) : nat :=
  match r with [] => 0 | a :: r' => bit s a + 2 * bits s r' end.

Lemma bit_lt2 s a : bit s a < 2.
Proof. unfold bit. destruct (Nat.eqb a s); lia. Qed.

Lemma pow2_pos n : 0 < Nat.pow 2 n.
Proof. induction n as [|n IH]; simpl; lia. Qed.

Lemma shift_mod b v M : b < 2 -> 0 < M -> (b + 2 * v) mod (2 * M) = b + 2 * (v mod M).
Proof.
  intros Hb HM. symmetry. apply (Nat.mod_unique _ _ (v / M)).
  - pose proof (Nat.mod_upper_bound v M ltac:(lia)). lia.
  - pose proof (Nat.div_mod v M ltac:(lia)) as E. rewrite E at 1. lia.
Qed.

Lemma shift_step_mod b v N : 0 < N -> (2 * (v mod N) + b) mod N = (b + 2 * v) mod N.
Proof.
  intro HN. rewrite <- Nat.add_mod_idemp_l by lia. rewrite Nat.mul_mod_idemp_r by lia.
  rewrite Nat.add_mod_idemp_l by lia. f_equal. lia.
Qed.

Lemma shift_arun s n w : arun (nth_end_f s n) (Some 0) w = Some (bits s (rev w) mod Nat.pow 2 n).
Proof.
  pose proof (pow2_pos n) as HN.
  induction w as [|a w IH] using rev_ind.
  - simpl. rewrite Nat.mod_0_l by lia. reflexivity.
  - rewrite arun_app, IH. cbn [arun fold_left astep]. unfold nth_end_f. rewrite rev_unit. cbn [bits].
    fold (bit s a). f_equal. apply shift_step_mod. exact HN.
Qed.

Lemma topbit s m : forall r, Nat.leb (Nat.pow 2 m) (bits s r mod Nat.pow 2 (S m)) = nth_startb s (S m) r.
Proof.
  induction m as [|m IH]; intro r.
  - destruct r as [|a r]; [reflexivity|]. cbn [bits nth_startb nth_error].
    change (Nat.pow 2 1) with (2 * 1). rewrite shift_mod by (try apply bit_lt2; lia).
    rewrite Nat.mod_1_r. unfold bit. destruct (Nat.eqb a s); reflexivity.
  - destruct r as [|a r].
    + cbn [bits nth_startb nth_error]. rewrite Nat.mod_0_l by (pose proof (pow2_pos (S (S m))); lia).
      apply Nat.leb_gt. apply pow2_pos.
    + cbn [bits]. change (nth_startb s (S (S m)) (a :: r)) with (nth_startb s (S m) r).
      rewrite <- IH.
      replace (Nat.pow 2 (S (S m))) with (2 * Nat.pow 2 (S m)) by reflexivity.
      rewrite shift_mod by (try apply bit_lt2; apply pow2_pos).
      replace (Nat.pow 2 (S m)) with (2 * Nat.pow 2 m) at 1 by reflexivity.
      pose proof (bit_lt2 s a) as Hb.
      apply eq_true_iff_eq. rewrite !Nat.leb_le. lia.
Qed.

Lemma half_pow2 m : Nat.div (Nat.pow 2 (S m)) 2 = Nat.pow 2 m.
Proof. replace (Nat.pow 2 (S m)) with (Nat.pow 2 m * 2) by (simpl; lia). apply Nat.div_mul. lia. Qed.

Lemma nth_end_closed s n q a t : nth_end_f s n q a = Some t -> t < Nat.pow 2 n.
Proof.
  unfold nth_end_f. intro H. inversion H; subst. apply Nat.mod_upper_bound.
  pose proof (pow2_pos n). lia.
Qed.

Theorem nth_from_end_acc syms s n m w : nth_from_end_m syms s n = Ok m ->
  dfa_acc m w = overb syms w && nth_endb s n w.
Proof.
  intro H. apply nth_guard_cases in H. destruct H as [Hn [Hs [[Hl ->]|[Hl ->]]]].
  - rewrite of_length_acc. simpl counted_set. rewrite (single_alphabet syms s Hl Hs).
    destruct (overb [s] w) eqn:Ho; [|reflexivity]. simpl.
    unfold rangeb. rewrite andb_true_r, over1_counted by exact Ho.
    unfold nth_endb. rewrite over1_nth_startb; [|rewrite overb_rev; exact Ho|exact Hn].
    rewrite rev_length. reflexivity.
  - destruct n as [|k]; [lia|]. rewrite table_acc.
    + f_equal. rewrite shift_arun. cbn [afin]. rewrite half_pow2. unfold nth_endb. apply topbit.
    + apply pow2_pos.
    + intros q a t _ _ H. eapply nth_end_closed. exact H.
Qed.

Theorem nth_from_end_valid syms s n m : NoDup syms -> nth_from_end_m syms s n = Ok m ->
  valid_dfa m = true.
Proof.
  intros Hnd H. apply nth_guard_cases in H. destruct H as [Hn [Hs [[Hl ->]|[Hl ->]]]].
  - apply of_length_valid. exact Hnd.
  - apply table_valid.
    + exact Hnd.
    + apply pow2_pos.
    + intros q a t _ _ H. eapply nth_end_closed. exact H.
    + intros _ q a _ _. unfold nth_end_f. discriminate.
Qed.
