(* C04: the Boolean operations compute exact set operations on languages. *)
From Coq Require Import List Arith Bool Lia.
From AV Require Import Base.Util Base.Closure Spec.Lang Spec.FA Model.Decide Model.Product Model.Build
     Model.DFAOps Proofs.FARun Proofs.Decide Proofs.Product Proofs.Build.
Import ListNotations.

Lemma ssorted_NoDup l : ssorted l -> NoDup l.
Proof.
  induction l as [|x r IH]; intro H; [constructor|]. constructor.
  - intro Hin. pose proof (ssorted_lt _ _ H _ Hin). lia.
  - apply IH. eapply ssorted_tail. exact H.
Qed.

Lemma NoDup_app_disj {B} (l m : list B) :
  NoDup l -> NoDup m -> (forall y, In y m -> ~ In y l) -> NoDup (l ++ m).
Proof.
  intros Hl Hm Hd. induction l as [|a l IHl]; simpl; [exact Hm|].
  inversion Hl; subst. constructor.
  - intro H. apply in_app_or in H. destruct H as [H|H]; [tauto|].
    apply (Hd a H). left. reflexivity.
  - apply IHl; [assumption|]. intros y Hy Hin. apply (Hd y Hy). right. exact Hin.
Qed.

(* at most one entry per label, labels distinct *)
Lemma flat_map_keys_NoDup {B} (f : nat -> list (nat * B)) (l : list nat) :
  NoDup l -> (forall c x, In x (f c) -> fst x = c) -> (forall c, length (f c) <= 1) ->
  NoDup (map fst (flat_map f l)).
Proof.
  intros Hnd Hk Hlen. induction l as [|c r IH]; simpl; [constructor|].
  inversion Hnd; subst. rewrite map_app. apply NoDup_app_disj.
  - specialize (Hlen c). destruct (f c) as [|x [|y t]]; simpl in *; [constructor| |lia].
    constructor; [intros []|constructor].
  - apply IH. assumption.
  - intros k Hk2 Hk1. apply in_map_iff in Hk1. destruct Hk1 as [x [<- Hx]]. rewrite (Hk c x Hx) in Hk2.
    apply in_map_iff in Hk2. destruct Hk2 as [y [Hy1 Hy2]]. apply in_flat_map in Hy2.
    destruct Hy2 as [c' [Hc' Hy2]]. rewrite (Hk c' y Hy2) in Hy1. subst. contradiction.
Qed.

Lemma ofinal_run_step m x c w : ofinal m (dfa_run m x (c :: w)) = true -> issome (ostep m x c) = true.
Proof.
  simpl. intro H. apply ofinal_some in H. destruct (ostep m x c); [reflexivity|]. rewrite dfa_run_None in H. exact H.
Qed.

Section Binop.
  Variables A B : dfa.
  Variable o : bop.
  Hypothesis HA : valid_dfa A = true.
  Hypothesis HB : valid_dfa B = true.
  Hypothesis Hsyms : same_syms A B = true.

  Notation lrel := (op_lrel o).
  Notation rrel := (op_rrel o).
  Notation expand := (cross_expand A B lrel rrel).
  Notation p0 := (pinit A B).
  Notation pstep := (pstep A B).
  Notation prun := (prun A B).
  Notation take := (take lrel rrel).

  Lemma expand_det p : NoDup (map fst (expand p)).
  Proof.
    unfold cross_expand. apply flat_map_keys_NoDup.
    - apply ssorted_NoDup. apply set_of_sorted.
    - intros c x Hx. destruct (_ || _); [destruct Hx|]. destruct Hx as [<-|[]]. reflexivity.
    - intro c. destruct (_ || _); simpl; lia.
  Qed.

  Lemma lstep_char p c :
    lstep pst expand p c = if take (pstep p c) then Some (pstep p c) else None.
  Proof.
    unfold lstep. destruct (take (pstep p c)) eqn:Et.
    - apply assoc_NoDup; [apply expand_det|]. apply expand_char. split; [reflexivity|exact Et].
    - destruct (assoc c (expand p)) as [p'|] eqn:E; [|reflexivity].
      apply assoc_In in E. apply expand_char in E. destruct E as [-> E]. congruence.
  Qed.

  Fixpoint alltaken (p : pst) (w : word) : bool :=
    match w with [] => true | c :: r => take (pstep p c) && alltaken (pstep p c) r end.

  Lemma lrun_char w : forall p,
    lrun pst expand p w = if alltaken p w then Some (prun p w) else None.
  Proof.
    induction w as [|c w IH]; intro p; simpl; [destruct p; reflexivity|].
    rewrite lstep_char. destruct (take (pstep p c)); simpl; [|reflexivity]. rewrite IH. reflexivity.
  Qed.

  (* an accepting pair forces every step of its access word to be taken *)
  Lemma final_alltaken w : forall p, op_final A B o (prun p w) = true -> alltaken p w = true.
  Proof.
    induction w as [|c w IH]; intros p Hf; simpl; [reflexivity|].
    apply andb_true_iff. split.
    - unfold op_final, Product.prun in Hf. cbn [fst snd] in Hf.
      unfold Product.take, Product.pstep. cbn [fst snd].
      destruct o; simpl in *.
      + apply orb_true_iff in Hf. destruct Hf as [Hf|Hf]; apply ofinal_run_step in Hf; rewrite Hf;
          [reflexivity|destruct (issome (ostep A (fst p) c)); reflexivity].
      + apply andb_true_iff in Hf. destruct Hf as [H1 H2]. apply ofinal_run_step in H1, H2. rewrite H1, H2. reflexivity.
      + apply andb_true_iff in Hf. destruct Hf as [H1 _]. apply ofinal_run_step in H1. rewrite H1. reflexivity.
      + destruct (ofinal A (dfa_run A (ostep A (fst p) c) w)) eqn:E1.
        * apply (ofinal_run_step A (fst p) c w) in E1. rewrite E1. reflexivity.
        * destruct (ofinal B (dfa_run B (ostep B (snd p) c) w)) eqn:E2; [|discriminate].
          apply (ofinal_run_step B (snd p) c w) in E2. rewrite E2.
          destruct (issome (ostep A (fst p) c)); reflexivity.
    - apply IH. exact Hf.
  Qed.

  Lemma syms_NoDup_A : NoDup (d_syms A).
  Proof. destruct (valid_dfa_parts A HA) as (_ & H & _). exact H. Qed.

  Lemma prow_key_in_syms (m : dfa) (Hm : valid_dfa m = true) x c : In c (map fst (prow m x)) -> In c (d_syms m).
  Proof.
    destruct x as [q|]; simpl; [|intros []]. destruct (d_row m q) as [row|] eqn:E; [|intros []].
    intro Hc. apply in_map_iff in Hc. destruct Hc as [[c' t] [<- Hin]].
    pose proof (row_props m Hm _ _ E) as Hr. unfold row_ok in Hr. repeat rewrite andb_true_iff in Hr.
    destruct Hr as [[_ Hr] _]. rewrite forallb_forall in Hr. specialize (Hr _ Hin). simpl in Hr.
    apply andb_true_iff in Hr. destruct Hr as [Hr _]. apply memb_In. exact Hr.
  Qed.

  Lemma expand_label_in_syms p c t : In (c, t) (expand p) -> In c (d_syms A).
  Proof.
    unfold cross_expand. intro H. apply in_flat_map in H. destruct H as [c' [Hc' H]].
    destruct (_ || _); [destruct H|]. destruct H as [H|[]]. inversion H; subst.
    apply (proj1 (set_of_In _ _)) in Hc'. apply in_app_or in Hc'. destruct Hc' as [Hc'|Hc'].
    - eapply prow_key_in_syms; eassumption.
    - apply (prow_key_in_syms B HB) in Hc'. unfold same_syms in Hsyms. apply andb_true_iff in Hsyms.
      destruct Hsyms as [_ H2]. apply subsetb_incl in H2. apply H2. exact Hc'.
  Qed.

  Theorem binop_spec :
    exists R, binop_m o A B = Ok R /\ valid_dfa R = true /\ d_syms R = d_syms A /\
              forall w, dfa_acc R w = op_bool o (dfa_acc A w) (dfa_acc B w).
  Proof.
    unfold binop_m, guard_syms. rewrite Hsyms. unfold build_dfa, explore.
    destruct (cross_states_ok A B lrel rrel HA HB) as [ps [E Hps]].
    unfold cross_states, ores in E.
    match type of E with
    | (match ?c with _ => _ end) = _ => destruct c as [ps'|] eqn:Ec; [|discriminate]
    end.
    inversion E; subst ps'. clear E.
    match goal with
    | |- context [match ?c with Some _ => _ | None => _ end] => replace c with (Some ps) by (symmetry; exact Ec)
    end.
    destruct (closure_head _ _ _ _ _ _ Ec) as [rest Hhead].
    assert (Hnd : NoDup ps).
    { eapply closure_NoDup; [|exact Ec].
      apply eqb_pair_ok; apply eqb_opt_ok, eqb_nat_ok. }
    assert (Hclosed : forall p c t, In p ps -> In (c, t) (expand p) -> In t ps).
    { intros p c t Hp Hin. apply Hps in Hp. destruct Hp as [w Hw]. apply Hps.
      apply expand_char in Hin. destruct Hin as [-> Ht]. exists (w ++ [c]). constructor; assumption. }
    assert (Hpeq : eqb_ok peqb) by (apply eqb_pair_ok; apply eqb_opt_ok, eqb_nat_ok).
    eexists. split; [reflexivity|]. split; [|split; [reflexivity|]].
    - eapply (M_valid pst peqb Hpeq expand (op_final A B o) expand_det (d_syms A) ps);
        [exact syms_NoDup_A| |exact Hhead].
      intros p c t _ Hin. eapply expand_label_in_syms. exact Hin.
    - intro w.
      rewrite (M_acc pst peqb Hpeq expand (op_final A B o) expand_det (d_syms A) ps Hnd Hclosed p0 rest w Hhead).
      rewrite lrun_char.
      change (op_bool o (dfa_acc A w) (dfa_acc B w)) with (op_final A B o (prun p0 w)).
      destruct (op_final A B o (prun p0 w)) eqn:Ef.
      + rewrite (final_alltaken w p0 Ef). exact Ef.
      + destruct (alltaken p0 w); [exact Ef|reflexivity].
  Qed.

  Theorem binop_mismatch_refused : forall A' B' o', same_syms A' B' = false -> binop_m o' A' B' = Err Mismatch.
  Proof. intros A' B' o' H. unfold binop_m, guard_syms. rewrite H. reflexivity. Qed.
End Binop.

Lemma same_syms_refl_eq A B : d_syms A = d_syms B -> same_syms A B = true.
Proof.
  intro H. unfold same_syms. rewrite H. apply andb_true_iff.
  split; apply subsetb_incl; apply incl_refl.
Qed.

(* finite expression trees of the binary operations *)
Fixpoint leaves_ok (S : list nat) (e : dexpr) : Prop :=
  match e with
  | DLeaf m => valid_dfa m = true /\ d_syms m = S
  | DBin _ a b => leaves_ok S a /\ leaves_ok S b
  | DCompl _ => False
  end.

Theorem dexpr_spec S e : leaves_ok S e ->
  exists R, deval e = Ok R /\ valid_dfa R = true /\ d_syms R = S /\ forall w, dfa_acc R w = dsem e w.
Proof.
  induction e as [m|o a IHa b IHb|a IHa]; simpl.
  - intros [Hv Hs]. exists m. repeat split; assumption.
  - intros [Ha Hb]. destruct (IHa Ha) as [Ra [Ea [Va [Sa La]]]]. destruct (IHb Hb) as [Rb [Eb [Vb [Sb Lb]]]].
    rewrite Ea, Eb. simpl.
    destruct (binop_spec Ra Rb o Va Vb (same_syms_refl_eq Ra Rb (eq_trans Sa (eq_sym Sb)))) as [R [E [V [Sy L]]]].
    exists R. split; [exact E|]. split; [exact V|]. split; [congruence|].
    intro w. rewrite L, La, Lb. reflexivity.
  - intros [].
Qed.
