(* The DFA built from an explored deterministic labelled graph runs like the graph. *)
From Coq Require Import List Arith Bool Lia.
From AV Require Import Base.Util Base.Closure Spec.Lang Spec.FA Model.Build.
Import ListNotations.

Lemma number_length {A} i (l : list A) : length (number i l) = length l.
Proof. revert i; induction l as [|x r IH]; intro i; simpl; [reflexivity|]. rewrite IH. reflexivity. Qed.

Lemma number_fst {A} i (l : list A) : map fst (number i l) = seq i (length l).
Proof. revert i; induction l as [|x r IH]; intro i; simpl; [reflexivity|]. rewrite IH. reflexivity. Qed.

Lemma number_In {A} i (l : list A) k x : In (k, x) (number i l) <-> i <= k /\ nth_error l (k - i) = Some x.
Proof.
  revert i. induction l as [|y r IH]; intro i; simpl.
  - split; [intros []|]. intros [_ H]. destruct (k - i); discriminate.
  - rewrite IH. split.
    + intros [H|[H1 H2]].
      * inversion H; subst. split; [lia|]. rewrite Nat.sub_diag. reflexivity.
      * split; [lia|]. replace (k - i) with (S (k - S i)) by lia. exact H2.
    + intros [H1 H2]. destruct (Nat.eq_dec k i) as [->|Hne].
      * rewrite Nat.sub_diag in H2. simpl in H2. inversion H2. left. reflexivity.
      * right. split; [lia|]. replace (k - i) with (S (k - S i)) in H2 by lia. exact H2.
Qed.

Lemma assoc_map_snd {B C} (f : B -> C) k (l : list (nat * B)) :
  assoc k (map (fun ip => (fst ip, f (snd ip))) l) = option_map f (assoc k l).
Proof.
  induction l as [|[k' v] r IH]; simpl; [reflexivity|]. destruct (Nat.eqb k k'); [reflexivity|exact IH].
Qed.

Lemma assoc_number {A} (l : list A) i k : i <= k -> assoc k (number i l) = nth_error l (k - i).
Proof.
  revert i. induction l as [|x r IH]; intros i Hik; simpl.
  - destruct (k - i); reflexivity.
  - destruct (Nat.eqb k i) eqn:E.
    + apply Nat.eqb_eq in E. subst. rewrite Nat.sub_diag. reflexivity.
    + apply Nat.eqb_neq in E. rewrite IH by lia. replace (k - i) with (S (k - S i)) by lia. reflexivity.
Qed.

Section Build.
  Variable P : Type.
  Variable eqbP : P -> P -> bool.
  Hypothesis eqbP_ok : eqb_ok eqbP.
  Variable lsucc : P -> list (nat * P).
  Variable isfinal : P -> bool.
  Hypothesis det : forall p, NoDup (map fst (lsucc p)).

  Notation index_of := (index_of P eqbP).
  Notation brow := (brow P eqbP lsucc).

  Definition lstep (p : P) (c : nat) : option P := assoc c (lsucc p).
  Fixpoint lrun (p : P) (w : word) : option P :=
    match w with
    | [] => Some p
    | c :: r => match lstep p c with Some t => lrun t r | None => None end
    end.

  Lemma index_of_nth ps p i : index_of p ps = Some i -> nth_error ps i = Some p.
  Proof.
    revert i. induction ps as [|x r IH]; intros i; simpl; [discriminate|].
    destruct (eqbP p x) eqn:E.
    - apply eqbP_ok in E. subst. intro H. inversion H. reflexivity.
    - destruct (index_of p r) as [j|]; simpl; [|discriminate]. intro H. inversion H. simpl. apply IH. reflexivity.
  Qed.

  Lemma nth_index_of ps p i : NoDup ps -> nth_error ps i = Some p -> index_of p ps = Some i.
  Proof.
    revert i. induction ps as [|x r IH]; intros i Hnd; [destruct i; discriminate|].
    inversion Hnd; subst. destruct i as [|i]; simpl.
    - intro H. inversion H; subst. rewrite (eqb_ok_refl _ eqbP_ok). reflexivity.
    - intro H. destruct (eqbP p x) eqn:E.
      + apply eqbP_ok in E. subst. exfalso. apply H1. eapply nth_error_In. exact H.
      + rewrite (IH i H2 H). reflexivity.
  Qed.

  Lemma index_of_In ps p : In p ps -> exists i, index_of p ps = Some i.
  Proof.
    induction ps as [|x r IH]; [intros []|]. simpl. destruct (eqbP p x) eqn:E; [eauto|].
    intros [->|H]; [rewrite (eqb_ok_refl _ eqbP_ok) in E; discriminate|].
    destruct (IH H) as [i ->]. simpl. eauto.
  Qed.

  Lemma assoc_brow_aux ps c l : NoDup (map fst l) ->
    assoc c (flat_map (fun ct => match index_of (snd ct) ps with Some j => [(fst ct, j)] | None => [] end) l)
    = match assoc c l with Some t => index_of t ps | None => None end.
  Proof.
    induction l as [|[c' t] r IH]; intro Hnd; simpl; [reflexivity|]. inversion Hnd; subst.
    destruct (Nat.eqb c c') eqn:E.
    - apply Nat.eqb_eq in E. subst c'. destruct (index_of t ps) as [j|] eqn:Ei; simpl.
      + rewrite Nat.eqb_refl. reflexivity.
      + rewrite (IH H2). destruct (assoc c r) eqn:Ea; [|reflexivity].
        exfalso. apply H1. eapply assoc_Some_key. exact Ea.
    - destruct (index_of t ps) as [j|]; simpl; [rewrite E|]; apply IH; assumption.
  Qed.

  Lemma assoc_brow ps p c : assoc c (brow ps p) = match lstep p c with Some t => index_of t ps | None => None end.
  Proof. unfold brow, lstep. apply assoc_brow_aux. apply det. Qed.

  Variable syms : list nat.
  Variable ps : list P.
  Hypothesis ps_nodup : NoDup ps.
  Hypothesis ps_closed : forall p c t, In p ps -> In (c, t) (lsucc p) -> In t ps.

  Notation M := (build_from P eqbP lsucc isfinal syms ps).

  Lemma M_delta i p c : nth_error ps i = Some p ->
    d_delta M i c = match lstep p c with Some t => index_of t ps | None => None end.
  Proof.
    intro Hn. unfold d_delta, d_row. simpl.
    rewrite (assoc_map_snd (brow ps)). rewrite assoc_number by lia. rewrite Nat.sub_0_r, Hn. simpl.
    apply assoc_brow.
  Qed.

  Lemma lstep_In p c t : lstep p c = Some t -> In (c, t) (lsucc p).
  Proof. apply assoc_In. Qed.

  Lemma M_run w : forall i p, nth_error ps i = Some p ->
    dfa_run M (Some i) w = match lrun p w with Some t => index_of t ps | None => None end.
  Proof.
    induction w as [|c w IH]; intros i p Hn; simpl.
    - symmetry. f_equal. apply nth_index_of; assumption.
    - rewrite (M_delta i p c Hn). destruct (lstep p c) as [t|] eqn:E; [|apply dfa_run_None].
      assert (Ht : In t ps). { eapply ps_closed; [eapply nth_error_In; exact Hn|apply lstep_In; exact E]. }
      destruct (index_of_In ps t Ht) as [j Hj]. rewrite Hj. apply IH. apply index_of_nth. exact Hj.
  Qed.

  Lemma M_final i p : nth_error ps i = Some p -> memb i (d_finals M) = isfinal p.
  Proof.
    intro Hn. simpl. destruct (isfinal p) eqn:Ef.
    - apply memb_In. apply in_map_iff. exists (i, p). split; [reflexivity|]. apply filter_In. split; [|exact Ef].
      apply number_In. split; [lia|]. rewrite Nat.sub_0_r. exact Hn.
    - apply memb_false. intro H. apply in_map_iff in H. destruct H as [[k q] [Hk H]]. simpl in Hk. subst k.
      apply filter_In in H. destruct H as [H Hq]. apply number_In in H. destruct H as [_ H].
      rewrite Nat.sub_0_r, Hn in H. inversion H; subst. simpl in Hq. congruence.
  Qed.

  Lemma lrun_In w : forall p t, In p ps -> lrun p w = Some t -> In t ps.
  Proof.
    induction w as [|c w IH]; intros p t Hp; simpl.
    - intro H. inversion H; subst. exact Hp.
    - destruct (lstep p c) as [u|] eqn:E; [|discriminate]. apply IH.
      eapply ps_closed; [exact Hp|apply lstep_In; exact E].
  Qed.

  Theorem M_acc init rest w : ps = init :: rest ->
    dfa_acc M w = match lrun init w with Some t => isfinal t | None => false end.
  Proof.
    intro Hps. unfold dfa_acc, dfa_acc_from. simpl d_init.
    assert (Hn : nth_error ps 0 = Some init) by (rewrite Hps; reflexivity).
    rewrite (M_run w 0 init Hn). destruct (lrun init w) as [t|] eqn:E; [|reflexivity].
    assert (Ht : In t ps). { eapply lrun_In; [|exact E]. rewrite Hps. left. reflexivity. }
    destruct (index_of_In ps t Ht) as [j Hj]. rewrite Hj. simpl.
    apply M_final. apply index_of_nth. exact Hj.
  Qed.

  (* validity of the result *)
  Hypothesis syms_nodup : NoDup syms.
  Hypothesis labels_in_syms : forall p c t, In p ps -> In (c, t) (lsucc p) -> In c syms.

  Lemma brow_keys_NoDup p : NoDup (map fst (brow ps p)).
  Proof.
    unfold brow. pose proof (det p) as Hd. induction (lsucc p) as [|[c t] r IH]; simpl; [constructor|].
    inversion Hd; subst. destruct (index_of t ps) as [j|]; simpl; [|apply IH; assumption].
    constructor; [|apply IH; assumption]. intro H. apply H1.
    apply in_map_iff in H. destruct H as [[c' j'] [Hc H]]. simpl in Hc. subst c'.
    apply in_flat_map in H. destruct H as [[c'' t''] [Hin H]]. simpl in H.
    destruct (index_of t'' ps); [|destruct H]. destruct H as [H|[]]. inversion H; subst.
    apply in_map_iff. exists (c, t''). split; [reflexivity|exact Hin].
  Qed.

  Lemma brow_entries p c j : In p ps -> In (c, j) (brow ps p) -> In c syms /\ j < length ps.
  Proof.
    intros Hp H. unfold brow in H. apply in_flat_map in H. destruct H as [[c' t] [Hin H]]. simpl in H.
    destruct (index_of t ps) as [j'|] eqn:E; [|destruct H]. destruct H as [H|[]]. inversion H; subst.
    split; [eapply labels_in_syms; eassumption|].
    apply index_of_nth in E. apply nth_error_Some. congruence.
  Qed.

  Lemma NoDup_incl_same_length_covers (l m : list nat) :
    NoDup l -> incl l m -> length l = length m -> NoDup m -> incl m l.
  Proof.
    intros Hl Hi Hlen Hm. apply NoDup_length_incl; [exact Hl|lia|exact Hi].
  Qed.

  Theorem M_valid init rest : ps = init :: rest -> valid_dfa M = true.
  Proof.
    intro Hps. unfold valid_dfa. repeat (apply andb_true_iff; split).
    - apply nodupb_NoDup. simpl. apply seq_NoDup.
    - apply nodupb_NoDup. exact syms_nodup.
    - apply nodupb_NoDup. simpl. rewrite map_map. simpl.
      change (map (fun x : nat * P => fst x) (number 0 ps)) with (map fst (number 0 ps)).
      rewrite number_fst. apply seq_NoDup.
    - apply forallb_forall. intros q Hq. apply memb_In. simpl in *. rewrite map_map. simpl.
      change (map (fun x : nat * P => fst x) (number 0 ps)) with (map fst (number 0 ps)).
      rewrite number_fst. exact Hq.
    - apply forallb_forall. intros [i row] Hr. simpl in Hr. apply in_map_iff in Hr.
      destruct Hr as [[k p] [Hk Hin]]. simpl in Hk. injection Hk as <- <-.
      apply number_In in Hin. destruct Hin as [_ Hn]. rewrite Nat.sub_0_r in Hn.
      assert (Hp : In p ps) by (eapply nth_error_In; exact Hn).
      unfold row_ok. simpl snd. repeat (apply andb_true_iff; split).
      + apply nodupb_NoDup. apply brow_keys_NoDup.
      + apply forallb_forall. intros [c j] Hcj. destruct (brow_entries p c j Hp Hcj) as [H1 H2]. simpl.
        apply andb_true_iff. split; apply memb_In; [exact H1|]. apply in_seq. lia.
      + simpl d_partial. simpl d_syms.
        destruct (existsb _ _) eqn:Ex; [reflexivity|]. simpl.
        apply forallb_forall. intros a Ha. apply memb_In.
        (* no row is short: this row has |syms| distinct keys inside syms, so it covers syms *)
        assert (Hlen : length (brow ps p) = length syms).
        { destruct (Nat.eqb (length (brow ps p)) (length syms)) eqn:El; [apply Nat.eqb_eq; exact El|].
          exfalso. assert (existsb (fun r : nat * list (nat * nat) => negb (Nat.eqb (length (snd r)) (length syms)))
                     (map (fun ip : nat * P => (fst ip, brow ps (snd ip))) (number 0 ps)) = true); [|congruence].
          apply existsb_exists. exists (k, brow ps p). split.
          - apply in_map_iff. exists (k, p). split; [reflexivity|]. apply number_In. split; [lia|].
            rewrite Nat.sub_0_r. exact Hn.
          - simpl. rewrite El. reflexivity. }
        apply (NoDup_incl_same_length_covers (map fst (brow ps p)) syms).
        * apply brow_keys_NoDup.
        * intros c Hc. apply in_map_iff in Hc. destruct Hc as [[c' j] [<- Hcj]].
          apply (brow_entries p c' j Hp Hcj).
        * rewrite map_length. exact Hlen.
        * exact syms_nodup.
        * exact Ha.
    - apply memb_In. simpl. apply in_seq. rewrite Hps. simpl. lia.
    - apply subsetb_incl. intros i Hi. simpl in *. apply in_map_iff in Hi. destruct Hi as [[k p] [<- H]].
      apply filter_In in H. destruct H as [H _]. apply number_In in H. destruct H as [_ H].
      apply in_seq. simpl. split; [lia|]. apply nth_error_Some. rewrite Nat.sub_0_r in H. congruence.
  Qed.
End Build.
