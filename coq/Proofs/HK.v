(* Correctness of the Hopcroft-Karp mirror model (Model/HK.v): for every symbol order and every
   tie-break of the union-find, the loop returns (on enough fuel) and answers true exactly when the
   two initial states accept the same words over the iterated symbols.  Instances: DFA.__eq__ equals
   the specification model eq_m, NFA.__eq__ equals nfa_eq_m. *)
From Coq Require Import List Arith Bool Lia.
From AV Require Import Base.Util Base.Closure Spec.Lang Spec.FA Model.FARun Model.Decide Model.Product
     Model.Build Model.Subset Model.HK Proofs.FARun Proofs.Decide Proofs.Product Proofs.Subset.
Import ListNotations.

Lemma filter_length_le {A} (f : A -> bool) l : length (filter f l) <= length l.
Proof. induction l as [|x r IH]; simpl; [lia|]. destruct (f x); simpl; lia. Qed.

Lemma filter_length_lt {A} (f g : A -> bool) l z :
  (forall x, g x = true -> f x = true) -> In z l -> f z = true -> g z = false ->
  length (filter g l) < length (filter f l).
Proof.
  intros Hi. induction l as [|x r IH]; intros Hz Hf Hg; [destruct Hz|].
  assert (Hle : length (filter g r) <= length (filter f r)).
  { clear IH Hz. induction r as [|y r IH]; simpl; [lia|].
    destruct (g y) eqn:E; [rewrite (Hi y E); simpl; lia|]. destruct (f y); simpl; lia. }
  simpl. destruct Hz as [->|Hz].
  - rewrite Hf, Hg. simpl. lia.
  - specialize (IH Hz Hf Hg). destruct (g x) eqn:E; [rewrite (Hi x E); simpl; lia|].
    destruct (f x); simpl; lia.
Qed.

(* equivalence closure of a relation *)
Inductive eqcl {A} (R : A -> A -> Prop) : A -> A -> Prop :=
| ec_base x y : R x y -> eqcl R x y
| ec_refl x : eqcl R x x
| ec_sym x y : eqcl R x y -> eqcl R y x
| ec_trans x y z : eqcl R x y -> eqcl R y z -> eqcl R x z.

Lemma eqcl_mono {A} (R R' : A -> A -> Prop) : (forall p q, R p q -> R' p q) ->
  forall x y, eqcl R x y -> eqcl R' x y.
Proof.
  intros H x y E. induction E as [x y E|x|x y E IH|x y z E1 IH1 E2 IH2].
  - apply ec_base, H, E.
  - apply ec_refl.
  - apply ec_sym, IH.
  - eapply ec_trans; eassumption.
Qed.

Section HKProofs.
  Variables X Y : Type.
  Variable eqbX : X -> X -> bool.
  Variable eqbY : Y -> Y -> bool.
  Hypothesis eqbX_ok : eqb_ok eqbX.
  Hypothesis eqbY_ok : eqb_ok eqbY.
  Variable stepX : X -> nat -> X.
  Variable stepY : Y -> nat -> Y.
  Variable finX : X -> bool.
  Variable finY : Y -> bool.
  Variable tie : elem X Y -> elem X Y -> bool.
  Variable syms : list nat.

  Notation elem := (elem X Y).
  Notation eqbE := (eqbE X Y eqbX eqbY).
  Notation efinal := (efinal X Y finX finY).
  Notation estep := (estep X Y stepX stepY).
  Notation uf := (uf X Y).
  Notation elookup := (elookup X Y eqbX eqbY).
  Notation uf_find := (uf_find X Y eqbX eqbY).
  Notation uf_union := (uf_union X Y eqbX eqbY tie).
  Notation hk_symbol := (hk_symbol X Y eqbX eqbY stepX stepY uf_find uf_union).
  Notation hk_loop := (hk_loop X Y eqbX eqbY stepX stepY finX finY uf_find uf_union syms).

  Lemma eqbE_ok : eqb_ok eqbE.
  Proof.
    intros [a|a] [b|b]; simpl; split; intro H; try discriminate.
    - apply eqbX_ok in H. congruence.
    - inversion H. apply eqbX_ok. reflexivity.
    - apply eqbY_ok in H. congruence.
    - inversion H. apply eqbY_ok. reflexivity.
  Qed.

  Lemma eqbE_refl x : eqbE x x = true.
  Proof. apply eqbE_ok. reflexivity. Qed.

  Lemma eqbE_neq x y : x <> y -> eqbE x y = false.
  Proof. intro H. apply (eqb_ok_false _ eqbE_ok). exact H. Qed.

  Lemma eqbE_dec (x y : elem) : {x = y} + {x <> y}.
  Proof.
    destruct (eqbE x y) eqn:E; [left; apply eqbE_ok; exact E|right; apply (eqb_ok_false _ eqbE_ok); exact E].
  Qed.

  (* ---------- the union-find: find as a pure function ---------- *)
  Definition fnd (u : uf) (x : elem) : elem :=
    match elookup x (uf_parents X Y u) with Some r => r | None => x end.

  (* flat: the parent of every key is a key that is its own parent *)
  Definition uf_ok (u : uf) : Prop :=
    forall x r, elookup x (uf_parents X Y u) = Some r -> elookup r (uf_parents X Y u) = Some r.

  Lemma fnd_idem u x : uf_ok u -> fnd u (fnd u x) = fnd u x.
  Proof.
    intro Hok. unfold fnd at 2 3. destruct (elookup x (uf_parents X Y u)) as [r|] eqn:E.
    - unfold fnd. rewrite (Hok _ _ E). reflexivity.
    - unfold fnd. rewrite E. reflexivity.
  Qed.

  Lemma find_fst u x : fst (uf_find u x) = fnd u x.
  Proof. unfold uf_find, fnd. destruct (elookup x (uf_parents X Y u)); reflexivity. Qed.

  Lemma find_fnd u x y : fnd (snd (uf_find u x)) y = fnd u y.
  Proof.
    unfold uf_find, fnd. destruct (elookup x (uf_parents X Y u)) as [r|] eqn:E; simpl; [reflexivity|].
    destruct (eqbE y x) eqn:E2; [|reflexivity].
    apply eqbE_ok in E2. subst y. rewrite E. reflexivity.
  Qed.

  Lemma find_ok u x : uf_ok u -> uf_ok (snd (uf_find u x)).
  Proof.
    intro Hok. unfold uf_find. destruct (elookup x (uf_parents X Y u)) as [r|] eqn:E; simpl; [exact Hok|].
    intros y r. simpl. destruct (eqbE y x) eqn:E2.
    - intro H. inversion H; subst r. rewrite eqbE_refl. reflexivity.
    - intro H. destruct (eqbE r x) eqn:E3.
      + apply eqbE_ok in E3. subst r. reflexivity.
      + apply (Hok _ _ H).
  Qed.

  Lemma find_keeps u x z r : elookup z (uf_parents X Y u) = Some r ->
    elookup z (uf_parents X Y (snd (uf_find u x))) = Some r.
  Proof.
    intro H. unfold uf_find. destruct (elookup x (uf_parents X Y u)) as [r'|] eqn:E; simpl; [exact H|].
    destruct (eqbE z x) eqn:E2; [|exact H]. apply eqbE_ok in E2. subst z. congruence.
  Qed.

  (* after the lookup of x, the root of x is a key (and its own parent) *)
  Lemma find_root_keyed u x : uf_ok u ->
    elookup (fnd u x) (uf_parents X Y (snd (uf_find u x))) = Some (fnd u x).
  Proof.
    intro Hok. unfold uf_find, fnd. destruct (elookup x (uf_parents X Y u)) as [r|] eqn:E; simpl.
    - apply (Hok _ _ E).
    - rewrite eqbE_refl. reflexivity.
  Qed.

  Lemma elookup_map (g : elem -> elem) l x :
    elookup x (map (fun kv : elem * elem => (fst kv, g (snd kv))) l) =
    match elookup x l with Some r => Some (g r) | None => None end.
  Proof.
    induction l as [|[k v] l IH]; simpl; [reflexivity|]. destruct (eqbE x k); [reflexivity|exact IH].
  Qed.

  (* what a union does to the find function *)
  Definition merged (f f' : elem -> elem) (a b : elem) : Prop :=
    exists root other, ((root = a /\ other = b) \/ (root = b /\ other = a)) /\
      forall x, f' x = if eqbE (f x) other then root else f x.

  Lemma union_spec u a b : uf_ok u ->
    uf_ok (uf_union u a b) /\
    ((fnd u a = fnd u b /\ forall x, fnd (uf_union u a b) x = fnd u x) \/
     (fnd u a <> fnd u b /\ merged (fnd u) (fnd (uf_union u a b)) (fnd u a) (fnd u b))).
  Proof.
    intro Hok. unfold uf_union.
    destruct (uf_find u a) as [ra u1] eqn:E1. destruct (uf_find u1 b) as [rb u2] eqn:E2.
    assert (Hra : ra = fnd u a) by (rewrite <- find_fst, E1; reflexivity).
    assert (Hu1 : u1 = snd (uf_find u a)) by (rewrite E1; reflexivity).
    assert (Hrb1 : rb = fnd u1 b) by (rewrite <- find_fst, E2; reflexivity).
    assert (Hu2 : u2 = snd (uf_find u1 b)) by (rewrite E2; reflexivity).
    assert (Hok1 : uf_ok u1) by (rewrite Hu1; apply find_ok; exact Hok).
    assert (Hok2 : uf_ok u2) by (rewrite Hu2; apply find_ok; exact Hok1).
    assert (Hf1 : forall y, fnd u1 y = fnd u y) by (intro y; rewrite Hu1; apply find_fnd).
    assert (Hf2 : forall y, fnd u2 y = fnd u y) by (intro y; rewrite Hu2, find_fnd; apply Hf1).
    assert (Hrb : rb = fnd u b) by (rewrite Hrb1; apply Hf1).
    assert (Hka : elookup ra (uf_parents X Y u2) = Some ra).
    { rewrite Hu2. apply find_keeps. rewrite Hu1, Hra. apply find_root_keyed. exact Hok. }
    assert (Hkb : elookup rb (uf_parents X Y u2) = Some rb).
    { rewrite Hu2, Hrb1. apply find_root_keyed. exact Hok1. }
    rewrite <- Hra, <- Hrb.
    destruct (eqbE ra rb) eqn:Eab.
    - apply eqbE_ok in Eab. split; [exact Hok2|]. left. split; [exact Eab|exact Hf2].
    - assert (Hne : ra <> rb) by (apply (eqb_ok_false _ eqbE_ok); exact Eab).
      set (first := if Nat.ltb (uf_weight X Y eqbX eqbY u2 rb) (uf_weight X Y eqbX eqbY u2 ra) then true
                    else if Nat.ltb (uf_weight X Y eqbX eqbY u2 ra) (uf_weight X Y eqbX eqbY u2 rb) then false
                    else tie ra rb).
      set (root := if first then ra else rb). set (other := if first then rb else ra).
      assert (Hro : (root = ra /\ other = rb) \/ (root = rb /\ other = ra)).
      { unfold root, other. destruct first; [left|right]; split; reflexivity. }
      assert (Hne' : root <> other) by (destruct Hro as [[-> ->]|[-> ->]]; congruence).
      assert (Hkr : elookup root (uf_parents X Y u2) = Some root) by (destruct Hro as [[-> _]|[-> _]]; assumption).
      assert (Hko : elookup other (uf_parents X Y u2) = Some other) by (destruct Hro as [[_ ->]|[_ ->]]; assumption).
      split.
      + intros x r. simpl. rewrite !(elookup_map (fun v => if eqbE v other then root else v)).
        destruct (elookup x (uf_parents X Y u2)) as [r0|] eqn:Ex; [|discriminate].
        intro H. inversion H; subst r. clear H. pose proof (Hok2 _ _ Ex) as Hr0.
        destruct (eqbE r0 other) eqn:E0.
        * rewrite Hkr. rewrite (eqbE_neq _ _ Hne'). reflexivity.
        * rewrite Hr0. rewrite E0. reflexivity.
      + right. split; [exact Hne|]. exists root, other. split; [exact Hro|].
        intro x. unfold fnd at 1. simpl. rewrite (elookup_map (fun v => if eqbE v other then root else v)).
        rewrite <- (Hf2 x). unfold fnd.
        destruct (elookup x (uf_parents X Y u2)) as [r0|] eqn:Ex; [reflexivity|].
        destruct (eqbE x other) eqn:E0; [|reflexivity].
        apply eqbE_ok in E0. subst x. congruence.
  Qed.

  (* consequences of a merge of two distinct roots a, b of f *)
  Section Merged.
    Variables f f' : elem -> elem.
    Variables a b : elem.
    Hypothesis Hidem : forall x, f (f x) = f x.
    Hypothesis Ha : f a = a.
    Hypothesis Hb : f b = b.
    Hypothesis Hab : a <> b.
    Hypothesis Hm : merged f f' a b.

    Lemma merged_inv x y : f' x = f' y ->
      f x = f y \/ (f x = a /\ f y = b) \/ (f x = b /\ f y = a).
    Proof.
      destruct Hm as [root [other [Hro Hf]]]. rewrite (Hf x), (Hf y).
      destruct (eqbE (f x) other) eqn:Ex, (eqbE (f y) other) eqn:Ey; intro H.
      - apply eqbE_ok in Ex, Ey. left. congruence.
      - apply eqbE_ok in Ex. right. destruct Hro as [[-> ->]|[-> ->]]; [right|left]; split; congruence.
      - apply eqbE_ok in Ey. right. destruct Hro as [[-> ->]|[-> ->]]; [left|right]; split; congruence.
      - left. exact H.
    Qed.

    Lemma merged_mono x y : f x = f y -> f' x = f' y.
    Proof. destruct Hm as [root [other [_ Hf]]]. intro H. rewrite (Hf x), (Hf y), H. reflexivity. Qed.

    Lemma merged_ab : f' a = f' b.
    Proof.
      destruct Hm as [root [other [Hro Hf]]]. rewrite (Hf a), (Hf b), Ha, Hb.
      destruct Hro as [[-> ->]|[-> ->]].
      - rewrite eqbE_refl, (eqbE_neq _ _ Hab). reflexivity.
      - rewrite eqbE_refl. rewrite (eqbE_neq b a); [reflexivity|congruence].
    Qed.

    Lemma merged_roots : exists other, (other = a \/ other = b) /\
      forall x, f' x = x <-> (f x = x /\ x <> other).
    Proof.
      destruct Hm as [root [other [Hro Hf]]]. exists other. split; [destruct Hro as [[_ ->]|[_ ->]]; auto|].
      assert (Hne : root <> other) by (destruct Hro as [[-> ->]|[-> ->]]; congruence).
      assert (Hfr : f root = root) by (destruct Hro as [[-> _]|[-> _]]; assumption).
      intro x. rewrite (Hf x). destruct (eqbE (f x) other) eqn:E.
      - apply eqbE_ok in E. split.
        + intro H. subst x. congruence.
        + intros [H1 H2]. congruence.
      - apply (eqb_ok_false _ eqbE_ok) in E. split.
        + intro H. split; [exact H|congruence].
        + intros [H _]. exact H.
    Qed.

    Lemma merged_range x : f' x = f x \/ f' x = a \/ f' x = b.
    Proof.
      destruct Hm as [root [other [Hro Hf]]]. rewrite (Hf x). destruct (eqbE (f x) other); [|left; reflexivity].
      right. destruct Hro as [[-> _]|[-> _]]; auto.
    Qed.
  End Merged.

  (* ---------- one symbol of the for loop ---------- *)
  Lemma hk_symbol_spec qa qb u st a : uf_ok u ->
    let r1 := fnd u (estep qa a) in
    let r2 := fnd u (estep qb a) in
    let st' := hk_symbol qa qb (u, st) a in
    uf_ok (fst st') /\
    ((r1 = r2 /\ snd st' = st /\ forall x, fnd (fst st') x = fnd u x) \/
     (r1 <> r2 /\ snd st' = (r1, r2) :: st /\ merged (fnd u) (fnd (fst st')) r1 r2)).
  Proof.
    intros Hok r1 r2. unfold hk_symbol. simpl fst. simpl snd.
    destruct (uf_find u (estep qa a)) as [r1' u1] eqn:E1. destruct (uf_find u1 (estep qb a)) as [r2' u2] eqn:E2.
    assert (Hr1 : r1' = r1) by (unfold r1; rewrite <- find_fst, E1; reflexivity).
    assert (Hu1 : u1 = snd (uf_find u (estep qa a))) by (rewrite E1; reflexivity).
    assert (Hu2 : u2 = snd (uf_find u1 (estep qb a))) by (rewrite E2; reflexivity).
    assert (Hok1 : uf_ok u1) by (rewrite Hu1; apply find_ok; exact Hok).
    assert (Hok2 : uf_ok u2) by (rewrite Hu2; apply find_ok; exact Hok1).
    assert (Hf1 : forall y, fnd u1 y = fnd u y) by (intro y; rewrite Hu1; apply find_fnd).
    assert (Hf2 : forall y, fnd u2 y = fnd u y) by (intro y; rewrite Hu2, find_fnd; apply Hf1).
    assert (Hr2 : r2' = r2) by (unfold r2; rewrite <- Hf1, <- find_fst, E2; reflexivity).
    subst r1' r2'.
    destruct (eqbE r1 r2) eqn:E; simpl.
    - apply eqbE_ok in E. split; [exact Hok2|]. left. repeat split; assumption.
    - apply (eqb_ok_false _ eqbE_ok) in E.
      destruct (union_spec u2 r1 r2 Hok2) as [Hok3 H3]. split; [exact Hok3|]. right.
      assert (Hi1 : fnd u2 r1 = r1) by (rewrite Hf2; unfold r1; apply fnd_idem; exact Hok).
      assert (Hi2 : fnd u2 r2 = r2) by (rewrite Hf2; unfold r2; apply fnd_idem; exact Hok).
      rewrite Hi1, Hi2 in H3. destruct H3 as [[H3 _]|[_ H3]]; [contradiction|].
      split; [exact E|]. split; [reflexivity|].
      destruct H3 as [root [other [Hro Hf]]]. exists root, other. split; [exact Hro|].
      intro x. rewrite (Hf x), Hf2. reflexivity.
  Qed.

  (* ---------- semantics of the combined system ---------- *)
  Definition erun (x : elem) (w : word) : elem := fold_left estep w x.
  Definition leq (x y : elem) : Prop := forall w, over syms w -> efinal (erun x w) = efinal (erun y w).

  Lemma erun_inl x w : erun (inl x) w = inl (fold_left stepX w x).
  Proof. revert x. induction w as [|a w IH]; intro x; simpl; [reflexivity|apply IH]. Qed.
  Lemma erun_inr y w : erun (inr y) w = inr (fold_left stepY w y).
  Proof. revert y. induction w as [|a w IH]; intro y; simpl; [reflexivity|apply IH]. Qed.

  Lemma leq_refl x : leq x x. Proof. intros w _. reflexivity. Qed.
  Lemma leq_sym x y : leq x y -> leq y x. Proof. intros H w Hw. symmetry. apply H. exact Hw. Qed.
  Lemma leq_trans x y z : leq x y -> leq y z -> leq x z.
  Proof. intros H1 H2 w Hw. rewrite (H1 w Hw). apply H2. exact Hw. Qed.
  Lemma leq_step x y a : In a syms -> leq x y -> leq (estep x a) (estep y a).
  Proof. intros Ha H w Hw. apply (H (a :: w)). constructor; assumption. Qed.
  Lemma leq_final x y : leq x y -> efinal x = efinal y.
  Proof. intro H. apply (H []). constructor. Qed.

  Lemma hk_loop_cases fuel st : hk_loop fuel st = Ok true \/ hk_loop fuel st = Ok false \/ hk_loop fuel st = Err Fuel.
  Proof.
    revert st. induction fuel as [|f IH]; intros [u [|[qa qb] rest]]; simpl; auto.
    destruct (xorb (efinal qa) (efinal qb)); auto.
  Qed.

  (* ---------- answer true: the classes form a bisimulation ---------- *)
  Definition good (u : uf) (p q : elem) : Prop :=
    efinal p = efinal q /\ forall a, In a syms -> fnd u (estep p a) = fnd u (estep q a).

  Definition invF (u : uf) (stack : list (elem * elem)) : Prop :=
    forall x y, fnd u x = fnd u y -> eqcl (fun p q => good u p q \/ In (p, q) stack) x y.

  Lemma closed_bisim u : invF u [] -> forall w, over syms w -> forall x y, fnd u x = fnd u y ->
    efinal (erun x w) = efinal (erun y w).
  Proof.
    intros Hinv w Hw. induction Hw as [|a w Ha Hw IH]; intros x y Hxy.
    - simpl. specialize (Hinv x y Hxy). clear Hxy.
      induction Hinv as [x y [[H _]|[]]|x|x y E IH|x y z E1 IH1 E2 IH2]; congruence.
    - simpl. apply IH. specialize (Hinv x y Hxy). clear Hxy.
      induction Hinv as [x y [[_ H]|[]]|x|x y E IH'|x y z E1 IH1 E2 IH2]; [apply H; exact Ha|congruence..].
  Qed.

  Section InnerF.
    Variables qa qb : elem.
    Variable u0 : uf.

    Definition innerF (D : nat -> Prop) (st : hk_state X Y) : Prop :=
      uf_ok (fst st) /\
      (forall x y, fnd u0 x = fnd u0 y -> fnd (fst st) x = fnd (fst st) y) /\
      (forall a, D a -> In a syms -> fnd (fst st) (estep qa a) = fnd (fst st) (estep qb a)) /\
      (forall x y, fnd (fst st) x = fnd (fst st) y ->
         eqcl (fun p q => good (fst st) p q \/ (p, q) = (qa, qb) \/ In (p, q) (snd st)) x y).

    Lemma innerF_step D st a : innerF D st -> innerF (fun c => D c \/ c = a) (hk_symbol qa qb st a).
    Proof.
      destruct st as [u st]. intros (Hok & Hmono & Hdone & Hcl). simpl fst in *. simpl snd in *.
      destruct (hk_symbol_spec qa qb u st a Hok) as [Hok' Hc]. cbv zeta in Hc.
      set (st' := hk_symbol qa qb (u, st) a) in *.
      destruct Hc as [(Hr & Hst & Hf)|(Hr & Hst & Hm)].
      - (* roots already equal: nothing changes *)
        split; [exact Hok'|]. split; [|split].
        + intros x y H. rewrite !Hf. apply Hmono. exact H.
        + intros c [Hc| ->] Hin; rewrite !Hf; [apply Hdone; assumption|exact Hr].
        + intros x y H. rewrite !Hf in H. rewrite Hst. eapply eqcl_mono; [|apply Hcl; exact H].
          intros p q [[G1 G2]|G]; [left|right; exact G]. split; [exact G1|].
          intros c Hc. rewrite !Hf. apply G2. exact Hc.
      - (* union and push *)
        set (r1 := fnd u (estep qa a)) in *. set (r2 := fnd u (estep qb a)) in *.
        assert (Hidem : forall x, fnd u (fnd u x) = fnd u x) by (intro x; apply fnd_idem; exact Hok).
        assert (Hi1 : fnd u r1 = r1) by apply Hidem. assert (Hi2 : fnd u r2 = r2) by apply Hidem.
        pose proof (merged_mono _ _ _ _ Hm) as Mono.
        pose proof (merged_ab _ _ _ _ Hi1 Hi2 Hr Hm) as Mab.
        assert (Hgood : forall p q, good u p q -> good (fst st') p q).
        { intros p q [G1 G2]. split; [exact G1|]. intros c Hc. apply Mono. apply G2. exact Hc. }
        assert (Hlift : forall x y, fnd u x = fnd u y ->
                  eqcl (fun p q => good (fst st') p q \/ (p, q) = (qa, qb) \/ In (p, q) (snd st')) x y).
        { intros x y H. eapply eqcl_mono; [|apply Hcl; exact H].
          intros p q [G|[G|G]]; [left; apply Hgood; exact G|right; left; exact G|].
          right. right. rewrite Hst. right. exact G. }
        assert (Hbase : eqcl (fun p q => good (fst st') p q \/ (p, q) = (qa, qb) \/ In (p, q) (snd st')) r1 r2).
        { apply ec_base. right. right. rewrite Hst. left. reflexivity. }
        split; [exact Hok'|]. split; [|split].
        + intros x y H. apply Mono. apply Hmono. exact H.
        + intros c [Hc| ->] Hin.
          * apply Mono. apply Hdone; assumption.
          * transitivity (fnd (fst st') r1); [apply Mono; symmetry; exact Hi1|].
            transitivity (fnd (fst st') r2); [exact Mab|apply Mono; exact Hi2].
        + intros x y H. destruct (merged_inv _ _ _ _ Hm x y H) as [E|[[E1 E2]|[E1 E2]]].
          * apply Hlift. exact E.
          * eapply ec_trans; [apply Hlift; rewrite Hi1; exact E1|].
            eapply ec_trans; [exact Hbase|]. apply Hlift. rewrite Hi2. symmetry. exact E2.
          * eapply ec_trans; [apply Hlift; rewrite Hi2; exact E1|].
            eapply ec_trans; [apply ec_sym; exact Hbase|]. apply Hlift. rewrite Hi1. symmetry. exact E2.
    Qed.

    Lemma innerF_weaken (D D' : nat -> Prop) st : (forall a, D' a -> D a) -> innerF D st -> innerF D' st.
    Proof.
      intros H (H1 & H2 & H3 & H4). repeat split; try assumption. intros a Ha. apply H3. apply H. exact Ha.
    Qed.

    Lemma innerF_fold todo : forall D st, innerF D st ->
      innerF (fun c => D c \/ In c todo) (fold_left (hk_symbol qa qb) todo st).
    Proof.
      induction todo as [|a todo IH]; intros D st H; simpl.
      - eapply innerF_weaken; [|exact H]. intros a [Ha|[]]. exact Ha.
      - eapply innerF_weaken; [|apply IH; apply innerF_step; exact H].
        simpl. intros c [Hc|[Hc|Hc]]; [left; left; exact Hc|left; right; symmetry; exact Hc|right; exact Hc].
    Qed.
  End InnerF.

  Lemma loop_true fuel : forall u stack, uf_ok u -> invF u stack -> hk_loop fuel (u, stack) = Ok true ->
    forall x y, fnd u x = fnd u y -> leq x y.
  Proof.
    induction fuel as [|f IH]; intros u [|[qa qb] rest] Hok Hinv; simpl.
    - intros _ x y H w Hw. apply (closed_bisim u Hinv w Hw x y H).
    - discriminate.
    - intros _ x y H w Hw. apply (closed_bisim u Hinv w Hw x y H).
    - destruct (xorb (efinal qa) (efinal qb)) eqn:Ex; [discriminate|]. intros Hloop x y Hxy.
      assert (Hin : innerF qa qb u (fun _ => False) (u, rest)).
      { split; [exact Hok|]. split; [tauto|]. split; [tauto|]. simpl. intros x' y' H'.
        eapply eqcl_mono; [|apply Hinv; exact H']. intros p q [G|[G|G]]; auto. }
      apply (innerF_fold qa qb u syms) in Hin.
      destruct (fold_left (hk_symbol qa qb) syms (u, rest)) as [u' st'] eqn:Ef.
      destruct Hin as (Hok' & Hmono & Hdone & Hcl). simpl fst in *. simpl snd in *.
      apply (IH u' st' Hok'); [|exact Hloop|apply Hmono; exact Hxy].
      intros x' y' H'. eapply eqcl_mono; [|apply Hcl; exact H'].
      intros p q [G|[G|G]]; [left; exact G| |right; exact G].
      inversion G; subst p q. left. split.
      + destruct (efinal qa), (efinal qb); simpl in Ex; congruence.
      + intros a Ha. apply Hdone; [right; exact Ha|exact Ha].
  Qed.

  (* ---------- equivalent initial states: the answer is never false ---------- *)
  Definition invB (u : uf) (stack : list (elem * elem)) : Prop :=
    (forall x y, fnd u x = fnd u y -> leq x y) /\ (forall p q, In (p, q) stack -> leq p q).

  Lemma invB_step qa qb st a : leq qa qb -> In a syms -> uf_ok (fst st) -> invB (fst st) (snd st) ->
    uf_ok (fst (hk_symbol qa qb st a)) /\ invB (fst (hk_symbol qa qb st a)) (snd (hk_symbol qa qb st a)).
  Proof.
    destruct st as [u st]. simpl fst. simpl snd. intros Hq Ha Hok [Hc Hs].
    destruct (hk_symbol_spec qa qb u st a Hok) as [Hok' Hcase]. cbv zeta in Hcase.
    split; [exact Hok'|].
    destruct Hcase as [(Hr & Hst & Hf)|(Hr & Hst & Hm)].
    - split.
      + intros x y H. rewrite !Hf in H. apply Hc. exact H.
      + rewrite Hst. exact Hs.
    - set (r1 := fnd u (estep qa a)) in *. set (r2 := fnd u (estep qb a)) in *.
      assert (Hidem : forall x, fnd u (fnd u x) = fnd u x) by (intro x; apply fnd_idem; exact Hok).
      assert (Hi1 : fnd u r1 = r1) by apply Hidem. assert (Hi2 : fnd u r2 = r2) by apply Hidem.
      assert (L1 : leq r1 (estep qa a)) by (apply Hc; apply Hidem).
      assert (L2 : leq r2 (estep qb a)) by (apply Hc; apply Hidem).
      assert (L12 : leq r1 r2).
      { eapply leq_trans; [exact L1|]. eapply leq_trans; [apply leq_step; [exact Ha|exact Hq]|apply leq_sym; exact L2]. }
      split.
      + intros x y H. destruct (merged_inv _ _ _ _ Hm x y H) as [E|[[E1 E2]|[E1 E2]]].
        * apply Hc. exact E.
        * eapply leq_trans; [apply (Hc x r1); rewrite Hi1; exact E1|].
          eapply leq_trans; [exact L12|]. apply Hc. rewrite Hi2. symmetry. exact E2.
        * eapply leq_trans; [apply (Hc x r2); rewrite Hi2; exact E1|].
          eapply leq_trans; [apply leq_sym; exact L12|]. apply Hc. rewrite Hi1. symmetry. exact E2.
      + rewrite Hst. intros p q [G|G]; [inversion G; subst; exact L12|apply Hs; exact G].
  Qed.

  Lemma invB_fold qa qb todo : leq qa qb -> incl todo syms -> forall st, uf_ok (fst st) -> invB (fst st) (snd st) ->
    let st' := fold_left (hk_symbol qa qb) todo st in uf_ok (fst st') /\ invB (fst st') (snd st').
  Proof.
    intros Hq. induction todo as [|a todo IH]; intros Hi st Hok Hinv; simpl; [split; assumption|].
    destruct (invB_step qa qb st a Hq (Hi a (or_introl eq_refl)) Hok Hinv) as [Hok' Hinv'].
    apply IH; [intros c Hc; apply Hi; right; exact Hc|exact Hok'|exact Hinv'].
  Qed.

  Lemma loop_not_false fuel : forall u stack, uf_ok u -> invB u stack -> hk_loop fuel (u, stack) <> Ok false.
  Proof.
    induction fuel as [|f IH]; intros u [|[qa qb] rest] Hok Hinv; simpl; try discriminate.
    assert (Hq : leq qa qb) by (apply (proj2 Hinv); left; reflexivity).
    rewrite (leq_final _ _ Hq), xorb_nilpotent.
    assert (Hinv0 : invB (fst (u, rest)) (snd (u, rest))).
    { destruct Hinv as [H1 H2]. split; [exact H1|]. intros p q G. apply H2. right. exact G. }
    destruct (invB_fold qa qb syms Hq (incl_refl _) (u, rest) Hok Hinv0) as [Hok' Hinv'].
    destruct (fold_left (hk_symbol qa qb) syms (u, rest)) as [u' st'].
    apply IH; assumption.
  Qed.

  (* ---------- fuel: every push is paid for by a root that disappears ---------- *)
  Section Fuel.
    Variable U : list elem.
    Hypothesis U_closed : forall x a, In x U -> In (estep x a) U.

    Definition nroots (u : uf) : nat := length (filter (fun x => eqbE (fnd u x) x) U).
    Definition invU (u : uf) (stack : list (elem * elem)) : Prop :=
      (forall x, In x U -> In (fnd u x) U) /\ (forall p q, In (p, q) stack -> In p U /\ In q U).

    Lemma merged_nroots u u' r1 r2 : uf_ok u -> In r1 U -> In r2 U -> fnd u r1 = r1 -> fnd u r2 = r2 -> r1 <> r2 ->
      merged (fnd u) (fnd u') r1 r2 -> nroots u' < nroots u.
    Proof.
      intros Hok H1 H2 Hi1 Hi2 Hne Hm.
      destruct (merged_roots _ _ _ _ Hi1 Hi2 Hne Hm) as [other [Ho Hr]].
      unfold nroots. apply (filter_length_lt _ _ U other).
      - intros x Hx. apply eqbE_ok in Hx. apply Hr in Hx. apply eqbE_ok. tauto.
      - destruct Ho as [->| ->]; assumption.
      - apply eqbE_ok. destruct Ho as [->| ->]; assumption.
      - apply (eqb_ok_false _ eqbE_ok). intro H. apply Hr in H. tauto.
    Qed.

    Lemma invU_step qa qb st a : In qa U -> In qb U -> uf_ok (fst st) -> invU (fst st) (snd st) ->
      let st' := hk_symbol qa qb st a in
      uf_ok (fst st') /\ invU (fst st') (snd st') /\
      length (snd st') + nroots (fst st') <= length (snd st) + nroots (fst st).
    Proof.
      destruct st as [u st]. simpl fst. simpl snd. intros Hqa Hqb Hok [Hc Hs].
      destruct (hk_symbol_spec qa qb u st a Hok) as [Hok' Hcase]. cbv zeta in Hcase. cbv zeta.
      split; [exact Hok'|].
      destruct Hcase as [(Hr & Hst & Hf)|(Hr & Hst & Hm)].
      - split; [split|].
        + intros x Hx. rewrite Hf. apply Hc. exact Hx.
        + rewrite Hst. exact Hs.
        + rewrite Hst. unfold nroots. rewrite (filter_ext _ (fun x => eqbE (fnd u x) x)); [lia|].
          intro x. rewrite Hf. reflexivity.
      - set (r1 := fnd u (estep qa a)) in *. set (r2 := fnd u (estep qb a)) in *.
        assert (Hidem : forall x, fnd u (fnd u x) = fnd u x) by (intro x; apply fnd_idem; exact Hok).
        assert (U1 : In r1 U) by (apply Hc, U_closed; exact Hqa).
        assert (U2 : In r2 U) by (apply Hc, U_closed; exact Hqb).
        split; [split|].
        + intros x Hx. destruct (merged_range _ _ _ _ Hm x) as [E|[E|E]]; rewrite E; [apply Hc; exact Hx|exact U1|exact U2].
        + rewrite Hst. intros p q [G|G]; [inversion G; subst; split; assumption|apply Hs; exact G].
        + rewrite Hst. simpl.
          pose proof (merged_nroots u _ r1 r2 Hok U1 U2 (Hidem _) (Hidem _) Hr Hm). lia.
    Qed.

    Lemma invU_fold qa qb todo : In qa U -> In qb U -> forall st, uf_ok (fst st) -> invU (fst st) (snd st) ->
      let st' := fold_left (hk_symbol qa qb) todo st in
      uf_ok (fst st') /\ invU (fst st') (snd st') /\
      length (snd st') + nroots (fst st') <= length (snd st) + nroots (fst st).
    Proof.
      intros Hqa Hqb. induction todo as [|a todo IH]; intros st Hok Hinv; simpl.
      - split; [exact Hok|]. split; [exact Hinv|]. lia.
      - destruct (invU_step qa qb st a Hqa Hqb Hok Hinv) as (Hok' & Hinv' & Hle).
        destruct (IH _ Hok' Hinv') as (Hok'' & Hinv'' & Hle'). split; [exact Hok''|]. split; [exact Hinv''|]. lia.
    Qed.

    Lemma loop_fuel fuel : forall u stack, uf_ok u -> invU u stack -> length stack + nroots u <= fuel ->
      hk_loop fuel (u, stack) <> Err Fuel.
    Proof.
      induction fuel as [|f IH]; intros u [|[qa qb] rest] Hok Hinv Hle; simpl; try discriminate.
      - simpl in Hle. lia.
      - destruct (xorb (efinal qa) (efinal qb)); [discriminate|].
        destruct (proj2 Hinv qa qb (or_introl eq_refl)) as [Hqa Hqb].
        assert (Hinv0 : invU (fst (u, rest)) (snd (u, rest))).
        { destruct Hinv as [H1 H2]. split; [exact H1|]. intros p q G. apply H2. right. exact G. }
        destruct (invU_fold qa qb syms Hqa Hqb (u, rest) Hok Hinv0) as (Hok' & Hinv' & Hle').
        destruct (fold_left (hk_symbol qa qb) syms (u, rest)) as [u' st'].
        simpl fst in *. simpl snd in *. apply IH; [assumption|assumption|]. simpl in Hle. lia.
    Qed.
  End Fuel.

  (* ---------- the parent forest of networkx returns the same roots as the flat structure ---------- *)
  Notation fuf_find := (fuf_find X Y eqbX eqbY).
  Notation fuf_union := (fuf_union X Y eqbX eqbY tie).
  Notation f_walk := (f_walk X Y eqbX eqbY).
  Notation par := (uf_parents X Y).
  Notation wts := (uf_weights X Y).
  Notation hkf_symbol := (HK.hk_symbol X Y eqbX eqbY stepX stepY fuf_find fuf_union).
  Notation hkf_loop := (HK.hk_loop X Y eqbX eqbY stepX stepY finX finY fuf_find fuf_union syms).

  Lemma flat_merge_spec u root other w' : uf_ok u ->
    elookup root (par u) = Some root -> elookup other (par u) = Some other -> root <> other ->
    let u' := mkuf X Y (map (fun kv => (fst kv, if eqbE (snd kv) other then root else snd kv)) (par u)) w' in
    uf_ok u' /\ forall x, fnd u' x = if eqbE (fnd u x) other then root else fnd u x.
  Proof.
    intros Hok Hkr Hko Hne u'. split.
    - intros x r. unfold u'. simpl. rewrite !(elookup_map (fun v => if eqbE v other then root else v)).
      destruct (elookup x (par u)) as [r0|] eqn:Ex; [|discriminate].
      intro H. inversion H; subst r. clear H. pose proof (Hok _ _ Ex) as Hr0.
      destruct (eqbE r0 other) eqn:E0.
      + rewrite Hkr. rewrite (eqbE_neq _ _ Hne). reflexivity.
      + rewrite Hr0. rewrite E0. reflexivity.
    - intro x. unfold fnd at 1. unfold u'. simpl. rewrite (elookup_map (fun v => if eqbE v other then root else v)).
      unfold fnd. destruct (elookup x (par u)) as [r0|] eqn:Ex; [reflexivity|].
      destruct (eqbE x other) eqn:E0; [|reflexivity].
      apply eqbE_ok in E0. subst x. congruence.
  Qed.

  (* h: a height that strictly grows along parent pointers and is bounded by the number of entries *)
  Definition wf_forest (p : list (elem * elem)) (h : elem -> nat) : Prop :=
    (forall x y, elookup x p = Some y -> y <> x -> h x < h y) /\
    (forall x y, elookup x p = Some y -> elookup y p <> None) /\
    (forall x, h x <= length p).

  Definition sim (uF u : uf) : Prop :=
    uf_ok u /\
    (exists h, wf_forest (par uF) h) /\
    (forall x, elookup x (par uF) = None <-> elookup x (par u) = None) /\
    (forall x y, elookup x (par uF) = Some y -> fnd u y = fnd u x) /\
    (forall x, elookup x (par uF) = Some x -> fnd u x = x) /\
    wts uF = wts u.

  (* the walk reaches a root of the forest before its fuel ends; everything on the path is a keyed
     non-root of the same flat class, strictly lower than the root *)
  Lemma walk_spec p h u : wf_forest p h ->
    (forall x y, elookup x p = Some y -> fnd u y = fnd u x) ->
    forall n x path, length p - h x < n -> elookup x p <> None ->
    exists r anc, f_walk n p x path = (r, anc ++ path) /\ elookup r p = Some r /\ fnd u r = fnd u x /\
      h x <= h r /\
      forall z, In z anc -> elookup z p <> None /\ elookup z p <> Some z /\ fnd u z = fnd u x /\ h z < h r.
  Proof.
    intros (W1 & W2 & W3) Hp. induction n as [|n IH]; intros x path Hn Hk; [lia|].
    simpl. destruct (elookup x p) as [y|] eqn:E; [|contradiction].
    destruct (eqbE y x) eqn:Eq.
    - apply eqbE_ok in Eq. subst y. exists x, []. split; [reflexivity|]. split; [exact E|]. split; [reflexivity|].
      split; [lia|]. intros z [].
    - apply (eqb_ok_false _ eqbE_ok) in Eq. pose proof (W1 _ _ E Eq) as Hlt. pose proof (W3 y) as Hy.
      destruct (IH y (x :: path)) as [r [anc (Hw & Hr & Hf & Hh & Ha)]]; [lia|apply (W2 _ _ E)|].
      exists r, (anc ++ [x]). rewrite <- app_assoc. simpl. split; [exact Hw|]. split; [exact Hr|].
      split; [rewrite Hf; apply Hp; exact E|]. split; [lia|].
      intros z Hz. apply in_app_or in Hz. destruct Hz as [Hz|[<-|[]]].
      + destruct (Ha z Hz) as (A1 & A2 & A3 & A4). repeat split; try assumption. rewrite A3. apply Hp. exact E.
      + repeat split; [congruence|intro H; rewrite E in H; inversion H; congruence|lia].
  Qed.

  Lemma elookup_compress anc (r : elem) p z :
    elookup z (map (fun a : elem => (a, r)) anc ++ p) = if existsb (eqbE z) anc then Some r else elookup z p.
  Proof.
    induction anc as [|a anc IH]; simpl; [reflexivity|]. destruct (eqbE z a); simpl; [reflexivity|exact IH].
  Qed.

  Lemma existsb_eqbE z (l : list elem) : existsb (eqbE z) l = true <-> In z l.
  Proof.
    rewrite existsb_exists. split.
    - intros [y [Hy E]]. apply eqbE_ok in E. subst. exact Hy.
    - intro H. exists z. split; [exact H|apply eqbE_refl].
  Qed.

  Lemma sim_find uF u x : sim uF u ->
    fst (fuf_find uF x) = fst (uf_find u x) /\
    sim (snd (fuf_find uF x)) (snd (uf_find u x)) /\
    elookup (fst (fuf_find uF x)) (par (snd (fuf_find uF x))) = Some (fst (fuf_find uF x)) /\
    (forall z, elookup z (par uF) = Some z -> elookup z (par (snd (fuf_find uF x))) = Some z).
  Proof.
    intros (Hok & [h Hwf] & Hk & Hp & Hr & Hw).
    pose proof (find_ok u x Hok) as Fok. pose proof (find_fnd u x) as Ffnd. pose proof (find_fst u x) as Ffst.
    unfold HK.fuf_find. destruct (elookup x (par uF)) as [y0|] eqn:E.
    - (* known object: walk and compress *)
      assert (Ek : elookup x (par u) <> None) by (rewrite <- Hk; congruence).
      assert (Hu : uf_find u x = (fnd u x, u)).
      { unfold HK.uf_find, fnd. destruct (elookup x (par u)); [reflexivity|contradiction]. }
      destruct (walk_spec (par uF) h u Hwf Hp (S (length (par uF))) x []) as [r [anc (Hwk & Hrr & Hf & _ & Ha)]];
        [lia|congruence|].
      rewrite app_nil_r in Hwk. rewrite Hwk. rewrite Hu in *. simpl fst in *. simpl snd in *.
      assert (Hroot : r = fnd u x) by (rewrite <- Hf; symmetry; apply Hr; exact Hrr).
      destruct Hwf as (W1 & W2 & W3). unfold sim. cbn [uf_parents uf_weights].
      split; [exact Hroot|]. split; [|split].
      + split; [exact Hok|]. split; [|split; [|split; [|split]]].
        * exists h. split; [|split].
          -- intros z y. rewrite elookup_compress. destruct (existsb (eqbE z) anc) eqn:Ez.
             ++ apply existsb_eqbE in Ez. intros H _. inversion H; subst y. apply (Ha z Ez).
             ++ apply W1.
          -- intros z y. rewrite !elookup_compress. intro H. destruct (existsb (eqbE y) anc); [discriminate|].
             destruct (existsb (eqbE z) anc); [inversion H; subst y; congruence|apply (W2 _ _ H)].
          -- intro z. simpl. rewrite app_length. pose proof (W3 z). lia.
        * intro z. simpl. rewrite elookup_compress. destruct (existsb (eqbE z) anc) eqn:Ez; [|apply Hk].
          apply existsb_eqbE in Ez. destruct (Ha z Ez) as (A1 & _). split; [discriminate|].
          intro H. apply Hk in H. contradiction.
        * intros z y. simpl. rewrite elookup_compress. destruct (existsb (eqbE z) anc) eqn:Ez; [|apply Hp].
          apply existsb_eqbE in Ez. destruct (Ha z Ez) as (_ & _ & A3 & _). intro H. inversion H; subst y.
          rewrite A3. exact Hf.
        * intros z. simpl. rewrite elookup_compress. destruct (existsb (eqbE z) anc) eqn:Ez; [|apply Hr].
          apply existsb_eqbE in Ez. destruct (Ha z Ez) as (_ & _ & _ & A4). intro H. inversion H; subst z. lia.
        * simpl. exact Hw.
      + simpl. rewrite elookup_compress. destruct (existsb (eqbE r) anc); [reflexivity|exact Hrr].
      + intros z Hz. simpl. rewrite elookup_compress. destruct (existsb (eqbE z) anc) eqn:Ez; [|exact Hz].
        apply existsb_eqbE in Ez. destruct (Ha z Ez) as (_ & A2 & _). contradiction.
    - (* unknown object: a new singleton on both sides *)
      assert (Ek : elookup x (par u) = None) by (apply Hk; exact E).
      assert (Hu : uf_find u x = (x, mkuf X Y ((x, x) :: par u) ((x, 1) :: wts u))).
      { unfold HK.uf_find. rewrite Ek. reflexivity. }
      rewrite Hu in *. simpl fst in *. simpl snd in *.
      destruct Hwf as (W1 & W2 & W3). unfold sim. cbn [uf_parents uf_weights].
      split; [reflexivity|]. split; [|split].
      + split; [exact Fok|]. split; [|split; [|split; [|split]]].
        * exists h. split; [|split].
          -- intros z y. simpl. destruct (eqbE z x) eqn:Ez.
             ++ apply eqbE_ok in Ez. subst z. intros H Hne. inversion H; subst y. congruence.
             ++ apply W1.
          -- intros z y. simpl. intro H. destruct (eqbE z x) eqn:Ez.
             ++ inversion H; subst y. rewrite eqbE_refl. discriminate.
             ++ destruct (eqbE y x); [discriminate|apply (W2 _ _ H)].
          -- intro z. simpl. pose proof (W3 z). lia.
        * intro z. simpl. destruct (eqbE z x); [split; discriminate|apply Hk].
        * intros z y. simpl. rewrite !Ffnd. destruct (eqbE z x) eqn:Ez; [|apply Hp].
          apply eqbE_ok in Ez. subst z. intro H. inversion H. reflexivity.
        * intros z. simpl. rewrite Ffnd. destruct (eqbE z x) eqn:Ez; [|apply Hr].
          apply eqbE_ok in Ez. subst z. intros _. unfold fnd. rewrite Ek. reflexivity.
        * simpl. rewrite Hw. reflexivity.
      + simpl. rewrite eqbE_refl. reflexivity.
      + intros z Hz. simpl. destruct (eqbE z x) eqn:Ez; [|exact Hz]. apply eqbE_ok in Ez. subst z. reflexivity.
  Qed.

  Lemma sim_union uF u a b : sim uF u -> sim (fuf_union uF a b) (uf_union u a b).
  Proof.
    intro Hs. unfold HK.fuf_union, HK.uf_union.
    destruct (sim_find uF u a Hs) as (R1 & S1 & K1 & _).
    destruct (fuf_find uF a) as [raF u1F]. destruct (uf_find u a) as [ra u1] eqn:E1.
    simpl fst in *. simpl snd in *. subst raF.
    destruct (sim_find u1F u1 b S1) as (R2 & S2 & K2 & P2).
    destruct (fuf_find u1F b) as [rbF u2F]. destruct (uf_find u1 b) as [rb u2] eqn:E2.
    simpl fst in *. simpl snd in *. subst rbF.
    specialize (P2 ra K1). clear K1.
    destruct (eqbE ra rb) eqn:Eab; [exact S2|].
    assert (Hne : ra <> rb) by (apply (eqb_ok_false _ eqbE_ok); exact Eab).
    destruct S2 as (Hok & [h (W1 & W2 & W3)] & Hk & Hp & Hr & Hw).
    assert (Fa : fnd u2 ra = ra) by (apply Hr; exact P2).
    assert (Fb : fnd u2 rb = rb) by (apply Hr; exact K2).
    assert (Hka : elookup ra (par u2) = Some ra).
    { destruct (elookup ra (par u2)) as [r0|] eqn:E; [|apply Hk in E; congruence].
      unfold fnd in Fa. rewrite E in Fa. congruence. }
    assert (Hkb : elookup rb (par u2) = Some rb).
    { destruct (elookup rb (par u2)) as [r0|] eqn:E; [|apply Hk in E; congruence].
      unfold fnd in Fb. rewrite E in Fb. congruence. }
    unfold uf_weight. rewrite Hw.
    set (wa := match elookup ra (wts u2) with Some w => w | None => 0 end).
    set (wb := match elookup rb (wts u2) with Some w => w | None => 0 end).
    set (first := if Nat.ltb wb wa then true else if Nat.ltb wa wb then false else tie ra rb).
    set (root := if first then ra else rb). set (other := if first then rb else ra).
    assert (Hro : (root = ra /\ other = rb) \/ (root = rb /\ other = ra)).
    { unfold root, other. destruct first; [left|right]; split; reflexivity. }
    assert (Hne' : root <> other) by (destruct Hro as [[-> ->]|[-> ->]]; congruence).
    assert (Hkr : elookup root (par u2) = Some root) by (destruct Hro as [[-> _]|[-> _]]; assumption).
    assert (Hko : elookup other (par u2) = Some other) by (destruct Hro as [[_ ->]|[_ ->]]; assumption).
    assert (FRr : elookup root (par u2F) = Some root) by (destruct Hro as [[-> _]|[-> _]]; assumption).
    assert (Fr : fnd u2 root = root) by (destruct Hro as [[-> _]|[-> _]]; assumption).
    assert (Fo : fnd u2 other = other) by (destruct Hro as [[_ ->]|[_ ->]]; assumption).
    destruct (flat_merge_spec u2 root other ((root, wa + wb) :: wts u2) Hok Hkr Hko Hne') as [Hok' Hf'].
    cbv zeta in Hok', Hf'.
    split; [exact Hok'|]. split; [|split; [|split; [|split]]].
    - exists (fun z => if eqbE z root then Nat.max (h root) (S (h other)) else h z). split; [|split].
      + intros z y. simpl. destruct (eqbE z other) eqn:Ez.
        * apply eqbE_ok in Ez. subst z. intros H _. inversion H; subst y.
          rewrite (eqbE_neq other root), eqbE_refl; [lia|congruence].
        * intros H Hyz. destruct (eqbE z root) eqn:Ezr.
          -- apply eqbE_ok in Ezr. subst z. congruence.
          -- pose proof (W1 _ _ H Hyz). destruct (eqbE y root) eqn:Eyr; [apply eqbE_ok in Eyr; subst y|]; lia.
      + intros z y. simpl. intro H. destruct (eqbE y other) eqn:Ey; [discriminate|].
        destruct (eqbE z other) eqn:Ez; [inversion H; subst y; congruence|apply (W2 _ _ H)].
      + intro z. simpl. pose proof (W3 z). pose proof (W3 root). pose proof (W3 other). destruct (eqbE z root); lia.
    - intro z. simpl. rewrite (elookup_map (fun v => if eqbE v other then root else v)).
      destruct (eqbE z other) eqn:Ez.
      + apply eqbE_ok in Ez. subst z. rewrite Hko. split; discriminate.
      + rewrite (Hk z). destruct (elookup z (par u2)); split; congruence.
    - intros z y. simpl. rewrite !Hf'. destruct (eqbE z other) eqn:Ez.
      + apply eqbE_ok in Ez. subst z. intro H. inversion H; subst y. rewrite Fr, Fo, eqbE_refl, (eqbE_neq _ _ Hne'). reflexivity.
      + intro H. rewrite (Hp _ _ H). reflexivity.
    - intros z. simpl. rewrite Hf'. destruct (eqbE z other) eqn:Ez.
      + apply eqbE_ok in Ez. subst z. intro H. inversion H. congruence.
      + intro H. rewrite (Hr _ H). rewrite Ez. reflexivity.
    - simpl. reflexivity.
  Qed.

  Lemma sim_symbol qa qb stF st a : sim (fst stF) (fst st) -> snd stF = snd st ->
    sim (fst (hkf_symbol qa qb stF a)) (fst (hk_symbol qa qb st a)) /\
    snd (hkf_symbol qa qb stF a) = snd (hk_symbol qa qb st a).
  Proof.
    destruct stF as [uF sF], st as [u s]. simpl fst. simpl snd. intros Hs ->. unfold HK.hk_symbol. simpl fst. simpl snd.
    destruct (sim_find uF u (estep qa a) Hs) as (R1 & S1 & _).
    destruct (fuf_find uF (estep qa a)) as [r1F u1F]. destruct (uf_find u (estep qa a)) as [r1 u1].
    simpl fst in *. simpl snd in *. subst r1F.
    destruct (sim_find u1F u1 (estep qb a) S1) as (R2 & S2 & _).
    destruct (fuf_find u1F (estep qb a)) as [r2F u2F]. destruct (uf_find u1 (estep qb a)) as [r2 u2].
    simpl fst in *. simpl snd in *. subst r2F.
    destruct (eqbE r1 r2); simpl; [split; [exact S2|reflexivity]|].
    split; [apply sim_union; exact S2|reflexivity].
  Qed.

  Lemma sim_fold qa qb todo : forall stF st, sim (fst stF) (fst st) -> snd stF = snd st ->
    sim (fst (fold_left (hkf_symbol qa qb) todo stF)) (fst (fold_left (hk_symbol qa qb) todo st)) /\
    snd (fold_left (hkf_symbol qa qb) todo stF) = snd (fold_left (hk_symbol qa qb) todo st).
  Proof.
    induction todo as [|a todo IH]; intros stF st H1 H2; simpl; [split; assumption|].
    destruct (sim_symbol qa qb stF st a H1 H2) as [H1' H2']. apply IH; assumption.
  Qed.

  Lemma sim_loop fuel : forall uF u stack, sim uF u -> hkf_loop fuel (uF, stack) = hk_loop fuel (u, stack).
  Proof.
    induction fuel as [|f IH]; intros uF u [|[qa qb] rest] Hs; simpl; try reflexivity.
    destruct (xorb (efinal qa) (efinal qb)); [reflexivity|].
    destruct (sim_fold qa qb syms (uF, rest) (u, rest) Hs eq_refl) as [H1 H2].
    destruct (fold_left (hkf_symbol qa qb) syms (uF, rest)) as [uF' sF'].
    destruct (fold_left (hk_symbol qa qb) syms (u, rest)) as [u' s']. simpl in H1, H2. subst sF'.
    apply IH. exact H1.
  Qed.

  (* ---------- the whole run ---------- *)
  Variable x0 : X.
  Variable y0 : Y.
  Notation ea := (inl x0 : elem).
  Notation eb := (inr y0 : elem).
  Notation unew := (uf_new X Y [ea; eb]).
  Notation hk_run := (hk_run_flat X Y eqbX eqbY stepX stepY finX finY tie syms).

  Lemma unew_fnd x : fnd unew x = x.
  Proof.
    unfold fnd. simpl. destruct x as [x|y]; simpl.
    - destruct (eqbX x x0) eqn:E; [apply eqbX_ok in E; subst; reflexivity|reflexivity].
    - destruct (eqbY y y0) eqn:E; [apply eqbY_ok in E; subst; reflexivity|reflexivity].
  Qed.

  Lemma unew_ok : uf_ok unew.
  Proof.
    intros x r H. assert (Hr : r = x).
    { pose proof (unew_fnd x) as F. unfold fnd in F. rewrite H in F. exact F. }
    subst r. exact H.
  Qed.

  Definition same_language : Prop :=
    forall w, over syms w -> finX (fold_left stepX w x0) = finY (fold_left stepY w y0).

  Lemma leq_ab : leq ea eb <-> same_language.
  Proof.
    split; intros H w Hw; specialize (H w Hw); rewrite erun_inl, erun_inr in *; exact H.
  Qed.

  Lemma start_facts :
    uf_ok (uf_union unew ea eb) /\ merged (fnd unew) (fnd (uf_union unew ea eb)) ea eb.
  Proof.
    destruct (union_spec unew ea eb unew_ok) as [Hok H]. split; [exact Hok|].
    rewrite !unew_fnd in H. destruct H as [[H _]|[_ H]]; [discriminate|exact H].
  Qed.

  Lemma ea_neq_eb : ea <> eb. Proof. discriminate. Qed.

  (* soundness and completeness of the answer, for every fuel *)
  Theorem hk_run_true fuel : hk_run fuel x0 y0 = Ok true -> same_language.
  Proof.
    unfold hk_run_flat, HK.hk_run. intro H. apply leq_ab. destruct start_facts as [Hok Hm].
    apply (loop_true fuel _ _ Hok) with (x := ea) (y := eb) in H; [exact H| |].
    - intros x y Hxy.
      destruct (merged_inv _ _ _ _ Hm x y Hxy) as [E|[[E1 E2]|[E1 E2]]]; rewrite !unew_fnd in *.
      + subst y. apply ec_refl.
      + subst x y. apply ec_base. right. left. reflexivity.
      + subst x y. apply ec_sym. apply ec_base. right. left. reflexivity.
    - apply (merged_ab _ _ _ _ (unew_fnd _) (unew_fnd _) ea_neq_eb Hm).
  Qed.

  Theorem hk_run_not_false fuel : same_language -> hk_run fuel x0 y0 <> Ok false.
  Proof.
    intro HL. apply leq_ab in HL. unfold hk_run_flat, HK.hk_run. destruct start_facts as [Hok Hm].
    apply loop_not_false; [exact Hok|]. split.
    - intros x y Hxy.
      destruct (merged_inv _ _ _ _ Hm x y Hxy) as [E|[[E1 E2]|[E1 E2]]]; rewrite !unew_fnd in *.
      + subst y. apply leq_refl.
      + subst x y. exact HL.
      + subst x y. apply leq_sym. exact HL.
    - intros p q [G|[]]. inversion G; subst. exact HL.
  Qed.

  Theorem hk_run_sound fuel b : hk_run fuel x0 y0 = Ok b -> (b = true <-> same_language).
  Proof.
    intro H. destruct b; split; intro H'; try reflexivity; try discriminate.
    - exact (hk_run_true fuel H).
    - exfalso. exact (hk_run_not_false fuel H' H).
  Qed.

  (* fuel sufficiency over a finite carrier closed under the transition functions *)
  Theorem hk_run_fuel (UX : list X) (UY : list Y) fuel :
    (forall x a, In x UX -> In (stepX x a) UX) -> (forall y a, In y UY -> In (stepY y a) UY) ->
    In x0 UX -> In y0 UY -> length UX + length UY <= fuel ->
    exists b, hk_run fuel x0 y0 = Ok b.
  Proof.
    intros HcX HcY HxU HyU Hf.
    set (U := map inl UX ++ map inr UY : list elem).
    assert (Uc : forall x a, In x U -> In (estep x a) U).
    { intros x a Hx. unfold U in *. apply in_app_or in Hx. apply in_or_app.
      destruct Hx as [Hx|Hx]; apply in_map_iff in Hx; destruct Hx as [z [<- Hz]]; simpl;
        [left; apply in_map, HcX, Hz|right; apply in_map, HcY, Hz]. }
    assert (Ua : In ea U) by (apply in_or_app; left; apply in_map; exact HxU).
    assert (Ub : In eb U) by (apply in_or_app; right; apply in_map; exact HyU).
    assert (HU : length U = length UX + length UY) by (unfold U; rewrite app_length, !map_length; reflexivity).
    destruct start_facts as [Hok Hm].
    assert (Hnf : hk_run fuel x0 y0 <> Err Fuel).
    { unfold hk_run_flat, HK.hk_run. apply (loop_fuel U Uc); [exact Hok| |].
      - split.
        + intros x Hx. destruct (merged_range _ _ _ _ Hm x) as [E|[E|E]]; rewrite E; [rewrite unew_fnd|..]; assumption.
        + intros p q [G|[]]. inversion G; subst. split; assumption.
      - pose proof (merged_nroots U unew _ ea eb unew_ok Ua Ub (unew_fnd _) (unew_fnd _) ea_neq_eb Hm) as Hlt.
        pose proof (filter_length_le (fun x => eqbE (fnd unew x) x) U) as Hle. unfold nroots in *. simpl. lia. }
    destruct (hk_loop_cases fuel (uf_union unew ea eb, [(ea, eb)])) as [H|[H|H]];
      [exists true; exact H|exists false; exact H|exfalso; apply Hnf; exact H].
  Qed.
  (* the networkx forest (walks, path compression, single re-pointing on union) and the flat structure
     give the same run: every lookup returns the same root, so the same pairs are pushed *)
  Lemma sim_new : sim unew unew.
  Proof.
    split; [exact unew_ok|]. split; [|split; [|split; [|split]]].
    - exists (fun _ => 0). split; [|split].
      + intros x y H Hne. exfalso. apply Hne. pose proof (unew_fnd x) as F. unfold fnd in F. rewrite H in F. exact F.
      + intros x y H. assert (y = x) by (pose proof (unew_fnd x) as F; unfold fnd in F; rewrite H in F; exact F).
        subst y. congruence.
      + intro x. lia.
    - tauto.
    - intros x y H. assert (y = x) by (pose proof (unew_fnd x) as F; unfold fnd in F; rewrite H in F; exact F).
      subst y. reflexivity.
    - intros x _. apply unew_fnd.
    - reflexivity.
  Qed.

  Theorem hkf_run_eq fuel :
    hk_run_forest X Y eqbX eqbY stepX stepY finX finY tie syms fuel x0 y0 = hk_run fuel x0 y0.
  Proof. unfold hk_run_forest, hk_run_flat, HK.hk_run. apply sim_loop. apply sim_union. exact sim_new. Qed.
End HKProofs.

(* ---------- the logging loop is the loop ---------- *)
Section HKLog.
  Variables X Y : Type.
  Variable eqbX : X -> X -> bool.
  Variable eqbY : Y -> Y -> bool.
  Variable stepX : X -> nat -> X.
  Variable stepY : Y -> nat -> Y.
  Variable finX : X -> bool.
  Variable finY : Y -> bool.
  Variable find : uf X Y -> elem X Y -> elem X Y * uf X Y.
  Variable union : uf X Y -> elem X Y -> elem X Y -> uf X Y.
  Variable syms : list nat.

  Notation sym := (hk_symbol X Y eqbX eqbY stepX stepY find union).
  Notation sym_log := (hk_symbol_log X Y eqbX eqbY stepX stepY find union).
  Notation loop := (hk_loop X Y eqbX eqbY stepX stepY finX finY find union syms).
  Notation loop_log := (hk_loop_log X Y eqbX eqbY stepX stepY finX finY find union syms).

  Lemma symbol_log_fst qa qb sl a : fst (sym_log qa qb sl a) = sym qa qb (fst sl) a.
  Proof.
    unfold hk_symbol_log, hk_symbol. destruct (find (fst (fst sl)) (estep X Y stepX stepY qa a)) as [r1 u1].
    destruct (find u1 (estep X Y stepX stepY qb a)) as [r2 u2]. destruct (eqbE X Y eqbX eqbY r1 r2); reflexivity.
  Qed.

  Lemma fold_log_fst qa qb todo : forall sl,
    fst (fold_left (sym_log qa qb) todo sl) = fold_left (sym qa qb) todo (fst sl).
  Proof.
    induction todo as [|a todo IH]; intro sl; simpl; [reflexivity|]. rewrite IH, symbol_log_fst. reflexivity.
  Qed.

  Lemma loop_log_fst fuel : forall sl, fst (loop_log fuel sl) = loop fuel (fst sl).
  Proof.
    induction fuel as [|f IH]; intros [[u [|[qa qb] rest]] log]; simpl; try reflexivity.
    destruct (xorb _ _); [reflexivity|]. rewrite IH, fold_log_fst. reflexivity.
  Qed.

  Theorem hk_run_log_fst fuel x0 y0 :
    fst (hk_run_log X Y eqbX eqbY stepX stepY finX finY find union syms fuel x0 y0) =
    hk_run X Y eqbX eqbY stepX stepY finX finY find union syms fuel x0 y0.
  Proof.
    unfold hk_run_log, hk_run.
    match goal with |- fst (let (r, log) := loop_log fuel ?sl in _) = _ => pose proof (loop_log_fst fuel sl) as H;
      destruct (loop_log fuel sl) as [r log] end.
    simpl in *. exact H.
  Qed.
End HKLog.

Theorem hk_eq_log_fst tie syms A B : fst (hk_eq_log tie syms A B) = hk_eq_gen tie syms A B.
Proof.
  unfold hk_eq_log, hk_eq_gen, guard_syms. destruct (same_syms A B); [|reflexivity].
  unfold hk_run_forest_log, hk_run_forest. apply hk_run_log_fst.
Qed.

Theorem nfa_hk_eq_log_fst tie syms A B : fst (nfa_hk_eq_log tie syms A B) = nfa_hk_eq_gen tie syms A B.
Proof.
  unfold nfa_hk_eq_log, nfa_hk_eq_gen. destruct (nsame_syms A B); [|reflexivity].
  unfold hk_run_forest_log, hk_run_forest. apply hk_run_log_fst.
Qed.

(* ---------- DFA.__eq__ ---------- *)
Lemma same_syms_iff A B : same_syms A B = true -> forall a, In a (d_syms A) <-> In a (d_syms B).
Proof.
  unfold same_syms. rewrite andb_true_iff, !subsetb_incl. intros [H1 H2] a. split; [apply H1|apply H2].
Qed.

Section DFAHK.
  Variables A B : dfa.
  Hypothesis HA : valid_dfa A = true.
  Hypothesis HB : valid_dfa B = true.
  Variable tie : option nat + option nat -> option nat + option nat -> bool.
  Variable syms : list nat.
  Hypothesis Hs : forall a, In a syms <-> In a (d_syms A).

  Theorem hk_eq_gen_spec : same_syms A B = true ->
    exists b, hk_eq_gen tie syms A B = Ok b /\ (b = true <-> L_dfa A =L L_dfa B).
  Proof.
    intro Hsy. unfold hk_eq_gen, guard_syms. rewrite Hsy.
    rewrite (hkf_run_eq _ _ _ _ (eqb_opt_ok _ eqb_nat_ok) (eqb_opt_ok _ eqb_nat_ok)).
    destruct (hk_run_fuel _ _ _ _ (eqb_opt_ok _ eqb_nat_ok) (eqb_opt_ok _ eqb_nat_ok)
                (ostep A) (ostep B) (ofinal A) (ofinal B) tie syms (Some (d_init A)) (Some (d_init B))
                (ostates A) (ostates B) (hk_fuel A B)) as [b Hb].
    - apply ostates_closed; exact HA.
    - apply ostates_closed; exact HB.
    - apply ostates_init; exact HA.
    - apply ostates_init; exact HB.
    - unfold hk_fuel, ostates. simpl. rewrite !map_length. lia.
    - exists b. split; [exact Hb|].
      rewrite (hk_run_sound _ _ _ _ (eqb_opt_ok _ eqb_nat_ok) (eqb_opt_ok _ eqb_nat_ok) _ _ _ _ _ _ _ _ _ _ Hb).
      unfold same_language. split.
      + intros H w. unfold L_dfa.
        destruct (over_or_foreign syms w) as [Ho|[u [a [v [-> Ha]]]]].
        * specialize (H w Ho). rewrite !fold_ostep in H. unfold dfa_acc, dfa_acc_from. rewrite H. tauto.
        * assert (HaA : ~ In a (d_syms A)) by (rewrite <- Hs; exact Ha).
          assert (HaB : ~ In a (d_syms B)) by (rewrite <- (same_syms_iff A B Hsy); exact HaA).
          rewrite (dfa_foreign_symbol_rejects A HA u a v HaA), (dfa_foreign_symbol_rejects B HB u a v HaB). tauto.
      + intros HL w _. rewrite !fold_ostep. apply bool_eq_iff. apply (HL w).
  Qed.

  (* the mirror model and the specification model are the same function of the operands *)
  Theorem hk_eq_gen_eq_m : hk_eq_gen tie syms A B = eq_m A B.
  Proof.
    destruct (same_syms A B) eqn:Hsy.
    - destruct (hk_eq_gen_spec Hsy) as [b [E H]]. destruct (eq_spec A B HA HB Hsy) as [b' [E' H']].
      rewrite E, E'. f_equal. apply bool_eq_iff. rewrite H, H'. tauto.
    - unfold hk_eq_gen, eq_m, guard_syms. rewrite Hsy. reflexivity.
  Qed.
End DFAHK.

Theorem hk_eq_eq_m A B : valid_dfa A = true -> valid_dfa B = true -> hk_eq A B = eq_m A B.
Proof. intros HA HB. apply hk_eq_gen_eq_m; [exact HA|exact HB|tauto]. Qed.

(* ---------- NFA.__eq__ ---------- *)
Lemma nsame_syms_iff A B : nsame_syms A B = true -> forall a, In a (n_syms A) <-> In a (n_syms B).
Proof.
  unfold nsame_syms. rewrite andb_true_iff, !subsetb_incl. intros [H1 H2] a. split; [apply H1|apply H2].
Qed.

Section NFAFinal.
  Variable m : nfa.
  Hypothesis Hv : valid_nfa m = true.

  Lemma subset_run_incl w : forall S, incl S (n_states m) -> incl (fold_left (nset_step m) w S) (n_states m).
  Proof.
    induction w as [|a w IH]; intros S HS; simpl; [exact HS|]. apply IH. apply nset_step_incl. exact Hv.
  Qed.

  (* is_final_state of NFA.__eq__ on the subset states the loop can meet *)
  Lemma nset_final_cl_run w :
    nset_final_cl m (fold_left (nset_step m) w (nset_init m)) = nfa_acc m w.
  Proof.
    unfold nfa_acc. set (S := fold_left (nset_step m) w (nset_init m)).
    assert (HS : incl S (n_states m)).
    { apply subset_run_incl. intros x Hx. eapply eclose_in_states; [exact Hv|apply init_in_states; exact Hv|exact Hx]. }
    destruct (subset_run_spec m Hv w) as [_ Hrun]. fold S in Hrun.
    apply bool_eq_iff. rewrite (nset_final_spec m). unfold nset_final_cl. rewrite existsb_exists. split.
    - intros [q [Hq H]]. apply existsb_exists in H. destruct H as [p [Hp Hf]]. apply memb_In in Hf.
      exists p. split; [|exact Hf]. apply Hrun.
      apply (eclose_spec m Hv q (HS q Hq)) in Hp.
      rewrite <- (app_nil_r w). eapply nfa_path_app; [apply Hrun; exact Hq|exact Hp].
    - intros [q [Hq Hf]]. exists q. split; [exact Hq|]. apply existsb_exists. exists q.
      split; [|apply memb_In; exact Hf]. apply (eclose_spec m Hv q (HS q Hq)). apply np_refl.
  Qed.
End NFAFinal.

Section NFAHK.
  Variables A B : nfa.
  Hypothesis HA : valid_nfa A = true.
  Hypothesis HB : valid_nfa B = true.
  Variable tie : list nat + list nat -> list nat + list nat -> bool.
  Variable syms : list nat.
  Hypothesis Hs : forall a, In a syms <-> In a (n_syms A).

  (* for every fuel: when the model returns, the boolean is language equality *)
  Theorem nfa_hk_sound b : nfa_hk_eq_gen tie syms A B = Ok b -> (b = true <-> L_nfa A =L L_nfa B).
  Proof.
    unfold nfa_hk_eq_gen. destruct (nsame_syms A B) eqn:Hsy; [|discriminate].
    rewrite (hkf_run_eq _ _ _ _ (eqb_list_ok _ eqb_nat_ok) (eqb_list_ok _ eqb_nat_ok)). intro Hb.
    rewrite (hk_run_sound _ _ _ _ (eqb_list_ok _ eqb_nat_ok) (eqb_list_ok _ eqb_nat_ok) _ _ _ _ _ _ _ _ _ _ Hb).
    unfold same_language. split.
    - intros H w. rewrite <- (nfa_acc_spec A HA), <- (nfa_acc_spec B HB).
      destruct (over_or_foreign syms w) as [Ho|[u [a [v [-> Ha]]]]].
      + specialize (H w Ho). rewrite (nset_final_cl_run A HA), (nset_final_cl_run B HB) in H. rewrite H. tauto.
      + assert (HaA : ~ In a (n_syms A)) by (rewrite <- Hs; exact Ha).
        assert (HaB : ~ In a (n_syms B)) by (rewrite <- (nsame_syms_iff A B Hsy); exact HaA).
        rewrite (nfa_acc_spec A HA), (nfa_acc_spec B HB). split; intro H'; exfalso.
        * apply (nfa_foreign_rejects A HA u a v HaA H').
        * apply (nfa_foreign_rejects B HB u a v HaB H').
    - intros HL w _. rewrite (nset_final_cl_run A HA), (nset_final_cl_run B HB). apply bool_eq_iff.
      rewrite (nfa_acc_spec A HA), (nfa_acc_spec B HB). apply HL.
  Qed.

  Theorem nfa_hk_total : nsame_syms A B = true -> length (n_states A) + length (n_states B) <= 14 ->
    exists b, nfa_hk_eq_gen tie syms A B = Ok b.
  Proof.
    intros Hsy Hsz. unfold nfa_hk_eq_gen. rewrite Hsy.
    rewrite (hkf_run_eq _ _ _ _ (eqb_list_ok _ eqb_nat_ok) (eqb_list_ok _ eqb_nat_ok)).
    apply (hk_run_fuel _ _ _ _ (eqb_list_ok _ eqb_nat_ok) (eqb_list_ok _ eqb_nat_ok) _ _ _ _ _ _ _ _
             (nuniverse A) (nuniverse B)).
    - apply nuniverse_closed; exact HA.
    - apply nuniverse_closed; exact HB.
    - apply nuniverse_init; exact HA.
    - apply nuniverse_init; exact HB.
    - unfold nfa_hk_fuel. apply Nat.leb_le in Hsz. rewrite Hsz.
      pose proof (nuniverse_length A). pose proof (nuniverse_length B). lia.
  Qed.

  (* whenever both models return they return the same boolean ... *)
  Theorem nfa_hk_agrees b b' : nfa_hk_eq_gen tie syms A B = Ok b -> nfa_eq_m A B = Ok b' -> b = b'.
  Proof.
    intros E E'. apply bool_eq_iff. rewrite (nfa_hk_sound b E), (nfa_eq_sound A B HA HB b' E'). tauto.
  Qed.

  (* ... and within the size bound under which nfa_eq_m is known to return they are equal outright *)
  Theorem nfa_hk_eq_gen_nfa_eq_m : length (n_states A) + length (n_states B) <= 14 ->
    nfa_hk_eq_gen tie syms A B = nfa_eq_m A B.
  Proof.
    intro Hsz. destruct (nsame_syms A B) eqn:Hsy.
    - destruct (nfa_hk_total Hsy Hsz) as [b E]. destruct (nfa_eq_total A B HA HB Hsy Hsz) as [b' E'].
      rewrite E, E'. f_equal. exact (nfa_hk_agrees b b' E E').
    - unfold nfa_hk_eq_gen, nfa_eq_m. rewrite Hsy. reflexivity.
  Qed.
End NFAHK.

Theorem nfa_hk_eq_nfa_eq_m A B : valid_nfa A = true -> valid_nfa B = true ->
  length (n_states A) + length (n_states B) <= 14 -> nfa_hk_eq A B = nfa_eq_m A B.
Proof. intros HA HB Hsz. apply nfa_hk_eq_gen_nfa_eq_m; [exact HA|exact HB|tauto|exact Hsz]. Qed.
