(* Lemmas for C01: the executable readers agree with the textbook semantics. *)
From Coq Require Import List Arith Bool Lia.
From AV Require Import Base.Util Base.Closure Spec.Lang Spec.FA Model.FARun.
Import ListNotations.

(* ---------- DFA ---------- *)
Section DFA.
  Variable m : dfa.
  Hypothesis Hv : valid_dfa m = true.

  Lemma valid_dfa_parts :
    NoDup (d_states m) /\ NoDup (d_syms m) /\ NoDup (map fst (d_trans m)) /\
    (forall q, In q (d_states m) -> In q (map fst (d_trans m))) /\
    (forall q row, In (q, row) (d_trans m) -> row_ok m row = true) /\
    In (d_init m) (d_states m) /\ incl (d_finals m) (d_states m).
  Proof.
    unfold valid_dfa in Hv. repeat rewrite andb_true_iff in Hv.
    destruct Hv as [[[[[[H1 H2] H3] H4] H5] H6] H7].
    repeat split.
    - apply nodupb_NoDup; exact H1.
    - apply nodupb_NoDup; exact H2.
    - apply nodupb_NoDup; exact H3.
    - intros q Hq. rewrite forallb_forall in H4. apply memb_In. apply H4. exact Hq.
    - intros q row Hin. rewrite forallb_forall in H5. apply (H5 (q, row)). exact Hin.
    - apply memb_In; exact H6.
    - apply subsetb_incl; exact H7.
  Qed.

  Lemma state_has_row q : In q (d_states m) -> exists row, d_row m q = Some row.
  Proof.
    intro Hq. destruct valid_dfa_parts as (_ & _ & _ & H4 & _).
    unfold d_row. destruct (assoc q (d_trans m)) eqn:E; [eauto|].
    apply assoc_None in E. exfalso. apply E. apply H4. exact Hq.
  Qed.

  Lemma row_props q row : d_row m q = Some row -> row_ok m row = true.
  Proof.
    intro H. destruct valid_dfa_parts as (_ & _ & _ & _ & H5 & _).
    apply (H5 q). apply assoc_In. exact H.
  Qed.

  Lemma delta_in_states q a q' : d_delta m q a = Some q' -> In q' (d_states m) /\ In a (d_syms m).
  Proof.
    unfold d_delta. destruct (d_row m q) as [row|] eqn:E; [|discriminate].
    intro H. apply row_props in E. unfold row_ok in E.
    repeat rewrite andb_true_iff in E. destruct E as [[_ E] _].
    rewrite forallb_forall in E. apply assoc_In in H. specialize (E _ H). simpl in E.
    apply andb_true_iff in E. destruct E as [E1 E2]. split; apply memb_In; assumption.
  Qed.

  Lemma complete_when_not_partial :
    d_partial m = false -> complete m.
  Proof.
    intros Hp q a Hq Ha. destruct (state_has_row q Hq) as [row Hr].
    unfold d_delta. rewrite Hr. pose proof (row_props _ _ Hr) as E. unfold row_ok in E.
    repeat rewrite andb_true_iff in E. destruct E as [_ E]. rewrite Hp in E. simpl in E.
    rewrite forallb_forall in E. specialize (E a Ha). apply memb_In in E.
    destruct (assoc a row) eqn:E2; [eauto|]. apply assoc_None in E2. contradiction.
  Qed.

  Definition ostate_ok (c : option nat) : Prop :=
    match c with Some q => In q (d_states m) | None => True end.

  Lemma ostep_ok c a : ostate_ok c -> ostate_ok (ostep m c a).
  Proof.
    destruct c as [q|]; simpl; [|trivial]. intro Hq.
    destruct (d_delta m q a) eqn:E; simpl; [|trivial]. apply delta_in_states in E. tauto.
  Qed.

  Lemma dfa_run_ok w : forall c, ostate_ok c -> ostate_ok (dfa_run m c w).
  Proof. induction w as [|a w IH]; intros c Hc; simpl; [exact Hc|]. apply IH. apply ostep_ok. exact Hc. Qed.

  (* the model's step is the textbook step, never KeyError *)
  Lemma dfa_step_spec c a : ostate_ok c -> dfa_step m c a = Ok (ostep m c a).
  Proof.
    destruct c as [q|]; simpl; [|reflexivity]. intro Hq.
    destruct (state_has_row q Hq) as [row Hr]. unfold d_delta. rewrite Hr. reflexivity.
  Qed.

  (* textbook trace: configuration after each consumed symbol *)
  Fixpoint run_trace (c : option nat) (w : word) : list (option nat) :=
    match w with [] => [] | a :: r => ostep m c a :: run_trace (ostep m c a) r end.

  Lemma dfa_steps_spec w : forall c, ostate_ok c ->
    dfa_steps m c w = (run_trace c w, Ok (dfa_run m c w)).
  Proof.
    induction w as [|a w IH]; intros c Hc; simpl; [reflexivity|].
    rewrite (dfa_step_spec c a Hc). rewrite (IH _ (ostep_ok c a Hc)). reflexivity.
  Qed.

  Lemma run_trace_length c w : length (run_trace c w) = length w.
  Proof. revert c; induction w as [|a w IH]; intro c; simpl; [reflexivity|]. rewrite IH. reflexivity. Qed.

  Lemma run_trace_nth w : forall c k, k <= length w ->
    nth k (c :: run_trace c w) None = dfa_run m c (firstn k w).
  Proof.
    induction w as [|a w IH]; intros c k Hk; simpl in *.
    - assert (k = 0) by lia. subst. reflexivity.
    - destruct k as [|k]; [reflexivity|]. simpl. apply IH. lia.
  Qed.

  Lemma init_ok : ostate_ok (Some (d_init m)).
  Proof. simpl. destruct valid_dfa_parts as (_ & _ & _ & _ & _ & H & _). exact H. Qed.

  Theorem dfa_stepwise_spec w :
    dfa_stepwise m w =
      (Some (d_init m) :: run_trace (Some (d_init m)) w,
       if dfa_acc m w then Ok (dfa_run m (Some (d_init m)) w) else Err Reject).
  Proof.
    unfold dfa_stepwise. rewrite (dfa_steps_spec w _ init_ok). simpl.
    unfold dfa_acc, dfa_acc_from. reflexivity.
  Qed.

  Theorem dfa_accepts_spec w : dfa_accepts m w = Ok (dfa_acc m w).
  Proof.
    unfold dfa_accepts, dfa_read_input. rewrite dfa_stepwise_spec. simpl.
    destruct (dfa_acc m w); reflexivity.
  Qed.

  Theorem dfa_foreign_symbol_rejects u a v : ~ In a (d_syms m) -> dfa_acc m (u ++ a :: v) = false.
  Proof.
    intro Ha. unfold dfa_acc, dfa_acc_from. rewrite dfa_run_app. simpl.
    destruct (dfa_run m (Some (d_init m)) u) as [q|] eqn:E; simpl.
    - destruct (d_delta m q a) eqn:E2.
      + apply delta_in_states in E2. tauto.
      + rewrite dfa_run_None. reflexivity.
    - rewrite dfa_run_None. reflexivity.
  Qed.

  Theorem dfa_missing_transition_rejects u a v q :
    dfa_run m (Some (d_init m)) u = Some q -> d_delta m q a = None -> dfa_acc m (u ++ a :: v) = false.
  Proof.
    intros E E2. unfold dfa_acc, dfa_acc_from. rewrite dfa_run_app, E. simpl. rewrite E2.
    rewrite dfa_run_None. reflexivity.
  Qed.
End DFA.

(* ---------- NFA ---------- *)
Section NFA.
  Variable m : nfa.
  Hypothesis Hv : valid_nfa m = true.

  Definition eps_star (p q : nat) : Prop := nfa_path m p [] q.

  Lemma valid_nfa_parts :
    NoDup (n_states m) /\
    (forall q row, In (q, row) (n_trans m) -> nrow_ok m row = true) /\
    In (n_init m) (n_states m) /\ incl (n_finals m) (n_states m).
  Proof.
    unfold valid_nfa in Hv. repeat rewrite andb_true_iff in Hv.
    destruct Hv as [[[[[[H1 H2] H3] H4] H5] H6] H7].
    repeat split.
    - apply nodupb_NoDup; exact H1.
    - intros q row Hin. rewrite forallb_forall in H4. apply (H4 (q, row)). exact Hin.
    - apply memb_In; exact H5.
    - apply subsetb_incl; exact H7.
  Qed.

  Lemma oassoc_In {B} k (l : list (option nat * B)) v : oassoc k l = Some v -> In (k, v) l.
  Proof.
    induction l as [|[k' v'] r IH]; simpl; [discriminate|].
    destruct (eqb_opt Nat.eqb k k') eqn:E.
    - apply (eqb_opt_ok _ eqb_nat_ok) in E. subst. intro H. inversion H. left. reflexivity.
    - intro H. right. apply IH. exact H.
  Qed.

  Lemma targets_in_states q a t : In t (n_targets m q a) -> In t (n_states m).
  Proof.
    unfold n_targets. destruct (assoc q (n_trans m)) as [row|] eqn:E; [|intros []].
    destruct (oassoc a row) as [l|] eqn:E2; [|intros []].
    intro Ht. destruct valid_nfa_parts as (_ & H & _).
    apply assoc_In in E. specialize (H _ _ E). unfold nrow_ok in H.
    rewrite forallb_forall in H. apply oassoc_In in E2. specialize (H _ E2). simpl in H.
    apply andb_true_iff in H. destruct H as [_ H]. apply subsetb_incl in H. apply H. exact Ht.
  Qed.

  Lemma reach_prepend p q r : In q (eps_succ m p) -> reach (eps_succ m) [q] r -> reach (eps_succ m) [p] r.
  Proof.
    intros He H. induction H as [x Hx|x y Hr IH Hy].
    - simpl in Hx. destruct Hx as [Hx|[]]. subst x.
      eapply reach_step; [apply reach_init; left; reflexivity|exact He].
    - eapply reach_step; [exact IH|exact Hy].
  Qed.

  Lemma reach_eps p q : reach (eps_succ m) [p] q <-> eps_star p q.
  Proof.
    split.
    - intro H. induction H as [x Hx|x y Hr IH Hy].
      + destruct Hx as [<-|[]]. apply np_refl.
      + unfold eps_star in *. replace (@nil nat) with (@nil nat ++ @nil nat) by reflexivity.
        eapply nfa_path_app; [exact IH|]. eapply np_eps; [exact Hy|apply np_refl].
    - unfold eps_star. intro H. remember (@nil nat) as w eqn:Ew.
      induction H as [q|p q r w He Hp IH|p a q r w He Hp IH].
      + apply reach_init. left. reflexivity.
      + subst w. eapply reach_prepend; [exact He|apply IH; reflexivity].
      + discriminate.
  Qed.

  Lemma eclosure_spec p : In p (n_states m) ->
    exists c, eclosure m p = Ok c /\ ssorted c /\ forall q, In q c <-> eps_star p q.
  Proof.
    intro Hp. unfold eclosure.
    destruct (closure Nat.eqb (eps_succ m) (S (length (n_states m))) [p]) as [c|] eqn:E.
    - exists (set_of c). split; [reflexivity|]. split; [apply set_of_sorted|].
      intro q. rewrite set_of_In. rewrite <- reach_eps. split.
      + apply (closure_sound _ _ eqb_nat_ok _ _ _ _ E).
      + apply (closure_complete _ _ eqb_nat_ok _ _ _ _ E).
    - exfalso. revert E. apply (closure_fuel _ _ eqb_nat_ok _ (n_states m)).
      + intros x y _ Hy. eapply targets_in_states. exact Hy.
      + intros x [<-|[]]. exact Hp.
      + lia.
  Qed.

  Lemma eps_star_in_states p q : In p (n_states m) -> eps_star p q -> In q (n_states m).
  Proof.
    intros Hp H. unfold eps_star in H. remember (@nil nat) as w eqn:Ew.
    induction H as [q|p q r w He Hpth IH|p a q r w He Hpth IH]; [exact Hp| |discriminate].
    apply IH; [|exact Ew]. eapply targets_in_states. exact He.
  Qed.

  Lemma closures_spec_aux l :
    incl l (n_states m) ->
    exists cl, mapM (fun q => bind (eclosure m q) (fun c => Ok (q, c))) l = Ok cl /\
      forall p, In p l -> exists c, assoc p cl = Some c /\ ssorted c /\ forall q, In q c <-> eps_star p q.
  Proof.
    induction l as [|x l IH]; intro Hi.
    - exists []. split; [reflexivity|]. intros p [].
    - destruct IH as [cl [E Hcl]]; [intros y Hy; apply Hi; right; exact Hy|].
      destruct (eclosure_spec x) as [c [Ec Hc]]; [apply Hi; left; reflexivity|].
      exists ((x, c) :: cl). split.
      + simpl. rewrite Ec. simpl. rewrite E. reflexivity.
      + intros p Hp. simpl. destruct (Nat.eqb p x) eqn:Epx.
        * apply Nat.eqb_eq in Epx. subst. exists c. split; [reflexivity|exact Hc].
        * destruct Hp as [Hp|Hp]; [subst; rewrite Nat.eqb_refl in Epx; discriminate|].
          apply Hcl. exact Hp.
  Qed.

  Lemma closures_spec :
    exists cl, nfa_closures m = Ok cl /\
      forall p, In p (n_states m) ->
        exists c, cl_lookup cl p = Ok c /\ ssorted c /\ forall q, In q c <-> eps_star p q.
  Proof.
    destruct (closures_spec_aux (n_states m)) as [cl [E H]]; [apply incl_refl|].
    exists cl. split; [exact E|]. intros p Hp. destruct (H p Hp) as [c [Ha Hc]].
    exists c. unfold cl_lookup. rewrite Ha. split; [reflexivity|exact Hc].
  Qed.

  Lemma set_union_sorted a b : ssorted b -> ssorted (set_union a b).
  Proof. intro H. unfold set_union. induction a as [|x a IH]; simpl; [exact H|]. apply set_add_sorted. exact IH. Qed.

  Section WithClosures.
    Variable cl : list (nat * list nat).
    Hypothesis Hcl : forall p, In p (n_states m) ->
        exists c, cl_lookup cl p = Ok c /\ ssorted c /\ forall q, In q c <-> eps_star p q.

    Lemma inner_fold_spec ts : incl ts (n_states m) -> forall s, ssorted s ->
      exists s', fold_right (fun t acc' => bind acc' (fun s' => bind (cl_lookup cl t) (fun c => Ok (set_union c s'))))
                            (Ok s) ts = Ok s' /\ ssorted s' /\
                 forall x, In x s' <-> In x s \/ exists t, In t ts /\ eps_star t x.
    Proof.
      induction ts as [|t ts IH]; intros Hi s Hs; simpl.
      - exists s. split; [reflexivity|]. split; [exact Hs|]. intro x. split; [auto|].
        intros [H|[t [[] _]]]. exact H.
      - destruct (IH (fun y Hy => Hi y (or_intror Hy)) s Hs) as [s1 [E1 [Hs1 H1]]].
        rewrite E1. simpl.
        destruct (Hcl t (Hi t (or_introl eq_refl))) as [c [Ec [Hc1 Hc2]]].
        rewrite Ec. simpl. exists (set_union c s1). split; [reflexivity|].
        split; [apply set_union_sorted; exact Hs1|].
        intro x. rewrite set_union_In, H1, Hc2. split.
        + intros [H|[H|[t' [Ht' H]]]]; [right; exists t; split; [left; reflexivity|exact H] | left; exact H |].
          right. exists t'. split; [right; exact Ht'|exact H].
        + intros [H|[t' [[<-|Ht'] H]]]; [right; left; exact H | left; exact H |].
          right. right. exists t'. split; assumption.
    Qed.

    Lemma nfa_next_spec S a :
      exists s', nfa_next m cl S a = Ok s' /\ ssorted s' /\
        forall x, In x s' <-> exists q t, In q S /\ n_edge m q (Some a) t /\ eps_star t x.
    Proof.
      unfold nfa_next. induction S as [|q S IH]; simpl.
      - exists []. split; [reflexivity|]. split; [constructor|]. intro x. split; [intros []|].
        intros [q [t [[] _]]].
      - destruct IH as [s1 [E1 [Hs1 H1]]]. rewrite E1. simpl.
        destruct (inner_fold_spec (n_targets m q (Some a))
                    (fun t Ht => targets_in_states q (Some a) t Ht) s1 Hs1) as [s2 [E2 [Hs2 H2]]].
        rewrite E2. exists s2. split; [reflexivity|]. split; [exact Hs2|].
        intro x. rewrite H2, H1. split.
        + intros [[q' [t [Hq' H]]]|[t [Ht H]]].
          * exists q', t. split; [right; exact Hq'|exact H].
          * exists q, t. split; [left; reflexivity|]. split; [exact Ht|exact H].
        + intros [q' [t [[<-|Hq'] [He H]]]].
          * right. exists t. split; [exact He|exact H].
          * left. exists q', t. split; [exact Hq'|]. split; assumption.
    Qed.
  End WithClosures.

  (* paths: decomposition at the last consumed symbol *)
  Lemma path_snoc p w a r :
    nfa_path m p (w ++ [a]) r <->
    exists q t, nfa_path m p w q /\ n_edge m q (Some a) t /\ eps_star t r.
  Proof.
    split.
    - intro H. remember (w ++ [a]) as x eqn:Ex. revert w Ex.
      induction H as [q|p q r x He Hp IH|p b q r x He Hp IH]; intros w Ex.
      + destruct w; discriminate.
      + destruct (IH w Ex) as [q' [t [H1 H2]]]. exists q', t. split; [|exact H2].
        eapply np_eps; [exact He|exact H1].
      + destruct w as [|c w]; simpl in Ex.
        * inversion Ex; subst. exists p, q. split; [apply np_refl|]. split; [exact He|exact Hp].
        * inversion Ex; subst. destruct (IH w eq_refl) as [q' [t [H1 H2]]].
          exists q', t. split; [|exact H2]. eapply np_sym; [exact He|exact H1].
    - intros [q [t [H1 [H2 H3]]]]. eapply nfa_path_app; [exact H1|].
      eapply np_sym; [exact H2|exact H3].
  Qed.

  Definition set_is (S : list nat) (P : nat -> Prop) : Prop := ssorted S /\ forall q, In q S <-> P q.

  (* the k-th yielded set is exactly the set of states reachable on the first k symbols *)
  Inductive trace_ok : word -> word -> list (list nat) -> Prop :=
  | t_nil u : trace_ok u [] []
  | t_cons u a r S ys :
      set_is S (fun q => nfa_path m (n_init m) (u ++ [a]) q) ->
      trace_ok (u ++ [a]) r ys -> trace_ok u (a :: r) (S :: ys).

  Lemma trace_ok_length u w ys : trace_ok u w ys -> length ys = length w.
  Proof. intro H. induction H; simpl; [reflexivity|]. f_equal. assumption. Qed.

  Lemma nfa_steps_spec cl :
    (forall p, In p (n_states m) ->
        exists c, cl_lookup cl p = Ok c /\ ssorted c /\ forall q, In q c <-> eps_star p q) ->
    forall w u cur, set_is cur (fun q => nfa_path m (n_init m) u q) ->
    exists ys last, nfa_steps m cl cur w = (ys, Ok last) /\ trace_ok u w ys /\
                    set_is last (fun q => nfa_path m (n_init m) (u ++ w) q).
  Proof.
    intros Hcl w. induction w as [|a w IH]; intros u cur Hcur; simpl.
    - exists [], cur. split; [reflexivity|]. split; [constructor|]. rewrite app_nil_r. exact Hcur.
    - destruct (nfa_next_spec cl Hcl cur a) as [s' [E [Hs Hx]]]. rewrite E.
      assert (Hs' : set_is s' (fun q => nfa_path m (n_init m) (u ++ [a]) q)).
      { split; [exact Hs|]. intro x. rewrite Hx, path_snoc. destruct Hcur as [_ Hc]. split.
        - intros [q [t [Hq H]]]. exists q, t. split; [apply Hc; exact Hq|exact H].
        - intros [q [t [Hq H]]]. exists q, t. split; [apply Hc; exact Hq|exact H]. }
      destruct (IH (u ++ [a]) s' Hs') as [ys [last [E2 [Ht Hl]]]]. rewrite E2.
      exists (s' :: ys), last. split; [reflexivity|]. split; [constructor; assumption|].
      rewrite <- app_assoc in Hl. exact Hl.
  Qed.

  Lemma disjointb_spec a b : disjointb a b = false <-> exists x, In x a /\ In x b.
  Proof.
    unfold disjointb. rewrite negb_false_iff, existsb_exists. split.
    - intros [x [H1 H2]]. exists x. split; [exact H1|apply memb_In; exact H2].
    - intros [x [H1 H2]]. exists x. split; [exact H1|apply memb_In; exact H2].
  Qed.

  Theorem nfa_stepwise_spec w :
    exists c0 ys o, nfa_stepwise m w = (c0 :: ys, o) /\
      set_is c0 (fun q => nfa_path m (n_init m) [] q) /\ trace_ok [] w ys /\
      ((exists last, o = Ok last /\ set_is last (fun q => nfa_path m (n_init m) w q) /\ L_nfa m w)
       \/ (o = Err Reject /\ ~ L_nfa m w)).
  Proof.
    destruct closures_spec as [cl [Ecl Hcl]].
    destruct valid_nfa_parts as (_ & _ & Hinit & _).
    destruct (Hcl _ Hinit) as [c0 [E0 [Hs0 H0]]].
    assert (Hc0 : set_is c0 (fun q => nfa_path m (n_init m) [] q)) by (split; assumption).
    destruct (nfa_steps_spec cl Hcl w [] c0 Hc0) as [ys [last [E [Ht Hl]]]].
    simpl in Hl.
    unfold nfa_stepwise. rewrite Ecl, E0, E. simpl.
    destruct (disjointb last (n_finals m)) eqn:Ed.
    - exists c0, ys, (Err Reject). split; [reflexivity|]. split; [exact Hc0|]. split; [exact Ht|].
      right. split; [reflexivity|]. intros [q [Hp Hf]].
      assert (disjointb last (n_finals m) = false).
      { apply disjointb_spec. exists q. split; [apply Hl; exact Hp|exact Hf]. }
      congruence.
    - exists c0, ys, (Ok last). split; [reflexivity|]. split; [exact Hc0|]. split; [exact Ht|].
      left. exists last. split; [reflexivity|]. split; [exact Hl|].
      apply disjointb_spec in Ed. destruct Ed as [q [H1 H2]]. exists q. split; [apply Hl; exact H1|exact H2].
  Qed.

  Theorem nfa_accepts_spec w :
    exists b, nfa_accepts m w = Ok b /\ (b = true <-> L_nfa m w).
  Proof.
    destruct (nfa_stepwise_spec w) as [c0 [ys [o [E [_ [_ H]]]]]].
    unfold nfa_accepts, nfa_read_input. rewrite E. simpl.
    destruct H as [[last [-> [_ HL]]]|[-> HL]]; simpl.
    - exists true. split; [reflexivity|tauto].
    - exists false. split; [reflexivity|]. split; [discriminate|contradiction].
  Qed.
End NFA.
