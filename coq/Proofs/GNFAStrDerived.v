(* C12 (continuation): NFA.from_regex WITHOUT the input_symbols argument on the strings of to_regex.  The derived
   alphabet is frozenset(regex) - RESERVED_CHARACTERS (nfa.py lines 220-221), here [default_alphabet]: the characters
   of the string that are not reserved.  On a printing [show x] these are exactly the symbols of the tree x. *)
From Coq Require Import List Arith Bool Lia.
From AV Require Import Base.Util Spec.Lang Spec.FA Spec.Regex
                       Model.RegexLex Model.RegexParse Model.RegexBuild Model.GNFAStr
                       Proofs.RegexBuild Proofs.RegexParse Proofs.RegexCompile Proofs.RegexTotal
                       Proofs.GNFAStr Proofs.GNFAStrParse.
Import ListNotations.

Lemma default_alphabet_In cs a : In a (default_alphabet cs) <-> In a cs /\ is_reserved a = false.
Proof. unfold default_alphabet. rewrite set_of_In, filter_In, negb_true_iff. tauto. Qed.

Lemma sym_ok_not_reserved a : sym_ok a = true -> is_reserved a = false.
Proof. intro H. apply sym_ok_ge in H. unfold is_reserved. apply Nat.ltb_ge. exact H. Qed.

(* every character of a printing is a bracket / operator character or a symbol of the tree *)
Lemma show_chars ok x : forall l, wfl ok l x = true ->
  forall c, In c (show x) -> is_reserved c = true \/ ok c = true.
Proof.
  induction x as [|a|a IHa b IHb|a IHa b IHb|a IH|a IH|a IH]; intros l H c Hc; simpl in *.
  - destruct Hc.
  - destruct Hc as [<-|[]]. right. exact H.
  - apply andb_true_iff in H. destruct H as [H H2]. apply andb_true_iff in H. destruct H as [_ H1].
    apply in_app_iff in Hc. destruct Hc as [Hc|[<-|Hc]]; [exact (IHa 1 H1 c Hc)|left; reflexivity|exact (IHb 2 H2 c Hc)].
  - apply andb_true_iff in H. destruct H as [H H2]. apply andb_true_iff in H. destruct H as [_ H1].
    apply in_app_iff in Hc. destruct Hc as [Hc|Hc]; [exact (IHa 2 H1 c Hc)|exact (IHb 3 H2 c Hc)].
  - apply in_app_iff in Hc. destruct Hc as [Hc|[<-|[]]]; [exact (IH 3 H c Hc)|left; reflexivity].
  - apply in_app_iff in Hc. destruct Hc as [Hc|[<-|[]]]; [exact (IH 3 H c Hc)|left; reflexivity].
  - unfold paren in Hc. simpl in Hc. destruct Hc as [<-|Hc]; [left; reflexivity|].
    apply in_app_iff in Hc. destruct Hc as [Hc|[<-|[]]]; [|left; reflexivity].
    destruct a; try exact (IH 1 H c Hc). destruct Hc.
Qed.

Theorem show_compiles_derived sigma x : NoDup sigma -> forallb sym_ok sigma = true ->
  wf_lab (sym_in sigma) x = true ->
  exists m, compile (show x) None = Ok m /\ valid_nfa m = true /\ n_syms m = default_alphabet (show x) /\
            L_nfa m =L xden x /\ (forall a, In a (n_syms m) -> In a sigma).
Proof.
  intros Hnd Hs Hw.
  pose proof (parse_show (sym_in sigma) (ok_sym_in sigma) x Hw) as Hp.
  assert (Hsy : forall a, In a (re_syms (cv x)) -> In a (default_alphabet (show x))).
  { intros a Ha. apply default_alphabet_In. split; [exact (parse_syms _ _ Hp a Ha)|].
    destruct (wf_lab_cases _ x Hw) as [->|H1]; [destruct Ha|].
    pose proof (cv_syms (sym_in sigma) x 1 H1 a Ha) as H. unfold sym_in in H.
    apply andb_true_iff in H. apply sym_ok_not_reserved. tauto. }
  destruct (compile_re_total (default_alphabet (show x)) (cv x) Hsy) as [m Hm].
  assert (Hc : compile (show x) None = Ok m).
  { unfold compile, alphabet_of. simpl. rewrite Hp. simpl. exact Hm. }
  exists m. split; [exact Hc|].
  destruct (compile_sound (show x) None m I Hc) as (sg' & r' & Ea & Ep & Hv & Hsyms & HL).
  simpl in Ea. injection Ea as <-. rewrite Hp in Ep. injection Ep as <-.
  split; [exact Hv|]. split; [exact Hsyms|]. split; [eapply lang_eq_trans; [exact HL|apply den_cv]|].
  intros a Ha. rewrite Hsyms in Ha. apply default_alphabet_In in Ha. destruct Ha as [Ha Hr].
  destruct (wf_lab_cases _ x Hw) as [->|H1]; [destruct Ha|].
  destruct (show_chars (sym_in sigma) x 1 H1 a Ha) as [H|H]; [congruence|].
  unfold sym_in in H. apply andb_true_iff in H. apply memb_In. tauto.
Qed.

(* what NFA.from_regex(st) without the alphabet argument gives for a string of to_regex *)
Definition regex_ok_derived (st : str) (sigma : list nat) (L : lang) : Prop :=
  exists m, compile st None = Ok m /\ valid_nfa m = true /\ n_syms m = default_alphabet st /\ L_nfa m =L L /\
    (forall a, In a (n_syms m) -> In a sigma) /\
    ((forall a, In a sigma -> In a st) <-> (forall a, In a (n_syms m) <-> In a sigma)).

Lemma regex_ok_derived_show sigma x L : NoDup sigma -> forallb sym_ok sigma = true ->
  wf_lab (sym_in sigma) x = true -> xden x =L L -> regex_ok_derived (show x) sigma L.
Proof.
  intros Hnd Hs Wx Dx. destruct (show_compiles_derived sigma x Hnd Hs Wx) as (m & Hc & Hv & Hsy & HL & Hin).
  exists m. split; [exact Hc|]. split; [exact Hv|]. split; [exact Hsy|].
  split; [eapply lang_eq_trans; [exact HL|exact Dx]|]. split; [exact Hin|]. split.
  - intros H a. split; [apply Hin|]. intro Ha. rewrite Hsy. apply default_alphabet_In. split; [exact (H a Ha)|].
    apply sym_ok_not_reserved. rewrite forallb_forall in Hs. exact (Hs a Ha).
  - intros H a Ha. apply H in Ha. rewrite Hsy in Ha. apply default_alphabet_In in Ha. tauto.
Qed.

Theorem dfa_to_regex_derived d sched : valid_dfa d = true -> forallb sym_ok (d_syms d) = true ->
  exists s order, dfa_to_regex d sched = Ok (s, order) /\
    match s with
    | Some st => regex_ok_derived st (d_syms d) (L_dfa d)
    | None => forall w, ~ L_dfa d w
    end.
Proof.
  intros Hv Hs. destruct (dfa_to_regex_string d sched Hv Hs) as (order & E & H).
  exists (selim (sgnfa_of_dfa d) order), order. split; [exact E|].
  destruct (selim (sgnfa_of_dfa d) order) as [st|]; [|exact H].
  destruct H as (x & -> & Wx & Dx). destruct (Proofs.FARun.valid_dfa_parts d Hv) as (_ & Hnd & _).
  apply regex_ok_derived_show; assumption.
Qed.

Theorem nfa_to_regex_derived n sched : valid_nfa n = true -> forallb sym_ok (n_syms n) = true ->
  nfa_keys_nodup n = true ->
  exists s order, nfa_to_regex n sched = Ok (s, order) /\
    match s with
    | Some st => regex_ok_derived st (n_syms n) (L_nfa n)
    | None => forall w, ~ L_nfa n w
    end.
Proof.
  intros Hv Hs Hk. destruct (nfa_to_regex_string n sched Hv Hs Hk) as (order & E & H).
  exists (selim (sgnfa_of_nfa n) order), order. split; [exact E|].
  destruct (selim (sgnfa_of_nfa n) order) as [st|]; [|exact H].
  destruct H as (x & -> & Wx & Dx).
  assert (Hnd : NoDup (n_syms n)).
  { unfold valid_nfa in Hv. repeat (apply andb_true_iff in Hv; destruct Hv as [Hv ?]).
    repeat match goal with H : nodupb _ = true |- _ => apply nodupb_NoDup in H end. assumption. }
  apply regex_ok_derived_show; assumption.
Qed.
