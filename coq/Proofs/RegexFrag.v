(* Fragments of the regex builder: paths over edge lists, the fragment invariant,
   the bridge to the NFA record, generic path tools. *)
From Coq Require Import List Arith Bool Lia.
From AV Require Import Base.Util Spec.Lang Spec.FA Spec.Regex Model.RegexBuild.
Import ListNotations.

Definition olist (l : option nat) : word := match l with Some a => [a] | None => [] end.

Inductive fpath (E : list edge) : nat -> word -> nat -> Prop :=
| fp_refl q : fpath E q [] q
| fp_step p l q r w : In (p, l, q) E -> fpath E q w r -> fpath E p (olist l ++ w) r.

Definition L_frag (F : frag) : lang :=
  fun w => exists q, fpath (f_edges F) (f_init F) w q /\ In q (f_finals F).

(* the fragment invariant: names in [c0, c1), no duplicate state, edges between states,
   initial and final states are states, no edge enters the initial state *)
Record wf (c0 : nat) (F : frag) (c1 : nat) : Prop := mkwf {
  wf_range : forall q, In q (f_states F) -> c0 <= q < c1;
  wf_nodup : NoDup (f_states F);
  wf_src : forall p l q, In (p, l, q) (f_edges F) -> In p (f_states F);
  wf_dst : forall p l q, In (p, l, q) (f_edges F) -> In q (f_states F);
  wf_init : In (f_init F) (f_states F);
  wf_finals : forall q, In q (f_finals F) -> In q (f_states F);
  wf_noin : forall p l, ~ In (p, l, f_init F) (f_edges F) }.

Section Paths.
  Variable E : list edge.

  Lemma fpath_eps p q r w : In (p, None, q) E -> fpath E q w r -> fpath E p w r.
  Proof. intros H1 H2. exact (fp_step E p None q r w H1 H2). Qed.

  Lemma fpath_sym p a q r w : In (p, Some a, q) E -> fpath E q w r -> fpath E p (a :: w) r.
  Proof. intros H1 H2. exact (fp_step E p (Some a) q r w H1 H2). Qed.

  Lemma fpath_app p u q v r : fpath E p u q -> fpath E q v r -> fpath E p (u ++ v) r.
  Proof.
    intros H1 H2. induction H1 as [q|p l q r' w He Hp IH]; simpl; [exact H2|].
    rewrite <- app_assoc. eapply fp_step; [exact He|]. apply IH. exact H2.
  Qed.

  Lemma fpath_one p l q : In (p, l, q) E -> fpath E p (olist l) q.
  Proof.
    intro H. rewrite <- (app_nil_r (olist l)). eapply fp_step; [exact H|constructor].
  Qed.

  (* a state without incoming edge is reached only by the empty path *)
  Lemma fpath_noin p w q : (forall p' l, ~ In (p', l, q) E) -> fpath E p w q -> p = q /\ w = [].
  Proof.
    intros Hno H. induction H as [q|p l q r w He Hp IH]; [split; reflexivity|].
    destruct (IH Hno) as [-> ->]. exfalso. exact (Hno _ _ He).
  Qed.

  Lemma fpath_dst (S : nat -> Prop) p w q :
    (forall p l q, In (p, l, q) E -> S q) -> S p -> fpath E p w q -> S q.
  Proof.
    intros Hd Hp H. induction H as [q|p l q r w He Hq IH]; [exact Hp|].
    apply IH. exact (Hd _ _ _ He).
  Qed.
End Paths.

Lemma fpath_mono E E' p w q : incl E E' -> fpath E p w q -> fpath E' p w q.
Proof.
  intros Hi H. induction H as [q|p l q r w He Hp IH]; [constructor|].
  eapply fp_step; [apply Hi; exact He|exact IH].
Qed.

(* a region S that the big edge set E' leaves only through E-edges staying in S *)
Lemma fpath_stay E E' (S : nat -> Prop) :
  (forall p l q, S p -> In (p, l, q) E' -> In (p, l, q) E /\ S q) ->
  forall p w r, fpath E' p w r -> S p -> fpath E p w r /\ S r.
Proof.
  intros Hc p w r H. induction H as [q|p l q r w He Hp IH]; intro Hs.
  - split; [constructor|exact Hs].
  - destruct (Hc _ _ _ Hs He) as [He' Hq]. destruct (IH Hq) as [H1 H2].
    split; [|exact H2]. eapply fp_step; eassumption.
Qed.

(* first exit: either the path stays in S (and is an E-path) or it decomposes at the first
   edge satisfying the exit predicate X *)
Lemma fpath_split E E' (S : nat -> Prop) (X : nat -> option nat -> nat -> Prop) :
  (forall p l q, S p -> In (p, l, q) E' -> (In (p, l, q) E /\ S q) \/ X p l q) ->
  forall p w r, fpath E' p w r -> S p ->
    (fpath E p w r /\ S r) \/
    (exists u p' l q' v, w = u ++ olist l ++ v /\ fpath E p u p' /\ S p' /\ X p' l q' /\
                         In (p', l, q') E' /\ fpath E' q' v r).
Proof.
  intros Hc p w r H. induction H as [q|p l q r w He Hp IH]; intro Hs.
  - left. split; [constructor|exact Hs].
  - destruct (Hc _ _ _ Hs He) as [[He' Hq]|Hx].
    + destruct (IH Hq) as [[H1 H2]|[u [p' [l' [q' [v [Ew [H1 [H2 [H3 [H4 H5]]]]]]]]]]].
      * left. split; [|exact H2]. eapply fp_step; eassumption.
      * right. exists (olist l ++ u), p', l', q', v. subst w.
        split; [rewrite app_assoc; reflexivity|].
        split; [eapply fp_step; eassumption|]. repeat split; assumption.
    + right. exists [], p, l, q, w. simpl. split; [reflexivity|].
      split; [constructor|]. repeat split; assumption.
Qed.

(* ---- renaming by an offset ---- *)
Lemma shift_edge_in d p l q E :
  In (p, l, q) (map (shift_edge d) E) <-> exists p0 q0, p = p0 + d /\ q = q0 + d /\ In (p0, l, q0) E.
Proof.
  rewrite in_map_iff. split.
  - intros [[[p0 l0] q0] [He Hi]]. unfold shift_edge, e_src, e_lab, e_dst in He. simpl in He.
    inversion He; subst. exists p0, q0. auto.
  - intros [p0 [q0 [-> [-> Hi]]]]. exists (p0, l, q0). split; [reflexivity|exact Hi].
Qed.

Lemma fpath_shift d E a w x :
  fpath (map (shift_edge d) E) (a + d) w x <-> exists a', x = a' + d /\ fpath E a w a'.
Proof.
  split.
  - intro H. remember (a + d) as p eqn:Ep. revert a Ep.
    induction H as [q|p l q r w He Hp IH]; intros a Ep; subst.
    + exists a. split; [reflexivity|constructor].
    + apply shift_edge_in in He. destruct He as [p0 [q0 [E1 [E2 Hi]]]].
      assert (p0 = a) by lia. subst p0 q.
      destruct (IH q0 eq_refl) as [a' [Ex Hpa]]. exists a'. split; [exact Ex|].
      eapply fp_step; eassumption.
  - intros [a' [-> H]]. induction H as [q|p l q r w He Hp IH]; [constructor|].
    eapply fp_step; [|exact IH]. apply shift_edge_in. exists p, q. auto.
Qed.

(* ---- bridge to the NFA record ---- *)
Lemma olab_eqb_ok : eqb_ok olab_eqb.
Proof. apply eqb_opt_ok. apply eqb_nat_ok. Qed.

Lemma targets_In E q l t : In t (targets E q l) <-> In (q, l, t) E.
Proof.
  unfold targets. rewrite in_map_iff. split.
  - intros [[[p l0] t0] [Et Hf]]. apply filter_In in Hf. destruct Hf as [Hi Hb].
    unfold e_src, e_lab, e_dst in *. simpl in *. apply andb_true_iff in Hb. destruct Hb as [H1 H2].
    apply Nat.eqb_eq in H1. apply olab_eqb_ok in H2. subst. exact Hi.
  - intro Hi. exists (q, l, t). split; [reflexivity|]. apply filter_In. split; [exact Hi|].
    unfold e_src, e_lab. simpl. rewrite Nat.eqb_refl. simpl. apply olab_eqb_ok. reflexivity.
Qed.

Lemma olabels_In ls l : In l (olabels ls) <-> In l ls.
Proof.
  induction ls as [|x r IH]; simpl; [tauto|].
  destruct (existsb (olab_eqb x) r) eqn:Ex.
  - rewrite IH. split; [auto|]. intros [H|H]; [|exact H]. subst.
    apply existsb_exists in Ex. destruct Ex as [y [Hy Hxy]]. apply olab_eqb_ok in Hxy. subst. exact Hy.
  - simpl. rewrite IH. tauto.
Qed.

Lemma olab_In_dec (l : option nat) ls : In l ls \/ ~ In l ls.
Proof.
  destruct (existsb (olab_eqb l) ls) eqn:Ex.
  - left. apply existsb_exists in Ex. destruct Ex as [y [Hy Hxy]]. apply olab_eqb_ok in Hxy. subst. exact Hy.
  - right. intro H. assert (existsb (olab_eqb l) ls = true); [|congruence].
    apply existsb_exists. exists l. split; [exact H|]. apply olab_eqb_ok. reflexivity.
Qed.

Lemma oassoc_map_In l (f : option nat -> list nat) ls :
  In l ls -> oassoc l (map (fun x => (x, f x)) ls) = Some (f l).
Proof.
  induction ls as [|x r IH]; simpl; [tauto|]. intro H.
  destruct (eqb_opt Nat.eqb l x) eqn:Ex.
  - apply (eqb_opt_ok _ eqb_nat_ok) in Ex. subst. reflexivity.
  - destruct H as [H|H]; [|exact (IH H)]. subst.
    rewrite (eqb_ok_refl _ (eqb_opt_ok _ eqb_nat_ok)) in Ex. discriminate.
Qed.

Lemma oassoc_map_None l (f : option nat -> list nat) ls :
  ~ In l ls -> oassoc l (map (fun x => (x, f x)) ls) = None.
Proof.
  induction ls as [|x r IH]; simpl; [reflexivity|]. intro H.
  destruct (eqb_opt Nat.eqb l x) eqn:Ex.
  - apply (eqb_opt_ok _ eqb_nat_ok) in Ex. subst. exfalso. apply H. left. reflexivity.
  - apply IH. tauto.
Qed.

Lemma assoc_map_In q (f : nat -> list (option nat * list nat)) qs :
  In q qs -> assoc q (map (fun x => (x, f x)) qs) = Some (f q).
Proof.
  induction qs as [|x r IH]; simpl; [tauto|]. intro H.
  destruct (Nat.eqb q x) eqn:Ex.
  - apply Nat.eqb_eq in Ex. subst. reflexivity.
  - destruct H as [H|H]; [|exact (IH H)]. subst. rewrite Nat.eqb_refl in Ex. discriminate.
Qed.

Lemma assoc_map_None q (f : nat -> list (option nat * list nat)) qs :
  ~ In q qs -> assoc q (map (fun x => (x, f x)) qs) = None.
Proof.
  induction qs as [|x r IH]; simpl; [reflexivity|]. intro H.
  destruct (Nat.eqb q x) eqn:Ex.
  - apply Nat.eqb_eq in Ex. subst. exfalso. apply H. left. reflexivity.
  - apply IH. tauto.
Qed.

Lemma out_edges_In E q e : In e (out_edges E q) <-> In e E /\ e_src e = q.
Proof. unfold out_edges. rewrite filter_In, Nat.eqb_eq. tauto. Qed.

Lemma nfa_of_targets sigma F p l t :
  In t (n_targets (nfa_of sigma F) p l) <-> In p (f_states F) /\ In (p, l, t) (f_edges F).
Proof.
  unfold n_targets, nfa_of. simpl.
  destruct (in_dec Nat.eq_dec p (f_states F)) as [Hp|Hp].
  - rewrite (assoc_map_In p (row_of (f_edges F)) _ Hp). unfold row_of.
    set (ls := olabels (map e_lab (out_edges (f_edges F) p))).
    destruct (olab_In_dec l ls) as [Hl|Hl].
    + rewrite (oassoc_map_In l (fun l0 => set_of (targets (f_edges F) p l0)) ls Hl).
      rewrite set_of_In, targets_In. tauto.
    + rewrite (oassoc_map_None l (fun l0 => set_of (targets (f_edges F) p l0)) ls Hl).
      split; [intros []|]. intros [_ Hi]. exfalso. apply Hl. unfold ls.
      apply olabels_In. apply in_map_iff. exists (p, l, t). split; [reflexivity|].
      apply out_edges_In. split; [exact Hi|reflexivity].
  - rewrite (assoc_map_None p (row_of (f_edges F)) _ Hp). split; [intros []|tauto].
Qed.

Lemma nfa_of_path sigma F :
  (forall p l q, In (p, l, q) (f_edges F) -> In p (f_states F)) ->
  forall p w q, nfa_path (nfa_of sigma F) p w q <-> fpath (f_edges F) p w q.
Proof.
  intros Hsrc p w q. split; intro H.
  - induction H as [q|p q r w He Hp IH|p a q r w He Hp IH].
    + constructor.
    + apply nfa_of_targets in He. eapply fpath_eps; [exact (proj2 He)|exact IH].
    + apply nfa_of_targets in He. eapply fpath_sym; [exact (proj2 He)|exact IH].
  - induction H as [q|p l q r w He Hp IH]; [constructor|].
    assert (Ht : n_edge (nfa_of sigma F) p l q).
    { apply nfa_of_targets. split; [exact (Hsrc _ _ _ He)|exact He]. }
    destruct l as [a|]; simpl; [eapply np_sym|eapply np_eps]; eassumption.
Qed.

Lemma nfa_of_lang sigma F c0 c1 : wf c0 F c1 -> L_nfa (nfa_of sigma F) =L L_frag F.
Proof.
  intros Hw w. unfold L_nfa, L_frag. simpl.
  split; intros [q [Hp Hf]]; exists q; (split; [|exact Hf]);
    apply (nfa_of_path sigma F (wf_src _ _ _ Hw)); exact Hp.
Qed.

(* ---- powers and star ---- *)
Lemma l_pow_add A a b w : l_pow A (a + b) w <-> l_cat (l_pow A a) (l_pow A b) w.
Proof.
  revert w. induction a as [|a IH]; intro w; simpl.
  - split.
    + intro H. exists [], w. split; [reflexivity|]. split; [reflexivity|exact H].
    + intros [u [v [-> [Hu Hv]]]]. unfold l_eps in Hu. subst. exact Hv.
  - split.
    + intros [u [v [-> [Hu Hv]]]]. apply IH in Hv. destruct Hv as [v1 [v2 [-> [H1 H2]]]].
      exists (u ++ v1), v2. split; [rewrite app_assoc; reflexivity|].
      split; [|exact H2]. exists u, v1. auto.
    + intros [u [v [-> [[u1 [u2 [-> [H1 H2]]]] Hv]]]]. exists u1, (u2 ++ v).
      split; [rewrite app_assoc; reflexivity|]. split; [exact H1|]. apply IH. exists u2, v. auto.
Qed.

Lemma l_pow_one A w : l_pow A 1 w <-> A w.
Proof.
  simpl. split.
  - intros [u [v [-> [Hu Hv]]]]. unfold l_eps in Hv. subst. rewrite app_nil_r. exact Hu.
  - intro H. exists w, []. split; [rewrite app_nil_r; reflexivity|]. split; [exact H|reflexivity].
Qed.

Lemma l_star_pow A w : l_star A w <-> exists k, l_pow A k w.
Proof.
  split.
  - intro H. induction H as [|u v Hu Hv [k IH]].
    + exists 0. reflexivity.
    + exists (S k). exists u, v. auto.
  - intros [k H]. revert w H. induction k as [|k IH]; intros w H; simpl in H.
    + unfold l_eps in H. subst. constructor.
    + destruct H as [u [v [-> [Hu Hv]]]]. constructor; [exact Hu|apply IH; exact Hv].
Qed.

Lemma l_pow_ext A B : A =L B -> forall k, l_pow A k =L l_pow B k.
Proof.
  intros H k. induction k as [|k IH]; intro w; simpl; [tauto|].
  split; intros [u [v [-> [Hu Hv]]]]; exists u, v; (split; [reflexivity|]); split;
    try (apply H; exact Hu); try (apply IH; exact Hv).
Qed.
