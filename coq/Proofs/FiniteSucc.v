(* isfinite_m (Model/Product.v) is exact: it always answers for a valid DFA; `true` means every
   accepted word is shorter than the number of states, `false` means there are accepted words of
   every length bound.  Used by C14 (predecessors refuse infinite languages; the default length
   bound loses nothing) and available to C06.
   No pigeonhole is needed: a language is infinite iff the peeling of the useful subgraph
   stabilises on a non-empty set (every state of which has a successor inside the set). *)
From Coq Require Import List Arith Bool Lia.
From AV Require Import Base.Util Base.Closure Spec.Lang Spec.FA Model.Decide Model.Product
                       Proofs.FARun Proofs.Product.
Import ListNotations.

Section ListFacts.
  Context {A : Type} (f : A -> bool).
  Lemma filter_len_le l : length (filter f l) <= length l.
  Proof. induction l as [|a l IH]; simpl; [lia|]. destruct (f a); simpl; lia. Qed.

  Lemma filter_len_eq l : length (filter f l) = length l -> filter f l = l.
  Proof.
    induction l as [|a l IH]; simpl; [reflexivity|]. destruct (f a) eqn:E; simpl; intro H.
    - f_equal. apply IH. lia.
    - pose proof (filter_len_le l). lia.
  Qed.
End ListFacts.

(* ---------- peeling a finite graph ---------- *)
Section Peel.
  Variable succs : nat -> list nat.

  Definition pstep (X : list nat) : list nat :=
    filter (fun q => existsb (fun t => memb t X) (succs q)) X.

  Lemma peel_S k X : peel (S k) succs X = peel k succs (pstep X).
  Proof. reflexivity. Qed.

  Lemma pstep_In X q : In q (pstep X) <-> In q X /\ exists t, In t (succs q) /\ In t X.
  Proof.
    unfold pstep. rewrite filter_In, existsb_exists. split.
    - intros [H1 [t [H2 H3]]]. split; [exact H1|]. exists t. split; [exact H2|apply memb_In; exact H3].
    - intros [H1 [t [H2 H3]]]. split; [exact H1|]. exists t. split; [exact H2|apply memb_In; exact H3].
  Qed.

  (* a walk of k edges from q that stays inside X *)
  Fixpoint walk (X : list nat) (k : nat) (q : nat) : Prop :=
    In q X /\ match k with 0 => True | S k' => exists t, In t (succs q) /\ walk X k' t end.

  Lemma walk_0 X q : walk X 0 q <-> In q X.
  Proof. simpl. tauto. Qed.
  Lemma walk_S X k q : walk X (S k) q <-> In q X /\ exists t, In t (succs q) /\ walk X k t.
  Proof. reflexivity. Qed.
  Lemma walk_In X k q : walk X k q -> In q X.
  Proof. destruct k; intros [H _]; exact H. Qed.

  Lemma walk_pstep X k : forall q, walk X (S k) q -> walk (pstep X) k q.
  Proof.
    induction k as [|k IH]; intros q H; apply walk_S in H; destruct H as [Hq [t [Ht Hw]]].
    - apply walk_0. apply pstep_In. split; [exact Hq|]. exists t. split; [exact Ht|].
      apply walk_0 in Hw. exact Hw.
    - apply walk_S. split.
      + apply pstep_In. split; [exact Hq|]. exists t. split; [exact Ht|eapply walk_In; exact Hw].
      + exists t. split; [exact Ht|apply IH; exact Hw].
  Qed.

  Lemma walk_peel k : forall X q, walk X k q -> In q (peel k succs X).
  Proof.
    induction k as [|k IH]; intros X q H.
    - apply walk_0 in H. exact H.
    - rewrite peel_S. apply IH. apply walk_pstep. exact H.
  Qed.

  Lemma walk_le X k : forall j q, j <= k -> walk X k q -> walk X j q.
  Proof.
    induction k as [|k IH]; intros j q Hj H.
    - assert (j = 0) by lia. subst. exact H.
    - destruct j as [|j]; [apply walk_0; eapply walk_In; exact H|].
      apply walk_S in H. destruct H as [Hq [t [Ht Hw]]]. apply walk_S. split; [exact Hq|].
      exists t. split; [exact Ht|]. apply IH; [lia|exact Hw].
  Qed.

  Lemma peel_incl k : forall X q, In q (peel k succs X) -> In q X.
  Proof.
    induction k as [|k IH]; intros X q H; [exact H|].
    rewrite peel_S in H. apply IH in H. apply pstep_In in H. tauto.
  Qed.

  Lemma peel_fix k X : pstep X = X -> peel k succs X = X.
  Proof. intro H. induction k as [|k IH]; [reflexivity|]. rewrite peel_S, H. exact IH. Qed.

  (* after |X| rounds the peeling is empty or has stabilised *)
  Lemma peel_stable k : forall X, length X <= k ->
    peel k succs X = [] \/ pstep (peel k succs X) = peel k succs X.
  Proof.
    induction k as [|k IH]; intros X Hl.
    - destruct X; [left; reflexivity|simpl in Hl; lia].
    - rewrite peel_S. destruct (Nat.eq_dec (length (pstep X)) (length X)) as [E|E].
      + apply filter_len_eq in E. fold (pstep X) in E. right. rewrite E, (peel_fix k X E). exact E.
      + apply IH. pose proof (filter_len_le (fun q => existsb (fun t => memb t X) (succs q)) X) as Hle.
        fold (pstep X) in Hle. lia.
  Qed.
End Peel.

(* ---------- the DFA ---------- *)
Section Finite.
  Variable m : dfa.
  Hypothesis Hv : valid_dfa m = true.

  Definition reachable (q : nat) : Prop := exists u, dfa_run m (Some (d_init m)) u = Some q.
  Definition coacc (q : nat) : Prop := exists z, dfa_acc_from m (Some q) z = true.

  Lemma edge_delta q t : In t (row_targets m q) <-> exists c, d_delta m q c = Some t.
  Proof. unfold row_targets. apply (row_succ m Hv). Qed.

  Lemma reachable_in_states q : reachable q -> In q (d_states m).
  Proof.
    intros [u Hu]. pose proof (dfa_run_ok m Hv u _ (init_ok m Hv)) as Hok. rewrite Hu in Hok. exact Hok.
  Qed.

  Lemma reach_states_ok :
    exists qs, reach_states m = Ok qs /\ NoDup qs /\ forall q, In q qs <-> reachable q.
  Proof.
    unfold reach_states.
    destruct (closure Nat.eqb (fun q => map snd (prow m (Some q))) (S (length (d_states m))) [d_init m])
      as [qs|] eqn:E; simpl.
    - exists qs. split; [reflexivity|]. split.
      + eapply closure_NoDup; [exact eqb_nat_ok|exact E].
      + intro q. unfold reachable. rewrite <- (reach_run m Hv). split.
        * apply (closure_sound _ _ eqb_nat_ok _ _ _ _ E).
        * apply (closure_complete _ _ eqb_nat_ok _ _ _ _ E).
    - exfalso. revert E. apply (closure_fuel _ _ eqb_nat_ok _ (d_states m)).
      + intros x y _ Hy. apply (row_succ m Hv) in Hy. destruct Hy as [c Hc].
        apply (delta_in_states m Hv) in Hc. tauto.
      + intros x [<-|[]]. destruct (valid_dfa_parts m Hv) as (_ & _ & _ & _ & _ & H & _). exact H.
      + lia.
  Qed.

  Definition cosucc (q : nat) : list nat := filter (fun p => memb q (row_targets m p)) (d_states m).

  Lemma cosucc_In q p : In p (cosucc q) <-> In p (d_states m) /\ exists c, d_delta m p c = Some q.
  Proof. unfold cosucc. rewrite filter_In, memb_In, edge_delta. tauto. Qed.

  Lemma coreach_coacc q : reach cosucc (d_finals m) q <-> In q (d_states m) /\ coacc q.
  Proof.
    destruct (valid_dfa_parts m Hv) as (_ & _ & _ & _ & _ & _ & Hfin).
    split.
    - intro H. induction H as [x Hx|x y Hr [Hxs [z Hz]] Hy].
      + split; [apply Hfin; exact Hx|]. exists []. unfold dfa_acc_from. simpl. apply memb_In. exact Hx.
      + apply cosucc_In in Hy. destruct Hy as [Hys [c Hc]]. split; [exact Hys|]. exists (c :: z).
        unfold dfa_acc_from in *. simpl. rewrite Hc. exact Hz.
    - intros [Hq [z Hz]]. revert q Hq Hz. induction z as [|a z IH]; intros q Hq Hz.
      + apply reach_init. unfold dfa_acc_from in Hz. simpl in Hz. apply memb_In. exact Hz.
      + unfold dfa_acc_from in Hz. simpl in Hz. destruct (d_delta m q a) as [t|] eqn:E.
        * eapply reach_step.
          -- apply (IH t); [apply (delta_in_states m Hv) in E; tauto|exact Hz].
          -- apply cosucc_In. split; [exact Hq|exists a; exact E].
        * rewrite dfa_run_None in Hz. discriminate.
  Qed.

  Lemma coreach_states_ok :
    exists co, coreach_states m = Ok co /\ forall q, In q co <-> In q (d_states m) /\ coacc q.
  Proof.
    unfold coreach_states.
    destruct (closure Nat.eqb cosucc (S (length (d_states m))) (d_finals m)) as [co|] eqn:E.
    - unfold cosucc in E. rewrite E. simpl. exists co. split; [reflexivity|]. intro q.
      rewrite <- coreach_coacc. split.
      + apply (closure_sound _ _ eqb_nat_ok _ _ _ _ E).
      + apply (closure_complete _ _ eqb_nat_ok _ _ _ _ E).
    - exfalso. revert E. apply (closure_fuel _ _ eqb_nat_ok _ (d_states m)).
      + intros x y _ Hy. apply cosucc_In in Hy. tauto.
      + destruct (valid_dfa_parts m Hv) as (_ & _ & _ & _ & _ & _ & Hfin). exact Hfin.
      + lia.
  Qed.

  Lemma useful_states_ok :
    exists U, useful_states m = Ok U /\ NoDup U /\ incl U (d_states m) /\
              forall q, In q U <-> reachable q /\ coacc q.
  Proof.
    destruct reach_states_ok as [acc [Ea [Hnd Hacc]]]. destruct coreach_states_ok as [co [Ec Hco]].
    exists (filter (fun q => memb q co) acc). unfold useful_states. rewrite Ea, Ec. simpl.
    split; [reflexivity|]. split; [apply NoDup_filter; exact Hnd|]. split.
    - intros q Hq. apply filter_In in Hq. destruct Hq as [_ Hq]. apply memb_In in Hq. apply Hco in Hq. tauto.
    - intro q. rewrite filter_In, memb_In, Hacc, Hco. split; [tauto|]. intros [Hr Hc].
      split; [exact Hr|]. split; [apply reachable_in_states; exact Hr|exact Hc].
  Qed.

  (* the run of an accepted word is a walk through useful states *)
  Lemma run_walk U : (forall q, In q U <-> reachable q /\ coacc q) ->
    forall w q, reachable q -> dfa_acc_from m (Some q) w = true -> walk (row_targets m) U (length w) q.
  Proof.
    intros HU. induction w as [|a w IH]; intros q Hr Ha.
    - apply walk_0. apply HU. split; [exact Hr|exists []; exact Ha].
    - simpl length. apply walk_S. split.
      + apply HU. split; [exact Hr|exists (a :: w); exact Ha].
      + unfold dfa_acc_from in Ha. simpl in Ha. destruct (d_delta m q a) as [t|] eqn:E.
        * exists t. split; [apply edge_delta; exists a; exact E|]. apply IH; [|exact Ha].
          destruct Hr as [u Hu]. exists (u ++ [a]). rewrite dfa_run_app, Hu. simpl. exact E.
        * rewrite dfa_run_None in Ha. discriminate.
  Qed.

  Theorem isfinite_spec :
    exists b, isfinite_m m = Ok b /\
      (b = true -> forall w, L_dfa m w -> length w < length (d_states m)) /\
      (b = false -> forall n, exists w, L_dfa m w /\ n <= length w).
  Proof.
    destruct useful_states_ok as [U [EU [Hnd [Hincl HU]]]].
    unfold isfinite_m. rewrite EU. simpl.
    pose proof (peel_stable (row_targets m) (length U) U (le_n _)) as Hst.
    pose proof (peel_incl (row_targets m) (length U) U) as HXU.
    destruct (peel (length U) (row_targets m) U) as [|x rest] eqn:Ep.
    - exists true. split; [reflexivity|]. split; [|discriminate]. intros _ w Hw.
      assert (Hlen : length U <= length (d_states m)) by (apply NoDup_incl_length; assumption).
      destruct (le_lt_dec (length U) (length w)) as [Hge|Hlt]; [exfalso|lia].
      assert (Hwk : walk (row_targets m) U (length w) (d_init m)).
      { apply run_walk; [exact HU|exists []; reflexivity|exact Hw]. }
      apply (walk_le _ _ _ (length U)) in Hwk; [|exact Hge]. apply walk_peel in Hwk.
      rewrite Ep in Hwk. destruct Hwk.
    - exists false. split; [reflexivity|]. split; [discriminate|]. intros _ n.
      remember (x :: rest) as X eqn:EX.
      destruct Hst as [H0|Hfix]; [subst X; discriminate|].
      assert (HxX : In x X) by (subst X; left; reflexivity).
      assert (Hlong : forall k q, In q X ->
                 exists w t, length w = k /\ dfa_run m (Some q) w = Some t /\ In t X).
      { induction k as [|k IH]; intros q Hq.
        - exists [], q. repeat split. exact Hq.
        - rewrite <- Hfix in Hq. apply pstep_In in Hq. destruct Hq as [Hq [t [Ht HtX]]].
          apply edge_delta in Ht. destruct Ht as [c Hc]. destruct (IH t HtX) as [w [t' [Hl [Hrun Ht']]]].
          exists (c :: w), t'. split; [simpl; lia|]. split; [simpl; rewrite Hc; exact Hrun|exact Ht']. }
      destruct (Hlong n x HxX) as [w [t [Hl [Hrun Ht]]]].
      apply HXU in HxX. apply HU in HxX. destruct HxX as [[u Hu] _].
      apply HXU in Ht. apply HU in Ht. destruct Ht as [_ [z Hz]].
      exists (u ++ w ++ z). split.
      + unfold L_dfa, dfa_acc, dfa_acc_from. rewrite !dfa_run_app, Hu, Hrun. exact Hz.
      + rewrite !app_length. lia.
  Qed.

  (* the boolean is exactly "the language is finite" (some bound on the length of accepted words) *)
  Corollary isfinite_iff :
    exists b, isfinite_m m = Ok b /\ (b = true <-> exists n, forall w, L_dfa m w -> length w <= n).
  Proof.
    destruct isfinite_spec as [b [E [Ht Hf]]]. exists b. split; [exact E|]. split.
    - intro Hb. exists (length (d_states m)). intros w Hw. specialize (Ht Hb w Hw). lia.
    - intros [n Hn]. destruct b; [reflexivity|]. destruct (Hf eq_refl (S n)) as [w [Hw Hl]].
      specialize (Hn w Hw). lia.
  Qed.
End Finite.
