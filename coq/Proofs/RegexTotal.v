(* Totality of NFA.from_regex on validated expressions: the only remaining failure, the NFA
   constructor's symbol check, cannot happen when the literals belong to the alphabet. *)
From Coq Require Import List Arith Bool Lia.
From AV Require Import Base.Util Spec.Lang Spec.FA Spec.Regex
                       Model.RegexLex Model.RegexParse Model.RegexBuild
                       Proofs.RegexFrag Proofs.RegexProd Proofs.RegexBuild Proofs.RegexParse
                       Proofs.RegexCompile.
Import ListNotations.

Fixpoint re_syms (r : re) : list nat :=
  match r with
  | RSym a => [a]
  | REps | RAny => []
  | RUnion a b | RInter a b | RShuffle a b | RCat a b => re_syms a ++ re_syms b
  | RStar a | RPlus a | ROpt a | RRep a _ _ => re_syms a
  end.

Definition labels_in (P : nat -> Prop) (F : frag) : Prop :=
  forall p a q, In (p, Some a, q) (f_edges F) -> P a.

Lemma labels_in_mono (P Q : nat -> Prop) F : (forall a, P a -> Q a) -> labels_in P F -> labels_in Q F.
Proof. intros H HF p a q Hi. apply H. exact (HF _ _ _ Hi). Qed.

Lemma inter_labels P A B c : labels_in P A -> labels_in P (fst (f_inter A B c)).
Proof.
  intros HA p a q Hi. unfold f_inter in Hi. destruct (inter_reach A B _) as [ps|]; cbn [fst f_edges] in Hi.
  - apply in_flat_map in Hi. destruct Hi as [pr [_ Hi]]. apply in_map_iff in Hi.
    destruct Hi as [[l tt] [Ee Hs]]. cbn [fst snd] in Ee. inversion Ee; subst l. clear Ee.
    unfold inter_succ in Hs. apply in_app_or in Hs. destruct Hs as [Hs|Hs].
    + apply in_map_iff in Hs. destruct Hs as [t [Et _]]. discriminate.
    + apply in_app_or in Hs. destruct Hs as [Hs|Hs].
      * apply in_map_iff in Hs. destruct Hs as [t [Et _]]. discriminate.
      * apply in_flat_map in Hs. destruct Hs as [s [_ Hs]]. apply in_map_iff in Hs.
        destruct Hs as [tt' [Et Hp]]. inversion Et; subst s tt'. clear Et.
        destruct tt as [ta tb]. apply in_prod_iff in Hp. destruct Hp as [Hta _].
        apply (proj1 (targets_In _ _ _ _)) in Hta. exact (HA _ _ _ Hta).
  - destruct Hi.
Qed.

Lemma shuffle_labels P A B c : labels_in P A -> labels_in P B -> labels_in P (fst (f_shuffle A B c)).
Proof.
  intros HA HB p a q Hi. unfold f_shuffle in Hi. cbn [fst f_edges] in Hi.
  apply in_flat_map in Hi. destruct Hi as [pr [_ Hi]]. apply in_map_iff in Hi.
  destruct Hi as [[l tt] [Ee Hs]]. cbn [fst snd] in Ee. inversion Ee; subst l. clear Ee.
  unfold shuffle_succ in Hs. apply in_app_or in Hs. destruct Hs as [Hs|Hs];
    apply in_map_iff in Hs; destruct Hs as [[[x l] y] [Et He]]; unfold e_lab, e_dst in Et; simpl in Et;
    inversion Et; subst l; apply (proj1 (out_edges_In _ _ _)) in He; destruct He as [He _].
  - exact (HA _ _ _ He).
  - exact (HB _ _ _ He).
Qed.

Lemma repeat_labels P c0 c A lo hi : wf c0 A c -> labels_in P A -> labels_in P (fst (f_repeat c0 c A lo hi)).
Proof.
  intros HW HA p a q Hi. apply (proj1 (rep_edge c0 c A lo hi HW p (Some a) q)) in Hi.
  destruct Hi as [[j [p0 [q0 [_ [_ [_ He]]]]]]|[[j [f [_ [_ [_ [El _]]]]]]|[[_ [El _]]|[_ [f [_ [_ [El _]]]]]]]];
    try discriminate. exact (HA _ _ _ He).
Qed.

Theorem build_labels sigma r : forall c,
  labels_in (fun a => In a sigma \/ In a (re_syms r)) (fst (build sigma r c)).
Proof.
  induction r as [|a| |r1 IH1 r2 IH2|r1 IH1 r2 IH2|r1 IH1 r2 IH2|r1 IH1 r2 IH2|r1 IH1|r1 IH1|r1 IH1|r1 IH1 lo hi];
    intro c; cbn [build re_syms].
  - intros p a q [].
  - intros p x q [H|[]]. inversion H; subst. right. left. reflexivity.
  - intros p x q H. simpl in H. apply in_map_iff in H. destruct H as [y [H Hy]]. inversion H; subst. left. exact Hy.
  - pose proof (build_wf sigma r1 c) as W1. specialize (IH1 c). destruct (build sigma r1 c) as [A c1].
    pose proof (build_wf sigma r2 c1) as W2. specialize (IH2 c1). destruct (build sigma r2 c1) as [B c2].
    cbn [fst snd] in *. intros p a q Hi. apply (proj1 (union_edge c1 c2 A B W2 p (Some a) q)) in Hi.
    destruct Hi as [Hi|[Hi|[_ [Hi _]]]]; [| |discriminate].
    + destruct (IH1 _ _ _ Hi) as [H|H]; [left; exact H|right; apply in_or_app; left; exact H].
    + destruct (IH2 _ _ _ Hi) as [H|H]; [left; exact H|right; apply in_or_app; right; exact H].
  - specialize (IH1 c). destruct (build sigma r1 c) as [A c1].
    specialize (IH2 c1). destruct (build sigma r2 c1) as [B c2]. cbn [fst snd] in *.
    apply inter_labels. eapply labels_in_mono; [|exact IH1].
    intros a [H|H]; [left; exact H|right; apply in_or_app; left; exact H].
  - specialize (IH1 c). destruct (build sigma r1 c) as [A c1].
    specialize (IH2 c1). destruct (build sigma r2 c1) as [B c2]. cbn [fst snd] in *.
    apply shuffle_labels.
    + eapply labels_in_mono; [|exact IH1]. intros a [H|H]; [left; exact H|right; apply in_or_app; left; exact H].
    + eapply labels_in_mono; [|exact IH2]. intros a [H|H]; [left; exact H|right; apply in_or_app; right; exact H].
  - specialize (IH1 c). destruct (build sigma r1 c) as [A c1].
    specialize (IH2 c1). destruct (build sigma r2 c1) as [B c2]. cbn [fst snd] in *.
    intros p a q Hi. apply (proj1 (concat_edge A B p (Some a) q)) in Hi.
    destruct Hi as [Hi|[Hi|[_ [Hi _]]]]; [| |discriminate].
    + destruct (IH1 _ _ _ Hi) as [H|H]; [left; exact H|right; apply in_or_app; left; exact H].
    + destruct (IH2 _ _ _ Hi) as [H|H]; [left; exact H|right; apply in_or_app; right; exact H].
  - pose proof (build_wf sigma r1 c) as W1. specialize (IH1 c). destruct (build sigma r1 c) as [A c1].
    exact (repeat_labels _ _ _ _ 0 None W1 IH1).
  - pose proof (build_wf sigma r1 c) as W1. specialize (IH1 c). destruct (build sigma r1 c) as [A c1].
    exact (repeat_labels _ _ _ _ 1 None W1 IH1).
  - pose proof (build_wf sigma r1 c) as W1. specialize (IH1 c). destruct (build sigma r1 c) as [A c1].
    exact (repeat_labels _ _ _ _ 0 (Some 1) W1 IH1).
  - pose proof (build_wf sigma r1 c) as W1. specialize (IH1 c). destruct (build sigma r1 c) as [A c1].
    exact (repeat_labels _ _ _ _ lo hi W1 IH1).
Qed.

Theorem compile_re_total sigma r : (forall a, In a (re_syms r) -> In a sigma) ->
  exists m, compile_re sigma r = Ok m.
Proof.
  intro H. unfold compile_re.
  assert (Hok : symbols_ok sigma (fst (build sigma r 0)) = true).
  { apply symbols_ok_spec. intros p a q Hi. destruct (build_labels sigma r 0 _ _ _ Hi) as [Ha|Ha]; [exact Ha|exact (H _ Ha)]. }
  rewrite Hok. eexists. reflexivity.
Qed.

(* ---- the literals of the parsed expression are characters of the string ---- *)
Definition tok_syms (ts : list token) : list nat :=
  flat_map (fun t => match t with TSym a => [a] | _ => [] end) ts.

Lemma tok_syms_app a b : tok_syms (a ++ b) = tok_syms a ++ tok_syms b.
Proof. unfold tok_syms. apply flat_map_app. Qed.

Lemma tok_syms_rev a x : In x (tok_syms (rev a)) <-> In x (tok_syms a).
Proof.
  unfold tok_syms. rewrite !in_flat_map. split; intros [t [Ht Hx]]; exists t; (split; [|exact Hx]).
  - apply in_rev. exact Ht.
  - apply in_rev in Ht. exact Ht.
Qed.

Lemma single_token_nosym c t : single_token c = Some t -> tok_syms [t] = [].
Proof.
  intro H. destruct c as [|[|[|[|[|[|[|[|[|[|[|c]]]]]]]]]]]; simpl in H; try discriminate; inversion H; reflexivity.
Qed.

Lemma mk_quant_nosym g1 g2 t : mk_quant g1 g2 = Ok t -> tok_syms [t] = [].
Proof.
  unfold mk_quant. destruct (parse_bound g1) as [lo|]; [|discriminate]. simpl.
  destruct (parse_bound g2) as [[h|]|]; simpl; try discriminate.
  - destruct (Nat.ltb h _); [discriminate|]. intro H. inversion H. reflexivity.
  - intro H. inversion H. reflexivity.
Qed.

Lemma lex_aux_syms cs : forall skip ts, lex_aux skip cs = Ok ts -> incl (tok_syms ts) cs.
Proof.
  induction cs as [|c r IH]; intros skip ts H; simpl in H.
  - inversion H. intros x [].
  - destruct skip as [|k].
    + assert (Hcons : forall t sk, cons_res t (lex_aux sk r) = Ok ts ->
                (tok_syms [t] = [] \/ tok_syms [t] = [c]) -> incl (tok_syms ts) (c :: r)).
      { intros t sk Hc Ht. unfold cons_res in Hc. destruct (lex_aux sk r) as [ts'|] eqn:E; [|discriminate].
        simpl in Hc. inversion Hc; subst ts. change (t :: ts') with ([t] ++ ts'). rewrite tok_syms_app.
        intros x Hx. apply in_app_or in Hx. destruct Hx as [Hx|Hx].
        - destruct Ht as [Ht|Ht]; rewrite Ht in Hx; [destruct Hx|]. destruct Hx as [<-|[]]. left. reflexivity.
        - right. exact (IH _ _ E x Hx). }
      destruct (single_token c) as [t|] eqn:Es.
      * apply (Hcons t 0 H). left. exact (single_token_nosym _ _ Es).
      * destruct (Nat.eqb c c_lbrace).
        -- destruct (quant_match r) as [[g1 g2]|].
           ++ destruct (mk_quant g1 g2) as [t|] eqn:Eq; [|discriminate].
              apply (Hcons t _ H). left. exact (mk_quant_nosym _ _ _ Eq).
           ++ apply (Hcons (TSym c) 0 H). right. reflexivity.
        -- destruct (is_blank c).
           ++ intros x Hx. right. exact (IH _ _ H x Hx).
           ++ destruct (is_ws c); [discriminate|]. apply (Hcons (TSym c) 0 H). right. reflexivity.
    + intros x Hx. right. exact (IH _ _ H x Hx).
Qed.

Lemma between_nosym a b : tok_syms (between a b) = [].
Proof.
  unfold between. destruct (needs_concat _ _), (needs_empty _ _); reflexivity.
Qed.

Lemma add_concat_syms ts : tok_syms (add_concat ts) = tok_syms ts.
Proof.
  induction ts as [|a r IH]; [reflexivity|]. destruct r as [|b r'].
  - reflexivity.
  - change (add_concat (a :: b :: r')) with (a :: between a b ++ add_concat (b :: r')).
    change (a :: between a b ++ add_concat (b :: r')) with ([a] ++ between a b ++ add_concat (b :: r')).
    rewrite !tok_syms_app, between_nosym, IH. change (a :: b :: r') with ([a] ++ b :: r').
    rewrite tok_syms_app. reflexivity.
Qed.

Lemma pop_until_lp_syms stack out st out' x :
  pop_until_lp stack out = (st, out') ->
  In x (tok_syms st ++ tok_syms out') -> In x (tok_syms stack ++ tok_syms out).
Proof.
  revert out. induction stack as [|t s IH]; intros out H Hx; simpl in H.
  - inversion H; subst. exact Hx.
  - destruct (is_lparen t).
    + inversion H; subst. exact Hx.
    + specialize (IH _ H Hx). change (t :: s) with ([t] ++ s). change (t :: out) with ([t] ++ out) in IH.
      rewrite !tok_syms_app in *. rewrite !in_app_iff in *. tauto.
Qed.

Lemma pop_ops_syms c stack out st out' x :
  pop_ops c stack out = (st, out') ->
  In x (tok_syms st ++ tok_syms out') -> In x (tok_syms stack ++ tok_syms out).
Proof.
  revert out. induction stack as [|t s IH]; intros out H Hx; simpl in H.
  - inversion H; subst. exact Hx.
  - destruct (is_lparen t).
    + inversion H; subst. exact Hx.
    + destruct (Nat.leb (prec c) (prec t)).
      * specialize (IH _ H Hx). change (t :: s) with ([t] ++ s). change (t :: out) with ([t] ++ out) in IH.
        rewrite !tok_syms_app in *. rewrite !in_app_iff in *. tauto.
      * inversion H; subst. exact Hx.
Qed.

Lemma sy_syms ts : forall stack out res x, sy ts stack out = Ok res -> In x (tok_syms res) ->
  In x (tok_syms ts ++ tok_syms stack ++ tok_syms out).
Proof.
  induction ts as [|c r IH]; intros stack out res x H Hx; simpl in H.
  - inversion H; subst. rewrite tok_syms_app in Hx. apply in_app_or in Hx. simpl.
    apply in_or_app. destruct Hx as [Hx|Hx]; [right; apply (proj1 (tok_syms_rev out x)); exact Hx|left; exact Hx].
  - change (c :: r) with ([c] ++ r). rewrite tok_syms_app.
    destruct (tclass_of c) eqn:Ec.
    + destruct (pop_ops c stack out) as [st out'] eqn:Ep. specialize (IH _ _ _ x H Hx).
      change (c :: st) with ([c] ++ st) in IH. rewrite tok_syms_app in IH.
      rewrite !in_app_iff in IH. rewrite !in_app_iff.
      destruct IH as [IH|[[IH|IH]|IH]]; try tauto;
        pose proof (pop_ops_syms c stack out st out' x Ep) as Hq; rewrite !in_app_iff in Hq; tauto.
    + destruct (pop_ops c stack out) as [st out'] eqn:Ep. specialize (IH _ _ _ x H Hx).
      change (c :: st) with ([c] ++ st) in IH. rewrite tok_syms_app in IH.
      rewrite !in_app_iff in IH. rewrite !in_app_iff.
      destruct IH as [IH|[[IH|IH]|IH]]; try tauto;
        pose proof (pop_ops_syms c stack out st out' x Ep) as Hq; rewrite !in_app_iff in Hq; tauto.
    + specialize (IH _ _ _ x H Hx). change (c :: out) with ([c] ++ out) in IH. rewrite tok_syms_app in IH.
      rewrite !in_app_iff in *. tauto.
    + specialize (IH _ _ _ x H Hx). change (c :: stack) with ([c] ++ stack) in IH. rewrite tok_syms_app in IH.
      rewrite !in_app_iff in *. tauto.
    + destruct (pop_until_lp stack out) as [st out'] eqn:Ep. destruct st as [|t st']; [discriminate|].
      specialize (IH _ _ _ x H Hx).
      pose proof (pop_until_lp_syms stack out (t :: st') out' x Ep) as Hq.
      change (t :: st') with ([t] ++ st') in Hq. rewrite !tok_syms_app in Hq.
      rewrite !in_app_iff in *. tauto.
Qed.

Lemma ev_syms ts : forall stack r x, ev ts stack = Ok r -> In x (re_syms r) ->
  In x (tok_syms ts) \/ In x (flat_map re_syms stack).
Proof.
  induction ts as [|t rest IH]; intros stack r x H Hx; simpl in H.
  - destruct (rev stack) as [|y l] eqn:Er; [discriminate|]. inversion H; subst y.
    right. apply in_flat_map. exists r. split; [|exact Hx]. apply in_rev. rewrite Er. left. reflexivity.
  - change (t :: rest) with ([t] ++ rest). rewrite tok_syms_app, in_app_iff.
    destruct (tclass_of t) eqn:Ec.
    + destruct stack as [|y [|z s]]; try discriminate.
      destruct (IH _ _ x H Hx) as [H1|H1]; [tauto|]. right. simpl in H1. simpl.
      assert (Hn : forall u v, In x (re_syms (infix_node t u v)) -> In x (re_syms u ++ re_syms v)).
      { intros u v. destruct t; simpl; auto. }
      rewrite !in_app_iff in *. destruct H1 as [H1|H1]; [|tauto]. apply Hn in H1. apply in_app_or in H1. tauto.
    + destruct stack as [|y s]; try discriminate.
      destruct (IH _ _ x H Hx) as [H1|H1]; [tauto|]. right. simpl in H1. simpl.
      assert (Hn : forall u, In x (re_syms (postfix_node t u)) -> In x (re_syms u)).
      { intros u. destruct t; simpl; auto. }
      rewrite !in_app_iff in *. destruct H1 as [H1|H1]; [|tauto]. left. exact (Hn _ H1).
    + destruct (IH _ _ x H Hx) as [H1|H1]; [tauto|]. simpl in H1. apply in_app_or in H1.
      destruct H1 as [H1|H1]; [|tauto]. left. left.
      destruct t; try discriminate Ec; simpl in H1; [|destruct H1|destruct H1].
      simpl. destruct H1 as [<-|[]]. left. reflexivity.
    + discriminate.
    + discriminate.
Qed.

Theorem parse_syms cs r : parse cs = Ok r -> incl (re_syms r) cs.
Proof.
  unfold parse. destruct cs as [|c cs']; [intro H; inversion H; intros x []|]. set (s := c :: cs').
  destruct (lex s) as [ts|] eqn:El; simpl; [|discriminate]. destruct ts as [|t ts'].
  - intro H. inversion H. intros x [].
  - unfold parse_tokens. destruct (validate_tokens (t :: ts')) as [u|]; cbn [bind]; [|discriminate].
    destruct (to_postfix (add_concat (t :: ts'))) as [pf|] eqn:Ep; cbn [bind]; [|discriminate].
    intros He x Hx. unfold eval_postfix in He. destruct (ev_syms _ _ _ x He Hx) as [H1|[]].
    unfold to_postfix in Ep. pose proof (sy_syms _ _ _ _ x Ep H1) as H2.
    apply in_app_or in H2. destruct H2 as [H2|H2]; [|simpl in H2; destruct H2].
    rewrite add_concat_syms in H2. exact (lex_aux_syms s 0 _ El x H2).
Qed.

(* regex.validate accepts => NFA.from_regex with the derived alphabet succeeds, provided the
   expression has no lone brace literal (codes 11, 12: outside the documented syntax) *)
Theorem validated_from_regex_ok cs : validate cs = Ok tt ->
  exists r, parse cs = Ok r /\
    ((forall a, In a (re_syms r) -> is_reserved a = false) -> exists m, compile cs None = Ok m) /\
    (forall sigma, existsb is_reserved sigma = false -> (forall a, In a (re_syms r) -> In a sigma) ->
                   exists m, compile cs (Some sigma) = Ok m).
Proof.
  intro Hv. destruct (validated_compiles cs Hv) as [r Hr]. exists r. split; [exact Hr|]. split.
  - intro Hres. unfold compile. simpl. rewrite Hr. simpl. apply compile_re_total.
    intros a Ha. unfold default_alphabet. apply set_of_In. apply filter_In.
    split; [exact (parse_syms cs r Hr a Ha)|]. rewrite (Hres a Ha). reflexivity.
  - intros sigma Hs Hin. unfold compile, alphabet_of. rewrite Hs. simpl. rewrite Hr. simpl.
    apply compile_re_total. exact Hin.
Qed.
