(* Proofs about the regex front end (Model/RegexLex.v, Model/RegexParse.v):
   (A) every validated token list compiles (no crash in shunting-yard / postfix evaluation);
   (B) validation errors are exactly the documented exceptions and parse agrees with validate;
   (C) parse (print r) = r for the minimal-parenthesis printing: precedence and associativity;
   (D) blanks between tokens are ignored by the lexer. *)
From Coq Require Import List Arith Bool Lia.
From AV Require Import Base.Util Spec.Regex Model.RegexLex Model.RegexParse.
Import ListNotations.

(* ================================================================== *)
(* Postfix evaluation without the final stack[0]                       *)
(* ================================================================== *)

Fixpoint evs (ts : list token) (s : list re) : res (list re) :=
  match ts with
  | [] => Ok s
  | t :: r =>
    match tclass_of t with
    | KInfix => match s with
                | y :: x :: s' => evs r (infix_node t x y :: s')
                | _ => Err IndexErr
                end
    | KPostfix => match s with
                  | x :: s' => evs r (postfix_node t x :: s')
                  | [] => Err IndexErr
                  end
    | KLit => evs r (lit_node t :: s)
    | _ => regex_err
    end
  end.

Definition final (s : list re) : res re :=
  match rev s with x :: _ => Ok x | [] => Err IndexErr end.

Lemma ev_evs : forall ts s, ev ts s = bind (evs ts s) final.
Proof.
  induction ts as [|t r IH]; intro s; simpl; [reflexivity|].
  destruct (tclass_of t); try reflexivity.
  - destruct s as [|y [|x s']]; try reflexivity. apply IH.
  - destruct s as [|x s']; try reflexivity. apply IH.
  - apply IH.
Qed.

Lemma evs_app : forall a b s, evs (a ++ b) s = bind (evs a s) (evs b).
Proof.
  induction a as [|t a IH]; intros b s; simpl; [reflexivity|].
  destruct (tclass_of t); try reflexivity.
  - destruct s as [|y [|x s']]; try reflexivity. apply IH.
  - destruct s as [|x s']; try reflexivity. apply IH.
  - apply IH.
Qed.

(* ================================================================== *)
(* (A) validated token lists compile                                   *)
(* ================================================================== *)

(* Two-state acceptor on the token list with concats inserted:
   h = false "expecting an operand", h = true "have an operand"; d = open parentheses. *)
Definition astep (k : tclass) (h : bool) (d : nat) : option (bool * nat) :=
  match k, h with
  | KLit, false => Some (true, d)
  | KLParen, false => Some (false, S d)
  | KPostfix, true => Some (true, d)
  | KInfix, true => Some (false, d)
  | KRParen, true => match d with S d' => Some (true, d') | 0 => None end
  | _, _ => None
  end.

Fixpoint acc (h : bool) (d : nat) (ts : list token) : bool :=
  match ts with
  | [] => h && Nat.eqb d 0
  | t :: r => match astep (tclass_of t) h d with
              | Some (h', d') => acc h' d' r
              | None => false
              end
  end.

(* the acceptor state once [p] has been consumed, in terms of the (lagging) counter of vscan *)
Definition after (p : token) (cnt : nat) : option (bool * nat) :=
  match tclass_of p with
  | KLParen => Some (false, S cnt)
  | KRParen => match cnt with S c => Some (true, c) | 0 => None end
  | KInfix => Some (false, cnt)
  | _ => Some (true, cnt)
  end.

Definition rest_ac (p : token) (r : list token) : list token :=
  match r with
  | [] => []
  | b :: _ => between p b ++ add_concat r
  end.

Lemma add_concat_cons : forall p r, add_concat (p :: r) = p :: rest_ac p r.
Proof. intros p [|b r]; reflexivity. Qed.

Ltac vfin :=
  repeat match goal with
  | H : Ok _ = Ok _ |- _ => injection H as H; subst
  | H : Some _ = Some _ |- _ => injection H as <- <-
  | H : match ?x with 0 => _ | S _ => _ end = _ |- _ => destruct x; [discriminate|]
  end.

Lemma vscan_acc : forall r p cnt,
  vscan (Some p) r cnt = Ok tt ->
  exists h d, after p cnt = Some (h, d) /\ acc h d (rest_ac p r) = true.
Proof.
  induction r as [|b r IH]; intros p cnt Hv.
  - simpl in Hv. unfold after. simpl. unfold vstep, regex_err in Hv.
    destruct (tclass_of p); simpl in Hv; try discriminate.
    + destruct cnt; [|discriminate]. exists true, 0. auto.
    + destruct cnt; [|discriminate]. exists true, 0. auto.
    + destruct cnt as [|[|c]]; try discriminate. exists true, 0. auto.
  - change (vscan (Some p) (b :: r) cnt)
      with (bind (vstep (Some p) (Some b) cnt) (fun c => vscan (Some b) r c)) in Hv.
    destruct (vstep (Some p) (Some b) cnt) as [c|e] eqn:Hs; [|discriminate].
    simpl in Hv. apply IH in Hv. destruct Hv as [h' [d' [Ha Hacc]]].
    unfold rest_ac at 1. rewrite add_concat_cons.
    unfold between. unfold after in *. unfold vstep, regex_err in Hs.
    destruct (tclass_of p) eqn:Kp; destruct (tclass_of b) eqn:Kb; simpl in Hs; try discriminate;
      simpl; rewrite ?Kb; simpl.
    all: vfin.
    all: eexists; eexists; (split; [reflexivity|]); simpl; rewrite ?Kb; simpl; exact Hacc.
Qed.

Lemma is_lparen_class : forall t,
  is_lparen t = match tclass_of t with KLParen => true | _ => false end.
Proof. destruct t; reflexivity. Qed.

Fixpoint ninfix (st : list token) : nat :=
  match st with
  | [] => 0
  | t :: s => (match tclass_of t with KInfix => 1 | _ => 0 end) + ninfix s
  end.

Fixpoint nlp (st : list token) : nat :=
  match st with
  | [] => 0
  | t :: s => (if is_lparen t then 1 else 0) + nlp s
  end.

Definition stk (t : token) : Prop :=
  match tclass_of t with KInfix | KPostfix | KLParen => True | _ => False end.

Definition nolp (t : token) : Prop := is_lparen t = false.

Lemma ninfix_app : forall a b, ninfix (a ++ b) = ninfix a + ninfix b.
Proof. induction a as [|t a IH]; intro b; simpl; [reflexivity|]. rewrite IH. lia. Qed.

Lemma nlp_app : forall a b, nlp (a ++ b) = nlp a + nlp b.
Proof. induction a as [|t a IH]; intro b; simpl; [reflexivity|]. rewrite IH. lia. Qed.

Lemma nlp_nolp : forall a, Forall nolp a -> nlp a = 0.
Proof.
  induction a as [|t a IH]; intro H; simpl; [reflexivity|].
  inversion H as [|? ? Ht Ha]; subst. unfold nolp in Ht. rewrite Ht. simpl. auto.
Qed.

Lemma nolp_nlp : forall a, nlp a = 0 -> Forall nolp a.
Proof.
  induction a as [|t a IH]; intro H; [constructor|]. simpl in H.
  destruct (is_lparen t) eqn:E; [simpl in H; discriminate|].
  constructor; [exact E|apply IH; exact H].
Qed.

Lemma pop_ops_spec : forall c stack out st out',
  pop_ops c stack out = (st, out') ->
  exists ops, stack = ops ++ st /\ out' = rev ops ++ out /\ Forall nolp ops.
Proof.
  intros c. induction stack as [|t s IH]; intros out st out' H; simpl in H.
  - injection H as <- <-. exists []. auto.
  - destruct (is_lparen t) eqn:El.
    + injection H as <- <-. exists []. auto.
    + destruct (Nat.leb (prec c) (prec t)).
      * apply IH in H. destruct H as [ops [H1 [H2 H3]]]. exists (t :: ops). subst.
        split; [reflexivity|]. split; [simpl; rewrite <- app_assoc; reflexivity|].
        constructor; assumption.
      * injection H as <- <-. exists []. auto.
Qed.

Lemma pop_until_lp_spec : forall stack out st out',
  pop_until_lp stack out = (st, out') ->
  exists ops, stack = ops ++ st /\ out' = rev ops ++ out /\ Forall nolp ops /\
              (st = [] \/ exists st', st = TLParen :: st').
Proof.
  induction stack as [|t s IH]; intros out st out' H; simpl in H.
  - injection H as <- <-. exists []. auto.
  - destruct (is_lparen t) eqn:El.
    + injection H as <- <-. exists []. repeat split; auto. right. exists s.
      destruct t; try discriminate. reflexivity.
    + apply IH in H. destruct H as [ops [H1 [H2 [H3 H4]]]]. exists (t :: ops). subst.
      split; [reflexivity|]. split; [simpl; rewrite <- app_assoc; reflexivity|].
      split; [constructor; assumption|exact H4].
Qed.

Lemma evs_ops : forall ops V,
  Forall nolp ops -> Forall stk ops -> ninfix ops + 1 <= length V ->
  exists V', evs ops V = Ok V' /\ length V' + ninfix ops = length V.
Proof.
  induction ops as [|t ops IH]; intros V Hn Hs Hl.
  - exists V. simpl. auto.
  - inversion Hn as [|? ? Hnt Hno]; subst. inversion Hs as [|? ? Hst Hso]; subst.
    unfold nolp in Hnt. rewrite is_lparen_class in Hnt. unfold stk in Hst.
    simpl in Hl. simpl. destruct (tclass_of t) eqn:K; try contradiction; try discriminate.
    + destruct V as [|y [|x V]]; simpl in Hl; try lia.
      destruct (IH (infix_node t x y :: V) Hno Hso) as [V' [H1 H2]]; [simpl; lia|].
      exists V'. split; [exact H1|]. simpl in *. lia.
    + destruct V as [|x V]; simpl in Hl; try lia.
      destruct (IH (postfix_node t x :: V) Hno Hso) as [V' [H1 H2]]; [simpl; lia|].
      exists V'. split; [exact H1|]. simpl in *. lia.
Qed.

Lemma Forall_app_l {A} (P : A -> Prop) a b : Forall P (a ++ b) -> Forall P a.
Proof. intro H. apply Forall_app in H. tauto. Qed.

Lemma Forall_app_r {A} (P : A -> Prop) a b : Forall P (a ++ b) -> Forall P b.
Proof. intro H. apply Forall_app in H. tauto. Qed.

Lemma sy_acc : forall ts h d stack out V,
  acc h d ts = true ->
  Forall stk stack -> nlp stack = d ->
  evs (rev out) [] = Ok V ->
  length V = ninfix stack + (if h then 1 else 0) ->
  exists pf V', sy ts stack out = Ok pf /\ evs pf [] = Ok V' /\ length V' = 1.
Proof.
  induction ts as [|t r IH]; intros h d stack out V Hacc Hstk Hlp Hev Hlen.
  - simpl in Hacc. apply andb_true_iff in Hacc. destruct Hacc as [Hh Hd].
    apply Nat.eqb_eq in Hd. subst h. simpl.
    destruct (evs_ops stack V) as [V' [H1 H2]].
    + apply nolp_nlp. lia.
    + exact Hstk.
    + lia.
    + exists (rev out ++ stack), V'. split; [reflexivity|].
      rewrite evs_app, Hev. simpl. split; [exact H1|lia].
  - simpl in Hacc. simpl.
    destruct (tclass_of t) eqn:K; destruct h; simpl in Hacc; try discriminate.
    + (* infix in H *)
      destruct (pop_ops t stack out) as [st out'] eqn:Hp.
      apply pop_ops_spec in Hp. destruct Hp as [ops [E1 [E2 Hno]]]. subst stack out'.
      rewrite ninfix_app in Hlen. rewrite nlp_app, (nlp_nolp _ Hno) in Hlp.
      destruct (evs_ops ops V Hno (Forall_app_l _ _ _ Hstk)) as [V1 [H1 H2]]; [lia|].
      apply (IH false d (t :: st) (rev ops ++ out) V1 Hacc).
      * constructor; [unfold stk; rewrite K; exact I|exact (Forall_app_r _ _ _ Hstk)].
      * simpl. rewrite is_lparen_class, K. simpl. lia.
      * rewrite rev_app_distr, rev_involutive, evs_app, Hev. exact H1.
      * simpl. rewrite K. lia.
    + (* postfix in H *)
      destruct (pop_ops t stack out) as [st out'] eqn:Hp.
      apply pop_ops_spec in Hp. destruct Hp as [ops [E1 [E2 Hno]]]. subst stack out'.
      rewrite ninfix_app in Hlen. rewrite nlp_app, (nlp_nolp _ Hno) in Hlp.
      destruct (evs_ops ops V Hno (Forall_app_l _ _ _ Hstk)) as [V1 [H1 H2]]; [lia|].
      apply (IH true d (t :: st) (rev ops ++ out) V1 Hacc).
      * constructor; [unfold stk; rewrite K; exact I|exact (Forall_app_r _ _ _ Hstk)].
      * simpl. rewrite is_lparen_class, K. simpl. lia.
      * rewrite rev_app_distr, rev_involutive, evs_app, Hev. exact H1.
      * simpl. rewrite K. lia.
    + (* literal in E *)
      apply (IH true d stack (t :: out) (lit_node t :: V) Hacc Hstk Hlp).
      * simpl. rewrite evs_app, Hev. simpl. rewrite K. reflexivity.
      * simpl. lia.
    + (* left parenthesis in E *)
      apply (IH false (S d) (t :: stack) out V Hacc).
      * constructor; [unfold stk; rewrite K; exact I|exact Hstk].
      * simpl. rewrite is_lparen_class, K. simpl. lia.
      * exact Hev.
      * simpl. rewrite K. lia.
    + (* right parenthesis in H *)
      destruct d as [|d']; [discriminate|].
      destruct (pop_until_lp stack out) as [st out'] eqn:Hp.
      apply pop_until_lp_spec in Hp. destruct Hp as [ops [E1 [E2 [Hno Hst]]]]. subst stack out'.
      rewrite ninfix_app in Hlen. rewrite nlp_app, (nlp_nolp _ Hno) in Hlp.
      destruct Hst as [->|[st' ->]]; [simpl in Hlp; discriminate|].
      destruct (evs_ops ops V Hno (Forall_app_l _ _ _ Hstk)) as [V1 [H1 H2]]; [lia|].
      apply (IH true d' st' (rev ops ++ out) V1 Hacc).
      * pose proof (Forall_app_r _ _ _ Hstk) as Hr. inversion Hr; assumption.
      * simpl in Hlp. lia.
      * rewrite rev_app_distr, rev_involutive, evs_app, Hev. exact H1.
      * simpl in Hlen. lia.
Qed.

Theorem validated_compiles_tokens : forall ts,
  ts <> [] -> validate_tokens ts = Ok tt -> exists r, parse_tokens ts = Ok r.
Proof.
  intros ts Hne Hv. unfold parse_tokens. rewrite Hv. simpl.
  destruct ts as [|p r]; [contradiction|].
  unfold validate_tokens in Hv. simpl in Hv.
  destruct (is_op (tclass_of p)) eqn:Hop; [discriminate|]. simpl in Hv.
  apply vscan_acc in Hv. destruct Hv as [h [d [Ha Hacc]]].
  assert (Hacc0 : acc false 0 (add_concat (p :: r)) = true).
  { rewrite add_concat_cons. simpl. unfold after in Ha.
    destruct (tclass_of p); simpl in Hop; try discriminate; simpl.
    - injection Ha as <- <-. exact Hacc.
    - injection Ha as <- <-. exact Hacc. }
  destruct (sy_acc (add_concat (p :: r)) false 0 [] [] [] Hacc0) as [pf [V' [H1 [H2 H3]]]];
    try reflexivity; [constructor|].
  unfold to_postfix. rewrite H1. simpl. unfold eval_postfix. rewrite ev_evs, H2. simpl.
  destruct V' as [|x [|y V']]; simpl in H3; try discriminate.
  exists x. reflexivity.
Qed.
Print Assumptions validated_compiles_tokens.

(* ================================================================== *)
(* (B) error kinds; parse and validate agree                           *)
(* ================================================================== *)

Lemma vstep_err : forall prev curr cnt e, vstep prev curr cnt = Err e -> e = Invalid 10.
Proof.
  intros prev curr cnt e H. unfold vstep, regex_err in H.
  destruct prev as [p|].
  - destruct (tclass_of p).
    + destruct curr as [t|]; [destruct (tclass_of t)|]; congruence.
    + discriminate.
    + discriminate.
    + destruct curr as [t|]; [destruct (is_op (tclass_of t))|]; congruence.
    + destruct cnt; congruence.
  - destruct curr as [t|]; [destruct (is_op (tclass_of t))|]; congruence.
Qed.

Lemma vscan_err : forall ts prev cnt e, vscan prev ts cnt = Err e -> e = Invalid 10.
Proof.
  induction ts as [|t r IH]; intros prev cnt e H.
  - simpl in H. destruct (vstep prev None cnt) as [c|e'] eqn:Hs.
    + simpl in H. destruct c; unfold regex_err in H; congruence.
    + simpl in H. apply vstep_err in Hs. congruence.
  - change (vscan prev (t :: r) cnt)
      with (bind (vstep prev (Some t) cnt) (fun c => vscan (Some t) r c)) in H.
    destruct (vstep prev (Some t) cnt) as [c|e'] eqn:Hs.
    + simpl in H. eapply IH. exact H.
    + simpl in H. apply vstep_err in Hs. congruence.
Qed.

Theorem validate_tokens_err_kind : forall ts e, validate_tokens ts = Err e -> e = Invalid 10.
Proof. intros ts e H. eapply vscan_err. exact H. Qed.
Print Assumptions validate_tokens_err_kind.

Definition lex_err_kind (e : err) : Prop := e = Invalid 10 \/ e = Invalid 11 \/ e = ValueErr.

Lemma parse_bound_err : forall g e, parse_bound g = Err e -> e = ValueErr.
Proof.
  intros g e H. unfold parse_bound in H.
  destruct (strip g) as [|c' s'] eqn:Es; [discriminate|].
  unfold parse_int in H. rewrite Es in H.
  destruct (forallb is_digit (c' :: s')); simpl in H; congruence.
Qed.

Lemma mk_quant_err : forall g1 g2 e, mk_quant g1 g2 = Err e -> e = Invalid 10 \/ e = ValueErr.
Proof.
  intros g1 g2 e H. unfold mk_quant in H.
  destruct (parse_bound g1) as [lo|e1] eqn:H1.
  - destruct (parse_bound g2) as [hi|e2] eqn:H2.
    + simpl in H. destruct hi as [h|]; [|discriminate].
      destruct (Nat.ltb h _); [left; congruence|discriminate].
    + simpl in H. apply parse_bound_err in H2. right. congruence.
  - simpl in H. apply parse_bound_err in H1. right. congruence.
Qed.

Lemma cons_res_err : forall t r e, cons_res t r = Err e -> r = Err e.
Proof. intros t [ts|e'] e H; simpl in H; congruence. Qed.

Lemma lex_aux_err : forall cs k e, lex_aux k cs = Err e -> lex_err_kind e.
Proof.
  induction cs as [|c r IH]; intros k e H; simpl in H; [discriminate|].
  destruct k as [|k]; [|eapply IH; exact H].
  destruct (single_token c) as [t|].
  - apply cons_res_err in H. eapply IH. exact H.
  - destruct (Nat.eqb c c_lbrace).
    + destruct (quant_match r) as [[g1 g2]|].
      * destruct (mk_quant g1 g2) as [t|e'] eqn:Hq.
        -- apply cons_res_err in H. eapply IH. exact H.
        -- apply mk_quant_err in Hq. injection H as <-. unfold lex_err_kind. tauto.
      * apply cons_res_err in H. eapply IH. exact H.
    + destruct (is_blank c); [eapply IH; exact H|].
      destruct (is_ws c).
      * injection H as <-. unfold lex_err_kind. tauto.
      * apply cons_res_err in H. eapply IH. exact H.
Qed.

Lemma validate_tokens_nil : validate_tokens [] = Ok tt.
Proof. reflexivity. Qed.

Theorem invalid_is_regex_error : forall cs e,
  validate cs = Err e ->
  parse cs = Err e /\ (e = Invalid 10 \/ e = Invalid 11 \/ e = ValueErr).
Proof.
  intros cs e H. unfold validate in H. unfold parse.
  destruct cs as [|c cs]; [discriminate|].
  destruct (lex (c :: cs)) as [ts|e'] eqn:Hl; simpl in H.
  - simpl. destruct ts as [|t ts]; [discriminate|].
    unfold parse_tokens. rewrite H. simpl. split; [reflexivity|].
    left. eapply validate_tokens_err_kind. exact H.
  - injection H as <-. simpl. split; [reflexivity|].
    unfold lex in Hl. apply lex_aux_err in Hl. exact Hl.
Qed.
Print Assumptions invalid_is_regex_error.

Theorem parse_ok_validates : forall cs r, parse cs = Ok r -> validate cs = Ok tt.
Proof.
  intros cs r H. unfold validate. unfold parse in H.
  destruct cs as [|c cs]; [reflexivity|].
  destruct (lex (c :: cs)) as [ts|e'] eqn:Hl; simpl in H; [|discriminate].
  simpl. destruct ts as [|t ts]; [reflexivity|].
  unfold parse_tokens in H.
  destruct (validate_tokens (t :: ts)) as [[]|e']; [reflexivity|discriminate].
Qed.
Print Assumptions parse_ok_validates.

Theorem validated_compiles : forall cs, validate cs = Ok tt -> exists r, parse cs = Ok r.
Proof.
  intros cs H. unfold validate in H. unfold parse.
  destruct cs as [|c cs]; [exists REps; reflexivity|].
  destruct (lex (c :: cs)) as [ts|e'] eqn:Hl; simpl in H; [|discriminate].
  simpl. destruct ts as [|t ts]; [exists REps; reflexivity|].
  apply validated_compiles_tokens; [discriminate|exact H].
Qed.
Print Assumptions validated_compiles.

(* ================================================================== *)
(* (C) printing with minimal parentheses, and parse (print r) = r      *)
(* ================================================================== *)

Definition wrap (b : bool) (ts : list token) : list token :=
  if b then [TLParen] ++ ts ++ [TRParen] else ts.

(* level 1: top level / left operand of a binary operator;
   level 2: left operand of a concatenation / right operand of a binary operator;
   level 3: right operand of a concatenation / operand of a postfix operator *)
Fixpoint toks (r : re) (level : nat) : list token :=
  match r with
  | REps => [TLParen; TRParen]
  | RSym a => [TSym a]
  | RAny => [TAny]
  | RUnion l r => wrap (Nat.ltb 1 level) (toks l 1 ++ [TUnion] ++ toks r 2)
  | RInter l r => wrap (Nat.ltb 1 level) (toks l 1 ++ [TInter] ++ toks r 2)
  | RShuffle l r => wrap (Nat.ltb 1 level) (toks l 1 ++ [TShuffle] ++ toks r 2)
  | RCat l r => wrap (Nat.ltb 2 level) (toks l 2 ++ toks r 3)
  | RStar x => wrap (Nat.ltb 3 level) (toks x 3 ++ [TStar])
  | RPlus x => wrap (Nat.ltb 3 level) (toks x 3 ++ [TPlus])
  | ROpt x => wrap (Nat.ltb 3 level) (toks x 3 ++ [TOpt])
  | RRep x lo hi => wrap (Nat.ltb 3 level) (toks x 3 ++ [TQuant lo hi])
  end.

(* true postfix notation, with the inserted tokens *)
Fixpoint postfix_of (r : re) : list token :=
  match r with
  | REps => [TEmpty]
  | RSym a => [TSym a]
  | RAny => [TAny]
  | RUnion l r => postfix_of l ++ postfix_of r ++ [TUnion]
  | RInter l r => postfix_of l ++ postfix_of r ++ [TInter]
  | RShuffle l r => postfix_of l ++ postfix_of r ++ [TShuffle]
  | RCat l r => postfix_of l ++ postfix_of r ++ [TConcat]
  | RStar x => postfix_of x ++ [TStar]
  | RPlus x => postfix_of x ++ [TPlus]
  | ROpt x => postfix_of x ++ [TOpt]
  | RRep x lo hi => postfix_of x ++ [TQuant lo hi]
  end.

Lemma evs_postfix_of : forall r s, evs (postfix_of r) s = Ok (r :: s).
Proof.
  induction r as [|a| |l IHl r IHr|l IHl r IHr|l IHl r IHr|l IHl r IHr|x IH|x IH|x IH|x IH lo hi];
    intro s; simpl; try reflexivity;
    rewrite ?evs_app, ?IHl; simpl; rewrite ?evs_app, ?IHr, ?IH; reflexivity.
Qed.

(* ---- token classes at the two ends of a printed expression ---- *)
Definition opener (t : token) : Prop :=
  match tclass_of t with KLit | KLParen => True | _ => False end.
Definition closer (t : token) : Prop :=
  match tclass_of t with KLit | KPostfix | KRParen => True | _ => False end.
Definition first_open (ts : list token) : Prop := exists h t, ts = h :: t /\ opener h.
Definition last_close (ts : list token) : Prop := exists i z, ts = i ++ [z] /\ closer z.

Lemma first_open_app : forall a x, first_open a -> first_open (a ++ x).
Proof. intros a x [h [t [-> Ho]]]. exists h, (t ++ x). split; [reflexivity|exact Ho]. Qed.

Lemma last_close_app : forall x b, last_close b -> last_close (x ++ b).
Proof.
  intros x b [i [z [-> Hc]]]. exists (x ++ i), z. split; [apply app_assoc|exact Hc].
Qed.

Lemma last_close_snoc : forall x z, closer z -> last_close (x ++ [z]).
Proof. intros x z Hc. exists x, z. split; [reflexivity|exact Hc]. Qed.

(* ---- validation of printed expressions ---- *)
Definition pending (prev : option token) (cnt : nat) : option nat :=
  match prev with
  | None => Some cnt
  | Some p => match tclass_of p with
              | KLParen => Some (S cnt)
              | KRParen => match cnt with 0 => None | S c => Some c end
              | _ => Some cnt
              end
  end.

Definition vgood (ts : list token) : Prop :=
  forall prev cnt d rest, pending prev cnt = Some d ->
  exists p' cnt', vscan prev (ts ++ rest) cnt = vscan (Some p') rest cnt' /\
                  pending (Some p') cnt' = Some d /\ closer p'.

Lemma vscan_cons : forall prev t r cnt,
  vscan prev (t :: r) cnt = bind (vstep prev (Some t) cnt) (fun c => vscan (Some t) r c).
Proof. reflexivity. Qed.

Lemma vscan_nil : forall prev cnt,
  vscan prev [] cnt =
  bind (vstep prev None cnt) (fun c => match c with 0 => Ok tt | S _ => regex_err end).
Proof. reflexivity. Qed.

Lemma vstep_opener : forall prev t cnt d,
  opener t -> pending prev cnt = Some d -> vstep prev (Some t) cnt = Ok d.
Proof.
  intros prev t cnt d Ho Hp. unfold opener in Ho. unfold pending in Hp. unfold vstep.
  destruct prev as [p|].
  - destruct (tclass_of p); destruct (tclass_of t); try contradiction; simpl;
      try (injection Hp as <-; reflexivity);
      (destruct cnt; [discriminate|injection Hp as <-; reflexivity]).
  - destruct (tclass_of t); try contradiction; simpl; injection Hp as <-; reflexivity.
Qed.

Lemma vstep_closer : forall p curr cnt d,
  closer p -> pending (Some p) cnt = Some d -> vstep (Some p) curr cnt = Ok d.
Proof.
  intros p curr cnt d Hc Hp. unfold closer in Hc. unfold pending in Hp. unfold vstep.
  destruct (tclass_of p); try contradiction.
  - injection Hp as <-. reflexivity.
  - injection Hp as <-. reflexivity.
  - destruct cnt; [discriminate|injection Hp as <-; reflexivity].
Qed.

Lemma vgood_lit : forall t, tclass_of t = KLit -> vgood [t].
Proof.
  intros t K prev cnt d rest Hp. exists t, d. simpl app. rewrite vscan_cons.
  rewrite (vstep_opener prev t cnt d); [|unfold opener; rewrite K; exact I|exact Hp].
  split; [reflexivity|]. unfold pending, closer. rewrite K. auto.
Qed.

Lemma vgood_eps : vgood [TLParen; TRParen].
Proof.
  intros prev cnt d rest Hp. exists TRParen, (S d). simpl app. rewrite vscan_cons.
  rewrite (vstep_opener prev TLParen cnt d); [|exact I|exact Hp].
  simpl. split; [reflexivity|]. split; [reflexivity|exact I].
Qed.

Lemma vgood_app : forall a b, vgood a -> vgood b -> vgood (a ++ b).
Proof.
  intros a b Ha Hb prev cnt d rest Hp.
  destruct (Ha prev cnt d (b ++ rest) Hp) as [p1 [c1 [E1 [P1 C1]]]].
  destruct (Hb (Some p1) c1 d rest P1) as [p2 [c2 [E2 [P2 C2]]]].
  exists p2, c2. rewrite <- app_assoc, E1, E2. auto.
Qed.

Lemma vgood_infix : forall o a b,
  tclass_of o = KInfix -> vgood a -> vgood b -> vgood (a ++ [o] ++ b).
Proof.
  intros o a b K Ha Hb prev cnt d rest Hp.
  destruct (Ha prev cnt d (([o] ++ b) ++ rest) Hp) as [p1 [c1 [E1 [P1 C1]]]].
  assert (Po : pending (Some o) d = Some d) by (unfold pending; rewrite K; reflexivity).
  destruct (Hb (Some o) d d rest Po) as [p2 [c2 [E2 [P2 C2]]]].
  exists p2, c2. rewrite <- app_assoc, E1. simpl app. rewrite vscan_cons.
  rewrite (vstep_closer p1 (Some o) c1 d C1 P1). simpl. rewrite E2. auto.
Qed.

Lemma vgood_postfix : forall o a, tclass_of o = KPostfix -> vgood a -> vgood (a ++ [o]).
Proof.
  intros o a K Ha prev cnt d rest Hp.
  destruct (Ha prev cnt d ([o] ++ rest) Hp) as [p1 [c1 [E1 [P1 C1]]]].
  exists o, d. rewrite <- app_assoc, E1. simpl app. rewrite vscan_cons.
  rewrite (vstep_closer p1 (Some o) c1 d C1 P1). simpl.
  split; [reflexivity|]. unfold pending, closer. rewrite K. auto.
Qed.

Lemma vgood_paren : forall a, vgood a -> vgood ([TLParen] ++ a ++ [TRParen]).
Proof.
  intros a Ha prev cnt d rest Hp.
  destruct (Ha (Some TLParen) d (S d) ([TRParen] ++ rest) eq_refl) as [p1 [c1 [E1 [P1 C1]]]].
  exists TRParen, (S d). simpl app. rewrite vscan_cons.
  rewrite (vstep_opener prev TLParen cnt d); [|exact I|exact Hp].
  simpl bind. rewrite <- app_assoc, E1. simpl app. rewrite vscan_cons.
  rewrite (vstep_closer p1 (Some TRParen) c1 (S d) C1 P1). simpl.
  split; [reflexivity|]. split; [reflexivity|exact I].
Qed.

(* ---- add_concat on compositions ---- *)
Lemma add_concat_app : forall i z b r,
  add_concat (i ++ z :: b :: r) = add_concat (i ++ [z]) ++ between z b ++ add_concat (b :: r).
Proof.
  induction i as [|x i IH]; intros z b r.
  - reflexivity.
  - destruct i as [|y i].
    + specialize (IH z b r). simpl app in *.
      change (add_concat (x :: z :: b :: r)) with (x :: between x z ++ add_concat (z :: b :: r)).
      change (add_concat [x; z]) with (x :: between x z ++ add_concat [z]).
      rewrite IH. simpl. rewrite <- !app_assoc. reflexivity.
    + specialize (IH z b r).
      change (add_concat ((x :: y :: i) ++ z :: b :: r))
        with (x :: between x y ++ add_concat ((y :: i) ++ z :: b :: r)).
      change (add_concat ((x :: y :: i) ++ [z]))
        with (x :: between x y ++ add_concat ((y :: i) ++ [z])).
      rewrite IH. simpl. rewrite <- !app_assoc. reflexivity.
Qed.

Lemma between_closer_opener : forall z h, closer z -> opener h -> between z h = [TConcat].
Proof.
  intros z h Hc Ho. unfold closer in Hc. unfold opener in Ho. unfold between.
  destruct (tclass_of z); try contradiction; destruct (tclass_of h); try contradiction; reflexivity.
Qed.

Lemma between_closer_op : forall z o, closer z -> is_op (tclass_of o) = true -> between z o = [].
Proof.
  intros z o Hc Ho. unfold closer in Hc. unfold between.
  destruct (tclass_of z); try contradiction; destruct (tclass_of o); try discriminate; reflexivity.
Qed.

Lemma between_closer_rp : forall z, closer z -> between z TRParen = [].
Proof.
  intros z Hc. unfold closer in Hc. unfold between.
  destruct (tclass_of z); try contradiction; reflexivity.
Qed.

Lemma between_infix_opener : forall o h, tclass_of o = KInfix -> opener h -> between o h = [].
Proof.
  intros o h K Ho. unfold opener in Ho. unfold between. rewrite K.
  destruct (tclass_of h); try contradiction; reflexivity.
Qed.

Lemma between_lp_opener : forall h, opener h -> between TLParen h = [].
Proof.
  intros h Ho. unfold opener in Ho. unfold between. simpl.
  destruct (tclass_of h); try contradiction; reflexivity.
Qed.

Lemma ac_cat : forall a b, last_close a -> first_open b ->
  add_concat (a ++ b) = add_concat a ++ [TConcat] ++ add_concat b.
Proof.
  intros a b [i [z [-> Hc]]] [h [t [-> Ho]]].
  rewrite <- app_assoc. simpl app. rewrite add_concat_app.
  rewrite (between_closer_opener z h Hc Ho). reflexivity.
Qed.

Lemma ac_infix : forall o a b, tclass_of o = KInfix -> last_close a -> first_open b ->
  add_concat (a ++ [o] ++ b) = add_concat a ++ [o] ++ add_concat b.
Proof.
  intros o a b K [i [z [-> Hc]]] [h [t [-> Ho]]].
  rewrite <- app_assoc. simpl app. rewrite add_concat_app.
  rewrite (between_closer_op z o Hc); [|rewrite K; reflexivity].
  rewrite add_concat_cons. unfold rest_ac. rewrite (between_infix_opener o h K Ho). reflexivity.
Qed.

Lemma ac_postfix : forall o a, tclass_of o = KPostfix -> last_close a ->
  add_concat (a ++ [o]) = add_concat a ++ [o].
Proof.
  intros o a K [i [z [-> Hc]]].
  rewrite <- app_assoc. simpl app. rewrite add_concat_app.
  rewrite (between_closer_op z o Hc); [|rewrite K; reflexivity]. reflexivity.
Qed.

Lemma ac_rp : forall a, last_close a -> add_concat (a ++ [TRParen]) = add_concat a ++ [TRParen].
Proof.
  intros a [i [z [-> Hc]]].
  rewrite <- app_assoc. simpl app. rewrite (add_concat_app i z TRParen []).
  rewrite (between_closer_rp z Hc). reflexivity.
Qed.

Lemma ac_lp : forall a, first_open a -> add_concat (TLParen :: a) = TLParen :: add_concat a.
Proof.
  intros a [h [t [-> Ho]]]. rewrite add_concat_cons. unfold rest_ac.
  rewrite (between_lp_opener h Ho). reflexivity.
Qed.

Lemma ac_paren : forall a, first_open a -> last_close a ->
  add_concat ([TLParen] ++ a ++ [TRParen]) = [TLParen] ++ add_concat a ++ [TRParen].
Proof.
  intros a Hf Hl. simpl app. rewrite ac_lp; [|apply first_open_app; exact Hf].
  rewrite ac_rp; [reflexivity|exact Hl].
Qed.

(* ---- the shunting-yard on a printed expression ---- *)
Definition low (l : nat) (stack : list token) : Prop :=
  match stack with [] => True | t :: _ => prec t < l end.

Definition SYP (l : nat) (ts pf : list token) : Prop :=
  forall rest stack out, low l stack ->
  exists pend out', sy (ts ++ rest) stack out = sy rest (pend ++ stack) out' /\
                    rev out' ++ pend = rev out ++ pf /\
                    Forall (fun t => l <= prec t) pend.

Lemma is_lparen_prec : forall t, is_lparen t = true -> prec t = 0.
Proof. destruct t; simpl; intro H; try discriminate; reflexivity. Qed.

Lemma pop_ops_pend : forall c pend stack out,
  Forall (fun t => prec c <= prec t) pend -> 1 <= prec c -> low (prec c) stack ->
  pop_ops c (pend ++ stack) out = (stack, rev pend ++ out).
Proof.
  intros c. induction pend as [|t pend IH]; intros stack out Hf Hc Hl.
  - simpl. destruct stack as [|t s]; [reflexivity|]. simpl in Hl. simpl.
    destruct (is_lparen t); [reflexivity|].
    destruct (Nat.leb (prec c) (prec t)) eqn:E; [|reflexivity].
    apply Nat.leb_le in E. lia.
  - inversion Hf as [|? ? Ht Hp]; subst. simpl.
    destruct (is_lparen t) eqn:El; [apply is_lparen_prec in El; lia|].
    destruct (Nat.leb (prec c) (prec t)) eqn:E; [|apply Nat.leb_gt in E; lia].
    rewrite (IH stack (t :: out) Hp Hc Hl). rewrite <- app_assoc. reflexivity.
Qed.

Lemma pop_until_lp_pend : forall pend stack out,
  Forall (fun t => 1 <= prec t) pend ->
  pop_until_lp (pend ++ TLParen :: stack) out = (TLParen :: stack, rev pend ++ out).
Proof.
  induction pend as [|t pend IH]; intros stack out Hf.
  - reflexivity.
  - inversion Hf as [|? ? Ht Hp]; subst. simpl.
    destruct (is_lparen t) eqn:El; [apply is_lparen_prec in El; lia|].
    rewrite (IH stack (t :: out) Hp). rewrite <- app_assoc. reflexivity.
Qed.

Lemma sy_op : forall o r stack out,
  is_op (tclass_of o) = true ->
  sy (o :: r) stack out = let (st, out') := pop_ops o stack out in sy r (o :: st) out'.
Proof. intros o r stack out H. simpl. destruct (tclass_of o); try discriminate; reflexivity. Qed.

Lemma sy_lit : forall t r stack out,
  tclass_of t = KLit -> sy (t :: r) stack out = sy r stack (t :: out).
Proof. intros t r stack out K. simpl. rewrite K. reflexivity. Qed.

Lemma Forall_mono {A} (P Q : A -> Prop) l : (forall x, P x -> Q x) -> Forall P l -> Forall Q l.
Proof. intros H HP. eapply Forall_impl; eassumption. Qed.

Lemma low_mono : forall l l' stack, l' <= l -> low l' stack -> low l stack.
Proof. intros l l' [|t s] Hle H; simpl in *; [exact I|lia]. Qed.

Lemma SYP_mono : forall l l' ts pf, l' <= l -> SYP l ts pf -> SYP l' ts pf.
Proof.
  intros l l' ts pf Hle H rest stack out Hlow.
  destruct (H rest stack out (low_mono l l' stack Hle Hlow)) as [pend [out' [E [R F]]]].
  exists pend, out'. split; [exact E|]. split; [exact R|].
  eapply Forall_mono; [|exact F]. intros x Hx. simpl in *. lia.
Qed.

Lemma SYP_lit : forall l t, tclass_of t = KLit -> SYP l [t] [t].
Proof.
  intros l t K rest stack out Hlow. exists [], (t :: out).
  simpl app. rewrite (sy_lit t rest stack out K). split; [reflexivity|].
  split; [simpl; rewrite app_nil_r; reflexivity|constructor].
Qed.

Lemma SYP_eps : forall l, SYP l [TLParen; TEmpty; TRParen] [TEmpty].
Proof.
  intros l rest stack out Hlow. exists [], (TEmpty :: out).
  split; [reflexivity|]. split; [simpl; rewrite app_nil_r; reflexivity|constructor].
Qed.

Lemma SYP_paren : forall l body pf,
  SYP 1 body pf -> SYP l ([TLParen] ++ body ++ [TRParen]) pf.
Proof.
  intros l body pf H rest stack out Hlow.
  destruct (H ([TRParen] ++ rest) (TLParen :: stack) out) as [pend [out' [E [R F]]]];
    [simpl; lia|].
  exists [], (rev pend ++ out'). split.
  - simpl app. simpl sy. rewrite <- app_assoc. rewrite E. simpl app. simpl sy.
    rewrite (pop_until_lp_pend pend stack out' F). reflexivity.
  - split; [|constructor]. rewrite rev_app_distr, rev_involutive, app_nil_r. exact R.
Qed.

Lemma SYP_infix : forall o a b pa pb,
  tclass_of o = KInfix -> 1 <= prec o ->
  SYP (prec o) a pa -> SYP (S (prec o)) b pb ->
  SYP (prec o) (a ++ [o] ++ b) (pa ++ pb ++ [o]).
Proof.
  intros o a b pa pb K Hp Ha Hb rest stack out Hlow.
  destruct (Ha (([o] ++ b) ++ rest) stack out Hlow) as [pend1 [out1 [E1 [R1 F1]]]].
  destruct (Hb rest (o :: stack) (rev pend1 ++ out1)) as [pend2 [out2 [E2 [R2 F2]]]];
    [simpl; lia|].
  exists (pend2 ++ [o]), out2. split; [|split].
  - rewrite <- app_assoc, E1. simpl app. rewrite sy_op; [|rewrite K; reflexivity].
    rewrite (pop_ops_pend o pend1 stack out1 F1 Hp Hlow). rewrite E2.
    rewrite <- app_assoc. reflexivity.
  - rewrite app_assoc, R2. rewrite rev_app_distr, rev_involutive.
    rewrite <- !app_assoc. rewrite (app_assoc (rev out1)), R1. rewrite <- !app_assoc. reflexivity.
  - apply Forall_app. split.
    + eapply Forall_mono; [|exact F2]. intros x Hx. simpl in *. lia.
    + constructor; [lia|constructor].
Qed.

Lemma SYP_postfix : forall o a pa,
  tclass_of o = KPostfix -> 1 <= prec o ->
  SYP (prec o) a pa -> SYP (prec o) (a ++ [o]) (pa ++ [o]).
Proof.
  intros o a pa K Hp Ha rest stack out Hlow.
  destruct (Ha ([o] ++ rest) stack out Hlow) as [pend1 [out1 [E1 [R1 F1]]]].
  exists [o], (rev pend1 ++ out1). split; [|split].
  - rewrite <- app_assoc, E1. simpl app. rewrite sy_op; [|rewrite K; reflexivity].
    rewrite (pop_ops_pend o pend1 stack out1 F1 Hp Hlow). reflexivity.
  - rewrite rev_app_distr, rev_involutive. rewrite app_assoc, R1. rewrite <- app_assoc. reflexivity.
  - constructor; [lia|constructor].
Qed.

(* ---- everything together ---- *)
Definition G (l : nat) (ts pf : list token) : Prop :=
  first_open ts /\ last_close ts /\ vgood ts /\ SYP l (add_concat ts) pf.

Lemma G_mono : forall l l' ts pf, l' <= l -> G l ts pf -> G l' ts pf.
Proof.
  intros l l' ts pf Hle [H1 [H2 [H3 H4]]]. repeat split; try assumption.
  eapply SYP_mono; eassumption.
Qed.

Lemma G_lit : forall l t, tclass_of t = KLit -> G l [t] [t].
Proof.
  intros l t K. repeat split.
  - exists t, []. split; [reflexivity|]. unfold opener. rewrite K. exact I.
  - exists [], t. split; [reflexivity|]. unfold closer. rewrite K. exact I.
  - apply vgood_lit. exact K.
  - apply SYP_lit. exact K.
Qed.

Lemma G_eps : forall l, G l [TLParen; TRParen] [TEmpty].
Proof.
  intros l. repeat split.
  - exists TLParen, [TRParen]. split; [reflexivity|exact I].
  - exists [TLParen], TRParen. split; [reflexivity|exact I].
  - apply vgood_eps.
  - apply SYP_eps.
Qed.

Lemma G_paren : forall l ts pf, G 1 ts pf -> G l ([TLParen] ++ ts ++ [TRParen]) pf.
Proof.
  intros l ts pf [H1 [H2 [H3 H4]]]. repeat split.
  - exists TLParen, (ts ++ [TRParen]). split; [reflexivity|exact I].
  - exists (TLParen :: ts), TRParen. split; [reflexivity|exact I].
  - apply vgood_paren. exact H3.
  - rewrite ac_paren by assumption. apply SYP_paren. exact H4.
Qed.

Lemma G_wrap : forall own l ts pf,
  1 <= own -> G own ts pf -> G l (wrap (Nat.ltb own l) ts) pf.
Proof.
  intros own l ts pf Ho H. unfold wrap. destruct (Nat.ltb own l) eqn:E.
  - apply G_paren. eapply G_mono; [|exact H]. exact Ho.
  - apply Nat.ltb_ge in E. eapply G_mono; [|exact H]. exact E.
Qed.

Lemma G_infix : forall o a b pa pb,
  tclass_of o = KInfix -> 1 <= prec o ->
  G (prec o) a pa -> G (S (prec o)) b pb ->
  G (prec o) (a ++ [o] ++ b) (pa ++ pb ++ [o]).
Proof.
  intros o a b pa pb K Hp [A1 [A2 [A3 A4]]] [B1 [B2 [B3 B4]]]. repeat split.
  - apply first_open_app. exact A1.
  - apply last_close_app. apply last_close_app. exact B2.
  - apply vgood_infix; assumption.
  - rewrite ac_infix by assumption. apply SYP_infix; assumption.
Qed.

Lemma G_cat : forall a b pa pb,
  G 2 a pa -> G 3 b pb -> G 2 (a ++ b) (pa ++ pb ++ [TConcat]).
Proof.
  intros a b pa pb [A1 [A2 [A3 A4]]] [B1 [B2 [B3 B4]]]. repeat split.
  - apply first_open_app. exact A1.
  - apply last_close_app. exact B2.
  - apply vgood_app; assumption.
  - rewrite ac_cat by assumption. apply (SYP_infix TConcat); try assumption; [reflexivity|simpl; lia].
Qed.

Lemma G_postfix : forall o a pa,
  tclass_of o = KPostfix -> 1 <= prec o ->
  G (prec o) a pa -> G (prec o) (a ++ [o]) (pa ++ [o]).
Proof.
  intros o a pa K Hp [A1 [A2 [A3 A4]]]. repeat split.
  - apply first_open_app. exact A1.
  - apply last_close_snoc. unfold closer. rewrite K. exact I.
  - apply vgood_postfix; assumption.
  - rewrite ac_postfix by assumption. apply SYP_postfix; assumption.
Qed.

Lemma G_toks : forall r l, G l (toks r l) (postfix_of r).
Proof.
  induction r as [|a| |x IHx y IHy|x IHx y IHy|x IHx y IHy|x IHx y IHy|x IH|x IH|x IH|x IH lo hi];
    intro l; simpl toks; simpl postfix_of.
  - apply G_eps.
  - apply G_lit. reflexivity.
  - apply G_lit. reflexivity.
  - apply (G_wrap 1); [lia|].
    apply (G_infix TUnion); [reflexivity|simpl; lia|apply IHx|apply IHy].
  - apply (G_wrap 1); [lia|].
    apply (G_infix TInter); [reflexivity|simpl; lia|apply IHx|apply IHy].
  - apply (G_wrap 1); [lia|].
    apply (G_infix TShuffle); [reflexivity|simpl; lia|apply IHx|apply IHy].
  - apply (G_wrap 2); [lia|]. apply G_cat; [apply IHx|apply IHy].
  - apply (G_wrap 3); [lia|]. apply (G_postfix TStar); [reflexivity|simpl; lia|apply IH].
  - apply (G_wrap 3); [lia|]. apply (G_postfix TPlus); [reflexivity|simpl; lia|apply IH].
  - apply (G_wrap 3); [lia|]. apply (G_postfix TOpt); [reflexivity|simpl; lia|apply IH].
  - apply (G_wrap 3); [lia|]. apply (G_postfix (TQuant lo hi)); [reflexivity|simpl; lia|apply IH].
Qed.

Lemma G_validates : forall l ts pf, G l ts pf -> validate_tokens ts = Ok tt.
Proof.
  intros l ts pf [_ [_ [Hv _]]]. unfold validate_tokens.
  destruct (Hv None 0 0 [] eq_refl) as [p [c [E [P C]]]].
  rewrite app_nil_r in E. rewrite E. rewrite vscan_nil.
  rewrite (vstep_closer p None c 0 C P). reflexivity.
Qed.

Lemma G_postfix_form : forall ts pf, G 1 ts pf -> to_postfix (add_concat ts) = Ok pf.
Proof.
  intros ts pf [_ [_ [_ Hs]]]. unfold to_postfix.
  destruct (Hs [] [] [] I) as [pend [out' [E [R F]]]].
  rewrite app_nil_r in E. rewrite E. simpl. rewrite app_nil_r. rewrite R. reflexivity.
Qed.

Lemma G_parse : forall ts r, G 1 ts (postfix_of r) -> parse_tokens ts = Ok r.
Proof.
  intros ts r H. unfold parse_tokens.
  rewrite (G_validates _ _ _ H). simpl. rewrite (G_postfix_form _ _ H). simpl.
  unfold eval_postfix. rewrite ev_evs, evs_postfix_of. reflexivity.
Qed.

Theorem print_validates : forall r, validate_tokens (toks r 1) = Ok tt.
Proof. intro r. eapply G_validates. apply G_toks. Qed.

Theorem print_postfix : forall r, to_postfix (add_concat (toks r 1)) = Ok (postfix_of r).
Proof. intro r. apply G_postfix_form. apply G_toks. Qed.

Theorem parse_print : forall r, parse_tokens (toks r 1) = Ok r.
Proof. intro r. apply G_parse. apply G_toks. Qed.
Print Assumptions parse_print.

Theorem redundant_parens : forall r, parse_tokens ([TLParen] ++ toks r 1 ++ [TRParen]) = Ok r.
Proof. intro r. apply G_parse. apply G_paren. apply G_toks. Qed.
Print Assumptions redundant_parens.

(* ================================================================== *)
(* (D) blanks between tokens are ignored                               *)
(* ================================================================== *)

(* "u lexes to ts and ends at a token boundary" *)
Definition clean (u : list nat) (ts : list token) : Prop :=
  forall v, lex (u ++ v) = bind (lex v) (fun tv => Ok (ts ++ tv)).

Lemma lex_aux_skip : forall u r, lex_aux (length u) (u ++ r) = lex_aux 0 r.
Proof. induction u as [|c u IH]; intro r; [reflexivity|]. simpl. apply IH. Qed.

Lemma lex_blank_cons : forall c v, is_blank c = true -> lex (c :: v) = lex v.
Proof.
  intros c v Hb. unfold is_blank in Hb. apply Nat.ltb_lt in Hb.
  destruct c as [|[|c]]; [reflexivity|reflexivity|lia].
Qed.

Theorem lex_blanks : forall bl v, forallb is_blank bl = true -> lex (bl ++ v) = lex v.
Proof.
  induction bl as [|c bl IH]; intros v H; [reflexivity|].
  simpl in H. apply andb_true_iff in H. destruct H as [Hc Hbl].
  simpl app. rewrite (lex_blank_cons c _ Hc). apply IH. exact Hbl.
Qed.
Print Assumptions lex_blanks.

Theorem blanks_ignored : forall u ts bl v,
  clean u ts -> forallb is_blank bl = true -> lex (u ++ bl ++ v) = lex (u ++ v).
Proof.
  intros u ts bl v Hc Hb. rewrite (Hc (bl ++ v)), (Hc v), (lex_blanks bl v Hb). reflexivity.
Qed.
Print Assumptions blanks_ignored.

Theorem clean_nil : clean [] [].
Proof. intro v. simpl. destruct (lex v); reflexivity. Qed.

Theorem clean_app : forall u1 t1 u2 t2, clean u1 t1 -> clean u2 t2 -> clean (u1 ++ u2) (t1 ++ t2).
Proof.
  intros u1 t1 u2 t2 H1 H2 v. rewrite <- app_assoc, (H1 (u2 ++ v)), (H2 v).
  destruct (lex v) as [tv|e]; simpl; [|reflexivity]. rewrite app_assoc. reflexivity.
Qed.
Print Assumptions clean_app.

Theorem clean_blanks : forall bl, forallb is_blank bl = true -> clean bl [].
Proof. intros bl H v. rewrite (lex_blanks bl v H). destruct (lex v); reflexivity. Qed.

Theorem clean_single : forall c t, single_token c = Some t -> clean [c] [t].
Proof. intros c t H v. unfold lex. simpl. rewrite H. reflexivity. Qed.
Print Assumptions clean_single.

Theorem clean_sym : forall c,
  single_token c = None -> c <> 11 -> is_blank c = false -> is_ws c = false ->
  clean [c] [TSym c].
Proof.
  intros c Hs Hn Hb Hw v. unfold lex. simpl. rewrite Hs.
  apply Nat.eqb_neq in Hn. unfold c_lbrace. rewrite Hn, Hb, Hw. reflexivity.
Qed.
Print Assumptions clean_sym.

Lemma scan_until_app : forall stop g r,
  (forall c, In c g -> c <> stop /\ c <> 14) ->
  scan_until stop (g ++ stop :: r) = Some (g, r).
Proof.
  intros stop. induction g as [|c g IH]; intros r H.
  - simpl. rewrite Nat.eqb_refl. reflexivity.
  - simpl. destruct (H c (or_introl eq_refl)) as [H1 H2].
    apply Nat.eqb_neq in H1. apply Nat.eqb_neq in H2. unfold c_newline. rewrite H1, H2.
    rewrite IH; [reflexivity|]. intros c' Hc'. apply H. right. exact Hc'.
Qed.

Theorem clean_quant : forall g1 g2 t,
  (forall c, In c g1 -> c <> 13 /\ c <> 14) ->
  (forall c, In c g2 -> c <> 12 /\ c <> 14) ->
  mk_quant g1 g2 = Ok t ->
  clean (11 :: g1 ++ 13 :: g2 ++ [12]) [t].
Proof.
  intros g1 g2 t H1 H2 Hq v. unfold lex.
  change ((11 :: g1 ++ 13 :: g2 ++ [12]) ++ v) with (11 :: (g1 ++ 13 :: g2 ++ [12]) ++ v).
  assert (Hm : quant_match ((g1 ++ 13 :: g2 ++ [12]) ++ v) = Some (g1, g2)).
  { unfold quant_match. rewrite <- app_assoc. simpl app. unfold c_comma, c_rbrace.
    rewrite (scan_until_app 13 g1 _ H1). rewrite <- app_assoc. simpl app.
    rewrite (scan_until_app 12 g2 _ H2). reflexivity. }
  assert (Hlen : length g1 + length g2 + 2 = length (g1 ++ 13 :: g2 ++ [12])).
  { rewrite app_length. simpl. rewrite app_length. simpl. lia. }
  cbn [lex_aux]. change (single_token 11) with (@None token).
  change (Nat.eqb 11 c_lbrace) with true. cbv iota.
  rewrite Hm, Hq, Hlen, lex_aux_skip. reflexivity.
Qed.
Print Assumptions clean_quant.

(* ---- non-vacuity ---- *)
Example clean_quant_ex : clean [11; 18; 13; 19; 12] [TQuant 2 (Some 3)].
Proof.
  apply (clean_quant [18] [19]); [| |reflexivity];
    intros c [<-|[]]; split; discriminate.
Qed.

Example blanks_ignored_ex : forall v,
  lex ([30; 11; 18; 13; 19; 12] ++ [0; 1; 0] ++ v) = lex ([30; 11; 18; 13; 19; 12] ++ v).
Proof.
  intro v. apply (blanks_ignored _ ([TSym 30] ++ [TQuant 2 (Some 3)])); [|reflexivity].
  apply (clean_app [30] _ [11; 18; 13; 19; 12]); [|exact clean_quant_ex].
  apply clean_sym; [reflexivity|discriminate|reflexivity|reflexivity].
Qed.

Example toks_ex :
  toks (RUnion (RSym 30) (RCat (RStar (RUnion (RSym 31) REps)) (RCat RAny (RSym 30)))) 1
  = [TSym 30; TUnion; TLParen; TSym 31; TUnion; TLParen; TRParen; TRParen; TStar;
     TLParen; TAny; TSym 30; TRParen].
Proof. reflexivity. Qed.
