(* C07 / C09 (continuation): totality beyond the 14-state budget, for the fuel-parametric functions the executable
   models are instances of.  determinize_m m = determinize_fuel (det_fuel m) m and nfa_eq_m A B =
   nfa_eq_fuel (nfa_diff_fuel A B) A B, where det_fuel / nfa_diff_fuel are the exact bounds 2^|Q| + 1 resp.
   2^|QA| * 2^|QB| + 1 up to 14 states and a fixed number beyond (fuel is a unary number in the extracted driver).
   Bounds are stated with [pow2 n = 2 ^ n] and never computed. *)
From Coq Require Import List Arith Bool Lia.
From AV Require Import Base.Util Base.Closure Spec.Lang Spec.FA Model.Decide Model.Product Model.Build Model.Subset
     Model.NFAOps Proofs.Decide Proofs.Build Proofs.Subset.
Import ListNotations.

(* ---- more fuel never changes the answer of the worklist closure ---- *)
Section Mono.
  Variable A : Type.
  Variable eqb : A -> A -> bool.
  Variable succ : A -> list A.

  Lemma bfs_mono fuel : forall todo visited res, bfs eqb succ fuel todo visited = Some res ->
    forall fuel', fuel <= fuel' -> bfs eqb succ fuel' todo visited = Some res.
  Proof.
    induction fuel as [|f IH]; intros todo visited res H fuel' Hle.
    - destruct todo as [|x rest]; [|discriminate H]. destruct fuel'; exact H.
    - destruct todo as [|x rest]; [destruct fuel'; exact H|].
      destruct fuel' as [|f']; [lia|]. cbn [bfs] in *. apply (IH _ _ _ H). lia.
  Qed.

  Lemma closure_mono fuel fuel' init res : closure eqb succ fuel init = Some res -> fuel <= fuel' ->
    closure eqb succ fuel' init = Some res.
  Proof. unfold closure. intros H Hle. exact (bfs_mono fuel _ _ _ H fuel' Hle). Qed.

  Lemma closure_agree f1 f2 init r1 r2 : closure eqb succ f1 init = Some r1 -> closure eqb succ f2 init = Some r2 ->
    r1 = r2.
  Proof.
    intros H1 H2. destruct (Nat.le_ge_cases f1 f2) as [Hle|Hle].
    - rewrite (closure_mono f1 f2 init r1 H1 Hle) in H2. congruence.
    - rewrite (closure_mono f2 f1 init r2 H2 Hle) in H1. congruence.
  Qed.
End Mono.

(* ---- the subset construction with the fuel as a parameter ---- *)
Definition determinize_fuel (fuel : nat) (m : nfa) : res dfa :=
  build_dfa (list nat) (eqb_list Nat.eqb) (det_succ m) (nset_final m) (n_syms m) fuel (nset_init m).

Lemma determinize_m_fuel m : determinize_m m = determinize_fuel (det_fuel m) m.
Proof. reflexivity. Qed.

Section DetFuel.
  Variable m : nfa.
  Hypothesis Hv : valid_nfa m = true.

  Theorem determinize_fuel_sound fuel R : determinize_fuel fuel m = Ok R ->
    valid_dfa R = true /\ d_syms R = n_syms m /\ (forall w, dfa_acc R w = nfa_acc m w) /\ L_dfa R =L L_nfa m.
  Proof.
    unfold determinize_fuel, build_dfa, explore.
    destruct (closure _ _ fuel [nset_init m]) as [ps|] eqn:Ec; [|discriminate].
    intro H. inversion H; subst R. clear H.
    assert (Heq : eqb_ok (eqb_list Nat.eqb)) by apply eqb_list_ok, eqb_nat_ok.
    destruct (closure_head _ _ _ _ _ _ Ec) as [rest Hhead].
    assert (Hnd : NoDup ps) by (eapply closure_NoDup; [exact Heq|exact Ec]).
    assert (Hclosed : forall p c t, In p ps -> In (c, t) (det_succ m p) -> In t ps).
    { intros p c t Hp Hin. apply (closure_complete _ _ Heq _ _ _ _ Ec).
      eapply reach_step; [apply (closure_sound _ _ Heq _ _ _ _ Ec); exact Hp|].
      apply in_map_iff. exists (c, t). split; [reflexivity|exact Hin]. }
    assert (Hacc : forall w, dfa_acc (build_from (list nat) (eqb_list Nat.eqb) (det_succ m) (nset_final m) (n_syms m) ps) w
                             = nfa_acc m w).
    { intro w. rewrite (M_acc _ _ Heq _ _ (det_succ_det m) _ ps Hnd Hclosed _ rest w Hhead).
      rewrite (det_lrun_final m Hv). reflexivity. }
    split; [|split; [reflexivity|split; [exact Hacc|]]].
    - eapply (M_valid _ _ Heq _ _ (det_succ_det m) _ ps (n_syms_NoDup m Hv)); [|exact Hhead].
      intros p c t _ Hin. eapply det_labels. exact Hin.
    - intro w. unfold L_dfa. rewrite Hacc. apply nfa_acc_spec. exact Hv.
  Qed.

  Theorem determinize_fuel_total fuel : pow2 (length (n_states m)) < fuel -> exists R, determinize_fuel fuel m = Ok R.
  Proof.
    intro Hf. unfold determinize_fuel, build_dfa, explore.
    destruct (closure _ _ fuel [nset_init m]) as [ps|] eqn:Ec; [eexists; reflexivity|].
    exfalso. revert Ec.
    apply (closure_fuel _ _ (eqb_list_ok _ eqb_nat_ok) _ (nuniverse m)).
    - intros x y Hx Hy. apply in_map_iff in Hy. destruct Hy as [[c t] [<- Hin]]. cbn [snd].
      unfold det_succ in Hin. apply in_flat_map in Hin. destruct Hin as [c' [_ H]].
      destruct (nset_step m x c') eqn:E; [destruct H|]. destruct H as [H|[]]. inversion H; subst.
      rewrite <- E. apply nuniverse_closed; assumption.
    - intros x [<-|[]]. apply nuniverse_init. exact Hv.
    - pose proof (nuniverse_length m). lia.
  Qed.

  Theorem determinize_fuel_agree f1 f2 R1 R2 :
    determinize_fuel f1 m = Ok R1 -> determinize_fuel f2 m = Ok R2 -> R1 = R2.
  Proof.
    unfold determinize_fuel, build_dfa, explore.
    destruct (closure _ _ f1 [nset_init m]) as [p1|] eqn:E1; [|discriminate].
    destruct (closure _ _ f2 [nset_init m]) as [p2|] eqn:E2; [|discriminate].
    rewrite (closure_agree _ _ _ _ _ _ _ _ E1 E2). congruence.
  Qed.
End DetFuel.

(* ---- the comparison with the fuel as a parameter ---- *)
Definition nfa_eq_fuel (fuel : nat) (A B : nfa) : res bool :=
  if nsame_syms A B then bind (nfa_diff_cap fuel A B) (fun r => Ok (isnone r)) else Err Mismatch.

Lemma nfa_eq_m_fuel A B : nfa_eq_m A B = nfa_eq_fuel (nfa_diff_fuel A B) A B.
Proof. reflexivity. Qed.

Section EqFuel.
  Variables A B : nfa.
  Hypothesis HA : valid_nfa A = true.
  Hypothesis HB : valid_nfa B = true.

  Theorem nfa_diff_cap_sound fuel r : nfa_diff_cap fuel A B = Ok r ->
      (r = None <-> L_nfa A =L L_nfa B) /\
      (forall w, r = Some w -> nfa_acc A w <> nfa_acc B w).
  Proof.
    unfold nfa_diff_cap.
    destruct (gdiff _ _ _ _ _ _ _ _ _ _ _ _) as [r'|] eqn:E; [|discriminate].
    intro H. inversion H; subst r'. clear H.
    assert (Hsome : forall w, r = Some w -> nfa_acc A w <> nfa_acc B w).
    { intros w ->. apply gdiff_some in E; [|apply eqb_list_ok, eqb_nat_ok|apply eqb_list_ok, eqb_nat_ok].
      destruct E as [_ E]. exact E. }
    split; [|exact Hsome]. split.
    + intros ->. intro w.
      destruct (over_or_foreign (set_union (n_syms A) (n_syms B)) w) as [Ho|[u [a [v [-> Ha]]]]].
      * pose proof (gdiff_none _ _ _ _ (eqb_list_ok _ eqb_nat_ok) (eqb_list_ok _ eqb_nat_ok)
                      _ _ _ _ _ _ _ _ E w Ho) as H.
        cbv beta in H. fold (nfa_acc A w) in H. fold (nfa_acc B w) in H.
        rewrite <- (nfa_acc_spec A HA), <- (nfa_acc_spec B HB). rewrite H. tauto.
      * rewrite set_union_In in Ha. split; intro H; exfalso.
        -- apply (nfa_foreign_rejects A HA u a v); [tauto|exact H].
        -- apply (nfa_foreign_rejects B HB u a v); [tauto|exact H].
    + intro HL. destruct r as [w|]; [|reflexivity]. exfalso.
      apply (Hsome w eq_refl). apply bool_eq_iff.
      rewrite (nfa_acc_spec A HA), (nfa_acc_spec B HB). apply HL.
  Qed.

  Theorem nfa_diff_cap_total fuel : pow2 (length (n_states A)) * pow2 (length (n_states B)) < fuel ->
    exists r, nfa_diff_cap fuel A B = Ok r.
  Proof.
    intro Hf. unfold nfa_diff_cap.
    destruct (gdiff _ _ _ _ _ _ _ _ _ _ _ _) as [r|] eqn:E; [exists r; reflexivity|].
    exfalso. revert E.
    apply (gdiff_fuel _ _ _ _ (eqb_list_ok _ eqb_nat_ok) (eqb_list_ok _ eqb_nat_ok) _ _ _ _ _ _ _
             (nuniverse A) (nuniverse B)).
    + apply nuniverse_closed; exact HA.
    + apply nuniverse_closed; exact HB.
    + apply nuniverse_init; exact HA.
    + apply nuniverse_init; exact HB.
    + pose proof (nuniverse_length A). pose proof (nuniverse_length B).
      eapply Nat.le_lt_trans; [apply Nat.mul_le_mono; eassumption|exact Hf].
  Qed.

  Theorem nfa_eq_fuel_sound fuel b : nfa_eq_fuel fuel A B = Ok b -> (b = true <-> L_nfa A =L L_nfa B).
  Proof.
    unfold nfa_eq_fuel. destruct (nsame_syms A B); [|discriminate].
    destruct (nfa_diff_cap fuel A B) as [r|e] eqn:E; cbn [bind]; [|discriminate]. intro H. inversion H; subst b.
    destruct (nfa_diff_cap_sound fuel r E) as [H1 _]. rewrite <- H1. destruct r; cbn [isnone]; split; congruence.
  Qed.

  Theorem nfa_eq_fuel_total fuel : nsame_syms A B = true ->
    pow2 (length (n_states A)) * pow2 (length (n_states B)) < fuel -> exists b, nfa_eq_fuel fuel A B = Ok b.
  Proof.
    intros Hs Hf. unfold nfa_eq_fuel. rewrite Hs. destruct (nfa_diff_cap_total fuel Hf) as [r ->].
    cbn [bind]. eauto.
  Qed.

  Theorem nfa_eq_fuel_agree f1 f2 b1 b2 : nfa_eq_fuel f1 A B = Ok b1 -> nfa_eq_fuel f2 A B = Ok b2 -> b1 = b2.
  Proof.
    intros E1 E2. apply bool_eq_iff. rewrite (nfa_eq_fuel_sound f1 b1 E1), (nfa_eq_fuel_sound f2 b2 E2). tauto.
  Qed.
End EqFuel.
