(* The "longest prefix of the pattern that is a suffix of the text" function lps of
   Model/Construct.v: characterisation and the classical step lemma
     lps p (t ++ [a]) = lps p (firstn (lps p t) p ++ [a])
   i.e. the automaton only needs to remember lps p t, not t. *)
From Coq Require Import List Arith Bool Lia.
From AV Require Import Base.Util Spec.Lang Spec.Preds Model.Construct Proofs.Preds.
Import ListNotations.

Lemma lastn_app {A} (u s : list A) : lastn (length s) (u ++ s) = s.
Proof.
  unfold lastn. rewrite app_length. replace (length u + length s - length s) with (length u + 0) by lia.
  rewrite skipn_app. rewrite Nat.add_0_r, skipn_all. simpl.
  replace (length u - length u) with 0 by lia. reflexivity.
Qed.

Lemma lastn_split {A} k (t : list A) : t = firstn (length t - k) t ++ lastn k t.
Proof. unfold lastn. symmetry. apply firstn_skipn. Qed.

Lemma has_suffix_length (s t : word) : has_suffix s t -> length s <= length t.
Proof. intros [u ->]. rewrite app_length. lia. Qed.

Lemma has_suffix_trans (a b c : word) : has_suffix a b -> has_suffix b c -> has_suffix a c.
Proof. intros [u ->] [v ->]. exists (v ++ u). rewrite app_assoc. reflexivity. Qed.

(* two suffixes of the same text: the shorter is a suffix of the longer *)
Lemma suffix_of_suffix (s1 s2 t : word) :
  has_suffix s1 t -> has_suffix s2 t -> length s1 <= length s2 -> has_suffix s1 s2.
Proof.
  intros [u1 H1] [u2 H2] Hl. rewrite H1 in H2. clear H1.
  revert u2 H2. induction u1 as [|x u1 IH]; intros u2 H2.
  - simpl in H2. destruct u2 as [|y u2].
    + simpl in H2. subst. exists []. reflexivity.
    + exfalso. rewrite H2 in Hl. simpl in Hl. rewrite app_length in Hl. lia.
  - destruct u2 as [|y u2].
    + simpl in H2. exists (x :: u1). symmetry. exact H2.
    + simpl in H2. inversion H2; subst. apply (IH u2). assumption.
Qed.

Lemma has_suffix_snoc (s t : word) x a : has_suffix (s ++ [x]) (t ++ [a]) <-> x = a /\ has_suffix s t.
Proof.
  split.
  - intros [u H]. rewrite app_assoc in H. apply app_inj_tail in H. destruct H as [H1 H2].
    split; [congruence|]. exists u. exact H1.
  - intros [-> [u ->]]. exists u. rewrite app_assoc. reflexivity.
Qed.

Lemma firstn_S_nth (p : word) k x : nth_error p k = Some x -> firstn (S k) p = firstn k p ++ [x].
Proof.
  revert k. induction p as [|y p IH]; intros k H.
  - destruct k; discriminate.
  - destruct k as [|k]; simpl in H.
    + inversion H; subst. reflexivity.
    + simpl. f_equal. apply IH. exact H.
Qed.

(* ---- borders ---- *)
Definition bord (p t : word) (k : nat) : Prop := k <= length p /\ has_suffix (firstn k p) t.

Lemma bord_0 p t : bord p t 0.
Proof. split; [lia|]. exists t. simpl. symmetry. apply app_nil_r. Qed.

Lemma bord_le_text p t k : bord p t k -> k <= length t.
Proof.
  intros [Hk Hs]. apply has_suffix_length in Hs. rewrite firstn_length_le in Hs by exact Hk. exact Hs.
Qed.

Lemma bord_eqb p t k : k <= length p -> k <= length t ->
  (eqb_list Nat.eqb (firstn k p) (lastn k t) = true <-> has_suffix (firstn k p) t).
Proof.
  intros Hp Ht. pose proof (eqb_list_ok _ eqb_nat_ok (firstn k p) (lastn k t)) as He. rewrite He. split.
  - intro E. exists (firstn (length t - k) t). rewrite E. apply lastn_split.
  - intros [u Hu]. rewrite Hu at 1.
    replace k with (length (firstn k p)) at 2 by (apply firstn_length_le; exact Hp).
    symmetry. apply lastn_app.
Qed.

Lemma try_len_spec p t k : k <= length p -> k <= length t ->
  bord p t (try_len p t k) /\ try_len p t k <= k /\
  forall j, j <= k -> bord p t j -> j <= try_len p t k.
Proof.
  induction k as [|k IH]; intros Hp Ht.
  - simpl. split; [apply bord_0|]. split; [lia|]. intros j Hj _. exact Hj.
  - cbn [try_len]. destruct (eqb_list Nat.eqb (firstn (S k) p) (lastn (S k) t)) eqn:E.
    + apply bord_eqb in E; [|exact Hp|exact Ht]. split; [split; assumption|]. split; [lia|]. intros j Hj _. exact Hj.
    + destruct (IH ltac:(lia) ltac:(lia)) as [B [L M]]. split; [exact B|]. split; [lia|].
      intros j Hj Bj. destruct (Nat.eq_dec j (S k)) as [->|Hne].
      * exfalso. destruct Bj as [_ Bj]. apply bord_eqb in Bj; [|exact Hp|exact Ht]. congruence.
      * apply M; [lia|exact Bj].
Qed.

Lemma lps_bord p t : bord p t (lps p t).
Proof. unfold lps. apply try_len_spec; lia. Qed.

Lemma lps_max p t k : bord p t k -> k <= lps p t.
Proof.
  intro B. unfold lps. pose proof (bord_le_text p t k B) as Ht. pose proof (proj1 B) as Hp.
  apply try_len_spec; try lia. exact B.
Qed.

Lemma lps_le p t : lps p t <= length p.
Proof. exact (proj1 (lps_bord p t)). Qed.

Lemma lps_nil p : lps p [] = 0.
Proof. pose proof (bord_le_text p [] _ (lps_bord p [])) as H. simpl in H. lia. Qed.

(* equal border sets give equal lps *)
Lemma lps_ext p t t' : (forall k, bord p t k <-> bord p t' k) -> lps p t = lps p t'.
Proof.
  intro H. apply Nat.le_antisymm.
  - apply lps_max. apply H. apply lps_bord.
  - apply lps_max. apply H. apply lps_bord.
Qed.

Lemma bord_snoc p t a k : bord p (t ++ [a]) (S k) <-> bord p t k /\ nth_error p k = Some a.
Proof.
  unfold bord. split.
  - intros [Hk Hs]. assert (Hlt : k < length p) by lia.
    destruct (nth_error p k) as [x|] eqn:E; [|apply nth_error_None in E; lia].
    rewrite (firstn_S_nth p k x E) in Hs. apply has_suffix_snoc in Hs. destruct Hs as [-> Hs].
    split; [split; [lia|exact Hs]|reflexivity].
  - intros [[Hk Hs] E]. assert (Hlt : k < length p) by (apply nth_error_Some; congruence).
    split; [lia|]. rewrite (firstn_S_nth p k a E). apply has_suffix_snoc. split; [reflexivity|exact Hs].
Qed.

(* borders of t and of its longest border coincide *)
Lemma bord_of_lps p t k : bord p t k <-> bord p (firstn (lps p t) p) k.
Proof.
  pose proof (lps_bord p t) as [Hq Hs]. split.
  - intro B. pose proof (lps_max p t k B) as Hle. destruct B as [Hk Hsk]. split; [exact Hk|].
    apply (suffix_of_suffix _ _ t Hsk Hs). rewrite !firstn_length_le by lia. exact Hle.
  - intros [Hk Hsk]. split; [exact Hk|]. eapply has_suffix_trans; eassumption.
Qed.

Theorem lps_step p t a : lps p (t ++ [a]) = lps p (firstn (lps p t) p ++ [a]).
Proof.
  apply lps_ext. intros [|k].
  - split; intros _; apply bord_0.
  - rewrite !bord_snoc. rewrite (bord_of_lps p t k). tauto.
Qed.

Lemma lps_full_iff p t : lps p t = length p <-> has_suffix p t.
Proof.
  split.
  - intro E. pose proof (lps_bord p t) as [_ Hs]. rewrite E, firstn_all in Hs. exact Hs.
  - intro Hs. apply Nat.le_antisymm; [apply lps_le|]. apply lps_max. split; [lia|].
    rewrite firstn_all. exact Hs.
Qed.

(* ---- substring and one more symbol ---- *)
Lemma exists_last_or_nil {A} (v : list A) : v = [] \/ exists v' a, v = v' ++ [a].
Proof.
  destruct v as [|x v]; [left; reflexivity|right].
  destruct (@exists_last A (x :: v)) as [v' [a E]]; [discriminate|]. exists v', a. exact E.
Qed.

Lemma contains_snoc p w a :
  contains_substring p (w ++ [a]) <-> contains_substring p w \/ has_suffix p (w ++ [a]).
Proof.
  split.
  - intros [u [v H]]. destruct (exists_last_or_nil v) as [->|[v' [a' ->]]].
    + right. exists u. rewrite app_nil_r in H. exact H.
    + left. rewrite !app_assoc in H. apply app_inj_tail in H. destruct H as [H _].
      exists u, v'. rewrite H, app_assoc. reflexivity.
  - intros [[u [v ->]]|[u H]].
    + exists u, (v ++ [a]). rewrite <- !app_assoc. reflexivity.
    + exists u, []. rewrite app_nil_r. exact H.
Qed.

Lemma suffix_contains p w : has_suffix p w -> contains_substring p w.
Proof. intros [u ->]. exists u, []. rewrite app_nil_r. reflexivity. Qed.
