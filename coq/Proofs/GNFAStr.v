(* Lemmas for C12, string level: the strings built by Model/GNFAStr.v are the printings of
   annotated trees (sx) that stay properly parenthesised and denote what the AST-level model
   (Model/GNFA.v) denotes; the schedule-driven loop of to_regex rips along some order that lists
   exactly the inner states. *)
From Coq Require Import List Arith Bool Lia ZArith.
From AV Require Import Base.Util Spec.Lang Spec.FA Spec.Regex0 Model.GNFA Model.GNFAStr Proofs.FARun Proofs.GNFA.
Import ListNotations.

(* ================================================================== *)
(* A. the string functions are the tree functions, printed             *)
(* ================================================================== *)
Lemma show_cat_app a b : show (cat_app a b) = show a ++ show b.
Proof.
  induction b as [|x|b1 IH1 b2 IH2|b1 IH1 b2 IH2|b IH|b IH|b IH]; simpl; try reflexivity.
  rewrite IH1. apply app_assoc_reverse.
Qed.

Lemma show_xcat a b : show (xcat a b) = show a ++ show b.
Proof.
  unfold xcat. destruct (is_xeps a) eqn:Ea.
  - destruct a; try discriminate. reflexivity.
  - destruct (is_xeps b) eqn:Eb.
    + destruct b; try discriminate. simpl. rewrite app_nil_r. reflexivity.
    + apply show_cat_app.
Qed.

Lemma show_xbrk_wrap r : show (xbrk_wrap r) = brk_wrap (show r).
Proof. unfold xbrk_wrap, brk_wrap. destruct (isbracket_req (show r)); reflexivity. Qed.

Lemma length_nil_iff {A} (l : list A) : Nat.eqb (length l) 0 = is_nil l.
Proof. destruct l; reflexivity. Qed.

Definition oshow (o : option sx) : option str := option_map show o.

Lemma show_xrip_lab xl sl q i j :
  (forall p r, oshow (xl p r) = sl p r) ->
  oshow (xrip_lab xl q i j) = srip_lab sl q i j.
Proof.
  intro H. unfold xrip_lab, srip_lab.
  rewrite <- (H i q), <- (H q j), <- (H q q), <- (H i j).
  destruct (xl i q) as [r1|]; simpl; [|reflexivity].
  destruct (xl q j) as [r3|]; simpl; [|reflexivity].
  f_equal. rewrite !show_xbrk_wrap.
  set (s1 := brk_wrap (show r1)). set (s3 := brk_wrap (show r3)).
  assert (E2 : show (match xl q q with
                     | Some r2 => if Nat.eqb (length (show r2)) 1 then XStar r2 else XStar (XParen r2)
                     | None => XEps end)
               = match oshow (xl q q) with
                 | Some r2 => if Nat.eqb (length r2) 1 then r2 ++ [c_star] else paren r2 ++ [c_star]
                 | None => [] end).
  { destruct (xl q q) as [r2|]; simpl; [|reflexivity].
    destruct (Nat.eqb (length (show r2)) 1); reflexivity. }
  rewrite E2. set (s2 := match oshow (xl q q) with Some r2 => _ | None => _ end).
  destruct (Nat.eqb (length s1 + length s2 + length s3) 0) eqn:En.
  - destruct (xl i j) as [o|]; simpl; [|reflexivity].
    destruct (is_nil (show o)); [reflexivity|].
    destruct (Nat.eqb (length (show o)) 1); reflexivity.
  - destruct (xl i j) as [r4|]; simpl.
    + destruct (isbracket_req (show r4)) eqn:Eb.
      * simpl. rewrite !show_xcat, !show_xbrk_wrap, E2. fold s1 s2 s3. rewrite <- !app_assoc. reflexivity.
      * destruct (is_nil (show r4)) eqn:En4.
        -- simpl. destruct (Nat.ltb 1 (length s1 + length s2 + length s3)); simpl;
             rewrite !show_xcat, !show_xbrk_wrap, E2; fold s1 s2 s3; rewrite <- !app_assoc; reflexivity.
        -- simpl. rewrite !show_xcat, !show_xbrk_wrap, E2. fold s1 s2 s3.
           rewrite <- !app_assoc. reflexivity.
    + simpl. rewrite !show_xcat, !show_xbrk_wrap, E2. fold s1 s2 s3. rewrite <- !app_assoc, app_nil_r. reflexivity.
Qed.

Lemma show_xdfa_step acc a : oshow (xdfa_step acc a) = sdfa_step (oshow acc) a.
Proof. destruct acc; reflexivity. Qed.

Lemma show_osym o : show (osym_sx o) = sym_str o.
Proof. destruct o; reflexivity. Qed.

Lemma show_xnfa_step acc o : oshow (xnfa_step acc o) = snfa_step (oshow acc) o.
Proof.
  destruct acc as [l|]; simpl; [|rewrite show_osym; reflexivity].
  destruct (is_nil (show l) && is_some o); simpl; [rewrite show_osym; reflexivity|].
  destruct (negb (is_nil (show l)) && negb (is_some o)); simpl.
  - destruct (isbracket_req (show l)); reflexivity.
  - rewrite show_osym. reflexivity.
Qed.

Lemma oshow_fold {A} (xf : option sx -> A -> option sx) (sf : option str -> A -> option str) :
  (forall acc a, oshow (xf acc a) = sf (oshow acc) a) ->
  forall l acc, oshow (fold_left xf l acc) = fold_left sf l (oshow acc).
Proof.
  intros H l. induction l as [|a l IH]; intro acc; simpl; [reflexivity|]. rewrite IH, H. reflexivity.
Qed.

(* ================================================================== *)
(* B. properly parenthesised trees                                     *)
(* ================================================================== *)
Section WF.
  Variable ok : nat -> bool.
  Hypothesis ok_sym : forall a, ok a = true -> sym_ok a = true.

  Lemma sym_ok_ge a : sym_ok a = true -> 13 <= a.
  Proof. unfold sym_ok. rewrite !andb_true_iff, Nat.leb_le. tauto. Qed.

  Lemma wfl_mono r : forall l l', l' <= l -> wfl ok l r = true -> wfl ok l' r = true.
  Proof.
    destruct r; intros l l' Hle H; simpl in *; try exact H.
    - apply andb_true_iff in H. destruct H as [H H2]. apply andb_true_iff in H. destruct H as [H0 H1].
      apply Nat.leb_le in H0. rewrite H1, H2. replace (Nat.leb l' 1) with true; [reflexivity|].
      symmetry. apply Nat.leb_le. lia.
    - apply andb_true_iff in H. destruct H as [H H2]. apply andb_true_iff in H. destruct H as [H0 H1].
      apply Nat.leb_le in H0. rewrite H1, H2. replace (Nat.leb l' 2) with true; [reflexivity|].
      symmetry. apply Nat.leb_le. lia.
  Qed.

  Lemma wfl_nonnil r : forall l, wfl ok l r = true -> show r <> [].
  Proof.
    induction r as [|x|a IHa b IHb|a IHa b IHb|a IH|a IH|a IH]; intros l H; simpl in *; try discriminate.
    - destruct (show a); discriminate.
    - apply andb_true_iff in H. destruct H as [H H2]. apply andb_true_iff in H. destruct H as [_ H1].
      specialize (IHa _ H1). destruct (show a); [congruence|discriminate].
    - destruct (show a); discriminate.
    - destruct (show a); discriminate.
  Qed.

  Lemma wfl_len1 r l : wfl ok l r = true -> length (show r) = 1 -> exists a, r = XSym a /\ ok a = true.
  Proof.
    destruct r as [|x|a b|a b|a|a|a]; intros H Hl; simpl in *; try discriminate.
    - exists x. auto.
    - rewrite app_length in Hl. simpl in Hl.
      apply andb_true_iff in H. destruct H as [H H2]. apply andb_true_iff in H. destruct H as [_ H1].
      apply wfl_nonnil in H1. destruct (show a); [congruence|simpl in Hl; lia].
    - rewrite app_length in Hl.
      apply andb_true_iff in H. destruct H as [H H2]. apply andb_true_iff in H. destruct H as [_ H1].
      apply wfl_nonnil in H1. apply wfl_nonnil in H2.
      destruct (show a); [congruence|]. destruct (show b); [congruence|]. simpl in Hl. lia.
    - apply wfl_nonnil in H. rewrite app_length in Hl. simpl in Hl. destruct (show a); [congruence|simpl in Hl; lia].
    - apply wfl_nonnil in H. rewrite app_length in Hl. simpl in Hl. destruct (show a); [congruence|simpl in Hl; lia].
    - unfold paren in Hl. simpl in Hl. rewrite app_length in Hl. simpl in Hl. lia.
  Qed.

  (* the depth scan of _isbracket_req over a well-formed tree: either a '|' outside parentheses
     is found, or the scan goes on behind the tree at the same depth *)
  Lemma brk_scan_sym d a rest : sym_ok a = true -> brk_scan d (a :: rest) = brk_scan d rest.
  Proof.
    intro H. apply sym_ok_ge in H. simpl.
    assert (E1 : Nat.eqb a c_lp = false) by (apply Nat.eqb_neq; unfold c_lp; lia).
    assert (E2 : Nat.eqb a c_rp = false) by (apply Nat.eqb_neq; unfold c_rp; lia).
    assert (E3 : Nat.eqb a c_bar = false) by (apply Nat.eqb_neq; unfold c_bar; lia).
    rewrite E1, E2, E3, andb_false_r. reflexivity.
  Qed.

  Lemma brk_scan_lp d rest : brk_scan d (c_lp :: rest) = brk_scan (d + 1)%Z rest.
  Proof. simpl. rewrite andb_false_r. reflexivity. Qed.

  Lemma brk_scan_rp d rest : brk_scan (d + 1)%Z (c_rp :: rest) = brk_scan d rest.
  Proof. simpl. rewrite andb_false_r. replace (d + 1 - 1)%Z with d by lia. reflexivity. Qed.

  Lemma brk_scan_post d c rest : c = c_star \/ c = c_opt -> brk_scan d (c :: rest) = brk_scan d rest.
  Proof. intros [->| ->]; simpl; rewrite andb_false_r; reflexivity. Qed.

  Lemma brk_scan_tree r : forall l d rest, wfl ok l r = true ->
    brk_scan d (show r ++ rest) = true \/ brk_scan d (show r ++ rest) = brk_scan d rest.
  Proof.
    induction r as [|x|a IHa b IHb|a IHa b IHb|a IH|a IH|a IH]; intros l d rest H; simpl in H; try discriminate.
    - right. simpl. apply brk_scan_sym. apply ok_sym. exact H.
    - apply andb_true_iff in H. destruct H as [H H2]. apply andb_true_iff in H. destruct H as [_ H1].
      cbn [show]. rewrite <- app_assoc.
      destruct (IHa 1 d (([c_bar] ++ show b) ++ rest) H1) as [E|E]; [left; exact E|]. rewrite E.
      rewrite <- app_assoc. cbn [app].
      destruct (Z.eqb d 0) eqn:Ed.
      + left. simpl. rewrite Ed. reflexivity.
      + assert (Es : brk_scan d (c_bar :: show b ++ rest) = brk_scan d (show b ++ rest))
          by (simpl; rewrite Ed; reflexivity).
        rewrite Es. apply (IHb 2). exact H2.
    - apply andb_true_iff in H. destruct H as [H H2]. apply andb_true_iff in H. destruct H as [_ H1].
      cbn [show]. rewrite <- app_assoc.
      destruct (IHa 2 d (show b ++ rest) H1) as [E|E]; [left; exact E|]. rewrite E. apply (IHb 3). exact H2.
    - cbn [show]. rewrite <- app_assoc.
      destruct (IH 3 d ([c_star] ++ rest) H) as [E|E]; [left; exact E|]. rewrite E. right.
      apply brk_scan_post. left. reflexivity.
    - cbn [show]. rewrite <- app_assoc.
      destruct (IH 3 d ([c_opt] ++ rest) H) as [E|E]; [left; exact E|]. rewrite E. right.
      apply brk_scan_post. right. reflexivity.
    - simpl show. unfold paren. rewrite <- !app_assoc. simpl app. rewrite brk_scan_lp.
      destruct a as [|x|a1 a2|a1 a2|a1|a1|a1].
      + right. simpl show. simpl app. apply brk_scan_rp.
      + destruct (IH 1 (d + 1)%Z (c_rp :: rest) H) as [E|E]; [left; exact E|]. rewrite E. right. apply brk_scan_rp.
      + destruct (IH 1 (d + 1)%Z (c_rp :: rest) H) as [E|E]; [left; exact E|]. rewrite E. right. apply brk_scan_rp.
      + destruct (IH 1 (d + 1)%Z (c_rp :: rest) H) as [E|E]; [left; exact E|]. rewrite E. right. apply brk_scan_rp.
      + destruct (IH 1 (d + 1)%Z (c_rp :: rest) H) as [E|E]; [left; exact E|]. rewrite E. right. apply brk_scan_rp.
      + destruct (IH 1 (d + 1)%Z (c_rp :: rest) H) as [E|E]; [left; exact E|]. rewrite E. right. apply brk_scan_rp.
      + destruct (IH 1 (d + 1)%Z (c_rp :: rest) H) as [E|E]; [left; exact E|]. rewrite E. right. apply brk_scan_rp.
  Qed.

  (* no '|' outside parentheses found = the tree is not an alternative *)
  Lemma nobrk_level2 r : wfl ok 1 r = true -> isbracket_req (show r) = false -> wfl ok 2 r = true.
  Proof.
    intros H Hb. destruct r as [|x|a b|a b|a|a|a]; simpl in *; try exact H; try discriminate.
    exfalso. apply andb_true_iff in H. destruct H as [H1 H2].
    unfold isbracket_req in Hb.
    destruct (brk_scan_tree a 1 0%Z (c_bar :: show b) H1) as [E|E]; [congruence|].
    rewrite E in Hb. simpl in Hb. discriminate.
  Qed.

  Definition wf2 (r : sx) : bool := is_xeps r || wfl ok 2 r.

  Lemma wf_lab_cases r : wf_lab ok r = true -> r = XEps \/ wfl ok 1 r = true.
  Proof.
    unfold wf_lab. intro H. apply orb_true_iff in H. destruct H as [H|H]; [left|right; exact H].
    destruct r; try discriminate. reflexivity.
  Qed.

  Lemma wf2_cases r : wf2 r = true -> r = XEps \/ wfl ok 2 r = true.
  Proof.
    unfold wf2. intro H. apply orb_true_iff in H. destruct H as [H|H]; [left|right; exact H].
    destruct r; try discriminate. reflexivity.
  Qed.

  Lemma wf_lab_nil r : wf_lab ok r = true -> show r = [] -> r = XEps.
  Proof.
    intros H Hs. destruct (wf_lab_cases r H) as [E|E]; [exact E|]. apply wfl_nonnil in E. contradiction.
  Qed.

  Lemma wf_lab_paren r : wf_lab ok r = true -> wfl ok 3 (XParen r) = true.
  Proof. intro H. destruct (wf_lab_cases r H) as [->|E]; [reflexivity|]. simpl. destruct r; try exact E; discriminate. Qed.

  Lemma xbrk_wrap_wf2 r : wf_lab ok r = true -> wf2 (xbrk_wrap r) = true.
  Proof.
    intro H. unfold xbrk_wrap. destruct (isbracket_req (show r)) eqn:Eb.
    - unfold wf2. apply orb_true_iff. right.
      apply (wfl_mono (XParen r) 3 2); [lia|]. apply wf_lab_paren. exact H.
    - destruct (wf_lab_cases r H) as [->|E]; [reflexivity|].
      unfold wf2. apply orb_true_iff. right. apply nobrk_level2; assumption.
  Qed.

  Lemma cat_app_wf a b : wfl ok 2 a = true -> wfl ok 2 b = true -> wfl ok 2 (cat_app a b) = true.
  Proof.
    intro Ha. induction b as [|x|b1 IH1 b2 IH2|b1 IH1 b2 IH2|b IH|b IH|b IH]; intro Hb; simpl in *; try discriminate;
      try (rewrite Ha, Hb; reflexivity).
    apply andb_true_iff in Hb. destruct Hb as [H1 H2]. rewrite (IH1 H1), H2. reflexivity.
  Qed.

  Lemma xcat_wf2 a b : wf2 a = true -> wf2 b = true -> wf2 (xcat a b) = true.
  Proof.
    intros Ha Hb. unfold xcat. destruct (is_xeps a) eqn:Ea; [exact Hb|].
    destruct (is_xeps b) eqn:Eb; [exact Ha|].
    destruct (wf2_cases a Ha) as [->|Ha']; [discriminate|].
    destruct (wf2_cases b Hb) as [->|Hb']; [discriminate|].
    unfold wf2. apply orb_true_iff. right. apply cat_app_wf; assumption.
  Qed.

  Lemma wf2_nonnil r : wf2 r = true -> show r <> [] -> wfl ok 2 r = true.
  Proof. intros H Hs. destruct (wf2_cases r H) as [->|E]; [contradiction Hs; reflexivity|exact E]. Qed.

  Lemma wfl1_lab r : wfl ok 1 r = true -> wf_lab ok r = true.
  Proof. intro H. unfold wf_lab. rewrite H. apply orb_true_r. Qed.

  Lemma xrip_lab_wf xl q i j x :
    (forall p r y, xl p r = Some y -> wf_lab ok y = true) ->
    xrip_lab xl q i j = Some x -> wf_lab ok x = true.
  Proof.
    intros Hwf. unfold xrip_lab.
    destruct (xl i q) as [r1|] eqn:E1; [|apply Hwf].
    destruct (xl q j) as [r3|] eqn:E3; [|apply Hwf].
    pose proof (xbrk_wrap_wf2 r1 (Hwf _ _ _ E1)) as W1.
    pose proof (xbrk_wrap_wf2 r3 (Hwf _ _ _ E3)) as W3.
    set (r1' := xbrk_wrap r1) in *. set (r3' := xbrk_wrap r3) in *.
    set (r2' := match xl q q with Some r2 => _ | None => XEps end).
    assert (W2 : wf2 r2' = true).
    { unfold r2'. destruct (xl q q) as [r2|] eqn:E2; [|reflexivity].
      pose proof (Hwf _ _ _ E2) as H2. unfold wf2. apply orb_true_iff. right.
      destruct (Nat.eqb (length (show r2)) 1) eqn:El.
      - apply Nat.eqb_eq in El. destruct (wf_lab_cases r2 H2) as [->|H2']; [discriminate|].
        destruct (wfl_len1 r2 1 H2' El) as [a [-> Ha]]. simpl. exact Ha.
      - apply (wfl_mono _ 3 2); [lia|]. change (wfl ok 3 (XParen r2) = true). apply wf_lab_paren. exact H2. }
    set (mid := xcat (xcat r1' r2') r3').
    assert (Wm : wf2 mid = true) by (apply xcat_wf2; [apply xcat_wf2|]; assumption).
    assert (Sm : show mid = show r1' ++ show r2' ++ show r3')
      by (unfold mid; rewrite !show_xcat, <- app_assoc; reflexivity).
    set (n := length (show r1') + length (show r2') + length (show r3')).
    assert (Ln : length (show mid) = n) by (rewrite Sm, !app_length; unfold n; lia).
    intro H. injection H as <-.
    destruct (Nat.eqb n 0) eqn:En.
    - destruct (xl i j) as [o|] eqn:E4; [|reflexivity].
      pose proof (Hwf _ _ _ E4) as H4.
      destruct (is_nil (show o)) eqn:Eo; [reflexivity|].
      destruct (wf_lab_cases o H4) as [->|H4']; [discriminate|].
      apply wfl1_lab.
      destruct (Nat.eqb (length (show o)) 1) eqn:El.
      + apply Nat.eqb_eq in El. destruct (wfl_len1 o 1 H4' El) as [a [-> Ha]]. simpl. exact Ha.
      + simpl. destruct o; try exact H4'; discriminate.
    - apply Nat.eqb_neq in En.
      assert (Hm2 : wfl ok 2 mid = true).
      { apply wf2_nonnil; [exact Wm|]. intro E. rewrite E in Ln. simpl in Ln. lia. }
      assert (Hm1 : wfl ok 1 mid = true) by (apply (wfl_mono mid 2 1); [lia|exact Hm2]).
      destruct (xl i j) as [r4|] eqn:E4; [|apply wfl1_lab; exact Hm1].
      pose proof (Hwf _ _ _ E4) as H4. apply wfl1_lab.
      destruct (isbracket_req (show r4)) eqn:Eb.
      + simpl. rewrite Hm1. simpl. change (wfl ok 2 (XParen r4) = true).
        apply (wfl_mono _ 3 2); [lia|]. apply wf_lab_paren. exact H4.
      + destruct (is_nil (show r4)) eqn:E0.
        * destruct (Nat.ltb 1 n) eqn:E1n.
          -- simpl. destruct mid; try exact Hm1; discriminate.
          -- apply Nat.ltb_ge in E1n. assert (Hl : length (show mid) = 1) by lia.
             destruct (wfl_len1 mid 2 Hm2 Hl) as [a [-> Ha]]. simpl. exact Ha.
        * destruct (wf_lab_cases r4 H4) as [->|H4']; [discriminate|].
          simpl. rewrite Hm1. simpl. apply nobrk_level2; assumption.
  Qed.

  (* ---- label merging in from_dfa / from_nfa ---- *)
  Lemma xdfa_fold_wf l : Forall (fun a => ok a = true) l ->
    forall acc, (forall x, acc = Some x -> wfl ok 1 x = true) ->
    forall x, fold_left xdfa_step l acc = Some x -> wfl ok 1 x = true.
  Proof.
    induction 1 as [|a l Ha Hl IH]; intros acc Hacc x; simpl; [apply Hacc|].
    apply IH. intros y Hy. destruct acc as [z|]; simpl in Hy; injection Hy as <-; simpl.
    - rewrite (Hacc z eq_refl), Ha. reflexivity.
    - exact Ha.
  Qed.

  (* alternatives of postfix-level items: what from_nfa builds (no concatenation) *)
  Fixpoint alts3 (r : sx) : bool :=
    match r with
    | XAlt a b => alts3 a && wfl ok 3 b
    | _ => wfl ok 3 r
    end.

  Lemma alts3_wfl1 r : alts3 r = true -> wfl ok 1 r = true.
  Proof.
    induction r as [|x|a IHa b IHb|a IHa b IHb|a IH|a IH|a IH]; intro H; simpl in *; try exact H; try discriminate.
    - apply andb_true_iff in H. destruct H as [H1 H2]. rewrite (IHa H1). simpl.
      apply (wfl_mono b 3 2); [lia|exact H2].
  Qed.

  Lemma alts3_nobrk r : alts3 r = true -> isbracket_req (show r) = false -> wfl ok 3 r = true.
  Proof.
    intros H Hb. destruct r as [|x|a b|a b|a|a|a]; try exact H.
    exfalso. pose proof (nobrk_level2 (XAlt a b) (alts3_wfl1 _ H) Hb) as H2. simpl in H2. discriminate.
  Qed.

  Definition ogood (acc : option sx) : Prop :=
    match acc with None => True | Some x => x = XEps \/ alts3 x = true end.

  Lemma osym_ok_wfl o : (forall a, o = Some a -> ok a = true) -> o <> None -> wfl ok 3 (osym_sx o) = true.
  Proof. destruct o as [a|]; intros H Hn; [simpl; apply H; reflexivity|congruence]. Qed.

  Lemma xnfa_fold_good l : NoDup l -> (forall a, In (Some a) l -> ok a = true) ->
    forall acc, ogood acc -> (acc = Some XEps -> ~ In None l) ->
    ogood (fold_left xnfa_step l acc).
  Proof.
    induction l as [|o l IH]; intros Hnd Hok acc Hg He; simpl; [exact Hg|].
    inversion Hnd as [|? ? Hni Hnd']; subst.
    assert (Hok' : forall a, In (Some a) l -> ok a = true) by (intros a Ha; apply Hok; right; exact Ha).
    apply (IH Hnd' Hok').
    - destruct acc as [x|]; simpl.
      + destruct Hg as [->|Hx].
        * simpl. destruct o as [a|]; simpl.
          -- right. apply Hok. left. reflexivity.
          -- exfalso. apply He; [reflexivity|left; reflexivity].
        * assert (Hnn : is_nil (show x) = false).
          { pose proof (wfl_nonnil x 1 (alts3_wfl1 x Hx)) as Hs. destruct (show x); [congruence|reflexivity]. }
          rewrite Hnn. simpl. destruct o as [a|]; simpl.
          -- right. rewrite Hx. simpl. apply Hok. left. reflexivity.
          -- destruct (isbracket_req (show x)) eqn:Eb; right; simpl.
             ++ pose proof (alts3_wfl1 x Hx) as H1. destruct x; try exact H1; discriminate.
             ++ apply alts3_nobrk; assumption.
      + destruct o as [a|]; simpl; [right; apply Hok; left; reflexivity|left; reflexivity].
    - intro E. destruct acc as [x|]; simpl in E.
      + destruct Hg as [->|Hx].
        * simpl in E. destruct o; simpl in E; discriminate.
        * assert (Hnn : is_nil (show x) = false).
          { pose proof (wfl_nonnil x 1 (alts3_wfl1 x Hx)) as Hs. destruct (show x); [congruence|reflexivity]. }
          rewrite Hnn in E. simpl in E. destruct o; simpl in E; [discriminate|].
          destruct (isbracket_req (show x)); discriminate.
      + destruct o as [a|]; simpl in E; [discriminate|]. exact Hni.
  Qed.

  Lemma ogood_wf acc x : ogood acc -> acc = Some x -> wf_lab ok x = true.
  Proof.
    intros H ->. destruct H as [->|H]; [reflexivity|]. apply wfl1_lab. apply alts3_wfl1. exact H.
  Qed.
End WF.
