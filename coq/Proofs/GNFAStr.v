(* Lemmas for C12, string level: the strings built by Model/GNFAStr.v are the printings of
   annotated trees (sx) that stay properly parenthesised and denote what the AST-level model
   (Model/GNFA.v) denotes; the schedule-driven loop of to_regex rips along some order that lists
   exactly the inner states. *)
From Coq Require Import List Arith Bool Lia ZArith.
From AV Require Import Base.Util Spec.Lang Spec.FA Spec.Regex0 Model.GNFA Model.GNFAStr Proofs.FARun Proofs.GNFA.
Import ListNotations.

(* ================================================================== *)
(* A. the string functions are the tree functions, printed             *)
(* ================================================================== *)
Lemma show_cat_app a b : show (cat_app a b) = show a ++ show b.
Proof.
  induction b as [|x|b1 IH1 b2 IH2|b1 IH1 b2 IH2|b IH|b IH|b IH]; simpl; try reflexivity.
  rewrite IH1. apply app_assoc_reverse.
Qed.

Lemma show_xcat a b : show (xcat a b) = show a ++ show b.
Proof.
  unfold xcat. destruct (is_xeps a) eqn:Ea.
  - destruct a; try discriminate. reflexivity.
  - destruct (is_xeps b) eqn:Eb.
    + destruct b; try discriminate. simpl. rewrite app_nil_r. reflexivity.
    + apply show_cat_app.
Qed.

Lemma show_xbrk_wrap r : show (xbrk_wrap r) = brk_wrap (show r).
Proof. unfold xbrk_wrap, brk_wrap. destruct (isbracket_req (show r)); reflexivity. Qed.

Lemma length_nil_iff {A} (l : list A) : Nat.eqb (length l) 0 = is_nil l.
Proof. destruct l; reflexivity. Qed.

Definition oshow (o : option sx) : option str := option_map show o.

Lemma show_xrip_lab xl sl q i j :
  (forall p r, oshow (xl p r) = sl p r) ->
  oshow (xrip_lab xl q i j) = srip_lab sl q i j.
Proof.
  intro H. unfold xrip_lab, srip_lab.
  rewrite <- (H i q), <- (H q j), <- (H q q), <- (H i j).
  destruct (xl i q) as [r1|]; simpl; [|reflexivity].
  destruct (xl q j) as [r3|]; simpl; [|reflexivity].
  f_equal. rewrite !show_xbrk_wrap.
  set (s1 := brk_wrap (show r1)). set (s3 := brk_wrap (show r3)).
  assert (E2 : show (match xl q q with
                     | Some r2 => if Nat.eqb (length (show r2)) 1 then XStar r2 else XStar (XParen r2)
                     | None => XEps end)
               = match oshow (xl q q) with
                 | Some r2 => if Nat.eqb (length r2) 1 then r2 ++ [c_star] else paren r2 ++ [c_star]
                 | None => [] end).
  { destruct (xl q q) as [r2|]; simpl; [|reflexivity].
    destruct (Nat.eqb (length (show r2)) 1); reflexivity. }
  rewrite E2. set (s2 := match oshow (xl q q) with Some r2 => _ | None => _ end).
  destruct (Nat.eqb (length s1 + length s2 + length s3) 0) eqn:En.
  - destruct (xl i j) as [o|]; simpl; [|reflexivity].
    destruct (is_nil (show o)); [reflexivity|].
    destruct (Nat.eqb (length (show o)) 1); reflexivity.
  - destruct (xl i j) as [r4|]; simpl.
    + destruct (isbracket_req (show r4)) eqn:Eb.
      * simpl. rewrite !show_xcat, !show_xbrk_wrap, E2. fold s1 s2 s3. rewrite <- !app_assoc. reflexivity.
      * destruct (is_nil (show r4)) eqn:En4.
        -- simpl. destruct (Nat.ltb 1 (length s1 + length s2 + length s3)); simpl;
             rewrite !show_xcat, !show_xbrk_wrap, E2; fold s1 s2 s3; rewrite <- !app_assoc; reflexivity.
        -- simpl. rewrite !show_xcat, !show_xbrk_wrap, E2. fold s1 s2 s3.
           rewrite <- !app_assoc. reflexivity.
    + simpl. rewrite !show_xcat, !show_xbrk_wrap, E2. fold s1 s2 s3. rewrite <- !app_assoc, app_nil_r. reflexivity.
Qed.

Lemma show_xdfa_step acc a : oshow (xdfa_step acc a) = sdfa_step (oshow acc) a.
Proof. destruct acc; reflexivity. Qed.

Lemma show_osym o : show (osym_sx o) = sym_str o.
Proof. destruct o; reflexivity. Qed.

Lemma show_xnfa_step acc o : oshow (xnfa_step acc o) = snfa_step (oshow acc) o.
Proof.
  destruct acc as [l|]; simpl; [|rewrite show_osym; reflexivity].
  destruct (is_nil (show l) && is_some o); simpl; [rewrite show_osym; reflexivity|].
  destruct (negb (is_nil (show l)) && negb (is_some o)); simpl.
  - destruct (isbracket_req (show l)); reflexivity.
  - rewrite show_osym. reflexivity.
Qed.

Lemma oshow_fold {A} (xf : option sx -> A -> option sx) (sf : option str -> A -> option str) :
  (forall acc a, oshow (xf acc a) = sf (oshow acc) a) ->
  forall l acc, oshow (fold_left xf l acc) = fold_left sf l (oshow acc).
Proof.
  intros H l. induction l as [|a l IH]; intro acc; simpl; [reflexivity|]. rewrite IH, H. reflexivity.
Qed.

(* ================================================================== *)
(* B. properly parenthesised trees                                     *)
(* ================================================================== *)
Section WF.
  Variable ok : nat -> bool.
  Hypothesis ok_sym : forall a, ok a = true -> sym_ok a = true.

  Lemma sym_ok_ge a : sym_ok a = true -> 13 <= a.
  Proof. unfold sym_ok. rewrite !andb_true_iff, Nat.leb_le. tauto. Qed.

  Lemma wfl_mono r : forall l l', l' <= l -> wfl ok l r = true -> wfl ok l' r = true.
  Proof.
    destruct r; intros l l' Hle H; simpl in *; try exact H.
    - apply andb_true_iff in H. destruct H as [H H2]. apply andb_true_iff in H. destruct H as [H0 H1].
      apply Nat.leb_le in H0. rewrite H1, H2. replace (Nat.leb l' 1) with true; [reflexivity|].
      symmetry. apply Nat.leb_le. lia.
    - apply andb_true_iff in H. destruct H as [H H2]. apply andb_true_iff in H. destruct H as [H0 H1].
      apply Nat.leb_le in H0. rewrite H1, H2. replace (Nat.leb l' 2) with true; [reflexivity|].
      symmetry. apply Nat.leb_le. lia.
  Qed.

  Lemma wfl_nonnil r : forall l, wfl ok l r = true -> show r <> [].
  Proof.
    induction r as [|x|a IHa b IHb|a IHa b IHb|a IH|a IH|a IH]; intros l H; simpl in *; try discriminate.
    - destruct (show a); discriminate.
    - apply andb_true_iff in H. destruct H as [H H2]. apply andb_true_iff in H. destruct H as [_ H1].
      specialize (IHa _ H1). destruct (show a); [congruence|discriminate].
    - destruct (show a); discriminate.
    - destruct (show a); discriminate.
  Qed.

  Lemma wfl_len1 r l : wfl ok l r = true -> length (show r) = 1 -> exists a, r = XSym a /\ ok a = true.
  Proof.
    destruct r as [|x|a b|a b|a|a|a]; intros H Hl; simpl in *; try discriminate.
    - exists x. auto.
    - rewrite app_length in Hl. simpl in Hl.
      apply andb_true_iff in H. destruct H as [H H2]. apply andb_true_iff in H. destruct H as [_ H1].
      apply wfl_nonnil in H1. destruct (show a); [congruence|simpl in Hl; lia].
    - rewrite app_length in Hl.
      apply andb_true_iff in H. destruct H as [H H2]. apply andb_true_iff in H. destruct H as [_ H1].
      apply wfl_nonnil in H1. apply wfl_nonnil in H2.
      destruct (show a); [congruence|]. destruct (show b); [congruence|]. simpl in Hl. lia.
    - apply wfl_nonnil in H. rewrite app_length in Hl. simpl in Hl. destruct (show a); [congruence|simpl in Hl; lia].
    - apply wfl_nonnil in H. rewrite app_length in Hl. simpl in Hl. destruct (show a); [congruence|simpl in Hl; lia].
    - unfold paren in Hl. simpl in Hl. rewrite app_length in Hl. simpl in Hl. lia.
  Qed.

  (* the depth scan of _isbracket_req over a well-formed tree: either a '|' outside parentheses
     is found, or the scan goes on behind the tree at the same depth *)
  Lemma brk_scan_sym d a rest : sym_ok a = true -> brk_scan d (a :: rest) = brk_scan d rest.
  Proof.
    intro H. apply sym_ok_ge in H. simpl.
    assert (E1 : Nat.eqb a c_lp = false) by (apply Nat.eqb_neq; unfold c_lp; lia).
    assert (E2 : Nat.eqb a c_rp = false) by (apply Nat.eqb_neq; unfold c_rp; lia).
    assert (E3 : Nat.eqb a c_bar = false) by (apply Nat.eqb_neq; unfold c_bar; lia).
    rewrite E1, E2, E3, andb_false_r. reflexivity.
  Qed.

  Lemma brk_scan_lp d rest : brk_scan d (c_lp :: rest) = brk_scan (d + 1)%Z rest.
  Proof. simpl. rewrite andb_false_r. reflexivity. Qed.

  Lemma brk_scan_rp d rest : brk_scan (d + 1)%Z (c_rp :: rest) = brk_scan d rest.
  Proof. simpl. rewrite andb_false_r. replace (d + 1 - 1)%Z with d by lia. reflexivity. Qed.

  Lemma brk_scan_post d c rest : c = c_star \/ c = c_opt -> brk_scan d (c :: rest) = brk_scan d rest.
  Proof. intros [->| ->]; simpl; rewrite andb_false_r; reflexivity. Qed.

  Lemma brk_scan_tree r : forall l d rest, wfl ok l r = true ->
    brk_scan d (show r ++ rest) = true \/ brk_scan d (show r ++ rest) = brk_scan d rest.
  Proof.
    induction r as [|x|a IHa b IHb|a IHa b IHb|a IH|a IH|a IH]; intros l d rest H; simpl in H; try discriminate.
    - right. simpl. apply brk_scan_sym. apply ok_sym. exact H.
    - apply andb_true_iff in H. destruct H as [H H2]. apply andb_true_iff in H. destruct H as [_ H1].
      cbn [show]. rewrite <- app_assoc.
      destruct (IHa 1 d (([c_bar] ++ show b) ++ rest) H1) as [E|E]; [left; exact E|]. rewrite E.
      rewrite <- app_assoc. cbn [app].
      destruct (Z.eqb d 0) eqn:Ed.
      + left. simpl. rewrite Ed. reflexivity.
      + assert (Es : brk_scan d (c_bar :: show b ++ rest) = brk_scan d (show b ++ rest))
          by (simpl; rewrite Ed; reflexivity).
        rewrite Es. apply (IHb 2). exact H2.
    - apply andb_true_iff in H. destruct H as [H H2]. apply andb_true_iff in H. destruct H as [_ H1].
      cbn [show]. rewrite <- app_assoc.
      destruct (IHa 2 d (show b ++ rest) H1) as [E|E]; [left; exact E|]. rewrite E. apply (IHb 3). exact H2.
    - cbn [show]. rewrite <- app_assoc.
      destruct (IH 3 d ([c_star] ++ rest) H) as [E|E]; [left; exact E|]. rewrite E. right.
      apply brk_scan_post. left. reflexivity.
    - cbn [show]. rewrite <- app_assoc.
      destruct (IH 3 d ([c_opt] ++ rest) H) as [E|E]; [left; exact E|]. rewrite E. right.
      apply brk_scan_post. right. reflexivity.
    - simpl show. unfold paren. rewrite <- !app_assoc. simpl app. rewrite brk_scan_lp.
      destruct a as [|x|a1 a2|a1 a2|a1|a1|a1].
      + right. simpl show. simpl app. apply brk_scan_rp.
      + destruct (IH 1 (d + 1)%Z (c_rp :: rest) H) as [E|E]; [left; exact E|]. rewrite E. right. apply brk_scan_rp.
      + destruct (IH 1 (d + 1)%Z (c_rp :: rest) H) as [E|E]; [left; exact E|]. rewrite E. right. apply brk_scan_rp.
      + destruct (IH 1 (d + 1)%Z (c_rp :: rest) H) as [E|E]; [left; exact E|]. rewrite E. right. apply brk_scan_rp.
      + destruct (IH 1 (d + 1)%Z (c_rp :: rest) H) as [E|E]; [left; exact E|]. rewrite E. right. apply brk_scan_rp.
      + destruct (IH 1 (d + 1)%Z (c_rp :: rest) H) as [E|E]; [left; exact E|]. rewrite E. right. apply brk_scan_rp.
      + destruct (IH 1 (d + 1)%Z (c_rp :: rest) H) as [E|E]; [left; exact E|]. rewrite E. right. apply brk_scan_rp.
  Qed.

  (* no '|' outside parentheses found = the tree is not an alternative *)
  Lemma nobrk_level2 r : wfl ok 1 r = true -> isbracket_req (show r) = false -> wfl ok 2 r = true.
  Proof.
    intros H Hb. destruct r as [|x|a b|a b|a|a|a]; simpl in *; try exact H; try discriminate.
    exfalso. apply andb_true_iff in H. destruct H as [H1 H2].
    unfold isbracket_req in Hb.
    destruct (brk_scan_tree a 1 0%Z (c_bar :: show b) H1) as [E|E]; [congruence|].
    rewrite E in Hb. simpl in Hb. discriminate.
  Qed.

  Definition wf2 (r : sx) : bool := is_xeps r || wfl ok 2 r.

  Lemma wf_lab_cases r : wf_lab ok r = true -> r = XEps \/ wfl ok 1 r = true.
  Proof.
    unfold wf_lab. intro H. apply orb_true_iff in H. destruct H as [H|H]; [left|right; exact H].
    destruct r; try discriminate. reflexivity.
  Qed.

  Lemma wf2_cases r : wf2 r = true -> r = XEps \/ wfl ok 2 r = true.
  Proof.
    unfold wf2. intro H. apply orb_true_iff in H. destruct H as [H|H]; [left|right; exact H].
    destruct r; try discriminate. reflexivity.
  Qed.

  Lemma wf_lab_nil r : wf_lab ok r = true -> show r = [] -> r = XEps.
  Proof.
    intros H Hs. destruct (wf_lab_cases r H) as [E|E]; [exact E|]. apply wfl_nonnil in E. contradiction.
  Qed.

  Lemma wf_lab_paren r : wf_lab ok r = true -> wfl ok 3 (XParen r) = true.
  Proof. intro H. destruct (wf_lab_cases r H) as [->|E]; [reflexivity|]. simpl. destruct r; try exact E; discriminate. Qed.

  Lemma xbrk_wrap_wf2 r : wf_lab ok r = true -> wf2 (xbrk_wrap r) = true.
  Proof.
    intro H. unfold xbrk_wrap. destruct (isbracket_req (show r)) eqn:Eb.
    - unfold wf2. apply orb_true_iff. right.
      apply (wfl_mono (XParen r) 3 2); [lia|]. apply wf_lab_paren. exact H.
    - destruct (wf_lab_cases r H) as [->|E]; [reflexivity|].
      unfold wf2. apply orb_true_iff. right. apply nobrk_level2; assumption.
  Qed.

  Lemma cat_app_wf a b : wfl ok 2 a = true -> wfl ok 2 b = true -> wfl ok 2 (cat_app a b) = true.
  Proof.
    intro Ha. induction b as [|x|b1 IH1 b2 IH2|b1 IH1 b2 IH2|b IH|b IH|b IH]; intro Hb; simpl in *; try discriminate;
      try (rewrite Ha, Hb; reflexivity).
    apply andb_true_iff in Hb. destruct Hb as [H1 H2]. rewrite (IH1 H1), H2. reflexivity.
  Qed.

  Lemma xcat_wf2 a b : wf2 a = true -> wf2 b = true -> wf2 (xcat a b) = true.
  Proof.
    intros Ha Hb. unfold xcat. destruct (is_xeps a) eqn:Ea; [exact Hb|].
    destruct (is_xeps b) eqn:Eb; [exact Ha|].
    destruct (wf2_cases a Ha) as [->|Ha']; [discriminate|].
    destruct (wf2_cases b Hb) as [->|Hb']; [discriminate|].
    unfold wf2. apply orb_true_iff. right. apply cat_app_wf; assumption.
  Qed.

  Lemma wf2_nonnil r : wf2 r = true -> show r <> [] -> wfl ok 2 r = true.
  Proof. intros H Hs. destruct (wf2_cases r H) as [->|E]; [contradiction Hs; reflexivity|exact E]. Qed.

  Lemma wfl1_lab r : wfl ok 1 r = true -> wf_lab ok r = true.
  Proof. intro H. unfold wf_lab. rewrite H. apply orb_true_r. Qed.

  Lemma xrip_lab_wf xl q i j x :
    (forall p r y, xl p r = Some y -> wf_lab ok y = true) ->
    xrip_lab xl q i j = Some x -> wf_lab ok x = true.
  Proof.
    intros Hwf. unfold xrip_lab.
    destruct (xl i q) as [r1|] eqn:E1; [|apply Hwf].
    destruct (xl q j) as [r3|] eqn:E3; [|apply Hwf].
    pose proof (xbrk_wrap_wf2 r1 (Hwf _ _ _ E1)) as W1.
    pose proof (xbrk_wrap_wf2 r3 (Hwf _ _ _ E3)) as W3.
    set (r1' := xbrk_wrap r1) in *. set (r3' := xbrk_wrap r3) in *.
    set (r2' := match xl q q with Some r2 => _ | None => XEps end).
    assert (W2 : wf2 r2' = true).
    { unfold r2'. destruct (xl q q) as [r2|] eqn:E2; [|reflexivity].
      pose proof (Hwf _ _ _ E2) as H2. unfold wf2. apply orb_true_iff. right.
      destruct (Nat.eqb (length (show r2)) 1) eqn:El.
      - apply Nat.eqb_eq in El. destruct (wf_lab_cases r2 H2) as [->|H2']; [discriminate|].
        destruct (wfl_len1 r2 1 H2' El) as [a [-> Ha]]. simpl. exact Ha.
      - apply (wfl_mono _ 3 2); [lia|]. change (wfl ok 3 (XParen r2) = true). apply wf_lab_paren. exact H2. }
    set (mid := xcat (xcat r1' r2') r3').
    assert (Wm : wf2 mid = true) by (apply xcat_wf2; [apply xcat_wf2|]; assumption).
    assert (Sm : show mid = show r1' ++ show r2' ++ show r3')
      by (unfold mid; rewrite !show_xcat, <- app_assoc; reflexivity).
    set (n := length (show r1') + length (show r2') + length (show r3')).
    assert (Ln : length (show mid) = n) by (rewrite Sm, !app_length; unfold n; lia).
    intro H. injection H as <-.
    destruct (Nat.eqb n 0) eqn:En.
    - destruct (xl i j) as [o|] eqn:E4; [|reflexivity].
      pose proof (Hwf _ _ _ E4) as H4.
      destruct (is_nil (show o)) eqn:Eo; [reflexivity|].
      destruct (wf_lab_cases o H4) as [->|H4']; [discriminate|].
      apply wfl1_lab.
      destruct (Nat.eqb (length (show o)) 1) eqn:El.
      + apply Nat.eqb_eq in El. destruct (wfl_len1 o 1 H4' El) as [a [-> Ha]]. simpl. exact Ha.
      + simpl. destruct o; try exact H4'; discriminate.
    - apply Nat.eqb_neq in En.
      assert (Hm2 : wfl ok 2 mid = true).
      { apply wf2_nonnil; [exact Wm|]. intro E. rewrite E in Ln. simpl in Ln. lia. }
      assert (Hm1 : wfl ok 1 mid = true) by (apply (wfl_mono mid 2 1); [lia|exact Hm2]).
      destruct (xl i j) as [r4|] eqn:E4; [|apply wfl1_lab; exact Hm1].
      pose proof (Hwf _ _ _ E4) as H4. apply wfl1_lab.
      destruct (isbracket_req (show r4)) eqn:Eb.
      + simpl. rewrite Hm1. simpl. change (wfl ok 2 (XParen r4) = true).
        apply (wfl_mono _ 3 2); [lia|]. apply wf_lab_paren. exact H4.
      + destruct (is_nil (show r4)) eqn:E0.
        * destruct (Nat.ltb 1 n) eqn:E1n.
          -- simpl. destruct mid; try exact Hm1; discriminate.
          -- apply Nat.ltb_ge in E1n. assert (Hl : length (show mid) = 1) by lia.
             destruct (wfl_len1 mid 2 Hm2 Hl) as [a [-> Ha]]. simpl. exact Ha.
        * destruct (wf_lab_cases r4 H4) as [->|H4']; [discriminate|].
          simpl. rewrite Hm1. simpl. apply nobrk_level2; assumption.
  Qed.

  (* ---- label merging in from_dfa / from_nfa ---- *)
  Lemma xdfa_fold_wf l : Forall (fun a => ok a = true) l ->
    forall acc, (forall x, acc = Some x -> wfl ok 1 x = true) ->
    forall x, fold_left xdfa_step l acc = Some x -> wfl ok 1 x = true.
  Proof.
    induction 1 as [|a l Ha Hl IH]; intros acc Hacc x; simpl; [apply Hacc|].
    apply IH. intros y Hy. destruct acc as [z|]; simpl in Hy; injection Hy as <-; simpl.
    - rewrite (Hacc z eq_refl), Ha. reflexivity.
    - exact Ha.
  Qed.

  (* alternatives of postfix-level items: what from_nfa builds (no concatenation) *)
  Fixpoint alts3 (r : sx) : bool :=
    match r with
    | XAlt a b => alts3 a && wfl ok 3 b
    | _ => wfl ok 3 r
    end.

  Lemma alts3_wfl1 r : alts3 r = true -> wfl ok 1 r = true.
  Proof.
    induction r as [|x|a IHa b IHb|a IHa b IHb|a IH|a IH|a IH]; intro H; simpl in *; try exact H; try discriminate.
    - apply andb_true_iff in H. destruct H as [H1 H2]. rewrite (IHa H1). simpl.
      apply (wfl_mono b 3 2); [lia|exact H2].
  Qed.

  Lemma alts3_nobrk r : alts3 r = true -> isbracket_req (show r) = false -> wfl ok 3 r = true.
  Proof.
    intros H Hb. destruct r as [|x|a b|a b|a|a|a]; try exact H.
    exfalso. pose proof (nobrk_level2 (XAlt a b) (alts3_wfl1 _ H) Hb) as H2. simpl in H2. discriminate.
  Qed.

  Definition ogood (acc : option sx) : Prop :=
    match acc with None => True | Some x => x = XEps \/ alts3 x = true end.

  Lemma osym_ok_wfl o : (forall a, o = Some a -> ok a = true) -> o <> None -> wfl ok 3 (osym_sx o) = true.
  Proof. destruct o as [a|]; intros H Hn; [simpl; apply H; reflexivity|congruence]. Qed.

  Lemma xnfa_fold_good l : NoDup l -> (forall a, In (Some a) l -> ok a = true) ->
    forall acc, ogood acc -> (acc = Some XEps -> ~ In None l) ->
    ogood (fold_left xnfa_step l acc).
  Proof.
    induction l as [|o l IH]; intros Hnd Hok acc Hg He; simpl; [exact Hg|].
    inversion Hnd as [|? ? Hni Hnd']; subst.
    assert (Hok' : forall a, In (Some a) l -> ok a = true) by (intros a Ha; apply Hok; right; exact Ha).
    apply (IH Hnd' Hok').
    - destruct acc as [x|]; simpl.
      + destruct Hg as [->|Hx].
        * simpl. destruct o as [a|]; simpl.
          -- right. apply Hok. left. reflexivity.
          -- exfalso. apply He; [reflexivity|left; reflexivity].
        * assert (Hnn : is_nil (show x) = false).
          { pose proof (wfl_nonnil x 1 (alts3_wfl1 x Hx)) as Hs. destruct (show x); [congruence|reflexivity]. }
          rewrite Hnn. simpl. destruct o as [a|]; simpl.
          -- right. rewrite Hx. simpl. apply Hok. left. reflexivity.
          -- destruct (isbracket_req (show x)) eqn:Eb; right; simpl.
             ++ pose proof (alts3_wfl1 x Hx) as H1. destruct x; try exact H1; discriminate.
             ++ apply alts3_nobrk; assumption.
      + destruct o as [a|]; simpl; [right; apply Hok; left; reflexivity|left; reflexivity].
    - intro E. destruct acc as [x|]; simpl in E.
      + destruct Hg as [->|Hx].
        * simpl in E. destruct o; simpl in E; discriminate.
        * assert (Hnn : is_nil (show x) = false).
          { pose proof (wfl_nonnil x 1 (alts3_wfl1 x Hx)) as Hs. destruct (show x); [congruence|reflexivity]. }
          rewrite Hnn in E. simpl in E. destruct o; simpl in E; [discriminate|].
          destruct (isbracket_req (show x)); discriminate.
      + destruct o as [a|]; simpl in E; [discriminate|]. exact Hni.
  Qed.

  Lemma ogood_wf acc x : ogood acc -> acc = Some x -> wf_lab ok x = true.
  Proof.
    intros H ->. destruct H as [->|H]; [reflexivity|]. apply wfl1_lab. apply alts3_wfl1. exact H.
  Qed.
End WF.

(* ================================================================== *)
(* C. denotations                                                      *)
(* ================================================================== *)
Lemma leq_cat A A' B B' : A =L A' -> B =L B' -> l_cat A B =L l_cat A' B'.
Proof.
  intros HA HB w. unfold l_cat. split; intros (u & v & E & Hu & Hv); exists u, v;
    (split; [exact E|split; [apply HA; exact Hu|apply HB; exact Hv]]).
Qed.

Lemma leq_star A A' : A =L A' -> l_star A =L l_star A'.
Proof.
  intros HA w. split; intro H; induction H as [|u v Hu Hv IH]; try apply star_nil;
    (apply star_app; [apply HA; exact Hu|exact IH]).
Qed.

Lemma cat_assoc A B C : l_cat (l_cat A B) C =L l_cat A (l_cat B C).
Proof.
  intro w. unfold l_cat. split.
  - intros (uv & z & E & (u & v & E' & Hu & Hv) & Hz). subst. exists u, (v ++ z).
    split; [apply app_assoc_reverse|]. split; [exact Hu|]. exists v, z. auto.
  - intros (u & vz & E & Hu & (v & z & E' & Hv & Hz)). subst. exists (u ++ v), z.
    split; [apply app_assoc|]. split; [|exact Hz]. exists u, v. auto.
Qed.

Lemma cat_eps_l A : l_cat l_eps A =L A.
Proof.
  intro w. unfold l_cat, l_eps. split.
  - intros (u & v & E & -> & Hv). subst. exact Hv.
  - intro H. exists [], w. auto.
Qed.

Lemma cat_eps_r A : l_cat A l_eps =L A.
Proof.
  intro w. unfold l_cat, l_eps. split.
  - intros (u & v & E & Hu & ->). subst. rewrite app_nil_r. exact Hu.
  - intro H. exists w, []. rewrite app_nil_r. auto.
Qed.

Lemma xden_cat_app a b : xden (cat_app a b) =L l_cat (xden a) (xden b).
Proof.
  induction b as [|x|b1 IH1 b2 IH2|b1 IH1 b2 IH2|b IH|b IH|b IH]; simpl; try (intro w; reflexivity).
  eapply lang_eq_trans; [apply leq_cat; [apply IH1|apply lang_eq_refl]|]. apply cat_assoc.
Qed.

Lemma xden_xcat a b : xden (xcat a b) =L l_cat (xden a) (xden b).
Proof.
  unfold xcat. destruct (is_xeps a) eqn:Ea.
  - destruct a; try discriminate. simpl. apply lang_eq_sym. apply cat_eps_l.
  - destruct (is_xeps b) eqn:Eb.
    + destruct b; try discriminate. simpl. apply lang_eq_sym. apply cat_eps_r.
    + apply xden_cat_app.
Qed.

Lemma xden_xbrk_wrap r : xden (xbrk_wrap r) = xden r.
Proof. unfold xbrk_wrap. destruct (isbracket_req (show r)); reflexivity. Qed.

Definition lrel (x : option sx) (r : option rex) : Prop :=
  match x, r with
  | None, None => True
  | Some x, Some r => xden x =L rden r
  | _, _ => False
  end.

Lemma brk_wrap_nil s : brk_wrap s = [] -> s = [].
Proof. unfold brk_wrap. destruct (isbracket_req s); [discriminate|auto]. Qed.

Section Den.
  Variable ok : nat -> bool.
  Hypothesis ok_sym : forall a, ok a = true -> sym_ok a = true.

  Lemma xrip_lab_den xl rl q i j :
    (forall p r, lrel (xl p r) (rl p r)) ->
    (forall p r y, xl p r = Some y -> wf_lab ok y = true) ->
    lrel (xrip_lab xl q i j) (rip_lab rl q i j).
  Proof.
    intros Hrel Hwf. unfold xrip_lab, rip_lab.
    pose proof (Hrel i q) as R1. pose proof (Hrel q j) as R3.
    pose proof (Hrel q q) as R2. pose proof (Hrel i j) as R4.
    destruct (xl i q) as [r1|] eqn:E1; destruct (rl i q) as [s1|]; simpl in R1; try contradiction; [|exact R4].
    destruct (xl q j) as [r3|] eqn:E3; destruct (rl q j) as [s3|]; simpl in R3; try contradiction; [|exact R4].
    pose proof (Hwf _ _ _ E1) as W1. pose proof (Hwf _ _ _ E3) as W3.
    set (r2' := match xl q q with
                | Some r2 => if Nat.eqb (length (show r2)) 1 then XStar r2 else XStar (XParen r2)
                | None => XEps end).
    set (M := l_cat (rden s1) (l_cat (match rl q q with Some s2 => l_star (rden s2) | None => l_eps end) (rden s3))).
    assert (D2 : xden r2' =L match rl q q with Some s2 => l_star (rden s2) | None => l_eps end).
    { unfold r2'. destruct (xl q q) as [r2|]; destruct (rl q q) as [s2|]; simpl in R2; try contradiction.
      - destruct (Nat.eqb (length (show r2)) 1); simpl; apply leq_star; exact R2.
      - apply lang_eq_refl. }
    assert (Hmid : xden (xcat (xcat (xbrk_wrap r1) r2') (xbrk_wrap r3)) =L M).
    { eapply lang_eq_trans; [apply xden_xcat|].
      eapply lang_eq_trans; [apply leq_cat; [apply xden_xcat|apply lang_eq_refl]|].
      eapply lang_eq_trans; [apply cat_assoc|]. rewrite !xden_xbrk_wrap. unfold M.
      apply leq_cat; [exact R1|]. apply leq_cat; [exact D2|exact R3]. }
    assert (Hold : rden (match rl q q with
                         | Some s2 => RCat s1 (RCat (RStar s2) s3)
                         | None => RCat s1 s3 end) =L M).
    { unfold M. destruct (rl q q) as [s2|]; simpl; [apply lang_eq_refl|].
      apply leq_cat; [apply lang_eq_refl|]. apply lang_eq_sym. apply cat_eps_l. }
    set (mid := xcat (xcat (xbrk_wrap r1) r2') (xbrk_wrap r3)) in *.
    set (old := match rl q q with Some s2 => RCat s1 (RCat (RStar s2) s3) | None => RCat s1 s3 end) in *.
    set (n := length (show (xbrk_wrap r1)) + length (show r2') + length (show (xbrk_wrap r3))).
    destruct (Nat.eqb n 0) eqn:En.
    - (* the path through q only reads the empty string *)
      apply Nat.eqb_eq in En.
      assert (Hm : forall w, M w <-> w = []).
      { assert (Ls : length (show (xbrk_wrap r1)) = 0 /\ length (show r2') = 0 /\ length (show (xbrk_wrap r3)) = 0)
          by (unfold n in En; lia).
        destruct Ls as (L1 & L2 & L3).
        apply length_zero_iff_nil in L1. apply length_zero_iff_nil in L2. apply length_zero_iff_nil in L3.
        rewrite show_xbrk_wrap in L1, L3. apply brk_wrap_nil in L1. apply brk_wrap_nil in L3.
        pose proof (wf_lab_nil ok r1 W1 L1) as X1. pose proof (wf_lab_nil ok r3 W3 L3) as X3. subst r1 r3.
        assert (X2 : xl q q = None).
        { unfold r2' in L2. destruct (xl q q) as [r2|]; [|reflexivity].
          destruct (Nat.eqb (length (show r2)) 1); simpl in L2; [destruct (show r2); discriminate|discriminate]. }
        intro w. rewrite <- (Hmid w). unfold mid, r2'. rewrite X2. simpl. unfold l_eps. tauto. }
      destruct (xl i j) as [o|] eqn:E4; destruct (rl i j) as [s4|]; simpl in R4; try contradiction.
      + pose proof (Hwf _ _ _ E4) as W4.
        destruct (is_nil (show o)) eqn:Eo.
        * assert (o = XEps) by (apply (wf_lab_nil ok o W4); destruct (show o); [reflexivity|discriminate]).
          subst o. intro w. simpl. unfold l_union. rewrite (Hold w), (Hm w), <- (R4 w). simpl. unfold l_eps. tauto.
        * destruct (Nat.eqb (length (show o)) 1); intro w; simpl; unfold l_union, l_opt;
            rewrite (Hold w), (Hm w), <- (R4 w); tauto.
      + intro w. simpl. rewrite (Hold w), (Hm w). unfold l_eps. tauto.
    - destruct (xl i j) as [r4|] eqn:E4; destruct (rl i j) as [s4|]; simpl in R4; try contradiction.
      + pose proof (Hwf _ _ _ E4) as W4.
        destruct (isbracket_req (show r4)).
        * intro w. simpl. unfold l_union. rewrite (Hold w), (Hmid w), (R4 w). tauto.
        * destruct (is_nil (show r4)) eqn:E0.
          -- assert (r4 = XEps) by (apply (wf_lab_nil ok r4 W4); destruct (show r4); [reflexivity|discriminate]).
             subst r4. destruct (Nat.ltb 1 n); intro w; simpl; unfold l_union, l_opt;
               rewrite (Hold w), (Hmid w), <- (R4 w); simpl; unfold l_eps; tauto.
          -- intro w. simpl. unfold l_union. rewrite (Hold w), (Hmid w), (R4 w). tauto.
      + intro w. simpl. rewrite (Hold w), (Hmid w). tauto.
  Qed.

  (* ---- labels related pointwise: string = printing of a well-formed tree that denotes what
     the AST-level label denotes ---- *)
  Definition lab_rel (sl : nat -> nat -> option str) (rl : nat -> nat -> option rex) : Prop :=
    exists xl, forall p q, oshow (xl p q) = sl p q /\ lrel (xl p q) (rl p q) /\
                           (forall y, xl p q = Some y -> wf_lab ok y = true).

  Definition srip_fn (lab : nat -> nat -> option str) (q i j : nat) : option str :=
    if Nat.eqb i q || Nat.eqb j q then None else srip_lab lab q i j.

  Lemma lab_rel_rip sl rl q : lab_rel sl rl -> lab_rel (srip_fn sl q) (rip_fn rl q).
  Proof.
    intros [xl H]. exists (xrip_fn xl q). intros i j. unfold xrip_fn, srip_fn, rip_fn.
    destruct (Nat.eqb i q || Nat.eqb j q); [repeat split; discriminate|].
    split; [|split].
    - apply show_xrip_lab. intros p r. apply H.
    - apply xrip_lab_den; [intros p r; apply H|intros p r y; apply H].
    - intros y Hy. eapply (xrip_lab_wf ok ok_sym); [|exact Hy]. intros p r z. apply H.
  Qed.

  Lemma lab_rel_ext sl sl' rl rl' :
    (forall p q, sl p q = sl' p q) -> (forall p q, rl p q = rl' p q) -> lab_rel sl rl -> lab_rel sl' rl'.
  Proof. intros Hs Hr [xl H]. exists xl. intros p q. rewrite <- Hs, <- Hr. apply H. Qed.
End Den.

(* ================================================================== *)
(* D. tables                                                           *)
(* ================================================================== *)
Lemma sassoc2_app p q l1 l2 :
  sassoc2 p q (l1 ++ l2) = match sassoc2 p q l1 with Some r => Some r | None => sassoc2 p q l2 end.
Proof.
  induction l1 as [|[[p' q'] r] t IH]; simpl; [reflexivity|].
  destruct (Nat.eqb p p' && Nat.eqb q q'); [reflexivity|exact IH].
Qed.

Lemma sassoc2_row f p q p' l :
  sassoc2 p q (flat_map (fun q' => match f p' q' with Some r => [((p', q'), r)] | None => [] end) l)
  = if Nat.eqb p p' && memb q l then f p q else None.
Proof.
  induction l as [|x l IH]; simpl; [rewrite andb_false_r; reflexivity|].
  rewrite sassoc2_app, IH. unfold memb in *. simpl.
  destruct (Nat.eqb p p') eqn:Ep; simpl.
  - apply Nat.eqb_eq in Ep. subst p'. destruct (Nat.eqb q x) eqn:Eq; simpl.
    + apply Nat.eqb_eq in Eq. subst x. destruct (f p q) as [r|] eqn:Ef; simpl.
      * rewrite !Nat.eqb_refl. reflexivity.
      * destruct (existsb (Nat.eqb q) l); reflexivity.
    + destruct (f p x) as [r|]; simpl; [|reflexivity].
      rewrite Nat.eqb_refl, Eq. reflexivity.
  - destruct (f p' x) as [r|]; simpl; [|reflexivity]. rewrite Ep. reflexivity.
Qed.

Lemma sassoc2_tabulate_gen f p q cols rows :
  sassoc2 p q (flat_map (fun p' => flat_map (fun q' => match f p' q' with Some r => [((p', q'), r)] | None => [] end) cols) rows)
  = if memb p rows && memb q cols then f p q else None.
Proof.
  induction rows as [|x rows IH]; simpl; [reflexivity|].
  rewrite sassoc2_app, sassoc2_row, IH. unfold memb. simpl.
  destruct (Nat.eqb p x); simpl; [|reflexivity].
  destruct (existsb (Nat.eqb q) cols); simpl; [|rewrite andb_false_r; reflexivity].
  destruct (f p q); [reflexivity|]. destruct (existsb (Nat.eqb p) rows); reflexivity.
Qed.

Lemma slabel_tabulate sts i f F p q :
  slabel (mksg sts i f (stabulate sts F)) p q = if memb p sts && memb q sts then F p q else None.
Proof.
  unfold slabel, stabulate. simpl. rewrite sassoc2_tabulate_gen.
  destruct (memb p sts && memb q sts); reflexivity.
Qed.

Lemma slabel_states g p q s : slabel g p q = Some s -> In p (s_states g) /\ In q (s_states g).
Proof.
  unfold slabel. destruct (memb p (s_states g)) eqn:E1; [|discriminate].
  destruct (memb q (s_states g)) eqn:E2; [|discriminate]. intros _.
  split; apply memb_In; assumption.
Qed.

Lemma slabel_outside_l g p q : ~ In p (s_states g) -> slabel g p q = None.
Proof. intro H. destruct (slabel g p q) eqn:E; [|reflexivity]. apply slabel_states in E. tauto. Qed.

Lemma slabel_outside_r g p q : ~ In q (s_states g) -> slabel g p q = None.
Proof. intro H. destruct (slabel g p q) eqn:E; [|reflexivity]. apply slabel_states in E. tauto. Qed.

Lemma slabel_srip g q i j : slabel (srip g q) i j = srip_fn (slabel g) q i j.
Proof.
  unfold srip. rewrite slabel_tabulate, !memb_remove. unfold srip_fn.
  destruct (Nat.eqb i q) eqn:Ei; simpl; [rewrite andb_false_r; reflexivity|].
  destruct (Nat.eqb j q) eqn:Ej; simpl; [rewrite !andb_false_r; reflexivity|].
  rewrite !andb_true_r.
  destruct (memb i (s_states g)) eqn:Mi; simpl.
  - destruct (memb j (s_states g)) eqn:Mj; [reflexivity|].
    apply memb_false in Mj. unfold srip_lab.
    rewrite (slabel_outside_r g q j Mj), (slabel_outside_r g i j Mj).
    destruct (slabel g i q); reflexivity.
  - apply memb_false in Mi. unfold srip_lab.
    rewrite (slabel_outside_l g i q Mi), (slabel_outside_l g i j Mi). reflexivity.
Qed.

(* ================================================================== *)
(* E. the two GNFAs side by side                                       *)
(* ================================================================== *)
Section Rel.
  Variable ok : nat -> bool.
  Hypothesis ok_sym : forall a, ok a = true -> sym_ok a = true.

  Definition grel (s : sg) (g : gnfa) : Prop :=
    s_states s = g_states g /\ s_init s = g_init g /\ s_final s = g_final g /\
    lab_rel ok (slabel s) (label g).

  Lemma grel_rip s g q : grel s g -> grel (srip s q) (rip g q).
  Proof.
    intros (H1 & H2 & H3 & H4). unfold grel. simpl. rewrite H1. repeat split; try assumption.
    eapply lab_rel_ext; [| |apply (lab_rel_rip ok ok_sym _ _ q H4)].
    - intros i j. symmetry. apply slabel_srip.
    - intros i j. symmetry. apply label_rip.
  Qed.

  Lemma grel_elim order : forall s g, grel s g -> grel (selim_g s order) (elim_g g order).
  Proof.
    induction order as [|q r IH]; intros s g H; simpl; [exact H|]. apply IH. apply grel_rip. exact H.
  Qed.

  (* the value of to_regex along an order: the printing of a well-formed tree denoting what the
     AST-level elimination denotes; None exactly when the AST level has no edge left either *)
  Lemma grel_result s g order : grel s g ->
    match selim s order with
    | Some st => exists x, st = show x /\ wf_lab ok x = true /\ xden x =L rden (elim g order)
    | None => forall w, ~ rden (elim g order) w
    end.
  Proof.
    intro H. apply (grel_elim order) in H. destruct H as (H1 & H2 & H3 & [xl H4]).
    unfold selim, elim. rewrite H2, H3.
    destruct (H4 (g_init (elim_g g order)) (g_final (elim_g g order))) as (Hs & Hr & Hw).
    rewrite <- Hs.
    destruct (xl (g_init (elim_g g order)) (g_final (elim_g g order))) as [x|];
      destruct (label (elim_g g order) (g_init (elim_g g order)) (g_final (elim_g g order))) as [r|];
      simpl in *; try contradiction.
    - exists x. split; [reflexivity|]. split; [apply Hw; reflexivity|exact Hr].
    - intros w [].
  Qed.
End Rel.

(* ================================================================== *)
(* F. from_dfa / from_nfa                                              *)
(* ================================================================== *)
Lemma sfa_label sts q0 finals lab p q :
  slabel (sfa_gnfa sts q0 finals lab) p q =
  let i := fresh sts in let f := S i in
  if memb p (i :: f :: sts) && memb q (i :: f :: sts) then
    if Nat.eqb p i then (if Nat.eqb q q0 then Some [] else None)
    else if Nat.eqb p f then None
    else if Nat.eqb q i then None
    else if Nat.eqb q f then (if memb p finals then Some [] else None)
    else lab p q
  else None.
Proof. unfold sfa_gnfa. rewrite slabel_tabulate. reflexivity. Qed.

Lemma map_flat_map_if {A B C} (c : A -> bool) (h : A -> B) (g : B -> C) l :
  map g (flat_map (fun e => if c e then [h e] else []) l) = flat_map (fun e => if c e then [g (h e)] else []) l.
Proof. induction l as [|e l IH]; simpl; [reflexivity|]. destruct (c e); simpl; rewrite IH; reflexivity. Qed.

Lemma in_flat_map_if {A B} (c : A -> bool) (h : A -> B) l x :
  In x (flat_map (fun e => if c e then [h e] else []) l) -> exists e, In e l /\ c e = true /\ x = h e.
Proof.
  intro H. apply in_flat_map in H. destruct H as (e & He & Hx). exists e.
  destruct (c e); [|destruct Hx]. destruct Hx as [<-|[]]. auto.
Qed.

Lemma NoDup_flat_map_if {A B} (c : A -> bool) (h : A -> B) l :
  NoDup (map h l) -> NoDup (flat_map (fun e => if c e then [h e] else []) l).
Proof.
  induction l as [|e l IH]; simpl; intro H; [constructor|]. inversion H as [|? ? Hn Hd]; subst.
  destruct (c e); simpl; [|apply IH; exact Hd]. constructor; [|apply IH; exact Hd].
  intro Hi. apply in_flat_map_if in Hi. destruct Hi as (e' & He' & _ & E). apply Hn. rewrite E. apply in_map. exact He'.
Qed.

Lemma onodupb_NoDup l : onodupb l = true -> NoDup l.
Proof.
  induction l as [|x l IH]; simpl; intro H; [constructor|].
  apply andb_true_iff in H. destruct H as [H1 H2]. constructor; [|apply IH; exact H2].
  intro Hi. apply negb_true_iff in H1.
  assert (existsb (eqb_opt Nat.eqb x) l = true); [|congruence].
  apply existsb_exists. exists x. split; [exact Hi|]. apply (eqb_opt_ok _ eqb_nat_ok). reflexivity.
Qed.

Section FromFA.
  Variable sigma : list nat.
  Hypothesis Hsig : forallb sym_ok sigma = true.
  Let ok := sym_in sigma.

  Lemma ok_sym_in a : ok a = true -> sym_ok a = true.
  Proof. unfold ok, sym_in. intro H. apply andb_true_iff in H. tauto. Qed.

  Lemma ok_of_in a : In a sigma -> ok a = true.
  Proof.
    intro H. unfold ok, sym_in. apply andb_true_iff. split; [|apply memb_In; exact H].
    rewrite forallb_forall in Hsig. apply Hsig. exact H.
  Qed.

  Lemma grel_fa sts q0 finals slab rlab :
    lab_rel ok slab rlab -> grel ok (sfa_gnfa sts q0 finals slab) (fa_gnfa sts q0 finals rlab).
  Proof.
    intros [xl H]. unfold grel. repeat split.
    exists (fun p q =>
      let i := fresh sts in let f := S i in
      if memb p (i :: f :: sts) && memb q (i :: f :: sts) then
        if Nat.eqb p i then (if Nat.eqb q q0 then Some XEps else None)
        else if Nat.eqb p f then None
        else if Nat.eqb q i then None
        else if Nat.eqb q f then (if memb p finals then Some XEps else None)
        else xl p q
      else None).
    intros p q. rewrite sfa_label, fa_label. cbv zeta.
    destruct (memb p (fresh sts :: S (fresh sts) :: sts) && memb q (fresh sts :: S (fresh sts) :: sts));
      [|repeat split; discriminate].
    destruct (Nat.eqb p (fresh sts)).
    { destruct (Nat.eqb q q0); repeat split; try discriminate; try (intro w; reflexivity); try (intro Hx; exact Hx).
      intros y Hy. injection Hy as <-. reflexivity. }
    destruct (Nat.eqb p (S (fresh sts))); [repeat split; discriminate|].
    destruct (Nat.eqb q (fresh sts)); [repeat split; discriminate|].
    destruct (Nat.eqb q (S (fresh sts))); [|apply H].
    destruct (memb p finals); repeat split; try discriminate; try (intro w; reflexivity); try (intro Hx; exact Hx).
    intros y Hy. injection Hy as <-. reflexivity.
  Qed.

  (* ---- from_dfa ---- *)
  Lemma dfa_fold_den t : forall x r, xden x =L rden r ->
    exists y, fold_left xdfa_step t (Some x) = Some y /\ xden y =L rden (fold_left RUnion (map RSym t) r).
  Proof.
    induction t as [|a t IH]; intros x r H; simpl; [exists x; auto|].
    apply IH. intro w. simpl. unfold l_union. rewrite (H w). tauto.
  Qed.

  Lemma dfa_lab_rel d : valid_dfa d = true -> d_syms d = sigma -> lab_rel ok (sdfa_lab d) (dfa_lab d).
  Proof.
    intros Hv Hs.
    exists (fun p q => match d_row d p with
                       | Some row => fold_left xdfa_step (dfa_syms_to row q) None
                       | None => None end).
    intros p q. unfold sdfa_lab, dfa_lab. destruct (d_row d p) as [row|] eqn:Er; [|repeat split; discriminate].
    set (c := fun e : nat * nat => eqb_opt Nat.eqb (assoc (fst e) row) (Some q)).
    assert (El : flat_map (fun e => if c e then [RSym (fst e)] else []) row = map RSym (dfa_syms_to row q))
      by (unfold dfa_syms_to; rewrite map_flat_map_if; reflexivity).
    unfold c in El. rewrite El. split; [|split].
    - rewrite (oshow_fold _ _ show_xdfa_step). reflexivity.
    - destruct (dfa_syms_to row q) as [|a t]; simpl; [exact I|].
      destruct (dfa_fold_den t (XSym a) (RSym a)) as (y & Ey & Hy); [intro w; reflexivity|].
      rewrite Ey. exact Hy.
    - intros y Hy. apply wfl1_lab. eapply (xdfa_fold_wf ok); [| |exact Hy]; [|intros ? E; discriminate E].
      apply Forall_forall. intros a Ha. unfold dfa_syms_to in Ha. apply in_flat_map_if in Ha.
      destruct Ha as (e & He & _ & ->). apply ok_of_in. rewrite <- Hs.
      destruct (valid_dfa_parts d Hv) as (_ & _ & _ & _ & Hrow & _).
      unfold d_row in Er. apply assoc_In in Er. specialize (Hrow _ _ Er). unfold row_ok in Hrow.
      rewrite !andb_true_iff in Hrow. destruct Hrow as [[_ Hr] _]. rewrite forallb_forall in Hr.
      specialize (Hr e He). apply andb_true_iff in Hr. apply memb_In. tauto.
  Qed.

  (* ---- from_nfa ---- *)
  Lemma osym_den o : xden (osym_sx o) =L rden (osym_rex o).
  Proof. destruct o; intro w; reflexivity. Qed.

  Lemma alts3_nonnil x : alts3 ok x = true -> is_nil (show x) = false.
  Proof.
    intro H. pose proof (wfl_nonnil ok x 1 (alts3_wfl1 ok x H)) as Hs. destruct (show x); [congruence|reflexivity].
  Qed.

  Lemma xnfa_step_den x r o :
    (x = XEps \/ alts3 ok x = true) -> ~ (x = XEps /\ o = None) ->
    (forall a, o = Some a -> ok a = true) -> xden x =L rden r ->
    exists y, xnfa_step (Some x) o = Some y /\ xden y =L rden (RUnion r (osym_rex o)) /\ alts3 ok y = true.
  Proof.
    intros Hg Hne Hok Hd. simpl. destruct Hg as [->|Hx].
    - destruct o as [a|]; [|exfalso; apply Hne; auto]. simpl.
      eexists. split; [reflexivity|]. split; [|simpl; apply Hok; reflexivity].
      intro w. simpl. unfold l_opt, l_union. rewrite <- (Hd w). simpl. unfold l_eps. tauto.
    - rewrite (alts3_nonnil x Hx). simpl. destruct o as [a|]; simpl.
      + eexists. split; [reflexivity|]. split; [|simpl; rewrite Hx; apply Hok; reflexivity].
        intro w. simpl. unfold l_union. rewrite (Hd w). tauto.
      + destruct (isbracket_req (show x)) eqn:Eb; eexists; (split; [reflexivity|]); split.
        * intro w. simpl. unfold l_opt, l_union, l_eps. rewrite (Hd w). tauto.
        * simpl. pose proof (alts3_wfl1 ok x Hx) as H1. destruct x; try exact H1; discriminate.
        * intro w. simpl. unfold l_opt, l_union, l_eps. rewrite (Hd w). tauto.
        * simpl. apply (alts3_nobrk ok ok_sym_in); assumption.
  Qed.

  Lemma nfa_fold_den l : NoDup l -> (forall a, In (Some a) l -> ok a = true) ->
    forall x r, (x = XEps \/ alts3 ok x = true) -> (x = XEps -> ~ In None l) -> xden x =L rden r ->
    exists y, fold_left xnfa_step l (Some x) = Some y /\
              xden y =L rden (fold_left RUnion (map osym_rex l) r) /\ (y = XEps \/ alts3 ok y = true).
  Proof.
    induction l as [|o l IH]; intros Hnd Hok x r Hg He Hd; [exists x; auto|].
    inversion Hnd as [|? ? Hni Hnd']; subst.
    destruct (xnfa_step_den x r o Hg) as (y & Ey & Hy & Ay).
    - intros [-> ->]. apply He; [reflexivity|left; reflexivity].
    - intros a ->. apply Hok. left. reflexivity.
    - exact Hd.
    - cbn [fold_left map]. rewrite Ey. apply IH.
      + exact Hnd'.
      + intros a Ha. apply Hok. right. exact Ha.
      + right. exact Ay.
      + intros ->. discriminate.
      + exact Hy.
  Qed.

  Lemma nfa_lab_rel n : valid_nfa n = true -> n_syms n = sigma -> nfa_keys_nodup n = true ->
    lab_rel ok (snfa_lab n) (nfa_lab n).
  Proof.
    intros Hv Hs Hk.
    exists (fun p q => match assoc p (n_trans n) with
                       | Some row => fold_left xnfa_step (nfa_syms_to n p row q) None
                       | None => None end).
    intros p q. unfold snfa_lab, nfa_lab. destruct (assoc p (n_trans n)) as [row|] eqn:Er; [|repeat split; discriminate].
    set (c := fun e : option nat * list nat => memb q (n_targets n p (fst e))).
    assert (El : flat_map (fun e => if c e then [osym_rex (fst e)] else []) row = map osym_rex (nfa_syms_to n p row q))
      by (unfold nfa_syms_to; rewrite map_flat_map_if; reflexivity).
    unfold c in El. rewrite El.
    pose proof (assoc_In _ _ _ Er) as Hin.
    assert (Hnd : NoDup (nfa_syms_to n p row q)).
    { unfold nfa_syms_to. apply NoDup_flat_map_if. apply onodupb_NoDup.
      unfold nfa_keys_nodup in Hk. rewrite forallb_forall in Hk. apply (Hk (p, row)). exact Hin. }
    assert (Hok : forall a, In (Some a) (nfa_syms_to n p row q) -> ok a = true).
    { intros a Ha. unfold nfa_syms_to in Ha. apply in_flat_map_if in Ha. destruct Ha as (e & He & _ & E).
      apply ok_of_in. rewrite <- Hs. destruct (valid_nfa_parts n Hv) as (_ & Hrow & _).
      specialize (Hrow _ _ Hin). unfold nrow_ok in Hrow. rewrite forallb_forall in Hrow.
      specialize (Hrow e He). rewrite <- E in Hrow. apply andb_true_iff in Hrow. apply memb_In. tauto. }
    assert (Hmain : match nfa_syms_to n p row q with
                    | [] => True
                    | o :: t => exists y, fold_left xnfa_step t (Some (osym_sx o)) = Some y /\
                                          xden y =L rden (fold_left RUnion (map osym_rex t) (osym_rex o)) /\
                                          (y = XEps \/ alts3 ok y = true)
                    end).
    { destruct (nfa_syms_to n p row q) as [|o t]; [exact I|].
      apply NoDup_cons_iff in Hnd. destruct Hnd as [Hni Hnd']. apply nfa_fold_den.
      - exact Hnd'.
      - intros a Ha. apply Hok. right. exact Ha.
      - destruct o as [a|]; [right; simpl; apply Hok; left; reflexivity|left; reflexivity].
      - intro E. destruct o; [discriminate|exact Hni].
      - apply osym_den. }
    split; [|split].
    - rewrite (oshow_fold _ _ show_xnfa_step). reflexivity.
    - destruct (nfa_syms_to n p row q) as [|o t]; simpl; [exact I|].
      destruct Hmain as (y & Ey & Hy & _). rewrite Ey. exact Hy.
    - intros y Hy. destruct (nfa_syms_to n p row q) as [|o t]; simpl in Hy; [discriminate|].
      destruct Hmain as (y' & Ey & _ & Gy). rewrite Ey in Hy. injection Hy as <-.
      destruct Gy as [->|Gy]; [reflexivity|]. apply wfl1_lab. apply alts3_wfl1. exact Gy.
  Qed.

  Lemma grel_of_dfa d : valid_dfa d = true -> d_syms d = sigma -> grel ok (sgnfa_of_dfa d) (gnfa_of_dfa d).
  Proof. intros Hv Hs. apply grel_fa. apply dfa_lab_rel; assumption. Qed.

  Lemma grel_of_nfa n : valid_nfa n = true -> n_syms n = sigma -> nfa_keys_nodup n = true ->
    grel ok (sgnfa_of_nfa n) (gnfa_of_nfa n).
  Proof. intros Hv Hs Hk. apply grel_fa. apply nfa_lab_rel; assumption. Qed.
End FromFA.

(* ================================================================== *)
(* G. the loop of to_regex under an arbitrary schedule                 *)
(* ================================================================== *)
Definition sg_ok (g : sg) : Prop :=
  NoDup (s_states g) /\ In (s_init g) (s_states g) /\ In (s_final g) (s_states g) /\ s_init g <> s_final g.

Lemma argmin_first_In deg l : forall q, argmin_first deg l = Some q -> In q l.
Proof.
  induction l as [|c r IH]; intros q H; simpl in H; [discriminate|].
  destruct (argmin_first deg r) as [m|].
  - destruct (Nat.ltb (deg m) (deg c)); injection H as <-; [right; apply IH; reflexivity|left; reflexivity].
  - injection H as <-. left. reflexivity.
Qed.

Lemma argmin_first_None deg l : argmin_first deg l = None -> l = [].
Proof.
  destruct l as [|c r]; [reflexivity|]. simpl. destruct (argmin_first deg r) as [m|]; [|discriminate].
  destruct (Nat.ltb (deg m) (deg c)); discriminate.
Qed.

Lemma cand_order_In inner hint x : In x (cand_order inner hint) <-> In x inner.
Proof.
  unfold cand_order. rewrite in_app_iff, !filter_In, memb_In, negb_true_iff, memb_false. split.
  - intros [[_ H]|[H _]]; exact H.
  - intro H. destruct (in_dec Nat.eq_dec x hint) as [Hh|Hh]; [left|right]; auto.
Qed.

Lemma inner_In g x : In x (inner_states g) <-> In x (s_states g) /\ x <> s_init g /\ x <> s_final g.
Proof. unfold inner_states. rewrite !remove_nat_In. tauto. Qed.

Lemma remove_nat_NoDup q l : NoDup l -> NoDup (remove_nat q l).
Proof. intro H. unfold remove_nat. apply NoDup_filter. exact H. Qed.

Lemma remove_nat_length q l : NoDup l -> In q l -> S (length (remove_nat q l)) = length l.
Proof.
  induction l as [|x l IH]; intros Hnd Hin; [destruct Hin|].
  inversion Hnd as [|? ? Hn Hd]; subst. simpl. destruct (Nat.eqb x q) eqn:E; simpl.
  - apply Nat.eqb_eq in E. subst x. f_equal.
    assert (Hid : remove_nat q l = l); [|rewrite Hid; reflexivity].
    unfold remove_nat. clear IH Hnd Hd Hin. induction l as [|y l IH]; [reflexivity|]. simpl.
    destruct (Nat.eqb y q) eqn:E; simpl.
    + apply Nat.eqb_eq in E. subst y. exfalso. apply Hn. left. reflexivity.
    + f_equal. apply IH. intro H. apply Hn. right. exact H.
  - apply Nat.eqb_neq in E. destruct Hin as [Hin|Hin]; [congruence|]. f_equal. apply IH; assumption.
Qed.

Lemma srip_ok g q : sg_ok g -> q <> s_init g -> q <> s_final g -> sg_ok (srip g q).
Proof.
  intros (H1 & H2 & H3 & H4) Hi Hf. unfold sg_ok. simpl. rewrite !remove_nat_In.
  repeat split; try assumption; try congruence. apply remove_nat_NoDup. exact H1.
Qed.

Lemma two_states g p : sg_ok g -> length (s_states g) <= 2 -> In p (s_states g) -> p = s_init g \/ p = s_final g.
Proof.
  intros (H1 & H2 & H3 & H4) Hl Hp.
  destruct (s_states g) as [|x [|y [|z l]]]; simpl in *; try lia; try tauto.
  all: try (destruct H2 as [H2|[]], H3 as [H3|[]]; congruence).
  all: destruct H2 as [H2|[H2|[]]], H3 as [H3|[H3|[]]], Hp as [Hp|[Hp|[]]]; subst; try tauto; try congruence.
Qed.

Lemma many_states g : sg_ok g -> 2 < length (s_states g) -> inner_states g <> [].
Proof.
  intros (H1 & H2 & H3 & H4) Hl E.
  assert (Hincl : incl (s_states g) [s_init g; s_final g]).
  { intros p Hp. destruct (Nat.eq_dec p (s_init g)) as [->|Ni]; [left; reflexivity|].
    destruct (Nat.eq_dec p (s_final g)) as [->|Nf]; [right; left; reflexivity|].
    exfalso. assert (Hi : In p (inner_states g)) by (apply inner_In; auto). rewrite E in Hi. destruct Hi. }
  pose proof (NoDup_incl_length H1 Hincl) as Hle. simpl in Hle. lia.
Qed.

Lemma sloop_spec fuel : forall g sched acc, sg_ok g -> length (s_states g) <= fuel + 2 ->
  exists order, sloop fuel g sched acc = Ok (selim_g g order, rev acc ++ order) /\
    (forall q, In q order -> q <> s_init g /\ q <> s_final g) /\
    (forall p, In p (s_states g) -> p = s_init g \/ p = s_final g \/ In p order).
Proof.
  induction fuel as [|f IH]; intros g sched acc Hok Hlen.
  - exists []. assert (E : Nat.ltb 2 (length (s_states g)) = false) by (apply Nat.ltb_ge; lia).
    simpl. rewrite E, app_nil_r. split; [reflexivity|]. split; [intros q []|].
    intros p Hp. destruct (two_states g p Hok) as [H|H]; auto.
  - cbn [sloop]. destruct (Nat.ltb 2 (length (s_states g))) eqn:E.
    + apply Nat.ltb_lt in E.
      destruct (argmin_first (degree g) (cand_order (inner_states g) (hd [] sched))) as [q|] eqn:Ea.
      * apply argmin_first_In in Ea. apply cand_order_In in Ea. apply inner_In in Ea. destruct Ea as (Hq & Hqi & Hqf).
        destruct (IH (srip g q) (tl sched) (q :: acc)) as (order & Eo & Hav & Hcov).
        -- apply srip_ok; assumption.
        -- simpl. destruct Hok as (Hnd & _). pose proof (remove_nat_length q _ Hnd Hq). lia.
        -- exists (q :: order). split; [|split].
           ++ rewrite Eo. simpl. rewrite <- app_assoc. reflexivity.
           ++ intros x [<-|Hx]; [auto|]. apply (Hav x Hx).
           ++ intros p Hp. destruct (Nat.eq_dec p q) as [->|Hne]; [right; right; left; reflexivity|].
              destruct (Hcov p) as [H|[H|H]]; auto; [|right; right; right; exact H].
              simpl. apply remove_nat_In. auto.
      * exfalso. apply argmin_first_None in Ea. apply (many_states g Hok E).
        destruct (inner_states g) as [|x l] eqn:Ei; [reflexivity|].
        assert (Hx : In x (cand_order (x :: l) (hd [] sched))) by (apply cand_order_In; left; reflexivity).
        rewrite Ea in Hx. destruct Hx.
    + exists []. rewrite app_nil_r. split; [reflexivity|]. split; [intros q []|].
      apply Nat.ltb_ge in E. intros p Hp. destruct (two_states g p Hok E Hp) as [H|H]; auto.
Qed.

Lemma sto_regex_spec g sched : sg_ok g ->
  exists order, sto_regex g sched = Ok (selim g order, order) /\
    (forall q, In q order -> q <> s_init g /\ q <> s_final g) /\
    (forall p, In p (s_states g) -> p = s_init g \/ p = s_final g \/ In p order).
Proof.
  intro Hok. destruct (sloop_spec (length (s_states g)) g sched [] Hok) as (order & E & H1 & H2); [lia|].
  exists order. unfold sto_regex. rewrite E. simpl. split; [reflexivity|]. split; assumption.
Qed.

Lemma selim_g_init g order : s_init (selim_g g order) = s_init g /\ s_final (selim_g g order) = s_final g.
Proof. revert g. induction order as [|q r IH]; intro g; simpl; [split; reflexivity|]. apply (IH (srip g q)). Qed.

Lemma sfa_gnfa_ok sts q0 finals lab : NoDup sts -> sg_ok (sfa_gnfa sts q0 finals lab).
Proof.
  intro H. unfold sg_ok, sfa_gnfa. simpl. repeat split.
  - constructor; [|constructor; [|exact H]].
    + intros [E|Hi]; [lia|]. apply fresh_gt in Hi. lia.
    + intro Hi. apply fresh_gt in Hi. lia.
  - left. reflexivity.
  - right. left. reflexivity.
  - lia.
Qed.

(* ================================================================== *)
(* H. end to end at string level, for every schedule                   *)
(* ================================================================== *)
Section EndToEnd.
  Variable ok : nat -> bool.
  Hypothesis ok_sym : forall a, ok a = true -> sym_ok a = true.

  (* whatever the schedule: the result of the string-level to_regex is the printing of a
     well-formed tree that denotes the language of the AST-level GNFA *)
  Lemma to_regex_string s g sched : grel ok s g -> sg_ok s -> gnfa_ok g ->
    exists order, sto_regex s sched = Ok (selim s order, order) /\
      match selim s order with
      | Some st => exists x, st = show x /\ wf_lab ok x = true /\ xden x =L L_gnfa g
      | None => forall w, ~ L_gnfa g w
      end.
  Proof.
    intros Hrel Hs Hg. destruct (sto_regex_spec s sched Hs) as (order & E & Hav & Hcov).
    exists order. split; [exact E|].
    destruct Hrel as (R1 & R2 & R3 & R4).
    assert (Hel : rden (elim g order) =L L_gnfa g).
    { apply elim_lang; [exact Hg| | |].
      - intro Hi. rewrite <- R2 in Hi. destruct (Hav _ Hi) as [H _]. apply H. reflexivity.
      - intro Hi. rewrite <- R3 in Hi. destruct (Hav _ Hi) as [_ H]. apply H. reflexivity.
      - intros p Hp. rewrite <- R1 in Hp. rewrite <- R2, <- R3. apply Hcov. exact Hp. }
    pose proof (grel_result ok ok_sym s g order (conj R1 (conj R2 (conj R3 R4)))) as Hres.
    destruct (selim s order) as [st|].
    - destruct Hres as (x & Ex & Wx & Dx). exists x. split; [exact Ex|]. split; [exact Wx|].
      eapply lang_eq_trans; [exact Dx|exact Hel].
    - intros w Hw. apply (Hres w). apply Hel. exact Hw.
  Qed.
End EndToEnd.

Theorem dfa_to_regex_string d sched : valid_dfa d = true -> forallb sym_ok (d_syms d) = true ->
  exists order, dfa_to_regex d sched = Ok (selim (sgnfa_of_dfa d) order, order) /\
    match selim (sgnfa_of_dfa d) order with
    | Some st => exists x, st = show x /\ wf_lab (sym_in (d_syms d)) x = true /\ xden x =L L_dfa d
    | None => forall w, ~ L_dfa d w
    end.
Proof.
  intros Hv Hs. destruct (valid_dfa_parts d Hv) as (Hnd & _).
  destruct (to_regex_string (sym_in (d_syms d)) (ok_sym_in (d_syms d)) (sgnfa_of_dfa d) (gnfa_of_dfa d) sched)
    as (order & E & H).
  - exact (grel_of_dfa (d_syms d) Hs d Hv eq_refl).
  - apply sfa_gnfa_ok. exact Hnd.
  - apply gnfa_of_dfa_ok. exact Hv.
  - exists order. split; [exact E|]. pose proof (gnfa_of_dfa_lang d Hv) as HL.
    destruct (selim (sgnfa_of_dfa d) order) as [st|].
    + destruct H as (x & Ex & Wx & Dx). exists x. split; [exact Ex|]. split; [exact Wx|].
      eapply lang_eq_trans; [exact Dx|exact HL].
    + intros w Hw. apply (H w). apply HL. exact Hw.
Qed.

Theorem nfa_to_regex_string n sched : valid_nfa n = true -> forallb sym_ok (n_syms n) = true ->
  nfa_keys_nodup n = true ->
  exists order, nfa_to_regex n sched = Ok (selim (sgnfa_of_nfa n) order, order) /\
    match selim (sgnfa_of_nfa n) order with
    | Some st => exists x, st = show x /\ wf_lab (sym_in (n_syms n)) x = true /\ xden x =L L_nfa n
    | None => forall w, ~ L_nfa n w
    end.
Proof.
  intros Hv Hs Hk. destruct (valid_nfa_parts n Hv) as (Hnd & _).
  destruct (to_regex_string (sym_in (n_syms n)) (ok_sym_in (n_syms n)) (sgnfa_of_nfa n) (gnfa_of_nfa n) sched)
    as (order & E & H).
  - exact (grel_of_nfa (n_syms n) Hs n Hv eq_refl Hk).
  - apply sfa_gnfa_ok. exact Hnd.
  - apply gnfa_of_nfa_ok. exact Hv.
  - exists order. split; [exact E|]. pose proof (gnfa_of_nfa_lang n Hv) as HL.
    destruct (selim (sgnfa_of_nfa n) order) as [st|].
    + destruct H as (x & Ex & Wx & Dx). exists x. split; [exact Ex|]. split; [exact Wx|].
      eapply lang_eq_trans; [exact Dx|exact HL].
    + intros w Hw. apply (H w). apply HL. exact Hw.
Qed.
