(* C19, second part:
   (1) GNFA: one "broken rule" constructor per structural rule of GNFA.validate, with the
       three generic theorems (error kind sound, broken => rejected, single kind);
   (2) the ORDER of the checks: every checker is compared with the list of its rules as
       propositions, in the code's checking order; validate() reports the first broken one;
   (3) the TM validity predicates of Spec/TM.v (hypotheses of the C03 / C17 theorems) against the
       constructors' checkers, through the embeddings of Model/ValidateEmbed.v. *)
From Coq Require Import List Arith Bool Lia.
From AV Require Import Base.Util Spec.Lang Spec.FA Spec.TM Model.MNTMSim Model.Validate Model.ValidateEmbed
                       Proofs.Validate.
Import ListNotations.

(* ================================================================== *)
(* (1) GNFA: documented exception per rule                             *)
(* ================================================================== *)
(* The rules are the ones GNFA.validate checks (fa/gnfa.py 233-312).  "The initial state has no
   incoming transitions" of the class docstring is NOT among them: a row only has to cover
   states - {initial}; a key equal to the initial state is an ordinary end state. *)
Inductive gnfa_broken (m : gnfa) : nat -> Prop :=
| gb_init : ~ In (g_init m) (g_states m) -> gnfa_broken m 1                     (* InvalidStateError *)
| gb_final : ~ In (g_final m) (g_states m) -> gnfa_broken m 1
| gb_label q row t : In (q, row) (g_trans m) -> In (t, Some false) row -> gnfa_broken m 10   (* InvalidRegexError *)
| gb_final_row row : In (g_final m, row) (g_trans m) -> row <> [] -> gnfa_broken m 1       (* final state has outgoing transitions *)
| gb_incomplete q row s : In (q, row) (g_trans m) -> q <> g_final m -> In s (g_states m) -> s <> g_init m ->
    ~ In s (map fst row) -> gnfa_broken m 3                                     (* MissingStateError: incomplete table *)
| gb_end q row t l : In (q, row) (g_trans m) -> In (t, l) row -> ~ In t (g_states m) -> gnfa_broken m 1
| gb_init_row : ~ In (g_init m) (map fst (g_trans m)) -> 1 < length (g_states m) -> gnfa_broken m 3.

Lemma gnfa_bad_broken m k : In (k, false) (gnfa_checks m) -> gnfa_broken m k.
Proof.
  intro Hc. apply gnfa_checks_In in Hc. destruct Hc as [Hc|[Hc|[[[q row] [Hrow Hc]]|Hc]]].
  - inversion Hc as [[Ek E]]. symmetry in E. apply gb_init. apply memb_false. exact E.
  - inversion Hc as [[Ek E]]. symmetry in E. apply gb_final. apply memb_false. exact E.
  - simpl in Hc. destruct Hc as [Hc|[Hc|[Hc|[]]]].
    + inversion Hc as [[Ek E]]. apply forallb_false in E. destruct E as [[t [[|]|]] [Ht E]]; simpl in E; try discriminate.
      exact (gb_label m q row t Hrow Ht).
    + destruct (Nat.eqb q (g_final m)) eqn:Eq; inversion Hc as [[Ek E]].
      * apply Nat.eqb_eq in Eq. subst q. apply (gb_final_row m row Hrow). intro Hn. subst row. discriminate.
      * apply Nat.eqb_neq in Eq. apply forallb_false in E. destruct E as [s [Hs E]].
        apply orb_false_iff in E. destruct E as [E1 E2]. apply Nat.eqb_neq in E1.
        apply (gb_incomplete m q row s Hrow Eq Hs E1). apply memb_false. exact E2.
    + inversion Hc as [[Ek E]]. apply forallb_false in E. destruct E as [[t l] [Ht E]]. simpl in E.
      apply (gb_end m q row t l Hrow Ht). apply memb_false. exact E.
  - inversion Hc as [[Ek E]]. symmetry in E. apply orb_false_iff in E. destruct E as [E1 E2].
    apply gb_init_row; [apply memb_false; exact E1|apply leb_1_false; exact E2].
Qed.

Lemma wf_gnfa_sound m k : wf_gnfa m -> ~ gnfa_broken m k.
Proof.
  intros [H1 H2 H3 H4 H5 H6 H7] Hb. inversion Hb; subst.
  - contradiction.
  - contradiction.
  - match goal with Ha : In (?q, ?row) (g_trans m), Hb : In (?t, Some false) ?row |- _ =>
      pose proof (H3 q row t false Ha Hb) end. discriminate.
  - match goal with Ha : In (g_final m, ?row) (g_trans m), Hn : ?row <> [] |- _ => apply Hn; exact (H4 row Ha) end.
  - match goal with Hn : ~ In _ (map fst _) |- _ => apply Hn end. eapply H5; eassumption.
  - match goal with Hn : ~ In _ (g_states m) |- _ => apply Hn end. eapply H6; eassumption.
  - destruct H7 as [H7|H7]; [contradiction|lia].
Qed.

Theorem gnfa_validate_err_sound m e : gnfa_validate m = Err e -> exists k, e = Invalid k /\ gnfa_broken m k.
Proof. exact (g_err_sound gnfa gnfa_checks gnfa_broken gnfa_bad_broken m e). Qed.

Theorem gnfa_broken_rejected m k : gnfa_broken m k -> exists k', gnfa_validate m = Err (Invalid k') /\ gnfa_broken m k'.
Proof. exact (g_broken_rejected gnfa gnfa_checks wf_gnfa gnfa_broken gnfa_checks_ok_iff gnfa_bad_broken wf_gnfa_sound m k). Qed.

Theorem gnfa_single_rule_kind m k : gnfa_broken m k -> (forall k', gnfa_broken m k' -> k' = k) ->
  gnfa_validate m = Err (Invalid k).
Proof. exact (g_single_rule gnfa gnfa_checks wf_gnfa gnfa_broken gnfa_checks_ok_iff gnfa_bad_broken wf_gnfa_sound m k). Qed.

(* kinds a GNFA constructor can raise *)
Theorem gnfa_kinds m e : gnfa_validate m = Err e -> e = Invalid 1 \/ e = Invalid 3 \/ e = Invalid 10.
Proof.
  intro H. destruct (gnfa_validate_err_sound m e H) as [k [-> Hb]]. inversion Hb; subst; auto.
Qed.

(* ================================================================== *)
(* (2) the first broken rule, in the code's checking order             *)
(* ================================================================== *)
(* a rule: the number of its documented exception and the proposition that it holds *)
Definition rule := (nat * Prop)%type.

Inductive first_broken : list rule -> nat -> Prop :=
| fb_here k (P : Prop) rs : ~ P -> first_broken ((k, P) :: rs) k
| fb_later k' (P : Prop) rs k : P -> first_broken rs k -> first_broken ((k', P) :: rs) k.

Definition holds (r : rule) : Prop := snd r.

Definition agree (c : check) (r : rule) : Prop := fst c = fst r /\ (snd c = true <-> snd r).

Lemma first_broken_split rs k :
  first_broken rs k <-> exists pre P post, rs = pre ++ (k, P) :: post /\ Forall holds pre /\ ~ P.
Proof.
  split.
  - induction 1 as [k P rs Hn|k' P rs k HP _ IH].
    + exists [], P, rs. repeat split; [constructor|exact Hn].
    + destruct IH as [pre [P0 [post [-> [Hpre Hn]]]]]. exists ((k', P) :: pre), P0, post.
      repeat split; [constructor; [exact HP|exact Hpre]|exact Hn].
  - intros [pre [P [post [-> [Hpre Hn]]]]]. induction Hpre as [|[k' P'] pre HP _ IH]; simpl.
    + apply fb_here. exact Hn.
    + apply fb_later; [exact HP|exact IH].
Qed.

Lemma first_bad_first_broken cs rs : Forall2 agree cs rs ->
  forall k, first_bad cs = Err (Invalid k) <-> first_broken rs k.
Proof.
  induction 1 as [|[k0 b] [k1 P] cs rs [Ek Eb] _ IH]; intro k; simpl in *.
  - split; [discriminate|intro H; inversion H].
  - subst k1. destruct b.
    + assert (HP : P) by (apply Eb; reflexivity). rewrite IH. split.
      * intro H. apply fb_later; assumption.
      * intro H. inversion H; subst; [contradiction|assumption].
    + assert (Hn : ~ P) by (intro HP; apply Eb in HP; discriminate). split.
      * intro H. inversion H; subst. apply fb_here. exact Hn.
      * intro H. inversion H; subst; [reflexivity|contradiction].
Qed.

Lemma first_bad_all_hold cs rs : Forall2 agree cs rs -> (first_bad cs = Ok tt <-> Forall holds rs).
Proof.
  induction 1 as [|[k0 b] [k1 P] cs rs [Ek Eb] _ IH]; simpl in *.
  - split; [constructor|reflexivity].
  - destruct b.
    + rewrite IH. split.
      * intro H. constructor; [apply Eb; reflexivity|exact H].
      * intro H. inversion H; assumption.
    + split; [discriminate|]. intro H. inversion H as [|? ? HP _]; subst. apply Eb in HP. discriminate.
Qed.

(* the reported rule is unique *)
Lemma first_broken_functional rs k k' : first_broken rs k -> first_broken rs k' -> k = k'.
Proof.
  induction 1 as [k P rs Hn|k0 P rs k HP _ IH]; intro H'; inversion H'; subst; try contradiction; auto.
Qed.

Lemma Forall2_flat_map {A B C} (R : B -> C -> Prop) (f : A -> list B) (g : A -> list C) l :
  (forall x, In x l -> Forall2 R (f x) (g x)) -> Forall2 R (flat_map f l) (flat_map g l).
Proof.
  induction l as [|x l IH]; intro H; simpl; [constructor|].
  apply Forall2_app; [apply H; left; reflexivity|apply IH; intros y Hy; apply H; right; exact Hy].
Qed.

Lemma agree_mk k b (P : Prop) : (b = true <-> P) -> agree (k, b) (k, P).
Proof. intro H. split; [reflexivity|exact H]. Qed.

Lemma forallb_memb_iff {A} (f : A -> nat) l X :
  forallb (fun p => memb (f p) X) l = true <-> forall p, In p l -> In (f p) X.
Proof.
  rewrite forallb_forall. split; intros H p Hp; [apply memb_In|apply memb_In]; apply H; exact Hp.
Qed.

(* ---- DFA: fa/dfa.py validate, in order ---- *)
Definition dfa_row_rules (m : dfa) (row : list (nat * nat)) : list rule :=
  [(4, d_partial m = false -> forall a, In a (d_syms m) -> In a (map fst row));   (* no symbol missing (complete DFA) *)
   (2, forall a t, In (a, t) row -> In a (d_syms m));                              (* symbols of the row are input symbols *)
   (1, forall a t, In (a, t) row -> In t (d_states m))].                           (* end states are states *)

Definition dfa_rules (m : dfa) : list rule :=
  (3, forall q, In q (d_states m) -> In q (map fst (d_trans m)))                   (* every state has a row *)
  :: flat_map (fun qr => dfa_row_rules m (snd qr)) (d_trans m)                     (* the rows, in dict order *)
  ++ [(1, In (d_init m) (d_states m));                                             (* initial state *)
      (1, incl (d_finals m) (d_states m))].                                        (* final states *)

Lemma dfa_checks_agree m : Forall2 agree (dfa_checks m) (dfa_rules m).
Proof.
  unfold dfa_checks, dfa_rules. constructor; [|apply Forall2_app].
  - apply agree_mk. apply (forallb_memb_iff (fun q => q)).
  - apply Forall2_flat_map. intros [q row] _. simpl. unfold dfa_row_checks, dfa_row_rules.
    constructor; [|constructor; [|constructor; [|constructor]]]; apply agree_mk.
    + destruct (d_partial m); simpl.
      * split; [intros _ H; discriminate|reflexivity].
      * rewrite (forallb_memb_iff (fun a => a)). split; [intros H _; exact H|intro H; apply H; reflexivity].
    + rewrite (forallb_memb_iff fst). split.
      * intros H a t Hat. exact (H (a, t) Hat).
      * intros H [a t] Hat. exact (H a t Hat).
    + rewrite (forallb_memb_iff snd). split.
      * intros H a t Hat. exact (H (a, t) Hat).
      * intros H [a t] Hat. exact (H a t Hat).
  - constructor; [|constructor; [|constructor]]; apply agree_mk.
    + apply memb_In.
    + apply subsetb_incl.
Qed.

Theorem first_broken_rule_dfa m k : dfa_validate m = Err (Invalid k) <-> first_broken (dfa_rules m) k.
Proof. exact (first_bad_first_broken _ _ (dfa_checks_agree m) k). Qed.

Theorem all_rules_dfa m : dfa_validate m = Ok tt <-> Forall holds (dfa_rules m).
Proof. exact (first_bad_all_hold _ _ (dfa_checks_agree m)). Qed.

(* ---- NFA: fa/nfa.py validate, in order ---- *)
Definition nfa_row_rules (m : nfa) (row : list (option nat * list nat)) : list rule :=
  [(2, forall a ts, In (Some a, ts) row -> In a (n_syms m));
   (1, forall a ts t, In (a, ts) row -> In t ts -> In t (n_states m))].

Definition nfa_rules (m : nfa) : list rule :=
  flat_map (fun qr => nfa_row_rules m (snd qr)) (n_trans m)
  ++ [(1, In (n_init m) (n_states m));
      (3, In (n_init m) (map fst (n_trans m)) \/ length (n_states m) <= 1);
      (1, incl (n_finals m) (n_states m))].

Lemma nfa_checks_agree m : Forall2 agree (nfa_checks m) (nfa_rules m).
Proof.
  unfold nfa_checks, nfa_rules. apply Forall2_app.
  - apply Forall2_flat_map. intros [q row] _. simpl. unfold nfa_row_checks, nfa_row_rules.
    constructor; [|constructor; [|constructor]]; apply agree_mk.
    + rewrite forallb_forall. split.
      * intros H a ts Hat. apply memb_In. exact (H (Some a, ts) Hat).
      * intros H [[a|] ts] Hat; simpl; [apply memb_In; exact (H a ts Hat)|reflexivity].
    + rewrite forallb_forall. split.
      * intros H a ts t Hat Ht. specialize (H (a, ts) Hat). simpl in H. apply subsetb_incl in H. exact (H t Ht).
      * intros H [a ts] Hat. simpl. apply subsetb_incl. intros t Ht. exact (H a ts t Hat Ht).
  - constructor; [|constructor; [|constructor; [|constructor]]]; apply agree_mk.
    + apply memb_In.
    + rewrite orb_true_iff, memb_In, Nat.leb_le. reflexivity.
    + apply subsetb_incl.
Qed.

Theorem first_broken_rule_nfa m k : nfa_validate m = Err (Invalid k) <-> first_broken (nfa_rules m) k.
Proof. exact (first_bad_first_broken _ _ (nfa_checks_agree m) k). Qed.

Theorem all_rules_nfa m : nfa_validate m = Ok tt <-> Forall holds (nfa_rules m).
Proof. exact (first_bad_all_hold _ _ (nfa_checks_agree m)). Qed.

(* ---- GNFA: fa/gnfa.py validate, in order ---- *)
Definition gnfa_row_rules (m : gnfa) (q : nat) (row : list (nat * option bool)) : list rule :=
  [(10, forall t b, In (t, Some b) row -> b = true);
   (if Nat.eqb q (g_final m)
    then (1, row = [])
    else (3, forall s, In s (g_states m) -> s <> g_init m -> In s (map fst row)));
   (1, forall t l, In (t, l) row -> In t (g_states m))].

Definition gnfa_rules (m : gnfa) : list rule :=
  [(1, In (g_init m) (g_states m)); (1, In (g_final m) (g_states m))]
  ++ flat_map (fun qr => gnfa_row_rules m (fst qr) (snd qr)) (g_trans m)
  ++ [(3, In (g_init m) (map fst (g_trans m)) \/ length (g_states m) <= 1)].

Lemma gnfa_checks_agree m : Forall2 agree (gnfa_checks m) (gnfa_rules m).
Proof.
  unfold gnfa_checks, gnfa_rules. apply Forall2_app; [|apply Forall2_app].
  - constructor; [|constructor; [|constructor]]; apply agree_mk; apply memb_In.
  - apply Forall2_flat_map. intros [q row] _. simpl. unfold gnfa_row_checks, gnfa_row_rules.
    constructor; [|constructor; [|constructor; [|constructor]]].
    + apply agree_mk. rewrite forallb_forall. split.
      * intros H t b Ht. specialize (H (t, Some b) Ht). simpl in H. destruct b; [reflexivity|discriminate].
      * intros H [t [b|]] Ht; simpl; [|reflexivity]. rewrite (H t b Ht). reflexivity.
    + destruct (Nat.eqb q (g_final m)); apply agree_mk.
      * destruct row; split; intro H; try reflexivity; discriminate.
      * rewrite forallb_forall. split.
        -- intros H s Hs Hn. specialize (H s Hs). apply orb_true_iff in H.
           destruct H as [H|H]; [apply Nat.eqb_eq in H; contradiction|apply memb_In; exact H].
        -- intros H s Hs. apply orb_true_iff. destruct (Nat.eqb s (g_init m)) eqn:E; [left; reflexivity|right].
           apply Nat.eqb_neq in E. apply memb_In. exact (H s Hs E).
    + apply agree_mk. rewrite (forallb_memb_iff fst). split.
      * intros H t l Ht. exact (H (t, l) Ht).
      * intros H [t l] Ht. exact (H t l Ht).
  - constructor; [|constructor]. apply agree_mk. rewrite orb_true_iff, memb_In, Nat.leb_le. reflexivity.
Qed.

Theorem first_broken_rule_gnfa m k : gnfa_validate m = Err (Invalid k) <-> first_broken (gnfa_rules m) k.
Proof. exact (first_bad_first_broken _ _ (gnfa_checks_agree m) k). Qed.

Theorem all_rules_gnfa m : gnfa_validate m = Ok tt <-> Forall holds (gnfa_rules m).
Proof. exact (first_bad_all_hold _ _ (gnfa_checks_agree m)). Qed.

(* ================================================================== *)
(* (3) valid_dtm / valid_ntm / valid_mntm against the constructors      *)
(* ================================================================== *)
(* the rules of the TM constructors that concern the sets Q, I, T (which the Spec records do
   not carry): all of wf_tm except "no final state has a row" *)
Record tm_sets_ok (m : rtm) : Prop := mk_tm_sets_ok {
  ts_input : incl (t_insyms m) (t_tapesyms m) /\ exists s, In s (t_tapesyms m) /\ ~ In s (t_insyms m);
  ts_blank : In (t_blank m) (t_tapesyms m);
  ts_rows : forall q row, In (q, row) (t_trans m) -> In q (t_states m);
  ts_keys : forall q row key rs s, In (q, row) (t_trans m) -> In (key, rs) row -> In s key -> In s (t_tapesyms m);
  ts_results : forall q row key rs q' mvs w d, In (q, row) (t_trans m) -> In (key, rs) row -> In (q', mvs) rs ->
               In (w, d) mvs -> In q' (t_states m) /\ In w (t_tapesyms m) /\ d <= 2;
  ts_init : In (t_init m) (t_states m);
  ts_init_row : In (t_init m) (map fst (t_trans m)) \/ length (t_states m) <= 1;
  ts_init_nonfinal : ~ In (t_init m) (t_finals m);
  ts_finals : incl (t_finals m) (t_states m) }.

Definition finals_no_rows (m : rtm) : bool :=
  forallb (fun f => negb (memb f (map fst (t_trans m)))) (t_finals m).

Lemma wf_tm_split m : wf_tm m <-> tm_sets_ok m /\ finals_no_rows m = true.
Proof.
  unfold finals_no_rows. rewrite forallb_forall. split.
  - intros [H1 H2 H3 H4 H5 H6 H7 H8 H9 H10]. split; [constructor; assumption|].
    intros f Hf. apply negb_true_iff. apply memb_false. exact (H10 f Hf).
  - intros [[H1 H2 H3 H4 H5 H6 H7 H8 H9] H10]. constructor; try assumption.
    intros f Hf. apply memb_false. apply negb_true_iff. exact (H10 f Hf).
Qed.

Lemma finals_no_rows_dtm Q I T m : finals_no_rows (raw_of_dtm Q I T m) = valid_dtm m.
Proof. unfold finals_no_rows, valid_dtm, raw_of_dtm. cbn [t_finals t_trans]. rewrite map_map. reflexivity. Qed.

Lemma finals_no_rows_ntm Q I T m : finals_no_rows (raw_of_ntm Q I T m) = valid_ntm m.
Proof. unfold finals_no_rows, valid_ntm, raw_of_ntm. cbn [t_finals t_trans]. rewrite map_map. reflexivity. Qed.

Lemma finals_no_rows_mntm Q I T m :
  finals_no_rows (raw_of_mntm Q I T m) = forallb (fun q => negb (memb q (map fst (mt_trans m)))) (mt_finals m).
Proof. unfold finals_no_rows, raw_of_mntm. cbn [t_finals t_trans]. rewrite map_map. reflexivity. Qed.

(* DTM / NTM: the hypothesis of the C03 theorems is exactly the constructor's check, the rules about
   Q, I, T apart *)
Theorem valid_dtm_agrees Q I T m :
  dtm_validate (raw_of_dtm Q I T m) = Ok tt <-> valid_dtm m = true /\ tm_sets_ok (raw_of_dtm Q I T m).
Proof.
  unfold dtm_validate. rewrite tm_validate_iff_wf, wf_tm_split, finals_no_rows_dtm. tauto.
Qed.

Theorem valid_ntm_agrees Q I T m :
  ntm_validate (raw_of_ntm Q I T m) = Ok tt <-> valid_ntm m = true /\ tm_sets_ok (raw_of_ntm Q I T m).
Proof.
  unfold ntm_validate. rewrite tm_validate_iff_wf, wf_tm_split, finals_no_rows_ntm. tauto.
Qed.

(* the deterministic table seen as NTM is the same raw definition *)
Lemma raw_of_ntm_of_dtm Q I T m : raw_of_ntm Q I T (ntm_of_dtm m) = raw_of_dtm Q I T m.
Proof.
  unfold raw_of_ntm, raw_of_dtm, ntm_of_dtm. cbn [nt_trans nt_init nt_blank nt_finals]. f_equal.
  rewrite map_map. apply map_ext. intros [q row]. simpl. f_equal. rewrite map_map. reflexivity.
Qed.

(* MNTM *)
Definition results_len_ok (m : mntm) : bool :=
  forallb (fun qr : nat * list (list nat * list malt) =>
             forallb (fun e : list nat * list malt =>
                        forallb (fun a : malt => Nat.eqb (length (snd a)) (mt_n m)) (snd e)) (snd qr))
          (mt_trans m).

Lemma valid_tapes_eq m : valid_tapes m = Nat.leb 1 (mt_n m) && results_len_ok m.
Proof. reflexivity. Qed.

Lemma valid_mntm_eq Q I T m : valid_mntm m = finals_no_rows (raw_of_mntm Q I T m).
Proof. rewrite finals_no_rows_mntm. reflexivity. Qed.

Lemma tapes_consistent_embed Q I T m :
  tapes_consistent (mt_n m) (raw_of_mntm Q I T m) = true <-> keys_len_ok m = true /\ results_len_ok m = true.
Proof.
  rewrite tapes_consistent_iff. unfold keys_len_ok, results_len_ok, raw_of_mntm. cbn [t_trans].
  split.
  - intro H. split.
    + apply forallb_forall. intros [q row] Hqr. apply forallb_forall. intros [key alts] He. simpl.
      apply Nat.eqb_eq.
      destruct (H q (map (fun e => (fst e, map raw_alt (snd e))) row) key (map raw_alt alts)) as [G _]; [| |exact G].
      * apply in_map_iff. exists (q, row). split; [reflexivity|exact Hqr].
      * apply in_map_iff. exists (key, alts). split; [reflexivity|exact He].
    + apply forallb_forall. intros [q row] Hqr. apply forallb_forall. intros [key alts] He. simpl.
      apply forallb_forall. intros a Ha. apply Nat.eqb_eq.
      destruct (H q (map (fun e => (fst e, map raw_alt (snd e))) row) key (map raw_alt alts)) as [_ G].
      * apply in_map_iff. exists (q, row). split; [reflexivity|exact Hqr].
      * apply in_map_iff. exists (key, alts). split; [reflexivity|exact He].
      * specialize (G (raw_alt a) (in_map raw_alt alts a Ha)). unfold raw_alt in G. simpl in G.
        rewrite map_length in G. exact G.
  - intros [HK HR] q row key rs Hrow Hk.
    apply in_map_iff in Hrow. destruct Hrow as [[q0 row0] [E Hqr]]. simpl in E. inversion E; subst. clear E.
    apply in_map_iff in Hk. destruct Hk as [[key0 alts0] [E He]]. simpl in E. inversion E; subst. clear E.
    rewrite forallb_forall in HK, HR. specialize (HK _ Hqr). specialize (HR _ Hqr). simpl in HK, HR.
    rewrite forallb_forall in HK, HR. specialize (HK _ He). specialize (HR _ He). simpl in HK, HR.
    split; [apply Nat.eqb_eq; exact HK|].
    intros r Hr. apply in_map_iff in Hr. destruct Hr as [a [<- Ha]]. unfold raw_alt. simpl. rewrite map_length.
    rewrite forallb_forall in HR. apply Nat.eqb_eq. exact (HR a Ha).
Qed.

Theorem mntm_validate_embed Q I T m :
  mntm_validate (mt_n m) (raw_of_mntm Q I T m) = Ok tt <->
  finals_no_rows (raw_of_mntm Q I T m) = true /\ tm_sets_ok (raw_of_mntm Q I T m) /\
  keys_len_ok m = true /\ results_len_ok m = true.
Proof.
  rewrite mntm_validate_iff_wf. unfold wf_mntm. rewrite <- tapes_consistent_iff, tapes_consistent_embed, wf_tm_split.
  tauto.
Qed.

(* valid_mntm and valid_tapes (the hypotheses of C03 / C17) = the constructor accepts, given the side
   conditions: at least one tape (which validate() does not check) on one side; one key component
   per tape and the rules about Q, I, T on the other *)
Theorem valid_mntm_agrees Q I T m :
  (mntm_validate (mt_n m) (raw_of_mntm Q I T m) = Ok tt /\ 1 <= mt_n m) <->
  (valid_mntm m = true /\ valid_tapes m = true /\ keys_len_ok m = true /\ tm_sets_ok (raw_of_mntm Q I T m)).
Proof.
  rewrite mntm_validate_embed, (valid_mntm_eq Q I T m), valid_tapes_eq.
  repeat rewrite andb_true_iff. rewrite Nat.leb_le. tauto.
Qed.

(* the deterministic table seen as a one-tape MNTM is the same raw definition, too *)
Lemma raw_of_mntm_of_dtm Q I T m : raw_of_mntm Q I T (mntm_of_dtm m) = raw_of_dtm Q I T m.
Proof.
  unfold raw_of_mntm, raw_of_dtm, mntm_of_dtm. cbn [mt_trans mt_init mt_blank mt_finals]. f_equal.
  rewrite map_map. apply map_ext. intros [q row]. simpl. f_equal. rewrite map_map. apply map_ext.
  intros [s [[q' w] d]]. reflexivity.
Qed.
