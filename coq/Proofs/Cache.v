(* Lemmas for C20: the caches of the object model always hold the from-scratch levels, the
   memos hold the stateless answers, and therefore every answer along any history equals the
   stateless (C13) answer. *)
From Coq Require Import List Arith NArith Bool Lia.
From AV Require Import Base.Util Spec.Lang Spec.FA Model.Count Model.Cache Proofs.FARun Proofs.Count.
Import ListNotations.

Lemma assoc_map_key {B} (f : nat -> B) l q :
  assoc q (map (fun x => (x, f x)) l) = if memb q l then Some (f q) else None.
Proof.
  induction l as [|a l IH]; simpl; [reflexivity|].
  destruct (Nat.eqb q a) eqn:E; simpl; [apply Nat.eqb_eq in E; subst; reflexivity|exact IH].
Qed.

Section Levels.
  Variable m : dfa.
  Hypothesis Hv : valid_dfa m = true.

  Lemma row_target_state q a t : In (a, t) (row_of m q) -> In t (d_states m).
  Proof.
    intro H. apply (row_entry_delta m Hv) in H. apply (delta_in_states m Hv) in H. tauto.
  Qed.

  (* the from-scratch count level i is the count function on states *)
  Lemma clevel_get i : forall q, In q (d_states m) -> cget (clevel_of m i) q = cnt m i q.
  Proof.
    induction i as [|i IH]; intros q Hq; unfold cget; simpl.
    - unfold clevel0. rewrite assoc_map_key. unfold is_final. destruct (memb q (d_finals m)); reflexivity.
    - unfold cnext. rewrite assoc_map_key. apply memb_In in Hq. rewrite Hq. f_equal.
      apply map_ext_in. intros [a t] Hin. simpl. apply IH. eapply row_target_state. exact Hin.
  Qed.

  Lemma wlevel_get i : forall q, In q (d_states m) -> wget (wlevel_of m i) q = wl m i q.
  Proof.
    induction i as [|i IH]; intros q Hq; unfold wget; simpl.
    - unfold wlevel0. rewrite assoc_map_key. unfold is_final. destruct (memb q (d_finals m)); reflexivity.
    - unfold wnext. rewrite assoc_map_key. apply memb_In in Hq. rewrite Hq.
      apply flat_map_ext_in. intros a _. destruct (d_delta m q a) as [t|] eqn:E; [|reflexivity].
      rewrite IH; [reflexivity|]. apply (delta_in_states m Hv) in E. tauto.
  Qed.

  Definition levels_c (n : nat) : list clevel := map (clevel_of m) (seq 0 n).
  Definition levels_w (n : nat) : list wlevel := map (wlevel_of m) (seq 0 n).

  Lemma levels_c_S n : levels_c (S n) = levels_c n ++ [clevel_of m n].
  Proof. unfold levels_c. rewrite seq_S, map_app. reflexivity. Qed.
  Lemma levels_w_S n : levels_w (S n) = levels_w n ++ [wlevel_of m n].
  Proof. unfold levels_w. rewrite seq_S, map_app. reflexivity. Qed.

  Lemma cnew_levels n : cnew m (levels_c n) = clevel_of m n.
  Proof.
    destruct n as [|n]; [reflexivity|].
    assert (E : cnew m (levels_c (S n)) = cnext m (last (levels_c (S n)) [])) by reflexivity.
    rewrite E, levels_c_S, last_last. reflexivity.
  Qed.
  Lemma wnew_levels n : wnew m (levels_w n) = wlevel_of m n.
  Proof.
    destruct n as [|n]; [reflexivity|].
    assert (E : wnew m (levels_w (S n)) = wnext m (last (levels_w (S n)) [])) by reflexivity.
    rewrite E, levels_w_S, last_last. reflexivity.
  Qed.

  Lemma cgrow_levels k : forall n, cgrow m k (levels_c n) = levels_c (n + k).
  Proof.
    induction k as [|k IH]; intro n; simpl.
    - f_equal. lia.
    - rewrite cnew_levels, <- levels_c_S, IH. f_equal. lia.
  Qed.
  Lemma wgrow_levels k : forall n, wgrow m k (levels_w n) = levels_w (n + k).
  Proof.
    induction k as [|k IH]; intro n; simpl.
    - f_equal. lia.
    - rewrite wnew_levels, <- levels_w_S, IH. f_equal. lia.
  Qed.

  Lemma cpopulate_levels k n : exists n', cpopulate m k (levels_c n) = levels_c n' /\ k < n'.
  Proof.
    unfold cpopulate. rewrite cgrow_levels. eexists. split; [reflexivity|].
    unfold levels_c. rewrite map_length, seq_length. lia.
  Qed.
  Lemma wpopulate_levels k n : exists n', wpopulate m k (levels_w n) = levels_w n' /\ k < n'.
  Proof.
    unfold wpopulate. rewrite wgrow_levels. eexists. split; [reflexivity|].
    unfold levels_w. rewrite map_length, seq_length. lia.
  Qed.

  Lemma nth_levels_c k n : k < n -> nth k (levels_c n) [] = clevel_of m k.
  Proof.
    intro H. unfold levels_c. rewrite (nth_indep _ [] (clevel_of m 0)); [|rewrite map_length, seq_length; exact H].
    rewrite map_nth, seq_nth; [reflexivity|exact H].
  Qed.
  Lemma nth_levels_w k n : k < n -> nth k (levels_w n) [] = wlevel_of m k.
  Proof.
    intro H. unfold levels_w. rewrite (nth_indep _ [] (wlevel_of m 0)); [|rewrite map_length, seq_length; exact H].
    rewrite map_nth, seq_nth; [reflexivity|exact H].
  Qed.

  Lemma init_state : In (d_init m) (d_states m).
  Proof. destruct (valid_dfa_parts m Hv) as (_ & _ & _ & _ & _ & H & _). exact H. Qed.

  Lemma sum_counts_ok js : forall n,
    exists n', fst (sum_counts m js (levels_c n)) = levels_c n' /\
               snd (sum_counts m js (levels_c n)) = Nsum (map (fun j => cnt m j (d_init m)) js).
  Proof.
    induction js as [|j r IH]; intro n; simpl.
    - exists n. split; reflexivity.
    - destruct (cpopulate_levels j n) as [n1 [E1 Hl]]. rewrite E1.
      destruct (IH n1) as [n2 [E2 E3]].
      destruct (sum_counts m r (levels_c n1)) as [cc2 t]. simpl in *.
      exists n2. split; [exact E2|]. rewrite E3, (nth_levels_c j n1 Hl), (clevel_get j _ init_state). reflexivity.
  Qed.

  (* random_word against a count table that agrees with cnt on states *)
  Lemma pick_with_ext (c c' : nat -> N) row : (forall p, In p row -> c (snd p) = c' (snd p)) ->
    forall ch, pick_with c row ch = pick_with c' row ch.
  Proof.
    induction row as [|[a t] rest IH]; intros H ch; simpl; [reflexivity|].
    pose proof (H (a, t) (or_introl eq_refl)) as Ht. simpl in Ht. rewrite Ht. destruct (N.ltb ch (c' t)); [reflexivity|].
    apply IH. intros p Hp. apply H. right. exact Hp.
  Qed.

  Lemma pick_with_cnt r row ch : pick_with (cnt m r) row ch = pick m r row ch.
  Proof. revert ch. induction row as [|[a t] rest IH]; intro ch; simpl; [reflexivity|]. rewrite IH. reflexivity. Qed.

  Lemma pick_with_In c row : forall ch a t, pick_with c row ch = Some (a, t) -> In (a, t) row.
  Proof.
    induction row as [|[a' t'] rest IH]; intros ch a t; simpl; [discriminate|].
    destruct (N.ltb ch (c t')).
    - intro H. inversion H; subst. left. reflexivity.
    - intro H. right. eapply IH. exact H.
  Qed.

  Lemma rw_go_with_cnt (cf : nat -> nat -> N) rem :
    (forall r q, r < rem -> In q (d_states m) -> cf r q = cnt m r q) ->
    forall q draws, In q (d_states m) -> rw_go_with cf m rem q draws = rw_go m rem q draws.
  Proof.
    induction rem as [|r IH]; intros Hcf q draws Hq; simpl; [reflexivity|].
    destruct draws as [|c ds]; [reflexivity|].
    rewrite (pick_with_ext (cf r) (cnt m r) (row_of m q)), pick_with_cnt.
    - assert (IH' : forall q' ds', In q' (d_states m) -> rw_go_with cf m r q' ds' = rw_go m r q' ds').
      { apply IH. intros r' q' Hr' Hq'. apply Hcf; [lia|exact Hq']. }
      destruct (pick m r (row_of m q) c) as [[a t]|] eqn:E.
      + rewrite IH'; [reflexivity|]. rewrite <- pick_with_cnt in E. apply pick_with_In in E.
        eapply row_target_state. exact E.
      + apply IH'. exact Hq.
    - intros [a t] Hin. simpl. apply Hcf; [lia|]. eapply row_target_state. exact Hin.
  Qed.

  Lemma iter_c_S f k nd stop wc :
    iter_c m (S f) k (S nd) stop wc =
      if Nat.leb (S nd) (length (wget (nth k (wpopulate m k wc) []) (d_init m)))
      then (wpopulate m k wc, Ok (firstn (S nd) (wget (nth k (wpopulate m k wc) []) (d_init m))))
      else let (wc2, r) := iter_c m f (S k) (S nd - length (wget (nth k (wpopulate m k wc) []) (d_init m))) stop
                                  (wpopulate m k wc) in
           (wc2, bind r (fun r' => Ok (wget (nth k (wpopulate m k wc) []) (d_init m) ++ r'))).
  Proof. reflexivity. Qed.

  Lemma iter_go_S f k nd stop :
    iter_go m (S f) k (S nd) stop =
      if Nat.leb (S nd) (length (wl m k (d_init m))) then Ok (firstn (S nd) (wl m k (d_init m)))
      else bind (iter_go m f (S k) (S nd - length (wl m k (d_init m))) stop)
                (fun r => Ok (wl m k (d_init m) ++ r)).
  Proof. reflexivity. Qed.

  Lemma iter_c_ok fuel : forall k need stop n,
    exists n', fst (iter_c m fuel k need stop (levels_w n)) = levels_w n' /\
               snd (iter_c m fuel k need stop (levels_w n)) = iter_go m fuel k need stop.
  Proof.
    induction fuel as [|f IH]; intros k need stop n; destruct need as [|nd];
      try (exists n; split; reflexivity).
    rewrite iter_c_S, iter_go_S.
    destruct (wpopulate_levels k n) as [n1 [E1 Hl]]. rewrite E1, (nth_levels_w k n1 Hl), (wlevel_get k _ init_state).
    destruct (Nat.leb (S nd) (length (wl m k (d_init m)))).
    - exists n1. split; reflexivity.
    - destruct (IH (S k) (S nd - length (wl m k (d_init m))) stop n1) as [n2 [E2 E3]].
      destruct (iter_c m f (S k) (S nd - length (wl m k (d_init m))) stop (levels_w n1)) as [wc2 r].
      exists n2. split; [exact E2|]. simpl in E3. simpl. rewrite E3. reflexivity.
  Qed.

  Lemma iter_go_0 fuel k stop : iter_go m fuel k 0 stop = Ok [].
  Proof. destruct fuel; reflexivity. Qed.

  Lemma iter_upto_0 : iter_upto m 0 = Ok [].
  Proof.
    unfold iter_upto. destruct (isempty_spec m Hv) as [b [E Hb]]. rewrite E. simpl. destruct b; [reflexivity|].
    pose proof (min_len_spec m Hv) as Hmin. unfold min_len_post in Hmin.
    pose proof (max_len_pre m Hv) as Hmax.
    assert (Hne : ~ (forall w, dfa_acc m w = false)) by (intro H; apply Hb in H; discriminate).
    destruct (min_len m) as [lo|e]; simpl.
    - destruct (max_len m) as [[h|]|e]; simpl.
      + apply iter_go_0.
      + reflexivity.
      + destruct e; try contradiction.
    - destruct e; try contradiction.
  Qed.
End Levels.

(* ---------- the object invariant ---------- *)
Record cache_inv (s : obj) : Prop := {
  ci_cc : exists n, o_cc s = levels_c (o_def s) n;
  ci_wc : exists n, o_wc s = levels_w (o_def s) n;
  ci_min : forall v, o_min s = Some v -> min_len (o_def s) = Ok v;
  ci_max : forall v, o_max s = Some v -> max_len (o_def s) = Ok v;
  ci_card : forall v, o_card s = Some v -> cardinality (o_def s) = Ok v;
  ci_empty : forall v, o_empty s = Some v -> isempty (o_def s) = Ok v;
  ci_finite : forall v, o_finite s = Some v -> isfinite (o_def s) = Ok v }.

Definition good (s s' : obj) : Prop := cache_inv s' /\ o_def s' = o_def s.

Lemma good_refl s : cache_inv s -> good s s.
Proof. intro H. split; [exact H|reflexivity]. Qed.

Lemma good_trans s s1 s2 : good s s1 -> good s1 s2 -> good s s2.
Proof. intros [H1 E1] [H2 E2]. split; [exact H2|congruence]. Qed.

Lemma cache_inv_init m : cache_inv (init m).
Proof. constructor; simpl; try (exists 0; reflexivity); intros v H; discriminate. Qed.

Ltac inv_setter :=
  let I := fresh "I" in
  intros I; intros; destruct I; split; [constructor; simpl; auto|reflexivity];
  let v := fresh "v" in let H := fresh "H" in intros v H; inversion H; subst; assumption.

Lemma good_set_empty s b : cache_inv s -> isempty (o_def s) = Ok b -> good s (set_empty s (Some b)).
Proof. inv_setter. Qed.
Lemma good_set_min s b : cache_inv s -> min_len (o_def s) = Ok b -> good s (set_min s (Some b)).
Proof. inv_setter. Qed.
Lemma good_set_max s b : cache_inv s -> max_len (o_def s) = Ok b -> good s (set_max s (Some b)).
Proof. inv_setter. Qed.
Lemma good_set_card s b : cache_inv s -> cardinality (o_def s) = Ok b -> good s (set_card s (Some b)).
Proof. inv_setter. Qed.
Lemma good_set_finite s b : cache_inv s -> isfinite (o_def s) = Ok b -> good s (set_finite s (Some b)).
Proof. inv_setter. Qed.
Lemma good_set_cc s n : cache_inv s -> good s (set_cc s (levels_c (o_def s) n)).
Proof. intros I. destruct I. split; [constructor; simpl; auto; exists n; reflexivity|reflexivity]. Qed.
Lemma good_set_wc s n : cache_inv s -> good s (set_wc s (levels_w (o_def s) n)).
Proof. intros I. destruct I. split; [constructor; simpl; auto; exists n; reflexivity|reflexivity]. Qed.

(* ---------- each query: invariant kept, answer = stateless answer ---------- *)
Lemma q_isempty_ok s : cache_inv s ->
  good s (fst (q_isempty s)) /\ snd (q_isempty s) = isempty (o_def s).
Proof.
  intro I. unfold q_isempty. destruct (o_empty s) as [b|] eqn:E; simpl.
  - split; [apply good_refl; exact I|]. symmetry. apply (ci_empty s I). exact E.
  - destruct (isempty (o_def s)) as [b|e] eqn:E2; simpl.
    + split; [apply good_set_empty; assumption|reflexivity].
    + split; [apply good_refl; exact I|reflexivity].
Qed.

Lemma q_min_ok s : cache_inv s ->
  good s (fst (q_min s)) /\ snd (q_min s) = min_len (o_def s).
Proof.
  intro I. unfold q_min. destruct (o_min s) as [b|] eqn:E; simpl.
  - split; [apply good_refl; exact I|]. symmetry. apply (ci_min s I). exact E.
  - destruct (min_len (o_def s)) as [b|e] eqn:E2; simpl.
    + split; [apply good_set_min; assumption|reflexivity].
    + split; [apply good_refl; exact I|reflexivity].
Qed.

Lemma q_max_ok s : cache_inv s ->
  good s (fst (q_max s)) /\ snd (q_max s) = max_len (o_def s).
Proof.
  intro I. unfold q_max. destruct (o_max s) as [b|] eqn:E; simpl.
  - split; [apply good_refl; exact I|]. symmetry. apply (ci_max s I). exact E.
  - destruct (q_isempty_ok s I) as [[I1 D1] A1]. destruct (q_isempty s) as [s1 e]. simpl in *. subst e.
    unfold max_len. destruct (isempty (o_def s)) as [[|]|x] eqn:Ee; simpl.
    + split; [split; assumption|reflexivity].
    + destruct (lp_go (o_def s) (length (d_states (o_def s))) [d_init (o_def s)] 0) as [v|x] eqn:El; simpl.
      * split; [|reflexivity]. eapply good_trans; [split; [exact I1|exact D1]|].
        apply good_set_max; [exact I1|]. rewrite D1. unfold max_len. rewrite Ee. simpl. exact El.
      * split; [split; assumption|reflexivity].
    + split; [split; assumption|reflexivity].
Qed.

Lemma q_isfinite_ok s : cache_inv s ->
  good s (fst (q_isfinite s)) /\ snd (q_isfinite s) = isfinite (o_def s).
Proof.
  intro I. unfold q_isfinite. destruct (o_finite s) as [b|] eqn:E; simpl.
  - split; [apply good_refl; exact I|]. symmetry. apply (ci_finite s I). exact E.
  - destruct (q_max_ok s I) as [[I1 D1] A1]. destruct (q_max s) as [s1 r]. simpl in *. subst r.
    assert (G1 : good s s1) by (split; assumption).
    unfold isfinite. destruct (max_len (o_def s)) as [[h|]|x] eqn:Em; simpl.
    + split; [|reflexivity]. eapply good_trans; [exact G1|]. apply good_set_finite; [exact I1|].
      rewrite D1. unfold isfinite. rewrite Em. reflexivity.
    + split; [|reflexivity]. eapply good_trans; [exact G1|]. apply good_set_finite; [exact I1|].
      rewrite D1. unfold isfinite. rewrite Em. reflexivity.
    + destruct x; simpl; try (split; [exact G1|reflexivity]).
      split; [|reflexivity]. eapply good_trans; [exact G1|]. apply good_set_finite; [exact I1|].
      rewrite D1. unfold isfinite. rewrite Em. reflexivity.
Qed.

Lemma q_count_ok s k : valid_dfa (o_def s) = true -> cache_inv s ->
  good s (fst (q_count s k)) /\ snd (q_count s k) = cnt (o_def s) k (d_init (o_def s)).
Proof.
  intros Hv I. unfold q_count. simpl. destruct (ci_cc s I) as [n En]. rewrite En.
  destruct (cpopulate_levels (o_def s) k n) as [n' [E Hl]]. rewrite E. split.
  - apply good_set_cc. exact I.
  - rewrite (nth_levels_c _ k n' Hl). apply clevel_get; [exact Hv|apply init_state; exact Hv].
Qed.

Lemma q_words_ok s k : valid_dfa (o_def s) = true -> cache_inv s ->
  good s (fst (q_words s k)) /\ snd (q_words s k) = wl (o_def s) k (d_init (o_def s)).
Proof.
  intros Hv I. unfold q_words. simpl. destruct (ci_wc s I) as [n En]. rewrite En.
  destruct (wpopulate_levels (o_def s) k n) as [n' [E Hl]]. rewrite E. split.
  - apply good_set_wc. exact I.
  - rewrite (nth_levels_w _ k n' Hl). apply wlevel_get; [exact Hv|apply init_state; exact Hv].
Qed.

Lemma q_random_ok s k ds : valid_dfa (o_def s) = true -> cache_inv s ->
  good s (fst (q_random s k ds)) /\ snd (q_random s k ds) = random_word (o_def s) k ds.
Proof.
  intros Hv I. unfold q_random. simpl. destruct (ci_cc s I) as [n En]. rewrite En.
  destruct (cpopulate_levels (o_def s) k n) as [n' [E Hl]]. rewrite E. split.
  - apply good_set_cc. exact I.
  - unfold random_word.
    rewrite (nth_levels_c _ k n' Hl), (clevel_get _ Hv k _ (init_state _ Hv)).
    destruct (N.eqb (cnt (o_def s) k (d_init (o_def s))) 0); [reflexivity|].
    apply rw_go_with_cnt; [exact Hv| |apply init_state; exact Hv].
    intros r q Hr Hq. rewrite (nth_levels_c _ r n' ltac:(lia)). apply clevel_get; assumption.
Qed.

Local Opaque Nat.sub Nat.mul.

Lemma q_card_ok s : valid_dfa (o_def s) = true -> cache_inv s ->
  good s (fst (q_card s)) /\ snd (q_card s) = cardinality (o_def s).
Proof.
  intros Hv I. unfold q_card. destruct (o_card s) as [c|] eqn:E; simpl.
  - split; [apply good_refl; exact I|]. symmetry. apply (ci_card s I). exact E.
  - destruct (q_min_ok s I) as [[I1 D1] A1]. destruct (q_min s) as [s1 rlo]. simpl in *. subst rlo.
    assert (G1 : good s s1) by (split; assumption).
    unfold cardinality. destruct (min_len (o_def s)) as [lo|x] eqn:Emin.
    + destruct (q_max_ok s1 I1) as [[I2 D2] A2]. destruct (q_max s1) as [s2 rhi]. simpl in *. subst rhi.
      assert (G2 : good s s2) by (eapply good_trans; [exact G1|split; assumption]).
      rewrite D1. destruct (max_len (o_def s)) as [[h|]|x] eqn:Emax; simpl.
      * destruct (ci_cc s2 I2) as [n En].
        assert (D : o_def s2 = o_def s) by congruence.
        rewrite En, D.
        destruct (sum_counts_ok (o_def s) Hv (seq lo (S h - lo)) n) as [n' [E1 E2]].
        destruct (sum_counts (o_def s) (seq lo (S h - lo)) (levels_c (o_def s) n)) as [cc total].
        simpl in E1, E2. simpl. subst cc total. split; [|reflexivity].
        eapply good_trans; [exact G2|].
        assert (G3 : good s2 (set_cc s2 (levels_c (o_def s) n'))) by (rewrite <- D; apply good_set_cc; exact I2).
        eapply good_trans; [exact G3|]. destruct G3 as [I3 D3].
        apply good_set_card; [exact I3|]. rewrite D3, D. unfold cardinality. rewrite Emin, Emax. reflexivity.
      * split; [exact G2|reflexivity].
      * split; [exact G2|reflexivity].
    + destruct x; simpl; try (split; [exact G1|reflexivity]).
      split; [|reflexivity]. eapply good_trans; [exact G1|]. apply good_set_card; [exact I1|].
      rewrite D1. unfold cardinality. rewrite Emin. reflexivity.
Qed.

Lemma q_iter_ok s n : valid_dfa (o_def s) = true -> cache_inv s ->
  good s (fst (q_iter s n)) /\ snd (q_iter s n) = iter_upto (o_def s) n.
Proof.
  intros Hv I. unfold q_iter. destruct n as [|n'].
  - simpl. split; [apply good_refl; exact I|]. symmetry. apply iter_upto_0. exact Hv.
  - set (n := S n'). destruct (q_isempty_ok s I) as [[I1 D1] A1]. destruct (q_isempty s) as [s1 e]. simpl in *. subst e.
    assert (G1 : good s s1) by (split; assumption).
    unfold iter_upto. destruct (isempty (o_def s)) as [[|]|x] eqn:Ee; simpl; try (split; [exact G1|reflexivity]).
    destruct (q_min_ok s1 I1) as [[I2 D2] A2]. destruct (q_min s1) as [s2 rlo]. simpl in *. subst rlo.
    assert (G2 : good s s2) by (eapply good_trans; [exact G1|split; assumption]).
    rewrite D1. destruct (min_len (o_def s)) as [lo|x] eqn:Emin; simpl; try (split; [exact G2|reflexivity]).
    destruct (q_max_ok s2 I2) as [[I3 D3] A3]. destruct (q_max s2) as [s3 rhi]. simpl in *. subst rhi.
    assert (G3 : good s s3) by (eapply good_trans; [exact G2|split; assumption]).
    assert (D : o_def s3 = o_def s) by congruence.
    rewrite D2, D1. destruct (max_len (o_def s)) as [hi|x] eqn:Emax; simpl; try (split; [exact G3|reflexivity]).
    destruct (ci_wc s3 I3) as [k Ek]. rewrite Ek, D.
    assert (Hgen : forall fuel stop,
              good s (set_wc s3 (fst (iter_c (o_def s) fuel lo n stop (levels_w (o_def s) k)))) /\
              snd (iter_c (o_def s) fuel lo n stop (levels_w (o_def s) k)) = iter_go (o_def s) fuel lo n stop).
    { intros fuel stop. destruct (iter_c_ok (o_def s) Hv fuel lo n stop k) as [k' [E1 E2]].
      rewrite E1, E2. split; [|reflexivity]. eapply good_trans; [exact G3|].
      rewrite <- D. apply good_set_wc. exact I3. }
    destruct hi as [h|].
    + destruct (Hgen (S h - lo) (Ok [])) as [Hg Ha].
      destruct (iter_c (o_def s) (S h - lo) lo n (Ok []) (levels_w (o_def s) k)) as [wc r]. simpl in *.
      split; [exact Hg|exact Ha].
    + destruct (Hgen (n * S (length (d_states (o_def s)))) (Err Fuel)) as [Hg Ha].
      destruct (iter_c (o_def s) (n * S (length (d_states (o_def s)))) lo n (Err Fuel) (levels_w (o_def s) k)) as [wc r].
      simpl in *. split; [exact Hg|exact Ha].
Qed.

(* ---------- step ---------- *)
Theorem step_ok s q : valid_dfa (o_def s) = true -> cache_inv s ->
  good s (fst (step s q)) /\ snd (step s q) = pure (o_def s) q.
Proof.
  intros Hv I. destruct q as [k|k|k n|k ds| | | | | |n|]; unfold step, pure.
  - destruct (q_count_ok s k Hv I) as [G A]. destruct (q_count s k) as [s' c]. simpl in *. split; [exact G|subst c; reflexivity].
  - destruct (q_words_ok s k Hv I) as [G A]. destruct (q_words s k) as [s' c]. simpl in *. split; [exact G|subst c; reflexivity].
  - destruct n as [|n']; [simpl; split; [apply good_refl; exact I|reflexivity]|].
    destruct (q_words_ok s k Hv I) as [G A]. destruct (q_words s k) as [s' c]. simpl in *. split; [exact G|subst c; reflexivity].
  - destruct (q_random_ok s k ds Hv I) as [G A]. destruct (q_random s k ds) as [s' c]. simpl in *. split; [exact G|subst c; reflexivity].
  - destruct (q_card_ok s Hv I) as [G A]. destruct (q_card s) as [s' c]. simpl in *. split; [exact G|subst c; reflexivity].
  - destruct (q_min_ok s I) as [G A]. destruct (q_min s) as [s' c]. simpl in *. split; [exact G|subst c; reflexivity].
  - destruct (q_max_ok s I) as [G A]. destruct (q_max s) as [s' c]. simpl in *. split; [exact G|subst c; reflexivity].
  - destruct (q_isempty_ok s I) as [G A]. destruct (q_isempty s) as [s' c]. simpl in *. split; [exact G|subst c; reflexivity].
  - destruct (q_isfinite_ok s I) as [G A]. destruct (q_isfinite s) as [s' c]. simpl in *. split; [exact G|subst c; reflexivity].
  - destruct (q_iter_ok s n Hv I) as [G A]. destruct (q_iter s n) as [s' c]. simpl in *. split; [exact G|subst c; reflexivity].
  - simpl. split; [|reflexivity]. destruct I. split; [constructor; simpl; auto; exists 0; reflexivity|reflexivity].
Qed.

Lemma run_history_ok qs : forall s, valid_dfa (o_def s) = true -> cache_inv s -> good s (run_history s qs).
Proof.
  induction qs as [|q qs IH]; intros s Hv I; simpl.
  - apply good_refl. exact I.
  - destruct (step_ok s q Hv I) as [[I1 D1] _]. eapply good_trans; [split; [exact I1|exact D1]|].
    apply IH; [rewrite D1; exact Hv|exact I1].
Qed.

Theorem history_independent m qs q : valid_dfa m = true ->
  snd (step (run_history (init m) qs) q) = pure m q.
Proof.
  intro Hv. destruct (run_history_ok qs (init m) Hv (cache_inv_init m)) as [I D]. simpl in D.
  destruct (step_ok (run_history (init m) qs) q) as [_ A]; [rewrite D; exact Hv|exact I|].
  rewrite A, D. reflexivity.
Qed.

Lemma answers_ok qs : forall s, valid_dfa (o_def s) = true -> cache_inv s ->
  answers s qs = map (pure (o_def s)) qs.
Proof.
  induction qs as [|q qs IH]; intros s Hv I; simpl; [reflexivity|].
  destruct (step_ok s q Hv I) as [[I1 D1] A]. destruct (step s q) as [s' a]. simpl in *.
  rewrite A. f_equal. rewrite <- D1. apply IH; [rewrite D1; exact Hv|exact I1].
Qed.
