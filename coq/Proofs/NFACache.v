(* C20 for NFA instances: the memo invariant, history independence, and the tie of the
   table-consulting answers to the stateless C01 / C07 / C08 / C09 models. *)
From Coq Require Import List Arith Bool Lia.
From AV Require Import Base.Util Base.Closure Spec.Lang Spec.FA Model.FARun Model.Decide Model.Product
     Model.Build Model.Subset Model.Minimize Model.HK Model.NFAOps Model.NFACache Proofs.FARun.
Import ListNotations.

(* ------------------------------------------------------------------ *)
(* Part 1: the invariant and history independence (no validity needed) *)

(* the memo of one instance: empty, or exactly the table computed from scratch *)
Definition memo_ok (m : nfa) (c : memo) : Prop := forall cl, c = Some cl -> nfa_closures m = Ok cl.
Definition memo_inv (defs : list nfa) (st : list memo) : Prop := Forall2 memo_ok defs st.

Lemma memo_inv_fresh defs : memo_inv defs (fresh_memos defs).
Proof.
  unfold memo_inv, fresh_memos. induction defs as [|m r IH]; simpl; constructor; [|exact IH].
  intros cl H. discriminate.
Qed.

Lemma get_closures_ok m c : memo_ok m c ->
  snd (get_closures m c) = nfa_closures m /\ memo_ok m (fst (get_closures m c)).
Proof.
  intro H. unfold get_closures. destruct c as [cl|].
  - simpl. split; [symmetry; apply H; reflexivity|exact H].
  - destruct (nfa_closures m) as [cl|e] eqn:E; simpl; split; try reflexivity.
    + intros cl' Hc. inversion Hc. subst. exact E.
    + intros cl' Hc. discriminate.
Qed.

Lemma inv_nth defs st i m : memo_inv defs st -> nth_error defs i = Some m ->
  exists c, nth_error st i = Some c /\ memo_ok m c.
Proof.
  intro H. revert i. induction H as [|m' c' defs st Hm HF IH]; intros i Hi.
  - destruct i; discriminate.
  - destruct i as [|i]; simpl in *.
    + inversion Hi. subst. exists c'. split; [reflexivity|exact Hm].
    + apply IH. exact Hi.
Qed.

Lemma inv_set_nth defs st i m c : memo_inv defs st -> nth_error defs i = Some m -> memo_ok m c ->
  memo_inv defs (set_nth i c st).
Proof.
  intro H. revert i. induction H as [|m' c' defs st Hm HF IH]; intros i Hi Hc.
  - destruct i; discriminate.
  - destruct i as [|i]; simpl in *.
    + inversion Hi. subst. constructor; assumption.
    + constructor; [exact Hm|]. apply IH; assumption.
Qed.

(* one consultation of the memo under the invariant: the answer is the stateless one, the invariant is kept *)
Lemma with_closures_ok defs st i k (kp : nfa -> table -> nanswer) :
  memo_inv defs st ->
  (forall st' m cl, memo_inv defs st' -> nth_error defs i = Some m -> nfa_closures m = Ok cl ->
      memo_inv defs (fst (k st' m cl)) /\ snd (k st' m cl) = kp m cl) ->
  memo_inv defs (fst (with_closures defs st i k)) /\
  snd (with_closures defs st i k) = pure_with defs i kp.
Proof.
  intros I Hk. unfold with_closures, pure_with.
  destruct (nth_error defs i) as [m|] eqn:Ei; [|split; [exact I|reflexivity]].
  destruct (inv_nth defs st i m I Ei) as [c [Ec Hc]]. rewrite Ec.
  destruct (get_closures_ok m c Hc) as [H1 H2].
  destruct (get_closures m c) as [c' r]. simpl in H1, H2. subst r.
  assert (I' : memo_inv defs (set_nth i c' st)) by (eapply inv_set_nth; eassumption).
  destruct (nfa_closures m) as [cl|e] eqn:E.
  - apply Hk; [exact I'|reflexivity|exact E].
  - split; [exact I'|reflexivity].
Qed.

Lemma step_ok defs st q : memo_inv defs st ->
  memo_inv defs (fst (nstep defs st q)) /\ snd (nstep defs st q) = npure defs q.
Proof.
  intro I. destruct q as [i w|i w n|i j|i mn rn|i|i]; simpl.
  - apply with_closures_ok; [exact I|]. intros; simpl; split; [assumption|reflexivity].
  - destruct n as [|n].
    + destruct (nth_error defs i); split; try exact I; reflexivity.
    + apply with_closures_ok; [exact I|]. intros; simpl; split; [assumption|reflexivity].
  - destruct (nth_error defs i) as [A|]; [|split; [exact I|reflexivity]].
    destruct (nth_error defs j) as [B|]; [|split; [exact I|reflexivity]].
    destruct (nsame_syms A B); [|split; [exact I|reflexivity]].
    apply with_closures_ok; [exact I|]. intros st1 m cla I1 _ _.
    apply with_closures_ok; [exact I1|]. intros; simpl; split; [assumption|reflexivity].
  - apply with_closures_ok; [exact I|]. intros; simpl; split; [assumption|reflexivity].
  - apply with_closures_ok; [exact I|]. intros; simpl; split; [assumption|reflexivity].
  - destruct (nth_error defs i); split; try exact I; reflexivity.
Qed.

Lemma run_history_inv defs qs : forall st, memo_inv defs st -> memo_inv defs (nrun_history defs st qs).
Proof.
  induction qs as [|q r IH]; intros st I; simpl; [exact I|].
  apply IH. apply step_ok. exact I.
Qed.

Lemma nfa_history_independent defs qs q :
  snd (nstep defs (nrun_history defs (fresh_memos defs) qs) q) = npure defs q.
Proof. apply step_ok. apply run_history_inv. apply memo_inv_fresh. Qed.

Lemma nfa_answers_ok defs qs : forall st, memo_inv defs st -> nanswers defs st qs = map (npure defs) qs.
Proof.
  induction qs as [|q r IH]; intros st I; simpl; [reflexivity|].
  destruct (step_ok defs st q I) as [I' E]. rewrite E. f_equal. apply IH. exact I'.
Qed.

(* the stateless answer is literally the first call on fresh instances *)
Lemma pure_is_first_call defs q : npure defs q = snd (nstep defs (fresh_memos defs) q).
Proof. symmetry. apply step_ok. apply memo_inv_fresh. Qed.

(* the memo is really filled: after a query that consults it, the instance holds the from-scratch table *)
Lemma memo_filled defs st i m cl w : memo_inv defs st ->
  nth_error defs i = Some m -> nfa_closures m = Ok cl ->
  nth_error (fst (nstep defs st (NAccepts i w))) i = Some (Some cl).
Proof.
  intros I Ei Ecl. simpl. unfold with_closures. rewrite Ei.
  destruct (inv_nth defs st i m I Ei) as [c [Ec Hc]]. rewrite Ec.
  assert (Hg : fst (get_closures m c) = Some cl).
  { unfold get_closures. destruct c as [cl'|]; simpl.
    - f_equal. specialize (Hc cl' eq_refl). congruence.
    - rewrite Ecl. reflexivity. }
  destruct (get_closures m c) as [c' r] eqn:Eg. simpl in Hg. subst c'.
  assert (Hr : r = Ok cl).
  { pose proof (get_closures_ok m c Hc) as [H1 _]. rewrite Eg in H1. simpl in H1. congruence. }
  subst r. simpl.
  clear -Ec. revert i Ec. induction st as [|y st IH]; intros i Ec; destruct i; simpl in *; try discriminate.
  - reflexivity.
  - apply IH. exact Ec.
Qed.
