(* C20 for NFA instances: the memo invariant, history independence, and the tie of the
   table-consulting answers to the stateless C01 / C07 / C08 / C09 models. *)
From Coq Require Import List Arith Bool Lia.
From AV Require Import Base.Util Base.Closure Spec.Lang Spec.FA Model.FARun Model.Decide Model.Product
     Model.Build Model.Subset Model.Minimize Model.HK Model.NFAOps Model.NFACache Proofs.FARun Proofs.Decide Proofs.NFAOps.
Import ListNotations.

(* ------------------------------------------------------------------ *)
(* Part 1: the invariant and history independence (no validity needed) *)

(* the memo of one instance: empty, or exactly the table computed from scratch *)
Definition memo_ok (m : nfa) (c : memo) : Prop := forall cl, c = Some cl -> nfa_closures m = Ok cl.
Definition memo_inv (defs : list nfa) (st : list memo) : Prop := Forall2 memo_ok defs st.

Lemma memo_inv_fresh defs : memo_inv defs (fresh_memos defs).
Proof.
  unfold memo_inv, fresh_memos. induction defs as [|m r IH]; simpl; constructor; [|exact IH].
  intros cl H. discriminate.
Qed.

Lemma get_closures_ok m c : memo_ok m c ->
  snd (get_closures m c) = nfa_closures m /\ memo_ok m (fst (get_closures m c)).
Proof.
  intro H. unfold get_closures. destruct c as [cl|].
  - simpl. split; [symmetry; apply H; reflexivity|exact H].
  - destruct (nfa_closures m) as [cl|e] eqn:E; simpl; split; try reflexivity.
    + intros cl' Hc. inversion Hc. subst. exact E.
    + intros cl' Hc. discriminate.
Qed.

Lemma inv_nth defs st i m : memo_inv defs st -> nth_error defs i = Some m ->
  exists c, nth_error st i = Some c /\ memo_ok m c.
Proof.
  intro H. revert i. induction H as [|m' c' defs st Hm HF IH]; intros i Hi.
  - destruct i; discriminate.
  - destruct i as [|i]; simpl in *.
    + inversion Hi. subst. exists c'. split; [reflexivity|exact Hm].
    + apply IH. exact Hi.
Qed.

Lemma inv_set_nth defs st i m c : memo_inv defs st -> nth_error defs i = Some m -> memo_ok m c ->
  memo_inv defs (set_nth i c st).
Proof.
  intro H. revert i. induction H as [|m' c' defs st Hm HF IH]; intros i Hi Hc.
  - destruct i; discriminate.
  - destruct i as [|i]; simpl in *.
    + inversion Hi. subst. constructor; assumption.
    + constructor; [exact Hm|]. apply IH; assumption.
Qed.

(* one consultation of the memo under the invariant: the answer is the stateless one, the invariant is kept *)
Lemma with_closures_ok defs st i k (kp : nfa -> table -> nanswer) :
  memo_inv defs st ->
  (forall st' m cl, memo_inv defs st' -> nth_error defs i = Some m -> nfa_closures m = Ok cl ->
      memo_inv defs (fst (k st' m cl)) /\ snd (k st' m cl) = kp m cl) ->
  memo_inv defs (fst (with_closures defs st i k)) /\
  snd (with_closures defs st i k) = pure_with defs i kp.
Proof.
  intros I Hk. unfold with_closures, pure_with.
  destruct (nth_error defs i) as [m|] eqn:Ei; [|split; [exact I|reflexivity]].
  destruct (inv_nth defs st i m I Ei) as [c [Ec Hc]]. rewrite Ec.
  destruct (get_closures_ok m c Hc) as [H1 H2].
  destruct (get_closures m c) as [c' r]. simpl in H1, H2. subst r.
  assert (I' : memo_inv defs (set_nth i c' st)) by (eapply inv_set_nth; eassumption).
  destruct (nfa_closures m) as [cl|e] eqn:E.
  - apply Hk; [exact I'|reflexivity|exact E].
  - split; [exact I'|reflexivity].
Qed.

Lemma step_ok defs st q : memo_inv defs st ->
  memo_inv defs (fst (nstep defs st q)) /\ snd (nstep defs st q) = npure defs q.
Proof.
  intro I. destruct q as [i w|i w n|i j|i mn rn|i|i]; simpl.
  - apply with_closures_ok; [exact I|]. intros; simpl; split; [assumption|reflexivity].
  - destruct n as [|n].
    + destruct (nth_error defs i); split; try exact I; reflexivity.
    + apply with_closures_ok; [exact I|]. intros; simpl; split; [assumption|reflexivity].
  - destruct (nth_error defs i) as [A|]; [|split; [exact I|reflexivity]].
    destruct (nth_error defs j) as [B|]; [|split; [exact I|reflexivity]].
    destruct (nsame_syms A B); [|split; [exact I|reflexivity]].
    apply with_closures_ok; [exact I|]. intros st1 m cla I1 _ _.
    apply with_closures_ok; [exact I1|]. intros; simpl; split; [assumption|reflexivity].
  - apply with_closures_ok; [exact I|]. intros; simpl; split; [assumption|reflexivity].
  - apply with_closures_ok; [exact I|]. intros; simpl; split; [assumption|reflexivity].
  - destruct (nth_error defs i); split; try exact I; reflexivity.
Qed.

Lemma run_history_inv defs qs : forall st, memo_inv defs st -> memo_inv defs (nrun_history defs st qs).
Proof.
  induction qs as [|q r IH]; intros st I; simpl; [exact I|].
  apply IH. apply step_ok. exact I.
Qed.

Lemma nfa_history_independent defs qs q :
  snd (nstep defs (nrun_history defs (fresh_memos defs) qs) q) = npure defs q.
Proof. apply step_ok. apply run_history_inv. apply memo_inv_fresh. Qed.

Lemma nfa_answers_ok defs qs : forall st, memo_inv defs st -> nanswers defs st qs = map (npure defs) qs.
Proof.
  induction qs as [|q r IH]; intros st I; simpl; [reflexivity|].
  destruct (step_ok defs st q I) as [I' E]. rewrite E. f_equal. apply IH. exact I'.
Qed.

(* the stateless answer is literally the first call on fresh instances *)
Lemma pure_is_first_call defs q : npure defs q = snd (nstep defs (fresh_memos defs) q).
Proof. symmetry. apply step_ok. apply memo_inv_fresh. Qed.

(* the memo is really filled: after a query that consults it, the instance holds the from-scratch table *)
Lemma memo_filled defs st i m cl w : memo_inv defs st ->
  nth_error defs i = Some m -> nfa_closures m = Ok cl ->
  nth_error (fst (nstep defs st (NAccepts i w))) i = Some (Some cl).
Proof.
  intros I Ei Ecl. simpl. unfold with_closures. rewrite Ei.
  destruct (inv_nth defs st i m I Ei) as [c [Ec Hc]]. rewrite Ec.
  assert (Hg : fst (get_closures m c) = Some cl).
  { unfold get_closures. destruct c as [cl'|]; simpl.
    - f_equal. specialize (Hc cl' eq_refl). congruence.
    - rewrite Ecl. reflexivity. }
  destruct (get_closures m c) as [c' r] eqn:Eg. simpl in Hg. subst c'.
  assert (Hr : r = Ok cl).
  { pose proof (get_closures_ok m c Hc) as [H1 _]. rewrite Eg in H1. simpl in H1. congruence. }
  subst r. simpl.
  clear -Ec. revert i Ec. induction st as [|y st IH]; intros i Ec; destruct i; simpl in *; try discriminate.
  - reflexivity.
  - apply IH. exact Ec.
Qed.

(* ------------------------------------------------------------------ *)
(* Part 2: the table-consulting answers are the answers of the stateless models *)

(* ---- the table computed from scratch holds, for every state, the closure the other models compute ---- *)
Lemma eclosure_eclose m q c : eclosure m q = Ok c -> eclose m q = c.
Proof.
  unfold eclosure, eclose, eps_succ.
  destruct (closure Nat.eqb (fun q0 => n_targets m q0 None) (S (length (n_states m))) [q]); intro H; inversion H.
  reflexivity.
Qed.

Lemma ecl_eclose m q : ecl m q = eclose m q.
Proof.
  unfold ecl, eclosure, eclose, eps_succ.
  destruct (closure Nat.eqb (fun q0 => n_targets m q0 None) (S (length (n_states m))) [q]); reflexivity.
Qed.

Lemma closures_table_aux m l : forall cl,
  mapM (fun q => bind (eclosure m q) (fun c => Ok (q, c))) l = Ok cl ->
  forall q, In q l -> assoc q cl = Some (eclose m q).
Proof.
  induction l as [|x l IH]; intros cl H q Hq; [destruct Hq|].
  simpl in H. destruct (eclosure m x) as [cx|] eqn:Ex; [|discriminate]. simpl in H.
  destruct (mapM (fun q0 => bind (eclosure m q0) (fun c => Ok (q0, c))) l) as [cl'|] eqn:El; [|discriminate].
  simpl in H. inversion H. subst cl. simpl.
  destruct (Nat.eqb q x) eqn:Eq.
  - apply Nat.eqb_eq in Eq. subst x. f_equal. symmetry. apply eclosure_eclose. exact Ex.
  - destruct Hq as [Hq|Hq]; [subst; rewrite Nat.eqb_refl in Eq; discriminate|].
    apply (IH cl' eq_refl q Hq).
Qed.

Lemma table_lookup m cl q : nfa_closures m = Ok cl -> In q (n_states m) ->
  assoc q cl = Some (eclose m q).
Proof. intros H Hq. exact (closures_table_aux m (n_states m) cl H q Hq). Qed.

Lemma tlook_eclose m cl q : nfa_closures m = Ok cl -> In q (n_states m) -> tlook cl q = eclose m q.
Proof. intros H Hq. unfold tlook. rewrite (table_lookup m cl q H Hq). reflexivity. Qed.

(* ---- generic congruences (no functional extensionality: pointwise equality is carried through the loops) ---- *)
Lemma flat_map_ext_in' {A B} (f g : A -> list B) l : (forall x, In x l -> f x = g x) -> flat_map f l = flat_map g l.
Proof.
  induction l as [|x l IH]; intro H; simpl; [reflexivity|].
  rewrite (H x (or_introl eq_refl)), IH; [reflexivity|]. intros y Hy. apply H. right. exact Hy.
Qed.

Lemma existsb_ext_in {A} (f g : A -> bool) l : (forall x, In x l -> f x = g x) -> existsb f l = existsb g l.
Proof.
  induction l as [|x l IH]; intro H; simpl; [reflexivity|].
  rewrite (H x (or_introl eq_refl)), IH; [reflexivity|]. intros y Hy. apply H. right. exact Hy.
Qed.

Lemma filter_ext_in' {A} (f g : A -> bool) l : (forall x, In x l -> f x = g x) -> filter f l = filter g l.
Proof.
  induction l as [|x l IH]; intro H; simpl; [reflexivity|].
  rewrite (H x (or_introl eq_refl)), IH; [reflexivity|]. intros y Hy. apply H. right. exact Hy.
Qed.

Lemma fold_left_ext_in {A B} (f g : A -> B -> A) l : (forall a x, In x l -> f a x = g a x) ->
  forall a, fold_left f l a = fold_left g l a.
Proof.
  induction l as [|x l IH]; intros H a; simpl; [reflexivity|].
  rewrite (H a x (or_introl eq_refl)). apply IH. intros a' y Hy. apply H. right. exact Hy.
Qed.

Section BfsCongr.
  Variable A : Type.
  Variable eqb : A -> A -> bool.
  Hypothesis eqb_spec : eqb_ok eqb.
  Variables succ succ' : A -> list A.
  Variable P : A -> Prop.
  Hypothesis Hagree : forall x, P x -> succ x = succ' x.
  Hypothesis Hclosed : forall x y, P x -> In y (succ x) -> P y.

  Lemma bfs_congr fuel : forall todo visited, (forall x, In x todo -> P x) ->
    bfs eqb succ fuel todo visited = bfs eqb succ' fuel todo visited.
  Proof.
    induction fuel as [|f IH]; intros todo visited Ht; destruct todo as [|t rest]; simpl; try reflexivity.
    rewrite <- (Hagree t (Ht t (or_introl eq_refl))). apply IH.
    intros x Hx. apply in_app_or in Hx. destruct Hx as [Hx|Hx]; [apply Ht; right; exact Hx|].
    apply (newof_In _ eqb eqb_spec succ) in Hx. destruct Hx as [Hx _].
    eapply Hclosed; [apply Ht; left; reflexivity|exact Hx].
  Qed.

  Lemma closure_congr fuel init : (forall x, In x init -> P x) ->
    closure eqb succ fuel init = closure eqb succ' fuel init.
  Proof.
    intro Hi. unfold closure. apply bfs_congr. intros x Hx.
    apply (newof_In _ eqb eqb_spec succ) in Hx. apply Hi. tauto.
  Qed.

  Lemma closure_in_P fuel init res : (forall x, In x init -> P x) ->
    closure eqb succ fuel init = Some res -> forall x, In x res -> P x.
  Proof.
    intros Hi Hc x Hx. pose proof (closure_sound _ eqb eqb_spec succ fuel init res Hc x Hx) as Hr.
    induction Hr as [y Hy|y z Hr IH Hz]; [apply Hi; exact Hy|].
    eapply Hclosed; [|exact Hz]. apply IH.
    eapply (closure_complete _ eqb eqb_spec); [exact Hc|exact Hr].
  Qed.
End BfsCongr.

Lemma number_snd_In {A} (l : list A) : forall i ip, In ip (number i l) -> In (snd ip) l.
Proof.
  induction l as [|x l IH]; intros i ip H; simpl in *; [exact H|].
  destruct H as [<-|H]; [left; reflexivity|right; eapply IH; exact H].
Qed.

Section BuildCongr.
  Variable P : Type.
  Variable eqbP : P -> P -> bool.
  Hypothesis eqbP_ok : eqb_ok eqbP.
  Variables lsucc lsucc' : P -> list (nat * P).
  Variable isfinal : P -> bool.
  Hypothesis Hagree : forall p, lsucc p = lsucc' p.

  Lemma build_dfa_congr syms fuel init :
    build_dfa P eqbP lsucc isfinal syms fuel init = build_dfa P eqbP lsucc' isfinal syms fuel init.
  Proof.
    unfold build_dfa, explore.
    rewrite (closure_congr P eqbP eqbP_ok (fun p => map snd (lsucc p)) (fun p => map snd (lsucc' p)) (fun _ => True)).
    - destruct (closure eqbP (fun p => map snd (lsucc' p)) fuel [init]) as [ps|]; [|reflexivity].
      f_equal. unfold build_from.
      assert (Hrows : map (fun ip => (fst ip, brow P eqbP lsucc ps (snd ip))) (number 0 ps)
                    = map (fun ip => (fst ip, brow P eqbP lsucc' ps (snd ip))) (number 0 ps)).
      { apply map_ext. intro ip. unfold brow. rewrite Hagree. reflexivity. }
      rewrite Hrows. reflexivity.
    - intros x _. rewrite Hagree. reflexivity.
    - intros; exact I.
    - intros; exact I.
  Qed.
End BuildCongr.

(* ---- one valid NFA and its from-scratch table ---- *)
Section OneNFA.
  Variable m : nfa.
  Hypothesis Hv : valid_nfa m = true.
  Variable cl : table.
  Hypothesis Hcl : nfa_closures m = Ok cl.

  Lemma init_in_states : In (n_init m) (n_states m).
  Proof. destruct (valid_nfa_parts m Hv) as (_ & _ & H & _). exact H. Qed.

  (* C01: the reader *)
  Lemma stepwise_cl_eq w : nfa_stepwise m w = nfa_stepwise_cl m cl w.
  Proof. unfold nfa_stepwise. rewrite Hcl. reflexivity. Qed.

  (* the subset step consults the table only on transition targets: equal on EVERY subset *)
  Lemma nset_step_e_eq S a : nset_step_e (tlook cl) m S a = nset_step m S a.
  Proof.
    unfold nset_step_e, nset_step. f_equal. apply flat_map_ext_in'. intros q _.
    apply flat_map_ext_in'. intros t Ht. apply (tlook_eclose m cl t Hcl).
    eapply targets_in_states; [exact Hv|exact Ht].
  Qed.

  Lemma nset_init_e_eq : nset_init_e (tlook cl) m = nset_init m.
  Proof. unfold nset_init_e, nset_init. apply (tlook_eclose m cl _ Hcl). exact init_in_states. Qed.

  Lemma det_succ_e_eq S : det_succ_e (tlook cl) m S = det_succ m S.
  Proof.
    unfold det_succ_e, det_succ. apply flat_map_ext_in'. intros c _. rewrite nset_step_e_eq. reflexivity.
  Qed.

  (* C07: the subset construction *)
  Lemma determinize_e_eq : determinize_e (tlook cl) m = determinize_m m.
  Proof.
    unfold determinize_e, determinize_m. rewrite nset_init_e_eq.
    apply build_dfa_congr; [apply eqb_list_ok; exact eqb_nat_ok|]. exact det_succ_e_eq.
  Qed.

  Lemma from_nfa_e_eq mn :
    from_nfa_e (tlook cl) m mn = bind (determinize_m m) (fun d => if mn then to_partial_min d else Ok d).
  Proof. unfold from_nfa_e. rewrite determinize_e_eq. reflexivity. Qed.

  (* is_final_state consults the table on the members of the subset state: equal on subsets of the states *)
  Lemma nset_final_cl_e_eq S : incl S (n_states m) -> nset_final_cl_e (tlook cl) m S = nset_final_cl m S.
  Proof.
    intro Hi. unfold nset_final_cl_e, nset_final_cl. apply existsb_ext_in. intros q Hq.
    rewrite (tlook_eclose m cl q Hcl (Hi q Hq)). reflexivity.
  Qed.

  Lemma nset_step_incl S a : incl (nset_step m S a) (n_states m).
  Proof.
    intros x Hx. unfold nset_step in Hx. rewrite set_of_In in Hx. apply in_flat_map in Hx.
    destruct Hx as [q [_ Hx]]. apply in_flat_map in Hx. destruct Hx as [t [Ht Hx]].
    eapply (eclose_in_states m Hv t x); [|exact Hx]. eapply targets_in_states; [exact Hv|exact Ht].
  Qed.

  Lemma nset_init_incl : incl (nset_init m) (n_states m).
  Proof. intros x Hx. eapply (eclose_in_states m Hv (n_init m) x); [exact init_in_states|exact Hx]. Qed.
End OneNFA.

(* ---- Hopcroft-Karp loop: two systems that agree on an invariant set of states give the same run ---- *)
Section HKCongr.
  Variables X Y : Type.
  Variable eqbX : X -> X -> bool.
  Variable eqbY : Y -> Y -> bool.
  Variables stepX stepX' : X -> nat -> X.
  Variables stepY stepY' : Y -> nat -> Y.
  Variables finX finX' : X -> bool.
  Variables finY finY' : Y -> bool.
  Variable tie : elem X Y -> elem X Y -> bool.
  Variable syms : list nat.
  Variable PX : X -> Prop.
  Variable PY : Y -> Prop.
  Hypothesis HsX : forall x a, PX x -> stepX x a = stepX' x a.
  Hypothesis HsY : forall y a, PY y -> stepY y a = stepY' y a.
  Hypothesis HfX : forall x, PX x -> finX x = finX' x.
  Hypothesis HfY : forall y, PY y -> finY y = finY' y.
  Hypothesis HcX : forall x a, PX x -> PX (stepX x a).
  Hypothesis HcY : forall y a, PY y -> PY (stepY y a).

  Notation elem := (elem X Y).
  Notation eqbE := (eqbE X Y eqbX eqbY).
  Notation elookup := (elookup X Y eqbX eqbY).
  Notation find := (fuf_find X Y eqbX eqbY).
  Notation union := (fuf_union X Y eqbX eqbY tie).
  Notation walk := (f_walk X Y eqbX eqbY).
  Notation sym := (hk_symbol X Y eqbX eqbY stepX stepY find union).
  Notation sym' := (hk_symbol X Y eqbX eqbY stepX' stepY' find union).
  Notation loop := (hk_loop X Y eqbX eqbY stepX stepY finX finY find union syms).
  Notation loop' := (hk_loop X Y eqbX eqbY stepX' stepY' finX' finY' find union syms).

  Definition PE (e : elem) : Prop := match e with inl x => PX x | inr y => PY y end.
  Definition par_P (p : list (elem * elem)) : Prop := forall k v, In (k, v) p -> PE k /\ PE v.
  Definition stack_P (s : list (elem * elem)) : Prop := forall a b, In (a, b) s -> PE a /\ PE b.
  Definition hk_inv (st : hk_state X Y) : Prop := par_P (uf_parents X Y (fst st)) /\ stack_P (snd st).

  Lemma elookup_In (k : elem) (l : list (elem * elem)) v : elookup k l = Some v -> exists k', In (k', v) l.
  Proof.
    induction l as [|[k' v'] l IH]; simpl; [discriminate|].
    destruct (eqbE k k').
    - intro H. inversion H. subst. exists k'. left. reflexivity.
    - intro H. destruct (IH H) as [k'' Hk]. exists k''. right. exact Hk.
  Qed.

  Lemma walk_P p : par_P p -> forall n obj path, PE obj -> (forall z, In z path -> PE z) ->
    PE (fst (walk n p obj path)) /\ forall z, In z (snd (walk n p obj path)) -> PE z.
  Proof.
    intros Hp. induction n as [|n IH]; intros obj path Ho Hpath; simpl; [split; assumption|].
    destruct (elookup obj p) as [root|] eqn:E; [|split; assumption].
    destruct (eqbE root obj); [split; assumption|].
    apply IH.
    - destruct (elookup_In _ _ _ E) as [k' Hk]. exact (proj2 (Hp _ _ Hk)).
    - intros z [<-|Hz]; [exact Ho|apply Hpath; exact Hz].
  Qed.

  Lemma find_P u x : par_P (uf_parents X Y u) -> PE x ->
    PE (fst (find u x)) /\ par_P (uf_parents X Y (snd (find u x))).
  Proof.
    intros Hu Hx. unfold fuf_find. destruct (elookup x (uf_parents X Y u)) as [r|] eqn:E.
    - pose proof (walk_P _ Hu (S (length (uf_parents X Y u))) x [] Hx (fun z (H : In z []) => match H with end)) as [W1 W2].
      destruct (walk (S (length (uf_parents X Y u))) (uf_parents X Y u) x []) as [root path]. simpl in *.
      split; [exact W1|]. intros k v Hkv. apply in_app_or in Hkv. destruct Hkv as [Hkv|Hkv]; [|apply Hu; exact Hkv].
      apply in_map_iff in Hkv. destruct Hkv as [anc [Heq Hanc]]. inversion Heq. subst. split; [apply W2; exact Hanc|exact W1].
    - simpl. split; [exact Hx|]. intros k v [Heq|Hkv]; [inversion Heq; subst; split; exact Hx|apply Hu; exact Hkv].
  Qed.

  Lemma union_P u a b : par_P (uf_parents X Y u) -> PE a -> PE b -> par_P (uf_parents X Y (union u a b)).
  Proof.
    intros Hu Ha Hb. unfold fuf_union.
    destruct (find_P u a Hu Ha) as [Hra Hu1]. destruct (find u a) as [ra u1]. simpl in Hra, Hu1.
    destruct (find_P u1 b Hu1 Hb) as [Hrb Hu2]. destruct (find u1 b) as [rb u2]. simpl in Hrb, Hu2.
    destruct (eqbE ra rb); [exact Hu2|]. simpl.
    intros k v [Heq|Hkv]; [|apply Hu2; exact Hkv]. inversion Heq.
    destruct (if Nat.ltb (uf_weight X Y eqbX eqbY u2 rb) (uf_weight X Y eqbX eqbY u2 ra) then true
              else if Nat.ltb (uf_weight X Y eqbX eqbY u2 ra) (uf_weight X Y eqbX eqbY u2 rb) then false else tie ra rb);
      split; assumption.
  Qed.

  Lemma estep_eq q a : PE q -> estep X Y stepX stepY q a = estep X Y stepX' stepY' q a.
  Proof. destruct q as [x|y]; simpl; intro H; f_equal; [apply HsX|apply HsY]; exact H. Qed.

  Lemma estep_P q a : PE q -> PE (estep X Y stepX stepY q a).
  Proof. destruct q as [x|y]; simpl; intro H; [apply HcX|apply HcY]; exact H. Qed.

  Lemma efinal_eq q : PE q -> efinal X Y finX finY q = efinal X Y finX' finY' q.
  Proof. destruct q as [x|y]; simpl; intro H; [apply HfX|apply HfY]; exact H. Qed.

  Lemma sym_eq qa qb st a : PE qa -> PE qb -> sym qa qb st a = sym' qa qb st a.
  Proof. intros Ha Hb. unfold hk_symbol. rewrite (estep_eq qa a Ha), (estep_eq qb a Hb). reflexivity. Qed.

  Lemma sym_P qa qb st a : PE qa -> PE qb -> hk_inv st -> hk_inv (sym qa qb st a).
  Proof.
    intros Ha Hb [Hu Hs]. unfold hk_symbol.
    destruct (find_P (fst st) _ Hu (estep_P qa a Ha)) as [Hr1 Hu1].
    destruct (find (fst st) (estep X Y stepX stepY qa a)) as [r1 u1]. simpl in Hr1, Hu1.
    destruct (find_P u1 _ Hu1 (estep_P qb a Hb)) as [Hr2 Hu2].
    destruct (find u1 (estep X Y stepX stepY qb a)) as [r2 u2]. simpl in Hr2, Hu2.
    destruct (eqbE r1 r2); split; simpl; try assumption.
    - apply union_P; assumption.
    - intros x y [Heq|Hxy]; [inversion Heq; subst; split; assumption|apply Hs; exact Hxy].
  Qed.

  Lemma fold_sym qa qb todo : PE qa -> PE qb -> forall st, hk_inv st ->
    fold_left (sym qa qb) todo st = fold_left (sym' qa qb) todo st /\ hk_inv (fold_left (sym qa qb) todo st).
  Proof.
    intros Ha Hb. induction todo as [|a todo IH]; intros st I; simpl; [split; [reflexivity|exact I]|].
    rewrite <- (sym_eq qa qb st a Ha Hb). apply IH. apply sym_P; assumption.
  Qed.

  Lemma loop_congr fuel : forall st, hk_inv st -> loop fuel st = loop' fuel st.
  Proof.
    induction fuel as [|f IH]; intros [u stack] [Hu Hs]; simpl in *;
      destruct stack as [|[qa qb] rest]; try reflexivity.
    destruct (Hs qa qb (or_introl eq_refl)) as [Ha Hb].
    rewrite <- (efinal_eq qa Ha), <- (efinal_eq qb Hb).
    destruct (xorb (efinal X Y finX finY qa) (efinal X Y finX finY qb)); [reflexivity|].
    assert (I : hk_inv (u, rest)).
    { split; [exact Hu|]. intros x y Hxy. apply Hs. right. exact Hxy. }
    destruct (fold_sym qa qb syms Ha Hb (u, rest) I) as [E I']. rewrite <- E. apply IH. exact I'.
  Qed.

  Theorem hk_run_forest_congr fuel x0 y0 : PX x0 -> PY y0 ->
    hk_run_forest X Y eqbX eqbY stepX stepY finX finY tie syms fuel x0 y0 =
    hk_run_forest X Y eqbX eqbY stepX' stepY' finX' finY' tie syms fuel x0 y0.
  Proof.
    intros Hx Hy. unfold hk_run_forest, hk_run. apply loop_congr. split; simpl.
    - apply union_P; simpl; try assumption.
      intros k v [H|[H|[]]]; inversion H; subst; split; assumption.
    - intros a b [H|[]]. inversion H. subst. split; assumption.
  Qed.
End HKCongr.

(* C09: NFA.__eq__ with both tables at hand *)
Lemma nfa_hk_eq_e_eq A B cla clb : valid_nfa A = true -> valid_nfa B = true ->
  nfa_closures A = Ok cla -> nfa_closures B = Ok clb ->
  nfa_hk_eq_e (tlook cla) (tlook clb) A B = nfa_hk_eq A B.
Proof.
  intros HA HB Ha Hb. unfold nfa_hk_eq_e, nfa_hk_eq, nfa_hk_eq_gen.
  destruct (nsame_syms A B); [|reflexivity].
  rewrite (nset_init_e_eq A HA cla Ha), (nset_init_e_eq B HB clb Hb).
  apply (hk_run_forest_congr (list nat) (list nat) (eqb_list Nat.eqb) (eqb_list Nat.eqb)
           _ _ _ _ _ _ _ _ _ (n_syms A)
           (fun S => incl S (n_states A)) (fun S => incl S (n_states B))).
  - intros S a _. apply nset_step_e_eq; assumption.
  - intros S a _. apply nset_step_e_eq; assumption.
  - intros S HS. apply nset_final_cl_e_eq; assumption.
  - intros S HS. apply nset_final_cl_e_eq; assumption.
  - intros S a _. rewrite (nset_step_e_eq A HA cla Ha). apply nset_step_incl. exact HA.
  - intros S a _. rewrite (nset_step_e_eq B HB clb Hb). apply nset_step_incl. exact HB.
  - apply nset_init_incl. exact HA.
  - apply nset_init_incl. exact HB.
Qed.

(* C08/C07: _eliminate_lambda consults the table on the states and on transition targets only *)
Section ElimCongr.
  Variable A : nfa.
  Hypothesis Hv : valid_nfa A = true.
  Variable cl : table.
  Hypothesis Hcl : nfa_closures A = Ok cl.

  Lemma tlook_ecl q : In q (n_states A) -> tlook cl q = ecl A q.
  Proof. intro Hq. rewrite ecl_eclose. apply tlook_eclose; assumption. Qed.

  Lemma encl_e_eq q : In q (n_states A) -> encl_e (tlook cl) q = encl A q.
  Proof. intro Hq. unfold encl_e, encl. rewrite (tlook_ecl q Hq). reflexivity. Qed.

  Lemma elim_next_e_eq q a : In q (n_states A) -> elim_next_e (tlook cl) A q a = elim_next A q a.
  Proof.
    intro Hq. unfold elim_next_e, elim_next. rewrite (encl_e_eq q Hq).
    apply flat_map_ext_in'. intros p _. apply flat_map_ext_in'. intros t Ht. apply tlook_ecl.
    eapply targets_in_states; [exact Hv|exact Ht].
  Qed.

  Lemma elim_new_syms_e_eq q : In q (n_states A) -> elim_new_syms_e (tlook cl) A q = elim_new_syms A q.
  Proof.
    intro Hq. unfold elim_new_syms_e, elim_new_syms. apply filter_ext_in'. intros a _.
    rewrite (elim_next_e_eq q a Hq). reflexivity.
  Qed.

  Lemma elim_row_e_eq q : In q (n_states A) -> elim_row_e (tlook cl) A q = elim_row A q.
  Proof.
    intro Hq. unfold elim_row_e, elim_row. rewrite (elim_new_syms_e_eq q Hq). unfold tab.
    apply map_ext. intros [s|]; [|reflexivity]. rewrite (elim_next_e_eq q s Hq). reflexivity.
  Qed.

  Lemma elim_rowof_e_eq q : In q (n_states A) -> elim_rowof_e (tlook cl) A q = elim_rowof A q.
  Proof.
    intro Hq. unfold elim_rowof_e, elim_rowof. rewrite (elim_new_syms_e_eq q Hq), (elim_row_e_eq q Hq). reflexivity.
  Qed.

  Lemma elim_finals_e_eq : elim_finals_e (tlook cl) A = elim_finals A.
  Proof.
    unfold elim_finals_e, elim_finals. apply fold_left_ext_in. intros acc q Hq.
    rewrite (encl_e_eq q Hq). reflexivity.
  Qed.

  Lemma nfa_eliminate_lambda_e_eq : nfa_eliminate_lambda_e (tlook cl) A = nfa_eliminate_lambda A.
  Proof.
    unfold nfa_eliminate_lambda_e, nfa_eliminate_lambda, elim_parts_e, elim_parts.
    assert (Hclosed : forall x y, In x (n_states A) -> In y (row_targets (elim_row_e (tlook cl) A x)) -> In y (n_states A)).
    { intros x y Hx Hy. rewrite (elim_row_e_eq x Hx) in Hy. apply elim_succ in Hy. destruct Hy as [a Hy].
      eapply (elim_step_in A Hv); eassumption. }
    assert (Hinit : forall x, In x [n_init A] -> In x (n_states A)).
    { intros x [<-|[]]. destruct (valid_nfa_parts A Hv) as (_ & _ & H & _). exact H. }
    rewrite <- (closure_congr nat Nat.eqb eqb_nat_ok
               (fun q => row_targets (elim_row_e (tlook cl) A q)) (fun q => row_targets (elim_row A q))
               (fun q => In q (n_states A))
               (fun x Hx => f_equal row_targets (elim_row_e_eq x Hx)) Hclosed _ _ Hinit).
    destruct (closure Nat.eqb (fun q => row_targets (elim_row_e (tlook cl) A q)) (S (length (n_states A))) [n_init A])
      as [reach|] eqn:E; [|reflexivity].
    simpl. rewrite elim_finals_e_eq. f_equal. unfold assemble. f_equal.
    apply flat_map_ext_in'. intros x Hx.
    rewrite (elim_rowof_e_eq x); [reflexivity|].
    exact (closure_in_P nat Nat.eqb eqb_nat_ok _ (fun q => In q (n_states A)) Hclosed _ _ _ Hinit E x Hx).
  Qed.
End ElimCongr.

(* ---- all queries: the from-scratch answers are the answers of the C01 / C09 / C07 / C08 models ---- *)
Lemma nth_valid defs i m : forallb valid_nfa defs = true -> nth_error defs i = Some m -> valid_nfa m = true.
Proof.
  intros H Hi. rewrite forallb_forall in H. apply H. eapply nth_error_In. exact Hi.
Qed.

Lemma closures_total m : valid_nfa m = true -> exists cl, nfa_closures m = Ok cl.
Proof. intro Hv. destruct (closures_spec m Hv) as [cl [E _]]. exists cl. exact E. Qed.

Lemma npure_spec defs q : forallb valid_nfa defs = true -> npure defs q = spec_answer defs q.
Proof.
  intro HV. destruct q as [i w|i w n|i j|i mn rn|i|i]; simpl; unfold pure_with.
  - destruct (nth_error defs i) as [m|] eqn:Ei; [|reflexivity].
    pose proof (nth_valid defs i m HV Ei) as Hv. destruct (closures_total m Hv) as [cl Hcl]. rewrite Hcl.
    unfold ans_accepts, nfa_accepts, nfa_read_input. rewrite (stepwise_cl_eq m cl Hcl w). reflexivity.
  - destruct (nth_error defs i) as [m|] eqn:Ei; [|destruct n; reflexivity].
    pose proof (nth_valid defs i m HV Ei) as Hv. destruct (closures_total m Hv) as [cl Hcl].
    rewrite (stepwise_cl_eq m cl Hcl w).
    destruct n as [|n].
    + destruct (nfa_stepwise_cl m cl w) as [ys o]. reflexivity.
    + rewrite Hcl. reflexivity.
  - destruct (nth_error defs i) as [A|] eqn:Ei; [|reflexivity].
    destruct (nth_error defs j) as [B|] eqn:Ej; [|reflexivity].
    pose proof (nth_valid defs i A HV Ei) as HA. pose proof (nth_valid defs j B HV Ej) as HB.
    destruct (closures_total A HA) as [cla Ha]. destruct (closures_total B HB) as [clb Hb].
    destruct (nsame_syms A B) eqn:Es.
    + rewrite Ha, Hb. unfold ans_eq. rewrite (nfa_hk_eq_e_eq A B cla clb HA HB Ha Hb). reflexivity.
    + unfold nfa_hk_eq, nfa_hk_eq_gen. rewrite Es. reflexivity.
  - destruct (nth_error defs i) as [m|] eqn:Ei; [|reflexivity].
    pose proof (nth_valid defs i m HV Ei) as Hv. destruct (closures_total m Hv) as [cl Hcl]. rewrite Hcl.
    unfold ans_from_nfa. rewrite (from_nfa_e_eq m Hv cl Hcl mn). reflexivity.
  - destruct (nth_error defs i) as [m|] eqn:Ei; [|reflexivity].
    pose proof (nth_valid defs i m HV Ei) as Hv. destruct (closures_total m Hv) as [cl Hcl]. rewrite Hcl.
    unfold ans_elim. rewrite (nfa_eliminate_lambda_e_eq m Hv cl Hcl). reflexivity.
  - reflexivity.
Qed.
