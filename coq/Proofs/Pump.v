(* Pigeonhole / pumping core: an accepted word at least as long as the number of states
   passes twice through some state, hence arbitrarily long accepted words exist. *)
From Coq Require Import List Arith Bool Lia.
From AV Require Import Base.Util Spec.Lang Spec.FA Proofs.FARun.
Import ListNotations.

Lemma not_NoDup_split (l : list nat) : ~ NoDup l -> exists a l1 l2 l3, l = l1 ++ a :: l2 ++ a :: l3.
Proof.
  induction l as [|a l IH]; intro H.
  - exfalso. apply H. constructor.
  - destruct (in_dec Nat.eq_dec a l) as [Hin|Hnin].
    + apply in_split in Hin. destruct Hin as [l2 [l3 E]]. exists a, [], l2, l3. simpl. rewrite E. reflexivity.
    + destruct IH as [b [l1 [l2 [l3 E]]]].
      { intro Hn. apply H. constructor; assumption. }
      exists b, (a :: l1), l2, l3. simpl. rewrite E. reflexivity.
Qed.

Lemma pigeonhole (l U : list nat) : incl l U -> length U < length l ->
  exists a l1 l2 l3, l = l1 ++ a :: l2 ++ a :: l3.
Proof.
  intros Hi Hl. apply not_NoDup_split. intro Hn. pose proof (NoDup_incl_length Hn Hi). lia.
Qed.

Fixpoint rep (y : word) (n : nat) : word := match n with 0 => [] | S n' => y ++ rep y n' end.

Lemma rep_length y n : y <> [] -> n <= length (rep y n).
Proof.
  intro Hy. induction n as [|n IH]; simpl; [lia|]. rewrite app_length.
  destruct y; [congruence|]. simpl. lia.
Qed.

Section Pump.
  Variable m : dfa.
  Hypothesis Hv : valid_dfa m = true.
  Let q0 := d_init m.

  Definition state_at (w : word) (i : nat) : nat :=
    match dfa_run m (Some q0) (firstn i w) with Some s => s | None => 0 end.

  Lemma acc_prefix_state w i : dfa_acc m w = true -> i <= length w ->
    exists s, dfa_run m (Some q0) (firstn i w) = Some s /\ In s (d_states m).
  Proof.
    intros Ha Hi. unfold dfa_acc, dfa_acc_from in Ha. fold q0 in Ha.
    rewrite <- (firstn_skipn i w) in Ha at 1. rewrite dfa_run_app in Ha.
    pose proof (dfa_run_ok m Hv (firstn i w) (Some q0) (init_ok m Hv)) as Hok.
    destruct (dfa_run m (Some q0) (firstn i w)) as [s|].
    - exists s. split; [reflexivity|exact Hok].
    - rewrite dfa_run_None in Ha. discriminate.
  Qed.

  Lemma rep_run s y n : dfa_run m (Some s) y = Some s -> dfa_run m (Some s) (rep y n) = Some s.
  Proof.
    intro H. induction n as [|n IH]; simpl; [reflexivity|]. rewrite dfa_run_app, H. exact IH.
  Qed.

  (* the loop, found among the first |Q|+1 states of the run *)
  Lemma pump_split_short w : dfa_acc m w = true -> length (d_states m) <= length w ->
    exists x y z s, w = x ++ y ++ z /\ y <> [] /\
      dfa_run m (Some q0) x = Some s /\ dfa_run m (Some s) y = Some s /\
      length (x ++ y) <= length (d_states m).
  Proof.
    intros Ha Hl. set (n := length (d_states m)) in *.
    set (l := map (state_at w) (seq 0 (S n))).
    assert (Hin : incl l (d_states m)).
    { intros s Hs. apply in_map_iff in Hs. destruct Hs as [i [<- Hi]]. apply in_seq in Hi.
      destruct (acc_prefix_state w i Ha ltac:(lia)) as [s [E Hs]]. unfold state_at. rewrite E. exact Hs. }
    assert (Hlen : length l = S n) by (unfold l; rewrite map_length, seq_length; reflexivity).
    destruct (pigeonhole l (d_states m) Hin ltac:(fold n; lia)) as [a [l1 [l2 [l3 E]]]].
    assert (Hnth : forall i, i < S n -> nth i l 0 = state_at w i).
    { intros i Hi. unfold l. rewrite (nth_indep _ 0 (state_at w 0)); [|rewrite map_length, seq_length; exact Hi].
      rewrite map_nth, seq_nth; [reflexivity|exact Hi]. }
    set (i := length l1). set (j := length (l1 ++ a :: l2)).
    assert (Hlens : length l = i + 1 + length l2 + 1 + length l3).
    { rewrite E. repeat (rewrite app_length; simpl). unfold i. lia. }
    assert (Hj : j = i + 1 + length l2) by (unfold j, i; rewrite app_length; simpl; lia).
    assert (Ei : nth i l 0 = a) by (rewrite E; apply nth_middle).
    assert (Ej : nth j l 0 = a).
    { rewrite E. replace (l1 ++ a :: l2 ++ a :: l3) with ((l1 ++ a :: l2) ++ a :: l3)
        by (rewrite <- app_assoc; reflexivity). apply nth_middle. }
    rewrite Hnth in Ei by lia. rewrite Hnth in Ej by lia.
    destruct (acc_prefix_state w i Ha ltac:(lia)) as [si [Ri _]].
    destruct (acc_prefix_state w j Ha ltac:(lia)) as [sj [Rj _]].
    unfold state_at in Ei, Ej. rewrite Ri in Ei. rewrite Rj in Ej. subst si sj.
    set (x := firstn i w). set (u := skipn i w).
    assert (Ew : w = x ++ u) by (symmetry; apply firstn_skipn).
    assert (Lx : length x = i) by (apply firstn_length_le; lia).
    assert (Lu : length u = length w - i) by (apply skipn_length).
    assert (Efj : firstn j w = x ++ firstn (j - i) u).
    { rewrite Ew at 1. rewrite firstn_app, Lx. f_equal. apply firstn_all2. lia. }
    exists x, (firstn (j - i) u), (skipn (j - i) u), a. repeat split.
    - rewrite firstn_skipn. exact Ew.
    - intro Hy. assert (L : length (firstn (j - i) u) = j - i) by (apply firstn_length_le; lia).
      rewrite Hy in L. simpl in L. lia.
    - exact Ri.
    - rewrite Efj, dfa_run_app in Rj. fold x in Ri. rewrite Ri in Rj. exact Rj.
    - rewrite app_length, Lx. rewrite firstn_length_le by lia. fold n. lia.
  Qed.

  Lemma pump_split w : dfa_acc m w = true -> length (d_states m) <= length w ->
    exists x y z s, w = x ++ y ++ z /\ y <> [] /\
      dfa_run m (Some q0) x = Some s /\ dfa_run m (Some s) y = Some s.
  Proof.
    intros Ha Hl. destruct (pump_split_short w Ha Hl) as [x [y [z [s [H1 [H2 [H3 [H4 _]]]]]]]].
    exists x, y, z, s. repeat split; assumption.
  Qed.

  (* pumping down: cutting the loop out shortens the word by at most |Q| symbols *)
  Lemma pump_down w : dfa_acc m w = true -> length (d_states m) <= length w ->
    exists w', dfa_acc m w' = true /\ length w' < length w /\ length w <= length w' + length (d_states m).
  Proof.
    intros Ha Hl. destruct (pump_split_short w Ha Hl) as [x [y [z [s [Ew [Hy [Rx [Ry Hxy]]]]]]]].
    exists (x ++ z). split; [|split].
    - unfold dfa_acc, dfa_acc_from in Ha |- *. fold q0 in Ha |- *.
      rewrite Ew in Ha. rewrite !dfa_run_app, Rx, Ry in Ha. rewrite dfa_run_app, Rx. exact Ha.
    - rewrite Ew, !app_length. destruct y; [congruence|]. simpl. lia.
    - rewrite Ew, !app_length in *. lia.
  Qed.

  (* an infinite language has an accepted word in every window of |Q| consecutive lengths *)
  Lemma window_word : (forall n, exists w, dfa_acc m w = true /\ n < length w) ->
    forall L, exists w, dfa_acc m w = true /\ L <= length w < L + length (d_states m).
  Proof.
    intros Hinf L. destruct (Hinf L) as [w0 [Ha0 Hl0]].
    assert (Hq : 1 <= length (d_states m)).
    { destruct (acc_prefix_state w0 0 Ha0 ltac:(lia)) as [s [_ Hs]].
      destruct (d_states m); [destruct Hs|simpl; lia]. }
    assert (Hgo : forall k w, length w <= k -> dfa_acc m w = true -> L <= length w ->
              exists w', dfa_acc m w' = true /\ L <= length w' < L + length (d_states m)).
    { induction k as [|k IH]; intros w Hk Ha Hl.
      - exists w. split; [exact Ha|]. lia.
      - destruct (le_lt_dec (L + length (d_states m)) (length w)) as [Hbig|Hsmall].
        + destruct (pump_down w Ha ltac:(lia)) as [w' [Ha' [Hlt Hge]]].
          apply (IH w'); [lia|exact Ha'|lia].
        + exists w. split; [exact Ha|lia]. }
    apply (Hgo (length w0) w0); [lia|exact Ha0|lia].
  Qed.

  Theorem pump_infinite w : dfa_acc m w = true -> length (d_states m) <= length w ->
    forall n, exists w', dfa_acc m w' = true /\ n < length w'.
  Proof.
    intros Ha Hl n. destruct (pump_split w Ha Hl) as [x [y [z [s [Ew [Hy [Rx Ry]]]]]]].
    exists (x ++ rep y (S n) ++ z). split.
    - unfold dfa_acc, dfa_acc_from in Ha |- *. fold q0 in Ha |- *.
      rewrite Ew in Ha. rewrite !dfa_run_app, Rx in Ha. rewrite !dfa_run_app, Rx. rewrite Ry in Ha. rewrite (rep_run s y (S n) Ry). exact Ha.
    - rewrite !app_length. pose proof (rep_length y (S n) Hy). lia.
  Qed.
End Pump.
