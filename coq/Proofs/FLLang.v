(* C15 / from_finite_language: the main loop over the sorted words, the renaming of the states to numbers,
   `_to_complete`, and the language / validity theorem of the mirror model (Model/FiniteLang.v). *)
From Coq Require Import List Arith Bool Lia Sorted.
From AV Require Import Base.Util Spec.Lang Spec.FA Spec.DictOrder Spec.Preds
                       Model.Decide Model.Product Model.DFAOps Model.Construct Model.Validate Model.FiniteLang
                       Proofs.Preds Proofs.FARun Proofs.DFAOps2 Proofs.Construct Proofs.Validate
                       Proofs.FLDict Proofs.FLInv Proofs.FLAdd.
Import ListNotations.

(* ---------- add_to_trie, packaged ---------- *)
Lemma add_ok s done u a r : Inv s done u ->
  (forall y w, y <> [] -> pre y (a :: r) -> In w done -> ~ pre (u ++ y) w) ->
  Inv (add_to_trie s (u ++ a :: r)) ((u ++ a :: r) :: done) (u ++ a :: r).
Proof.
  intros HI Hf. destruct (u_row s done u a r HI Hf) as [row [Hrow Ha]].
  rewrite (add_closed s done u a r HI Hf row Hrow Ha). exact (add_inv s done u a r HI Hf row Hrow Ha).
Qed.

(* ---------- the first word ---------- *)
Definition fl_init' : flst := mkfl [([], [])] [([], [])] [] [].

Lemma key_singleton q (row : wrow) : key q [([], row)] -> q = [].
Proof. unfold key. simpl. weq q ([] : word); [auto|congruence]. Qed.

Lemma delta_init q b (row : wrow) : row = [] -> wdelta [([], row)] q b = None.
Proof. intros ->. unfold wdelta. simpl. destruct (word_eqb q []); reflexivity. Qed.

Lemma pre_nil_inv (x : word) : pre x [] -> x = [].
Proof. intros [t E]. symmetry in E. apply app_eq_nil in E. tauto. Qed.

Lemma init'_inv : Inv fl_init' [] [].
Proof.
  constructor; simpl.
  - constructor; [intros []|constructor].
  - intros q row H. weq q ([] : word); [|discriminate]. inversion H. constructor.
  - intros x Hx. apply pre_nil_inv in Hx. subst. unfold key. simpl. discriminate.
  - intros x b Hx. apply pre_nil_inv in Hx. destruct x; discriminate.
  - intros q b r Hd. rewrite delta_init in Hd by reflexivity. discriminate.
  - intros x Hx v. apply pre_nil_inv in Hx. subst. split; [|intros []].
    destruct v as [|b v]; unfold wacc; simpl; [discriminate|]. rewrite wrun_None. discriminate.
  - intros sg q [].
  - intros x b Hx. apply pre_nil_inv in Hx. destruct x; discriminate.
  - intros q b r Hd. rewrite delta_init in Hd by reflexivity. discriminate.
  - intros q [].
  - constructor.
  - intros q Hq. left. unfold bkey in Hq. simpl in Hq. weq q ([] : word); [auto|congruence].
  - intros q Hq. apply key_singleton in Hq. subst. unfold bkey. simpl. discriminate.
  - intros q b r Hd. rewrite delta_init in Hd by reflexivity. discriminate.
  - intros q Hq Hn. apply key_singleton in Hq. contradiction.
Qed.

Lemma first_nil_inv : Inv (add_to_trie fl_init []) [[]] [].
Proof.
  unfold add_to_trie. simpl. constructor; simpl.
  - constructor; [intros []|constructor].
  - intros q row H. weq q ([] : word); [|discriminate]. inversion H. constructor.
  - intros x Hx. apply pre_nil_inv in Hx. subst. unfold key. simpl. discriminate.
  - intros x b Hx. apply pre_nil_inv in Hx. destruct x; discriminate.
  - intros q b r Hd. rewrite delta_init in Hd by reflexivity. discriminate.
  - intros x Hx v. apply pre_nil_inv in Hx. subst. simpl.
    destruct v as [|b v]; unfold wacc; simpl.
    + split; [auto|reflexivity].
    + rewrite wrun_None. simpl. split; [discriminate|]. intros [H|[]]. discriminate.
  - intros sg q [].
  - intros x b Hx. apply pre_nil_inv in Hx. destruct x; discriminate.
  - intros q b r Hd. rewrite delta_init in Hd by reflexivity. discriminate.
  - intros q [<-|[]]. unfold key. simpl. discriminate.
  - constructor; [intros []|constructor].
  - intros q Hq. left. unfold bkey in Hq. simpl in Hq. weq q ([] : word); [auto|congruence].
  - intros q Hq. apply key_singleton in Hq. subst. unfold bkey. simpl. discriminate.
  - intros q b r Hd. rewrite delta_init in Hd by reflexivity. discriminate.
  - intros q Hq Hn. apply key_singleton in Hq. contradiction.
Qed.

Lemma first_inv w0 : Inv (add_to_trie fl_init w0) [w0] w0.
Proof.
  destruct w0 as [|a r]; [exact first_nil_inv|].
  change (add_to_trie fl_init (a :: r)) with (add_to_trie fl_init' ([] ++ a :: r)).
  apply (add_ok fl_init' [] [] a r init'_inv). intros y w _ _ [].
Qed.

(* ---------- the loop over the sorted words ---------- *)
Lemma fl_loop_ok : forall rest s prev done,
  Inv s done prev -> (forall w, In w done -> lex_le w prev) -> StronglySorted lex_lt (prev :: rest) ->
  exists s' done', fl_loop s prev rest = Ok s' /\ Inv s' done' [] /\
                   (forall w, In w done' <-> In w done \/ In w rest).
Proof.
  induction rest as [|cur rest IH]; intros s prev done HI Hle Hs; simpl.
  - destruct (compress_ok s done prev [] HI) as [s' [E HI']]. rewrite lcp_nil_r in HI'. simpl in HI'.
    exists s', done. split; [exact E|]. split; [exact HI'|]. intro w. tauto.
  - destruct (compress_ok s done prev cur HI) as [s1 [E1 HI1]]. rewrite E1. simpl.
    inversion Hs as [|? ? Hs' Hf]; subst. rewrite Forall_forall in Hf.
    assert (Hlt : lex_lt prev cur) by (apply Hf; left; reflexivity).
    destruct (lcp_spec prev cur) as (c & p & q & Ep & Eq & Hl & Hd).
    assert (Hfn : firstn (lcp_len prev cur) prev = c).
    { rewrite <- Hl, Ep. rewrite firstn_app, Nat.sub_diag, firstn_all. simpl. apply app_nil_r. }
    rewrite Hfn in HI1.
    destruct q as [|a r].
    { exfalso. rewrite app_nil_r in Eq. subst cur prev. destruct p as [|b p].
      - rewrite app_nil_r in Hlt. exact (lex_lt_irrefl _ Hlt).
      - exact (lex_lt_asym _ _ Hlt (lex_lt_prefix c b p)). }
    assert (Hfresh : forall y w, y <> [] -> pre y (a :: r) -> In w done -> ~ pre (c ++ y) w).
    { intros y w Hy [t Ht] Hw Hp. destruct y as [|a' y]; [contradiction|]. simpl in Ht. inversion Ht; subst a'.
      apply (fresh_prefix prev cur w c p a r Ep Eq).
      - destruct p; [exact I|exact Hd].
      - exact Hlt.
      - apply Hle. exact Hw.
      - eapply pre_trans; [|exact Hp]. exists y. symmetry. apply snoc_app. }
    pose proof (add_ok s1 done c a r HI1 Hfresh) as HI2. rewrite <- Eq in HI2.
    destruct (IH (add_to_trie s1 cur) cur (cur :: done) HI2) as [s' [done' [E' [HI' Hd']]]].
    + intros w [<-|Hw]; [right; reflexivity|]. left. eapply lex_le_lt_trans; [apply Hle; exact Hw|exact Hlt].
    + exact Hs'.
    + exists s', done'. split; [exact E'|]. split; [exact HI'|]. intro w. rewrite Hd'. simpl. tauto.
Qed.

Lemma fl_build_ok lang : NoDup lang -> lang <> [] ->
  exists s done, fl_build lang = Ok s /\ Inv s done [] /\ (forall w, In w done <-> In w lang).
Proof.
  intros Hnd Hne. unfold fl_build. pose proof (sort_words_sorted lang Hnd) as Hs.
  pose proof (sort_words_In) as Hin.
  destruct (sort_words lang) as [|w0 rest] eqn:E.
  - exfalso. destruct lang as [|w l]; [contradiction|]. specialize (Hin w (w :: l)). rewrite E in Hin.
    apply Hin. left. reflexivity.
  - destruct (fl_loop_ok rest (add_to_trie fl_init w0) w0 [w0] (first_inv w0)) as [s [done [E1 [HI Hd]]]].
    + intros w [<-|[]]. right. reflexivity.
    + exact Hs.
    + exists s, done. split; [exact E1|]. split; [exact HI|]. intro w. rewrite Hd. rewrite <- (Hin w lang), E. simpl. tauto.
Qed.

(* ---------- numbering the states ---------- *)
Lemma windex_lt q l i : windex q l = Some i -> i < length l.
Proof.
  revert i. induction l as [|x l IH]; intros i H; simpl in *; [discriminate|].
  destruct (word_eqb q x); [inversion H; lia|]. destruct (windex q l); [|discriminate]. inversion H. specialize (IH _ eq_refl). lia.
Qed.

Lemma windex_In q l : In q l -> exists i, windex q l = Some i.
Proof.
  induction l as [|x l IH]; simpl; [tauto|]. intro H. weq q x; [eauto|].
  destruct H as [H|H]; [congruence|]. destruct (IH H) as [i ->]. simpl. eauto.
Qed.

Lemma windex_inj q q' l i : windex q l = Some i -> windex q' l = Some i -> q = q'.
Proof.
  revert i. induction l as [|x l IH]; intros i H H'; simpl in *; [discriminate|].
  weq q x; weq q' x; subst; try congruence.
  - inversion H; subst. destruct (windex q' l); discriminate.
  - inversion H'; subst. destruct (windex q l); discriminate.
  - destruct (windex q l) as [j|]; [|discriminate]. destruct (windex q' l) as [j'|]; [|discriminate].
    simpl in *. inversion H; inversion H'; subst. apply (IH j'); [f_equal; lia|reflexivity].
Qed.

Lemma wnum_lt keys q : In q keys -> wnum keys q < length keys.
Proof. intro H. unfold wnum. destruct (windex_In q keys H) as [i E]. rewrite E. apply (windex_lt _ _ _ E). Qed.

Lemma wnum_inj keys q q' : In q keys -> In q' keys -> wnum keys q = wnum keys q' -> q = q'.
Proof.
  intros H H'. unfold wnum. destruct (windex_In q keys H) as [i E]. destruct (windex_In q' keys H') as [i' E'].
  rewrite E, E'. intros ->. exact (windex_inj _ _ _ _ E E').
Qed.

Lemma wnum_seq l : NoDup l -> map (wnum l) l = seq 0 (length l).
Proof.
  induction l as [|x l IH]; intro H; simpl; [reflexivity|]. inversion H; subst. f_equal.
  - unfold wnum. simpl. rewrite weqb_refl. reflexivity.
  - rewrite <- seq_shift, <- (IH H3), map_map. apply map_ext_in. intros q Hq. unfold wnum. simpl.
    weq q x; [subst; contradiction|]. destruct (windex_In q l Hq) as [i Ei]. rewrite Ei. reflexivity.
Qed.

Lemma assoc_map_snd_w (g : word -> nat) a (row : wrow) :
  assoc a (map (fun c => (fst c, g (snd c))) row) = option_map g (assoc a row).
Proof.
  induction row as [|[b t] row IH]; simpl; [reflexivity|]. destruct (Nat.eqb a b); [reflexivity|exact IH].
Qed.

Lemma assoc_numbered {B C} (g : word -> nat) (h : B -> C) q (l : list (word * B)) :
  (forall k, In k (map fst l) -> g k = g q -> k = q) ->
  assoc (g q) (map (fun e => (g (fst e), h (snd e))) l) = option_map h (wassoc q l).
Proof.
  induction l as [|[k v] l IH]; intro Hinj; simpl; [reflexivity|].
  destruct (Nat.eqb (g q) (g k)) eqn:E.
  - apply Nat.eqb_eq in E. rewrite (Hinj k (or_introl eq_refl) (eq_sym E)). rewrite weqb_refl. reflexivity.
  - weq q k; [subst; rewrite Nat.eqb_refl in E; discriminate|]. apply IH. intros k' Hk'. apply Hinj. right. exact Hk'.
Qed.

Section Number.
  Variables (syms : list nat) (s : flst) (done : list word).
  Hypothesis HI : Inv s done [].
  Hypothesis Hnd : NoDup syms.
  Hypothesis Hover : forall w, In w done -> word_over syms w.

  Let keys := fl_names s.
  Let g := wnum keys.
  Let m := fl_number syms s.

  Lemma key_In q : key q (fl_trans s) <-> In q keys.
  Proof. apply wassoc_key. Qed.

  Lemma num_row q : key q (fl_trans s) ->
    d_row m (g q) = option_map (map (fun c => (fst c, g (snd c)))) (wassoc q (fl_trans s)).
  Proof.
    intro Hk. unfold d_row, m, fl_number. simpl. apply (assoc_numbered g). intros k Hin E.
    apply (wnum_inj keys); [exact Hin|apply key_In; exact Hk|exact E].
  Qed.

  Lemma num_delta q a : key q (fl_trans s) -> d_delta m (g q) a = option_map g (wdelta (fl_trans s) q a).
  Proof.
    intro Hk. unfold d_delta, wdelta. rewrite (num_row q Hk). destruct (wassoc q (fl_trans s)); [|reflexivity].
    simpl. apply assoc_map_snd_w.
  Qed.

  Lemma num_run w : forall q, key q (fl_trans s) ->
    dfa_run m (Some (g q)) w = option_map g (wrun (fl_trans s) (Some q) w).
  Proof.
    induction w as [|a w IH]; intros q Hk; simpl; [reflexivity|]. rewrite (num_delta q a Hk).
    destruct (wdelta (fl_trans s) q a) as [t|] eqn:Ed; simpl.
    - apply IH. apply (i_closed _ _ _ HI _ _ _ Ed).
    - rewrite dfa_run_None, wrun_None. reflexivity.
  Qed.

  Lemma run_key w : forall q t, key q (fl_trans s) -> wrun (fl_trans s) (Some q) w = Some t -> key t (fl_trans s).
  Proof.
    induction w as [|a w IH]; intros q t Hk H; simpl in H; [inversion H; subst; exact Hk|].
    destruct (wdelta (fl_trans s) q a) as [t'|] eqn:Ed; [|rewrite wrun_None in H; discriminate].
    apply (IH t' t); [apply (i_closed _ _ _ HI _ _ _ Ed)|exact H].
  Qed.

  Lemma num_final q : key q (fl_trans s) -> memb (g q) (d_finals m) = wmem q (fl_fin s).
  Proof.
    intro Hk. apply eq_true_iff_eq. rewrite memb_In, wmem_In. unfold m, fl_number. simpl. rewrite in_map_iff. split.
    - intros [q' [E Hin]]. assert (q' = q); [|subst; exact Hin].
      apply (wnum_inj keys); [apply key_In; apply (i_fin _ _ _ HI); exact Hin|apply key_In; exact Hk|exact E].
    - intro Hin. exists q. split; [reflexivity|exact Hin].
  Qed.

  Lemma root_key : key [] (fl_trans s).
  Proof. apply (i_path _ _ _ HI). apply pre_nil. Qed.

  Lemma num_acc_from w q : key q (fl_trans s) ->
    ofinal m (dfa_run m (Some (g q)) w) = wfinal (fl_fin s) (wrun (fl_trans s) (Some q) w).
  Proof.
    intro Hk. rewrite (num_run w q Hk).
    destruct (wrun (fl_trans s) (Some q) w) as [t|] eqn:E; simpl; [|reflexivity].
    apply num_final. apply (run_key w q t Hk E).
  Qed.

  Lemma num_acc w : dfa_acc m w = wacc s [] w.
  Proof. unfold dfa_acc, dfa_acc_from, wacc. change (d_init m) with (g []). apply num_acc_from. exact root_key. Qed.

  Lemma num_lang w : dfa_acc m w = true <-> In w done.
  Proof. rewrite num_acc. apply (i_lang _ _ _ HI [] (pre_nil _) w). Qed.

  Lemma num_trans_keys : map fst (d_trans m) = seq 0 (length keys).
  Proof.
    unfold m, fl_number. simpl. rewrite map_map. simpl. fold keys.
    rewrite <- (wnum_seq keys (i_nodup _ _ _ HI)). unfold keys, fl_names. rewrite map_map. reflexivity.
  Qed.

  Lemma num_valid : valid_dfa m = true.
  Proof.
    apply valid_dfa_intro.
    - apply seq_NoDup.
    - exact Hnd.
    - rewrite num_trans_keys. apply seq_NoDup.
    - intros q Hq. rewrite num_trans_keys. exact Hq.
    - intros q row Hin. unfold m, fl_number in Hin. simpl in Hin. apply in_map_iff in Hin.
      destruct Hin as [[k rw] [E Hin]]. simpl in E. inversion E; subst q row. clear E.
      assert (Hk : wassoc k (fl_trans s) = Some rw) by (apply wassoc_NoDup; [apply (i_nodup _ _ _ HI)|exact Hin]).
      apply row_ok_intro.
      + rewrite map_map. simpl. apply (i_rows _ _ _ HI _ _ Hk).
      + intros a t Hat. apply in_map_iff in Hat. destruct Hat as [[a' t'] [E Hat]]. simpl in E. inversion E; subst a t. clear E.
        assert (Hd : wdelta (fl_trans s) k a' = Some t').
        { unfold wdelta. rewrite Hk. apply assoc_NoDup; [apply (i_rows _ _ _ HI _ _ Hk)|exact Hat]. }
        split.
        * destruct (i_syms _ _ _ HI _ _ _ Hd) as [w [Hw Ha]]. pose proof (Hover w Hw) as Ho.
          unfold word_over in Ho. rewrite Forall_forall in Ho. apply Ho. exact Ha.
        * simpl. apply in_seq. split; [lia|]. simpl. apply wnum_lt. apply key_In. apply (i_closed _ _ _ HI _ _ _ Hd).
      + left. reflexivity.
    - simpl. apply in_seq. split; [lia|]. simpl. apply wnum_lt. apply key_In. exact root_key.
    - intros q Hq. simpl in Hq. apply in_map_iff in Hq. destruct Hq as [k [<- Hk]]. simpl.
      apply in_seq. split; [lia|]. simpl. apply wnum_lt. apply key_In. apply (i_fin _ _ _ HI). exact Hk.
  Qed.
End Number.

(* ---------- validate() and _to_complete ---------- *)
Lemma validated_ok m : valid_dfa m = true -> validated m = Ok m.
Proof. intro H. unfold validated. apply valid_dfa_agrees in H. destruct H as [_ ->]. reflexivity. Qed.

Lemma fl_complete_completed m : fl_complete m = completed m.
Proof. reflexivity. Qed.

Lemma fl_complete_spec m : valid_dfa m = true ->
  valid_dfa (fl_complete m) = true /\ complete (fl_complete m) /\ d_syms (fl_complete m) = d_syms m /\
  d_partial (fl_complete m) = false /\ forall w, dfa_acc (fl_complete m) w = dfa_acc m w.
Proof.
  intro Hv. rewrite fl_complete_completed. split; [apply completed_valid; exact Hv|].
  split; [apply rows_full_complete; [apply completed_valid; exact Hv|apply completed_full]|].
  split; [reflexivity|]. split; [reflexivity|]. intro w. unfold dfa_acc, dfa_acc_from.
  apply (completed_acc_from m Hv w (d_init m)). destruct (valid_dfa_parts m Hv) as (_ & _ & _ & _ & _ & H & _). exact H.
Qed.

(* ---------- the theorem ---------- *)
Theorem fl_dfa_correct syms lang as_partial :
  NoDup syms -> NoDup lang -> (forall w, In w lang -> word_over syms w) ->
  exists m, fl_dfa syms lang as_partial = Ok m /\ valid_dfa m = true /\ d_syms m = syms /\
            (forall w, dfa_acc m w = true <-> In w lang) /\
            (lang = [] -> m = empty_m syms) /\
            (lang <> [] -> d_partial m = as_partial /\ (as_partial = false -> complete m)).
Proof.
  intros Hs Hl Ho. destruct lang as [|w0 l] eqn:El.
  - exists (empty_m syms). split; [reflexivity|]. split; [apply empty_valid; exact Hs|]. split; [reflexivity|].
    split; [intro w; rewrite empty_acc; split; [discriminate|intros []]|]. split; [reflexivity|congruence].
  - rewrite <- El in *. assert (Hne : lang <> []) by (rewrite El; discriminate).
    destruct (fl_build_ok lang Hl Hne) as [s [done [Eb [HI Hd]]]].
    assert (Hov : forall w, In w done -> word_over syms w) by (intros w Hw; apply Ho; apply Hd; exact Hw).
    pose proof (num_valid syms s done HI Hs Hov) as Hv.
    assert (Efl : fl_dfa syms lang as_partial =
                  bind (fl_build lang) (fun s => bind (validated (fl_number syms s)) (fun m =>
                    if as_partial then Ok m else validated (fl_complete m)))) by (rewrite El; reflexivity).
    rewrite Efl, Eb. simpl. rewrite (validated_ok _ Hv). simpl. destruct as_partial.
    + exists (fl_number syms s). split; [reflexivity|]. split; [exact Hv|]. split; [reflexivity|].
      split; [intro w; rewrite (num_lang syms s done HI w); apply Hd|]. split; [contradiction|].
      intros _. split; [reflexivity|discriminate].
    + destruct (fl_complete_spec _ Hv) as (Hv' & Hc & Hsy & Hp & Hacc).
      exists (fl_complete (fl_number syms s)). split; [apply validated_ok; exact Hv'|]. split; [exact Hv'|].
      split; [exact Hsy|]. split; [intro w; rewrite Hacc, (num_lang syms s done HI w); apply Hd|].
      split; [contradiction|]. intros _. split; [exact Hp|intros _; exact Hc].
Qed.
