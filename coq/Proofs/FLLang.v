(* C15 / from_finite_language: the main loop over the sorted words, the renaming of the states to numbers,
   `_to_complete`, and the language / validity theorem of the mirror model (Model/FiniteLang.v). *)
From Coq Require Import List Arith Bool Lia Sorted.
From AV Require Import Base.Util Spec.Lang Spec.FA Spec.DictOrder Spec.Preds
                       Model.Decide Model.Product Model.DFAOps Model.Construct Model.Validate Model.FiniteLang
                       Proofs.Preds Proofs.FARun Proofs.DFAOps2 Proofs.Construct Proofs.Validate
                       Proofs.FLDict Proofs.FLInv Proofs.FLAdd.
Import ListNotations.

(* ---------- add_to_trie, packaged ---------- *)
Lemma add_ok s done u a r : Inv s done u ->
  (forall y w, y <> [] -> pre y (a :: r) -> In w done -> ~ pre (u ++ y) w) ->
  Inv (add_to_trie s (u ++ a :: r)) ((u ++ a :: r) :: done) (u ++ a :: r).
Proof.
  intros HI Hf. destruct (u_row s done u a r HI Hf) as [row [Hrow Ha]].
  rewrite (add_closed s done u a r HI Hf row Hrow Ha). exact (add_inv s done u a r HI Hf row Hrow Ha).
Qed.

(* ---------- the first word ---------- *)
Definition fl_init' : flst := mkfl [([], [])] [([], [])] [] [].

Lemma key_singleton q (row : wrow) : key q [([], row)] -> q = [].
Proof. unfold key. simpl. weq q ([] : word); [auto|congruence]. Qed.

Lemma delta_init q b (row : wrow) : row = [] -> wdelta [([], row)] q b = None.
Proof. intros ->. unfold wdelta. simpl. destruct (word_eqb q []); reflexivity. Qed.

Lemma pre_nil_inv (x : word) : pre x [] -> x = [].
Proof. intros [t E]. symmetry in E. apply app_eq_nil in E. tauto. Qed.

Lemma init'_inv : Inv fl_init' [] [].
Proof.
  constructor; simpl.
  - constructor; [intros []|constructor].
  - intros q row H. weq q ([] : word); [|discriminate]. inversion H. constructor.
  - intros x Hx. apply pre_nil_inv in Hx. subst. unfold key. simpl. discriminate.
  - intros x b Hx. apply pre_nil_inv in Hx. destruct x; discriminate.
  - intros q b r Hd. rewrite delta_init in Hd by reflexivity. discriminate.
  - intros x Hx v. apply pre_nil_inv in Hx. subst. split; [|intros []].
    destruct v as [|b v]; unfold wacc; simpl; [discriminate|]. rewrite wrun_None. discriminate.
  - intros sg q [].
  - intros x b Hx. apply pre_nil_inv in Hx. destruct x; discriminate.
  - intros q b r Hd. rewrite delta_init in Hd by reflexivity. discriminate.
  - intros q [].
  - constructor.
  - intros q Hq. left. unfold bkey in Hq. simpl in Hq. weq q ([] : word); [auto|congruence].
  - intros q Hq. apply key_singleton in Hq. subst. unfold bkey. simpl. discriminate.
  - intros q b r Hd. rewrite delta_init in Hd by reflexivity. discriminate.
  - intros q Hq Hn. apply key_singleton in Hq. contradiction.
Qed.

Lemma first_nil_inv : Inv (add_to_trie fl_init []) [[]] [].
Proof.
  unfold add_to_trie. simpl. constructor; simpl.
  - constructor; [intros []|constructor].
  - intros q row H. weq q ([] : word); [|discriminate]. inversion H. constructor.
  - intros x Hx. apply pre_nil_inv in Hx. subst. unfold key. simpl. discriminate.
  - intros x b Hx. apply pre_nil_inv in Hx. destruct x; discriminate.
  - intros q b r Hd. rewrite delta_init in Hd by reflexivity. discriminate.
  - intros x Hx v. apply pre_nil_inv in Hx. subst. simpl.
    destruct v as [|b v]; unfold wacc; simpl.
    + split; [auto|reflexivity].
    + rewrite wrun_None. simpl. split; [discriminate|]. intros [H|[]]. discriminate.
  - intros sg q [].
  - intros x b Hx. apply pre_nil_inv in Hx. destruct x; discriminate.
  - intros q b r Hd. rewrite delta_init in Hd by reflexivity. discriminate.
  - intros q [<-|[]]. unfold key. simpl. discriminate.
  - constructor; [intros []|constructor].
  - intros q Hq. left. unfold bkey in Hq. simpl in Hq. weq q ([] : word); [auto|congruence].
  - intros q Hq. apply key_singleton in Hq. subst. unfold bkey. simpl. discriminate.
  - intros q b r Hd. rewrite delta_init in Hd by reflexivity. discriminate.
  - intros q Hq Hn. apply key_singleton in Hq. contradiction.
Qed.

Lemma first_inv w0 : Inv (add_to_trie fl_init w0) [w0] w0.
Proof.
  destruct w0 as [|a r]; [exact first_nil_inv|].
  change (add_to_trie fl_init (a :: r)) with (add_to_trie fl_init' ([] ++ a :: r)).
  apply (add_ok fl_init' [] [] a r init'_inv). intros y w _ _ [].
Qed.

(* ---------- the loop over the sorted words ---------- *)
Lemma fl_loop_ok : forall rest s prev done,
  Inv s done prev -> (forall w, In w done -> lex_le w prev) -> StronglySorted lex_lt (prev :: rest) ->
  exists s' done', fl_loop s prev rest = Ok s' /\ Inv s' done' [] /\
                   (forall w, In w done' <-> In w done \/ In w rest).
Proof.
  induction rest as [|cur rest IH]; intros s prev done HI Hle Hs; simpl.
  - destruct (compress_ok s done prev [] HI) as [s' [E HI']]. rewrite lcp_nil_r in HI'. simpl in HI'.
    exists s', done. split; [exact E|]. split; [exact HI'|]. intro w. tauto.
  - destruct (compress_ok s done prev cur HI) as [s1 [E1 HI1]]. rewrite E1. simpl.
    inversion Hs as [|? ? Hs' Hf]; subst. rewrite Forall_forall in Hf.
    assert (Hlt : lex_lt prev cur) by (apply Hf; left; reflexivity).
    destruct (lcp_spec prev cur) as (c & p & q & Ep & Eq & Hl & Hd).
    assert (Hfn : firstn (lcp_len prev cur) prev = c).
    { rewrite <- Hl, Ep. rewrite firstn_app, Nat.sub_diag, firstn_all. simpl. apply app_nil_r. }
    rewrite Hfn in HI1.
    destruct q as [|a r].
    { exfalso. rewrite app_nil_r in Eq. subst cur prev. destruct p as [|b p].
      - rewrite app_nil_r in Hlt. exact (lex_lt_irrefl _ Hlt).
      - exact (lex_lt_asym _ _ Hlt (lex_lt_prefix c b p)). }
    assert (Hfresh : forall y w, y <> [] -> pre y (a :: r) -> In w done -> ~ pre (c ++ y) w).
    { intros y w Hy [t Ht] Hw Hp. destruct y as [|a' y]; [contradiction|]. simpl in Ht. inversion Ht; subst a'.
      apply (fresh_prefix prev cur w c p a r Ep Eq).
      - destruct p; [exact I|exact Hd].
      - exact Hlt.
      - apply Hle. exact Hw.
      - eapply pre_trans; [|exact Hp]. exists y. symmetry. apply snoc_app. }
    pose proof (add_ok s1 done c a r HI1 Hfresh) as HI2. rewrite <- Eq in HI2.
    destruct (IH (add_to_trie s1 cur) cur (cur :: done) HI2) as [s' [done' [E' [HI' Hd']]]].
    + intros w [<-|Hw]; [right; reflexivity|]. left. eapply lex_le_lt_trans; [apply Hle; exact Hw|exact Hlt].
    + exact Hs'.
    + exists s', done'. split; [exact E'|]. split; [exact HI'|]. intro w. rewrite Hd'. simpl. tauto.
Qed.

Lemma fl_build_ok lang : NoDup lang -> lang <> [] ->
  exists s done, fl_build lang = Ok s /\ Inv s done [] /\ (forall w, In w done <-> In w lang).
Proof.
  intros Hnd Hne. unfold fl_build. pose proof (sort_words_sorted lang Hnd) as Hs.
  pose proof (sort_words_In) as Hin.
  destruct (sort_words lang) as [|w0 rest] eqn:E.
  - exfalso. destruct lang as [|w l]; [contradiction|]. specialize (Hin w (w :: l)). rewrite E in Hin.
    apply Hin. left. reflexivity.
  - destruct (fl_loop_ok rest (add_to_trie fl_init w0) w0 [w0] (first_inv w0)) as [s [done [E1 [HI Hd]]]].
    + intros w [<-|[]]. right. reflexivity.
    + exact Hs.
    + exists s, done. split; [exact E1|]. split; [exact HI|]. intro w. rewrite Hd. rewrite <- (Hin w lang), E. simpl. tauto.
Qed.
