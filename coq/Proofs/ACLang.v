(* Aho-Corasick: the whole construction.
   1. ac_trie (trie + failure phase) never fails and its result satisfies the failure-link
      specification of Proofs/AhoCorasick.v (from Proofs/ACTrie.v and Proofs/ACBuild.v).
   2. goto_bfs visits every node whose string is over the alphabet exactly once and tabulates
      ac_goto; the DFA assembled by ac_dfa (with the absorbing end state when not must_be_suffix)
      is valid and accepts exactly the words over the alphabet in which some pattern occurs
      (resp. that end with some pattern), or the complement. *)
From Coq Require Import List Arith Bool Lia.
From AV Require Import Base.Util Spec.Lang Spec.FA Spec.Preds Model.Construct Model.KMP Model.AhoCorasick
                       Proofs.FARun Proofs.Preds Proofs.Border Proofs.Construct Proofs.KMP
                       Proofs.AhoCorasick Proofs.ACBuild Proofs.ACTrie.
Import ListNotations.

(* what the rest needs to know about the finished node table *)
Definition ac_spec (N : list tnode) (P : list word) : Prop :=
  (forall s k, nodeof N s = Some k -> k < length N) /\
  (forall s s' k, nodeof N s = Some k -> nodeof N s' = Some k -> s = s') /\
  (exists r, nth_error N 0 = Some r /\ t_fail r = None) /\
  (forall s k x, s <> [] -> length s <= length N -> nodeof N s = Some k -> nth_error N k = Some x ->
     match t_fail x with
     | Some f => exists u, nodeof N u = Some f /\ u <> [] /\ psuf u s /\
                           forall u', psuf u' s -> inT N u' -> length u' <= length u
     | None => forall u', psuf u' s -> inT N u' -> u' = []
     end) /\
  (forall p, In p P -> inT N p) /\
  (forall s k x, nodeof N s = Some k -> nth_error N k = Some x -> (t_out x <> [] <-> ends_with_any P s)) /\
  (forall k x, nth_error N k = Some x -> NoDup (map fst (t_succ x))) /\
  (forall k, k < length N -> exists s, nodeof N s = Some k /\ (s = [] \/ exists p, In p P /\ has_prefix s p)).

Theorem ac_trie_ok pats : (forall p, In p pats -> p <> []) -> exists N, ac_trie pats = Ok N /\ ac_spec N pats.
Proof.
  intro Hne. destruct (trie_ok pats) as [N0 [root [Ei [Er [HV [HI [HK [HP [Hinit Hsur]]]]]]]]].
  destruct (fail_phase_ok N0 pats HV HI HK HP Hne Hinit root Er) as [N [Ef [Hsh [Hr [J1 _]]]]].
  exists N. split.
  - unfold ac_trie. rewrite Ei. cbn [bind]. rewrite (idx_Ok N0 0 root Er). cbn [bind]. exact Ef.
  - assert (Hno : forall s, nodeof N s = nodeof N0 s) by (intro s; apply shape_nodeof; exact Hsh).
    assert (HiT : forall s, inT N s <-> inT N0 s) by (intro s; unfold inT; rewrite Hno; tauto).
    destruct Hsh as [HL Hsucc].
    split; [intros s k H; rewrite Hno in H; apply HV in H; lia|].
    split; [intros s s' k H1 H2; rewrite Hno in H1, H2; eapply HI; eassumption|].
    split; [destruct Hr as [r [E1 [_ E2]]]; exists r; split; assumption|].
    split.
    { intros s k x Hs _ Hk Ex. rewrite Hno in Hk. destruct (J1 s k x Hs Hk Ex (fun f => f)) as [Hf _].
      unfold failspec in Hf. destruct (t_fail x) as [f|].
      - destruct Hf as [u [H1 [H2 [H3 H4]]]]. exists u. rewrite Hno. split; [exact H1|]. split; [exact H2|].
        split; [exact H3|]. intros u' Hu' Hi. apply H4; [exact Hu'|apply HiT; exact Hi].
      - intros u' Hu' Hi. apply Hf; [exact Hu'|apply HiT; exact Hi]. }
    split; [intros p Hp; apply HiT; apply HP; exact Hp|].
    split.
    { intros s k x Hk Ex. rewrite Hno in Hk. destruct s as [|a s'].
      - unfold nodeof in Hk. simpl in Hk. inversion Hk; subst k.
        destruct Hr as [r [E1 [E0 _]]]. rewrite E1 in Ex. inversion Ex; subst x.
        destruct (Hinit [] 0 r eq_refl E0) as [_ Ho]. rewrite Ho. split.
        + intro Hin. exfalso. exact (Hne [] Hin eq_refl).
        + intros [p [Hp Hs]]. exfalso. apply (Hne p Hp). apply has_suffix_length in Hs. destruct p; [reflexivity|simpl in Hs; lia].
      - destruct (J1 (a :: s') k x ltac:(discriminate) Hk Ex (fun f => f)) as [_ Ho]. exact Ho. }
    split.
    { intros k x Ex. specialize (Hsucc k). rewrite Ex in Hsucc. simpl in Hsucc.
      destruct (nth_error N0 k) as [x0|] eqn:E0; [|discriminate]. simpl in Hsucc. inversion Hsucc as [Es]. rewrite Es.
      eapply HK; exact E0. }
    intros k Hk. rewrite HL in Hk. destruct (Hsur k Hk) as [s [H1 H2]]. exists s. rewrite Hno. split; assumption.
Qed.

(* ---------- association-list helpers ---------- *)
Lemma assoc_map_fun syms (g : nat -> nat) a : In a syms -> assoc a (map (fun a => (a, g a)) syms) = Some (g a).
Proof.
  induction syms as [|b r IH]; intro H; [destruct H|]. simpl. destruct (Nat.eqb a b) eqn:E.
  - apply Nat.eqb_eq in E. subst b. reflexivity.
  - destruct H as [->|H]; [rewrite Nat.eqb_refl in E; discriminate|apply IH; exact H].
Qed.

Lemma assoc_not_in {B} k (l : list (nat * B)) : ~ In k (map fst l) -> assoc k l = None.
Proof.
  induction l as [|[k' v] r IH]; intro H; [reflexivity|]. simpl. destruct (Nat.eqb k k') eqn:E.
  - apply Nat.eqb_eq in E. subst k'. exfalso. apply H. left. reflexivity.
  - apply IH. intro Hin. apply H. right. exact Hin.
Qed.

Lemma assoc_app {B} k (l1 l2 : list (nat * B)) :
  assoc k (l1 ++ l2) = match assoc k l1 with Some v => Some v | None => assoc k l2 end.
Proof.
  induction l1 as [|[k' v] r IH]; [reflexivity|]. simpl. destruct (Nat.eqb k k'); [reflexivity|exact IH].
Qed.

Lemma word_over_suffix syms (u w : word) : has_suffix u w -> word_over syms w -> word_over syms u.
Proof. intros [x ->] H. unfold word_over in *. apply Forall_app in H. tauto. Qed.

Section Dfa.
  Variable N : list tnode.
  Variable P : list word.
  Variable syms : list nat.
  Hypothesis Hsyms : NoDup syms.
  Hypothesis HV : forall s k, nodeof N s = Some k -> k < length N.
  Hypothesis HI : forall s s' k, nodeof N s = Some k -> nodeof N s' = Some k -> s = s'.
  Hypothesis Hroot : exists r, nth_error N 0 = Some r /\ t_fail r = None.
  Hypothesis HF : forall s k x, s <> [] -> length s <= length N -> nodeof N s = Some k -> nth_error N k = Some x ->
     match t_fail x with
     | Some f => exists u, nodeof N u = Some f /\ u <> [] /\ psuf u s /\
                           forall u', psuf u' s -> inT N u' -> length u' <= length u
     | None => forall u', psuf u' s -> inT N u' -> u' = []
     end.
  Hypothesis HK : forall k x, nth_error N k = Some x -> NoDup (map fst (t_succ x)).

  Lemma goto_str s k a : nodeof N s = Some k -> exists k' u, ac_goto N k a = Ok k' /\ maxsuf N (s ++ [a]) u k'.
  Proof.
    intro H. apply (ac_goto_ok N (length N) HV HI Hroot HF s k a H). pose proof (depth_bound N HV HI s k H). lia.
  Qed.

  Definition gfun (k a : nat) : nat := match ac_goto N k a with Ok t => t | Err _ => 0 end.
  Definition rowf (k : nat) : list (nat * nat) := map (fun a => (a, gfun k a)) syms.
  Definition outb (k : nat) : bool :=
    match nth_error N k with Some x => match t_out x with [] => false | _ :: _ => true end | None => false end.

  Lemma gfun_str s k a : nodeof N s = Some k -> ac_goto N k a = Ok (gfun k a) /\ exists u, maxsuf N (s ++ [a]) u (gfun k a).
  Proof.
    intro H. destruct (goto_str s k a H) as [k' [u [E M]]]. unfold gfun. rewrite E. split; [reflexivity|exists u; exact M].
  Qed.

  Lemma row_mapM s k : nodeof N s = Some k ->
    mapM (fun a => bind (ac_goto N k a) (fun t => Ok (a, t))) syms = Ok (rowf k).
  Proof.
    intro H. apply mapM_map. intros a _. destruct (gfun_str s k a H) as [E _]. rewrite E. reflexivity.
  Qed.

  Definition kids (x : tnode) : list nat :=
    flat_map (fun a => match assoc a (t_succ x) with Some s => [s] | None => [] end) syms.

  Lemma kids_In x k' : In k' (kids x) <-> exists a, In a syms /\ assoc a (t_succ x) = Some k'.
  Proof.
    unfold kids. rewrite in_flat_map. split.
    - intros [a [Ha H]]. exists a. split; [exact Ha|]. destruct (assoc a (t_succ x)) as [j|]; [|destruct H].
      destruct H as [->|[]]. reflexivity.
    - intros [a [Ha H]]. exists a. split; [exact Ha|]. rewrite H. left. reflexivity.
  Qed.

  Lemma node_edge s k x a : nodeof N s = Some k -> nth_error N k = Some x ->
    nodeof N (s ++ [a]) = assoc a (t_succ x).
  Proof. intros Hk Ex. rewrite nodeof_snoc, Hk. unfold edge. rewrite Ex. reflexivity. Qed.

  Lemma kids_NoDup s k x : nodeof N s = Some k -> nth_error N k = Some x -> NoDup (kids x).
  Proof.
    intros Hk Ex. unfold kids.
    assert (H : forall l, NoDup l -> NoDup (flat_map (fun a => match assoc a (t_succ x) with Some j => [j] | None => [] end) l)).
    { induction l as [|a l IH]; intro Hnd; [constructor|]. inversion Hnd as [|? ? Hnot Hnd']; subst. simpl.
      destruct (assoc a (t_succ x)) as [j|] eqn:Ea; [|apply IH; exact Hnd']. simpl. constructor; [|apply IH; exact Hnd'].
      intro Hin. apply in_flat_map in Hin. destruct Hin as [b [Hb Hj]].
      destruct (assoc b (t_succ x)) as [j2|] eqn:Eb; [|destruct Hj]. destruct Hj as [->|[]].
      assert (E1 : nodeof N (s ++ [a]) = Some j) by (rewrite (node_edge s k x a Hk Ex); exact Ea).
      assert (E2 : nodeof N (s ++ [b]) = Some j) by (rewrite (node_edge s k x b Hk Ex); exact Eb).
      pose proof (HI _ _ _ E1 E2) as Ee. apply app_inj_tail in Ee. destruct Ee as [_ <-]. contradiction. }
    apply H. exact Hsyms.
  Qed.

  (* ---------- the visiting loop ---------- *)
  Definition GI (queue : list nat) (rows : list (nat * list (nat * nat))) (finals : list nat) : Prop :=
    let vis := map fst rows in
    (forall k, In k (vis ++ queue) -> exists s, word_over syms s /\ nodeof N s = Some k) /\
    In 0 (vis ++ queue) /\
    (forall s a k k', nodeof N s = Some k -> In k vis -> In a syms -> nodeof N (s ++ [a]) = Some k' -> In k' (vis ++ queue)) /\
    NoDup (vis ++ queue) /\
    (forall s a k', nodeof N (s ++ [a]) = Some k' -> In k' (vis ++ queue) -> exists k, nodeof N s = Some k /\ In k vis) /\
    (forall k row, In (k, row) rows -> row = rowf k) /\
    (forall k, In k finals <-> In k vis /\ outb k = true).

  Lemma GI_bound queue rows finals : GI queue rows finals -> length rows + length queue <= length N.
  Proof.
    intros [G1 [_ [_ [G4 _]]]].
    assert (Hinc : incl (map fst rows ++ queue) (seq 0 (length N))).
    { intros k Hk. destruct (G1 k Hk) as [s [_ Hs]]. apply in_seq. apply HV in Hs. lia. }
    pose proof (NoDup_incl_length G4 Hinc) as H. rewrite app_length, map_length, seq_length in H. exact H.
  Qed.

  Lemma goto_bfs_ok : forall fuel queue rows finals, GI queue rows finals -> length N < fuel + length rows ->
    exists rows' finals', goto_bfs syms N fuel queue rows finals = Ok (rows', finals') /\ GI [] rows' finals'.
  Proof.
    induction fuel as [|fuel IH]; intros queue rows finals HG Hf.
    - pose proof (GI_bound _ _ _ HG). lia.
    - destruct queue as [|c q]; [exists rows, finals; split; [reflexivity|exact HG]|].
      pose proof (GI_bound _ _ _ HG) as Hb. simpl in Hb.
      destruct HG as [G1 [G2 [G3 [G4 [G5 [G6 G7]]]]]]. cbn zeta in *.
      set (vis := map fst rows) in *.
      destruct (G1 c ltac:(apply in_or_app; right; left; reflexivity)) as [sc [Hsc Hc]].
      destruct (node_get N HV sc c Hc) as [nd End].
      cbn [goto_bfs]. rewrite (idx_Ok N c nd End). cbn [bind]. rewrite (row_mapM sc c Hc). cbn [bind].
      fold (kids nd).
      assert (Hcnv : ~ In c vis).
      { intro Hin. apply NoDup_remove_2 in G4. apply G4. apply in_or_app. left. exact Hin. }
      assert (Hkid : forall k', In k' (kids nd) <-> exists a, In a syms /\ nodeof N (sc ++ [a]) = Some k').
      { intro k'. rewrite kids_In. split; intros [a [Ha H]]; exists a; (split; [exact Ha|]);
          [rewrite (node_edge sc c nd a Hc End); exact H|rewrite <- (node_edge sc c nd a Hc End); exact H]. }
      apply IH.
      + unfold GI. cbn zeta. rewrite map_app. cbn [map fst]. fold vis.
        assert (Eq : (vis ++ [c]) ++ q ++ kids nd = (vis ++ c :: q) ++ kids nd).
        { rewrite <- !app_assoc. reflexivity. }
        rewrite Eq.
        split; [|split; [|split; [|split; [|split; [|split]]]]].
        * intros k Hk. apply in_app_or in Hk. destruct Hk as [Hk|Hk]; [apply G1; exact Hk|].
          apply Hkid in Hk. destruct Hk as [a [Ha Hk]]. exists (sc ++ [a]). split; [|exact Hk].
          unfold word_over in *. apply Forall_app. split; [exact Hsc|constructor; [exact Ha|constructor]].
        * apply in_or_app. left. exact G2.
        * intros s a k k' Hk Hin Ha Hk'. apply in_app_or in Hin. destruct Hin as [Hin|[<-|[]]].
          -- apply in_or_app. left. exact (G3 s a k k' Hk Hin Ha Hk').
          -- pose proof (HI _ _ _ Hk Hc) as ->. apply in_or_app. right. apply Hkid. exists a. split; assumption.
        * apply NoDup_app_intro; [exact G4|eapply kids_NoDup; eassumption|].
          intros k' Hold Hk'. apply Hkid in Hk'. destruct Hk' as [a [Ha Hk']].
          destruct (G5 sc a k' Hk' Hold) as [k [Hk Hin]]. rewrite Hc in Hk. inversion Hk; subst k. contradiction.
        * intros s a k' Hk' Hin. apply in_app_or in Hin. destruct Hin as [Hin|Hin].
          -- destruct (G5 s a k' Hk' Hin) as [k [Hk Hv]]. exists k. split; [exact Hk|apply in_or_app; left; exact Hv].
          -- apply Hkid in Hin. destruct Hin as [a2 [_ Hk2]]. pose proof (HI _ _ _ Hk' Hk2) as Ee.
             apply app_inj_tail in Ee. destruct Ee as [-> _]. exists c. split; [exact Hc|apply in_or_app; right; left; reflexivity].
        * intros k row Hin. apply in_app_or in Hin. destruct Hin as [Hin|[Ee|[]]]; [apply G6; exact Hin|]. inversion Ee. reflexivity.
        * intro k. assert (Hoc : outb c = match t_out nd with [] => false | _ :: _ => true end) by (unfold outb; rewrite End; reflexivity).
          destruct (t_out nd) as [|o os].
          -- rewrite G7. split; intros [H1 H2]; (split; [|exact H2]).
             ++ apply in_or_app. left. exact H1.
             ++ apply in_app_or in H1. destruct H1 as [H1|[<-|[]]]; [exact H1|]. rewrite Hoc in H2. discriminate.
          -- split.
             ++ intro Hin. apply in_app_or in Hin. destruct Hin as [Hin|[<-|[]]].
                ** apply G7 in Hin. destruct Hin as [H1 H2]. split; [apply in_or_app; left; exact H1|exact H2].
                ** split; [apply in_or_app; right; left; reflexivity|exact Hoc].
             ++ intros [H1 H2]. apply in_app_or in H1. destruct H1 as [H1|[<-|[]]].
                ** apply in_or_app. left. apply G7. split; assumption.
                ** apply in_or_app. right. left. reflexivity.
      + rewrite app_length. simpl. lia.
  Qed.

  (* everything whose string is over the alphabet gets a row *)
  Lemma GI_complete rows finals : GI [] rows finals ->
    forall s k, word_over syms s -> nodeof N s = Some k -> In k (map fst rows).
  Proof.
    intros [_ [G2 [G3 _]]]. cbn zeta in *. rewrite app_nil_r in *.
    induction s as [|a s IH] using rev_ind; intros k Hs Hk.
    - unfold nodeof in Hk. simpl in Hk. inversion Hk; subst k. exact G2.
    - unfold word_over in Hs. apply Forall_app in Hs. destruct Hs as [Hs Ha]. inversion Ha; subst.
      rewrite nodeof_snoc in Hk. destruct (nodeof N s) as [j|] eqn:Ej; [|discriminate].
      specialize (G3 s a j k Ej (IH j Hs eq_refl) H1). apply G3.
      rewrite nodeof_snoc, Ej. exact Hk.
  Qed.

  Lemma GI_init : GI [0] [] [].
  Proof.
    unfold GI. cbn zeta. simpl. split; [|split; [|split; [|split; [|split; [|split]]]]].
    - intros k [<-|[]]. exists []. split; [constructor|reflexivity].
    - left. reflexivity.
    - intros s a k k' _ [].
    - repeat constructor. intros [].
    - intros s a k' Hk' [<-|[]]. exfalso. assert (Hn : nodeof N [] = Some 0) by reflexivity.
      pose proof (HI _ _ _ Hk' Hn) as Ee. destruct s; discriminate.
    - intros k row [].
    - intro k. split; [intros []|intros [[] _]].
  Qed.
End Dfa.

(* ---------- a complete DFA given by a transition function on a list of states ---------- *)
Section FunDfa.
  Variable syms : list nat.
  Variable St : list nat.
  Variable rows : list (nat * list (nat * nat)).
  Variable delta : nat -> nat -> nat.
  Variable init : nat.
  Variable fin : list nat.
  Hypothesis Hsyms : NoDup syms.
  Hypothesis HSt : NoDup St.
  Hypothesis Hkeys : map fst rows = St.
  Hypothesis Hrows : forall q row, In (q, row) rows -> row = map (fun a => (a, delta q a)) syms.
  Hypothesis Hclosed : forall q a, In q St -> In a syms -> In (delta q a) St.
  Hypothesis Hinit : In init St.
  Hypothesis Hfin : incl fin St.

  Let M := mkdfa St syms rows init fin false.

  Lemma fun_row q : In q St -> assoc q rows = Some (map (fun a => (a, delta q a)) syms).
  Proof.
    intro Hq. rewrite <- Hkeys in Hq. apply in_map_iff in Hq. destruct Hq as [[q' row] [E Hin]]. simpl in E. subst q'.
    rewrite (Hrows q row Hin) in Hin. apply assoc_NoDup; [rewrite Hkeys; exact HSt|exact Hin].
  Qed.

  Lemma fun_delta q a : In q St -> d_delta M q a = if memb a syms then Some (delta q a) else None.
  Proof.
    intro Hq. unfold d_delta, d_row, M. cbn [d_trans]. rewrite (fun_row q Hq).
    destruct (memb a syms) eqn:Ea.
    - apply assoc_map_fun. apply memb_In. exact Ea.
    - apply assoc_not_in. rewrite map_map. simpl. rewrite map_id. apply memb_false. exact Ea.
  Qed.

  Lemma fun_run w : forall q, In q St ->
    dfa_run M (Some q) w = if overb syms w then Some (fold_left delta w q) else None.
  Proof.
    induction w as [|a w IH]; intros q Hq; [reflexivity|]. simpl dfa_run. rewrite (fun_delta q a Hq).
    simpl overb. destruct (memb a syms) eqn:Ea; simpl.
    - apply IH. apply Hclosed; [exact Hq|apply memb_In; exact Ea].
    - apply dfa_run_None.
  Qed.

  Lemma fun_acc w : dfa_acc M w = overb syms w && memb (fold_left delta w init) fin.
  Proof.
    unfold dfa_acc, dfa_acc_from. change (d_init M) with init. rewrite (fun_run w init Hinit).
    destruct (overb syms w); reflexivity.
  Qed.

  Lemma fun_valid : valid_dfa M = true.
  Proof.
    unfold valid_dfa, M. cbn [d_states d_syms d_trans d_init d_finals d_partial]. rewrite Hkeys.
    assert (H1 : nodupb St = true) by (apply nodupb_NoDup; exact HSt).
    assert (H2 : nodupb syms = true) by (apply nodupb_NoDup; exact Hsyms).
    assert (H3 : forallb (fun q => memb q St) St = true) by (apply forallb_forall; intros q Hq; apply memb_In; exact Hq).
    assert (H5 : memb init St = true) by (apply memb_In; exact Hinit).
    assert (H6 : subsetb fin St = true) by (apply subsetb_incl; exact Hfin).
    rewrite H1, H2, H3, H5, H6. simpl. rewrite !andb_true_r.
    apply forallb_forall. intros [q row] Hin. simpl snd. pose proof (Hrows q row Hin) as ->.
    assert (Hq : In q St) by (rewrite <- Hkeys; apply in_map_iff; exists (q, map (fun a => (a, delta q a)) syms); split; [reflexivity|exact Hin]).
    unfold row_ok. cbn [d_syms d_states d_partial]. rewrite map_map. simpl. rewrite map_id, H2. simpl.
    apply andb_true_iff. split.
    - apply forallb_forall. intros [a t] Hat. apply in_map_iff in Hat. destruct Hat as [a' [E Ha]]. inversion E; subst a' t. simpl.
      apply andb_true_iff. split; apply memb_In; [exact Ha|apply Hclosed; assumption].
    - apply forallb_forall. intros a Ha. apply memb_In. exact Ha.
  Qed.
End FunDfa.

Lemma anysubb_snoc P w a : anysubb P (w ++ [a]) = anysubb P w || anysufb P (w ++ [a]).
Proof.
  apply eq_true_iff_eq. rewrite orb_true_iff, !anysubb_spec, anysufb_spec. split.
  - intros [p [Hp Hc]]. apply contains_snoc in Hc. destruct Hc as [Hc|Hs]; [left|right]; exists p; split; assumption.
  - intros [[p [Hp Hc]]|[p [Hp Hs]]]; exists p; (split; [exact Hp|]); apply contains_snoc; [left|right]; assumption.
Qed.

(* ---------- add_end when the end state is a fresh key ---------- *)
Lemma dict_set_fresh {B} k (v : B) l : ~ In k (map fst l) -> dict_set k v l = l ++ [(k, v)].
Proof.
  induction l as [|[k' v'] r IH]; intro H; [reflexivity|]. simpl. destruct (Nat.eqb k k') eqn:E.
  - apply Nat.eqb_eq in E. subst k'. exfalso. apply H. left. reflexivity.
  - rewrite IH; [reflexivity|]. intro Hin. apply H. right. exact Hin.
Qed.

Lemma dict_set_present {B} k (v : B) l : NoDup (map fst l) -> In k (map fst l) ->
  dict_set k v l = map (fun r => if Nat.eqb (fst r) k then (fst r, v) else r) l.
Proof.
  induction l as [|[k' v'] r IH]; intros Hnd Hin; [destruct Hin|]. simpl in *. inversion Hnd as [|? ? Hnot Hnd']; subst.
  rewrite (Nat.eqb_sym k' k). destruct (Nat.eqb k k') eqn:E.
  - apply Nat.eqb_eq in E. subst k'. f_equal. symmetry. rewrite <- (map_id r) at 2. apply map_ext_in.
    intros [k2 v2] Hin2. simpl. destruct (Nat.eqb k2 k) eqn:E2; [|reflexivity]. apply Nat.eqb_eq in E2. subst k2.
    exfalso. apply Hnot. apply in_map_iff. exists (k, v2). split; [reflexivity|exact Hin2].
  - f_equal. apply IH; [exact Hnd'|]. destruct Hin as [->|Hin]; [rewrite Nat.eqb_refl in E; discriminate|exact Hin].
Qed.

Lemma fold_redirect {B} (v : B) : forall F l, NoDup (map fst l) -> incl F (map fst l) ->
  fold_left (fun rs q => dict_set q v rs) F l = map (fun r => if memb (fst r) F then (fst r, v) else r) l.
Proof.
  induction F as [|q F IH]; intros l Hnd Hinc.
  - simpl. symmetry. rewrite <- (map_id l) at 2. apply map_ext. intros [k w]. reflexivity.
  - simpl. rewrite (dict_set_present q v l Hnd (Hinc q (or_introl eq_refl))).
    assert (Hk : map fst (map (fun r : nat * B => if Nat.eqb (fst r) q then (fst r, v) else r) l) = map fst l).
    { rewrite map_map. apply map_ext. intros [k w]. simpl. destruct (Nat.eqb k q); reflexivity. }
    rewrite IH; [|rewrite Hk; exact Hnd|rewrite Hk; intros x Hx; apply Hinc; right; exact Hx].
    rewrite map_map. apply map_ext. intros [k w]. simpl. rewrite (Nat.eqb_sym k q).
    destruct (Nat.eqb q k) eqn:E; simpl.
    + destruct (memb k F); reflexivity.
    + reflexivity.
Qed.

Lemma add_end_eq syms e rows finals :
  NoDup (map fst rows) -> ~ In e (map fst rows) -> incl finals (map fst rows) ->
  add_end syms e rows finals =
  (map (fun r => if memb (fst r) finals then (fst r, map (fun a => (a, e)) syms) else r) rows
     ++ [(e, map (fun a => (a, e)) syms)],
   finals ++ [e]).
Proof.
  intros Hnd Hfresh Hinc. unfold add_end.
  assert (Hm : memb e finals = false) by (apply memb_false; intro H; apply Hfresh, Hinc; exact H).
  rewrite Hm. f_equal. rewrite (dict_set_fresh _ _ rows Hfresh).
  rewrite fold_redirect.
  - rewrite map_app. simpl. rewrite Hm. reflexivity.
  - rewrite map_app. simpl. apply NoDup_app_intro; [exact Hnd|repeat constructor; intros []|].
    intros x Hx [<-|[]]. exact (Hfresh Hx).
  - intros x Hx. rewrite map_app. apply in_or_app. left. apply Hinc. exact Hx.
Qed.

(* ---------- the assembled automaton ---------- *)
Section ACDfa.
  Variable N : list tnode.
  Variable P : list word.
  Variable syms : list nat.
  Hypothesis Hsyms : NoDup syms.
  Hypothesis Hspec : ac_spec N P.

  Variable rows : list (nat * list (nat * nat)).
  Variable finals : list nat.
  Hypothesis HG : GI N syms [] rows finals.

  Let vis := map fst rows.
  Let gf := gfun N.

  Lemma vis_NoDup : NoDup vis.
  Proof. destruct HG as [_ [_ [_ [G4 _]]]]. cbn zeta in G4. rewrite app_nil_r in G4. exact G4. Qed.

  Lemma vis_str k : In k vis -> exists s, word_over syms s /\ nodeof N s = Some k.
  Proof. destruct HG as [G1 _]. cbn zeta in G1. intro H. apply G1. rewrite app_nil_r. exact H. Qed.

  Lemma vis_complete s k : word_over syms s -> nodeof N s = Some k -> In k vis.
  Proof.
    apply (GI_complete N syms rows finals HG).
  Qed.

  Lemma vis_lt k : In k vis -> k < length N.
  Proof. destruct Hspec as [HV _]. intro H. destruct (vis_str k H) as [s [_ Hs]]. eapply HV. exact Hs. Qed.

  Lemma gf_closed q a : In q vis -> In a syms -> In (gf q a) vis.
  Proof.
    destruct Hspec as [HV [HI [Hroot [HF _]]]]. intros Hq Ha. destruct (vis_str q Hq) as [s [Hs Hk]].
    destruct (gfun_str N HV HI Hroot HF s q a Hk) as [_ [u [Hu [Hus _]]]].
    apply (vis_complete u); [|exact Hu]. apply (word_over_suffix syms u (s ++ [a]) Hus).
    unfold word_over in *. apply Forall_app. split; [exact Hs|constructor; [exact Ha|constructor]].
  Qed.

  Lemma rows_rowf q row : In (q, row) rows -> row = map (fun a => (a, gf q a)) syms.
  Proof. destruct HG as [_ [_ [_ [_ [_ [G6 _]]]]]]. exact (G6 q row). Qed.

  Lemma finals_outb q : In q vis -> memb q finals = outb N q.
  Proof.
    destruct HG as [_ [_ [_ [_ [_ [_ G7]]]]]]. cbn zeta in G7. intro Hq. apply eq_true_iff_eq. rewrite memb_In, G7. fold vis. tauto.
  Qed.

  Lemma finals_vis : incl finals vis.
  Proof. destruct HG as [_ [_ [_ [_ [_ [_ G7]]]]]]. cbn zeta in G7. intros q Hq. apply G7 in Hq. exact (proj1 Hq). Qed.

  Lemma init_vis : In 0 vis.
  Proof. apply (vis_complete []); [constructor|reflexivity]. Qed.

  (* the table follows the abstract run *)
  Lemma run_gf w : overb syms w = true -> ac_run N 0 w = Ok (fold_left gf w 0) /\ In (fold_left gf w 0) vis.
  Proof.
    destruct Hspec as [HV [HI [Hroot [HF _]]]].
    induction w as [|a w IH] using rev_ind; intro Ho.
    - split; [reflexivity|exact init_vis].
    - rewrite overb_app in Ho. apply andb_true_iff in Ho. destruct Ho as [Ho Ha]. simpl in Ha. rewrite andb_true_r in Ha.
      apply memb_In in Ha. destruct (IH Ho) as [Er Hv]. rewrite fold_left_app. simpl.
      destruct (vis_str _ Hv) as [s [_ Hs]]. destruct (gfun_str N HV HI Hroot HF s _ a Hs) as [Eg _].
      split; [rewrite ac_run_app, Er; simpl; rewrite Eg; reflexivity|apply gf_closed; assumption].
  Qed.

  Lemma acc_suffix w : overb syms w = true -> memb (fold_left gf w 0) finals = anysufb P w.
  Proof.
    intro Ho. destruct (run_gf w Ho) as [Er Hv]. rewrite (finals_outb _ Hv).
    destruct Hspec as [HV [HI [Hroot [HF [HP [HO _]]]]]].
    destruct (ac_suffix_ok N P (length N) HV HI Hroot HF (le_n _) HP HO w) as [k [x [Er2 [Ex Hox]]]].
    rewrite Er in Er2. inversion Er2 as [Ek]. apply eq_true_iff_eq. rewrite anysufb_spec, <- Hox.
    unfold outb. rewrite Ek, Ex. destruct (t_out x); split; congruence.
  Qed.

  (* ---- must_be_suffix = True ---- *)
  Definition fin_of (c : bool) (fs st : list nat) : list nat :=
    if c then fs else filter (fun q => negb (memb q fs)) st.

  Theorem ac_suffix_dfa c :
    let m := mkdfa vis syms rows 0 (fin_of c finals vis) false in
    valid_dfa m = true /\ forall w, dfa_acc m w = overb syms w && flagb c (anysufb P w).
  Proof.
    cbn zeta.
    assert (Hfin : incl (fin_of c finals vis) vis).
    { unfold fin_of. destruct c; [exact finals_vis|]. intros q Hq. apply filter_In in Hq. tauto. }
    split.
    - apply (fun_valid syms vis rows gf 0 _ Hsyms vis_NoDup eq_refl rows_rowf gf_closed init_vis Hfin).
    - intro w. rewrite (fun_acc syms vis rows gf 0 _ vis_NoDup eq_refl rows_rowf gf_closed init_vis).
      destruct (overb syms w) eqn:Ho; [|reflexivity]. simpl. destruct (run_gf w Ho) as [_ Hv].
      unfold fin_of. destruct c; simpl.
      + apply acc_suffix. exact Ho.
      + rewrite memb_filter, (acc_suffix w Ho). assert (E : memb (fold_left gf w 0) vis = true) by (apply memb_In; exact Hv).
        rewrite E. reflexivity.
  Qed.

  (* ---- must_be_suffix = False: final states fall into the absorbing end state ---- *)
  Let e := length N.       (* len(labels) *)
  Definition d2 (q a : nat) : nat := if Nat.eqb q e then e else if memb q finals then e else gf q a.

  Lemma e_fresh : ~ In e vis.
  Proof. intro H. apply vis_lt in H. unfold e in H. lia. Qed.

  Lemma add_end_rows : fst (add_end syms e rows finals) =
    map (fun r => if memb (fst r) finals then (fst r, map (fun a => (a, e)) syms) else r) rows ++ [(e, map (fun a => (a, e)) syms)].
  Proof. rewrite (add_end_eq syms e rows finals vis_NoDup e_fresh finals_vis). reflexivity. Qed.

  Lemma rows2_keys : map fst (fst (add_end syms e rows finals)) = vis ++ [e].
  Proof.
    rewrite add_end_rows, map_app. simpl. f_equal. rewrite map_map. apply map_ext.
    intros [q row]. simpl. destruct (memb q finals); reflexivity.
  Qed.

  Lemma rows2_rowf q row : In (q, row) (fst (add_end syms e rows finals)) -> row = map (fun a => (a, d2 q a)) syms.
  Proof.
    rewrite add_end_rows. intro Hin. apply in_app_or in Hin. destruct Hin as [Hin|[Ee|[]]].
    - apply in_map_iff in Hin. destruct Hin as [[q0 row0] [E Hin0]]. simpl in E.
      assert (Hq0 : In q0 vis) by (apply in_map_iff; exists (q0, row0); split; [reflexivity|exact Hin0]).
      assert (Hne : Nat.eqb q0 e = false) by (apply Nat.eqb_neq; intros ->; exact (e_fresh Hq0)).
      destruct (memb q0 finals) eqn:Em; inversion E; subst q row.
      + apply map_ext. intro a. unfold d2. rewrite Hne, Em. reflexivity.
      + rewrite (rows_rowf q0 row0 Hin0). apply map_ext. intro a. unfold d2. rewrite Hne, Em. reflexivity.
    - inversion Ee; subst q row. apply map_ext. intro a. unfold d2. rewrite Nat.eqb_refl. reflexivity.
  Qed.

  Lemma d2_closed q a : In q (vis ++ [e]) -> In a syms -> In (d2 q a) (vis ++ [e]).
  Proof.
    intros Hq Ha. unfold d2. destruct (Nat.eqb q e) eqn:Ee; [apply in_or_app; right; left; reflexivity|].
    destruct (memb q finals); [apply in_or_app; right; left; reflexivity|].
    apply in_or_app. left. apply gf_closed; [|exact Ha]. apply in_app_or in Hq. destruct Hq as [Hq|[<-|[]]]; [exact Hq|].
    rewrite Nat.eqb_refl in Ee. discriminate.
  Qed.

  Lemma states2_NoDup : NoDup (vis ++ [e]).
  Proof.
    apply NoDup_app_intro; [exact vis_NoDup|repeat constructor; intros []|]. intros x Hx [<-|[]]. exact (e_fresh Hx).
  Qed.

  Lemma run_d2 w : overb syms w = true ->
    memb (fold_left d2 w 0) (finals ++ [e]) = anysubb P w /\
    In (fold_left d2 w 0) (vis ++ [e]) /\
    (anysubb P w = false -> fold_left d2 w 0 = fold_left gf w 0).
  Proof.
    induction w as [|a w IH] using rev_ind; intro Ho.
    - simpl. split; [|split; [apply in_or_app; left; exact init_vis|reflexivity]].
      pose proof (acc_suffix [] eq_refl) as Ha. simpl in Ha.
      assert (Es : anysubb P [] = anysufb P []).
      { apply eq_true_iff_eq. rewrite anysubb_spec, anysufb_spec. split; intros [p [Hp H]]; exists p; (split; [exact Hp|]).
        - destruct H as [u [v E]]. destruct u; [|discriminate]. destruct p; [apply has_suffix_refl|discriminate].
        - apply suffix_contains. exact H. }
      rewrite Es, <- Ha. apply eq_true_iff_eq. rewrite !memb_In. split; [|intro H; apply in_or_app; left; exact H].
      intro H. apply in_app_or in H. destruct H as [H|[H|[]]]; [exact H|]. exfalso. apply e_fresh. rewrite H. exact init_vis.
    - rewrite overb_app in Ho. apply andb_true_iff in Ho. destruct Ho as [Ho Ha]. simpl in Ha. rewrite andb_true_r in Ha.
      apply memb_In in Ha. destruct (IH Ho) as [Hm [Hin Hg]]. rewrite !fold_left_app. simpl.
      set (q := fold_left d2 w 0) in *. rewrite anysubb_snoc.
      split; [|split; [apply d2_closed; assumption|]].
      + destruct (anysubb P w) eqn:Es; simpl.
        * assert (Hd : d2 q a = e).
          { unfold d2. destruct (Nat.eqb q e) eqn:Ee; [reflexivity|]. apply memb_In in Hm. apply in_app_or in Hm.
            destruct Hm as [Hm|[Hm|[]]]; [apply memb_In in Hm; rewrite Hm; reflexivity|].
            rewrite <- Hm, Nat.eqb_refl in Ee. discriminate. }
          rewrite Hd. apply memb_In. apply in_or_app. right. left. reflexivity.
        * specialize (Hg eq_refl).
          assert (Hq : In q vis) by (rewrite Hg; apply (run_gf w Ho)).
          assert (Hne : Nat.eqb q e = false) by (apply Nat.eqb_neq; intros E; rewrite E in Hq; exact (e_fresh Hq)).
          assert (Hnf : memb q finals = false).
          { apply memb_false. intro Hf. apply memb_false in Hm. apply Hm. apply in_or_app. left. exact Hf. }
          unfold d2 at 1. rewrite Hne, Hnf, Hg.
          assert (Ho' : overb syms (w ++ [a]) = true).
          { rewrite overb_app, Ho. simpl. assert (E : memb a syms = true) by (apply memb_In; exact Ha). rewrite E. reflexivity. }
          pose proof (acc_suffix (w ++ [a]) Ho') as Hs. rewrite fold_left_app in Hs. simpl in Hs. rewrite <- Hs.
          pose proof (proj2 (run_gf (w ++ [a]) Ho')) as Hv. rewrite fold_left_app in Hv. simpl in Hv.
          apply eq_true_iff_eq. rewrite !memb_In. split; [|intro H; apply in_or_app; left; exact H].
          intro H. apply in_app_or in H. destruct H as [H|[H|[]]]; [exact H|]. exfalso. apply e_fresh. rewrite H. exact Hv.
      + intro Hf. apply orb_false_iff in Hf. destruct Hf as [Hf1 Hf2]. specialize (Hg Hf1).
        assert (Hq : In q vis) by (rewrite Hg; apply (run_gf w Ho)).
        assert (Hne : Nat.eqb q e = false) by (apply Nat.eqb_neq; intros E; rewrite E in Hq; exact (e_fresh Hq)).
        assert (Hnf : memb q finals = false).
        { rewrite Hf1 in Hm. apply memb_false. intro Hin2. apply memb_false in Hm. apply Hm. apply in_or_app. left. exact Hin2. }
        unfold d2 at 1. rewrite Hne, Hnf, Hg. reflexivity.
  Qed.

  Theorem ac_substring_dfa c :
    let rf := add_end syms e rows finals in
    let m := mkdfa (map fst (fst rf)) syms (fst rf) 0 (fin_of c (snd rf) (map fst (fst rf))) false in
    valid_dfa m = true /\ forall w, dfa_acc m w = overb syms w && flagb c (anysubb P w).
  Proof.
    cbn zeta. rewrite rows2_keys.
    replace (snd (add_end syms e rows finals)) with (finals ++ [e])
      by (rewrite (add_end_eq syms e rows finals vis_NoDup e_fresh finals_vis); reflexivity).
    assert (Hinit : In 0 (vis ++ [e])) by (apply in_or_app; left; exact init_vis).
    assert (Hfin : incl (fin_of c (finals ++ [e]) (vis ++ [e])) (vis ++ [e])).
    { unfold fin_of. destruct c.
      - intros q Hq. apply in_app_or in Hq. apply in_or_app. destruct Hq as [Hq|Hq]; [left; apply finals_vis; exact Hq|right; exact Hq].
      - intros q Hq. apply filter_In in Hq. tauto. }
    split.
    - apply (fun_valid syms (vis ++ [e]) _ d2 0 _ Hsyms states2_NoDup rows2_keys rows2_rowf d2_closed Hinit Hfin).
    - intro w. rewrite (fun_acc syms (vis ++ [e]) _ d2 0 _ states2_NoDup rows2_keys rows2_rowf d2_closed Hinit).
      destruct (overb syms w) eqn:Ho; [|reflexivity]. simpl. destruct (run_d2 w Ho) as [Hm [Hin _]].
      unfold fin_of. destruct c; simpl.
      + exact Hm.
      + rewrite memb_filter, Hm. assert (E : memb (fold_left d2 w 0) (vis ++ [e]) = true) by (apply memb_In; exact Hin).
        rewrite E. reflexivity.
  Qed.
End ACDfa.

(* ---------- the constructor ---------- *)
Theorem ac_dfa_suffix_correct syms pats c : NoDup syms ->
  exists m, ac_dfa syms pats c true = Ok m /\ valid_dfa m = true /\
    forall w, dfa_acc m w = overb syms w && flagb c (anysufb pats w).
Proof.
  intro Hnd. unfold ac_dfa.
  match goal with |- context [existsb ?f pats] => destruct (existsb f pats) eqn:Ee end.
  - apply existsb_exists in Ee. destruct Ee as [p [Hp Hnil]]. destruct p; [|discriminate].
    assert (Hall : forall w, anysufb pats w = true).
    { intro w. apply anysufb_spec. exists []. split; [exact Hp|apply has_suffix_nil]. }
    destruct c; eexists; (split; [reflexivity|]); split.
    + apply universal_valid; exact Hnd.
    + intro w. rewrite universal_acc, Hall. simpl. rewrite andb_true_r. reflexivity.
    + apply empty_valid; exact Hnd.
    + intro w. rewrite empty_acc, Hall. simpl. rewrite andb_false_r. reflexivity.
  - assert (Hne : forall p, In p pats -> p <> []).
    { intros p Hp ->. rewrite <- not_true_iff_false in Ee. apply Ee. apply existsb_exists. exists []. split; [exact Hp|reflexivity]. }
    destruct (ac_trie_ok pats Hne) as [N [Et Hs]]. rewrite Et. cbn [bind].
    pose proof Hs as [HV [HI [Hroot [HF _]]]].
    destruct (goto_bfs_ok N syms Hnd HV HI Hroot HF (S (length N)) [0] [] [] (GI_init N syms HI)) as [rows [finals [Eb HG]]];
      [simpl; lia|].
    rewrite Eb. cbn [bind]. eexists. split; [reflexivity|].
    exact (ac_suffix_dfa N pats syms Hnd Hs rows finals HG c).
Qed.

Theorem ac_dfa_substring_correct syms pats c : NoDup syms ->
  exists m, ac_dfa syms pats c false = Ok m /\ valid_dfa m = true /\
    forall w, dfa_acc m w = overb syms w && flagb c (anysubb pats w).
Proof.
  intro Hnd. unfold ac_dfa.
  match goal with |- context [existsb ?f pats] => destruct (existsb f pats) eqn:Ee end.
  - apply existsb_exists in Ee. destruct Ee as [p [Hp Hnil]]. destruct p; [|discriminate].
    assert (Hall : forall w, anysubb pats w = true).
    { intro w. apply anysubb_spec. exists []. split; [exact Hp|]. exists [], w. reflexivity. }
    destruct c; eexists; (split; [reflexivity|]); split.
    + apply universal_valid; exact Hnd.
    + intro w. rewrite universal_acc, Hall. simpl. rewrite andb_true_r. reflexivity.
    + apply empty_valid; exact Hnd.
    + intro w. rewrite empty_acc, Hall. simpl. rewrite andb_false_r. reflexivity.
  - assert (Hne : forall p, In p pats -> p <> []).
    { intros p Hp ->. rewrite <- not_true_iff_false in Ee. apply Ee. apply existsb_exists. exists []. split; [exact Hp|reflexivity]. }
    destruct (ac_trie_ok pats Hne) as [N [Et Hs]]. rewrite Et. cbn [bind].
    pose proof Hs as [HV [HI [Hroot [HF _]]]].
    destruct (goto_bfs_ok N syms Hnd HV HI Hroot HF (S (length N)) [0] [] [] (GI_init N syms HI)) as [rows [finals [Eb HG]]];
      [simpl; lia|].
    rewrite Eb. cbn [bind]. eexists. split; [reflexivity|].
    exact (ac_substring_dfa N pats syms Hnd Hs rows finals HG c).
Qed.
