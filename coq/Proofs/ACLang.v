(* Aho-Corasick: the whole construction.
   1. ac_trie (trie + failure phase) never fails and its result satisfies the failure-link
      specification of Proofs/AhoCorasick.v (from Proofs/ACTrie.v and Proofs/ACBuild.v).
   2. goto_bfs visits every node whose string is over the alphabet exactly once and tabulates
      ac_goto; the DFA assembled by ac_dfa (with the absorbing end state when not must_be_suffix)
      is valid and accepts exactly the words over the alphabet in which some pattern occurs
      (resp. that end with some pattern), or the complement. *)
From Coq Require Import List Arith Bool Lia.
From AV Require Import Base.Util Spec.Lang Spec.FA Spec.Preds Model.Construct Model.KMP Model.AhoCorasick
                       Proofs.FARun Proofs.Preds Proofs.Border Proofs.Construct Proofs.KMP
                       Proofs.AhoCorasick Proofs.ACBuild Proofs.ACTrie.
Import ListNotations.

(* what the rest needs to know about the finished node table *)
Definition ac_spec (N : list tnode) (P : list word) : Prop :=
  (forall s k, nodeof N s = Some k -> k < length N) /\
  (forall s s' k, nodeof N s = Some k -> nodeof N s' = Some k -> s = s') /\
  (exists r, nth_error N 0 = Some r /\ t_fail r = None) /\
  (forall s k x, s <> [] -> length s <= length N -> nodeof N s = Some k -> nth_error N k = Some x ->
     match t_fail x with
     | Some f => exists u, nodeof N u = Some f /\ u <> [] /\ psuf u s /\
                           forall u', psuf u' s -> inT N u' -> length u' <= length u
     | None => forall u', psuf u' s -> inT N u' -> u' = []
     end) /\
  (forall p, In p P -> inT N p) /\
  (forall s k x, nodeof N s = Some k -> nth_error N k = Some x -> (t_out x <> [] <-> ends_with_any P s)) /\
  (forall k x, nth_error N k = Some x -> NoDup (map fst (t_succ x))) /\
  (forall k, k < length N -> exists s, nodeof N s = Some k /\ (s = [] \/ exists p, In p P /\ has_prefix s p)).

Theorem ac_trie_ok pats : (forall p, In p pats -> p <> []) -> exists N, ac_trie pats = Ok N /\ ac_spec N pats.
Proof.
  intro Hne. destruct (trie_ok pats) as [N0 [root [Ei [Er [HV [HI [HK [HP [Hinit Hsur]]]]]]]]].
  destruct (fail_phase_ok N0 pats HV HI HK HP Hne Hinit root Er) as [N [Ef [Hsh [Hr [J1 _]]]]].
  exists N. split.
  - unfold ac_trie. rewrite Ei. cbn [bind]. rewrite (idx_Ok N0 0 root Er). cbn [bind]. exact Ef.
  - assert (Hno : forall s, nodeof N s = nodeof N0 s) by (intro s; apply shape_nodeof; exact Hsh).
    assert (HiT : forall s, inT N s <-> inT N0 s) by (intro s; unfold inT; rewrite Hno; tauto).
    destruct Hsh as [HL Hsucc].
    split; [intros s k H; rewrite Hno in H; apply HV in H; lia|].
    split; [intros s s' k H1 H2; rewrite Hno in H1, H2; eapply HI; eassumption|].
    split; [destruct Hr as [r [E1 [_ E2]]]; exists r; split; assumption|].
    split.
    { intros s k x Hs _ Hk Ex. rewrite Hno in Hk. destruct (J1 s k x Hs Hk Ex (fun f => f)) as [Hf _].
      unfold failspec in Hf. destruct (t_fail x) as [f|].
      - destruct Hf as [u [H1 [H2 [H3 H4]]]]. exists u. rewrite Hno. split; [exact H1|]. split; [exact H2|].
        split; [exact H3|]. intros u' Hu' Hi. apply H4; [exact Hu'|apply HiT; exact Hi].
      - intros u' Hu' Hi. apply Hf; [exact Hu'|apply HiT; exact Hi]. }
    split; [intros p Hp; apply HiT; apply HP; exact Hp|].
    split.
    { intros s k x Hk Ex. rewrite Hno in Hk. destruct s as [|a s'].
      - unfold nodeof in Hk. simpl in Hk. inversion Hk; subst k.
        destruct Hr as [r [E1 [E0 _]]]. rewrite E1 in Ex. inversion Ex; subst x.
        destruct (Hinit [] 0 r eq_refl E0) as [_ Ho]. rewrite Ho. split.
        + intro Hin. exfalso. exact (Hne [] Hin eq_refl).
        + intros [p [Hp Hs]]. exfalso. apply (Hne p Hp). apply has_suffix_length in Hs. destruct p; [reflexivity|simpl in Hs; lia].
      - destruct (J1 (a :: s') k x ltac:(discriminate) Hk Ex (fun f => f)) as [_ Ho]. exact Ho. }
    split.
    { intros k x Ex. specialize (Hsucc k). rewrite Ex in Hsucc. simpl in Hsucc.
      destruct (nth_error N0 k) as [x0|] eqn:E0; [|discriminate]. simpl in Hsucc. inversion Hsucc as [Es]. rewrite Es.
      eapply HK; exact E0. }
    intros k Hk. rewrite HL in Hk. destruct (Hsur k Hk) as [s [H1 H2]]. exists s. rewrite Hno. split; assumption.
Qed.
