(* C15 / from_finite_language: add_to_trie in closed form (walk along the common prefix, which changes nothing;
   one new edge at the branching state; a fresh chain of states) and the invariant after it. *)
From Coq Require Import List Arith Bool Lia.
From AV Require Import Base.Util Spec.Lang Spec.FA Spec.DictOrder Spec.Preds Model.FiniteLang
                       Proofs.Preds Proofs.FLDict Proofs.FLInv.
Import ListNotations.

Fixpoint chain (p r : word) : list (word * wrow) :=
  match r with
  | [] => [(p, [])]
  | b :: r' => (p, [(b, p ++ [b])]) :: chain (p ++ [b]) r'
  end.

Fixpoint bchain (p r : word) : list (word * list word) :=
  match r with
  | [] => []
  | b :: r' => (p ++ [b], [p]) :: bchain (p ++ [b]) r'
  end.

Lemma app_neq_self (p y : word) : y <> [] -> p ++ y <> p.
Proof.
  intros Hy E. apply (f_equal (@length nat)) in E. rewrite app_length in E. destruct y; [congruence|simpl in E; lia].
Qed.

Lemma snoc_app (p : word) c y : (p ++ [c]) ++ y = p ++ c :: y.
Proof. rewrite <- app_assoc. reflexivity. Qed.

Lemma chain_lookup : forall r p y1 y2, r = y1 ++ y2 ->
  wassoc (p ++ y1) (chain p r) = Some (match y2 with [] => [] | b :: _ => [(b, p ++ y1 ++ [b])] end).
Proof.
  induction r as [|c r IH]; intros p y1 y2 E.
  - destruct y1; [|discriminate]. simpl in E. subst y2. simpl. rewrite app_nil_r, weqb_refl. reflexivity.
  - destruct y1 as [|d y1]; simpl in E.
    + subst y2. simpl. rewrite app_nil_r, weqb_refl. reflexivity.
    + inversion E; subst. simpl. weq (p ++ d :: y1) p; [exfalso; exact (app_neq_self p (d :: y1) ltac:(discriminate) E0)|].
      rewrite <- (snoc_app p d y1). rewrite (IH (p ++ [d]) y1 y2 eq_refl). destruct y2; rewrite ?snoc_app; reflexivity.
Qed.

Lemma chain_keys : forall r p y, wassoc y (chain p r) <> None -> exists y1, pre y1 r /\ y = p ++ y1.
Proof.
  induction r as [|c r IH]; intros p y H; simpl in H.
  - weq y p; [|congruence]. exists []. split; [apply pre_nil|rewrite app_nil_r; exact E].
  - weq y p.
    + exists []. split; [apply pre_nil|rewrite app_nil_r; exact E].
    + destruct (IH _ _ H) as [y1 [[t Hp] ->]]. exists (c :: y1). split; [exists t; simpl; congruence|apply snoc_app].
Qed.

Lemma bchain_lookup : forall r p y1 b y2, r = y1 ++ b :: y2 ->
  wassoc (p ++ y1 ++ [b]) (bchain p r) = Some [p ++ y1].
Proof.
  induction r as [|c r IH]; intros p y1 b y2 E; [destruct y1; discriminate|].
  destruct y1 as [|d y1]; simpl in E; inversion E; subst; simpl.
  - rewrite weqb_refl, app_nil_r. reflexivity.
  - weq (p ++ d :: y1 ++ [b]) (p ++ [d]).
    + exfalso. apply app_inv_head in E0. inversion E0. destruct y1; discriminate.
    + rewrite <- (snoc_app p d (y1 ++ [b])). rewrite (IH (p ++ [d]) y1 b y2 eq_refl). rewrite snoc_app. reflexivity.
Qed.

Lemma bchain_keys : forall r p y, wassoc y (bchain p r) <> None -> exists y1, y1 <> [] /\ pre y1 r /\ y = p ++ y1.
Proof.
  induction r as [|c r IH]; intros p y H; simpl in H; [congruence|].
  weq y (p ++ [c]).
  - exists [c]. split; [discriminate|]. split; [exists r; reflexivity|exact E].
  - destruct (IH _ _ H) as [y1 [Hne [[t Hp] ->]]]. exists (c :: y1).
    split; [discriminate|]. split; [exists t; simpl; congruence|apply snoc_app].
Qed.

(* ---------- add_loop in closed form ---------- *)
Lemma add_loop_pending : forall rest s p,
  wassoc p (fl_trans s) = None ->
  (forall y, y <> [] -> pre y rest -> wassoc (p ++ y) (fl_trans s) = None /\ wassoc (p ++ y) (fl_back s) = None) ->
  add_loop s p rest =
    mkfl (fl_trans s ++ chain p rest) (fl_back s ++ bchain p rest) (wadd (p ++ rest) (fl_fin s)) (fl_sigs s).
Proof.
  induction rest as [|a r IH]; intros s p Hp Hf; simpl.
  - rewrite wset_absent by (apply wassoc_None; exact Hp). rewrite !app_nil_r. reflexivity.
  - destruct (Hf [a] ltac:(discriminate) (pre_app [a] r)) as [Hn1 Hn2].
    rewrite (wsetdefault_absent p [] _ Hp). rewrite wassoc_app, Hp. simpl. rewrite weqb_refl.
    unfold row_setdefault. simpl. rewrite (wset_app_last p _ [] _ Hp).
    rewrite (wsetdefault_absent _ [] _ Hn2). rewrite wassoc_app, Hn2. simpl. rewrite weqb_refl.
    unfold wadd at 1. simpl. rewrite (wset_app_last _ _ [] _ Hn2).
    rewrite IH; simpl.
    + rewrite <- !app_assoc. reflexivity.
    + rewrite wassoc_app, Hn1. simpl. weq (p ++ [a]) p; [exfalso; exact (app_neq_self p [a] ltac:(discriminate) E)|reflexivity].
    + intros y Hy Hpy. destruct (Hf (a :: y) ltac:(discriminate)) as [H1 H2].
      { destruct Hpy as [t ->]. exists t. reflexivity. }
      rewrite snoc_app. rewrite !wassoc_app, H1, H2. simpl. split.
      * weq (p ++ a :: y) p; [exfalso; exact (app_neq_self p (a :: y) ltac:(discriminate) E)|reflexivity].
      * weq (p ++ a :: y) (p ++ [a]); [|reflexivity]. apply app_inv_head in E. inversion E. contradiction.
Qed.

Lemma add_loop_branch s u a r row :
  wassoc u (fl_trans s) = Some row -> assoc a row = None ->
  (forall y, y <> [] -> pre y (a :: r) -> wassoc (u ++ y) (fl_trans s) = None /\ wassoc (u ++ y) (fl_back s) = None) ->
  add_loop s u (a :: r) =
    mkfl (wset u (row ++ [(a, u ++ [a])]) (fl_trans s) ++ chain (u ++ [a]) r) (fl_back s ++ bchain u (a :: r))
         (wadd (u ++ a :: r) (fl_fin s)) (fl_sigs s).
Proof.
  intros Hu Ha Hf. simpl.
  destruct (Hf [a] ltac:(discriminate) (pre_app [a] r)) as [Hn1 Hn2].
  rewrite wsetdefault_present by (rewrite Hu; discriminate). rewrite Hu.
  unfold row_setdefault. rewrite Ha.
  rewrite (wsetdefault_absent _ [] _ Hn2). rewrite wassoc_app, Hn2. simpl. rewrite weqb_refl.
  unfold wadd at 1. simpl. rewrite (wset_app_last _ _ [] _ Hn2).
  rewrite add_loop_pending; simpl.
  - rewrite <- !app_assoc. reflexivity.
  - rewrite wassoc_wset. weq (u ++ [a]) u; [exfalso; exact (app_neq_self u [a] ltac:(discriminate) E)|exact Hn1].
  - intros y Hy Hpy. destruct (Hf (a :: y) ltac:(discriminate)) as [H1 H2].
    { destruct Hpy as [t ->]. exists t. reflexivity. }
    rewrite snoc_app. rewrite wassoc_wset, wassoc_app, H1, H2. simpl. split.
    + weq (u ++ a :: y) u; [exfalso; exact (app_neq_self u (a :: y) ltac:(discriminate) E)|reflexivity].
    + weq (u ++ a :: y) (u ++ [a]); [|reflexivity]. apply app_inv_head in E. inversion E. contradiction.
Qed.

(* walking along the path changes nothing *)
Lemma add_loop_walk s done u : Inv s done u -> forall y x rest, pre (x ++ y) u ->
  add_loop s x (y ++ rest) = add_loop s (x ++ y) rest.
Proof.
  intro HI. induction y as [|b y IH]; intros x rest Hp; simpl.
  - rewrite app_nil_r. reflexivity.
  - assert (Hpb : pre (x ++ [b]) u) by (eapply pre_trans; [|exact Hp]; exists y; symmetry; apply snoc_app).
    pose proof (i_path _ _ _ HI x (pre_snoc_l _ _ _ Hpb)) as Hk.
    pose proof (i_link _ _ _ HI x b Hpb) as Hl. unfold wdelta in Hl.
    rewrite wsetdefault_present by exact Hk.
    destruct (wassoc x (fl_trans s)) as [row|] eqn:Ex; [|discriminate].
    unfold row_setdefault. rewrite Hl. rewrite (wset_same _ _ _ Ex).
    pose proof (i_back _ _ _ HI x b Hpb) as Hb.
    rewrite wsetdefault_present by (rewrite Hb; discriminate). rewrite Hb.
    unfold wadd. simpl. rewrite weqb_refl. simpl. rewrite (wset_same _ _ _ Hb).
    replace (mkfl (fl_trans s) (fl_back s) (fl_fin s) (fl_sigs s)) with s by (destruct s; reflexivity).
    rewrite IH by (rewrite snoc_app; exact Hp). rewrite snoc_app. reflexivity.
Qed.

Lemma NoDup_app_disj_w {B} (l m : list B) :
  NoDup l -> NoDup m -> (forall y, In y m -> ~ In y l) -> NoDup (l ++ m).
Proof.
  intros Hl Hm Hd. induction l as [|a l IHl]; simpl; [exact Hm|].
  inversion Hl; subst. constructor.
  - intro H. apply in_app_or in H. destruct H as [H|H]; [tauto|].
    apply (Hd a H). left. reflexivity.
  - apply IHl; [assumption|]. intros y Hy Hin. apply (Hd y Hy). right. exact Hin.
Qed.

(* ---------- the invariant after add_to_trie ---------- *)
Section Add.
  Variables (s : flst) (done : list word) (u : word) (a : nat) (r : word).
  Hypothesis HI : Inv s done u.
  Hypothesis Hfresh : forall y w, y <> [] -> pre y (a :: r) -> In w done -> ~ pre (u ++ y) w.

  Let cur := u ++ a :: r.
  Let np := u ++ [a].

  Lemma cur_np : cur = np ++ r.
  Proof. unfold cur, np. symmetry. apply snoc_app. Qed.

  Lemma fresh_bk y : y <> [] -> pre y (a :: r) -> wassoc (u ++ y) (fl_back s) = None.
  Proof.
    intros Hy Hp. destruct (wassoc (u ++ y) (fl_back s)) eqn:E; [|reflexivity]. exfalso.
    destruct (i_names _ _ _ HI (u ++ y)) as [H|[w [Hw Hpw]]].
    - unfold bkey. rewrite E. discriminate.
    - apply app_eq_nil in H. destruct H. contradiction.
    - exact (Hfresh y w Hy Hp Hw Hpw).
  Qed.

  Lemma fresh_tr y : y <> [] -> pre y (a :: r) -> wassoc (u ++ y) (fl_trans s) = None.
  Proof.
    intros Hy Hp. destruct (wassoc (u ++ y) (fl_trans s)) eqn:E; [|reflexivity]. exfalso.
    apply (i_keys _ _ _ HI (u ++ y)); [unfold key; rewrite E; discriminate|]. apply fresh_bk; assumption.
  Qed.

  Lemma fresh_new y1 : pre y1 r -> wassoc (np ++ y1) (fl_trans s) = None.
  Proof.
    intros [t Ht]. unfold np. rewrite snoc_app. apply fresh_tr; [discriminate|]. exists t. simpl. congruence.
  Qed.

  Lemma u_row : exists row, wassoc u (fl_trans s) = Some row /\ assoc a row = None.
  Proof.
    pose proof (i_path _ _ _ HI u (pre_refl _)) as Hk.
    destruct (wassoc u (fl_trans s)) as [row|] eqn:Eu; [|exfalso; apply Hk; exact Eu].
    exists row. split; [reflexivity|]. destruct (assoc a row) as [t|] eqn:Ea; [|reflexivity]. exfalso.
    assert (Hd : wdelta (fl_trans s) u a = Some t) by (unfold wdelta; rewrite Eu; exact Ea).
    assert (Htn : t <> []).
    { intro E. subst t. pose proof (i_in _ _ _ HI _ _ _ Hd (pre_nil u)) as E. destruct u; discriminate. }
    destruct (i_live _ _ _ HI t (i_closed _ _ _ HI _ _ _ Hd) Htn) as [v Hv].
    assert (Hacc : wacc s u (a :: v) = true) by (rewrite wacc_cons, Hd; exact Hv).
    apply (i_lang _ _ _ HI u (pre_refl _)) in Hacc.
    apply (Hfresh [a] _ ltac:(discriminate) (pre_app [a] r) Hacc). exists v. symmetry. apply snoc_app.
  Qed.

  Variable row : wrow.
  Hypothesis Hrow : wassoc u (fl_trans s) = Some row.
  Hypothesis Harow : assoc a row = None.

  Let row' := row ++ [(a, np)].
  Let T0 := wset u row' (fl_trans s).
  Let tr' := T0 ++ chain np r.
  Let bk' := fl_back s ++ bchain u (a :: r).
  Let s' := mkfl tr' bk' (wadd cur (fl_fin s)) (fl_sigs s).

  Lemma add_closed : add_to_trie s cur = s'.
  Proof.
    unfold add_to_trie, cur. rewrite (add_loop_walk s done u HI u [] (a :: r) (pre_refl _)). simpl.
    apply add_loop_branch; [exact Hrow|exact Harow|].
    intros y Hy Hp. split; [apply fresh_tr|apply fresh_bk]; assumption.
  Qed.

  Lemma tr'_old y : key y (fl_trans s) ->
    wassoc y tr' = if word_eqb y u then Some row' else wassoc y (fl_trans s).
  Proof.
    intro Hk. unfold key in Hk. unfold tr', T0. rewrite wassoc_app, wassoc_wset. destruct (word_eqb y u); [reflexivity|].
    destruct (wassoc y (fl_trans s)); [reflexivity|exfalso; apply Hk; reflexivity].
  Qed.

  Lemma tr'_new y1 y2 : r = y1 ++ y2 ->
    wassoc (np ++ y1) tr' = Some (match y2 with [] => [] | b :: _ => [(b, np ++ y1 ++ [b])] end).
  Proof.
    intro E. unfold tr', T0. rewrite wassoc_app, wassoc_wset.
    weq (np ++ y1) u.
    - exfalso. unfold np in E0. rewrite snoc_app in E0. exact (app_neq_self u (a :: y1) ltac:(discriminate) E0).
    - rewrite (fresh_new y1) by (exists y2; exact E). apply chain_lookup. exact E.
  Qed.

  Lemma tr'_key y : key y tr' -> key y (fl_trans s) \/ exists y1, pre y1 r /\ y = np ++ y1.
  Proof.
    unfold key, tr', T0. rewrite wassoc_app, wassoc_wset. weq y u.
    - intros _. left. subst. rewrite Hrow. discriminate.
    - destruct (wassoc y (fl_trans s)); [intros _; left; discriminate|]. intro H. right. apply chain_keys. exact H.
  Qed.

  Lemma key_old_new y : key y (fl_trans s) -> key y tr'.
  Proof.
    intro Hk. unfold key. rewrite (tr'_old y Hk). destruct (word_eqb y u); [discriminate|exact Hk].
  Qed.

  Lemma key_new y1 : pre y1 r -> key (np ++ y1) tr'.
  Proof. intros [y2 E]. unfold key. rewrite (tr'_new y1 y2 E). discriminate. Qed.

  Lemma new_not_old y1 : pre y1 r -> ~ key (np ++ y1) (fl_trans s).
  Proof. intros Hp Hk. apply Hk. apply fresh_new. exact Hp. Qed.

  Lemma delta'_old y b t : wdelta (fl_trans s) y b = Some t -> wdelta tr' y b = Some t.
  Proof.
    intro Hd. pose proof (wdelta_key _ _ _ _ Hd) as Hk. unfold wdelta in *. rewrite (tr'_old y Hk). weq y u.
    - subst. rewrite Hrow in Hd. unfold row'. rewrite assoc_app, Hd. reflexivity.
    - exact Hd.
  Qed.

  Lemma delta'_inv y b t : wdelta tr' y b = Some t ->
    wdelta (fl_trans s) y b = Some t \/ (y = u /\ b = a /\ t = np) \/
    (exists y1 y2, r = y1 ++ b :: y2 /\ y = np ++ y1 /\ t = np ++ y1 ++ [b]).
  Proof.
    intro Hd. destruct (tr'_key y (wdelta_key _ _ _ _ Hd)) as [Hk|[y1 [[y2 E] ->]]].
    - unfold wdelta in *. rewrite (tr'_old y Hk) in Hd. weq y u; [|left; exact Hd].
      subst y. rewrite Hrow. unfold row' in Hd. rewrite assoc_app in Hd. destruct (assoc b row); [left; exact Hd|].
      simpl in Hd. destruct (Nat.eqb b a) eqn:Eb; [|discriminate]. apply Nat.eqb_eq in Eb. inversion Hd.
      right. left. auto.
    - right. right. unfold wdelta in Hd. rewrite (tr'_new y1 y2 E) in Hd. destruct y2 as [|b0 y2]; [discriminate|].
      simpl in Hd. destruct (Nat.eqb b b0) eqn:Eb; [|discriminate]. apply Nat.eqb_eq in Eb. subst b0. inversion Hd.
      exists y1, y2. auto.
  Qed.

  Lemma delta'_u_a : wdelta tr' u a = Some np.
  Proof.
    unfold wdelta. rewrite tr'_old by (unfold key; rewrite Hrow; discriminate). rewrite weqb_refl.
    unfold row'. rewrite assoc_app, Harow. simpl. rewrite Nat.eqb_refl. reflexivity.
  Qed.

  Lemma cur_not_key : ~ key cur (fl_trans s).
  Proof. rewrite cur_np. apply new_not_old. apply pre_refl. Qed.

  Lemma np_longer y y1 : pre y u -> y <> np ++ y1.
  Proof.
    intros Hp E. apply pre_length in Hp. apply (f_equal (@length nat)) in E. unfold np in E.
    rewrite !app_length in E. simpl in E. lia.
  Qed.

  (* states off the old path: nothing changes *)
  Definition offpath (y : word) : Prop := key y (fl_trans s) /\ ~ pre y u.

  Lemma off_step y b : offpath y ->
    wdelta tr' y b = wdelta (fl_trans s) y b /\ forall t, wdelta (fl_trans s) y b = Some t -> offpath t.
  Proof.
    intros [Hk Hn]. split.
    - unfold wdelta. rewrite (tr'_old y Hk). weq y u; [exfalso; apply Hn; subst; apply pre_refl|reflexivity].
    - intros t Hd. split; [apply (i_closed _ _ _ HI _ _ _ Hd)|]. intro Hp.
      pose proof (i_in _ _ _ HI _ _ _ Hd Hp) as E. subst t. apply Hn. eapply pre_snoc_l. exact Hp.
  Qed.

  Lemma off_acc v : forall y, offpath y -> wacc s' y v = wacc s y v.
  Proof.
    induction v as [|b v IH]; intros y Hy.
    - unfold wacc. simpl. rewrite wmem_wadd. weq y cur; [|reflexivity].
      exfalso. apply cur_not_key. rewrite <- E. apply Hy.
    - rewrite !wacc_cons. simpl. destruct (off_step y b Hy) as [E Hoff]. rewrite E.
      destruct (wdelta (fl_trans s) y b) as [t|]; [|reflexivity]. apply IH. apply Hoff. reflexivity.
  Qed.

  (* the fresh chain: from u.a.y1 exactly the rest of the new word is accepted *)
  Lemma chain_acc v : forall y1 y2, r = y1 ++ y2 -> (wacc s' (np ++ y1) v = true <-> v = y2).
  Proof.
    induction v as [|b v IH]; intros y1 y2 E.
    - unfold wacc. simpl. rewrite wmem_wadd.
      assert (Hnf : wmem (np ++ y1) (fl_fin s) = false).
      { apply wmem_false. intro Hin. apply (new_not_old y1); [exists y2; exact E|]. apply (i_fin _ _ _ HI). exact Hin. }
      rewrite Hnf, orb_false_r, word_eqb_spec, cur_np, E. split.
      + intro H. apply app_inv_head in H. rewrite <- (app_nil_r y1) in H at 1. apply app_inv_head in H. congruence.
      + intros <-. rewrite app_nil_r. reflexivity.
    - rewrite wacc_cons. simpl. unfold wdelta. rewrite (tr'_new y1 y2 E). destruct y2 as [|b0 y2]; simpl.
      + split; discriminate.
      + destruct (Nat.eqb b b0) eqn:Eb.
        * apply Nat.eqb_eq in Eb. subst b0. rewrite (IH (y1 ++ [b]) y2).
          -- split; [intros ->; reflexivity|intro H; inversion H; reflexivity].
          -- rewrite snoc_app. exact E.
        * apply Nat.eqb_neq in Eb. split; [discriminate|]. intro H. inversion H. contradiction.
  Qed.

  (* the old path: what was accepted, plus the new word *)
  Lemma path_acc v : forall y, pre y u -> (wacc s' y v = true <-> wacc s y v = true \/ y ++ v = cur).
  Proof.
    induction v as [|b v IH]; intros y Hy.
    - unfold wacc. simpl. rewrite wmem_wadd, app_nil_r. weq y cur.
      + exfalso. rewrite cur_np in E. exact (np_longer y r Hy E).
      + simpl. split; [auto|intros [H|H]; [exact H|contradiction]].
    - rewrite !wacc_cons. simpl.
      destruct (prefixb (y ++ [b]) cur) eqn:Epb.
      + apply prefixb_spec in Epb. destruct (pre_app_split _ _ _ Epb) as [Hp|[z1 [Hne [Hz Ez]]]].
        * pose proof (i_link _ _ _ HI y b Hp) as Hl. rewrite (delta'_old _ _ _ Hl), Hl.
          rewrite (IH (y ++ [b]) Hp). rewrite snoc_app. reflexivity.
        * assert (y = u).
          { apply pre_antisym; [exact Hy|]. apply (f_equal (@length nat)) in Ez. rewrite !app_length in Ez. simpl in Ez.
            destruct z1; [contradiction|]. simpl in Ez. pose proof (pre_length _ _ Hy). lia. }
          subst y. apply app_inv_head in Ez. subst z1. destruct Hz as [t Ht]. simpl in Ht. inversion Ht; subst b t.
          rewrite delta'_u_a. unfold wdelta. rewrite Hrow, Harow.
          rewrite <- (app_nil_r np). rewrite (chain_acc v [] r eq_refl). unfold cur. split.
          -- intros ->. right. reflexivity.
          -- intros [H|H]; [discriminate|]. apply app_inv_head in H. inversion H. reflexivity.
      + assert (Hnp : ~ pre (y ++ [b]) cur).
        { intro H. apply prefixb_spec in H. congruence. }
        assert (Hneq : y ++ b :: v <> cur).
        { intro H. apply Hnp. exists v. rewrite snoc_app. symmetry. exact H. }
        destruct (wdelta (fl_trans s) y b) as [t|] eqn:Ed.
        * rewrite (delta'_old _ _ _ Ed). rewrite off_acc.
          -- split; [auto|intros [H|H]; [exact H|contradiction]].
          -- split; [apply (i_closed _ _ _ HI _ _ _ Ed)|]. intro Hp.
             pose proof (i_in _ _ _ HI _ _ _ Ed Hp) as E. subst t. apply Hnp.
             eapply pre_trans; [exact Hp|]. apply pre_app.
        * destruct (wdelta tr' y b) as [t'|] eqn:Ed'.
          -- exfalso. destruct (delta'_inv _ _ _ Ed') as [H|[[-> [-> _]]|[y1 [y2 [_ [E _]]]]]].
             ++ congruence.
             ++ apply Hnp. exists r. unfold cur. symmetry. apply snoc_app.
             ++ exact (np_longer y y1 Hy E).
          -- split; [discriminate|intros [H|H]; [discriminate|contradiction]].
  Qed.

  Lemma new_prefix_cases x : pre x cur -> pre x u \/ exists y1, pre y1 r /\ x = np ++ y1.
  Proof.
    intro Hp. destruct (pre_app_split _ _ _ Hp) as [H|[z1 [Hne [[t Ht] ->]]]]; [left; exact H|right].
    destruct z1 as [|c z1]; [contradiction|]. simpl in Ht. inversion Ht; subst c.
    exists z1. split; [exists t; reflexivity|]. unfold np. symmetry. apply snoc_app.
  Qed.

  Lemma chain_keys_NoDup : forall r0 p, NoDup (map fst (chain p r0)).
  Proof.
    induction r0 as [|c r0 IH]; intro p; simpl; [constructor; [intros []|constructor]|].
    constructor; [|apply IH]. intro Hin. apply wassoc_key in Hin. apply chain_keys in Hin.
    destruct Hin as [y1 [_ E]]. rewrite snoc_app in E. symmetry in E.
    exact (app_neq_self p (c :: y1) ltac:(discriminate) E).
  Qed.

  Lemma add_inv : Inv s' (cur :: done) cur.
  Proof.
    assert (Hku : key u (fl_trans s)) by (unfold key; rewrite Hrow; discriminate).
    constructor; simpl.
    - (* i_nodup *)
      unfold tr'. rewrite map_app. apply NoDup_app_disj_w.
      + unfold T0. apply wset_NoDup. apply (i_nodup _ _ _ HI).
      + apply chain_keys_NoDup.
      + intros y Hy Hin. apply wassoc_key in Hy. apply chain_keys in Hy. destruct Hy as [y1 [Hp ->]].
        unfold T0 in Hin. rewrite wset_keys_present in Hin by (apply wassoc_key; exact Hku).
        apply wassoc_key in Hin. exact (new_not_old y1 Hp Hin).
    - (* i_rows *)
      intros q rw Hq. assert (Hk : key q tr') by (unfold key; rewrite Hq; discriminate).
      destruct (tr'_key q Hk) as [Hko|[y1 [[y2 E] ->]]].
      + rewrite (tr'_old q Hko) in Hq. weq q u.
        * inversion Hq. unfold row'. rewrite map_app. simpl. apply NoDup_snoc; [apply (i_rows _ _ _ HI _ _ Hrow)|].
          apply assoc_None. exact Harow.
        * apply (i_rows _ _ _ HI _ _ Hq).
      + rewrite (tr'_new y1 y2 E) in Hq. inversion Hq. destruct y2; simpl; [constructor|constructor; [intros []|constructor]].
    - (* i_path *)
      intros x Hx. destruct (new_prefix_cases x Hx) as [Hp|[y1 [Hp ->]]].
      + apply key_old_new. apply (i_path _ _ _ HI). exact Hp.
      + apply key_new. exact Hp.
    - (* i_link *)
      intros x b Hx. destruct (new_prefix_cases _ Hx) as [Hp|[y1 [Hp E]]].
      + apply delta'_old. apply (i_link _ _ _ HI). exact Hp.
      + destruct (snoc_cases y1) as [->|[y1' [c ->]]].
        * rewrite app_nil_r in E. unfold np in E. apply app_inj_tail in E. destruct E as [-> ->]. apply delta'_u_a.
        * rewrite app_assoc in E. apply app_inj_tail in E. destruct E as [-> ->].
          destruct Hp as [y2 Hr]. rewrite snoc_app in Hr. unfold wdelta. rewrite (tr'_new y1' (c :: y2) Hr).
          simpl. rewrite Nat.eqb_refl. rewrite app_assoc. reflexivity.
    - (* i_in *)
      intros q b t Hd Ht. destruct (delta'_inv _ _ _ Hd) as [Ho|[[-> [-> ->]]|[y1 [y2 [_ [-> ->]]]]]].
      + destruct (new_prefix_cases t Ht) as [Hp|[y1 [Hp ->]]].
        * apply (i_in _ _ _ HI _ _ _ Ho Hp).
        * exfalso. exact (new_not_old y1 Hp (i_closed _ _ _ HI _ _ _ Ho)).
      + reflexivity.
      + rewrite app_assoc. reflexivity.
    - (* i_lang *)
      intros x Hx v. destruct (new_prefix_cases x Hx) as [Hp|[y1 [[y2 E] ->]]].
      + rewrite (path_acc v x Hp). rewrite (i_lang _ _ _ HI x Hp v). split; intros [H|H]; auto.
      + rewrite (chain_acc v y1 y2 E). split.
        * intros ->. left. rewrite cur_np, E, app_assoc. reflexivity.
        * intros [H|H].
          -- rewrite cur_np, E, <- app_assoc in H. apply app_inv_head in H. apply app_inv_head in H. congruence.
          -- exfalso. apply (Hfresh [a] _ ltac:(discriminate) (pre_app [a] r) H). exists (y1 ++ v).
             unfold np. rewrite <- !app_assoc. reflexivity.
    - (* i_sigs *)
      intros sg q Hin. destruct (i_sigs _ _ _ HI _ _ Hin) as (H1 & H2 & H3).
      assert (Hkq : key q (fl_trans s)).
      { unfold compute_signature in H2. unfold key. destruct (wassoc q (fl_trans s)); [discriminate|discriminate]. }
      split; [|split].
      + intro Hp. destruct (new_prefix_cases q Hp) as [Hp'|[y1 [Hp' ->]]]; [contradiction|].
        exact (new_not_old y1 Hp' Hkq).
      + unfold compute_signature in *. simpl. rewrite (tr'_old q Hkq).
        weq q u; [exfalso; apply H1; subst; apply pre_refl|]. rewrite wmem_wadd.
        weq q cur; [exfalso; apply cur_not_key; subst; exact Hkq|]. exact H2.
      + unfold bkey, bk' in *. rewrite wassoc_app. destruct (wassoc q (fl_back s)); [discriminate|contradiction].
    - (* i_back *)
      intros x b Hx. unfold bk'. rewrite wassoc_app. destruct (new_prefix_cases _ Hx) as [Hp|[y1 [[y2 Hr] E]]].
      + rewrite (i_back _ _ _ HI x b Hp). reflexivity.
      + unfold np in E. rewrite snoc_app in E.
        destruct (snoc_cases (a :: y1)) as [Hnil|[z1 [c Ez]]]; [discriminate|].
        rewrite Ez in E. rewrite app_assoc in E. apply app_inj_tail in E. destruct E as [-> ->].
        rewrite <- app_assoc. rewrite fresh_bk.
        * apply (bchain_lookup (a :: r) u z1 c y2). rewrite <- snoc_app, <- Ez. simpl. rewrite Hr. reflexivity.
        * intro H. destruct z1; discriminate.
        * exists y2. rewrite <- Ez. simpl. rewrite Hr. reflexivity.
    - (* i_closed *)
      intros q b t Hd. destruct (delta'_inv _ _ _ Hd) as [Ho|[[-> [-> ->]]|[y1 [y2 [Hr [-> ->]]]]]].
      + apply key_old_new. apply (i_closed _ _ _ HI _ _ _ Ho).
      + rewrite <- (app_nil_r np). apply key_new. apply pre_nil.
      + apply key_new. exists y2. rewrite snoc_app. exact Hr.
    - (* i_fin *)
      intros q Hq. apply wadd_In in Hq. destruct Hq as [->|Hq].
      + rewrite cur_np. apply key_new. apply pre_refl.
      + apply key_old_new. apply (i_fin _ _ _ HI). exact Hq.
    - apply wadd_NoDup. apply (i_findup _ _ _ HI).
    - (* i_names *)
      intros q Hq. unfold bkey, bk' in Hq. rewrite wassoc_app in Hq.
      destruct (wassoc q (fl_back s)) eqn:Eq.
      + destruct (i_names _ _ _ HI q) as [H|[w [Hw Hp]]]; [unfold bkey; rewrite Eq; discriminate|left; exact H|].
        right. exists w. split; [right; exact Hw|exact Hp].
      + apply bchain_keys in Hq. destruct Hq as [y1 [_ [Hp ->]]]. right. exists cur. split; [left; reflexivity|].
        unfold cur. apply pre_cancel. exact Hp.
    - (* i_keys *)
      intros q Hq. unfold bkey, bk'. rewrite wassoc_app. destruct (tr'_key q Hq) as [Hko|[y1 [[y2 Hr] ->]]].
      + pose proof (i_keys _ _ _ HI q Hko) as Hb. unfold bkey in Hb. destruct (wassoc q (fl_back s)); [discriminate|contradiction].
      + destruct (wassoc (np ++ y1) (fl_back s)); [discriminate|].
        unfold np. rewrite snoc_app. destruct (snoc_cases (a :: y1)) as [Hnil|[z1 [c Ez]]]; [discriminate|].
        rewrite Ez. rewrite (bchain_lookup (a :: r) u z1 c y2); [discriminate|].
        rewrite <- snoc_app, <- Ez. simpl. rewrite Hr. reflexivity.
    - (* i_syms *)
      intros q b t Hd. destruct (delta'_inv _ _ _ Hd) as [Ho|[[-> [-> ->]]|[y1 [y2 [Hr _]]]]].
      + destruct (i_syms _ _ _ HI _ _ _ Ho) as [w [Hw Hb]]. exists w. split; [right; exact Hw|exact Hb].
      + exists cur. split; [left; reflexivity|]. unfold cur. apply in_or_app. right. left. reflexivity.
      + exists cur. split; [left; reflexivity|]. unfold cur. apply in_or_app. right. right. rewrite Hr.
        apply in_or_app. right. left. reflexivity.
    - (* i_live *)
      intros q Hq Hqn. destruct (tr'_key q Hq) as [Hko|[y1 [[y2 Hr] ->]]].
      + destruct (i_live _ _ _ HI q Hko Hqn) as [v Hv]. exists v. destruct (prefixb q u) eqn:Ep.
        * apply prefixb_spec in Ep. apply (path_acc v q Ep). left. exact Hv.
        * rewrite off_acc; [exact Hv|]. split; [exact Hko|]. intro H. apply prefixb_spec in H. congruence.
      + exists y2. apply (chain_acc y2 y1 y2 Hr). reflexivity.
  Qed.

  Lemma run'_old x0 : forall y t, wrun (fl_trans s) (Some y) x0 = Some t -> wrun tr' (Some y) x0 = Some t.
  Proof.
    induction x0 as [|b x0 IH]; intros y t H; simpl in *; [exact H|].
    destruct (wdelta (fl_trans s) y b) as [t0|] eqn:Ed; [|rewrite wrun_None in H; discriminate].
    rewrite (delta'_old _ _ _ Ed). apply IH. exact H.
  Qed.

  Lemma u_pre_cur : pre u cur.
  Proof. apply pre_app. Qed.

  Lemma add_inv_M : InvM s u -> InvM s' cur.
  Proof.
    intro HM.
    assert (Hoff : forall y, registered s y -> offpath y).
    { intros y [sg Hin]. destruct (i_sigs _ _ _ HI _ _ Hin) as (H1 & H2 & _). split; [|exact H1].
      unfold compute_signature in H2. unfold key. destruct (wassoc y (fl_trans s)); discriminate. }
    constructor; simpl.
    - intros y Hk Hn. change (registered s y). destruct (tr'_key y Hk) as [Hko|[y1 [Hp ->]]].
      + apply (m_reg _ _ HM y Hko). intro Hp. apply Hn. eapply pre_trans; [exact Hp|apply u_pre_cur].
      + exfalso. apply Hn. rewrite cur_np. apply pre_cancel. exact Hp.
    - exact (m_uniq _ _ HM).
    - intros y y' Hy Hy' Hne. change (registered s y) in Hy. change (registered s y') in Hy'.
      destruct (m_dist _ _ HM y y' Hy Hy' Hne) as [w Hw]. exists w.
      rewrite (off_acc w y (Hoff y Hy)), (off_acc w y' (Hoff y' Hy')). exact Hw.
    - intros y Hk. destruct (tr'_key y Hk) as [Hko|[y1 [Hp ->]]].
      + destruct (m_acc _ _ HM y Hko) as [x0 Hx]. exists x0. apply run'_old. exact Hx.
      + exists (np ++ y1). apply (path_run s' (cur :: done) cur add_inv). rewrite cur_np. apply pre_cancel. exact Hp.
  Qed.
End Add.
