(* C04 (continuation): expression trees whose leaves have the same SET of input symbols (what the library checks:
   `self.input_symbols != other.input_symbols` compares frozensets), not necessarily the same list. *)
From Coq Require Import List Arith Bool Lia.
From AV Require Import Base.Util Spec.Lang Spec.FA Model.Decide Model.Product Model.Build Model.DFAOps
     Proofs.Decide Proofs.DFAOps Proofs.DFAOps2.
Import ListNotations.

Definition set_eq (l S : list nat) : Prop := forall a, In a l <-> In a S.

Lemma over_set_eq l S w : set_eq l S -> (over l w <-> over S w).
Proof. intro H. unfold over. rewrite !Forall_forall. split; intros Hw a Ha; apply H; apply Hw; exact Ha. Qed.

Lemma same_syms_set_eq A B S : set_eq (d_syms A) S -> set_eq (d_syms B) S -> same_syms A B = true.
Proof.
  intros HA HB. unfold same_syms. apply andb_true_iff. rewrite !subsetb_incl. unfold incl.
  split; intros a Ha; [apply HB; apply HA; exact Ha|apply HA; apply HB; exact Ha].
Qed.

Lemma same_syms_is_set_eq A B : same_syms A B = true <-> set_eq (d_syms A) (d_syms B).
Proof.
  unfold same_syms, set_eq. rewrite andb_true_iff, !subsetb_incl. unfold incl. split.
  - intros [H1 H2] a. split; auto.
  - intro H. split; intro a; apply H.
Qed.

Fixpoint leaves_oks (S : list nat) (e : dexpr) : Prop :=
  match e with
  | DLeaf m => valid_dfa m = true /\ set_eq (d_syms m) S
  | DBin _ a b => leaves_oks S a /\ leaves_oks S b
  | DCompl a => leaves_oks S a
  end.

Lemma leaves_okc_oks S e : leaves_okc S e -> leaves_oks S e.
Proof.
  induction e as [m|o a IHa b IHb|a IHa]; simpl.
  - intros [Hv Hs]. split; [exact Hv|]. rewrite Hs. intro a. tauto.
  - intros [Ha Hb]. split; auto.
  - exact IHa.
Qed.

Theorem dexprs_spec S e : leaves_oks S e ->
  exists R, deval e = Ok R /\ valid_dfa R = true /\ set_eq (d_syms R) S /\
            (forall w, over S w -> dfa_acc R w = dsem e w) /\
            (forall w, ~ over S w -> dfa_acc R w = false).
Proof.
  assert (Hrej : forall R, valid_dfa R = true -> set_eq (d_syms R) S -> forall w, ~ over S w -> dfa_acc R w = false).
  { intros R V Sy w Hw. apply not_over_rejects; [exact V|]. intro Ho. apply Hw. apply (over_set_eq _ _ w Sy). exact Ho. }
  induction e as [m|o a IHa b IHb|a IHa]; simpl.
  - intros [Hv Hs]. exists m. split; [reflexivity|]. split; [exact Hv|]. split; [exact Hs|]. split; [reflexivity|].
    apply Hrej; assumption.
  - intros [Ha Hb]. destruct (IHa Ha) as [Ra [Ea [Va [Sa [La _]]]]]. destruct (IHb Hb) as [Rb [Eb [Vb [Sb [Lb _]]]]].
    rewrite Ea, Eb. simpl.
    destruct (binop_spec Ra Rb o Va Vb (same_syms_set_eq Ra Rb S Sa Sb)) as [R [E [V [Sy L]]]].
    exists R. split; [exact E|]. split; [exact V|].
    assert (Sy' : set_eq (d_syms R) S) by (rewrite Sy; exact Sa). split; [exact Sy'|]. split.
    + intros w Hw. rewrite L, (La w Hw), (Lb w Hw). reflexivity.
    + apply Hrej; assumption.
  - intro Ha. destruct (IHa Ha) as [Ra [Ea [Va [Sa [La _]]]]]. rewrite Ea. simpl.
    destruct (complement_spec Ra Va) as (V & Sy & L1 & _). exists (complement_m Ra). split; [reflexivity|].
    split; [exact V|]. assert (Sy' : set_eq (d_syms (complement_m Ra)) S) by (rewrite Sy; exact Sa).
    split; [exact Sy'|]. split.
    + intros w Hw. rewrite L1 by (apply (over_set_eq _ _ w Sa); exact Hw). rewrite (La w Hw). reflexivity.
    + apply Hrej; assumption.
Qed.
