(* Lemmas for C05, concrete half: state selection, the kept system with its implicit
   trap, the quotient automaton - language, validity, structure. *)
From Coq Require Import List Arith Bool Lia.
From AV Require Import Base.Util Base.Closure Spec.Lang Spec.FA Spec.Minimal
                       Model.Decide Model.Minimize Proofs.FARun Proofs.Moore.
Import ListNotations.

(* ---------- small list facts ---------- *)
Lemma ssorted_NoDup l : ssorted l -> NoDup l.
Proof.
  induction l as [|x l IH]; intro H; [constructor|].
  constructor; [|apply IH; eapply ssorted_tail; exact H].
  intro Hin. pose proof (ssorted_lt _ _ H _ Hin). lia.
Qed.

Lemma assoc_map_key {B} (h : nat -> B) l r : In r l -> assoc r (map (fun x => (x, h x)) l) = Some (h r).
Proof.
  induction l as [|x l IH]; simpl; [tauto|]. intro H.
  destruct (Nat.eqb r x) eqn:E; [apply Nat.eqb_eq in E; subst; reflexivity|].
  destruct H as [H|H]; [subst; rewrite Nat.eqb_refl in E; discriminate|apply IH; exact H].
Qed.

Lemma filter_len_le {A} (f : A -> bool) l : length (filter f l) <= length l.
Proof. induction l as [|x l IH]; simpl; [lia|]. destruct (f x); simpl; lia. Qed.

Lemma Forall2_map_self {A B} (f : A -> B) (P : B -> A -> Prop) l :
  (forall x, In x l -> P (f x) x) -> Forall2 P (map f l) l.
Proof.
  induction l as [|x l IH]; intro H; simpl; constructor.
  - apply H. left. reflexivity.
  - apply IH. intros y Hy. apply H. right. exact Hy.
Qed.

Definition opt_row (h : nat -> option nat) (l : list nat) : list (nat * nat) :=
  flat_map (fun a => match h a with Some v => [(a, v)] | None => [] end) l.

Lemma opt_row_In h l a v : In (a, v) (opt_row h l) <-> In a l /\ h a = Some v.
Proof.
  unfold opt_row. rewrite in_flat_map. split.
  - intros [b [Hb Hin]]. destruct (h b) eqn:E; simpl in Hin; [|tauto].
    destruct Hin as [Hin|[]]. inversion Hin; subst. split; assumption.
  - intros [Ha Hh]. exists a. split; [exact Ha|]. rewrite Hh. left. reflexivity.
Qed.

Lemma opt_row_keys h l a : In a (map fst (opt_row h l)) -> In a l.
Proof.
  intro H. apply in_map_iff in H. destruct H as [[b v] [E Hin]]. simpl in E. subst b.
  apply opt_row_In in Hin. tauto.
Qed.

Lemma opt_row_NoDup h l : NoDup l -> NoDup (map fst (opt_row h l)).
Proof.
  induction l as [|a l IH]; intro Hn; simpl; [constructor|].
  inversion Hn; subst. destruct (h a) eqn:E; simpl; [|apply IH; assumption].
  constructor; [|apply IH; assumption]. intro Hin. apply opt_row_keys in Hin. contradiction.
Qed.

Lemma opt_row_assoc h l a : NoDup l -> assoc a (opt_row h l) = if memb a l then h a else None.
Proof.
  intro Hn. destruct (assoc a (opt_row h l)) as [v|] eqn:E.
  - apply assoc_In in E. apply opt_row_In in E. destruct E as [Ha Hh].
    apply memb_In in Ha. rewrite Ha. symmetry. exact Hh.
  - destruct (memb a l) eqn:Em; [|reflexivity]. apply memb_In in Em.
    destruct (h a) as [v|] eqn:Eh; [|reflexivity]. exfalso.
    assert (Hin : In (a, v) (opt_row h l)) by (apply opt_row_In; split; assumption).
    apply assoc_None in E. apply E. apply in_map_iff. exists (a, v). split; [reflexivity|exact Hin].
Qed.

Lemma opt_row_length h l : length (opt_row h l) <= length l.
Proof.
  induction l as [|a l IH]; simpl; [lia|]. destruct (h a); simpl; lia.
Qed.

Lemma opt_row_full h l : length (opt_row h l) = length l -> forall a, In a l -> h a <> None.
Proof.
  induction l as [|b l IH]; simpl; [tauto|]. intros Hl a [Ha|Ha].
  - subst. destruct (h a); [discriminate|]. simpl in Hl. pose proof (opt_row_length h l). unfold opt_row in *. lia.
  - apply IH; [|exact Ha]. destruct (h b); simpl in Hl; [unfold opt_row in *; lia|].
    pose proof (opt_row_length h l). unfold opt_row in *. lia.
Qed.

Lemma opt_row_full_conv h l : (forall a, In a l -> h a <> None) -> length (opt_row h l) = length l.
Proof.
  induction l as [|b l IH]; simpl; [reflexivity|]. intro H.
  destruct (h b) eqn:E; [|exfalso; apply (H b); [left; reflexivity|exact E]].
  simpl. f_equal. apply IH. intros a Ha. apply H. right. exact Ha.
Qed.

(* ---------- state selection ---------- *)
Section Selection.
  Variable m : dfa.
  Hypothesis Hv : valid_dfa m = true.

  Definition edge (p q : nat) : Prop := exists a, d_delta m p a = Some q.

  Lemma row_keys_NoDup q row : d_row m q = Some row -> NoDup (map fst row).
  Proof.
    intro H. pose proof (row_props m Hv _ _ H) as E. unfold row_ok in E.
    repeat rewrite andb_true_iff in E. destruct E as [[E _] _]. apply nodupb_NoDup. exact E.
  Qed.

  Lemma succs_edge p q : In q (succs m p) <-> edge p q.
  Proof.
    unfold succs, edge, d_delta. destruct (d_row m p) as [row|] eqn:E.
    - split.
      + intro H. apply in_map_iff in H. destruct H as [[a t] [Et Hin]]. simpl in Et. subst t.
        exists a. apply assoc_NoDup; [eapply row_keys_NoDup; exact E|exact Hin].
      + intros [a Ha]. apply assoc_In in Ha. apply in_map_iff. exists (a, q). split; [reflexivity|exact Ha].
    - split; [intros []|intros [a Ha]; discriminate].
  Qed.

  Lemma preds_succs p q : In p (preds m q) <-> In q (succs m p).
  Proof.
    destruct (valid_dfa_parts m Hv) as (_ & _ & Hk & _).
    unfold preds, succs, d_row. rewrite in_map_iff. split.
    - intros [[p' row] [E Hin]]. simpl in E. subst p'. apply filter_In in Hin. destruct Hin as [Hin Hm].
      simpl in Hm. apply memb_In in Hm. rewrite (assoc_NoDup _ _ _ Hk Hin). exact Hm.
    - destruct (assoc p (d_trans m)) as [row|] eqn:E; [|intros []]. intro H.
      exists (p, row). split; [reflexivity|]. apply filter_In. split; [apply assoc_In; exact E|].
      simpl. apply memb_In. exact H.
  Qed.

  Lemma preds_edge p q : In p (preds m q) <-> edge p q.
  Proof. rewrite preds_succs. apply succs_edge. Qed.

  Lemma edge_states p q : edge p q -> In q (d_states m).
  Proof. intros [a Ha]. apply (delta_in_states m Hv) in Ha. tauto. Qed.

  Definition reachable (q : nat) : Prop := reach (succs m) [d_init m] q.
  Definition coaccessible (q : nat) : Prop := reach (preds m) (d_finals m) q.

  Lemma reachable_states q : reachable q -> In q (d_states m).
  Proof.
    intro H. induction H as [x Hx|x y Hr IH Hy].
    - destruct Hx as [<-|[]]. apply (init_ok m Hv).
    - apply succs_edge in Hy. eapply edge_states. exact Hy.
  Qed.

  Lemma reach_states_ok : exists R, reach_states m = Ok R /\ forall q, In q R <-> reachable q.
  Proof.
    unfold reach_states.
    destruct (closure Nat.eqb (succs m) (S (length (d_states m))) [d_init m]) as [R|] eqn:E.
    - exists R. split; [reflexivity|]. intro q. split.
      + apply (closure_sound _ _ eqb_nat_ok _ _ _ _ E).
      + apply (closure_complete _ _ eqb_nat_ok _ _ _ _ E).
    - exfalso. revert E. apply (closure_fuel _ _ eqb_nat_ok _ (d_states m)).
      + intros x y _ Hy. apply succs_edge in Hy. eapply edge_states. exact Hy.
      + intros x [<-|[]]. apply (init_ok m Hv).
      + lia.
  Qed.

  Lemma coacc_states_ok : exists C, coacc_states m = Ok C /\ forall q, In q C <-> coaccessible q.
  Proof.
    destruct (valid_dfa_parts m Hv) as (_ & _ & Hk & Hrow & _ & _ & Hf).
    unfold coacc_states.
    destruct (closure Nat.eqb (preds m) (S (length (d_trans m))) (d_finals m)) as [C|] eqn:E.
    - exists C. split; [reflexivity|]. intro q. split.
      + apply (closure_sound _ _ eqb_nat_ok _ _ _ _ E).
      + apply (closure_complete _ _ eqb_nat_ok _ _ _ _ E).
    - exfalso. revert E. apply (closure_fuel _ _ eqb_nat_ok _ (map fst (d_trans m))).
      + intros x y _ Hy. unfold preds in Hy. apply in_map_iff in Hy. destruct Hy as [r [<- Hr]].
        apply filter_In in Hr. apply in_map. tauto.
      + intros x Hx. apply Hrow. apply Hf. exact Hx.
      + rewrite map_length. lia.
  Qed.

  (* a state from which some word is accepted is co-accessible *)
  Lemma accepting_coacc w : forall q, dfa_acc_from m (Some q) w = true -> coaccessible q.
  Proof.
    induction w as [|a w IH]; intros q H; unfold dfa_acc_from in H; simpl in H.
    - apply reach_init. apply memb_In. exact H.
    - destruct (d_delta m q a) as [t|] eqn:E.
      + eapply reach_step; [apply IH; exact H|]. apply preds_edge. exists a. exact E.
      + rewrite dfa_run_None in H. discriminate.
  Qed.

  Lemma coacc_back p q : edge p q -> coaccessible q -> coaccessible p.
  Proof. intros He Hq. eapply reach_step; [exact Hq|]. apply preds_edge. exact He. Qed.

  (* ---- the kept system ---- *)
  Notation krun K := (xrun (option nat) (kstep m K)).

  Lemma krun_None K w : krun K None w = None.
  Proof. induction w as [|a w IH]; simpl; [reflexivity|exact IH]. Qed.

  Record goodK (K : list nat) : Prop := {
    gk_sorted : ssorted K;
    gk_init : In (d_init m) K;
    gk_states : incl K (d_states m);
    gk_exit : forall q a t, In q K -> d_delta m q a = Some t -> ~ In t K ->
                            forall w, dfa_acc_from m (Some t) w = false;
    gk_access : forall q, In q K -> exists u, krun K (Some (d_init m)) u = Some q
  }.

  Lemma kstep_edge K x a t : In t K -> d_delta m x a = Some t -> kstep m K (Some x) a = Some t.
  Proof. intros Ht E. simpl. rewrite E. apply memb_In in Ht. rewrite Ht. reflexivity. Qed.

  Lemma access_snoc K u x a t : krun K (Some (d_init m)) u = Some x -> In t K -> d_delta m x a = Some t ->
    krun K (Some (d_init m)) (u ++ [a]) = Some t.
  Proof. intros Hu Ht E. rewrite xrun_app, Hu. simpl. rewrite E. apply memb_In in Ht. rewrite Ht. reflexivity. Qed.

  Lemma kept_live_good : exists K, kept_live m = Ok K /\ goodK K /\
    forall q, In q K <-> q = d_init m \/ (reachable q /\ coaccessible q).
  Proof.
    destruct reach_states_ok as [R [ER HR]]. destruct coacc_states_ok as [C [EC HC]].
    unfold kept_live. rewrite ER, EC. simpl.
    set (K := set_of (d_init m :: filter (fun q => memb q C) R)).
    assert (HK : forall q, In q K <-> q = d_init m \/ (reachable q /\ coaccessible q)).
    { intro q. unfold K. rewrite set_of_In. simpl. rewrite filter_In, memb_In, HR, HC.
      split; [intros [H|H]; [left; symmetry; exact H|right; exact H]|intros [H|H]; [left; symmetry; exact H|right; exact H]]. }
    assert (Hinit_reach : reachable (d_init m)) by (apply reach_init; left; reflexivity).
    assert (HKreach : forall q, In q K -> reachable q).
    { intros q Hq. apply HK in Hq. destruct Hq as [->|[Hq _]]; assumption. }
    exists K. split; [reflexivity|]. split; [|exact HK]. constructor.
    - apply set_of_sorted.
    - apply HK. left. reflexivity.
    - intros q Hq. apply reachable_states. apply HKreach. exact Hq.
    - intros q a t Hq E Ht w. destruct (dfa_acc_from m (Some t) w) eqn:Ea; [exfalso|reflexivity].
      apply Ht. apply HK. right. split.
      + eapply reach_step; [apply HKreach; exact Hq|]. apply succs_edge. exists a. exact E.
      + eapply accepting_coacc. exact Ea.
    - assert (Hacc : forall q, reachable q -> coaccessible q -> exists u, krun K (Some (d_init m)) u = Some q).
      { intros q Hr. induction Hr as [x Hx|x y Hr IH Hy]; intro Hc.
        - destruct Hx as [<-|[]]. exists []. reflexivity.
        - apply succs_edge in Hy. destruct (IH (coacc_back _ _ Hy Hc)) as [u Hu].
          destruct Hy as [a Ea]. exists (u ++ [a]). eapply access_snoc; [exact Hu| |exact Ea].
          apply HK. right. split; [|exact Hc]. eapply reach_step; [exact Hr|]. apply succs_edge. exists a. exact Ea. }
      intros q Hq. apply HK in Hq. destruct Hq as [->|[Hr Hc]]; [exists []; reflexivity|apply Hacc; assumption].
  Qed.

  Lemma kept_reach_good : exists K, bind (reach_states m) (fun R => Ok (set_of R)) = Ok K /\ goodK K /\
    forall q, In q K <-> reachable q.
  Proof.
    destruct reach_states_ok as [R [ER HR]]. rewrite ER. simpl.
    assert (HK : forall q, In q (set_of R) <-> reachable q) by (intro q; rewrite set_of_In; apply HR).
    exists (set_of R). split; [reflexivity|]. split; [|exact HK]. constructor.
    - apply set_of_sorted.
    - apply HK. apply reach_init. left. reflexivity.
    - intros q Hq. apply reachable_states. apply HK. exact Hq.
    - intros q a t Hq E Ht w. exfalso. apply Ht. apply HK.
      eapply reach_step; [apply HK; exact Hq|]. apply succs_edge. exists a. exact E.
    - intros q Hq. apply HK in Hq. induction Hq as [x Hx|x y Hr IH Hy].
      + destruct Hx as [<-|[]]. exists []. reflexivity.
      + destruct IH as [u Hu]. apply succs_edge in Hy. destruct Hy as [a Ea].
        exists (u ++ [a]). eapply access_snoc; [exact Hu| |exact Ea].
        apply HK. eapply reach_step; [exact Hr|]. apply succs_edge. exists a. exact Ea.
  Qed.

  Lemma kept_minify_good : exists K, kept_minify m = Ok K /\ goodK K.
  Proof.
    unfold kept_minify. destruct (d_partial m).
    - destruct kept_live_good as [K [E [H _]]]. exists K. split; assumption.
    - destruct kept_reach_good as [K [E [H _]]]. exists K. split; assumption.
  Qed.

  (* the kept system with its trap accepts exactly what the automaton accepts *)
  Lemma kacc K : goodK K -> forall w q, In q K ->
    ofinal m (krun K (Some q) w) = dfa_acc_from m (Some q) w.
  Proof.
    intros HK w. induction w as [|a w IH]; intros q Hq; [reflexivity|].
    unfold dfa_acc_from. simpl. destruct (d_delta m q a) as [t|] eqn:E.
    - destruct (memb t K) eqn:Em.
      + apply memb_In in Em. apply IH. exact Em.
      + apply memb_false in Em. rewrite krun_None. simpl. symmetry.
        apply (gk_exit K HK q a t Hq E Em w).
    - rewrite krun_None, dfa_run_None. reflexivity.
  Qed.

  Lemma kQ_In K x : In x (kQ K) <-> match x with Some q => In q K | None => True end.
  Proof.
    unfold kQ. rewrite in_app_iff, in_map_iff. destruct x as [q|]; split.
    - intros [[y [E Hy]]|[H|[]]]; [inversion E; subst; exact Hy|discriminate].
    - intro H. left. exists q. split; [reflexivity|exact H].
    - trivial.
    - intros _. right. left. reflexivity.
  Qed.

  Lemma kQ_closed K x a : In x (kQ K) -> In (kstep m K x a) (kQ K).
  Proof.
    intros _. apply kQ_In. destruct x as [q|]; simpl; [|trivial].
    destruct (d_delta m q a) as [t|]; [|trivial]. destruct (memb t K) eqn:E; [apply memb_In; exact E|trivial].
  Qed.

  Lemma kstep_foreign K x y a : ~ In a (d_syms m) -> kstep m K x a = kstep m K y a.
  Proof.
    intro Ha.
    assert (H : forall z, kstep m K z a = None).
    { intros [q|]; simpl; [|reflexivity]. destruct (d_delta m q a) as [t|] eqn:E; [|reflexivity].
      apply (delta_in_states m Hv) in E. tauto. }
    rewrite (H x), (H y). reflexivity.
  Qed.
End Selection.

Lemma forallb_false_ex {A} (f : A -> bool) l : forallb f l = false -> exists x, In x l /\ f x = false.
Proof.
  induction l as [|x l IH]; simpl; [discriminate|]. destruct (f x) eqn:E; simpl.
  - intro H. destruct (IH H) as [y [Hy Hf]]. exists y. split; [right; exact Hy|exact Hf].
  - intros _. exists x. split; [left; reflexivity|exact E].
Qed.

Lemma opt_row_short h l : length (opt_row h l) <> length l -> exists a, In a l /\ h a = None.
Proof.
  induction l as [|b l IH]; simpl; [intro H; contradiction H; reflexivity|].
  destruct (h b) eqn:E; simpl.
  - intro H. destruct IH as [a [Ha Hn]]; [unfold opt_row in *; lia|]. exists a. split; [right; exact Ha|exact Hn].
  - intros _. exists b. split; [left; reflexivity|exact E].
Qed.

(* ---------- empty_language ---------- *)
Lemma empty_language_acc syms w : dfa_acc (empty_language syms) w = false.
Proof.
  unfold dfa_acc, dfa_acc_from. destruct (dfa_run (empty_language syms) (Some (d_init (empty_language syms))) w); reflexivity.
Qed.

Lemma empty_language_valid syms : NoDup syms -> valid_dfa (empty_language syms) = true.
Proof.
  intro Hn. unfold valid_dfa. repeat (apply andb_true_iff; split); try reflexivity.
  - apply nodupb_NoDup. exact Hn.
  - simpl. rewrite map_map. simpl. rewrite map_id. apply nodupb_NoDup. exact Hn.
  - apply forallb_forall. intros [a v] Hin. simpl in Hin. apply in_map_iff in Hin. destruct Hin as [b [E Hb]].
    inversion E; subst. simpl. rewrite andb_true_r. apply memb_In. exact Hb.
  - simpl. apply forallb_forall. intros a Ha. apply memb_In. rewrite map_map. simpl. rewrite map_id. exact Ha.
Qed.

(* what the lower-bound argument needs to know about a result automaton *)
Record min_struct (R : dfa) : Prop := {
  ms_access : forall r, In r (d_states R) -> exists u, dfa_run R (Some (d_init R)) u = Some r;
  ms_dist : forall r1 r2, In r1 (d_states R) -> In r2 (d_states R) -> r1 <> r2 ->
              exists w, dfa_acc_from R (Some r1) w <> dfa_acc_from R (Some r2) w;
  ms_live : d_partial R = true -> forall r, In r (d_states R) -> exists w, dfa_acc_from R (Some r) w = true;
  ms_partial : d_partial R = true -> ~ complete R
}.

Lemma empty_language_struct syms : min_struct (empty_language syms).
Proof.
  constructor; simpl.
  - intros r [<-|[]]. exists []. reflexivity.
  - intros r1 r2 [<-|[]] [<-|[]] H. contradiction H. reflexivity.
  - discriminate.
  - discriminate.
Qed.

(* ---------- the quotient ---------- *)
Section Quotient.
  Variable m : dfa.
  Hypothesis Hv : valid_dfa m = true.
  Variable K : list nat.
  Hypothesis HK : goodK m K.
  Variable c : option nat -> nat.

  Notation krun := (xrun (option nat) (kstep m K)).
  Notation fin := (ofinal m).
  Notation syms := (d_syms m).
  Notation Q := (kQ K).

  Hypothesis nerode : forall x y, In x Q -> In y Q ->
    (c x = c y <-> forall w, fin (krun x w) = fin (krun y w)).
  Hypothesis dist : forall x y, In x Q -> In y Q -> c x <> c y ->
    exists w, Forall (fun a => In a syms) w /\ fin (krun x w) <> fin (krun y w).

  Notation dr := (dropped m K c).
  Notation nm := (cname K c).
  Notation need := (trap_needed m K).
  Notation qst := (qstates m K c).

  Lemma inQ_Some q : In q K -> In (Some q) Q.
  Proof. intro H. apply kQ_In. exact H. Qed.
  Lemma inQ_None : In None Q.
  Proof. apply kQ_In. exact I. Qed.
  Lemma inQ_step x a : In x Q -> In (kstep m K x a) Q.
  Proof. apply kQ_closed. Qed.
  Lemma inQ_run x w : In x Q -> In (krun x w) Q.
  Proof. apply xrun_in_Q. intros y a. apply kQ_closed. Qed.

  Lemma syms_NoDup : NoDup syms.
  Proof. destruct (valid_dfa_parts m Hv) as (_ & H & _). exact H. Qed.

  Lemma congr x y a : In x Q -> In y Q -> c x = c y -> c (kstep m K x a) = c (kstep m K y a).
  Proof.
    intros Hx Hy H. apply nerode; [apply inQ_step; exact Hx|apply inQ_step; exact Hy|].
    intro w. apply (proj1 (nerode x y Hx Hy) H (a :: w)).
  Qed.

  Lemma class_fin x y : In x Q -> In y Q -> c x = c y -> fin x = fin y.
  Proof. intros Hx Hy H. apply (proj1 (nerode x y Hx Hy) H []). Qed.

  (* names *)
  Lemma cname_in q : In q K -> In (nm q) K /\ c (Some (nm q)) = c (Some q).
  Proof.
    intro Hq. unfold cname. destruct (find (fun r => Nat.eqb (c (Some r)) (c (Some q))) K) as [r|] eqn:E.
    - apply find_some in E. destruct E as [E1 E2]. apply Nat.eqb_eq in E2. split; assumption.
    - pose proof (find_none _ _ E q Hq) as H. simpl in H. rewrite Nat.eqb_refl in H. discriminate.
  Qed.

  Lemma cname_class q q' : In q K -> c (Some q) = c (Some q') -> nm q = nm q'.
  Proof.
    intros Hq H. unfold cname. rewrite <- H.
    destruct (find (fun r => Nat.eqb (c (Some r)) (c (Some q))) K) as [r|] eqn:E; [reflexivity|].
    pose proof (find_none _ _ E q Hq) as Hn. simpl in Hn. rewrite Nat.eqb_refl in Hn. discriminate.
  Qed.

  Lemma cname_idem q : In q K -> nm (nm q) = nm q.
  Proof. intro Hq. apply cname_class; apply cname_in; exact Hq. Qed.

  (* the omitted class *)
  Lemma dr_class x y : c x = c y -> dr x = dr y.
  Proof. intro H. unfold dropped. rewrite H. reflexivity. Qed.

  Lemma dr_None : dr None = need.
  Proof. unfold dropped. rewrite Nat.eqb_refl. apply andb_true_r. Qed.

  Lemma dr_true x : dr x = true -> need = true /\ c x = c None.
  Proof. unfold dropped. intro H. apply andb_true_iff in H. destruct H as [H1 H2]. apply Nat.eqb_eq in H2. tauto. Qed.

  Lemma dr_step x a : In x Q -> dr x = true -> dr (kstep m K x a) = true.
  Proof.
    intros Hx H. destruct (dr_true x H) as [Hn Hc]. unfold dropped. rewrite Hn. simpl. apply Nat.eqb_eq.
    apply (congr x None a Hx inQ_None Hc).
  Qed.

  Lemma dr_run w : forall x, In x Q -> dr x = true -> dr (krun x w) = true.
  Proof.
    induction w as [|a w IH]; intros x Hx H; simpl; [exact H|].
    apply IH; [apply inQ_step; exact Hx|apply dr_step; assumption].
  Qed.

  Lemma dr_fin x w : In x Q -> dr x = true -> fin (krun x w) = false.
  Proof.
    intros Hx H. destruct (dr_true x H) as [_ Hc].
    rewrite (proj1 (nerode x None Hx inQ_None) Hc w). rewrite (krun_None m). reflexivity.
  Qed.

  Lemma live_word q : In q K -> need = true -> dr (Some q) = false -> exists w, fin (krun (Some q) w) = true.
  Proof.
    intros Hq Hn Hd. unfold dropped in Hd. rewrite Hn in Hd. simpl in Hd. apply Nat.eqb_neq in Hd.
    destruct (dist (Some q) None (inQ_Some q Hq) inQ_None Hd) as [w [_ Hw]]. exists w.
    rewrite (krun_None m) in Hw. simpl in Hw. destruct (fin (krun (Some q) w)); [reflexivity|contradiction Hw; reflexivity].
  Qed.

  Lemma need_false q a : need = false -> In q K -> In a syms -> exists t, kstep m K (Some q) a = Some t /\ In t K.
  Proof.
    intros Hn Hq Ha. destruct (kstep m K (Some q) a) as [t|] eqn:E.
    - exists t. split; [reflexivity|]. pose proof (inQ_step (Some q) a (inQ_Some q Hq)) as H. rewrite E in H.
      apply kQ_In in H. exact H.
    - exfalso. assert (need = true); [|congruence].
      unfold trap_needed. apply existsb_exists. exists q. split; [exact Hq|].
      apply existsb_exists. exists a. split; [exact Ha|]. rewrite E. reflexivity.
  Qed.

  Lemma step_None_need q a : In q K -> In a syms -> kstep m K (Some q) a = None -> need = true.
  Proof.
    intros Hq Ha E. unfold trap_needed. apply existsb_exists. exists q. split; [exact Hq|].
    apply existsb_exists. exists a. split; [exact Ha|]. rewrite E. reflexivity.
  Qed.

  (* states of the result *)
  Lemma qstates_In r : In r qst <-> In r K /\ dr (Some r) = false /\ nm r = r.
  Proof.
    unfold qstates, live. rewrite !filter_In, negb_true_iff, Nat.eqb_eq. tauto.
  Qed.

  Lemma nm_in_qstates q : In q K -> dr (Some q) = false -> In (nm q) qst.
  Proof.
    intros Hq Hd. destruct (cname_in q Hq) as [H1 H2]. apply qstates_In. split; [exact H1|]. split.
    - rewrite (dr_class _ _ H2). exact Hd.
    - apply cname_idem. exact Hq.
  Qed.

  Lemma qstates_NoDup : NoDup qst.
  Proof. unfold qstates, live. apply NoDup_filter. apply NoDup_filter. apply ssorted_NoDup. apply (gk_sorted m K HK). Qed.

  Lemma qstates_length : length qst <= length K.
  Proof.
    unfold qstates, live. etransitivity; [apply filter_len_le|apply filter_len_le].
  Qed.

  (* the result automaton of the non-degenerate branch *)
  Definition qR : dfa :=
    mkdfa qst syms (qtrans m K c) (nm (d_init m)) (qfinals m K c) (qpartial m K c).

  Lemma qrow_opt r : qrow m K c r = opt_row (qtarget m K c r) syms.
  Proof. reflexivity. Qed.

  Lemma qR_row r : In r qst -> d_row qR r = Some (qrow m K c r).
  Proof. intro H. unfold d_row, qR, qtrans. simpl. apply assoc_map_key. exact H. Qed.

  Lemma qR_delta r a : In r qst -> d_delta qR r a = if memb a syms then qtarget m K c r a else None.
  Proof.
    intro H. unfold d_delta. rewrite (qR_row r H). rewrite qrow_opt. apply opt_row_assoc. exact syms_NoDup.
  Qed.

  Definition proj (x : option nat) : option nat :=
    if dr x then None else match x with Some t => Some (nm t) | None => None end.

  Definition okx (x : option nat) : Prop := match x with Some _ => True | None => need = true end.

  Lemma proj_class x y : In x Q -> c x = c y -> okx x -> okx y -> proj x = proj y.
  Proof.
    intros Hx H Ox Oy. unfold proj. rewrite (dr_class x y H). destruct (dr y) eqn:Ed; [reflexivity|].
    assert (Hdx : dr x = false) by (rewrite (dr_class x y H); exact Ed).
    destruct x as [p|], y as [q|]; simpl in *.
    - f_equal. apply cname_class; [apply kQ_In in Hx; exact Hx|exact H].
    - rewrite dr_None in Ed. congruence.
    - rewrite dr_None in Hdx. congruence.
    - reflexivity.
  Qed.

  Lemma okx_step q a : In q K -> In a syms -> okx (kstep m K (Some q) a).
  Proof.
    intros Hq Ha. destruct (kstep m K (Some q) a) eqn:E; [exact I|]. simpl. eapply step_None_need; eassumption.
  Qed.

  Lemma qtarget_proj r a : qtarget m K c r a = proj (kstep m K (Some r) a).
  Proof.
    unfold qtarget, proj. destruct (kstep m K (Some r) a) as [t|]; [reflexivity|]. destruct (dr None); reflexivity.
  Qed.

  (* runs of the result follow the kept system, up to the class names *)
  Lemma sim w : forall q, In q K -> dr (Some q) = false ->
    dfa_run qR (Some (nm q)) w = proj (krun (Some q) w).
  Proof.
    induction w as [|a w IH]; intros q Hq Hd.
    - simpl. unfold proj. rewrite Hd. reflexivity.
    - change (dfa_run qR (Some (nm q)) (a :: w)) with (dfa_run qR (d_delta qR (nm q) a) w).
      change (krun (Some q) (a :: w)) with (krun (kstep m K (Some q) a) w).
      rewrite (qR_delta _ a (nm_in_qstates q Hq Hd)).
      destruct (memb a syms) eqn:Ea.
      + apply memb_In in Ea. destruct (cname_in q Hq) as [Hnq Hcq].
        rewrite qtarget_proj.
        rewrite (proj_class (kstep m K (Some (nm q)) a) (kstep m K (Some q) a)
                   (inQ_step _ a (inQ_Some _ Hnq))
                   (congr _ _ a (inQ_Some _ Hnq) (inQ_Some _ Hq) Hcq) (okx_step _ a Hnq Ea) (okx_step _ a Hq Ea)).
        pose proof (inQ_step (Some q) a (inQ_Some q Hq)) as Hy.
        pose proof (okx_step q a Hq Ea) as Oy.
        destruct (dr (kstep m K (Some q) a)) eqn:Ed.
        * unfold proj at 1. rewrite Ed. rewrite dfa_run_None.
          unfold proj. rewrite (dr_run w _ Hy Ed). reflexivity.
        * destruct (kstep m K (Some q) a) as [t|] eqn:Ek.
          -- unfold proj at 1. rewrite Ed. apply IH; [apply kQ_In in Hy; exact Hy|exact Ed].
          -- simpl in Oy. rewrite dr_None in Ed. congruence.
      + apply memb_false in Ea. rewrite dfa_run_None.
        rewrite (kstep_foreign m Hv K (Some q) None a Ea). simpl. rewrite (krun_None m).
        unfold proj. destruct (dr None); reflexivity.
  Qed.

  Lemma final_not_dropped q : In q K -> In q (d_finals m) -> dr (Some q) = false.
  Proof.
    intros Hq Hf. destruct (dr (Some q)) eqn:E; [|reflexivity].
    pose proof (dr_fin (Some q) [] (inQ_Some q Hq) E) as H. simpl in H. apply memb_In in Hf. congruence.
  Qed.

  Lemma qfinals_In v : In v (qfinals m K c) <-> exists q, In q K /\ In q (d_finals m) /\ nm q = v.
  Proof.
    unfold qfinals. rewrite set_of_In, in_map_iff. split.
    - intros [q [E H]]. apply filter_In in H. destruct H as [H1 H2]. apply memb_In in H2. exists q. tauto.
    - intros [q [H1 [H2 E]]]. exists q. split; [exact E|]. apply filter_In. split; [exact H1|apply memb_In; exact H2].
  Qed.

  Lemma qfinals_spec t : In t K -> memb (nm t) (qfinals m K c) = memb t (d_finals m).
  Proof.
    intro Ht. apply eq_iff_eq_true. rewrite !memb_In, qfinals_In. split.
    - intros [q [Hq [Hf E]]].
      assert (Hc : c (Some q) = c (Some t)).
      { destruct (cname_in q Hq) as [_ H1]. destruct (cname_in t Ht) as [_ H2]. rewrite <- H1, <- H2, E. reflexivity. }
      pose proof (class_fin _ _ (inQ_Some q Hq) (inQ_Some t Ht) Hc) as H. simpl in H.
      apply memb_In. rewrite <- H. apply memb_In. exact Hf.
    - intro Hf. exists t. tauto.
  Qed.

  Lemma fin_proj x : In x Q -> ofinal qR (proj x) = fin x.
  Proof.
    intro Hx. unfold proj. destruct (dr x) eqn:Ed.
    - simpl. symmetry. apply (dr_fin x [] Hx Ed).
    - destruct x as [t|]; [|reflexivity]. simpl. apply qfinals_spec. apply kQ_In in Hx. exact Hx.
  Qed.

  Lemma qR_acc_from q w : In q K -> dr (Some q) = false ->
    dfa_acc_from qR (Some (nm q)) w = fin (krun (Some q) w).
  Proof.
    intros Hq Hd. unfold dfa_acc_from. rewrite (sim w q Hq Hd). apply fin_proj. apply inQ_run. apply inQ_Some. exact Hq.
  Qed.

  (* retained names: the blocks are the classes of the kept, non-omitted states *)
  Lemma qblocks_heads : Forall2 (fun B r => In r B) (qblocks m K c) qst.
  Proof.
    unfold qblocks. apply Forall2_map_self. intros r Hr. apply qstates_In in Hr. destruct Hr as [HrK [Hd Hn]].
    apply filter_In. split; [|apply Nat.eqb_eq; exact Hn].
    unfold live. apply filter_In. split; [exact HrK|]. rewrite Hd. reflexivity.
  Qed.

  Lemma qblocks_classes B q1 : In B (qblocks m K c) -> In q1 B ->
    forall q2, In q2 B <-> (In q2 K /\ forall w, dfa_acc_from m (Some q1) w = dfa_acc_from m (Some q2) w).
  Proof.
    intros HB H1 q2. unfold qblocks in HB. apply in_map_iff in HB. destruct HB as [r [<- Hr]].
    apply filter_In in H1. destruct H1 as [L1 N1]. apply Nat.eqb_eq in N1.
    unfold live in L1. apply filter_In in L1. destruct L1 as [K1 D1]. apply negb_true_iff in D1.
    assert (Hequiv : forall q, In q K -> (c (Some q1) = c (Some q) <->
               forall w, dfa_acc_from m (Some q1) w = dfa_acc_from m (Some q) w)).
    { intros q Hq. rewrite (nerode _ _ (inQ_Some _ K1) (inQ_Some _ Hq)). split; intros H w.
      - rewrite <- (kacc m K HK w q1 K1), <- (kacc m K HK w q Hq). apply H.
      - rewrite (kacc m K HK w q1 K1), (kacc m K HK w q Hq). apply H. }
    rewrite filter_In. unfold live. rewrite filter_In, negb_true_iff, Nat.eqb_eq. split.
    - intros [[K2 D2] N2]. split; [exact K2|]. apply (Hequiv q2 K2).
      destruct (cname_in q1 K1) as [_ C1]. destruct (cname_in q2 K2) as [_ C2]. rewrite <- C1, <- C2, N1, N2. reflexivity.
    - intros [K2 Hw]. apply (Hequiv q2 K2) in Hw. split; [split; [exact K2|]|].
      + rewrite <- (dr_class _ _ Hw). exact D1.
      + rewrite <- N1. symmetry. apply cname_class; assumption.
  Qed.

  Hypothesis init_live : dr (Some (d_init m)) = false.

  Lemma qR_lang w : dfa_acc qR w = dfa_acc m w.
  Proof.
    unfold dfa_acc. change (d_init qR) with (nm (d_init m)).
    rewrite (qR_acc_from _ w (gk_init m K HK) init_live). apply (kacc m K HK). apply (gk_init m K HK).
  Qed.

  Lemma qtarget_in r a v : In r qst -> qtarget m K c r a = Some v -> In v qst.
  Proof.
    intros Hr H. unfold qtarget in H. destruct (kstep m K (Some r) a) as [t|] eqn:E; [|discriminate].
    destruct (dr (Some t)) eqn:Ed; [discriminate|]. inversion H; subst v.
    apply nm_in_qstates; [|exact Ed]. apply qstates_In in Hr.
    pose proof (inQ_step (Some r) a (inQ_Some r (proj1 Hr))) as Hy. rewrite E in Hy. apply kQ_In in Hy. exact Hy.
  Qed.

  Lemma qR_valid : valid_dfa qR = true.
  Proof.
    unfold valid_dfa. repeat (apply andb_true_iff; split).
    - apply nodupb_NoDup. exact qstates_NoDup.
    - apply nodupb_NoDup. exact syms_NoDup.
    - apply nodupb_NoDup. simpl. unfold qtrans. rewrite map_map. simpl. rewrite map_id. exact qstates_NoDup.
    - apply forallb_forall. intros r Hr. simpl in *. apply memb_In. unfold qtrans. rewrite map_map. simpl.
      rewrite map_id. exact Hr.
    - apply forallb_forall. intros [r row] Hin. simpl in Hin. unfold qtrans in Hin. apply in_map_iff in Hin.
      destruct Hin as [r' [E Hr]]. inversion E; subst r' row. simpl snd. clear E.
      unfold row_ok. repeat (apply andb_true_iff; split).
      + apply nodupb_NoDup. rewrite qrow_opt. apply opt_row_NoDup. exact syms_NoDup.
      + apply forallb_forall. intros [a v] Hin. rewrite qrow_opt in Hin. apply opt_row_In in Hin.
        destruct Hin as [Ha Ht]. simpl. apply andb_true_iff. split; apply memb_In; [exact Ha|].
        eapply qtarget_in; eassumption.
      + simpl d_partial. destruct (qpartial m K c) eqn:Ep; [reflexivity|]. simpl.
        unfold qpartial in Ep. apply negb_false_iff in Ep. rewrite forallb_forall in Ep.
        specialize (Ep r Hr). apply Nat.eqb_eq in Ep. rewrite qrow_opt in Ep.
        apply forallb_forall. intros a Ha. apply memb_In.
        pose proof (opt_row_full _ _ Ep a Ha) as Hn.
        destruct (qtarget m K c r a) as [v|] eqn:Et; [|contradiction Hn; reflexivity].
        apply in_map_iff. exists (a, v). split; [reflexivity|]. rewrite qrow_opt. apply opt_row_In. split; assumption.
    - apply memb_In. simpl. apply nm_in_qstates; [apply (gk_init m K HK)|exact init_live].
    - apply subsetb_incl. intros v Hv'. simpl in Hv'. apply qfinals_In in Hv'. destruct Hv' as [q [Hq [Hf <-]]].
      simpl. apply nm_in_qstates; [exact Hq|apply final_not_dropped; assumption].
  Qed.

  Lemma qR_complete_flag : need = false -> d_partial qR = false.
  Proof.
    intro Hn. simpl. unfold qpartial. apply negb_false_iff. apply forallb_forall. intros r Hr.
    apply Nat.eqb_eq. rewrite qrow_opt. apply opt_row_full_conv. intros a Ha.
    apply qstates_In in Hr. destruct (need_false r a Hn (proj1 Hr) Ha) as [t [Et _]].
    unfold qtarget. rewrite Et. unfold dropped. rewrite Hn. simpl. discriminate.
  Qed.

  Lemma qR_struct : min_struct qR.
  Proof.
    constructor.
    - intros r Hr. simpl in Hr. pose proof Hr as Hr'. apply qstates_In in Hr'. destruct Hr' as [HrK [Hd Hn]].
      destruct (gk_access m K HK r HrK) as [u Hu]. exists u.
      change (d_init qR) with (nm (d_init m)). rewrite (sim u _ (gk_init m K HK) init_live), Hu.
      unfold proj. rewrite Hd, Hn. reflexivity.
    - intros r1 r2 H1 H2 Hne. simpl in H1, H2. apply qstates_In in H1. apply qstates_In in H2.
      destruct H1 as [K1 [D1 N1]]. destruct H2 as [K2 [D2 N2]].
      assert (Hc : c (Some r1) <> c (Some r2)).
      { intro E. apply Hne. rewrite <- N1, <- N2. apply cname_class; [exact K1|exact E]. }
      destruct (dist _ _ (inQ_Some _ K1) (inQ_Some _ K2) Hc) as [w [_ Hw]]. exists w.
      rewrite <- N1 at 1. rewrite <- N2 at 1. rewrite (qR_acc_from r1 w K1 D1), (qR_acc_from r2 w K2 D2). exact Hw.
    - intros Hp r Hr. simpl in Hp, Hr. apply qstates_In in Hr. destruct Hr as [HrK [Hd Hn]].
      assert (Hneed : need = true).
      { destruct need eqn:En; [reflexivity|exfalso].
        unfold qpartial in Hp. apply negb_true_iff in Hp. apply forallb_false_ex in Hp.
        destruct Hp as [r' [Hr' Hl]]. apply Nat.eqb_neq in Hl. rewrite qrow_opt in Hl.
        apply opt_row_short in Hl. destruct Hl as [a [Ha Hn']]. apply qstates_In in Hr'.
        destruct (need_false r' a En (proj1 Hr') Ha) as [t [Et Ht]].
        unfold qtarget in Hn'. rewrite Et in Hn'. unfold dropped in Hn'. rewrite En in Hn'. simpl in Hn'. discriminate. }
      destruct (live_word r HrK Hneed Hd) as [w Hw]. exists w. rewrite <- Hn. rewrite (qR_acc_from r w HrK Hd). exact Hw.
    - intros Hp Hc. simpl in Hp. unfold qpartial in Hp. apply negb_true_iff in Hp. apply forallb_false_ex in Hp.
      destruct Hp as [r [Hr Hl]]. apply Nat.eqb_neq in Hl. rewrite qrow_opt in Hl.
      apply opt_row_short in Hl. destruct Hl as [a [Ha Hn]].
      destruct (Hc r a Hr Ha) as [q' Hq']. rewrite (qR_delta r a Hr) in Hq'.
      apply memb_In in Ha. rewrite Ha, Hn in Hq'. discriminate.
  Qed.
End Quotient.

(* ---------- putting the refinement and the quotient together ---------- *)
Section Core.
  Variable m : dfa.
  Hypothesis Hv : valid_dfa m = true.
  Variable K : list nat.
  Hypothesis HK : goodK m K.

  Lemma quotient_eq c : quotient m K c =
    match qstates m K c with
    | [] => Ok (empty_language (d_syms m), [])
    | _ :: _ => if dropped m K c (Some (d_init m)) then Err KeyErr else Ok (qR m K c, qblocks m K c)
    end.
  Proof. reflexivity. Qed.

  Lemma K_nonempty : 1 <= length K.
  Proof. pose proof (gk_init m K HK) as H. destruct K; [destruct H|simpl; lia]. Qed.

  Lemma K_length : length K <= size m.
  Proof.
    apply NoDup_incl_length; [apply ssorted_NoDup; apply (gk_sorted m K HK)|apply (gk_states m K HK)].
  Qed.

  Theorem minify_core_ok : exists R P, minify_core m K = Ok (R, P) /\
    valid_dfa R = true /\ d_syms R = d_syms m /\ (forall w, dfa_acc R w = dfa_acc m w) /\
    min_struct R /\ size R <= length K /\ (trap_needed m K = false -> d_partial R = false) /\
    (P <> [] -> Forall2 (fun B r => In r B) P (d_states R) /\
       forall B q1, In B P -> In q1 B -> forall q2, In q2 B <->
         (In q2 K /\ forall w, dfa_acc_from m (Some q1) w = dfa_acc_from m (Some q2) w)).
  Proof.
    destruct (moore_nerode (option nat) (eqb_opt Nat.eqb) (eqb_opt_ok _ eqb_nat_ok) (kstep m K) (ofinal m)
                (d_syms m) (kQ K) (kQ_closed m K) (kstep_foreign m Hv K)) as [t [E [Hn Hd]]].
    unfold minify_core, kmoore. rewrite E. set (c := look (eqb_opt Nat.eqb) t) in *.
    assert (Hinit : In (d_init m) K) by apply (gk_init m K HK).
    rewrite quotient_eq. destruct (qstates m K c) as [|r0 rest] eqn:Eq.
    - exists (empty_language (d_syms m)), []. split; [reflexivity|].
      split; [apply empty_language_valid; apply (syms_NoDup m Hv)|]. split; [reflexivity|].
      split; [|split; [apply empty_language_struct|split; [simpl; apply K_nonempty|split; [reflexivity|intro H; contradiction H; reflexivity]]]].
      intro w. rewrite empty_language_acc. symmetry.
      destruct (dropped m K c (Some (d_init m))) eqn:Ed.
      + unfold dfa_acc. rewrite <- (kacc m K HK w _ Hinit).
        eapply dr_fin; [exact Hn|apply inQ_Some; exact Hinit|exact Ed].
      + assert (H : In (cname K c (d_init m)) (qstates m K c)) by (eapply nm_in_qstates; eassumption).
        rewrite Eq in H. destruct H.
    - destruct (dropped m K c (Some (d_init m))) eqn:Ed.
      + exfalso.
        assert (Hr0 : In r0 (qstates m K c)) by (rewrite Eq; left; reflexivity).
        apply qstates_In in Hr0. destruct Hr0 as [HrK [Hdr _]].
        destruct (gk_access m K HK r0 HrK) as [u Hu].
        assert (H : dropped m K c (xrun (option nat) (kstep m K) (Some (d_init m)) u) = true).
        { eapply dr_run; [exact Hn|apply inQ_Some; exact Hinit|exact Ed]. }
        rewrite Hu in H. congruence.
      + exists (qR m K c), (qblocks m K c). split; [reflexivity|].
        split; [eapply qR_valid; eassumption|]. split; [reflexivity|].
        split; [intro w; eapply qR_lang; eassumption|].
        split; [eapply qR_struct; eassumption|].
        split; [apply (qstates_length m K c)|].
        split; [intro Hneed; eapply qR_complete_flag; eassumption|].
        intros _. split; [apply (qblocks_heads m K c)|].
        intros B q1 HB H1 q2. eapply qblocks_classes; eassumption.
  Qed.
End Core.

(* ---------- the Myhill-Nerode lower bound for the DFA record ---------- *)
Section LowerBound.
  Variables A B : dfa.
  Hypothesis HvA : valid_dfa A = true.
  Hypothesis HvB : valid_dfa B = true.
  Hypothesis Hlang : L_dfa B =L L_dfa A.
  Hypothesis Hacc : forall r, In r (d_states A) -> exists u, dfa_run A (Some (d_init A)) u = Some r.
  Hypothesis Hdist : forall r1 r2, In r1 (d_states A) -> In r2 (d_states A) -> r1 <> r2 ->
    exists w, dfa_acc_from A (Some r1) w <> dfa_acc_from A (Some r2) w.

  Definition img (u : word) : option nat := dfa_run B (Some (d_init B)) u.

  Lemma acc_eq w : dfa_acc B w = dfa_acc A w.
  Proof. apply eq_iff_eq_true. apply Hlang. Qed.

  Lemma after_access u r w : dfa_run A (Some (d_init A)) u = Some r ->
    dfa_acc_from A (Some r) w = dfa_acc_from B (img u) w.
  Proof.
    intro Hu. unfold img.
    assert (H1 : dfa_acc A (u ++ w) = dfa_acc_from A (Some r) w).
    { unfold dfa_acc, dfa_acc_from. rewrite dfa_run_app, Hu. reflexivity. }
    assert (H2 : dfa_acc B (u ++ w) = dfa_acc_from B (dfa_run B (Some (d_init B)) u) w).
    { unfold dfa_acc, dfa_acc_from. rewrite dfa_run_app. reflexivity. }
    rewrite <- H1, <- H2. symmetry. apply acc_eq.
  Qed.

  Lemma img_inj u1 u2 r1 r2 : In r1 (d_states A) -> In r2 (d_states A) ->
    dfa_run A (Some (d_init A)) u1 = Some r1 -> dfa_run A (Some (d_init A)) u2 = Some r2 ->
    img u1 = img u2 -> r1 = r2.
  Proof.
    intros H1 H2 U1 U2 E. destruct (Nat.eq_dec r1 r2) as [Eq|N]; [exact Eq|exfalso].
    destruct (Hdist r1 r2 H1 H2 N) as [w Hw]. apply Hw.
    rewrite (after_access u1 r1 w U1), (after_access u2 r2 w U2), E. reflexivity.
  Qed.

  Lemma img_in_states u q : img u = Some q -> In q (d_states B).
  Proof.
    intro H. pose proof (dfa_run_ok B HvB u (Some (d_init B)) (init_ok B HvB)) as Ho.
    unfold img in H. rewrite H in Ho. exact Ho.
  Qed.

  Lemma inj_list l : NoDup l -> incl l (d_states A) ->
    (forall r u, In r l -> dfa_run A (Some (d_init A)) u = Some r -> img u <> None) ->
    exists l', NoDup l' /\ incl l' (d_states B) /\ length l' = length l /\
      forall q', In q' l' -> exists r u, In r l /\ dfa_run A (Some (d_init A)) u = Some r /\ img u = Some q'.
  Proof.
    induction l as [|r0 l IH]; intros Hnd Hinc Himg.
    - exists []. split; [constructor|]. split; [intros x []|]. split; [reflexivity|]. intros q' [].
    - inversion Hnd as [|? ? Hnot Hnd']; subst.
      destruct IH as [l' [N' [I' [L' W']]]]; [exact Hnd'|intros x Hx; apply Hinc; right; exact Hx| |].
      { intros r u Hr. apply Himg. right. exact Hr. }
      assert (Hr0 : In r0 (d_states A)) by (apply Hinc; left; reflexivity).
      destruct (Hacc r0 Hr0) as [u0 Hu0].
      destruct (img u0) as [q0|] eqn:E0; [|exfalso; apply (Himg r0 u0 (or_introl eq_refl) Hu0); exact E0].
      exists (q0 :: l'). split.
      + constructor; [|exact N']. intro Hin. destruct (W' q0 Hin) as [r [u [Hr [Hu Hi]]]].
        assert (r = r0).
        { apply (img_inj u u0 r r0); [apply Hinc; right; exact Hr|exact Hr0|exact Hu|exact Hu0|congruence]. }
        subst r. contradiction.
      + split; [intros x [<-|Hx]; [eapply img_in_states; exact E0|apply I'; exact Hx]|].
        split; [simpl; rewrite L'; reflexivity|].
        intros q' [<-|Hq'].
        * exists r0, u0. split; [left; reflexivity|]. split; assumption.
        * destruct (W' q' Hq') as [r [u [Hr H]]]. exists r, u. split; [right; exact Hr|exact H].
  Qed.

  Theorem lower_bound_gen :
    (forall r u, In r (d_states A) -> dfa_run A (Some (d_init A)) u = Some r -> img u <> None) ->
    size A <= size B.
  Proof.
    intro Himg. destruct (valid_dfa_parts A HvA) as (Hnd & _).
    destruct (inj_list (d_states A) Hnd (incl_refl _) Himg) as [l' [N' [I' [L' _]]]].
    unfold size. rewrite <- L'. apply NoDup_incl_length; assumption.
  Qed.

  (* a run that survives reads only alphabet symbols *)
  Lemma run_Some_syms u : forall q r, dfa_run A (Some q) u = Some r -> Forall (fun a => In a (d_syms A)) u.
  Proof.
    induction u as [|a u IH]; intros q r H; [constructor|]. simpl in H.
    destruct (d_delta A q a) as [t|] eqn:E; [|rewrite dfa_run_None in H; discriminate].
    constructor; [apply (delta_in_states A HvA) in E; tauto|eapply IH; exact H].
  Qed.

  Lemma complete_run u : complete B -> d_syms B = d_syms A -> Forall (fun a => In a (d_syms A)) u ->
    forall q, In q (d_states B) -> dfa_run B (Some q) u <> None.
  Proof.
    intros Hc Hs Hu. induction Hu as [|a u Ha Hu IH]; intros q Hq; simpl; [discriminate|].
    rewrite <- Hs in Ha. destruct (Hc q a Hq Ha) as [t Ht]. rewrite Ht. apply IH.
    apply (delta_in_states B HvB) in Ht. tauto.
  Qed.

  (* any complete DFA for the language has at least as many states *)
  Theorem lower_bound_complete : complete B -> d_syms B = d_syms A -> size A <= size B.
  Proof.
    intros Hc Hs. apply lower_bound_gen. intros r u Hr Hu. unfold img.
    apply (complete_run u Hc Hs (run_Some_syms u _ _ Hu)). apply (init_ok B HvB).
  Qed.

  (* any DFA at all has at least as many states as there are states accepting some word *)
  Theorem lower_bound_live :
    (forall r, In r (d_states A) -> exists w, dfa_acc_from A (Some r) w = true) -> size A <= size B.
  Proof.
    intro Hlive. apply lower_bound_gen. intros r u Hr Hu E. destruct (Hlive r Hr) as [w Hw].
    rewrite (after_access u r w Hu), E in Hw. unfold dfa_acc_from in Hw. rewrite dfa_run_None in Hw. discriminate.
  Qed.
End LowerBound.

Theorem struct_minimal_complete A : valid_dfa A = true -> min_struct A -> minimal_complete A.
Proof.
  intros HvA HA B HvB Hc Hs Hl. apply (lower_bound_complete A B HvA HvB Hl (ms_access A HA) (ms_dist A HA) Hc Hs).
Qed.

Theorem struct_minimal_partial A : valid_dfa A = true -> min_struct A -> d_partial A = true -> minimal_partial A.
Proof.
  intros HvA HA Hp B HvB Hs Hl. apply (lower_bound_live A B HvA HvB Hl (ms_access A HA) (ms_dist A HA)). apply (ms_live A HA Hp).
Qed.

(* ---------- minify and to_partial(minify=True) ---------- *)
Definition lang_same (R m : dfa) : Prop := forall w, dfa_acc R w = dfa_acc m w.

Lemma lang_same_L R m : lang_same R m -> L_dfa R =L L_dfa m.
Proof. intros H w. unfold L_dfa. rewrite (H w). tauto. Qed.

Definition min_result (m R : dfa) : Prop :=
  valid_dfa R = true /\ d_syms R = d_syms m /\ lang_same R m /\ min_struct R /\ size R <= size m.

(* the states minify() keeps before merging *)
Definition kept_state (m : dfa) (q : nat) : Prop :=
  if d_partial m then q = d_init m \/ (reachable m q /\ coaccessible m q) else reachable m q.

Definition blocks_ok (m R : dfa) (P : list (list nat)) : Prop :=
  Forall2 (fun B r => In r B) P (d_states R) /\
  forall B q1, In B P -> In q1 B ->
    forall q2, In q2 B <->
      (kept_state m q2 /\ forall w, dfa_acc_from m (Some q1) w = dfa_acc_from m (Some q2) w).

Theorem minify_full_ok m : valid_dfa m = true ->
  exists R P, minify_full m = Ok (R, P) /\ min_result m R /\ (d_partial m = false -> d_partial R = false) /\
              (P <> [] -> blocks_ok m R P).
Proof.
  intro Hv. unfold minify_full.
  assert (Hk : exists K, kept_minify m = Ok K /\ goodK m K /\ (d_partial m = false -> trap_needed m K = false) /\
                         forall q, In q K <-> kept_state m q).
  { unfold kept_minify, kept_state. destruct (d_partial m) eqn:Ep.
    - destruct (kept_live_good m Hv) as [K [E [H HKl]]]. exists K. split; [exact E|]. split; [exact H|].
      split; [discriminate|exact HKl].
    - destruct (kept_reach_good m Hv) as [K [E [H HKr]]]. exists K. split; [exact E|]. split; [exact H|].
      split; [|exact HKr]. intros _.
      destruct (trap_needed m K) eqn:En; [exfalso|reflexivity].
      unfold trap_needed in En. apply existsb_exists in En. destruct En as [q [Hq En]].
      apply existsb_exists in En. destruct En as [a [Ha En]].
      destruct (complete_when_not_partial m Hv Ep q a (gk_states m K H q Hq) Ha) as [t Et].
      simpl in En. rewrite Et in En.
      assert (Ht : In t K).
      { apply HKr. eapply reach_step; [apply HKr; exact Hq|]. apply (succs_edge m Hv). exists a. exact Et. }
      apply memb_In in Ht. rewrite Ht in En. discriminate. }
  destruct Hk as [K [E [HK [Hc HKs]]]]. rewrite E. simpl.
  destruct (minify_core_ok m Hv K HK) as [R [P [E2 [V [S [Lg [St [Sz [Hp Hb]]]]]]]]].
  exists R, P. split; [exact E2|]. split; [|split].
  - unfold min_result. split; [exact V|]. split; [exact S|]. split; [exact Lg|]. split; [exact St|].
    pose proof (K_length m K HK). lia.
  - intro H. apply Hp. apply Hc. exact H.
  - intro HP. destruct (Hb HP) as [H1 H2]. split; [exact H1|].
    intros B q1 HB Hq1 q2. rewrite (H2 B q1 HB Hq1 q2). rewrite (HKs q2). tauto.
Qed.

Theorem minify_blocks m R P : valid_dfa m = true -> minify_full m = Ok (R, P) -> P <> [] -> blocks_ok m R P.
Proof.
  intros Hv E HP. destruct (minify_full_ok m Hv) as [R0 [P0 [F [_ [_ Hb]]]]]. rewrite F in E.
  inversion E; subst R0 P0. apply Hb. exact HP.
Qed.

Theorem to_partial_min_full_ok m : valid_dfa m = true ->
  exists R P, to_partial_min_full m = Ok (R, P) /\ min_result m R.
Proof.
  intro Hv. unfold to_partial_min_full. destruct (kept_live_good m Hv) as [K [E [HK _]]]. rewrite E. simpl.
  destruct (minify_core_ok m Hv K HK) as [R [P [E2 [V [S [Lg [St [Sz [_ Hb]]]]]]]]].
  exists R, P. split; [exact E2|]. unfold min_result. split; [exact V|]. split; [exact S|]. split; [exact Lg|].
  split; [exact St|]. pose proof (K_length m K HK). lia.
Qed.

Theorem min_result_minimal m R : min_result m R ->
  (d_partial R = false -> complete R /\ minimal_complete R) /\
  (d_partial R = true -> ~ complete R /\ minimal_partial R).
Proof.
  intros [V [_ [_ [St _]]]]. split; intro Hp.
  - split; [apply (complete_when_not_partial R V Hp)|apply struct_minimal_complete; assumption].
  - split; [apply (ms_partial R St Hp)|apply struct_minimal_partial; assumption].
Qed.

Theorem minify_idempotent_size m R R' : valid_dfa m = true ->
  minify m = Ok R -> minify R = Ok R' -> size R' = size R.
Proof.
  intros Hv E1 E2. unfold minify in *.
  destruct (minify_full_ok m Hv) as [R0 [P0 [F1 [M1 _]]]]. rewrite F1 in E1. simpl in E1. inversion E1; subst R0.
  destruct M1 as [V1 [S1 [L1 [St1 Sz1]]]].
  destruct (minify_full_ok R V1) as [R0' [P0' [F2 [M2 [Hc2 _]]]]]. rewrite F2 in E2. simpl in E2. inversion E2; subst R0'.
  destruct M2 as [V2 [S2 [L2 [St2 Sz2]]]].
  apply Nat.le_antisymm; [exact Sz2|].
  destruct (d_partial R) eqn:Ep.
  - apply (struct_minimal_partial R V1 St1 Ep R' V2 S2 (lang_same_L _ _ L2)).
  - apply (struct_minimal_complete R V1 St1 R' V2 (complete_when_not_partial R' V2 (Hc2 eq_refl)) S2 (lang_same_L _ _ L2)).
Qed.

Lemma minify_inv m R : valid_dfa m = true -> minify m = Ok R ->
  min_result m R /\ (d_partial m = false -> d_partial R = false).
Proof.
  intros Hv E. unfold minify in E. destruct (minify_full_ok m Hv) as [R0 [P0 [F [M [Hc _]]]]].
  rewrite F in E. simpl in E. inversion E; subst R0. split; assumption.
Qed.

Lemma to_partial_min_inv m R : valid_dfa m = true -> to_partial_min m = Ok R -> min_result m R.
Proof.
  intros Hv E. unfold to_partial_min in E. destruct (to_partial_min_full_ok m Hv) as [R0 [P0 [F M]]].
  rewrite F in E. simpl in E. inversion E; subst R0. exact M.
Qed.

Lemma minify_total m : valid_dfa m = true -> exists R, minify m = Ok R.
Proof.
  intro Hv. destruct (minify_full_ok m Hv) as [R [P [F _]]]. exists R. unfold minify. rewrite F. reflexivity.
Qed.

Lemma to_partial_min_total m : valid_dfa m = true -> exists R, to_partial_min m = Ok R.
Proof.
  intro Hv. destruct (to_partial_min_full_ok m Hv) as [R [P [F _]]]. exists R. unfold to_partial_min. rewrite F. reflexivity.
Qed.

(* the flag of a result says what kind it is *)
Lemma min_result_kind m R : min_result m R -> (d_partial R = false <-> complete R).
Proof.
  intro M. destruct (min_result_minimal m R M) as [H1 H2]. split.
  - intro Hp. apply H1. exact Hp.
  - intro Hc. destruct (d_partial R) eqn:Ep; [|reflexivity]. exfalso. apply (proj1 (H2 eq_refl)). exact Hc.
Qed.

(* ---------- to_partial(minify=False) ---------- *)
Lemma assoc_filter_snd (f : nat -> bool) (row : list (nat * nat)) a : NoDup (map fst row) ->
  assoc a (filter (fun p => f (snd p)) row) =
  match assoc a row with Some t => if f t then Some t else None | None => None end.
Proof.
  induction row as [|[k v] r IH]; intro Hn; simpl; [reflexivity|].
  inversion Hn as [|? ? Hk Hn']; subst. specialize (IH Hn').
  destruct (f v) eqn:Ef; simpl.
  - destruct (Nat.eqb a k) eqn:E; [rewrite Ef; reflexivity|exact IH].
  - destruct (Nat.eqb a k) eqn:E; [|exact IH].
    apply Nat.eqb_eq in E. subst a. rewrite Ef. rewrite IH.
    assert (H : assoc k r = None) by (apply assoc_None; exact Hk). rewrite H. reflexivity.
Qed.

Lemma assoc_rows_filter {B} (g : B -> B) (K : list nat) (T : list (nat * B)) q :
  assoc q (map (fun r => (fst r, g (snd r))) (filter (fun r => memb (fst r) K) T)) =
  if memb q K then option_map g (assoc q T) else None.
Proof.
  induction T as [|[k v] T IH]; simpl; [destruct (memb q K); reflexivity|].
  destruct (memb k K) eqn:Ek; simpl.
  - destruct (Nat.eqb q k) eqn:E.
    + apply Nat.eqb_eq in E. subst. rewrite Ek. reflexivity.
    + exact IH.
  - destruct (Nat.eqb q k) eqn:E; [|exact IH].
    apply Nat.eqb_eq in E. subst. rewrite Ek. rewrite IH. rewrite Ek. reflexivity.
Qed.

Lemma map_fst_rows_filter {B} (g : B -> B) (K : list nat) (T : list (nat * B)) :
  map fst (map (fun r => (fst r, g (snd r))) (filter (fun r => memb (fst r) K) T)) =
  filter (fun k => memb k K) (map fst T).
Proof.
  induction T as [|[k v] T IH]; simpl; [reflexivity|]. destruct (memb k K); simpl; rewrite IH; reflexivity.
Qed.

Lemma map_fst_filter_incl {B} (f : nat * B -> bool) (row : list (nat * B)) : 
  forall x, In x (map fst (filter f row)) -> In x (map fst row).
Proof.
  intros x H. apply in_map_iff in H. destruct H as [p [E Hp]]. apply filter_In in Hp.
  apply in_map_iff. exists p. tauto.
Qed.

Lemma map_fst_filter_NoDup {B} (f : nat * B -> bool) (row : list (nat * B)) :
  NoDup (map fst row) -> NoDup (map fst (filter f row)).
Proof.
  induction row as [|p r IH]; simpl; intro Hn; [constructor|]. inversion Hn; subst.
  destruct (f p); simpl; [|apply IH; assumption]. constructor; [|apply IH; assumption].
  intro H. apply map_fst_filter_incl in H. contradiction.
Qed.

Section ToPartialPlain.
  Variable m : dfa.
  Hypothesis Hv : valid_dfa m = true.

  Theorem to_partial_plain_ok : exists P, to_partial_plain m = Ok P /\
    valid_dfa P = true /\ d_syms P = d_syms m /\ d_partial P = true /\ lang_same P m /\
    (forall q, In q (d_states P) <-> q = d_init m \/ (reachable m q /\ coaccessible m q)).
  Proof.
    destruct (reach_states_ok m Hv) as [R [ER HR]]. destruct (coacc_states_ok m Hv) as [C [EC HC]].
    destruct (kept_live_good m Hv) as [K [EK [HK HKs]]].
    assert (EK' : K = set_of (d_init m :: filter (fun q => memb q C) R)).
    { unfold kept_live in EK. rewrite ER, EC in EK. simpl in EK. inversion EK. reflexivity. }
    unfold to_partial_plain. rewrite ER, EC. cbn [bind]. cbv zeta. rewrite <- EK'.
    set (P := mkdfa K (d_syms m)
                (map (fun r => (fst r, filter (fun p => memb (snd p) C) (snd r)))
                     (filter (fun r => memb (fst r) K) (d_trans m)))
                (d_init m) (filter (fun q => memb q K) (d_finals m)) true).
    destruct (valid_dfa_parts m Hv) as (Hst & Hsy & Hkeys & Hrows & Hrok & Hinit & Hfin).
    assert (Kreach : forall q, In q K -> reachable m q).
    { intros q Hq. apply HKs in Hq. destruct Hq as [->|[Hq _]]; [apply reach_init; left; reflexivity|exact Hq]. }
    assert (Hrow : forall q, In q K -> exists row, d_row m q = Some row /\
                     d_row P q = Some (filter (fun p => memb (snd p) C) row)).
    { intros q Hq. destruct (state_has_row m Hv q (gk_states m K HK q Hq)) as [row Er]. exists row.
      split; [exact Er|]. unfold d_row in *. simpl d_trans.
      rewrite (assoc_rows_filter (filter (fun p => memb (snd p) C)) K (d_trans m) q).
      apply memb_In in Hq. rewrite Hq, Er. reflexivity. }
    assert (Hdelta : forall q a, In q K -> d_delta P q a =
               match d_delta m q a with Some t => if memb t C then Some t else None | None => None end).
    { intros q a Hq. destruct (Hrow q Hq) as [row [Er Ep]]. unfold d_delta. rewrite Ep, Er.
      apply (assoc_filter_snd (fun t => memb t C) row a (row_keys_NoDup m Hv q row Er)). }
    assert (Hstep : forall q a t, In q K -> d_delta m q a = Some t -> memb t C = true -> In t K).
    { intros q a t Hq E Ec. apply HKs. right. split; [|apply HC; apply memb_In; exact Ec].
      eapply reach_step; [apply Kreach; exact Hq|]. apply (succs_edge m Hv). exists a. exact E. }
    exists P. split; [reflexivity|]. split; [|split; [reflexivity|split; [reflexivity|split; [|exact HKs]]]].
    - (* validity *)
      unfold valid_dfa. repeat (apply andb_true_iff; split).
      + apply nodupb_NoDup. apply ssorted_NoDup. apply (gk_sorted m K HK).
      + apply nodupb_NoDup. exact Hsy.
      + apply nodupb_NoDup. simpl d_trans. rewrite map_fst_rows_filter. apply NoDup_filter. exact Hkeys.
      + apply forallb_forall. intros q Hq. simpl in Hq. apply memb_In. simpl d_trans. rewrite map_fst_rows_filter.
        apply filter_In. split; [apply Hrows; apply (gk_states m K HK); exact Hq|apply memb_In; exact Hq].
      + apply forallb_forall. intros [q prow] Hin. simpl in Hin. apply in_map_iff in Hin.
        destruct Hin as [[q' row] [E Hin]]. simpl in E. inversion E; subst q' prow. clear E.
        apply filter_In in Hin. destruct Hin as [Hin Hq]. simpl in Hq. apply memb_In in Hq. simpl snd.
        pose proof (Hrok q row Hin) as Hok. unfold row_ok in Hok. repeat rewrite andb_true_iff in Hok.
        destruct Hok as [[Hnd Hall] _]. rewrite forallb_forall in Hall.
        assert (Er : d_row m q = Some row) by (unfold d_row; apply assoc_NoDup; assumption).
        unfold row_ok. repeat (apply andb_true_iff; split); [| |reflexivity].
        * apply nodupb_NoDup. apply map_fst_filter_NoDup. apply nodupb_NoDup. exact Hnd.
        * apply forallb_forall. intros [a t] Hp. apply filter_In in Hp. destruct Hp as [Hp Hc]. simpl in Hc.
          specialize (Hall _ Hp). simpl in Hall. apply andb_true_iff in Hall. destruct Hall as [Ha _].
          simpl. rewrite Ha. simpl. apply memb_In. apply (Hstep q a t Hq); [|exact Hc].
          unfold d_delta. rewrite Er. apply assoc_NoDup; [apply nodupb_NoDup; exact Hnd|exact Hp].
      + apply memb_In. apply (gk_init m K HK).
      + apply subsetb_incl. intros q Hq. simpl in Hq. apply filter_In in Hq. apply memb_In. tauto.
    - (* language *)
      assert (Hacc : forall w q, In q K -> dfa_acc_from P (Some q) w = dfa_acc_from m (Some q) w).
      { induction w as [|a w IH]; intros q Hq; unfold dfa_acc_from.
        - simpl. apply eq_iff_eq_true. rewrite !memb_In, filter_In, memb_In. tauto.
        - simpl. rewrite (Hdelta q a Hq). destruct (d_delta m q a) as [t|] eqn:E.
          + destruct (memb t C) eqn:Ec.
            * apply IH. apply (Hstep q a t Hq E Ec).
            * rewrite dfa_run_None. simpl. symmetry.
              destruct (ofinal m (dfa_run m (Some t) w)) eqn:Ea; [exfalso|reflexivity].
              apply memb_false in Ec. apply Ec. apply HC. apply (accepting_coacc m Hv w t). exact Ea.
          + rewrite !dfa_run_None. reflexivity. }
      intro w. apply (Hacc w (d_init m) (gk_init m K HK)).
  Qed.
End ToPartialPlain.
