(* Lemmas for C05, concrete half: state selection, the kept system with its implicit
   trap, the quotient automaton - language, validity, structure. *)
From Coq Require Import List Arith Bool Lia.
From AV Require Import Base.Util Base.Closure Spec.Lang Spec.FA Spec.Minimal
                       Model.Decide Model.Minimize Proofs.FARun Proofs.Moore.
Import ListNotations.

(* ---------- small list facts ---------- *)
Lemma ssorted_NoDup l : ssorted l -> NoDup l.
Proof.
  induction l as [|x l IH]; intro H; [constructor|].
  constructor; [|apply IH; eapply ssorted_tail; exact H].
  intro Hin. pose proof (ssorted_lt _ _ H _ Hin). lia.
Qed.

Lemma assoc_map_key {B} (h : nat -> B) l r : In r l -> assoc r (map (fun x => (x, h x)) l) = Some (h r).
Proof.
  induction l as [|x l IH]; simpl; [tauto|]. intro H.
  destruct (Nat.eqb r x) eqn:E; [apply Nat.eqb_eq in E; subst; reflexivity|].
  destruct H as [H|H]; [subst; rewrite Nat.eqb_refl in E; discriminate|apply IH; exact H].
Qed.

Lemma filter_len_le {A} (f : A -> bool) l : length (filter f l) <= length l.
Proof. induction l as [|x l IH]; simpl; [lia|]. destruct (f x); simpl; lia. Qed.

Definition opt_row (h : nat -> option nat) (l : list nat) : list (nat * nat) :=
  flat_map (fun a => match h a with Some v => [(a, v)] | None => [] end) l.

Lemma opt_row_In h l a v : In (a, v) (opt_row h l) <-> In a l /\ h a = Some v.
Proof.
  unfold opt_row. rewrite in_flat_map. split.
  - intros [b [Hb Hin]]. destruct (h b) eqn:E; simpl in Hin; [|tauto].
    destruct Hin as [Hin|[]]. inversion Hin; subst. split; assumption.
  - intros [Ha Hh]. exists a. split; [exact Ha|]. rewrite Hh. left. reflexivity.
Qed.

Lemma opt_row_keys h l a : In a (map fst (opt_row h l)) -> In a l.
Proof.
  intro H. apply in_map_iff in H. destruct H as [[b v] [E Hin]]. simpl in E. subst b.
  apply opt_row_In in Hin. tauto.
Qed.

Lemma opt_row_NoDup h l : NoDup l -> NoDup (map fst (opt_row h l)).
Proof.
  induction l as [|a l IH]; intro Hn; simpl; [constructor|].
  inversion Hn; subst. destruct (h a) eqn:E; simpl; [|apply IH; assumption].
  constructor; [|apply IH; assumption]. intro Hin. apply opt_row_keys in Hin. contradiction.
Qed.

Lemma opt_row_assoc h l a : NoDup l -> assoc a (opt_row h l) = if memb a l then h a else None.
Proof.
  intro Hn. destruct (assoc a (opt_row h l)) as [v|] eqn:E.
  - apply assoc_In in E. apply opt_row_In in E. destruct E as [Ha Hh].
    apply memb_In in Ha. rewrite Ha. symmetry. exact Hh.
  - destruct (memb a l) eqn:Em; [|reflexivity]. apply memb_In in Em.
    destruct (h a) as [v|] eqn:Eh; [|reflexivity]. exfalso.
    assert (Hin : In (a, v) (opt_row h l)) by (apply opt_row_In; split; assumption).
    apply assoc_None in E. apply E. apply in_map_iff. exists (a, v). split; [reflexivity|exact Hin].
Qed.

Lemma opt_row_length h l : length (opt_row h l) <= length l.
Proof.
  induction l as [|a l IH]; simpl; [lia|]. destruct (h a); simpl; lia.
Qed.

Lemma opt_row_full h l : length (opt_row h l) = length l -> forall a, In a l -> h a <> None.
Proof.
  induction l as [|b l IH]; simpl; [tauto|]. intros Hl a [Ha|Ha].
  - subst. destruct (h a); [discriminate|]. simpl in Hl. pose proof (opt_row_length h l). unfold opt_row in *. lia.
  - apply IH; [|exact Ha]. destruct (h b); simpl in Hl; [unfold opt_row in *; lia|].
    pose proof (opt_row_length h l). unfold opt_row in *. lia.
Qed.

Lemma opt_row_full_conv h l : (forall a, In a l -> h a <> None) -> length (opt_row h l) = length l.
Proof.
  induction l as [|b l IH]; simpl; [reflexivity|]. intro H.
  destruct (h b) eqn:E; [|exfalso; apply (H b); [left; reflexivity|exact E]].
  simpl. f_equal. apply IH. intros a Ha. apply H. right. exact Ha.
Qed.

(* ---------- state selection ---------- *)
Section Selection.
  Variable m : dfa.
  Hypothesis Hv : valid_dfa m = true.

  Definition edge (p q : nat) : Prop := exists a, d_delta m p a = Some q.

  Lemma row_keys_NoDup q row : d_row m q = Some row -> NoDup (map fst row).
  Proof.
    intro H. pose proof (row_props m Hv _ _ H) as E. unfold row_ok in E.
    repeat rewrite andb_true_iff in E. destruct E as [[E _] _]. apply nodupb_NoDup. exact E.
  Qed.

  Lemma succs_edge p q : In q (succs m p) <-> edge p q.
  Proof.
    unfold succs, edge, d_delta. destruct (d_row m p) as [row|] eqn:E.
    - split.
      + intro H. apply in_map_iff in H. destruct H as [[a t] [Et Hin]]. simpl in Et. subst t.
        exists a. apply assoc_NoDup; [eapply row_keys_NoDup; exact E|exact Hin].
      + intros [a Ha]. apply assoc_In in Ha. apply in_map_iff. exists (a, q). split; [reflexivity|exact Ha].
    - split; [intros []|intros [a Ha]; discriminate].
  Qed.

  Lemma preds_succs p q : In p (preds m q) <-> In q (succs m p).
  Proof.
    destruct (valid_dfa_parts m Hv) as (_ & _ & Hk & _).
    unfold preds, succs, d_row. rewrite in_map_iff. split.
    - intros [[p' row] [E Hin]]. simpl in E. subst p'. apply filter_In in Hin. destruct Hin as [Hin Hm].
      simpl in Hm. apply memb_In in Hm. rewrite (assoc_NoDup _ _ _ Hk Hin). exact Hm.
    - destruct (assoc p (d_trans m)) as [row|] eqn:E; [|intros []]. intro H.
      exists (p, row). split; [reflexivity|]. apply filter_In. split; [apply assoc_In; exact E|].
      simpl. apply memb_In. exact H.
  Qed.

  Lemma preds_edge p q : In p (preds m q) <-> edge p q.
  Proof. rewrite preds_succs. apply succs_edge. Qed.

  Lemma edge_states p q : edge p q -> In q (d_states m).
  Proof. intros [a Ha]. apply (delta_in_states m Hv) in Ha. tauto. Qed.

  Definition reachable (q : nat) : Prop := reach (succs m) [d_init m] q.
  Definition coaccessible (q : nat) : Prop := reach (preds m) (d_finals m) q.

  Lemma reachable_states q : reachable q -> In q (d_states m).
  Proof.
    intro H. induction H as [x Hx|x y Hr IH Hy].
    - destruct Hx as [<-|[]]. apply (init_ok m Hv).
    - apply succs_edge in Hy. eapply edge_states. exact Hy.
  Qed.

  Lemma reach_states_ok : exists R, reach_states m = Ok R /\ forall q, In q R <-> reachable q.
  Proof.
    unfold reach_states.
    destruct (closure Nat.eqb (succs m) (S (length (d_states m))) [d_init m]) as [R|] eqn:E.
    - exists R. split; [reflexivity|]. intro q. split.
      + apply (closure_sound _ _ eqb_nat_ok _ _ _ _ E).
      + apply (closure_complete _ _ eqb_nat_ok _ _ _ _ E).
    - exfalso. revert E. apply (closure_fuel _ _ eqb_nat_ok _ (d_states m)).
      + intros x y _ Hy. apply succs_edge in Hy. eapply edge_states. exact Hy.
      + intros x [<-|[]]. apply (init_ok m Hv).
      + lia.
  Qed.

  Lemma coacc_states_ok : exists C, coacc_states m = Ok C /\ forall q, In q C <-> coaccessible q.
  Proof.
    destruct (valid_dfa_parts m Hv) as (_ & _ & Hk & Hrow & _ & _ & Hf).
    unfold coacc_states.
    destruct (closure Nat.eqb (preds m) (S (length (d_trans m))) (d_finals m)) as [C|] eqn:E.
    - exists C. split; [reflexivity|]. intro q. split.
      + apply (closure_sound _ _ eqb_nat_ok _ _ _ _ E).
      + apply (closure_complete _ _ eqb_nat_ok _ _ _ _ E).
    - exfalso. revert E. apply (closure_fuel _ _ eqb_nat_ok _ (map fst (d_trans m))).
      + intros x y _ Hy. unfold preds in Hy. apply in_map_iff in Hy. destruct Hy as [r [<- Hr]].
        apply filter_In in Hr. apply in_map. tauto.
      + intros x Hx. apply Hrow. apply Hf. exact Hx.
      + rewrite map_length. lia.
  Qed.

  (* a state from which some word is accepted is co-accessible *)
  Lemma accepting_coacc w : forall q, dfa_acc_from m (Some q) w = true -> coaccessible q.
  Proof.
    induction w as [|a w IH]; intros q H; unfold dfa_acc_from in H; simpl in H.
    - apply reach_init. apply memb_In. exact H.
    - destruct (d_delta m q a) as [t|] eqn:E.
      + eapply reach_step; [apply IH; exact H|]. apply preds_edge. exists a. exact E.
      + rewrite dfa_run_None in H. discriminate.
  Qed.

  Lemma coacc_back p q : edge p q -> coaccessible q -> coaccessible p.
  Proof. intros He Hq. eapply reach_step; [exact Hq|]. apply preds_edge. exact He. Qed.

  (* ---- the kept system ---- *)
  Notation krun K := (xrun (option nat) (kstep m K)).

  Lemma krun_None K w : krun K None w = None.
  Proof. induction w as [|a w IH]; simpl; [reflexivity|exact IH]. Qed.

  Record goodK (K : list nat) : Prop := {
    gk_sorted : ssorted K;
    gk_init : In (d_init m) K;
    gk_states : incl K (d_states m);
    gk_exit : forall q a t, In q K -> d_delta m q a = Some t -> ~ In t K ->
                            forall w, dfa_acc_from m (Some t) w = false;
    gk_access : forall q, In q K -> exists u, krun K (Some (d_init m)) u = Some q
  }.

  Lemma kstep_edge K x a t : In t K -> d_delta m x a = Some t -> kstep m K (Some x) a = Some t.
  Proof. intros Ht E. simpl. rewrite E. apply memb_In in Ht. rewrite Ht. reflexivity. Qed.

  Lemma access_snoc K u x a t : krun K (Some (d_init m)) u = Some x -> In t K -> d_delta m x a = Some t ->
    krun K (Some (d_init m)) (u ++ [a]) = Some t.
  Proof. intros Hu Ht E. rewrite xrun_app, Hu. simpl. rewrite E. apply memb_In in Ht. rewrite Ht. reflexivity. Qed.

  Lemma kept_live_good : exists K, kept_live m = Ok K /\ goodK K /\
    forall q, In q K <-> q = d_init m \/ (reachable q /\ coaccessible q).
  Proof.
    destruct reach_states_ok as [R [ER HR]]. destruct coacc_states_ok as [C [EC HC]].
    unfold kept_live. rewrite ER, EC. simpl.
    set (K := set_of (d_init m :: filter (fun q => memb q C) R)).
    assert (HK : forall q, In q K <-> q = d_init m \/ (reachable q /\ coaccessible q)).
    { intro q. unfold K. rewrite set_of_In. simpl. rewrite filter_In, memb_In, HR, HC.
      split; [intros [H|H]; [left; symmetry; exact H|right; exact H]|intros [H|H]; [left; symmetry; exact H|right; exact H]]. }
    assert (Hinit_reach : reachable (d_init m)) by (apply reach_init; left; reflexivity).
    assert (HKreach : forall q, In q K -> reachable q).
    { intros q Hq. apply HK in Hq. destruct Hq as [->|[Hq _]]; assumption. }
    exists K. split; [reflexivity|]. split; [|exact HK]. constructor.
    - apply set_of_sorted.
    - apply HK. left. reflexivity.
    - intros q Hq. apply reachable_states. apply HKreach. exact Hq.
    - intros q a t Hq E Ht w. destruct (dfa_acc_from m (Some t) w) eqn:Ea; [exfalso|reflexivity].
      apply Ht. apply HK. right. split.
      + eapply reach_step; [apply HKreach; exact Hq|]. apply succs_edge. exists a. exact E.
      + eapply accepting_coacc. exact Ea.
    - assert (Hacc : forall q, reachable q -> coaccessible q -> exists u, krun K (Some (d_init m)) u = Some q).
      { intros q Hr. induction Hr as [x Hx|x y Hr IH Hy]; intro Hc.
        - destruct Hx as [<-|[]]. exists []. reflexivity.
        - apply succs_edge in Hy. destruct (IH (coacc_back _ _ Hy Hc)) as [u Hu].
          destruct Hy as [a Ea]. exists (u ++ [a]). eapply access_snoc; [exact Hu| |exact Ea].
          apply HK. right. split; [|exact Hc]. eapply reach_step; [exact Hr|]. apply succs_edge. exists a. exact Ea. }
      intros q Hq. apply HK in Hq. destruct Hq as [->|[Hr Hc]]; [exists []; reflexivity|apply Hacc; assumption].
  Qed.

  Lemma kept_reach_good : exists K, bind (reach_states m) (fun R => Ok (set_of R)) = Ok K /\ goodK K /\
    forall q, In q K <-> reachable q.
  Proof.
    destruct reach_states_ok as [R [ER HR]]. rewrite ER. simpl.
    assert (HK : forall q, In q (set_of R) <-> reachable q) by (intro q; rewrite set_of_In; apply HR).
    exists (set_of R). split; [reflexivity|]. split; [|exact HK]. constructor.
    - apply set_of_sorted.
    - apply HK. apply reach_init. left. reflexivity.
    - intros q Hq. apply reachable_states. apply HK. exact Hq.
    - intros q a t Hq E Ht w. exfalso. apply Ht. apply HK.
      eapply reach_step; [apply HK; exact Hq|]. apply succs_edge. exists a. exact E.
    - intros q Hq. apply HK in Hq. induction Hq as [x Hx|x y Hr IH Hy].
      + destruct Hx as [<-|[]]. exists []. reflexivity.
      + destruct IH as [u Hu]. apply succs_edge in Hy. destruct Hy as [a Ea].
        exists (u ++ [a]). eapply access_snoc; [exact Hu| |exact Ea].
        apply HK. eapply reach_step; [exact Hr|]. apply succs_edge. exists a. exact Ea.
  Qed.

  Lemma kept_minify_good : exists K, kept_minify m = Ok K /\ goodK K.
  Proof.
    unfold kept_minify. destruct (d_partial m).
    - destruct kept_live_good as [K [E [H _]]]. exists K. split; assumption.
    - destruct kept_reach_good as [K [E [H _]]]. exists K. split; assumption.
  Qed.

  (* the kept system with its trap accepts exactly what the automaton accepts *)
  Lemma kacc K : goodK K -> forall w q, In q K ->
    ofinal m (krun K (Some q) w) = dfa_acc_from m (Some q) w.
  Proof.
    intros HK w. induction w as [|a w IH]; intros q Hq; [reflexivity|].
    unfold dfa_acc_from. simpl. destruct (d_delta m q a) as [t|] eqn:E.
    - destruct (memb t K) eqn:Em.
      + apply memb_In in Em. apply IH. exact Em.
      + apply memb_false in Em. rewrite krun_None. simpl. symmetry.
        apply (gk_exit K HK q a t Hq E Em w).
    - rewrite krun_None, dfa_run_None. reflexivity.
  Qed.

  Lemma kQ_In K x : In x (kQ K) <-> match x with Some q => In q K | None => True end.
  Proof.
    unfold kQ. rewrite in_app_iff, in_map_iff. destruct x as [q|]; split.
    - intros [[y [E Hy]]|[H|[]]]; [inversion E; subst; exact Hy|discriminate].
    - intro H. left. exists q. split; [reflexivity|exact H].
    - trivial.
    - intros _. right. left. reflexivity.
  Qed.

  Lemma kQ_closed K x a : In x (kQ K) -> In (kstep m K x a) (kQ K).
  Proof.
    intros _. apply kQ_In. destruct x as [q|]; simpl; [|trivial].
    destruct (d_delta m q a) as [t|]; [|trivial]. destruct (memb t K) eqn:E; [apply memb_In; exact E|trivial].
  Qed.

  Lemma kstep_foreign K x y a : ~ In a (d_syms m) -> kstep m K x a = kstep m K y a.
  Proof.
    intro Ha.
    assert (H : forall z, kstep m K z a = None).
    { intros [q|]; simpl; [|reflexivity]. destruct (d_delta m q a) as [t|] eqn:E; [|reflexivity].
      apply (delta_in_states m Hv) in E. tauto. }
    rewrite (H x), (H y). reflexivity.
  Qed.
End Selection.

Lemma forallb_false_ex {A} (f : A -> bool) l : forallb f l = false -> exists x, In x l /\ f x = false.
Proof.
  induction l as [|x l IH]; simpl; [discriminate|]. destruct (f x) eqn:E; simpl.
  - intro H. destruct (IH H) as [y [Hy Hf]]. exists y. split; [right; exact Hy|exact Hf].
  - intros _. exists x. split; [left; reflexivity|exact E].
Qed.

Lemma opt_row_short h l : length (opt_row h l) <> length l -> exists a, In a l /\ h a = None.
Proof.
  induction l as [|b l IH]; simpl; [intro H; contradiction H; reflexivity|].
  destruct (h b) eqn:E; simpl.
  - intro H. destruct IH as [a [Ha Hn]]; [unfold opt_row in *; lia|]. exists a. split; [right; exact Ha|exact Hn].
  - intros _. exists b. split; [left; reflexivity|exact E].
Qed.

(* ---------- empty_language ---------- *)
Lemma empty_language_acc syms w : dfa_acc (empty_language syms) w = false.
Proof.
  unfold dfa_acc, dfa_acc_from. destruct (dfa_run (empty_language syms) (Some (d_init (empty_language syms))) w); reflexivity.
Qed.

Lemma empty_language_valid syms : NoDup syms -> valid_dfa (empty_language syms) = true.
Proof.
  intro Hn. unfold valid_dfa. repeat (apply andb_true_iff; split); try reflexivity.
  - apply nodupb_NoDup. exact Hn.
  - simpl. rewrite map_map. simpl. rewrite map_id. apply nodupb_NoDup. exact Hn.
  - apply forallb_forall. intros [a v] Hin. simpl in Hin. apply in_map_iff in Hin. destruct Hin as [b [E Hb]].
    inversion E; subst. simpl. rewrite andb_true_r. apply memb_In. exact Hb.
  - simpl. apply forallb_forall. intros a Ha. apply memb_In. rewrite map_map. simpl. rewrite map_id. exact Ha.
Qed.

(* what the lower-bound argument needs to know about a result automaton *)
Record min_struct (R : dfa) : Prop := {
  ms_access : forall r, In r (d_states R) -> exists u, dfa_run R (Some (d_init R)) u = Some r;
  ms_dist : forall r1 r2, In r1 (d_states R) -> In r2 (d_states R) -> r1 <> r2 ->
              exists w, dfa_acc_from R (Some r1) w <> dfa_acc_from R (Some r2) w;
  ms_live : d_partial R = true -> forall r, In r (d_states R) -> exists w, dfa_acc_from R (Some r) w = true;
  ms_partial : d_partial R = true -> ~ complete R
}.

Lemma empty_language_struct syms : min_struct (empty_language syms).
Proof.
  constructor; simpl.
  - intros r [<-|[]]. exists []. reflexivity.
  - intros r1 r2 [<-|[]] [<-|[]] H. contradiction H. reflexivity.
  - discriminate.
  - discriminate.
Qed.

(* ---------- the quotient ---------- *)
Section Quotient.
  Variable m : dfa.
  Hypothesis Hv : valid_dfa m = true.
  Variable K : list nat.
  Hypothesis HK : goodK m K.
  Variable c : option nat -> nat.

  Notation krun := (xrun (option nat) (kstep m K)).
  Notation fin := (ofinal m).
  Notation syms := (d_syms m).
  Notation Q := (kQ K).

  Hypothesis nerode : forall x y, In x Q -> In y Q ->
    (c x = c y <-> forall w, fin (krun x w) = fin (krun y w)).
  Hypothesis dist : forall x y, In x Q -> In y Q -> c x <> c y ->
    exists w, Forall (fun a => In a syms) w /\ fin (krun x w) <> fin (krun y w).

  Notation dr := (dropped m K c).
  Notation nm := (cname K c).
  Notation need := (trap_needed m K).
  Notation qst := (qstates m K c).

  Lemma inQ_Some q : In q K -> In (Some q) Q.
  Proof. intro H. apply kQ_In. exact H. Qed.
  Lemma inQ_None : In None Q.
  Proof. apply kQ_In. exact I. Qed.
  Lemma inQ_step x a : In x Q -> In (kstep m K x a) Q.
  Proof. apply kQ_closed. Qed.
  Lemma inQ_run x w : In x Q -> In (krun x w) Q.
  Proof. apply xrun_in_Q. intros y a. apply kQ_closed. Qed.

  Lemma syms_NoDup : NoDup syms.
  Proof. destruct (valid_dfa_parts m Hv) as (_ & H & _). exact H. Qed.

  Lemma congr x y a : In x Q -> In y Q -> c x = c y -> c (kstep m K x a) = c (kstep m K y a).
  Proof.
    intros Hx Hy H. apply nerode; [apply inQ_step; exact Hx|apply inQ_step; exact Hy|].
    intro w. apply (proj1 (nerode x y Hx Hy) H (a :: w)).
  Qed.

  Lemma class_fin x y : In x Q -> In y Q -> c x = c y -> fin x = fin y.
  Proof. intros Hx Hy H. apply (proj1 (nerode x y Hx Hy) H []). Qed.

  (* names *)
  Lemma cname_in q : In q K -> In (nm q) K /\ c (Some (nm q)) = c (Some q).
  Proof.
    intro Hq. unfold cname. destruct (find (fun r => Nat.eqb (c (Some r)) (c (Some q))) K) as [r|] eqn:E.
    - apply find_some in E. destruct E as [E1 E2]. apply Nat.eqb_eq in E2. split; assumption.
    - pose proof (find_none _ _ E q Hq) as H. simpl in H. rewrite Nat.eqb_refl in H. discriminate.
  Qed.

  Lemma cname_class q q' : In q K -> c (Some q) = c (Some q') -> nm q = nm q'.
  Proof.
    intros Hq H. unfold cname. rewrite <- H.
    destruct (find (fun r => Nat.eqb (c (Some r)) (c (Some q))) K) as [r|] eqn:E; [reflexivity|].
    pose proof (find_none _ _ E q Hq) as Hn. simpl in Hn. rewrite Nat.eqb_refl in Hn. discriminate.
  Qed.

  Lemma cname_idem q : In q K -> nm (nm q) = nm q.
  Proof. intro Hq. apply cname_class; apply cname_in; exact Hq. Qed.

  (* the omitted class *)
  Lemma dr_class x y : c x = c y -> dr x = dr y.
  Proof. intro H. unfold dropped. rewrite H. reflexivity. Qed.

  Lemma dr_None : dr None = need.
  Proof. unfold dropped. rewrite Nat.eqb_refl. apply andb_true_r. Qed.

  Lemma dr_true x : dr x = true -> need = true /\ c x = c None.
  Proof. unfold dropped. intro H. apply andb_true_iff in H. destruct H as [H1 H2]. apply Nat.eqb_eq in H2. tauto. Qed.

  Lemma dr_step x a : In x Q -> dr x = true -> dr (kstep m K x a) = true.
  Proof.
    intros Hx H. destruct (dr_true x H) as [Hn Hc]. unfold dropped. rewrite Hn. simpl. apply Nat.eqb_eq.
    apply (congr x None a Hx inQ_None Hc).
  Qed.

  Lemma dr_run w : forall x, In x Q -> dr x = true -> dr (krun x w) = true.
  Proof.
    induction w as [|a w IH]; intros x Hx H; simpl; [exact H|].
    apply IH; [apply inQ_step; exact Hx|apply dr_step; assumption].
  Qed.

  Lemma dr_fin x w : In x Q -> dr x = true -> fin (krun x w) = false.
  Proof.
    intros Hx H. destruct (dr_true x H) as [_ Hc].
    rewrite (proj1 (nerode x None Hx inQ_None) Hc w). rewrite (krun_None m). reflexivity.
  Qed.

  Lemma live_word q : In q K -> need = true -> dr (Some q) = false -> exists w, fin (krun (Some q) w) = true.
  Proof.
    intros Hq Hn Hd. unfold dropped in Hd. rewrite Hn in Hd. simpl in Hd. apply Nat.eqb_neq in Hd.
    destruct (dist (Some q) None (inQ_Some q Hq) inQ_None Hd) as [w [_ Hw]]. exists w.
    rewrite (krun_None m) in Hw. simpl in Hw. destruct (fin (krun (Some q) w)); [reflexivity|contradiction Hw; reflexivity].
  Qed.

  Lemma need_false q a : need = false -> In q K -> In a syms -> exists t, kstep m K (Some q) a = Some t /\ In t K.
  Proof.
    intros Hn Hq Ha. destruct (kstep m K (Some q) a) as [t|] eqn:E.
    - exists t. split; [reflexivity|]. pose proof (inQ_step (Some q) a (inQ_Some q Hq)) as H. rewrite E in H.
      apply kQ_In in H. exact H.
    - exfalso. assert (need = true); [|congruence].
      unfold trap_needed. apply existsb_exists. exists q. split; [exact Hq|].
      apply existsb_exists. exists a. split; [exact Ha|]. rewrite E. reflexivity.
  Qed.

  Lemma step_None_need q a : In q K -> In a syms -> kstep m K (Some q) a = None -> need = true.
  Proof.
    intros Hq Ha E. unfold trap_needed. apply existsb_exists. exists q. split; [exact Hq|].
    apply existsb_exists. exists a. split; [exact Ha|]. rewrite E. reflexivity.
  Qed.

  (* states of the result *)
  Lemma qstates_In r : In r qst <-> In r K /\ dr (Some r) = false /\ nm r = r.
  Proof.
    unfold qstates, live. rewrite !filter_In, negb_true_iff, Nat.eqb_eq. tauto.
  Qed.

  Lemma nm_in_qstates q : In q K -> dr (Some q) = false -> In (nm q) qst.
  Proof.
    intros Hq Hd. destruct (cname_in q Hq) as [H1 H2]. apply qstates_In. split; [exact H1|]. split.
    - rewrite (dr_class _ _ H2). exact Hd.
    - apply cname_idem. exact Hq.
  Qed.

  Lemma qstates_NoDup : NoDup qst.
  Proof. unfold qstates, live. apply NoDup_filter. apply NoDup_filter. apply ssorted_NoDup. apply (gk_sorted m K HK). Qed.

  Lemma qstates_length : length qst <= length K.
  Proof.
    unfold qstates, live. etransitivity; [apply filter_len_le|apply filter_len_le].
  Qed.

  (* the result automaton of the non-degenerate branch *)
  Definition qR : dfa :=
    mkdfa qst syms (qtrans m K c) (nm (d_init m)) (qfinals m K c) (qpartial m K c).

  Lemma qrow_opt r : qrow m K c r = opt_row (qtarget m K c r) syms.
  Proof. reflexivity. Qed.

  Lemma qR_row r : In r qst -> d_row qR r = Some (qrow m K c r).
  Proof. intro H. unfold d_row, qR, qtrans. simpl. apply assoc_map_key. exact H. Qed.

  Lemma qR_delta r a : In r qst -> d_delta qR r a = if memb a syms then qtarget m K c r a else None.
  Proof.
    intro H. unfold d_delta. rewrite (qR_row r H). rewrite qrow_opt. apply opt_row_assoc. exact syms_NoDup.
  Qed.

  Definition proj (x : option nat) : option nat :=
    if dr x then None else match x with Some t => Some (nm t) | None => None end.

  Definition okx (x : option nat) : Prop := match x with Some _ => True | None => need = true end.

  Lemma proj_class x y : In x Q -> c x = c y -> okx x -> okx y -> proj x = proj y.
  Proof.
    intros Hx H Ox Oy. unfold proj. rewrite (dr_class x y H). destruct (dr y) eqn:Ed; [reflexivity|].
    assert (Hdx : dr x = false) by (rewrite (dr_class x y H); exact Ed).
    destruct x as [p|], y as [q|]; simpl in *.
    - f_equal. apply cname_class; [apply kQ_In in Hx; exact Hx|exact H].
    - rewrite dr_None in Ed. congruence.
    - rewrite dr_None in Hdx. congruence.
    - reflexivity.
  Qed.

  Lemma okx_step q a : In q K -> In a syms -> okx (kstep m K (Some q) a).
  Proof.
    intros Hq Ha. destruct (kstep m K (Some q) a) eqn:E; [exact I|]. simpl. eapply step_None_need; eassumption.
  Qed.

  Lemma qtarget_proj r a : qtarget m K c r a = proj (kstep m K (Some r) a).
  Proof.
    unfold qtarget, proj. destruct (kstep m K (Some r) a) as [t|]; [reflexivity|]. destruct (dr None); reflexivity.
  Qed.

  (* runs of the result follow the kept system, up to the class names *)
  Lemma sim w : forall q, In q K -> dr (Some q) = false ->
    dfa_run qR (Some (nm q)) w = proj (krun (Some q) w).
  Proof.
    induction w as [|a w IH]; intros q Hq Hd.
    - simpl. unfold proj. rewrite Hd. reflexivity.
    - change (dfa_run qR (Some (nm q)) (a :: w)) with (dfa_run qR (d_delta qR (nm q) a) w).
      change (krun (Some q) (a :: w)) with (krun (kstep m K (Some q) a) w).
      rewrite (qR_delta _ a (nm_in_qstates q Hq Hd)).
      destruct (memb a syms) eqn:Ea.
      + apply memb_In in Ea. destruct (cname_in q Hq) as [Hnq Hcq].
        rewrite qtarget_proj.
        rewrite (proj_class (kstep m K (Some (nm q)) a) (kstep m K (Some q) a)
                   (inQ_step _ a (inQ_Some _ Hnq))
                   (congr _ _ a (inQ_Some _ Hnq) (inQ_Some _ Hq) Hcq) (okx_step _ a Hnq Ea) (okx_step _ a Hq Ea)).
        pose proof (inQ_step (Some q) a (inQ_Some q Hq)) as Hy.
        pose proof (okx_step q a Hq Ea) as Oy.
        destruct (dr (kstep m K (Some q) a)) eqn:Ed.
        * unfold proj at 1. rewrite Ed. rewrite dfa_run_None.
          unfold proj. rewrite (dr_run w _ Hy Ed). reflexivity.
        * destruct (kstep m K (Some q) a) as [t|] eqn:Ek.
          -- unfold proj at 1. rewrite Ed. apply IH; [apply kQ_In in Hy; exact Hy|exact Ed].
          -- simpl in Oy. rewrite dr_None in Ed. congruence.
      + apply memb_false in Ea. rewrite dfa_run_None.
        rewrite (kstep_foreign m Hv K (Some q) None a Ea). simpl. rewrite (krun_None m).
        unfold proj. destruct (dr None); reflexivity.
  Qed.

  Lemma final_not_dropped q : In q K -> In q (d_finals m) -> dr (Some q) = false.
  Proof.
    intros Hq Hf. destruct (dr (Some q)) eqn:E; [|reflexivity].
    pose proof (dr_fin (Some q) [] (inQ_Some q Hq) E) as H. simpl in H. apply memb_In in Hf. congruence.
  Qed.

  Lemma qfinals_In v : In v (qfinals m K c) <-> exists q, In q K /\ In q (d_finals m) /\ nm q = v.
  Proof.
    unfold qfinals. rewrite set_of_In, in_map_iff. split.
    - intros [q [E H]]. apply filter_In in H. destruct H as [H1 H2]. apply memb_In in H2. exists q. tauto.
    - intros [q [H1 [H2 E]]]. exists q. split; [exact E|]. apply filter_In. split; [exact H1|apply memb_In; exact H2].
  Qed.

  Lemma qfinals_spec t : In t K -> memb (nm t) (qfinals m K c) = memb t (d_finals m).
  Proof.
    intro Ht. apply eq_iff_eq_true. rewrite !memb_In, qfinals_In. split.
    - intros [q [Hq [Hf E]]].
      assert (Hc : c (Some q) = c (Some t)).
      { destruct (cname_in q Hq) as [_ H1]. destruct (cname_in t Ht) as [_ H2]. rewrite <- H1, <- H2, E. reflexivity. }
      pose proof (class_fin _ _ (inQ_Some q Hq) (inQ_Some t Ht) Hc) as H. simpl in H.
      apply memb_In. rewrite <- H. apply memb_In. exact Hf.
    - intro Hf. exists t. tauto.
  Qed.

  Lemma fin_proj x : In x Q -> ofinal qR (proj x) = fin x.
  Proof.
    intro Hx. unfold proj. destruct (dr x) eqn:Ed.
    - simpl. symmetry. apply (dr_fin x [] Hx Ed).
    - destruct x as [t|]; [|reflexivity]. simpl. apply qfinals_spec. apply kQ_In in Hx. exact Hx.
  Qed.

  Lemma qR_acc_from q w : In q K -> dr (Some q) = false ->
    dfa_acc_from qR (Some (nm q)) w = fin (krun (Some q) w).
  Proof.
    intros Hq Hd. unfold dfa_acc_from. rewrite (sim w q Hq Hd). apply fin_proj. apply inQ_run. apply inQ_Some. exact Hq.
  Qed.

  Hypothesis init_live : dr (Some (d_init m)) = false.

  Lemma qR_lang w : dfa_acc qR w = dfa_acc m w.
  Proof.
    unfold dfa_acc. change (d_init qR) with (nm (d_init m)).
    rewrite (qR_acc_from _ w (gk_init m K HK) init_live). apply (kacc m K HK). apply (gk_init m K HK).
  Qed.

  Lemma qtarget_in r a v : In r qst -> qtarget m K c r a = Some v -> In v qst.
  Proof.
    intros Hr H. unfold qtarget in H. destruct (kstep m K (Some r) a) as [t|] eqn:E; [|discriminate].
    destruct (dr (Some t)) eqn:Ed; [discriminate|]. inversion H; subst v.
    apply nm_in_qstates; [|exact Ed]. apply qstates_In in Hr.
    pose proof (inQ_step (Some r) a (inQ_Some r (proj1 Hr))) as Hy. rewrite E in Hy. apply kQ_In in Hy. exact Hy.
  Qed.

  Lemma qR_valid : valid_dfa qR = true.
  Proof.
    unfold valid_dfa. repeat (apply andb_true_iff; split).
    - apply nodupb_NoDup. exact qstates_NoDup.
    - apply nodupb_NoDup. exact syms_NoDup.
    - apply nodupb_NoDup. simpl. unfold qtrans. rewrite map_map. simpl. rewrite map_id. exact qstates_NoDup.
    - apply forallb_forall. intros r Hr. simpl in *. apply memb_In. unfold qtrans. rewrite map_map. simpl.
      rewrite map_id. exact Hr.
    - apply forallb_forall. intros [r row] Hin. simpl in Hin. unfold qtrans in Hin. apply in_map_iff in Hin.
      destruct Hin as [r' [E Hr]]. inversion E; subst r' row. simpl snd. clear E.
      unfold row_ok. repeat (apply andb_true_iff; split).
      + apply nodupb_NoDup. rewrite qrow_opt. apply opt_row_NoDup. exact syms_NoDup.
      + apply forallb_forall. intros [a v] Hin. rewrite qrow_opt in Hin. apply opt_row_In in Hin.
        destruct Hin as [Ha Ht]. simpl. apply andb_true_iff. split; apply memb_In; [exact Ha|].
        eapply qtarget_in; eassumption.
      + simpl d_partial. destruct (qpartial m K c) eqn:Ep; [reflexivity|]. simpl.
        unfold qpartial in Ep. apply negb_false_iff in Ep. rewrite forallb_forall in Ep.
        specialize (Ep r Hr). apply Nat.eqb_eq in Ep. rewrite qrow_opt in Ep.
        apply forallb_forall. intros a Ha. apply memb_In.
        pose proof (opt_row_full _ _ Ep a Ha) as Hn.
        destruct (qtarget m K c r a) as [v|] eqn:Et; [|contradiction Hn; reflexivity].
        apply in_map_iff. exists (a, v). split; [reflexivity|]. rewrite qrow_opt. apply opt_row_In. split; assumption.
    - apply memb_In. simpl. apply nm_in_qstates; [apply (gk_init m K HK)|exact init_live].
    - apply subsetb_incl. intros v Hv'. simpl in Hv'. apply qfinals_In in Hv'. destruct Hv' as [q [Hq [Hf <-]]].
      simpl. apply nm_in_qstates; [exact Hq|apply final_not_dropped; assumption].
  Qed.

  Lemma qR_struct : min_struct qR.
  Proof.
    constructor.
    - intros r Hr. simpl in Hr. pose proof Hr as Hr'. apply qstates_In in Hr'. destruct Hr' as [HrK [Hd Hn]].
      destruct (gk_access m K HK r HrK) as [u Hu]. exists u.
      change (d_init qR) with (nm (d_init m)). rewrite (sim u _ (gk_init m K HK) init_live), Hu.
      unfold proj. rewrite Hd, Hn. reflexivity.
    - intros r1 r2 H1 H2 Hne. simpl in H1, H2. apply qstates_In in H1. apply qstates_In in H2.
      destruct H1 as [K1 [D1 N1]]. destruct H2 as [K2 [D2 N2]].
      assert (Hc : c (Some r1) <> c (Some r2)).
      { intro E. apply Hne. rewrite <- N1, <- N2. apply cname_class; [exact K1|exact E]. }
      destruct (dist _ _ (inQ_Some _ K1) (inQ_Some _ K2) Hc) as [w [_ Hw]]. exists w.
      rewrite <- N1 at 1. rewrite <- N2 at 1. rewrite (qR_acc_from r1 w K1 D1), (qR_acc_from r2 w K2 D2). exact Hw.
    - intros Hp r Hr. simpl in Hp, Hr. apply qstates_In in Hr. destruct Hr as [HrK [Hd Hn]].
      assert (Hneed : need = true).
      { destruct need eqn:En; [reflexivity|exfalso].
        unfold qpartial in Hp. apply negb_true_iff in Hp. apply forallb_false_ex in Hp.
        destruct Hp as [r' [Hr' Hl]]. apply Nat.eqb_neq in Hl. rewrite qrow_opt in Hl.
        apply opt_row_short in Hl. destruct Hl as [a [Ha Hn']]. apply qstates_In in Hr'.
        destruct (need_false r' a En (proj1 Hr') Ha) as [t [Et Ht]].
        unfold qtarget in Hn'. rewrite Et in Hn'. unfold dropped in Hn'. rewrite En in Hn'. simpl in Hn'. discriminate. }
      destruct (live_word r HrK Hneed Hd) as [w Hw]. exists w. rewrite <- Hn. rewrite (qR_acc_from r w HrK Hd). exact Hw.
    - intros Hp Hc. simpl in Hp. unfold qpartial in Hp. apply negb_true_iff in Hp. apply forallb_false_ex in Hp.
      destruct Hp as [r [Hr Hl]]. apply Nat.eqb_neq in Hl. rewrite qrow_opt in Hl.
      apply opt_row_short in Hl. destruct Hl as [a [Ha Hn]].
      destruct (Hc r a Hr Ha) as [q' Hq']. rewrite (qR_delta r a Hr) in Hq'.
      apply memb_In in Ha. rewrite Ha, Hn in Hq'. discriminate.
  Qed.
End Quotient.
