(* NFA.from_regex as a whole, and the comparison helpers of regex.py. *)
From Coq Require Import List Arith Bool Lia.
From AV Require Import Base.Util Spec.Lang Spec.FA Spec.Regex Model.Decide
                       Model.RegexLex Model.RegexParse Model.RegexBuild Model.RegexCmp
                       Proofs.Decide Proofs.RegexFrag Proofs.RegexProd Proofs.RegexBuild.
Import ListNotations.

Lemma ssorted_NoDup l : ssorted l -> NoDup l.
Proof.
  induction l as [|x l IH]; intro H; constructor.
  - intro Hi. pose proof (ssorted_lt _ _ H _ Hi). lia.
  - apply IH. eapply ssorted_tail. exact H.
Qed.

Lemma symbols_ok_spec sigma F :
  symbols_ok sigma F = true <-> forall p a q, In (p, Some a, q) (f_edges F) -> In a sigma.
Proof.
  unfold symbols_ok. rewrite forallb_forall. split.
  - intros H p a q Hi. specialize (H _ Hi). unfold e_lab in H. simpl in H. apply memb_In. exact H.
  - intros H [[p [a|]] q] Hi; unfold e_lab; simpl; [|reflexivity]. apply memb_In. exact (H _ _ _ Hi).
Qed.

Lemma nfa_of_valid sigma F c0 c1 :
  NoDup sigma -> wf c0 F c1 -> symbols_ok sigma F = true -> valid_nfa (nfa_of sigma F) = true.
Proof.
  intros Hs Hw Hok. unfold valid_nfa, nfa_of. cbn [n_states n_syms n_trans n_init n_finals].
  assert (Hkeys : map fst (map (fun q => (q, row_of (f_edges F) q)) (f_states F)) = f_states F).
  { rewrite map_map. simpl. apply map_id. }
  rewrite Hkeys.
  assert (Hst : nodupb (f_states F) = true) by (apply nodupb_NoDup; exact (wf_nodup _ _ _ Hw)).
  assert (Hsy : nodupb sigma = true) by (apply nodupb_NoDup; exact Hs).
  assert (Hin : memb (f_init F) (f_states F) = true) by (apply memb_In; exact (wf_init _ _ _ Hw)).
  assert (Hfi : subsetb (f_finals F) (f_states F) = true).
  { apply subsetb_incl. intros q Hq. exact (wf_finals _ _ _ Hw _ Hq). }
  rewrite Hst, Hsy, Hin, Hfi. cbn [andb orb]. rewrite !andb_true_r.
  apply forallb_forall. intros [q row] Hr. apply in_map_iff in Hr. destruct Hr as [q' [Er Hq']].
  inversion Er; subst q' row. simpl. unfold nrow_ok. apply forallb_forall.
  intros [l ts] Hl. unfold row_of in Hl. apply in_map_iff in Hl. destruct Hl as [l' [El Hl']].
  inversion El; subst l' ts. simpl. apply (proj1 (olabels_In _ _)) in Hl'. apply in_map_iff in Hl'.
  destruct Hl' as [[[p l0] t] [El0 He]]. unfold e_lab in El0. simpl in El0. subst l0.
  apply (proj1 (out_edges_In _ _ _)) in He. destruct He as [He Ep]. unfold e_src in Ep. simpl in Ep. subst p.
  apply andb_true_iff. split.
  - destruct l as [a|]; [|reflexivity]. apply memb_In.
    exact (proj1 (symbols_ok_spec sigma F) Hok _ _ _ He).
  - apply subsetb_incl. intros x Hx. cbn [n_states]. apply (proj1 (set_of_In _ _)) in Hx. apply (proj1 (targets_In _ _ _ _)) in Hx.
    exact (wf_dst _ _ _ Hw _ _ _ Hx).
Qed.

(* ---- renaming a whole fragment by an offset ---- *)
Lemma shiftf_wf d F c0 c1 : wf c0 F c1 -> wf (c0 + d) (shiftf d F) (c1 + d).
Proof.
  intros Hw. constructor; cbn [shiftf f_states f_edges f_init f_finals].
  - intros q Hq. apply in_map_iff in Hq. destruct Hq as [q0 [<- Hq]]. pose proof (wf_range _ _ _ Hw _ Hq). lia.
  - apply NoDup_map_add. exact (wf_nodup _ _ _ Hw).
  - intros p l q He. apply shift_edge_in in He. destruct He as [p0 [q0 [-> [-> He]]]].
    apply in_map_iff. exists p0. split; [reflexivity|exact (wf_src _ _ _ Hw _ _ _ He)].
  - intros p l q He. apply shift_edge_in in He. destruct He as [p0 [q0 [-> [-> He]]]].
    apply in_map_iff. exists q0. split; [reflexivity|exact (wf_dst _ _ _ Hw _ _ _ He)].
  - apply in_map_iff. exists (f_init F). split; [reflexivity|exact (wf_init _ _ _ Hw)].
  - intros q Hq. apply in_map_iff in Hq. destruct Hq as [q0 [<- Hq]].
    apply in_map_iff. exists q0. split; [reflexivity|exact (wf_finals _ _ _ Hw _ Hq)].
  - intros p l He. apply shift_edge_in in He. destruct He as [p0 [q0 [_ [Eq He]]]].
    assert (q0 = f_init F) by lia. subst q0. exact (wf_noin _ _ _ Hw _ _ He).
Qed.

Lemma shiftf_lang d F : L_frag (shiftf d F) =L L_frag F.
Proof.
  intro w. unfold L_frag. cbn [shiftf f_edges f_init f_finals]. split.
  - intros [q [Hp Hf]]. apply fpath_shift in Hp. destruct Hp as [a' [-> Hp]].
    apply in_map_iff in Hf. destruct Hf as [f [Ef Hf]]. assert (f = a') by lia. subst f.
    exists a'. auto.
  - intros [q [Hp Hf]]. exists (q + d). split; [apply fpath_shift; exists q; auto|].
    apply in_map_iff. exists q. auto.
Qed.

(* ---- compile ---- *)
Theorem compile_re_sound sigma r m : NoDup sigma -> compile_re sigma r = Ok m ->
  valid_nfa m = true /\ L_nfa m =L den sigma r /\ n_syms m = sigma.
Proof.
  intros Hs. unfold compile_re. destruct (symbols_ok sigma (fst (build sigma r 0))) eqn:Hok; [|discriminate].
  intro H. inversion H; subst m. clear H. split; [|split].
  - exact (nfa_of_valid _ _ _ _ Hs (build_wf sigma r 0) Hok).
  - apply build_lang.
  - reflexivity.
Qed.

Lemma compile_re_err sigma r e : compile_re sigma r = Err e -> e = Invalid 2.
Proof. unfold compile_re. destruct (symbols_ok _ _); [discriminate|]. intro H. inversion H. reflexivity. Qed.

Lemma default_alphabet_NoDup cs : NoDup (default_alphabet cs).
Proof. apply ssorted_NoDup. apply set_of_sorted. Qed.

Definition alpha_ok (alpha : option (list nat)) : Prop :=
  match alpha with Some s => NoDup s | None => True end.

Lemma alphabet_of_NoDup cs alpha sigma : alpha_ok alpha -> alphabet_of cs alpha = Ok sigma -> NoDup sigma.
Proof.
  destruct alpha as [s|]; simpl; intros Ha H.
  - destruct (existsb is_reserved s); [discriminate|]. inversion H; subst. exact Ha.
  - inversion H. apply default_alphabet_NoDup.
Qed.

(* NFA.from_regex: when it returns, the NFA is valid, is over the requested (or derived)
   alphabet, and its language is the denotation of the parsed expression *)
Theorem compile_sound cs alpha m : alpha_ok alpha -> compile cs alpha = Ok m ->
  exists sigma r, alphabet_of cs alpha = Ok sigma /\ parse cs = Ok r /\
    valid_nfa m = true /\ n_syms m = sigma /\ L_nfa m =L den sigma r.
Proof.
  intros Ha. unfold compile. destruct (alphabet_of cs alpha) as [sigma|e] eqn:E1; [|discriminate].
  simpl. destruct (parse cs) as [r|e] eqn:E2; [|discriminate]. simpl. intro H.
  destruct (compile_re_sound sigma r m (alphabet_of_NoDup _ _ _ Ha E1) H) as [H1 [H2 H3]].
  exists sigma, r. auto.
Qed.

(* ---- the helpers over a common alphabet ---- *)
Lemma same_set_spec a b : same_set a b = true <-> (forall x, In x a <-> In x b).
Proof.
  unfold same_set. rewrite andb_true_iff, !subsetb_incl. unfold incl. split.
  - intros [H1 H2] x. split; auto.
  - intro H. split; intros x Hx; apply H; exact Hx.
Qed.

Lemma nfa_eqb_spec A B b : valid_nfa A = true -> valid_nfa B = true ->
  same_set (n_syms A) (n_syms B) = true -> nfa_eqb A B = Ok b ->
  (b = true <-> L_nfa A =L L_nfa B).
Proof.
  intros HA HB Hs. unfold nfa_eqb. rewrite Hs.
  destruct (nfa_diff A B) as [r|e] eqn:E; [|discriminate].
  destruct (nfa_diff_sound A B HA HB r E) as [H1 _].
  destruct r as [w|]; intro H; inversion H; subst b.
  - split; [discriminate|]. intro HL. apply H1 in HL. discriminate.
  - split; [intros _; apply H1; reflexivity|reflexivity].
Qed.

Lemma nfa_eqb_err A B e : nfa_eqb A B = Err e -> e = Fuel.
Proof.
  unfold nfa_eqb. destruct (same_set _ _); [|discriminate].
  unfold nfa_diff, ores. destruct (gdiff _ _ _ _ _ _ _ _ _ _ _ _) as [[w|]|]; try discriminate.
  intro H. inversion H. reflexivity.
Qed.

Section Helpers.
  Variables (a b sigma : list nat).
  Hypothesis Hnd : NoDup sigma.

  Lemma two_regexes_spec p : two_regexes a b (Some sigma) = Ok p ->
    exists ra rb, p = ((sigma, ra), (sigma, rb)) /\ parse a = Ok ra /\ parse b = Ok rb /\
      symbols_ok sigma (fst (build sigma ra 0)) = true /\
      symbols_ok sigma (fst (build sigma rb 0)) = true.
  Proof.
    unfold two_regexes, alphabet_of. destruct (existsb is_reserved sigma); [discriminate|]. simpl.
    destruct (parse a) as [ra|e] eqn:Ea; [|discriminate]. simpl.
    unfold compile_re at 1. destruct (symbols_ok sigma (fst (build sigma ra 0))) eqn:Oa; [|discriminate]. simpl.
    destruct (parse b) as [rb|e] eqn:Eb; [|discriminate]. simpl.
    unfold compile_re. destruct (symbols_ok sigma (fst (build sigma rb 0))) eqn:Ob; [|discriminate]. simpl.
    intro H. inversion H. exists ra, rb. auto.
  Qed.

  Lemma union_nfa_spec ra rb :
    symbols_ok sigma (fst (build sigma ra 0)) = true ->
    symbols_ok sigma (fst (build sigma rb 0)) = true ->
    valid_nfa (union_nfa sigma ra sigma rb) = true /\
    same_set (n_syms (union_nfa sigma ra sigma rb)) sigma = true /\
    L_nfa (union_nfa sigma ra sigma rb) =L l_union (den sigma ra) (den sigma rb).
  Proof.
    intros Oa Ob. unfold union_nfa.
    pose proof (build_wf sigma ra 0) as W1. pose proof (build_frag_lang sigma ra 0) as L1.
    destruct (build sigma ra 0) as [A c1] eqn:EA. cbn [fst snd] in W1, L1, Oa.
    pose proof (build_wf sigma rb 0) as W2. pose proof (build_frag_lang sigma rb 0) as L2.
    destruct (build sigma rb 0) as [B c2] eqn:EB. cbn [fst snd] in W2, L2, Ob.
    pose proof (shiftf_wf c1 _ _ _ W2) as W2'. simpl in W2'. rewrite (Nat.add_comm c2 c1) in W2'.
    pose proof (union_wf _ _ _ _ _ W1 W2') as WU.
    assert (OU : symbols_ok (set_of (sigma ++ sigma)) (fst (f_union A (shiftf c1 B) (c1 + c2))) = true).
    { apply symbols_ok_spec. intros p x q Hi. apply set_of_In. apply in_or_app. left.
      apply (proj1 (union_edge c1 (c1 + c2) A (shiftf c1 B) W2' p (Some x) q)) in Hi. destruct Hi as [Hi|[Hi|[_ [Hi _]]]].
      - exact (proj1 (symbols_ok_spec sigma A) Oa _ _ _ Hi).
      - cbn [shiftf f_edges] in Hi. apply shift_edge_in in Hi. destruct Hi as [p0 [q0 [_ [_ Hi]]]].
        exact (proj1 (symbols_ok_spec sigma B) Ob _ _ _ Hi).
      - discriminate. }
    split; [|split].
    - exact (nfa_of_valid _ _ _ _ (ssorted_NoDup _ (set_of_sorted _)) WU OU).
    - apply same_set_spec. intro x. cbn [nfa_of n_syms]. rewrite set_of_In, in_app_iff. tauto.
    - eapply lang_eq_trans; [exact (nfa_of_lang _ _ _ _ WU)|].
      eapply lang_eq_trans; [exact (union_lang _ _ _ _ _ W1 W2')|].
      apply lang_eq_union; [exact L1|].
      eapply lang_eq_trans; [apply shiftf_lang|exact L2].
  Qed.

  Lemma compiled_spec r : symbols_ok sigma (fst (build sigma r 0)) = true ->
    valid_nfa (nfa_of sigma (fst (build sigma r 0))) = true /\
    L_nfa (nfa_of sigma (fst (build sigma r 0))) =L den sigma r.
  Proof.
    intro O. split; [exact (nfa_of_valid _ _ _ _ Hnd (build_wf sigma r 0) O)|apply build_lang].
  Qed.

  Lemma same_set_refl s : same_set s s = true.
  Proof. apply same_set_spec. tauto. Qed.

  (* isequal / issubset / issuperset decide equality / inclusion of the denotations *)
  Theorem isequal_exact bb : isequal a b (Some sigma) = Ok bb ->
    exists ra rb, parse a = Ok ra /\ parse b = Ok rb /\ (bb = true <-> den sigma ra =L den sigma rb).
  Proof.
    unfold isequal. destruct (two_regexes a b (Some sigma)) as [p|e] eqn:E; [|discriminate].
    destruct (two_regexes_spec p E) as [ra [rb [-> [Pa [Pb [Oa Ob]]]]]]. simpl.
    destruct (compiled_spec ra Oa) as [Va La]. destruct (compiled_spec rb Ob) as [Vb Lb].
    intro H. exists ra, rb. split; [exact Pa|]. split; [exact Pb|].
    rewrite (nfa_eqb_spec _ _ bb Va Vb (same_set_refl _) H). split; intro HL.
    - eapply lang_eq_trans; [apply lang_eq_sym; exact La|]. eapply lang_eq_trans; [exact HL|exact Lb].
    - eapply lang_eq_trans; [exact La|]. eapply lang_eq_trans; [exact HL|apply lang_eq_sym; exact Lb].
  Qed.

  Theorem issubset_exact bb : issubset a b (Some sigma) = Ok bb ->
    exists ra rb, parse a = Ok ra /\ parse b = Ok rb /\
      (bb = true <-> forall w, den sigma ra w -> den sigma rb w).
  Proof.
    unfold issubset. destruct (two_regexes a b (Some sigma)) as [p|e] eqn:E; [|discriminate].
    destruct (two_regexes_spec p E) as [ra [rb [-> [Pa [Pb [Oa Ob]]]]]]. simpl.
    destruct (union_nfa_spec ra rb Oa Ob) as [Vu [Su Lu]]. destruct (compiled_spec rb Ob) as [Vb Lb].
    intro H. exists ra, rb. split; [exact Pa|]. split; [exact Pb|].
    rewrite (nfa_eqb_spec _ _ bb Vu Vb Su H). split.
    - intros HL w Hw. apply Lb. apply HL. apply Lu. left. exact Hw.
    - intros Hsub w. rewrite (Lu w), (Lb w). unfold l_union. split; [intros [Hw|Hw]; auto|auto].
  Qed.

  Theorem issuperset_exact bb : issuperset a b (Some sigma) = Ok bb ->
    exists ra rb, parse a = Ok ra /\ parse b = Ok rb /\
      (bb = true <-> forall w, den sigma rb w -> den sigma ra w).
  Proof.
    unfold issuperset. destruct (two_regexes a b (Some sigma)) as [p|e] eqn:E; [|discriminate].
    destruct (two_regexes_spec p E) as [ra [rb [-> [Pa [Pb [Oa Ob]]]]]]. simpl.
    destruct (union_nfa_spec ra rb Oa Ob) as [Vu [Su Lu]]. destruct (compiled_spec ra Oa) as [Va La].
    intro H. exists ra, rb. split; [exact Pa|]. split; [exact Pb|].
    rewrite (nfa_eqb_spec _ _ bb Vu Va Su H). split.
    - intros HL w Hw. apply La. apply HL. apply Lu. right. exact Hw.
    - intros Hsub w. rewrite (Lu w), (La w). unfold l_union. split; [intros [Hw|Hw]; auto|auto].
  Qed.

  (* the helpers fail only the way one of the two from_regex calls fails (the comparator's
     fuel bound aside, which the correspondence run reports separately) *)
  Theorem helpers_errors e :
    (isequal a b (Some sigma) = Err e \/ issubset a b (Some sigma) = Err e \/
     issuperset a b (Some sigma) = Err e) ->
    e = Fuel \/ compile a (Some sigma) = Err e \/
    (exists m, compile a (Some sigma) = Ok m /\ compile b (Some sigma) = Err e).
  Proof.
    assert (Htwo : forall e', two_regexes a b (Some sigma) = Err e' ->
              compile a (Some sigma) = Err e' \/
              (exists m, compile a (Some sigma) = Ok m /\ compile b (Some sigma) = Err e')).
    { intros e'. unfold two_regexes, compile.
      unfold alphabet_of. destruct (existsb is_reserved sigma) eqn:Er; simpl;
        [intro H; left; inversion H; reflexivity|].
      set (sa := sigma).
      destruct (parse a) as [ra|ea] eqn:Pa; simpl; [|intro H; left; inversion H; reflexivity].
      destruct (compile_re sa ra) as [ma|ea] eqn:Ca; simpl; [|intro H; left; inversion H; reflexivity].
      intro H. right. exists ma. split; [reflexivity|].
      destruct (parse b) as [rb|eb] eqn:Pb; simpl in *; [|inversion H; reflexivity].
      destruct (compile_re sa rb) as [mb|eb] eqn:Cb; simpl in *; [discriminate|inversion H; reflexivity]. }
    unfold isequal, issubset, issuperset.
    destruct (two_regexes a b (Some sigma)) as [[[sa ra] [sb rb]]|e'] eqn:E; simpl.
    - intros [H|[H|H]]; left; exact (nfa_eqb_err _ _ _ H).
    - intros [H|[H|H]]; inversion H; subst e'; right; exact (Htwo e eq_refl).
  Qed.
End Helpers.
