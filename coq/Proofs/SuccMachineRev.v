(* C14 T2 (reverse direction): the mirror stack machine run with reverse=True generates pred_list.
   Post-order over the alphabet in descending order: a word is generated when the traversal
   leaves it (candidate None), the empty word after the loop.  A configuration (p, Some a) has
   processed exactly the words above the subtree p.a; (p, None) exactly the words above p. *)
From Coq Require Import List Arith Bool Lia Sorted.
From AV Require Import Base.Util Base.Closure Spec.Lang Spec.FA Spec.DictOrder Model.Decide Model.Product
                       Model.Succ Model.SuccMachine Proofs.FARun Proofs.Product Proofs.FiniteSucc Proofs.Succ
                       Proofs.SuccMachine.
Import ListNotations.

Lemma is_prefix_dec q : forall w, is_prefix q w \/ ~ is_prefix q w.
Proof.
  induction q as [|c q IH]; intro w; [left; apply is_prefix_nil|].
  destruct w as [|y v]; [right; intros [z H]; discriminate|].
  destruct (Nat.eq_dec y c) as [E|E].
  - destruct (IH v) as [H|H]; [left; apply is_prefix_cons; tauto|right; rewrite is_prefix_cons; tauto].
  - right. rewrite is_prefix_cons. tauto.
Qed.

Lemma prefix_not_lt q w : is_prefix q w -> ~ lex_lt w q.
Proof.
  intros [z ->] H. destruct z as [|c z].
  - rewrite app_nil_r in H. exact (lex_lt_irrefl _ H).
  - exact (lex_lt_asym _ _ H (lex_lt_prefix q c z)).
Qed.

(* symbol_succ on the alphabet in descending order *)
Lemma sym_succ_some_d l : StronglySorted (fun x y => y < x) l -> forall a b, sym_succ l a = Ok (Some b) ->
  In a l /\ In b l /\ b < a /\ forall y, In y l -> b < y -> a <= y.
Proof.
  induction l as [|x r IH]; intros Hs a b H; simpl in H; [discriminate|].
  inversion Hs as [|? ? Hsr Hf]; subst. rewrite Forall_forall in Hf.
  destruct (a =? x) eqn:E.
  - apply Nat.eqb_eq in E. subst x. destruct r as [|b' r']; simpl in H; [discriminate|].
    inversion H; subst b'. inversion Hsr as [|? ? _ Hf']; subst. rewrite Forall_forall in Hf'.
    split; [left; reflexivity|]. split; [right; left; reflexivity|].
    split; [apply Hf; left; reflexivity|].
    intros y Hy Hby. destruct Hy as [Hy|[Hy|Hy]]; [lia|lia|]. specialize (Hf' y Hy). lia.
  - apply Nat.eqb_neq in E. destruct (IH Hsr a b H) as [Ha [Hb [Hab Hadj]]].
    split; [right; exact Ha|]. split; [right; exact Hb|]. split; [exact Hab|].
    intros y Hy Hby. destruct Hy as [Hy|Hy]; [|apply Hadj; assumption].
    specialize (Hf a Ha). lia.
Qed.

Lemma sym_succ_none_d l : StronglySorted (fun x y => y < x) l -> forall a, sym_succ l a = Ok None ->
  In a l /\ forall y, In y l -> a <= y.
Proof.
  induction l as [|x r IH]; intros Hs a H; simpl in H; [discriminate|].
  inversion Hs as [|? ? Hsr Hf]; subst. rewrite Forall_forall in Hf.
  destruct (a =? x) eqn:E.
  - apply Nat.eqb_eq in E. subst x. destruct r as [|b' r']; simpl in H; [|discriminate].
    split; [left; reflexivity|]. intros y [Hy|[]]. lia.
  - apply Nat.eqb_neq in E. destruct (IH Hsr a H) as [Ha Hmin].
    split; [right; exact Ha|]. intros y [Hy|Hy]; [|apply Hmin; exact Hy].
    specialize (Hf a Ha). lia.
Qed.

Lemma find_lt_some l : StronglySorted (fun x y => y < x) l -> forall a b,
  find (fun b => b <? a) l = Some b -> In b l /\ b < a /\ forall y, In y l -> b < y -> a <= y.
Proof.
  induction l as [|x r IH]; intros Hs a b H; simpl in H; [discriminate|].
  inversion Hs as [|? ? Hsr Hf]; subst. rewrite Forall_forall in Hf.
  destruct (x <? a) eqn:E.
  - inversion H; subst x. apply Nat.ltb_lt in E. split; [left; reflexivity|]. split; [exact E|].
    intros y [Hy|Hy] Hby; [lia|]. specialize (Hf y Hy). lia.
  - apply Nat.ltb_ge in E. destruct (IH Hsr a b H) as [Hb [Hba Hadj]].
    split; [right; exact Hb|]. split; [exact Hba|]. intros y [Hy|Hy] Hby; [lia|apply Hadj; assumption].
Qed.

Lemma next_sym_rev_some l : StronglySorted (fun x y => y < x) l -> forall a b, next_sym l true a = Some b ->
  In b l /\ b < a /\ forall y, In y l -> b < y -> a <= y.
Proof.
  intros Hs a b H. destruct (in_dec Nat.eq_dec a l) as [Ha|Ha].
  - destruct (sym_succ_total l a Ha) as [n En]. rewrite (next_sym_in l a Ha true n En) in H. subst n.
    destruct (sym_succ_some_d l Hs a b En) as [_ [Hb [Hba Hadj]]]. auto.
  - rewrite (next_sym_out l a true Ha) in H. exact (find_lt_some l Hs a b H).
Qed.

Lemma next_sym_rev_none l : StronglySorted (fun x y => y < x) l -> forall a, next_sym l true a = None ->
  forall y, In y l -> a <= y.
Proof.
  intros Hs a H. destruct (in_dec Nat.eq_dec a l) as [Ha|Ha].
  - destruct (sym_succ_total l a Ha) as [n En]. rewrite (next_sym_in l a Ha true n En) in H. subst n.
    exact (proj2 (sym_succ_none_d l Hs a En)).
  - rewrite (next_sym_out l a true Ha) in H. intros y Hy.
    pose proof (find_none _ _ H y Hy) as E. simpl in E. apply Nat.ltb_ge in E. exact E.
Qed.

Lemma ssorted_SS l : ssorted l -> StronglySorted lt l.
Proof.
  induction l as [|x r IH]; intro H; constructor.
  - apply IH. eapply ssorted_tail. exact H.
  - apply Forall_forall. intros y Hy. exact (ssorted_lt _ _ H y Hy).
Qed.

Section Rev.
  Variable m : dfa.
  Hypothesis Hv : valid_dfa m = true.
  Variables (start : option word) (strict : bool) (lo : nat) (ohi : option nat).
  Hypothesis Hfin : finite_lang (L_dfa m).
  Variable co : list nat.
  Hypothesis Hco : forall q, In q co <-> In q (d_states m) /\ coacc m q.
  Variable syms : list nat.
  Hypothesis Hds : StronglySorted (fun x y => y < x) syms.
  Hypothesis Hsy : forall a, In a syms <-> In a (d_syms m).
  Variable first : nat.
  Hypothesis Hfirst : forall y, In y syms -> y <= first.
  Hypothesis Hfirst_in : In first syms.

  Notation ov := (Forall (fun x => In x syms)).
  Notation hi := (the_hi m ohi).
  Notation spec := (pred_spec m start strict lo hi).
  Notation run w := (dfa_run m (Some (d_init m)) w).

  Definition below (x w : word) : Prop := lex_lt w x \/ is_prefix x w.

  Definition procR (C : cfg) (w : word) : Prop :=
    match c_cand C with
    | Some a => ~ below (rev (c_chars C) ++ [a]) w
    | None => lex_lt (rev (c_chars C)) w \/ (c_yield C = false /\ w = rev (c_chars C))
    end.

  Definition InvR (out : list word) (C : cfg) : Prop :=
    StronglySorted lex_gt out /\
    (forall w, In w out <-> spec w /\ procR C w) /\
    (forall w, ov w -> ~ procR C w -> before start strict w).

  Lemma spec_overR w : spec w -> ov w.
  Proof.
    intros [Hw _]. pose proof (acc_syms m Hv w Hw) as H. rewrite Forall_forall in *.
    intros a Ha. apply Hsy. apply H. exact Ha.
  Qed.

  Lemma acc_over p : dfa_acc m p = true -> ov p.
  Proof.
    intro Hw. pose proof (acc_syms m Hv p Hw) as H. rewrite Forall_forall in *.
    intros a Ha. apply Hsy. apply H. exact Ha.
  Qed.

  Lemma nonviableR p a :
    in_co co (ostep m (run p) a) && can_descend ohi (length p) = false ->
    forall w, is_prefix (p ++ [a]) w -> ~ spec w.
  Proof.
    intros Hnv w [z ->] [Hacc [[_ Hlen] _]]. apply andb_false_iff in Hnv. destruct Hnv as [Hnv|Hnv].
    - unfold L_dfa, dfa_acc, dfa_acc_from in Hacc. rewrite !dfa_run_app in Hacc. simpl in Hacc.
      destruct (ostep m (run p) a) as [t|] eqn:Et; [|rewrite dfa_run_None in Hacc; discriminate].
      simpl in Hnv. apply memb_false in Hnv. apply Hnv. apply Hco. split.
      + pose proof (dfa_run_ok m Hv (p ++ [a]) _ (init_ok m Hv)) as Hok.
        rewrite dfa_run_app in Hok. simpl in Hok. rewrite Et in Hok. exact Hok.
      + exists z. exact Hacc.
    - unfold can_descend in Hnv. destruct ohi as [h|] eqn:Eo; [|discriminate].
      apply Nat.ltb_ge in Hnv. simpl in Hlen. rewrite !app_length in Hlen. simpl in Hlen. lia.
  Qed.

  (* after moving to the next (smaller) sibling, or to "no sibling left", exactly the words
     that are not below p.a have been processed *)
  (* should_yield only matters when no candidate is left *)
  Lemma procR_succ ss cs a yy w : (next_sym syms true a = None -> yy = true) -> ov w ->
    (procR (mkcfg ss cs (next_sym syms true a) yy) w <-> ~ lex_lt w (rev cs ++ [a])).
  Proof.
    intros Hyy Hw. unfold procR. simpl. destruct (next_sym syms true a) as [b|] eqn:Hn.
    - destruct (next_sym_rev_some _ Hds _ _ Hn) as [_ [Hba Hadj]].
      assert (Hadj' : forall y, In y syms -> y < a -> y <= b).
      { intros y Hy Hya. destruct (le_lt_dec y b) as [H|H]; [exact H|]. specialize (Hadj y Hy H). lia. }
      pose proof (adj_lt syms b a Hba Hadj' (rev cs) w Hw) as H. unfold below. tauto.
    - pose proof (next_sym_rev_none _ Hds _ Hn) as Hmin.
      pose proof (first_lt syms a Hmin (rev cs) w Hw) as H. split.
      + rewrite (Hyy eq_refl). intros [H1|[H1 _]] H2; [|discriminate]. apply H in H2.
        destruct H2 as [H2|H2]; [exact (lex_lt_asym _ _ H1 H2)|subst; exact (lex_lt_irrefl _ H1)].
      + intro H1. left. destruct (lex_lt_total w (rev cs)) as [H2|[H2|H2]]; [|  |exact H2];
          exfalso; apply H1; apply H; tauto.
  Qed.

  (* the predecessor yield point: leaving the word p *)
  Lemma y2_cases C : c_cand C = None ->
    (forall w, ov w -> ~ procR C w -> before start strict w) ->
    let y2 := emit m lo ohi C (run (rev (c_chars C))) true true in
    (y2 = [rev (c_chars C)] /\ c_yield C = true /\ spec (rev (c_chars C))) \/
    (y2 = [] /\ ~ (c_yield C = true /\ spec (rev (c_chars C)))).
  Proof.
    intros Ec HA y2. subst y2. unfold emit. set (p := rev (c_chars C)).
    assert (Hlen : length (c_chars C) = length p) by (unfold p; rewrite rev_length; reflexivity).
    rewrite Hlen.
    destruct (c_yield C) eqn:Ey; simpl; [|right; split; [reflexivity|intros [H _]; discriminate]].
    destruct (len_ok lo ohi (length p)) eqn:El; simpl.
    - destruct (ofinal m (run p)) eqn:Ef.
      + left. split; [reflexivity|]. split; [reflexivity|].
        assert (Hacc : dfa_acc m p = true) by exact Ef.
        split; [exact Hacc|].
        split; [apply (len_ok_spec m Hv lo ohi (fun _ => Hfin)); assumption|].
        apply HA; [apply acc_over; exact Hacc|]. unfold procR. rewrite Ec, Ey. fold p.
        intros [H|[H _]]; [exact (lex_lt_irrefl _ H)|discriminate].
      + right. split; [reflexivity|]. intros [_ [H _]]. unfold L_dfa, dfa_acc, dfa_acc_from in H. fold p in H. congruence.
    - right. split; [reflexivity|]. intros [_ [Ha [Hl _]]].
      apply (len_ok_spec m Hv lo ohi (fun _ => Hfin) p Ha) in Hl. congruence.
  Qed.

  (* generating p (or not) when leaving it moves the processed set from "above p" to "p and above" *)
  Lemma leave_correct out C : c_cand C = None -> InvR out C ->
    let y2 := emit m lo ohi C (run (rev (c_chars C))) true true in
    StronglySorted lex_gt (out ++ y2) /\
    (forall w, In w (out ++ y2) <-> spec w /\ (procR C w \/ w = rev (c_chars C))) /\
    (forall w, ov w -> ~ (procR C w \/ w = rev (c_chars C)) -> before start strict w).
  Proof.
    intros Ec [Hs [Hc HA]] y2. subst y2.
    assert (Hproc : forall w, procR C w <->
              lex_lt (rev (c_chars C)) w \/ (c_yield C = false /\ w = rev (c_chars C))).
    { intro w. unfold procR. rewrite Ec. tauto. }
    destruct (y2_cases C Ec HA) as [[Ey [Hy Hsp]]|[Ey Hn]]; cbv zeta in Ey; rewrite Ey; clear Ey;
      set (p := rev (c_chars C)) in *.
    - split; [|split].
      + apply SSorted_app; [exact Hs|constructor; constructor|].
        intros x y Hx [<-|[]]. apply Hc in Hx. destruct Hx as [_ Hx]. apply Hproc in Hx.
        destruct Hx as [Hx|[Hx _]]; [exact Hx|congruence].
      + intro w. rewrite in_app_iff. split.
        * intros [H|[<-|[]]]; [apply Hc in H; tauto|tauto].
        * intros [H1 [H2|H2]]; [left; apply Hc; tauto|right; left; symmetry; exact H2].
      + intros w Hw Hn. apply HA; [exact Hw|tauto].
    - rewrite app_nil_r. split; [exact Hs|split].
      + intro w. split.
        * intro H. apply Hc in H. tauto.
        * intros [H1 [H2|H2]]; [apply Hc; tauto|]. subst w. apply Hc. split; [exact H1|].
          apply Hproc. right. split; [|reflexivity]. destruct (c_yield C); [exfalso; apply Hn; tauto|reflexivity].
      + intros w Hw Hn'. apply HA; [exact Hw|tauto].
  Qed.

  Lemma step_correctR out C y C' :
    wf m syms C -> InvR out C -> mstep m co syms first true lo ohi C = Ok (y, C') ->
    wf m syms C' /\ InvR (out ++ y) C'.
  Proof.
    intros [Hst Hcand] Hinv H. unfold mstep in H.
    destruct (stack_top m _ _ Hst) as [below' Ess]. rewrite Ess in H. cbv zeta in H. simpl negb in H.
    assert (Hemit0 : forall b, emit m lo ohi C (run (rev (c_chars C))) false b = []) by reflexivity.
    rewrite Hemit0 in H. clear Hemit0.
    set (p := rev (c_chars C)) in *.
    revert H. destruct (c_cand C) as [a|] eqn:Ec; intro H.
    - assert (Ha : In a syms) by (apply Hcand; reflexivity).
      revert H.
      destruct (in_co co (ostep m (run p) a) && can_descend ohi (length (c_chars C))) eqn:Evi; intro H.
      + (* descend: nothing generated, same processed set *)
        inversion H; subst y C'; clear H. rewrite app_nil_r. split.
        * split; simpl.
          -- split; [|rewrite <- Ess; exact Hst]. fold p. rewrite dfa_run_app. reflexivity.
          -- intros x Hx. inversion Hx; subst. exact Hfirst_in.
        * destruct Hinv as [Hs [Hc HA]].
          assert (Heq : forall w, ov w ->
                   (procR (mkcfg (ostep m (run p) a :: c_states C) (a :: c_chars C) (Some first) true) w <-> procR C w)).
          { intros w Hw. unfold procR. rewrite Ec. simpl c_chars. simpl c_cand. simpl rev. fold p.
            pose proof (max_lt syms first Hfirst (p ++ [a]) w Hw) as Hm. unfold below. tauto. }
          split; [exact Hs|split].
          -- intro w. split.
             ++ intro H. apply Hc in H. destruct H as [H1 H2]. split; [exact H1|]. apply Heq; [apply spec_overR; exact H1|exact H2].
             ++ intros [H1 H2]. apply Hc. split; [exact H1|]. apply Heq; [apply spec_overR; exact H1|exact H2].
          -- intros w Hw Hn. apply HA; [exact Hw|]. intro H. apply Hn. apply Heq; assumption.
      + (* next sibling: the skipped subtree holds no specified word *)
        inversion H; subst y C'; clear H. rewrite app_nil_r. split.
        * split; simpl; [rewrite <- Ess; exact Hst|].
          intros x Hx. destruct (next_sym_rev_some _ Hds _ _ Hx) as [Hb _]. exact Hb.
        * destruct Hinv as [Hs [Hc HA]].
          assert (Heq : forall w, ov w ->
                   (procR (mkcfg (run p :: below') (c_chars C) (next_sym syms true a) true) w <-> procR C w \/ is_prefix (p ++ [a]) w)).
          { intros w Hw. rewrite (procR_succ _ (c_chars C) a true w (fun _ => eq_refl) Hw). fold p.
            unfold procR. rewrite Ec. fold p. unfold below. split.
            - intro H1. destruct (is_prefix_dec (p ++ [a]) w) as [H2|H2]; [right; exact H2|left; tauto].
            - intros [H1|H1]; [tauto|apply prefix_not_lt; exact H1]. }
          split; [exact Hs|split].
          -- intro w. split.
             ++ intro H. apply Hc in H. destruct H as [H1 H2]. split; [exact H1|].
                apply Heq; [apply spec_overR; exact H1|left; exact H2].
             ++ intros [H1 H2]. apply Hc. split; [exact H1|].
                apply (Heq w (spec_overR w H1)) in H2. destruct H2 as [H2|H2]; [exact H2|].
                exfalso. apply (nonviableR p a) with (w := w); [|exact H2|exact H1].
                unfold p at 2. rewrite rev_length. exact Evi.
          -- intros w Hw Hn. apply HA; [exact Hw|]. intro H. apply Hn. apply Heq; [exact Hw|left; exact H].
    - (* leaving p: generate it, return to the parent *)
      pose proof (leave_correct out C Ec Hinv) as Hleave. cbv zeta in Hleave. fold p in Hleave.
      unfold p in *. clear p.
      revert H Hst Hleave. destruct (c_chars C) as [|a cs] eqn:Ecs; intros H Hst Hleave; [discriminate|].
      cbv zeta in H. inversion H; subst y C'; clear H.
      simpl in Hst. rewrite Ess in Hst. destruct Hst as [_ Hst].
      set (yy := negb (eqb_opt Nat.eqb (next_sym syms true a) (Some first))).
      assert (Hyy : next_sym syms true a = None -> yy = true) by (intro E; unfold yy; rewrite E; reflexivity).
      split.
      + split; simpl; [exact Hst|].
        intros x Hx. destruct (next_sym_rev_some _ Hds _ _ Hx) as [Hb _]. exact Hb.
      + destruct Hleave as [Hs [Hc HA]].
        assert (Heq : forall w, ov w ->
                 (procR (mkcfg below' cs (next_sym syms true a) yy) w <-> procR C w \/ w = rev (a :: cs))).
        { intros w Hw. rewrite (procR_succ _ cs a yy w Hyy Hw). unfold procR. rewrite Ec, Ecs. simpl rev.
          destruct (lex_lt_total w (rev cs ++ [a])) as [H1|[H1|H1]].
          - split; [tauto|]. intros [[H2|[_ H2]]|H2] H3.
            + exact (lex_lt_asym _ _ H1 H2).
            + subst w. exact (lex_lt_irrefl _ H1).
            + subst w. exact (lex_lt_irrefl _ H1).
          - split; [intros _; right; exact H1|]. intros _ H2. subst w. exact (lex_lt_irrefl _ H2).
          - split; [intros _; left; left; exact H1|]. intros _ H2. exact (lex_lt_asym _ _ H1 H2). }
        split; [exact Hs|split].
        * intro w. rewrite Hc. split.
          -- intros [H1 H2]. split; [exact H1|]. apply Heq; [apply spec_overR; exact H1|exact H2].
          -- intros [H1 H2]. split; [exact H1|]. apply Heq; [apply spec_overR; exact H1|exact H2].
        * intros w Hw Hn. apply HA; [exact Hw|]. intro H. apply Hn. apply Heq; assumption.
  Qed.

  Lemma loop_correctR : forall f C out l, wf m syms C -> InvR out C ->
    mloop m co syms first true lo ohi f C = Ok l ->
    StronglySorted lex_gt (out ++ l) /\ forall w, In w (out ++ l) <-> spec w.
  Proof.
    assert (Hexit : forall C out l, wf m syms C -> InvR out C -> c_chars C = [] -> c_cand C = None ->
              match c_states C with [] => Err IndexErr | state :: _ => Ok (emit m lo ohi C state true true) end = Ok l ->
              StronglySorted lex_gt (out ++ l) /\ forall w, In w (out ++ l) <-> spec w).
    { intros C out l [Hst _] Hinv Ecs Ec H. destruct (stack_top m _ _ Hst) as [below' Ess]. rewrite Ess in H.
      inversion H; subst l. destruct (leave_correct out C Ec Hinv) as [Hs [Hc _]]. split; [exact Hs|].
      intro w. rewrite Hc. split; [tauto|]. intro H1. split; [exact H1|].
      unfold procR. rewrite Ec, Ecs. simpl.
      destruct w as [|c w]; [right; reflexivity|left; left; constructor]. }
    induction f as [|f IH]; intros C out l Hwf Hinv H; simpl in H.
    - destruct (c_chars C) eqn:Ecs; destruct (c_cand C) eqn:Ec; try discriminate.
      apply (Hexit C); assumption.
    - destruct (c_chars C) eqn:Ecs; destruct (c_cand C) eqn:Ec;
        try (apply (Hexit C); assumption);
        (destruct (mstep m co syms first true lo ohi C) as [[y C']|e] eqn:Est; simpl in H; [|discriminate];
         destruct (mloop m co syms first true lo ohi f C') as [l'|e] eqn:El; simpl in H; [|discriminate];
         inversion H; subst l;
         destruct (step_correctR out C y C' Hwf Hinv Est) as [Hwf' Hinv'];
         rewrite app_assoc; exact (IH C' (out ++ y) l' Hwf' Hinv' El)).
  Qed.
End Rev.

Theorem machine_reverse_correct fuel m start strict lo ohi l :
  valid_dfa m = true ->
  finite_lang (L_dfa m) ->
  succ_machine fuel m start strict true lo ohi = Ok l ->
  l = pred_list m start strict lo (the_hi m ohi).
Proof.
  intros Hv Hfin H. unfold succ_machine in H.
  destruct (finite_isfinite m Hv Hfin) as [Efin _]. rewrite Efin in H. simpl in H.
  destruct (coreach_states_ok m Hv) as [co [Eco Hco]]. rewrite Eco in H. simpl in H.
  unfold machine_syms in H.
  assert (Hds : StronglySorted (fun x y => y < x) (rev (set_of (d_syms m)))).
  { apply (SSorted_rev lt). apply ssorted_SS. apply set_of_sorted. }
  destruct (rev (set_of (d_syms m))) as [|first rest] eqn:Esy.
  { inversion H. apply empty_guard_pred. destruct (set_of (d_syms m)) as [|x r]; [reflexivity|].
    apply (f_equal (@length nat)) in Esy. rewrite rev_length in Esy. discriminate. }
  assert (Hsy : forall a, In a (first :: rest) <-> In a (d_syms m)).
  { intro a. rewrite <- Esy, <- in_rev. apply set_of_In. }
  assert (Hfirst : forall y, In y (first :: rest) -> y <= first).
  { inversion Hds as [|? ? _ Hf]; subst. rewrite Forall_forall in Hf.
    intros y [<-|Hy]; [lia|]. specialize (Hf y Hy). lia. }
  assert (Hfin_in : In first (first :: rest)) by (left; reflexivity).
  set (C0 := init_cfg m first start strict true) in *.
  assert (Hwf : wf m (first :: rest) C0).
  { unfold C0, init_cfg. destruct start as [s|]; split; simpl.
    - apply (trace_rev_ok m s [] [] (Some (d_init m))); reflexivity.
    - intros a Ha. discriminate.
    - reflexivity.
    - intros a Ha. inversion Ha; subst. exact Hfin_in. }
  assert (Hinv : InvR m start strict lo ohi (first :: rest) [] C0).
  { unfold C0, init_cfg. destruct start as [s|].
    - split; [constructor|]. unfold procR. simpl. rewrite rev_involutive. split.
      + intro w. split; [intros []|]. intros [[_ [_ Hbf]] H1]. simpl in Hbf. destruct strict; simpl in *.
        * destruct H1 as [H1|[_ H1]]; [exact (lex_lt_asym _ _ H1 Hbf)|subst; exact (lex_lt_irrefl _ Hbf)].
        * destruct H1 as [H1|[H1 _]]; [|discriminate].
          destruct Hbf as [Hbf|Hbf]; [exact (lex_lt_asym _ _ H1 Hbf)|subst; exact (lex_lt_irrefl _ H1)].
      + intros w _ Hn. simpl. destruct (lex_lt_total w s) as [Hlt|[Heq|Hgt]].
        * destruct strict; [exact Hlt|left; exact Hlt].
        * destruct strict; simpl in *; [exfalso; apply Hn; right; split; [reflexivity|exact Heq]|right; exact Heq].
        * exfalso. apply Hn. left. exact Hgt.
    - split; [constructor|]. unfold procR, below. simpl. split.
      + intro w. split; [intros []|]. intros [Hsp H1].
        pose proof (spec_overR m Hv None strict lo ohi (first :: rest) Hsy w Hsp) as Hw.
        apply H1. destruct w as [|c w]; [left; constructor|]. inversion Hw as [|? ? Hc _]; subst.
        specialize (Hfirst c Hc). destruct (Nat.eq_dec c first) as [->|N].
        * right. apply is_prefix_cons. split; [reflexivity|apply is_prefix_nil].
        * left. apply lex_head. lia.
      + intros w _ _. exact I. }
  destruct (loop_correctR m Hv start strict lo ohi Hfin co Hco (first :: rest) Hds Hsy first Hfirst Hfin_in
              fuel C0 [] l Hwf Hinv H) as [Hsorted Hmem].
  simpl in Hsorted, Hmem. apply (pred_list_unique m Hv); assumption.
Qed.
