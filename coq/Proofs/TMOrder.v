(* C03: the breadth-first ORDER of the multitape simulator's queue (mntm_bfs).
   Queue invariant: the queue is A ++ B where A holds configurations of depth d and B
   configurations of depth d+1; everything of depth < d has been dequeued, everything of
   depth d has been dequeued or waits in A, everything of depth d+1 waits in B or is a
   successor of something in A. *)
From Coq Require Import List Arith ZArith Bool Lia.
From AV Require Import Base.Util Spec.TM Model.TM Proofs.TM.
Import ListNotations.

Section MNTMOrder.
Variable m : mntm.

Lemma mreach_snoc_inv k : forall c c', mreach m (S k) c c' ->
  exists c1, mreach m k c c1 /\ mstep m c1 c'.
Proof.
  induction k as [|k IH]; intros c c' Hr; inversion Hr; subst.
  - match goal with H : mreach m 0 _ _ |- _ => inversion H; subst end.
    exists c. split; [apply mr_0; apply mzcfg_eq_refl|]. eapply mstep_cong_r; eassumption.
  - match goal with H : mreach m (S k) _ _ |- _ => destruct (IH _ _ H) as [c2 [Hr2 Hs2]] end.
    exists c2. split; [|exact Hs2]. eapply mr_S; eassumption.
Qed.

Variable s : mzcfg.   (* the start configuration *)

Definition covered (l : list mcfg) (z : mzcfg) : Prop :=
  exists c, In c l /\ mzcfg_eq (abs_mcfg c) z.

Lemma covered_incl l l' z : (forall c, In c l -> In c l') -> covered l z -> covered l' z.
Proof. intros H [c [Hc He]]. exists c. split; [apply H; exact Hc|exact He]. Qed.

Record binv (d : nat) (seen A B : list mcfg) : Prop := mk_binv {
  bi_A : forall c, In c A -> wfs c /\ mreach m d s (abs_mcfg c);
  bi_B : forall c, In c B -> wfs c /\ mreach m (S d) s (abs_mcfg c);
  bi_lt : forall k z, k < d -> mreach m k s z -> covered seen z;
  bi_eq : forall z, mreach m d s z -> covered (seen ++ A) z;
  bi_next : forall z, mreach m (S d) s z ->
              covered B z \/ exists c, In c A /\ mstep m (abs_mcfg c) z }.

(* the depth-d part of the queue is exhausted: the depth-(d+1) part becomes the front *)
Lemma binv_shift d seen B : binv d seen [] B -> binv (S d) seen B [].
Proof.
  intros [HA HB Hlt Heq Hnx]. constructor.
  - exact HB.
  - intros c [].
  - intros k z Hk Hr. destruct (Nat.eq_dec k d) as [->|Hne].
    + specialize (Heq z Hr). rewrite app_nil_r in Heq. exact Heq.
    + apply (Hlt k z); [lia|exact Hr].
  - intros z Hr. destruct (Hnx z Hr) as [Hc|[c [[] _]]].
    eapply covered_incl; [|exact Hc]. intros c Hc'. apply in_app_iff. right. exact Hc'.
  - intros z Hr. right. destruct (mreach_snoc_inv _ _ _ Hr) as [z1 [Hr1 Hs1]].
    destruct (Hnx z1 Hr1) as [[c [Hc He]]|[c [[] _]]].
    exists c. split; [exact Hc|]. eapply mstep_cong_l; [apply mzcfg_eq_sym; exact He|exact Hs1].
Qed.

(* one dequeue + expansion *)
Lemma binv_step d seen c A B new : binv d seen (c :: A) B -> mntm_expand m c = inr new ->
  binv d (seen ++ [c]) A (B ++ new).
Proof.
  intros [HA HB Hlt Heq Hnx] He.
  destruct (HA c (or_introl eq_refl)) as [Hwc Hrc].
  destruct (expand_inr m c new Hwc He) as [_ [Hnew Hall]].
  constructor.
  - intros x Hx. apply HA. right. exact Hx.
  - intros x Hx. apply in_app_iff in Hx. destruct Hx as [Hx|Hx]; [apply HB; exact Hx|].
    destruct (Hnew x Hx) as [Hw Hs]. split; [exact Hw|]. eapply mreach_snoc; eassumption.
  - intros k z Hk Hr. eapply covered_incl; [|exact (Hlt k z Hk Hr)].
    intros x Hx. apply in_app_iff. left. exact Hx.
  - intros z Hr. eapply covered_incl; [|exact (Heq z Hr)].
    intros x Hx. rewrite !in_app_iff in *. simpl in *. tauto.
  - intros z Hr. destruct (Hnx z Hr) as [Hc|[x [[Hx|Hx] Hs]]].
    + left. eapply covered_incl; [|exact Hc]. intros x Hx. apply in_app_iff. left. exact Hx.
    + subst x. left. destruct (Hall z Hs) as [c' [Hc' He']]. exists c'. split; [|exact He'].
      apply in_app_iff. right. exact Hc'.
    + right. exists x. split; assumption.
Qed.

(* normal form: a non-empty queue has a non-empty front part *)
Lemma binv_normal d seen A B : binv d seen A B ->
  exists d' A' B', d <= d' /\ binv d' seen A' B' /\ A ++ B = A' ++ B' /\ (A' = [] -> B' = []).
Proof.
  intro H. destruct A as [|c A].
  - exists (S d), B, []. split; [lia|]. split; [apply binv_shift; exact H|].
    split; [simpl; rewrite app_nil_r; reflexivity|reflexivity].
  - exists d, (c :: A), B. split; [lia|]. split; [exact H|]. split; [reflexivity|discriminate].
Qed.

Definition depths_ok (d : nat) (ys : list mcfg) (depths : list nat) : Prop :=
  length depths = length ys /\
  Forall (fun dd => d <= dd) depths /\
  (forall i c dd, nth_error ys i = Some c -> nth_error depths i = Some dd ->
                  mreach m dd s (abs_mcfg c)) /\
  (forall i a b, nth_error depths i = Some a -> nth_error depths (S i) = Some b -> a <= b).

Lemma depths_ok_weaken d d' ys depths : d <= d' -> depths_ok d' ys depths -> depths_ok d ys depths.
Proof.
  intros Hle [H1 [H2 [H3 H4]]]. split; [exact H1|]. split; [|split; assumption].
  eapply Forall_impl; [|exact H2]. simpl. intros. lia.
Qed.

Lemma depths_ok_cons d c ys depths : mreach m d s (abs_mcfg c) -> depths_ok d ys depths ->
  depths_ok d (c :: ys) (d :: depths).
Proof.
  intros Hr [H1 [H2 [H3 H4]]]. split; [simpl; congruence|]. split; [constructor; [lia|exact H2]|]. split.
  - intros [|i] c' dd; simpl.
    + intros E1 E2. inversion E1; inversion E2; subst. exact Hr.
    + apply H3.
  - intros [|i] a b; simpl.
    + intros E1 E2. inversion E1; subst. change (nth_error depths 0 = Some b) in E2.
      apply nth_error_In in E2. rewrite Forall_forall in H2. exact (H2 _ E2).
    + apply H4.
Qed.

Lemma bfs_order fuel : forall d seen A B ys o, binv d seen A B ->
  mntm_bfs m fuel (A ++ B) = (ys, o) ->
  exists depths, depths_ok d ys depths /\
    (forall cl, o = Ok cl -> forall k z x, mreach m k s z -> S k <= last depths x ->
                covered (seen ++ ys) z).
Proof.
  induction fuel as [|f IH]; intros d0 seen A0 B0 ys o Hinv0.
  - rewrite mntm_bfs_eq. intro E. exists [].
    assert (ys = [] /\ forall cl, o <> Ok cl) as [-> Ho].
    { destruct (A0 ++ B0); inversion E; subst; split; auto; discriminate. }
    split; [|intros cl Hcl; exfalso; exact (Ho cl Hcl)].
    split; [reflexivity|]. split; [constructor|]. split; intros [|i]; simpl; discriminate.
  - destruct (binv_normal _ _ _ _ Hinv0) as [d [A [B [Hle [Hinv [-> Hn]]]]]].
    rewrite mntm_bfs_eq. destruct A as [|c A].
    + rewrite (Hn eq_refl). simpl. intro E. inversion E; subst. exists [].
      split; [|discriminate].
      split; [reflexivity|]. split; [constructor|]. split; intros [|i]; simpl; discriminate.
    + simpl app. destruct (bi_A _ _ _ _ Hinv c (or_introl eq_refl)) as [Hwc Hrc].
      destruct (mntm_expand m c) as [o'|new] eqn:He.
      * intro E. inversion E; subst. exists [d]. split.
        -- apply (depths_ok_weaken d0 d); [exact Hle|].
           apply depths_ok_cons; [exact Hrc|].
           split; [reflexivity|]. split; [constructor|]. split; intros [|i]; simpl; discriminate.
        -- intros cl _ k z x Hr Hk. simpl in Hk.
           eapply covered_incl; [|exact (bi_lt _ _ _ _ Hinv k z Hk Hr)].
           intros y Hy. apply in_app_iff. left. exact Hy.
      * rewrite <- app_assoc.
        destruct (mntm_bfs m f (A ++ B ++ new)) as [ys1 o1] eqn:Er. intro E. inversion E; subst.
        destruct (IH d (seen ++ [c]) A (B ++ new) ys1 o (binv_step _ _ _ _ _ _ Hinv He) Er)
          as [depths [Hok Hc]].
        exists (d :: depths). split.
        -- apply (depths_ok_weaken d0 d); [exact Hle|]. apply depths_ok_cons; assumption.
        -- intros cl Hcl k z x Hr Hk. rewrite last_cons in Hk.
           eapply covered_incl; [|exact (Hc cl Hcl k z d Hr Hk)].
           intros y Hy. rewrite !in_app_iff in *. simpl in *. tauto.
Qed.

End MNTMOrder.

Section MNTMOrderTop.
Variable m : mntm.

Lemma binv_start w : binv m (mt_start m w) 0 [] [mntm_start m w] [].
Proof.
  destruct (mntm_start_abs m w) as [Hwf Hst]. constructor.
  - intros c [<-|[]]. split; [exact Hwf|]. apply mr_0. apply mzcfg_eq_sym. exact Hst.
  - intros c [].
  - intros k z Hk. lia.
  - intros z Hr. inversion Hr; subst. exists (mntm_start m w). split; [left; reflexivity|].
    eapply mzcfg_eq_trans; eassumption.
  - intros z Hr. right. destruct (mreach_snoc_inv m _ _ _ Hr) as [z1 [Hr1 Hs1]].
    inversion Hr1; subst. exists (mntm_start m w). split; [left; reflexivity|].
    eapply mstep_cong_l; [|exact Hs1]. apply mzcfg_eq_sym. eapply mzcfg_eq_trans; eassumption.
Qed.

(* the breadth-first statement of C03 *)
Lemma mntm_visits_bfs_order w fuel ys o : mntm_stepwise m fuel w = (ys, o) ->
  exists depths : list nat, length depths = length ys /\
    (forall i c d, nth_error ys i = Some c -> nth_error depths i = Some d ->
                   mreach m d (mt_start m w) (abs_mcfg c)) /\
    (forall i d d', nth_error depths i = Some d -> nth_error depths (S i) = Some d' -> d <= d') /\
    (o <> Err Fuel -> forall k z, mreach m k (mt_start m w) z ->
       (o = Err Reject \/ S k <= last depths 0) -> exists c, In c ys /\ mzcfg_eq (abs_mcfg c) z).
Proof.
  intro E. pose proof E as E'. unfold mntm_stepwise in E'.
  destruct (bfs_order m (mt_start m w) fuel 0 [] [mntm_start m w] [] ys o (binv_start w) E')
    as [depths [[H1 [_ [H3 H4]]] Hc]].
  exists depths. split; [exact H1|]. split; [exact H3|]. split; [exact H4|].
  intros Hnf k z Hr Hcase.
  destruct (mntm_stepwise_sound m w fuel ys o E) as [_ [_ S3]].
  destruct o as [cl|e].
  - destruct Hcase as [Hx|Hk]; [discriminate|]. exact (Hc cl eq_refl k z 0 Hr Hk).
  - destruct e; try contradiction.
    exact (mntm_reject_visits_all m w fuel ys E k z Hr).
Qed.

End MNTMOrderTop.
