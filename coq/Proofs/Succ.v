(* Lemmas for C14: the successor / predecessor lists are THE strictly ordered listing of
   the accepted words in the window beyond the start word. *)
From Coq Require Import List Arith Bool Lia Sorted.
From AV Require Import Base.Util Spec.Lang Spec.FA Spec.DictOrder Model.Product Model.Succ Proofs.FARun Proofs.FiniteSucc.
Import ListNotations.

(* the declarative side of the start bound *)
Definition after (start : option word) (strict : bool) (w : word) : Prop :=
  match start with
  | None => True
  | Some s => if strict then lex_lt s w else lex_le s w
  end.

Definition before (start : option word) (strict : bool) (w : word) : Prop :=
  match start with
  | None => True
  | Some s => if strict then lex_lt w s else lex_le w s
  end.

(* what successors(start, strict, min_length=lo, max_length=hi) has to generate *)
Definition succ_spec (m : dfa) start strict lo hi : lang :=
  fun w => L_dfa m w /\ lo <= length w <= hi /\ after start strict w.
Definition pred_spec (m : dfa) start strict lo hi : lang :=
  fun w => L_dfa m w /\ lo <= length w <= hi /\ before start strict w.

Definition lex_gt (u v : word) : Prop := lex_lt v u.

Lemma above_spec start strict w : above start strict w = true <-> after start strict w.
Proof.
  unfold above, after. destruct start as [s|]; [|tauto].
  destruct strict; [apply lex_ltb_spec|apply lex_leb_spec].
Qed.

Lemma below_spec start strict w : below start strict w = true <-> before start strict w.
Proof.
  unfold below, before. destruct start as [s|]; [|tauto].
  destruct strict; [apply lex_ltb_spec|apply lex_leb_spec].
Qed.

Lemma in_window_spec lo hi w : in_window lo hi w = true <-> lo <= length w <= hi.
Proof. unfold in_window. rewrite andb_true_iff, !Nat.leb_le. tauto. Qed.

Section Heads.
  Context {A : Type} (R : A -> A -> Prop).
  Lemma hd_sorted_least l x :
    StronglySorted R l -> hd_error l = Some x -> In x l /\ forall y, In y l -> y = x \/ R x y.
  Proof.
    intros Hs Hh. destruct l as [|z l]; [discriminate|]. simpl in Hh. inversion Hh; subst z.
    split; [left; reflexivity|]. intros y [Hy|Hy]; [left; symmetry; exact Hy|right].
    inversion Hs as [|? ? _ Hf]; subst. rewrite Forall_forall in Hf. apply Hf. exact Hy.
  Qed.
  Lemma hd_none (l : list A) : hd_error l = None -> l = [].
  Proof. destruct l; [reflexivity|discriminate]. Qed.
End Heads.

Section Lists.
  Variable m : dfa.
  Hypothesis Hv : valid_dfa m = true.

  (* an accepted word only uses symbols of the alphabet *)
  Lemma run_some_syms w : forall q q', dfa_run m (Some q) w = Some q' -> Forall (fun a => In a (d_syms m)) w.
  Proof.
    induction w as [|a w IH]; intros q q' H; [constructor|].
    simpl in H. destruct (d_delta m q a) as [t|] eqn:E.
    - constructor; [apply (delta_in_states m Hv) in E; tauto|eapply IH; exact H].
    - rewrite dfa_run_None in H. discriminate.
  Qed.

  Lemma acc_syms w : dfa_acc m w = true -> Forall (fun a => In a (d_syms m)) w.
  Proof.
    unfold dfa_acc, dfa_acc_from. destruct (dfa_run m (Some (d_init m)) w) as [q|] eqn:E; [|discriminate].
    intros _. eapply run_some_syms. exact E.
  Qed.

  Lemma acc_in_enum w hi : dfa_acc m w = true -> length w <= hi -> In w (dict_order (set_of (d_syms m)) hi).
  Proof.
    intros Ha Hl. apply dict_order_In. split; [exact Hl|].
    pose proof (acc_syms w Ha) as Hf. rewrite Forall_forall in *. intros a Hin. apply set_of_In. apply Hf. exact Hin.
  Qed.

  Lemma enum_sorted hi : StronglySorted lex_lt (dict_order (set_of (d_syms m)) hi).
  Proof. apply dict_order_sorted. apply set_of_sorted. Qed.

  Lemma succ_keep_spec start strict lo hi w :
    succ_keep m start strict lo hi w = true <-> succ_spec m start strict lo hi w.
  Proof.
    unfold succ_keep, succ_spec, L_dfa. rewrite !andb_true_iff, in_window_spec, above_spec. tauto.
  Qed.

  Lemma pred_keep_spec start strict lo hi w :
    pred_keep m start strict lo hi w = true <-> pred_spec m start strict lo hi w.
  Proof.
    unfold pred_keep, pred_spec, L_dfa. rewrite !andb_true_iff, in_window_spec, below_spec. tauto.
  Qed.

  Theorem succ_list_spec start strict lo hi :
    let l := succ_list m start strict lo hi in
    StronglySorted lex_lt l /\ NoDup l /\ forall w, In w l <-> succ_spec m start strict lo hi w.
  Proof.
    simpl. unfold succ_list. split; [|split].
    - apply SSorted_filter. apply enum_sorted.
    - apply (SSorted_NoDup lex_lt); [exact lex_lt_irrefl|]. apply SSorted_filter. apply enum_sorted.
    - intro w. rewrite filter_In, succ_keep_spec. split; [tauto|]. intro H. split; [|exact H].
      destruct H as [Ha [[_ Hl] _]]. apply acc_in_enum; assumption.
  Qed.

  Theorem pred_list_spec start strict lo hi :
    let l := pred_list m start strict lo hi in
    StronglySorted lex_gt l /\ NoDup l /\ forall w, In w l <-> pred_spec m start strict lo hi w.
  Proof.
    simpl. unfold pred_list.
    assert (Hs : StronglySorted lex_gt
                   (rev (filter (pred_keep m start strict lo hi) (dict_order (set_of (d_syms m)) hi)))).
    { apply (SSorted_rev lex_lt). apply SSorted_filter. apply enum_sorted. }
    split; [exact Hs|split].
    - apply (SSorted_NoDup lex_gt); [|exact Hs]. intro x. apply lex_lt_irrefl.
    - intro w. rewrite <- in_rev, filter_In, pred_keep_spec. split; [tauto|]. intro H. split; [|exact H].
      destruct H as [Ha [[_ Hl] _]]. apply acc_in_enum; assumption.
  Qed.

  (* the listing is unique: any strictly increasing list with that content is the model's list *)
  Theorem succ_list_unique start strict lo hi l :
    StronglySorted lex_lt l -> (forall w, In w l <-> succ_spec m start strict lo hi w) ->
    l = succ_list m start strict lo hi.
  Proof.
    intros Hs Hc. destruct (succ_list_spec start strict lo hi) as [Hs' [_ Hc']].
    apply (SSorted_ext lex_lt); [exact lex_lt_asym|exact Hs|exact Hs'|].
    intro w. rewrite Hc, Hc'. tauto.
  Qed.

  Theorem pred_list_unique start strict lo hi l :
    StronglySorted lex_gt l -> (forall w, In w l <-> pred_spec m start strict lo hi w) ->
    l = pred_list m start strict lo hi.
  Proof.
    intros Hs Hc. destruct (pred_list_spec start strict lo hi) as [Hs' [_ Hc']].
    apply (SSorted_ext lex_gt); [|exact Hs|exact Hs'|].
    - intros x y H1 H2. exact (lex_lt_asym _ _ H1 H2).
    - intro w. rewrite Hc, Hc'. tauto.
  Qed.


  (* strict=False adds exactly the start word itself, when it is accepted and inside the window *)
  Theorem nonstrict_adds_start s lo hi :
    succ_list m (Some s) false lo hi =
      if dfa_acc m s && in_window lo hi s
      then s :: succ_list m (Some s) true lo hi else succ_list m (Some s) true lo hi.
  Proof.
    symmetry. apply succ_list_unique; destruct (succ_list_spec (Some s) true lo hi) as [Hs [_ Hc]];
      destruct (dfa_acc m s && in_window lo hi s) eqn:E.
    - constructor; [exact Hs|]. apply Forall_forall. intros w Hw. apply Hc in Hw.
      destruct Hw as [_ [_ Hw]]. exact Hw.
    - exact Hs.
    - apply andb_true_iff in E. destruct E as [E1 E2]. apply in_window_spec in E2.
      intro w. simpl. rewrite Hc. unfold succ_spec, after, lex_le, L_dfa. split.
      + intros [<-|H]; tauto.
      + intros [H1 [H2 [H3|H3]]]; [right; tauto|left; exact H3].
    - intro w. rewrite Hc. unfold succ_spec, after, lex_le, L_dfa. split; [tauto|].
      intros [H1 [H2 [H3|H3]]]; [tauto|]. subst w. exfalso.
      apply in_window_spec in H2. rewrite H1, H2 in E. discriminate.
  Qed.
End Lists.

(* single step = head of the list = least (greatest) element, or None exactly when there is none *)
Lemma head_spec {A} (R : A -> A -> Prop) (P : A -> Prop) l :
  StronglySorted R l -> (forall x, In x l <-> P x) ->
  match hd_error l with
  | Some x => P x /\ forall y, P y -> y = x \/ R x y
  | None => forall y, ~ P y
  end.
Proof.
  intros Hs Hc. destruct (hd_error l) as [x|] eqn:E.
  - destruct (hd_sorted_least R _ _ Hs E) as [Hin Hl]. split; [apply Hc; exact Hin|].
    intros y Hy. apply Hl. apply Hc. exact Hy.
  - apply hd_none in E. subst l. intros y Hy. apply Hc in Hy. destruct Hy.
Qed.

(* ---------- the public operations: optional max_length, refusal of infinite languages ---------- *)
Definition finite_lang (L : lang) : Prop := exists n, forall w, L w -> length w <= n.
Definition infinite_lang (L : lang) : Prop := forall n, exists w, L w /\ n <= length w.

Definition hi_ok (ohi : option nat) (w : word) : Prop :=
  match ohi with Some hi => length w <= hi | None => True end.

(* the words successors(start, strict, min_length=lo, max_length=ohi) must generate ... *)
Definition succ_words (m : dfa) start strict lo ohi : lang :=
  fun w => L_dfa m w /\ lo <= length w /\ hi_ok ohi w /\ after start strict w.
(* ... and predecessors *)
Definition pred_words (m : dfa) start strict lo ohi : lang :=
  fun w => L_dfa m w /\ lo <= length w /\ hi_ok ohi w /\ before start strict w.

Section Ops.
  Variable m : dfa.
  Hypothesis Hv : valid_dfa m = true.

  Lemma finite_isfinite : finite_lang (L_dfa m) ->
    isfinite_m m = Ok true /\ forall w, L_dfa m w -> length w < length (d_states m).
  Proof.
    intros [n Hn]. destruct (isfinite_spec m Hv) as [b [E [Ht Hf]]]. destruct b.
    - split; [exact E|apply Ht; reflexivity].
    - exfalso. destruct (Hf eq_refl (S n)) as [w [Hw Hl]]. specialize (Hn w Hw). lia.
  Qed.

  Lemma infinite_isfinite : infinite_lang (L_dfa m) <-> isfinite_m m = Ok false.
  Proof.
    destruct (isfinite_spec m Hv) as [b [E [Ht Hf]]]. split.
    - intro Hinf. destruct b; [|exact E]. exfalso.
      destruct (Hinf (length (d_states m))) as [w [Hw Hl]]. specialize (Ht eq_refl w Hw). lia.
    - intro E2. rewrite E in E2. inversion E2; subst b. exact (Hf eq_refl).
  Qed.

  Lemma spec_bounded start strict lo hi w :
    succ_spec m start strict lo hi w <-> succ_words m start strict lo (Some hi) w.
  Proof. unfold succ_spec, succ_words, hi_ok. tauto. Qed.

  Lemma pspec_bounded start strict lo hi w :
    pred_spec m start strict lo hi w <-> pred_words m start strict lo (Some hi) w.
  Proof. unfold pred_spec, pred_words, hi_ok. tauto. Qed.

  (* with the default bound (number of states) nothing of a finite language is lost *)
  Lemma spec_default start strict lo w : finite_lang (L_dfa m) ->
    (succ_spec m start strict lo (default_hi m) w <-> succ_words m start strict lo None w).
  Proof.
    intro Hfin. destruct (finite_isfinite Hfin) as [_ Hb]. unfold succ_spec, succ_words, hi_ok, default_hi.
    split; [tauto|]. intros [Hw H]. specialize (Hb w Hw). split; [exact Hw|]. split; [lia|tauto].
  Qed.

  Lemma pspec_default start strict lo w : finite_lang (L_dfa m) ->
    (pred_spec m start strict lo (default_hi m) w <-> pred_words m start strict lo None w).
  Proof.
    intro Hfin. destruct (finite_isfinite Hfin) as [_ Hb]. unfold pred_spec, pred_words, hi_ok, default_hi.
    split; [tauto|]. intros [Hw H]. specialize (Hb w Hw). split; [exact Hw|]. split; [lia|tauto].
  Qed.

  Theorem succ_m_spec start strict lo ohi :
    (ohi = None -> finite_lang (L_dfa m)) ->
    exists l, succ_m m start strict lo ohi = Ok l /\ StronglySorted lex_lt l /\ NoDup l /\
              forall w, In w l <-> succ_words m start strict lo ohi w.
  Proof.
    intro Hfin. destruct ohi as [hi|].
    - exists (succ_list m start strict lo hi). split; [reflexivity|].
      destruct (succ_list_spec m Hv start strict lo hi) as [Hs [Hn Hc]]. split; [exact Hs|]. split; [exact Hn|].
      intro w. rewrite Hc. apply spec_bounded.
    - specialize (Hfin eq_refl). exists (succ_list m start strict lo (default_hi m)).
      unfold succ_m. destruct (finite_isfinite Hfin) as [-> _]. split; [reflexivity|].
      destruct (succ_list_spec m Hv start strict lo (default_hi m)) as [Hs [Hn Hc]].
      split; [exact Hs|]. split; [exact Hn|]. intro w. rewrite Hc. apply spec_default. exact Hfin.
  Qed.

  Theorem pred_m_spec start strict lo ohi :
    finite_lang (L_dfa m) ->
    exists l, pred_m m start strict lo ohi = Ok l /\ StronglySorted lex_gt l /\ NoDup l /\
              forall w, In w l <-> pred_words m start strict lo ohi w.
  Proof.
    intro Hfin. exists (pred_list m start strict lo (the_hi m ohi)).
    unfold pred_m. destruct (finite_isfinite Hfin) as [-> _]. split; [reflexivity|].
    destruct (pred_list_spec m Hv start strict lo (the_hi m ohi)) as [Hs [Hn Hc]].
    split; [exact Hs|]. split; [exact Hn|]. intro w. rewrite Hc.
    destruct ohi as [hi|]; simpl; [apply pspec_bounded|apply pspec_default; exact Hfin].
  Qed.

  Theorem successor_m_spec start strict lo ohi :
    (ohi = None -> finite_lang (L_dfa m)) ->
    exists o l, successor_m m start strict lo ohi = Ok o /\ succ_m m start strict lo ohi = Ok l /\
      o = hd_error l /\
      match o with
      | Some w => succ_words m start strict lo ohi w /\
                  forall w', succ_words m start strict lo ohi w' -> lex_le w w'
      | None => forall w', ~ succ_words m start strict lo ohi w'
      end.
  Proof.
    intro Hfin. destruct (succ_m_spec start strict lo ohi Hfin) as [l [E [Hs [_ Hc]]]].
    exists (hd_error l), l. unfold successor_m. rewrite E. simpl. repeat split.
    pose proof (head_spec lex_lt _ l Hs Hc) as H. destruct (hd_error l) as [w|]; [|exact H].
    destruct H as [H1 H2]. split; [exact H1|]. intros w' Hw'.
    destruct (H2 w' Hw') as [->|H]; [right; reflexivity|left; exact H].
  Qed.

  Theorem predecessor_m_spec start strict lo ohi :
    finite_lang (L_dfa m) ->
    exists o l, predecessor_m m start strict lo ohi = Ok o /\ pred_m m start strict lo ohi = Ok l /\
      o = hd_error l /\
      match o with
      | Some w => pred_words m start strict lo ohi w /\
                  forall w', pred_words m start strict lo ohi w' -> lex_le w' w
      | None => forall w', ~ pred_words m start strict lo ohi w'
      end.
  Proof.
    intro Hfin. destruct (pred_m_spec start strict lo ohi Hfin) as [l [E [Hs [_ Hc]]]].
    exists (hd_error l), l. unfold predecessor_m. rewrite E. simpl. repeat split.
    pose proof (head_spec lex_gt _ l Hs Hc) as H. destruct (hd_error l) as [w|]; [|exact H].
    destruct H as [H1 H2]. split; [exact H1|]. intros w' Hw'.
    destruct (H2 w' Hw') as [->|H]; [right; reflexivity|left; exact H].
  Qed.

  (* predecessors of an infinite language are refused, and nothing else ever is *)
  Theorem pred_m_infinite start strict lo ohi :
    (pred_m m start strict lo ohi = Err Infinite <-> infinite_lang (L_dfa m)) /\
    (predecessor_m m start strict lo ohi = Err Infinite <-> infinite_lang (L_dfa m)) /\
    (forall e, pred_m m start strict lo ohi = Err e -> e = Infinite).
  Proof.
    rewrite infinite_isfinite. unfold predecessor_m, pred_m.
    destruct (isfinite_spec m Hv) as [b [E _]]. rewrite E. destruct b; simpl.
    - split; [|split]; [split; discriminate|split; discriminate|intros e H; discriminate].
    - split; [|split]; [tauto|tauto|intros e H; inversion H; reflexivity].
  Qed.
End Ops.
