(* C14 T2 (forward direction): the mirror model of the explicit stack machine refines the
   specification model - whenever the machine returns (any fuel), what it generated is succ_list.
   Method: every configuration (char stack, candidate) denotes a position in the dictionary
   order; the invariant says "the words generated so far are exactly the specified words below
   that position (minus the pending current word)"; each of the three kinds of loop iteration
   (descend, next sibling, return to parent) moves the position forward over words that are
   either generated or cannot belong to the specification. *)
From Coq Require Import List Arith Bool Lia Sorted.
From AV Require Import Base.Util Base.Closure Spec.Lang Spec.FA Spec.DictOrder Model.Decide Model.Product
                       Model.Succ Model.SuccMachine Proofs.FARun Proofs.Product Proofs.FiniteSucc Proofs.Succ.
Import ListNotations.

(* ---------- small inversion lemmas ---------- *)
Definition is_prefix (q w : word) : Prop := exists z, w = q ++ z.

Lemma is_prefix_nil w : is_prefix [] w.
Proof. exists w. reflexivity. Qed.

Lemma is_prefix_cons c q y v : is_prefix (c :: q) (y :: v) <-> y = c /\ is_prefix q v.
Proof.
  split.
  - intros [z H]. simpl in H. inversion H; subst. split; [reflexivity|exists z; reflexivity].
  - intros [E [z Hz]]. subst. exists z. reflexivity.
Qed.

Lemma lex_lt_cons y v c u : lex_lt (y :: v) (c :: u) <-> y < c \/ (y = c /\ lex_lt v u).
Proof.
  split.
  - intro H. inversion H; subst; [left; assumption|right; split; [reflexivity|assumption]].
  - intros [H|[E H]]; [apply lex_head; exact H|subst; apply lex_tail; exact H].
Qed.

Lemma lex_lt_nil_r w : ~ lex_lt w [].
Proof. intro H. inversion H. Qed.

(* ---------- symbol_succ on a sorted alphabet ---------- *)
Lemma sym_succ_some l : ssorted l -> forall a b, sym_succ l a = Ok (Some b) ->
  In a l /\ In b l /\ a < b /\ forall y, In y l -> y < b -> y <= a.
Proof.
  induction l as [|x r IH]; intros Hs a b H; simpl in H; [discriminate|].
  destruct (a =? x) eqn:E.
  - apply Nat.eqb_eq in E. subst x. destruct r as [|b' r']; simpl in H; [discriminate|].
    inversion H; subst b'. pose proof (ssorted_lt _ _ Hs) as Hlt.
    split; [left; reflexivity|]. split; [right; left; reflexivity|].
    split; [apply Hlt; left; reflexivity|].
    intros y Hy Hyb. destruct Hy as [Hy|[Hy|Hy]]; [lia|lia|].
    pose proof (ssorted_lt _ _ (ssorted_tail _ _ Hs) y Hy). lia.
  - apply Nat.eqb_neq in E. destruct (IH (ssorted_tail _ _ Hs) a b H) as [Ha [Hb [Hab Hadj]]].
    split; [right; exact Ha|]. split; [right; exact Hb|]. split; [exact Hab|].
    intros y Hy Hyb. destruct Hy as [Hy|Hy]; [|apply Hadj; assumption].
    pose proof (ssorted_lt _ _ Hs a Ha). lia.
Qed.

Lemma sym_succ_none l : ssorted l -> forall a, sym_succ l a = Ok None ->
  In a l /\ forall y, In y l -> y <= a.
Proof.
  induction l as [|x r IH]; intros Hs a H; simpl in H; [discriminate|].
  destruct (a =? x) eqn:E.
  - apply Nat.eqb_eq in E. subst x. destruct r as [|b' r']; simpl in H; [|discriminate].
    split; [left; reflexivity|]. intros y [Hy|[]]. lia.
  - apply Nat.eqb_neq in E. destruct (IH (ssorted_tail _ _ Hs) a H) as [Ha Hmax].
    split; [right; exact Ha|]. intros y [Hy|Hy]; [|apply Hmax; exact Hy].
    pose proof (ssorted_lt _ _ Hs a Ha). lia.
Qed.

Lemma sym_succ_total l a : In a l -> exists n, sym_succ l a = Ok n.
Proof.
  induction l as [|x r IH]; intro H; [destruct H|]. simpl. destruct (a =? x) eqn:E; [eauto|].
  apply Nat.eqb_neq in E. destruct H as [H|H]; [congruence|apply IH; exact H].
Qed.

(* ---------- next_symbol: also defined on symbols outside the alphabet ---------- *)
Lemma next_sym_in l a : In a l -> forall r n, sym_succ l a = Ok n -> next_sym l r a = n.
Proof.
  intros Ha r n H. unfold next_sym. destruct (memb a l) eqn:E; [rewrite H; reflexivity|].
  apply memb_false in E. contradiction.
Qed.

Lemma next_sym_out l a r : ~ In a l -> next_sym l r a = find (fun b => if r then b <? a else a <? b) l.
Proof. intro Ha. unfold next_sym. destruct (memb a l) eqn:E; [apply memb_In in E; contradiction|reflexivity]. Qed.

Lemma find_gt_some l : ssorted l -> forall a b, find (fun b => a <? b) l = Some b ->
  In b l /\ a < b /\ forall y, In y l -> y < b -> y <= a.
Proof.
  induction l as [|x r IH]; intros Hs a b H; simpl in H; [discriminate|].
  destruct (a <? x) eqn:E.
  - inversion H; subst x. apply Nat.ltb_lt in E. split; [left; reflexivity|]. split; [exact E|].
    intros y [Hy|Hy] Hyb; [lia|]. pose proof (ssorted_lt _ _ Hs y Hy). lia.
  - apply Nat.ltb_ge in E. destruct (IH (ssorted_tail _ _ Hs) a b H) as [Hb [Hab Hadj]].
    split; [right; exact Hb|]. split; [exact Hab|]. intros y [Hy|Hy] Hyb; [lia|apply Hadj; assumption].
Qed.

Lemma find_gt_none l a : find (fun b => a <? b) l = None -> forall y, In y l -> y <= a.
Proof.
  intros H y Hy. pose proof (find_none _ _ H y Hy) as E. simpl in E. apply Nat.ltb_ge in E. exact E.
Qed.

Lemma next_sym_fwd_some l : ssorted l -> forall a b, next_sym l false a = Some b ->
  In b l /\ a < b /\ forall y, In y l -> y < b -> y <= a.
Proof.
  intros Hs a b H. destruct (in_dec Nat.eq_dec a l) as [Ha|Ha].
  - destruct (sym_succ_total l a Ha) as [n En]. rewrite (next_sym_in l a Ha false n En) in H. subst n.
    destruct (sym_succ_some l Hs a b En) as [_ [Hb [Hab Hadj]]]. auto.
  - rewrite (next_sym_out l a false Ha) in H. exact (find_gt_some l Hs a b H).
Qed.

Lemma next_sym_fwd_none l : ssorted l -> forall a, next_sym l false a = None -> forall y, In y l -> y <= a.
Proof.
  intros Hs a H. destruct (in_dec Nat.eq_dec a l) as [Ha|Ha].
  - destruct (sym_succ_total l a Ha) as [n En]. rewrite (next_sym_in l a Ha false n En) in H. subst n.
    exact (proj2 (sym_succ_none l Hs a En)).
  - rewrite (next_sym_out l a false Ha) in H. exact (find_gt_none l a H).
Qed.

(* ---------- three facts about the dictionary order over a sorted alphabet ---------- *)
Section OrderFacts.
  Variable syms : list nat.
  Notation ov := (Forall (fun x => In x syms)).

  (* b is the symbol right after a: below p.b = below p.a, or inside the subtree p.a *)
  Lemma adj_lt a b : a < b -> (forall y, In y syms -> y < b -> y <= a) ->
    forall p w, ov w -> (lex_lt w (p ++ [b]) <-> lex_lt w (p ++ [a]) \/ is_prefix (p ++ [a]) w).
  Proof.
    intros Hab Hadj. induction p as [|c p IH]; intros w Hw; simpl.
    - destruct w as [|y v].
      + split; [intros _; left; constructor|intros _; constructor].
      + inversion Hw as [|? ? Hy Hv]; subst. rewrite !lex_lt_cons, is_prefix_cons. split.
        * intros [H|[_ H]]; [|exfalso; exact (lex_lt_nil_r _ H)]. specialize (Hadj y Hy H).
          destruct (Nat.eq_dec y a) as [E|E]; [right; split; [exact E|apply is_prefix_nil]|left; left; lia].
        * intros [[H|[_ H]]|[H _]]; [left; lia|exfalso; exact (lex_lt_nil_r _ H)|left; lia].
    - destruct w as [|y v].
      + split; [intros _; left; constructor|intros _; constructor].
      + inversion Hw as [|? ? Hy Hv]; subst. pose proof (IH v Hv) as IHv.
        rewrite !lex_lt_cons, is_prefix_cons. tauto.
  Qed.

  (* a is the largest symbol: below-or-inside q = below-or-inside q.a *)
  Lemma max_lt a : (forall y, In y syms -> y <= a) ->
    forall q w, ov w -> (lex_lt w q \/ is_prefix q w <-> lex_lt w (q ++ [a]) \/ is_prefix (q ++ [a]) w).
  Proof.
    intros Hmax. induction q as [|c q IH]; intros w Hw; simpl.
    - split; [intros _|intros _; right; apply is_prefix_nil].
      destruct w as [|y v]; [left; constructor|]. inversion Hw as [|? ? Hy Hv]; subst.
      specialize (Hmax y Hy). destruct (Nat.eq_dec y a) as [E|E].
      + right. apply is_prefix_cons. split; [exact E|apply is_prefix_nil].
      + left. apply lex_head. lia.
    - destruct w as [|y v].
      + split; intros _; left; constructor.
      + inversion Hw as [|? ? Hy Hv]; subst. pose proof (IH v Hv) as IHv.
        rewrite !lex_lt_cons, !is_prefix_cons. tauto.
  Qed.

  (* f is the smallest symbol: below p.f = at or below p *)
  Lemma first_lt f : (forall y, In y syms -> f <= y) ->
    forall p w, ov w -> (lex_lt w (p ++ [f]) <-> lex_lt w p \/ w = p).
  Proof.
    intros Hmin. induction p as [|c p IH]; intros w Hw; simpl.
    - destruct w as [|y v].
      + split; [intros _; right; reflexivity|intros _; constructor].
      + inversion Hw as [|? ? Hy Hv]; subst. specialize (Hmin y Hy). rewrite lex_lt_cons. split.
        * intros [H|[_ H]]; [lia|exfalso; exact (lex_lt_nil_r _ H)].
        * intros [H|H]; [exfalso; exact (lex_lt_nil_r _ H)|discriminate].
    - destruct w as [|y v].
      + split; [intros _; left; constructor|intros _; constructor].
      + inversion Hw as [|? ? Hy Hv]; subst. pose proof (IH v Hv) as IHv. rewrite !lex_lt_cons. split.
        * intros [H|[E H]]; [left; left; exact H|]. apply IHv in H.
          destruct H as [H|H]; [left; right; split; assumption|right; subst; reflexivity].
        * intros [[H|[E H]]|E]; [left; exact H|right; split; [exact E|apply IHv; left; exact H]|].
          inversion E; subst. right. split; [reflexivity|apply IHv; right; reflexivity].
  Qed.

  (* the position a configuration stands at: the next word to look at, None = past the end *)
  Fixpoint apos_none (cs : list nat) : option word :=
    match cs with
    | [] => None
    | c :: cs' => match next_sym syms false c with
                  | Some b => Some (rev cs' ++ [b])
                  | None => apos_none cs'
                  end
    end.
  Definition apos (cs : list nat) (cand : option nat) : option word :=
    match cand with
    | Some a => Some (rev cs ++ [a])
    | None => apos_none cs
    end.

  Lemma apos_none_cons c cs : apos (c :: cs) None = apos cs (next_sym syms false c).
  Proof. unfold apos. simpl. destruct (next_sym syms false c); reflexivity. Qed.

  Definition lt_pos (w : word) (pos : option word) : Prop :=
    match pos with None => True | Some x => lex_lt w x end.

  Hypothesis Hss : ssorted syms.

  (* neither the stack word nor the symbol a has to be over the alphabet *)
  Lemma apos_succ : forall cs a w, ov w ->
    (lt_pos w (apos cs (next_sym syms false a)) <-> lex_lt w (rev cs ++ [a]) \/ is_prefix (rev cs ++ [a]) w).
  Proof.
    induction cs as [|c cs IH]; intros a w Hw; destruct (next_sym syms false a) as [b|] eqn:Hn.
    - destruct (next_sym_fwd_some _ Hss _ _ Hn) as [_ [Hab Hadj]]. exact (adj_lt a b Hab Hadj [] w Hw).
    - pose proof (max_lt a (next_sym_fwd_none _ Hss _ Hn) [] w Hw) as H.
      simpl in H. simpl. split; [intros _; apply H; right; apply is_prefix_nil|trivial].
    - destruct (next_sym_fwd_some _ Hss _ _ Hn) as [_ [Hab Hadj]].
      exact (adj_lt a b Hab Hadj (rev (c :: cs)) w Hw).
    - rewrite (apos_none_cons c cs). pose proof (IH c w Hw) as H1.
      pose proof (max_lt a (next_sym_fwd_none _ Hss _ Hn) (rev cs ++ [c]) w Hw) as H2. simpl rev. tauto.
  Qed.
End OrderFacts.

(* ---------- the invariant and its preservation ---------- *)
Section Fwd.
  Variable m : dfa.
  Hypothesis Hv : valid_dfa m = true.
  Variables (start : option word) (strict : bool) (lo : nat) (ohi : option nat).
  Hypothesis Hfin : ohi = None -> finite_lang (L_dfa m).
  Variable co : list nat.
  Hypothesis Hco : forall q, In q co <-> In q (d_states m) /\ coacc m q.
  Variable syms : list nat.
  Hypothesis Hss : ssorted syms.
  Hypothesis Hsy : forall a, In a syms <-> In a (d_syms m).
  Variable first : nat.
  Hypothesis Hfirst : forall y, In y syms -> first <= y.
  Hypothesis Hfirst_in : In first syms.

  Notation ov := (Forall (fun x => In x syms)).
  Notation hi := (the_hi m ohi).
  Notation spec := (succ_spec m start strict lo hi).
  Notation run w := (dfa_run m (Some (d_init m)) w).

  Fixpoint stack_ok (ss : list (option nat)) (cs : list nat) {struct cs} : Prop :=
    match cs with
    | [] => ss = [Some (d_init m)]
    | c :: cs' => match ss with
                  | [] => False
                  | s :: ss' => s = run (rev cs) /\ stack_ok ss' cs'
                  end
    end.

  Lemma stack_top ss cs : stack_ok ss cs -> exists ss', ss = run (rev cs) :: ss'.
  Proof.
    destruct cs as [|c cs]; simpl.
    - intro H. exists []. rewrite H. reflexivity.
    - destruct ss as [|s ss']; [intros []|]. intros [H _]. exists ss'. rewrite H. reflexivity.
  Qed.

  (* the start word may hold symbols outside the alphabet, so nothing is said about the char stack *)
  Definition wf (C : cfg) : Prop :=
    stack_ok (c_states C) (c_chars C) /\ forall a, c_cand C = Some a -> In a syms.


  Definition pending (C : cfg) : Prop := c_cand C = Some first /\ c_yield C = true.

  Definition inP (C : cfg) (w : word) : Prop :=
    lt_pos w (apos syms (c_chars C) (c_cand C)) /\ ~ (pending C /\ w = rev (c_chars C)).

  Definition Inv (out : list word) (C : cfg) : Prop :=
    StronglySorted lex_lt out /\
    (forall w, In w out <-> spec w /\ inP C w) /\
    (forall w, ov w -> ~ inP C w -> after start strict w).

  Lemma spec_over w : spec w -> ov w.
  Proof.
    intros [Hw _]. pose proof (acc_syms m Hv w Hw) as H. rewrite Forall_forall in *.
    intros a Ha. apply Hsy. apply H. exact Ha.
  Qed.

  Lemma pend_dec C w : (pending C /\ w = rev (c_chars C)) \/ ~ (pending C /\ w = rev (c_chars C)).
  Proof.
    unfold pending. destruct (c_cand C) as [x|]; [|right; intros [[H _] _]; discriminate].
    destruct (Nat.eq_dec x first) as [->|N]; [|right; intros [[H _] _]; congruence].
    destruct (c_yield C); [|right; intros [[_ H] _]; discriminate].
    destruct (list_eq_dec Nat.eq_dec w (rev (c_chars C))) as [E|N]; [left; auto|right; tauto].
  Qed.

  (* while the current word is pending, everything generated so far is below it *)
  Lemma inP_pending_lt C w : ov w -> pending C -> inP C w -> lex_lt w (rev (c_chars C)).
  Proof.
    intros Hw Hp [H1 H2]. destruct Hp as [Hc Hy]. rewrite Hc in H1. simpl in H1.
    apply (first_lt syms first Hfirst _ w Hw) in H1. destruct H1 as [H1|H1]; [exact H1|].
    exfalso. apply H2. split; [split; assumption|exact H1].
  Qed.

  Lemma len_ok_spec p : dfa_acc m p = true ->
    (len_ok lo ohi (length p) = true <-> lo <= length p <= hi).
  Proof.
    intro Ha. unfold len_ok, the_hi. destruct ohi as [h|].
    - rewrite andb_true_iff, !Nat.leb_le. tauto.
    - destruct (finite_isfinite m Hv (Hfin eq_refl)) as [_ Hb]. specialize (Hb p Ha).
      unfold default_hi. rewrite andb_true_iff, Nat.leb_le. split; [intros [H _]; lia|intros [H _]; auto].
  Qed.

  (* a child that is not entered has no specified word below it *)
  Lemma nonviable p a :
    in_co co (ostep m (run p) a) && can_descend ohi (length p) = false ->
    forall w, is_prefix (p ++ [a]) w -> ~ spec w.
  Proof.
    intros Hnv w [z ->] [Hacc [[_ Hlen] _]]. apply andb_false_iff in Hnv. destruct Hnv as [Hnv|Hnv].
    - unfold L_dfa, dfa_acc, dfa_acc_from in Hacc. rewrite !dfa_run_app in Hacc. simpl in Hacc.
      destruct (ostep m (run p) a) as [t|] eqn:Et; [|rewrite dfa_run_None in Hacc; discriminate].
      simpl in Hnv. apply memb_false in Hnv. apply Hnv. apply Hco. split.
      + pose proof (dfa_run_ok m Hv (p ++ [a]) _ (init_ok m Hv)) as Hok.
        rewrite dfa_run_app in Hok. simpl in Hok. rewrite Et in Hok. exact Hok.
      + exists z. exact Hacc.
    - unfold can_descend in Hnv. destruct ohi as [h|] eqn:Eo; [|discriminate].
      apply Nat.ltb_ge in Hnv. simpl in Hlen. rewrite !app_length in Hlen. simpl in Hlen. lia.
  Qed.

  (* the successor yield point *)
  Lemma y1_cases C :
    let y1 := emit m lo ohi C (run (rev (c_chars C))) true (eqb_opt Nat.eqb (c_cand C) (Some first)) in
    (forall w, ov w -> ~ inP C w -> after start strict w) ->
    (y1 = [rev (c_chars C)] /\ pending C /\ spec (rev (c_chars C))) \/
    (y1 = [] /\ ~ (pending C /\ spec (rev (c_chars C)))).
  Proof.
    intros y1 HA. subst y1. unfold emit. set (p := rev (c_chars C)).
    assert (Hlen : length (c_chars C) = length p) by (unfold p; rewrite rev_length; reflexivity).
    rewrite Hlen.
    destruct (c_yield C) eqn:Ey; simpl; [|right; split; [reflexivity|intros [[_ H] _]; congruence]].
    destruct (len_ok lo ohi (length p)) eqn:El; simpl.
    - destruct (eqb_opt Nat.eqb (c_cand C) (Some first)) eqn:Ec; simpl.
      + apply (eqb_opt_ok Nat.eqb eqb_nat_ok) in Ec.
        destruct (ofinal m (run p)) eqn:Ef.
        * left. split; [reflexivity|]. split; [split; assumption|].
          assert (Hacc : dfa_acc m p = true) by exact Ef.
          split; [exact Hacc|]. split; [apply len_ok_spec; assumption|].
          apply HA.
          -- pose proof (acc_syms m Hv p Hacc) as H. rewrite Forall_forall in *.
             intros a Ha. apply Hsy. apply H. exact Ha.
          -- intros [_ H]. apply H. split; [split; assumption|reflexivity].
        * right. split; [reflexivity|]. intros [_ [H _]]. unfold L_dfa, dfa_acc, dfa_acc_from in H. congruence.
      + right. split; [reflexivity|]. intros [[H _] _]. rewrite H in Ec.
        rewrite (eqb_ok_refl _ (eqb_opt_ok Nat.eqb eqb_nat_ok)) in Ec. discriminate.
    - right. split; [reflexivity|]. intros [_ [Ha [Hl _]]]. apply (len_ok_spec p Ha) in Hl. congruence.
  Qed.

  (* moving the position forward over the pending word and over words outside the specification *)
  Lemma inv_advance out C C' (E : word -> Prop) :
    Inv out C ->
    (forall w, ov w -> (inP C' w <-> inP C w \/ (pending C /\ w = rev (c_chars C)) \/ E w)) ->
    (forall w, E w -> ~ spec w) ->
    Inv (out ++ emit m lo ohi C (run (rev (c_chars C))) true (eqb_opt Nat.eqb (c_cand C) (Some first))) C'.
  Proof.
    intros [Hs [Hc HA]] Hstep HE.
    destruct (y1_cases C HA) as [[-> [Hp Hsp]]|[-> Hn]].
    - split; [|split].
      + apply SSorted_app; [exact Hs|constructor; constructor|].
        intros x y Hx [<-|[]]. apply Hc in Hx. destruct Hx as [Hx1 Hx2].
        apply inP_pending_lt; [apply spec_over; exact Hx1|exact Hp|exact Hx2].
      + intro w. rewrite in_app_iff. split.
        * intros [H|[<-|[]]].
          -- apply Hc in H. destruct H as [H1 H2]. split; [exact H1|].
             apply Hstep; [apply spec_over; exact H1|left; exact H2].
          -- split; [exact Hsp|]. apply Hstep; [apply spec_over; exact Hsp|right; left; split; [exact Hp|reflexivity]].
        * intros [H1 H2]. apply (Hstep w (spec_over w H1)) in H2. destruct H2 as [H2|[[_ H2]|H2]].
          -- left. apply Hc. split; assumption.
          -- right. left. symmetry. exact H2.
          -- exfalso. exact (HE w H2 H1).
      + intros w Hw Hn. apply HA; [exact Hw|]. intro H. apply Hn. apply Hstep; [exact Hw|left; exact H].
    - rewrite app_nil_r. split; [exact Hs|split].
      + intro w. split.
        * intro H. apply Hc in H. destruct H as [H1 H2]. split; [exact H1|].
          apply Hstep; [apply spec_over; exact H1|left; exact H2].
        * intros [H1 H2]. apply (Hstep w (spec_over w H1)) in H2. destruct H2 as [H2|[[Hp H2]|H2]].
          -- apply Hc. split; assumption.
          -- exfalso. apply Hn. split; [exact Hp|rewrite <- H2; exact H1].
          -- exfalso. exact (HE w H2 H1).
      + intros w Hw Hn'. apply HA; [exact Hw|]. intro H. apply Hn'. apply Hstep; [exact Hw|left; exact H].
  Qed.

  (* the successor of a symbol that is not below the whole alphabet is never the first symbol *)
  Lemma succ_not_first a b : first <= a -> next_sym syms false a = Some b -> b <> first.
  Proof. intros Ha H. destruct (next_sym_fwd_some _ Hss _ _ H) as [_ [Hab _]]. lia. Qed.

  Lemma not_pending_succ ss cs a y : first <= a -> ~ pending (mkcfg ss cs (next_sym syms false a) y).
  Proof. intros Ha [Hc _]. simpl in Hc. exact (succ_not_first a first Ha Hc eq_refl). Qed.

  (* back at the parent (366d64a): should_yield is false exactly when the candidate is the first symbol *)
  Lemma not_pending_back ss cs n : ~ pending (mkcfg ss cs n (negb (eqb_opt Nat.eqb n (Some first)))).
  Proof.
    intros [Hc Hy]. simpl in Hc, Hy. subst n.
    rewrite (eqb_ok_refl _ (eqb_opt_ok Nat.eqb eqb_nat_ok)) in Hy. discriminate.
  Qed.

  (* one loop iteration preserves well-formedness and the invariant *)
  Lemma step_correct out C y C' :
    wf C -> Inv out C -> mstep m co syms first false lo ohi C = Ok (y, C') ->
    wf C' /\ Inv (out ++ y) C'.
  Proof.
    intros [Hst Hcand] Hinv H. unfold mstep in H.
    destruct (stack_top _ _ Hst) as [below Ess]. rewrite Ess in H. cbv zeta in H. simpl negb in H.
    remember (emit m lo ohi C (run (rev (c_chars C))) true (eqb_opt Nat.eqb (c_cand C) (Some first))) as y1 eqn:Ey1.
    assert (Hemit0 : emit m lo ohi C (run (rev (c_chars C))) false true = []) by reflexivity.
    rewrite Hemit0 in H. clear Hemit0.
    set (p := rev (c_chars C)) in *.
    revert H. destruct (c_cand C) as [a|] eqn:Ec; intro H.
    - (* a candidate child *)
      assert (Ha : In a syms) by (apply Hcand; reflexivity).
      assert (Hpa : rev (a :: c_chars C) = p ++ [a]) by reflexivity.
      rewrite <- Ec in Ey1.
      revert H.
      destruct (in_co co (ostep m (run p) a) && can_descend ohi (length (c_chars C))) eqn:Evi; intro H.
      + (* descend *)
        inversion H; subst y C'; clear H. split.
        * split; simpl.
          -- split; [|rewrite <- Ess; exact Hst]. fold p. rewrite dfa_run_app. reflexivity.
          -- intros x Hx. inversion Hx; subst. exact Hfirst_in.
        * rewrite Ey1. apply (inv_advance out C _ (fun _ => False)); [exact Hinv| |tauto].
          intros w Hw. unfold inP. simpl c_chars. simpl c_cand. rewrite Ec. unfold apos. rewrite Hpa. fold p. simpl lt_pos.
          assert (Hpend : pending (mkcfg (ostep m (run p) a :: c_states C) (a :: c_chars C) (Some first) true))
            by (split; reflexivity).
          pose proof (first_lt syms first Hfirst (p ++ [a]) w Hw) as Hfl.
          destruct (pend_dec C w) as [Hpw|Hpw]; fold p in Hpw.
          -- destruct Hpw as [Hp Ew]. subst w. split; [intros _; right; left; split; [exact Hp|reflexivity]|].
             intros _. split.
             ++ apply Hfl. left. apply lex_lt_prefix.
             ++ intros [_ E]. apply (f_equal (@length nat)) in E. rewrite app_length in E. simpl in E. lia.
          -- split.
             ++ intros [H1 H2]. left. split; [|exact Hpw]. apply Hfl in H1. destruct H1 as [H1|H1]; [exact H1|].
                exfalso. apply H2. split; [exact Hpend|exact H1].
             ++ intros [[H1 _]|[H1|[]]]; [|contradiction]. split.
                ** apply Hfl. left. exact H1.
                ** intros [_ E]. subst w. exact (lex_lt_irrefl _ H1).
      + (* next sibling *)
        inversion H; subst y C'; clear H.
        assert (Hfa : first <= a) by (apply Hfirst; exact Ha).
        split.
        * split; simpl; [rewrite <- Ess; exact Hst|].
          intros x Hx. destruct (next_sym_fwd_some _ Hss _ _ Hx) as [Hb _]. exact Hb.
        * rewrite Ey1.
          apply (inv_advance out C _ (fun w => is_prefix (p ++ [a]) w)); [exact Hinv| |].
          -- intros w Hw. unfold inP. simpl c_chars. simpl c_cand. rewrite Ec.
             unfold apos at 2. fold p. simpl lt_pos.
             pose proof (apos_succ syms Hss (c_chars C) a w Hw) as Hk. fold p in Hk.
             pose proof (not_pending_succ (c_states C) (c_chars C) a true Hfa) as Hnp.
             destruct (pend_dec C w) as [Hpw|Hpw]; fold p in Hpw.
             ++ destruct Hpw as [Hp Ew]. subst w. split; [intros _; right; left; split; [exact Hp|reflexivity]|].
                intros _. split; [apply Hk; left; apply lex_lt_prefix|tauto].
             ++ split.
                ** intros [H1 _]. apply Hk in H1. destruct H1 as [H1|H1]; [left; split; assumption|right; right; exact H1].
                ** intros [[H1 _]|[H1|H1]]; [|contradiction|]; (split; [apply Hk; tauto|tauto]).
          -- intros w Hw. apply (nonviable p a); [|exact Hw].
             unfold p at 2. rewrite rev_length. exact Evi.
    - (* no candidate left: return to the parent *)
      assert (Hy1 : y1 = []).
      { rewrite Ey1. unfold emit. simpl. rewrite ?andb_false_r. reflexivity. }
      clear Ey1. subst y1. unfold p in *. clear p.
      revert H Hst Hinv. destruct (c_chars C) as [|a cs] eqn:Ecs; intros H Hst Hinv; [discriminate|].
      cbv zeta in H. inversion H; subst y C'; clear H. simpl app. rewrite app_nil_r.
      simpl in Hst. rewrite Ess in Hst. destruct Hst as [_ Hst].
      set (nxt := next_sym syms false a) in *.
      split.
      + split; simpl; [exact Hst|].
        intros x Hx. destruct (next_sym_fwd_some _ Hss _ _ Hx) as [Hb _]. exact Hb.
      + destruct Hinv as [Hs [Hc HA]].
        assert (Heq : forall w, inP (mkcfg below cs nxt (negb (eqb_opt Nat.eqb nxt (Some first)))) w <-> inP C w).
        { intro w. unfold inP. rewrite Ecs, Ec. simpl c_chars. simpl c_cand.
          rewrite (apos_none_cons syms a cs). fold nxt.
          pose proof (not_pending_back below cs nxt) as Hnp.
          assert (Hnp' : ~ pending C) by (intros [Hx _]; congruence).
          tauto. }
        split; [exact Hs|split].
        * intro w. rewrite Heq. apply Hc.
        * intros w Hw Hn. apply HA; [exact Hw|]. rewrite <- Heq. exact Hn.
  Qed.

  Lemma loop_correct : forall f C out l, wf C -> Inv out C ->
    mloop m co syms first false lo ohi f C = Ok l ->
    StronglySorted lex_lt (out ++ l) /\ forall w, In w (out ++ l) <-> spec w.
  Proof.
    assert (Hexit : forall C out l, wf C -> Inv out C -> c_chars C = [] -> c_cand C = None ->
              match c_states C with [] => Err IndexErr | state :: _ => Ok (emit m lo ohi C state false true) end = Ok l ->
              StronglySorted lex_lt (out ++ l) /\ forall w, In w (out ++ l) <-> spec w).
    { intros C out l [Hst _] [Hs [Hc _]] Ecs Ec H. destruct (stack_top _ _ Hst) as [below Ess]. rewrite Ess in H.
      unfold emit in H. simpl in H. inversion H; subst l. rewrite app_nil_r. split; [exact Hs|].
      intro w. rewrite Hc. unfold inP, pending. rewrite Ecs, Ec. simpl. split; [tauto|].
      intro H1. split; [exact H1|]. split; [exact I|]. intros [[H2 _] _]. discriminate. }
    induction f as [|f IH]; intros C out l Hwf Hinv H; simpl in H.
    - destruct (c_chars C) eqn:Ecs; destruct (c_cand C) eqn:Ec; try discriminate.
      apply (Hexit C); assumption.
    - destruct (c_chars C) eqn:Ecs; destruct (c_cand C) eqn:Ec;
        try (apply (Hexit C); assumption);
        (destruct (mstep m co syms first false lo ohi C) as [[y C']|e] eqn:Est; simpl in H; [|discriminate];
         destruct (mloop m co syms first false lo ohi f C') as [l'|e] eqn:El; simpl in H; [|discriminate];
         inversion H; subst l;
         destruct (step_correct out C y C' Hwf Hinv Est) as [Hwf' Hinv'];
         rewrite app_assoc; exact (IH C' (out ++ y) l' Hwf' Hinv' El)).
  Qed.
End Fwd.

(* ---------- initial configuration, and the theorem ---------- *)
Lemma trace_rev_ok m : forall w u acc q,
  q = dfa_run m (Some (d_init m)) u -> stack_ok m (q :: acc) (rev u) ->
  stack_ok m (trace_rev m acc q w) (rev (u ++ w)).
Proof.
  induction w as [|a w IH]; intros u acc q Hq Hst; simpl.
  - rewrite app_nil_r. exact Hst.
  - replace (u ++ a :: w) with ((u ++ [a]) ++ w) by (rewrite <- app_assoc; reflexivity).
    apply IH.
    + rewrite dfa_run_app, <- Hq. reflexivity.
    + rewrite rev_unit. simpl. split; [|exact Hst].
      rewrite rev_involutive, dfa_run_app, <- Hq. reflexivity.
Qed.

(* over the empty alphabet the guard is the whole specification *)
Lemma dict_order_nil hi : dict_order [] hi = [[]].
Proof. destruct hi; reflexivity. Qed.

Lemma empty_guard_succ m start strict lo hi : set_of (d_syms m) = [] ->
  empty_alphabet_guard m start strict false lo = succ_list m start strict lo hi.
Proof.
  intro E. unfold succ_list, empty_alphabet_guard. rewrite E, dict_order_nil. simpl filter.
  unfold succ_keep, in_window, dfa_acc, dfa_acc_from. simpl.
  destruct (memb (d_init m) (d_finals m)); destruct (lo <=? 0); simpl; rewrite ?andb_false_r; try reflexivity;
    destruct start as [[|c s]|]; destruct strict; reflexivity.
Qed.

Lemma empty_guard_pred m start strict lo hi : set_of (d_syms m) = [] ->
  empty_alphabet_guard m start strict true lo = pred_list m start strict lo hi.
Proof.
  intro E. unfold pred_list, empty_alphabet_guard. rewrite E, dict_order_nil. simpl filter.
  unfold pred_keep, in_window, dfa_acc, dfa_acc_from. simpl.
  destruct (memb (d_init m) (d_finals m)); destruct (lo <=? 0); simpl; rewrite ?andb_false_r; try reflexivity;
    destruct start as [[|c s]|]; destruct strict; reflexivity.
Qed.

(* nothing is assumed about the start word: its symbols may lie inside, below, between or above
   the alphabet's *)
Theorem machine_forward_correct fuel m start strict lo ohi l :
  valid_dfa m = true ->
  (ohi = None -> finite_lang (L_dfa m)) ->
  succ_machine fuel m start strict false lo ohi = Ok l ->
  l = succ_list m start strict lo (the_hi m ohi).
Proof.
  intros Hv Hfin H. unfold succ_machine in H. simpl in H.
  destruct (coreach_states_ok m Hv) as [co [Eco Hco]]. rewrite Eco in H. simpl in H.
  unfold machine_syms in H.
  pose proof (set_of_sorted (d_syms m)) as Hss.
  destruct (set_of (d_syms m)) as [|first rest] eqn:Esy.
  { inversion H. apply empty_guard_succ. exact Esy. }
  assert (Hsy : forall a, In a (first :: rest) <-> In a (d_syms m)) by (intro a; rewrite <- Esy; apply set_of_In).
  assert (Hfirst : forall y, In y (first :: rest) -> first <= y).
  { intros y [<-|Hy]; [lia|]. pose proof (ssorted_lt _ _ Hss y Hy). lia. }
  assert (Hfin_in : In first (first :: rest)) by (left; reflexivity).
  set (C0 := init_cfg m first start strict false) in *.
  assert (Hwf : wf m (first :: rest) C0).
  { unfold C0, init_cfg. destruct start as [s|]; split; simpl.
    - apply (trace_rev_ok m s [] [] (Some (d_init m))); reflexivity.
    - intros a Ha. inversion Ha; subst. exact Hfin_in.
    - reflexivity.
    - intros a Ha. inversion Ha; subst. exact Hfin_in. }
  assert (Hinv : Inv m start strict lo ohi (first :: rest) first [] C0).
  { unfold C0, init_cfg. destruct start as [s|].
    - split; [constructor|]. unfold inP, pending. simpl. rewrite rev_involutive. split.
      + intro w. split; [intros []|]. intros [Hsp [H1 H2]].
        pose proof (spec_over m Hv (Some s) strict lo ohi (first :: rest) Hsy w Hsp) as Hw.
        apply (first_lt (first :: rest) first Hfirst s w Hw) in H1.
        destruct Hsp as [_ [_ Haf]]. simpl in Haf. destruct strict; simpl in *.
        * destruct H1 as [H1|H1]; [exact (lex_lt_asym _ _ H1 Haf)|subst; exact (lex_lt_irrefl _ Haf)].
        * destruct H1 as [H1|H1]; [|apply H2; split; [split; reflexivity|exact H1]].
          destruct Haf as [Haf|Haf]; [exact (lex_lt_asym _ _ H1 Haf)|subst; exact (lex_lt_irrefl _ H1)].
      + intros w Hw Hn. simpl. destruct (lex_lt_total s w) as [Hlt|[Heq|Hgt]].
        * destruct strict; [exact Hlt|left; exact Hlt].
        * subst w. destruct strict; simpl in *.
          -- exfalso. apply Hn. split; [|intros [[_ Hx] _]; discriminate].
             apply (first_lt (first :: rest) first Hfirst s s Hw). right. reflexivity.
          -- right. reflexivity.
        * exfalso. apply Hn. split.
          -- apply (first_lt (first :: rest) first Hfirst s w Hw). left. exact Hgt.
          -- intros [_ Hx]. subst w. exact (lex_lt_irrefl _ Hgt).
    - split; [constructor|]. unfold inP, pending. simpl. split.
      + intro w. split; [intros []|]. intros [Hsp [H1 H2]].
        pose proof (spec_over m Hv None strict lo ohi (first :: rest) Hsy w Hsp) as Hw.
        apply (first_lt (first :: rest) first Hfirst [] w Hw) in H1.
        destruct H1 as [H1|H1]; [exact (lex_lt_nil_r _ H1)|]. apply H2. split; [split; reflexivity|exact H1].
      + intros w _ _. exact I. }
  destruct (loop_correct m Hv start strict lo ohi Hfin co Hco (first :: rest) Hss Hsy first Hfirst Hfin_in
              fuel C0 [] l Hwf Hinv H) as [Hsorted Hmem].
  simpl in Hsorted, Hmem. apply (succ_list_unique m Hv); assumption.
Qed.
